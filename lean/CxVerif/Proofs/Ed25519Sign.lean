/-
  Proofs.Ed25519Sign — key generation and signing of ed25519.rs (Impl/Ed25519.lean) equal RFC 8032 §5.1.5/§5.1.6
  (Spec/Ed25519.lean): composition of SHA-512 (C02 split independence), clamping, `Scalar::from_bytes`,
  `reduce_from_wide_bytes`, `muladd`, `to_bytes`, `scalarmult_base` and `Ge::to_bytes`.

  The scalar unit's theorems enter through the interface `ScalarFacts` (five statements in the shapes of
  unit scalar64's `Proofs.Scalar64.*_spec`; `SInv` is its limb invariant `Inv`), the group law through
  `GroupLawFact`, primality through `[Fact (Nat.Prime p)]`.
-/
import CxVerif.Proofs.GeComb
import CxVerif.Proofs.GeBytes
import CxVerif.Proofs.Ed25519Sha
import CxVerif.Spec.Ed25519
namespace Cx.Proofs.Ed25519Sign
open Cx Cx.Spec Cx.Impl.Ge Cx.Impl.Ed25519 Cx.Proofs.EdSpec Cx.Proofs.GeRefine Cx.Proofs.GeComb Cx.Proofs.Ed25519Sha
open Cx.Proofs.Fe64 (some_bind pure_eq_some)
open Cx.Impl.Scalar64 (Scalar)
open Cx.Spec.Field25519 (p)
open Cx.Spec.ScalarL (L)

set_option maxRecDepth 10000

/-- the limb invariant of `Scalar` (unit scalar64's `Inv`): four 56-bit limbs and a 32-bit top limb -/
def SInv (s : Scalar) : Prop := s.l0 < 2^56 ∧ s.l1 < 2^56 ∧ s.l2 < 2^56 ∧ s.l3 < 2^56 ∧ s.l4 < 2^32

/-- what this development uses of the scalar unit -/
structure ScalarFacts : Prop where
  fromBytes : ∀ b : Bytes, b.length = 32 → ∃ s, Impl.Scalar64.fromBytes b = some s ∧ SInv s ∧ s.val = leNat b
  reduceWide : ∀ h : Bytes, h.length = 64 →
    ∃ s, Impl.Scalar64.reduceFromWideBytes h = some s ∧ SInv s ∧ s.val = leNat h % L
  muladd : ∀ a b c : Scalar, SInv a → SInv b → SInv c → c.val < L →
    ∃ o, Impl.Scalar64.muladd a b c = some o ∧ o.val = (a.val * b.val + c.val) % L ∧ SInv o
  toBytes : ∀ s : Scalar, SInv s → Impl.Scalar64.to_bytes s = natToLE 32 s.val
  nibbles : ∀ s : Scalar, SInv s → s.val < 2^255 → NibblesOf s s.val

/-! ### bytes: clamping -/

theorem clamp_byte31 : (fun x : UInt8 => (x &&& 0b00111111) ||| 0b01000000) = (fun x : UInt8 => (x &&& 127) ||| 64) := by
  funext x
  have h : ∀ n : Fin 256, (UInt8.ofNat n.val &&& 0b00111111) ||| 0b01000000 = (UInt8.ofNat n.val &&& 127) ||| 64 := by
    decide
  have := h ⟨x.toNat, x.toNat_lt⟩
  simpa using this

/-- `clamp_scalar` on the 64-byte hash is the Spec's pruning of the first half; the second half is untouched -/
theorem clamp_scalar_eq (h : Bytes) (hl : h.length = 64) :
    clamp_scalar h = some (Spec.Ed25519.clamp (h.take 32) ++ h.drop 32) := by
  unfold clamp_scalar
  rw [if_neg (by omega)]
  dsimp only
  congr 1
  rw [← List.take_append_drop 32 (((h.modify 0 _).modify 31 _).modify 31 _)]
  congr 1
  · rw [List.take_modify, List.take_modify, List.take_modify]
    unfold Spec.Ed25519.clamp
    rw [List.modify_modify_eq, List.modify_modify_eq]
    congr 1
    exact clamp_byte31
  · rw [List.drop_modify_of_lt _ _ _ _ (by decide), List.drop_modify_of_lt _ _ _ _ (by decide),
      List.drop_modify_of_lt _ _ _ _ (by decide)]

theorem sha512_length (m : Bytes) : (Spec.Sha2.sha512 m).length = 64 := by
  simp [Spec.Sha2.sha512, Spec.Sha2.wordsToBytes64, Spec.Sha2.W8.toList, u64be, natToBE, Proofs.Fe64.natToLE_length]

theorem clamp_length (h : Bytes) : (Spec.Ed25519.clamp h).length = h.length := by
  simp [Spec.Ed25519.clamp]

/-- `extended_secret` is the Spec's expanded seed -/
theorem extended_secret_eq (seed : Bytes) (hs : seed.length = 32) :
    extended_secret seed = some (Spec.Ed25519.expandSeed seed) := by
  unfold extended_secret
  rw [if_pos hs, sha512_1_eq seed (by rw [hs]; decide), some_bind, clamp_scalar_eq _ (sha512_length seed)]
  rfl

theorem expandSeed_length (seed : Bytes) : (Spec.Ed25519.expandSeed seed).length = 64 := by
  unfold Spec.Ed25519.expandSeed Spec.Ed25519.H
  rw [List.length_append, clamp_length, List.length_take, List.length_drop, sha512_length]
  decide

theorem expandSeed_take (seed : Bytes) :
    (Spec.Ed25519.expandSeed seed).take 32 = Spec.Ed25519.clamp ((Spec.Ed25519.H seed).take 32) := by
  unfold Spec.Ed25519.expandSeed
  rw [List.take_append_of_le_length (by rw [clamp_length, List.length_take]; unfold Spec.Ed25519.H; rw [sha512_length]; decide)]
  rw [List.take_of_length_le (by rw [clamp_length, List.length_take]; unfold Spec.Ed25519.H; rw [sha512_length]; decide)]

theorem expandSeed_drop (seed : Bytes) : (Spec.Ed25519.expandSeed seed).drop 32 = (Spec.Ed25519.H seed).drop 32 := by
  unfold Spec.Ed25519.expandSeed
  rw [List.drop_append_of_le_length (by rw [clamp_length, List.length_take]; unfold Spec.Ed25519.H; rw [sha512_length]; decide)]
  rw [List.drop_of_length_le (by rw [clamp_length, List.length_take]; unfold Spec.Ed25519.H; rw [sha512_length]; decide)]
  rfl

/-! ### bytes: little-endian values -/

theorem leNat_append (a b : Bytes) : leNat (a ++ b) = leNat a + 256 ^ a.length * leNat b := by
  induction a with
  | nil => simp [leNat]
  | cons x xs ih => simp only [List.cons_append, leNat, ih, List.length_cons, Nat.pow_succ]; ring

theorem leNat_lt (a : Bytes) : leNat a < 256 ^ a.length := by
  induction a with
  | nil => simp [leNat]
  | cons x xs ih =>
    simp only [leNat, List.length_cons, Nat.pow_succ]
    have := x.toNat_lt
    omega

/-- a 32-byte string whose last byte is below 128 denotes a number below 2^255 -/
theorem leNat_lt_255 (l : Bytes) (hl : l.length = 32) (x : UInt8) (hx : l[31]? = some x) (h128 : x.toNat < 128) :
    leNat l < 2 ^ 255 := by
  have hsplit : l = l.take 31 ++ [x] := by
    have h1 : l = l.take 31 ++ l.drop 31 := (List.take_append_drop 31 l).symm
    have h2 : l.drop 31 = [x] := by
      apply List.ext_getElem?
      intro i
      rw [List.getElem?_drop]
      cases i with
      | zero => simpa using hx
      | succ i => simp; omega
    rw [h2] at h1; exact h1
  rw [hsplit, leNat_append]
  have h31 : (l.take 31).length = 31 := by simp [hl]
  have := leNat_lt (l.take 31)
  rw [h31] at this ⊢
  simp only [leNat]
  have e : (2 : Nat) ^ 255 = 128 * 256 ^ 31 := by decide
  rw [e]
  have : 256 ^ 31 * (x.toNat + 256 * 0) ≤ 256 ^ 31 * 127 := Nat.mul_le_mul_left _ (by omega)
  omega

theorem clamp_top_byte : ∀ n : Fin 256, ((UInt8.ofNat n.val &&& 127) ||| 64).toNat < 128 := by decide

/-- the pruned scalar is below 2^255 -/
theorem clamp_lt (h : Bytes) (hl : h.length = 32) : leNat (Spec.Ed25519.clamp h) < 2 ^ 255 := by
  obtain ⟨x, hx⟩ : ∃ x, h[31]? = some x := ⟨h[31], by rw [List.getElem?_eq_getElem]⟩
  apply leNat_lt_255 _ (by rw [clamp_length, hl]) ((x &&& 127) ||| 64)
  · unfold Spec.Ed25519.clamp
    rw [List.modify_modify_eq, List.getElem?_modify_eq, List.getElem?_modify_ne _ _ (by decide), hx]
    rfl
  · have := clamp_top_byte ⟨x.toNat, x.toNat_lt⟩
    simpa using this

theorem encode_length (P : Edwards.Point) : (Edwards.encode P).length = 32 := Proofs.Fe64.natToLE_length _ _

section main
variable [hp : Fact (Nat.Prime p)] [hG : GroupLawFact] (SF : ScalarFacts)
include SF

/-- `Scalar::from_bytes` then `scalarmult_base` then `to_bytes` = `encode([le(b)]B)` for `le(b) < 2^255` -/
theorem base_mul_bytes (b : Bytes) (hb : b.length = 32) (hlt : leNat b < 2 ^ 255) :
    ∃ s g, Impl.Scalar64.fromBytes b = some s ∧ SInv s ∧ s.val = leNat b ∧ Ge.scalarmult_base s = some g ∧
      g.to_bytes = some (Edwards.encode (Edwards.smul (leNat b) Edwards.B)) := by
  obtain ⟨s, e, inv, v⟩ := SF.fromBytes b hb
  have hn := SF.nibbles s inv (by rw [v]; exact hlt)
  rw [v] at hn
  obtain ⟨g, eg, ok⟩ := scalarmult_base_ok s (leNat b) hn
  have hc : OnCurve (Edwards.smul (leNat b) Edwards.B) := smul_onCurve hG.out _ _ Proofs.Ge.B_spec.1
  obtain ⟨hx, hy, _⟩ := (onCurve_iff _).1 hc
  exact ⟨s, g, e, inv, v, eg, Proofs.GeBytes.ge_to_bytes_ok g _ ok hx hy⟩

/-- `extended_to_public` -/
theorem extended_to_public_eq (ext : Bytes) (hl : ext.length = 64) (hlt : leNat (ext.take 32) < 2 ^ 255) :
    extended_to_public ext = some (Spec.Ed25519.extendedToPublic ext) := by
  obtain ⟨s, g, e, _, _, eg, eb⟩ := base_mul_bytes SF (ext.take 32) (by simp [hl]) hlt
  simp only [extended_to_public, extended_scalar]
  rw [if_pos hl, e, some_bind, eg, some_bind]
  exact eb

/-- `keypair` = RFC 8032 §5.1.5 in the crate's layout `(seed ‖ A, A)` -/
theorem keypair_eq (seed : Bytes) (hs : seed.length = 32) : keypair seed = some (Spec.Ed25519.keypair seed) := by
  have hpub := extended_to_public_eq SF (Spec.Ed25519.expandSeed seed) (expandSeed_length seed)
    (by rw [expandSeed_take]; exact clamp_lt _ (by unfold Spec.Ed25519.H; simp [sha512_length]))
  unfold keypair
  rw [extended_secret_eq seed hs, some_bind, hpub, some_bind, pure_eq_some]
  have hpk : Spec.Ed25519.extendedToPublic (Spec.Ed25519.expandSeed seed) = Spec.Ed25519.publicKey seed := by
    unfold Spec.Ed25519.extendedToPublic Spec.Ed25519.publicKey Spec.Ed25519.secretScalar
    rw [expandSeed_take]
  rw [hpk]
  unfold Spec.Ed25519.keypair
  have ht : (seed ++ (Spec.Ed25519.expandSeed seed).drop 32).take 32 = seed := by
    rw [List.take_append_of_le_length (by omega), List.take_of_length_le (by omega)]
  rw [ht]

/-- `signature_nonce`: `r = H(prefix ‖ M) mod L` -/
theorem signature_nonce_eq (ext msg : Bytes) (hl : ext.length = 64) (hm : msg.length < 2 ^ 124) :
    ∃ s, signature_nonce ext msg = some s ∧ SInv s ∧
      s.val = leNat (Spec.Ed25519.H (ext.drop 32 ++ msg)) % L := by
  unfold signature_nonce
  rw [if_pos hl, sha512_2_eq _ _ (by simp [hl]; omega), some_bind]
  exact SF.reduceWide _ (sha512_length _)

/-- the statements shared by `signature` and `signature_extended` = RFC 8032 §5.1.6 steps 3–6 -/
theorem signature_tail_eq (msg pk az pre : Bytes) (nonce : Scalar) (hm : msg.length < 2 ^ 124)
    (hpk : pk.length = 32) (haz : az.length = 64) (hinv : SInv nonce)
    (hval : nonce.val = leNat (Spec.Ed25519.H (pre ++ msg)) % L) :
    signature_tail msg pk az nonce = some (Spec.Ed25519.signWith (leNat (az.take 32)) pre pk msg) := by
  have hL : L < 2 ^ 255 := by decide +kernel
  have hLpos : 0 < L := by decide +kernel
  have hrL : nonce.val < L := by rw [hval]; exact Nat.mod_lt _ hLpos
  have hn := SF.nibbles nonce hinv (by omega)
  obtain ⟨g, eg, ok⟩ := scalarmult_base_ok nonce nonce.val hn
  have hc : OnCurve (Edwards.smul nonce.val Edwards.B) := smul_onCurve hG.out _ _ Proofs.Ge.B_spec.1
  obtain ⟨hx, hy, _⟩ := (onCurve_iff _).1 hc
  have eb := Proofs.GeBytes.ge_to_bytes_ok g _ ok hx hy
  unfold signature_tail
  rw [eg, some_bind, eb, some_bind]
  dsimp only
  rw [sha512_2_eq _ _ (by simp [encode_length, hpk]; omega), some_bind]
  obtain ⟨k, ek, kinv, kval⟩ := SF.reduceWide _ (sha512_length (Edwards.encode (Edwards.smul nonce.val Edwards.B) ++ pk ++ msg))
  rw [ek, some_bind]
  obtain ⟨a, ea, ainv, aval⟩ := SF.fromBytes (az.take 32) (by simp [haz])
  have hes : extended_scalar az = some a := by unfold extended_scalar; rw [if_pos haz]; exact ea
  rw [hes, some_bind]
  obtain ⟨o, eo, oval, oinv⟩ := SF.muladd k a nonce kinv ainv hinv hrL
  rw [eo, some_bind, pure_eq_some, SF.toBytes o oinv, oval, kval, aval]
  unfold Spec.Ed25519.signWith Spec.Ed25519.L
  dsimp only
  rw [← hval]
  unfold Spec.Ed25519.H
  rw [List.take_append_of_le_length (by rw [encode_length]), List.take_of_length_le (by rw [encode_length])]
  rw [Nat.add_comm nonce.val]

/-- `signature_extended(M, a ‖ prefix)` for `a < 2^255` -/
theorem signature_extended_eq (msg ext : Bytes) (hl : ext.length = 64) (hlt : leNat (ext.take 32) < 2 ^ 255)
    (hm : msg.length < 2 ^ 124) :
    signature_extended msg ext = some (Spec.Ed25519.signExtended ext msg) := by
  obtain ⟨n, en, ninv, nval⟩ := signature_nonce_eq SF ext msg hl hm
  unfold signature_extended
  rw [extended_to_public_eq SF ext hl hlt, some_bind, en, some_bind]
  rw [signature_tail_eq SF msg (Spec.Ed25519.extendedToPublic ext) ext (ext.drop 32) n hm
    (by unfold Spec.Ed25519.extendedToPublic; exact encode_length _) hl ninv nval]
  rfl

/-- `signature(M, seed ‖ pk)`: the public half of the keypair is used as given -/
theorem signature_eq (msg seed pk : Bytes) (hs : seed.length = 32) (hpk : pk.length = 32)
    (hm : msg.length < 2 ^ 124) :
    signature msg (seed ++ pk) = some (Spec.Ed25519.signWith (Spec.Ed25519.secretScalar seed)
      (Spec.Ed25519.noncePrefix seed) pk msg) := by
  have hkl : (seed ++ pk).length = 64 := by simp [hs, hpk]
  obtain ⟨n, en, ninv, nval⟩ := signature_nonce_eq SF (Spec.Ed25519.expandSeed seed) msg (expandSeed_length seed) hm
  unfold signature keypair_private keypair_public
  rw [if_pos hkl, some_bind, if_pos hkl, some_bind]
  rw [List.take_append_of_le_length (by omega), List.take_of_length_le (by omega),
    List.drop_append_of_le_length (by omega), List.drop_of_length_le (by omega), List.nil_append,
    List.take_of_length_le (by omega)]
  rw [extended_secret_eq seed hs, some_bind, en, some_bind]
  rw [expandSeed_drop] at nval
  rw [signature_tail_eq SF msg pk _ (Spec.Ed25519.noncePrefix seed) n hm hpk (expandSeed_length seed) ninv nval,
    expandSeed_take]
  rfl

end main

end Cx.Proofs.Ed25519Sign
