/-
  Proofs.MacInstSha3 — the context contract of the eight SHA-3 / Keccak contexts wrapped by the legacy digests of
  src/sha3.rs, from the sha3 unit's refinement (`engine_of r m` IS the state after absorbing `m`; Props/C02/Sha3).
  No length guard: the sponge has no length field.
-/
import CxVerif.Proofs.MacLegacy
import CxVerif.Props.C02.Sha3
namespace Cx.Proofs.MacInstSha3
open Cx Cx.Impl.Digest Cx.Proofs.MacObj Cx.Proofs.MacLegacy Cx.Proofs.Sponge Cx.Impl.Sha3 Cx.Spec.Keccak

theorem sponge_length {dl ds r : Nat} {sfx : List Bool} (hv : Variant dl ds r sfx) (m : Bytes) :
    (sponge r m sfx dl).length = dl := by
  have hS : (absorbBlocks r ((m ++ padBytes r m.length sfx).length / r) (zeros 200) (m ++ padBytes r m.length sfx)).length = 200 :=
    absorbBlocks_length r _ _ _ (zeros_length 200)
  have hlt := hv.hlt
  have hle := hv.r_le
  unfold sponge
  simp only []
  rw [squeeze_one r dl _ hv.hdl (Nat.le_of_lt hlt) hS hle, List.length_take, hS]
  omega

/-- one theorem for the eight variants -/
theorem sponge_ctx {dl ds r : Nat} {sfx : List Bool} (hv : Variant dl ds r sfx) (id : Nat) (hb : (tblBits id + 7) / 8 = dl) :
    CtxContract (sha3Ctx dl ds id) (fun m => sponge r m sfx dl) (fun c m => c = engine_of r m) (fun _ => True) where
  new := Cx.Props.C02.new_refines r hv.r_pos
  update_mut := by
    rintro c m b rfl
    exact ⟨_, (Cx.Props.C02.update_refines dl r hv.hrate hv.r_pos m b).1, rfl⟩
  reset := by
    rintro c m rfl
    show Context.reset (engine_of r m) = engine_of r []
    rw [Cx.Props.C02.reset_is_new, Cx.Props.C02.new_refines r hv.r_pos]
  finalize_reset := by
    rintro c m rfl _
    exact ⟨_, Cx.Props.C02.finalize_reset_fresh dl ds r sfx hv m, Cx.Props.C02.new_refines r hv.r_pos⟩
  out_len := by
    intro m _
    show (sponge r m sfx dl).length = (tblBits id + 7) / 8
    rw [sponge_length hv, hb]

theorem sha3_224_ctx : CtxContract sha3_224Ctx sha3_224 (fun c m => c = engine_of 144 m) (fun _ => True) :=
  sponge_ctx variant_sha3_224 7 (by decide)
theorem sha3_256_ctx : CtxContract sha3_256Ctx sha3_256 (fun c m => c = engine_of 136 m) (fun _ => True) :=
  sponge_ctx variant_sha3_256 8 (by decide)
theorem sha3_384_ctx : CtxContract sha3_384Ctx sha3_384 (fun c m => c = engine_of 104 m) (fun _ => True) :=
  sponge_ctx variant_sha3_384 9 (by decide)
theorem sha3_512_ctx : CtxContract sha3_512Ctx sha3_512 (fun c m => c = engine_of 72 m) (fun _ => True) :=
  sponge_ctx variant_sha3_512 10 (by decide)
theorem keccak224_ctx : CtxContract keccak224Ctx keccak224 (fun c m => c = engine_of 144 m) (fun _ => True) :=
  sponge_ctx variant_keccak224 11 (by decide)
theorem keccak256_ctx : CtxContract keccak256Ctx keccak256 (fun c m => c = engine_of 136 m) (fun _ => True) :=
  sponge_ctx variant_keccak256 12 (by decide)
theorem keccak384_ctx : CtxContract keccak384Ctx keccak384 (fun c m => c = engine_of 104 m) (fun _ => True) :=
  sponge_ctx variant_keccak384 13 (by decide)
theorem keccak512_ctx : CtxContract keccak512Ctx keccak512 (fun c m => c = engine_of 72 m) (fun _ => True) :=
  sponge_ctx variant_keccak512 14 (by decide)

end Cx.Proofs.MacInstSha3
