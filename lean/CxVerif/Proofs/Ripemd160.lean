/-
  Proofs.Ripemd160 — the 160-line `process_block!` schedule of ripemd160.rs, interpreted by `Impl.Ripemd160`,
  equals the two-line description of the RIPEMD-160 paper (`Spec.Ripemd160.compress`) for every chaining value and
  block; table theorems for everything extracted from the macro invocation and body.

    1. `left_lines_eq` / `right_lines_eq`  (kernel-decided, complete tables): line j of the code is
         registers  (4j, 4j+1, 4j+2, 4j+3, 4j+4) mod 5   — the rotating roles of `h_ordering`
         data_index r(j) resp. r'(j), roll_shift s(j) resp. s'(j), constant K(j) resp. K'(j),
         boolean function number j/16 resp. 4 − j/16
    2. `step_view`   one `round!` on the array, seen through the rotating roles, is one step of the paper
    3. `line_fold`   induction over the 80 lines
    4. `process_block_eq_compress`
-/
import CxVerif.Impl.Ripemd160
namespace Cx.Proofs.Ripemd160
open Cx Cx.Impl.Ripemd160 Cx.Spec.Ripemd160

/-! ### 1. tables -/

/-- register that plays role `i` (0 = A … 4 = E) when `m` steps (mod 5) have been done -/
def reg (m i : Nat) : Nat := (4 * m + i) % 5

def specLineL (j : Nat) : Line :=
  ⟨reg (j % 5) 0, reg (j % 5) 1, reg (j % 5) 2, reg (j % 5) 3, reg (j % 5) 4, r j, s j, (K j).toNat, j / 16⟩
def specLineR (j : Nat) : Line :=
  ⟨reg (j % 5) 0, reg (j % 5) 1, reg (j % 5) 2, reg (j % 5) 3, reg (j % 5) 4, r' j, s' j, (K' j).toNat, 4 - j / 16⟩

/-- all 80 extracted left-line rows: ordering, message word, shift, constant, function -/
theorem left_lines_eq : leftLines = some ((List.range 80).map specLineL) := by decide +kernel
/-- all 80 extracted right-line rows -/
theorem right_lines_eq : rightLines = some ((List.range 80).map specLineR) := by decide +kernel

/-- every register index is < 5 and every data index < 16 (so no `get`/`getD` default is ever taken) -/
theorem schedule_wellformed :
    ∀ l ∈ (List.range 80).map specLineL ++ (List.range 80).map specLineR,
      l.o0 < 5 ∧ l.o1 < 5 ∧ l.o2 < 5 ∧ l.o3 < 5 ∧ l.o4 < 5 ∧ l.data_index < 16 ∧ l.roll_shift < 32 ∧
      l.add < 2 ^ 32 ∧ l.fn < 5 := by decide +kernel

/-- the flat tables of the paper's appendix (and of every reference implementation) -/
def appendix_r : List Nat :=
  [0, 1, 2, 3, 4, 5, 6, 7, 8, 9, 10, 11, 12, 13, 14, 15,
   7, 4, 13, 1, 10, 6, 15, 3, 12, 0, 9, 5, 2, 14, 11, 8,
   3, 10, 14, 4, 9, 15, 8, 1, 2, 7, 0, 6, 13, 11, 5, 12,
   1, 9, 11, 10, 0, 8, 12, 4, 13, 3, 7, 15, 14, 5, 6, 2,
   4, 0, 5, 9, 7, 12, 2, 10, 14, 1, 3, 8, 11, 6, 15, 13]
def appendix_r' : List Nat :=
  [5, 14, 7, 0, 9, 2, 11, 4, 13, 6, 15, 8, 1, 10, 3, 12,
   6, 11, 3, 7, 0, 13, 5, 10, 14, 15, 8, 12, 4, 9, 1, 2,
   15, 5, 1, 3, 7, 14, 6, 9, 11, 8, 12, 2, 10, 0, 4, 13,
   8, 6, 4, 1, 3, 11, 15, 0, 5, 12, 2, 13, 9, 7, 10, 14,
   12, 15, 10, 4, 1, 5, 8, 7, 6, 2, 13, 14, 0, 3, 9, 11]
def appendix_s : List Nat :=
  [11, 14, 15, 12, 5, 8, 7, 9, 11, 13, 14, 15, 6, 7, 9, 8,
   7, 6, 8, 13, 11, 9, 7, 15, 7, 12, 15, 9, 11, 7, 13, 12,
   11, 13, 6, 7, 14, 9, 13, 15, 14, 8, 13, 6, 5, 12, 7, 5,
   11, 12, 14, 15, 14, 15, 9, 8, 9, 14, 5, 6, 8, 6, 5, 12,
   9, 15, 5, 11, 6, 8, 13, 12, 5, 12, 13, 14, 11, 8, 5, 6]
def appendix_s' : List Nat :=
  [8, 9, 9, 11, 13, 15, 15, 5, 7, 7, 8, 11, 14, 14, 12, 6,
   9, 13, 15, 7, 12, 8, 9, 11, 7, 7, 12, 7, 6, 15, 13, 11,
   9, 7, 15, 11, 8, 6, 6, 14, 12, 13, 5, 14, 13, 13, 7, 5,
   15, 5, 8, 11, 14, 14, 6, 14, 6, 9, 12, 9, 12, 5, 15, 8,
   8, 5, 12, 9, 12, 5, 14, 6, 8, 13, 6, 5, 15, 13, 11, 11]

/-- the tables derived from ρ, π and the shift-by-word table are the appendix listings -/
theorem tables_eq_appendix :
    (List.range 80).map r = appendix_r ∧ (List.range 80).map r' = appendix_r' ∧
    (List.range 80).map s = appendix_s ∧ (List.range 80).map s' = appendix_s' := by decide +kernel

/-- ρ is a permutation of 0..15 -/
theorem rho_perm : ∀ i < 16, ∃ j < 16, rho.getD j 0 = i := by decide

/-- left constants are ⌊2^30·√n⌋ for n = 2, 3, 5, 7 (and 0 in round 1) -/
theorem K_sqrt :
    K 0 = 0 ∧
    (∀ c, c = (K 16).toNat → c ^ 2 ≤ 2 * 2 ^ 60 ∧ 2 * 2 ^ 60 < (c + 1) ^ 2) ∧
    (∀ c, c = (K 32).toNat → c ^ 2 ≤ 3 * 2 ^ 60 ∧ 3 * 2 ^ 60 < (c + 1) ^ 2) ∧
    (∀ c, c = (K 48).toNat → c ^ 2 ≤ 5 * 2 ^ 60 ∧ 5 * 2 ^ 60 < (c + 1) ^ 2) ∧
    (∀ c, c = (K 64).toNat → c ^ 2 ≤ 7 * 2 ^ 60 ∧ 7 * 2 ^ 60 < (c + 1) ^ 2) := by
  refine ⟨by decide, ?_, ?_, ?_, ?_⟩ <;> (intro c hc; subst hc; decide)

/-- right constants are ⌊2^30·∛n⌋ for n = 2, 3, 5, 7 (and 0 in round 5) -/
theorem K'_cbrt :
    (∀ c, c = (K' 0).toNat → c ^ 3 ≤ 2 * 2 ^ 90 ∧ 2 * 2 ^ 90 < (c + 1) ^ 3) ∧
    (∀ c, c = (K' 16).toNat → c ^ 3 ≤ 3 * 2 ^ 90 ∧ 3 * 2 ^ 90 < (c + 1) ^ 3) ∧
    (∀ c, c = (K' 32).toNat → c ^ 3 ≤ 5 * 2 ^ 90 ∧ 5 * 2 ^ 90 < (c + 1) ^ 3) ∧
    (∀ c, c = (K' 48).toNat → c ^ 3 ≤ 7 * 2 ^ 90 ∧ 7 * 2 ^ 90 < (c + 1) ^ 3) ∧
    K' 64 = 0 := by
  refine ⟨?_, ?_, ?_, ?_, by decide⟩ <;> (intro c hc; subst hc; decide)

/-- extracted `H` is the paper's initial value -/
theorem H_eq : Impl.Ripemd160.H = Spec.Ripemd160.H0 := by decide

/-! ### 2. one step -/

/-- the array seen through the rotating roles after `m` (mod 5) steps -/
def view (m : Nat) (bb : Hash) : Hash :=
  ⟨get bb (reg m 0), get bb (reg m 1), get bb (reg m 2), get bb (reg m 3), get bb (reg m 4)⟩

theorem view_zero (bb : Hash) : view 0 bb = bb := rfl

theorem step_view (m : Nat) (hm : m < 5) (bb : Hash) (idx sh k fn : Nat) (data : List UInt32) :
    view ((m + 1) % 5) (round bb ⟨reg m 0, reg m 1, reg m 2, reg m 3, reg m 4, idx, sh, k, fn⟩ data)
      = step (fnEval fn) (data.getD idx 0) (UInt32.ofNat k) sh (view m bb) := by
  have : m = 0 ∨ m = 1 ∨ m = 2 ∨ m = 3 ∨ m = 4 := by omega
  rcases this with h | h | h | h | h <;> subst h <;> rfl

/-! ### 3. the two lines -/

theorem f_fn (j : Nat) (hj : j < 80) : f j = fnEval (j / 16) := by
  funext x y z
  have hg : j / 16 = 0 ∨ j / 16 = 1 ∨ j / 16 = 2 ∨ j / 16 = 3 ∨ j / 16 = 4 := by omega
  unfold f
  rcases hg with h | h | h | h | h <;> rw [h]
  · rw [if_pos (by omega)]; rfl
  · rw [if_neg (by omega), if_pos (by omega)]; rfl
  · rw [if_neg (by omega), if_neg (by omega), if_pos (by omega)]; rfl
  · rw [if_neg (by omega), if_neg (by omega), if_neg (by omega), if_pos (by omega)]; rfl
  · rw [if_neg (by omega), if_neg (by omega), if_neg (by omega), if_neg (by omega)]; rfl

theorem f_fn' (j : Nat) (hj : j < 80) : f (79 - j) = fnEval (4 - j / 16) := by
  rw [f_fn (79 - j) (by omega)]
  congr 1; omega

theorem left_step (M : List UInt32) (j : Nat) (hj : j < 80) (bb : Hash) :
    view ((j + 1) % 5) (round bb (specLineL j) M) = leftStep M (view (j % 5) bb) j := by
  have h := step_view (j % 5) (Nat.mod_lt _ (by decide)) bb (r j) (s j) (K j).toNat (j / 16) M
  rw [Nat.add_mod, Nat.mod_mod, ← Nat.add_mod] at h
  rw [show specLineL j = ⟨reg (j % 5) 0, reg (j % 5) 1, reg (j % 5) 2, reg (j % 5) 3, reg (j % 5) 4, r j, s j,
        (K j).toNat, j / 16⟩ from rfl, h, UInt32.ofNat_toNat, ← f_fn j hj]
  rfl

theorem right_step (M : List UInt32) (j : Nat) (hj : j < 80) (bb : Hash) :
    view ((j + 1) % 5) (round bb (specLineR j) M) = rightStep M (view (j % 5) bb) j := by
  have h := step_view (j % 5) (Nat.mod_lt _ (by decide)) bb (r' j) (s' j) (K' j).toNat (4 - j / 16) M
  rw [Nat.add_mod, Nat.mod_mod, ← Nat.add_mod] at h
  rw [show specLineR j = ⟨reg (j % 5) 0, reg (j % 5) 1, reg (j % 5) 2, reg (j % 5) 3, reg (j % 5) 4, r' j, s' j,
        (K' j).toNat, 4 - j / 16⟩ from rfl, h, UInt32.ofNat_toNat, ← f_fn' j hj]
  rfl

/-- induction over consecutive lines `j0, j0+1, …, j0+n-1` -/
theorem line_fold (M : List UInt32) (specLine : Nat → Line) (stp : Hash → Nat → Hash)
    (hstep : ∀ j, j < 80 → ∀ bb, view ((j + 1) % 5) (round bb (specLine j) M) = stp (view (j % 5) bb) j)
    (n : Nat) : ∀ (j0 : Nat) (bb : Hash), j0 + n ≤ 80 →
      view ((j0 + n) % 5) (((List.range' j0 n).map specLine).foldl (fun bb l => round bb l M) bb)
        = (List.range' j0 n).foldl stp (view (j0 % 5) bb) := by
  induction n with
  | zero => intro j0 bb _; rfl
  | succ n ih =>
    intro j0 bb h
    simp only [List.range'_succ, List.map_cons, List.foldl_cons]
    have := ih (j0 + 1) (round bb (specLine j0) M) (by omega)
    rw [show j0 + 1 + n = j0 + (n + 1) by omega] at this
    rw [this, hstep j0 (by omega)]

theorem left_line_eq (M : List UInt32) (h : Hash) :
    ((List.range 80).map specLineL).foldl (fun bb l => round bb l M) h = leftLine M h := by
  have := line_fold M specLineL (leftStep M) (left_step M) 80 0 h (Nat.le_refl _)
  rw [show (0 + 80) % 5 = 0 from rfl, view_zero, view_zero] at this
  rw [List.range_eq_range', this]
  rfl

theorem right_line_eq (M : List UInt32) (h : Hash) :
    ((List.range 80).map specLineR).foldl (fun bb l => round bb l M) h = rightLine M h := by
  have := line_fold M specLineR (rightStep M) (right_step M) 80 0 h (Nat.le_refl _)
  rw [show (0 + 80) % 5 = 0 from rfl, view_zero, view_zero] at this
  rw [List.range_eq_range', this]
  rfl

/-! ### 4. the compression function -/

/-- **the macro-generated 160-step schedule = the paper's two lines and combination**, for every chaining value
    and every block (both sides read word `i` of `M` with the same accessor; blocks have 16 words) -/
theorem process_block_eq_compress (h : Hash) (M : List UInt32) :
    process_block h M = some (compress h M) := by
  unfold process_block
  rw [left_lines_eq, right_lines_eq]
  simp only [left_line_eq, right_line_eq, compress, combine, Impl.Ripemd160.get, Option.some.injEq, Hash.mk.injEq]
  ac_rfl

end Cx.Proofs.Ripemd160
