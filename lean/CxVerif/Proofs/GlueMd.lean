/-
  Proofs.GlueMd — helper lemmas for the translator tie of the Merkle–Damgård glue (Props/C01/GlueTieMd.lean):
  the run-time library of tools/ktx_glue.py (Util/GlueRt.lean) against the primitives of the hand models
  (Impl/FixedBuffer.lean), and the facts about slices the tie proofs need.  Core Lean only.
-/
import CxVerif.Util.GlueRt
import CxVerif.Impl.FixedBuffer
namespace Cx.Proofs.GlueMd
open Cx Cx.Impl

/-- the translator's `&b[lo..hi]` is the hand models' `slice` (same definition, at `α = UInt8`) -/
theorem slice_eq (b : Bytes) (lo hi : Nat) : Glue.slice b lo hi = Cx.Impl.slice b lo hi := rfl

/-- the translator's `d[lo..hi].copy_from_slice(s)` is the hand models' `copy_from_slice` -/
theorem copy_from_slice_eq (d : Bytes) (lo hi : Nat) (s : Bytes) :
    Glue.copy_from_slice d lo hi s = Cx.Impl.copy_from_slice d lo hi s := rfl

theorem fill_zero (n : Nat) : Glue.fill n (0 : UInt8) = zeros n := rfl

theorem slice_length {α : Type} {b t : List α} {lo hi : Nat} (h : Glue.slice b lo hi = some t) :
    t.length = hi - lo := by
  unfold Glue.slice at h
  split at h
  · cases h; simp; omega
  · cases h

theorem slice_some_iff {α : Type} (b : List α) (lo hi : Nat) :
    (Glue.slice b lo hi).isSome ↔ (lo ≤ hi ∧ hi ≤ b.length) := by
  unfold Glue.slice; split <;> simp_all


/-! ### the element-wise writer loop of `write_array_type!` (generic in the element type and its byte encoding) -/

/-- the loop the translator emits for `for v in input.iter() { match try_from(&mut dst[offset..offset + SZ]) { Ok(t) =>
    *t = enc(v), … }; offset += SZ }` — the four generated loops are this one at `enc = u32be | u32le | u64be | u64le` -/
def writeLoop {α : Type} (enc : α → Bytes) (SZ : Nat) : List α → Bytes → Nat → Option (Bytes × Nat)
  | [], dst, off => some (dst, off)
  | v :: rest, dst, off =>
    match Glue.slice dst off (off + SZ) with
    | none => none
    | some t =>
      if t.length ≠ SZ then none else
      match Glue.copy_from_slice dst off (off + SZ) (enc v) with
      | none => none
      | some dst2 => writeLoop enc SZ rest dst2 (off + SZ)

theorem slice_ok {α : Type} {b : List α} {lo hi : Nat} (h1 : lo ≤ hi) (h2 : hi ≤ b.length) :
    Glue.slice b lo hi = some ((b.drop lo).take (hi - lo)) := by
  simp [Glue.slice, h1, h2]

theorem copy_from_slice_ok {α : Type} {d s : List α} {lo hi : Nat} (h1 : lo ≤ hi) (h2 : hi ≤ d.length)
    (h3 : s.length = hi - lo) : Glue.copy_from_slice d lo hi s = some (d.take lo ++ s ++ d.drop hi) := by
  simp [Glue.copy_from_slice, h1, h2, h3]

theorem writeLoop_step {α : Type} (enc : α → Bytes) (SZ : Nat) (henc : ∀ v, (enc v).length = SZ)
    (v : α) (rest : List α) (dst : Bytes) (off : Nat) (h : off + SZ ≤ dst.length) :
    writeLoop enc SZ (v :: rest) dst off
      = writeLoop enc SZ rest (dst.take off ++ enc v ++ dst.drop (off + SZ)) (off + SZ) := by
  have hs : off + SZ - off = SZ := by omega
  rw [writeLoop, slice_ok (Nat.le_add_right _ _) h, copy_from_slice_ok (Nat.le_add_right _ _) h (by rw [henc, hs])]
  have : ((dst.drop off).take (off + SZ - off)).length = SZ := by
    rw [List.length_take, List.length_drop]; omega
  simp only [this, ne_eq, not_true_eq_false, ite_false]

theorem writeLoop_spec {α : Type} (enc : α → Bytes) (SZ : Nat) (henc : ∀ v, (enc v).length = SZ) :
    ∀ (xs : List α) (dst : Bytes) (off : Nat), off + SZ * xs.length ≤ dst.length →
      writeLoop enc SZ xs dst off
        = some (dst.take off ++ xs.flatMap enc ++ dst.drop (off + SZ * xs.length), off + SZ * xs.length) := by
  intro xs
  induction xs with
  | nil => intro dst off _; simp [writeLoop]
  | cons v rest ih =>
    intro dst off h
    have hl : (v :: rest).length = rest.length + 1 := rfl
    rw [hl, Nat.mul_add, Nat.mul_one] at h
    have h1 : off + SZ ≤ dst.length := by omega
    have hto : (List.take off dst).length = off := by rw [List.length_take]; omega
    have hpre : (List.take off dst ++ enc v).length = off + SZ := by rw [List.length_append, hto, henc]
    have hlen : (List.take off dst ++ enc v ++ List.drop (off + SZ) dst).length = dst.length := by
      rw [List.length_append, hpre, List.length_drop]; omega
    rw [writeLoop_step enc SZ henc v rest dst off h1, ih _ _ (by rw [hlen]; omega)]
    have e1 : List.take (off + SZ) (List.take off dst ++ enc v ++ List.drop (off + SZ) dst) = List.take off dst ++ enc v := by
      rw [← hpre, List.take_left']
      rfl
    have e2 : List.drop (off + SZ + SZ * rest.length) (List.take off dst ++ enc v ++ List.drop (off + SZ) dst)
        = List.drop (off + SZ + SZ * rest.length) dst := by
      rw [List.drop_append, hpre, List.drop_drop,
        List.drop_of_length_le (by rw [hpre]; omega), List.nil_append]
      congr 1; omega
    rw [e1, e2, hl, Nat.mul_add, Nat.mul_one, List.flatMap_cons]
    have e3 : off + (SZ * rest.length + SZ) = off + SZ + SZ * rest.length := by omega
    rw [e3]
    simp only [List.append_assoc]

theorem writeLoop_full {α : Type} (enc : α → Bytes) (SZ : Nat) (henc : ∀ v, (enc v).length = SZ)
    (xs : List α) (dst : Bytes) (h : dst.length = SZ * xs.length) :
    writeLoop enc SZ xs dst 0 = some (xs.flatMap enc, SZ * xs.length) := by
  rw [writeLoop_spec enc SZ henc xs dst 0 (by omega)]
  simp [← h]

/-! ### the pointer-cursor reader loop of `read_array_type!` -/

/-- `cnt` consecutive chunks of `SZ` bytes -/
def chunkList (SZ : Nat) : Nat → Bytes → List Bytes
  | 0, _ => []
  | c + 1, bs => bs.take SZ :: chunkList SZ c (bs.drop SZ)

theorem chunksAux_eq_chunkList (SZ : Nat) (hSZ : 0 < SZ) : ∀ (cnt fuel : Nat) (bs : Bytes),
    bs.length = SZ * cnt → bs.length ≤ fuel → chunksAux SZ fuel bs = chunkList SZ cnt bs := by
  intro cnt
  induction cnt with
  | zero =>
    intro fuel bs h _
    have : bs = [] := List.eq_nil_of_length_eq_zero (by simpa using h)
    subst this
    cases fuel <;> simp [chunksAux, chunkList]
  | succ c ih =>
    intro fuel bs h hf
    rw [Nat.mul_add, Nat.mul_one] at h
    cases fuel with
    | zero => omega
    | succ f =>
      have hne : bs.isEmpty = false := by
        cases bs with
        | nil => simp at h; omega
        | cons _ _ => rfl
      simp only [chunksAux, hne, chunkList]
      rw [ih f (bs.drop SZ) (by rw [List.length_drop]; omega) (by rw [List.length_drop]; omega)]
      simp

theorem chunks_eq_chunkList (SZ : Nat) (hSZ : 0 < SZ) (cnt : Nat) (bs : Bytes) (h : bs.length = SZ * cnt) :
    chunks SZ bs = chunkList SZ cnt bs := chunksAux_eq_chunkList SZ hSZ cnt _ bs h (Nat.le_refl _)

/-- the loop the translator emits for the `unsafe` cursor loop of `read_array_type!` (x walks `dst`, y walks `input`) -/
def readLoop {α : Type} (dec : Bytes → α) (input : Bytes) (SZ : Nat) : Nat → Nat → List α → Nat → Nat → Option (List α × Nat × Nat)
  | 0, _, dst, x, y => some (dst, x, y)
  | cnt + 1, i, dst, x, y =>
    let tmp := Glue.fill SZ (0 : UInt8)
    match Glue.slice input y (y + SZ) with
    | none => none
    | some t =>
      if tmp.length ≠ SZ then none else
      match Glue.set_index dst x (dec t) with
      | none => none
      | some dst2 => readLoop dec input SZ cnt (i + 1) dst2 (x + 1) (y + SZ)

theorem readLoop_spec {α : Type} (dec : Bytes → α) (input : Bytes) (SZ : Nat) :
    ∀ (cnt i : Nat) (dst : List α) (x y : Nat), x + cnt ≤ dst.length → y + SZ * cnt = input.length →
      readLoop dec input SZ cnt i dst x y
        = some (dst.take x ++ (chunkList SZ cnt (input.drop y)).map dec ++ dst.drop (x + cnt), x + cnt, y + SZ * cnt) := by
  intro cnt
  induction cnt with
  | zero => intro i dst x y _ _; simp [readLoop, chunkList]
  | succ c ih =>
    intro i dst x y hx hy
    rw [Nat.mul_add, Nat.mul_one] at hy
    have hs : y + SZ - y = SZ := by omega
    have hxl : x < dst.length := by omega
    rw [readLoop]
    simp only [Glue.fill, List.length_replicate, ne_eq, not_true_eq_false, ite_false]
    rw [slice_ok (Nat.le_add_right _ _) (by omega), hs]
    simp only [Glue.set_index, hxl, ite_true]
    rw [ih (i + 1) _ (x + 1) (y + SZ) (by rw [List.length_set]; omega) (by omega)]
    simp only [chunkList, List.map_cons, Option.some.injEq, Prod.mk.injEq]
    refine ⟨?_, by omega, by rw [Nat.mul_add, Nat.mul_one]; omega⟩
    rw [List.set_eq_take_append_cons_drop, if_pos hxl]
    have hto : (List.take x dst).length = x := by rw [List.length_take]; omega
    have e1 : List.take (x + 1) (List.take x dst ++ dec (List.take SZ (List.drop y input)) :: List.drop (x + 1) dst)
        = List.take x dst ++ [dec (List.take SZ (List.drop y input))] := by
      rw [List.take_append, hto, List.take_of_length_le (by rw [hto]; omega)]; simp
    have e2 : List.drop (x + 1 + c) (List.take x dst ++ dec (List.take SZ (List.drop y input)) :: List.drop (x + 1) dst)
        = List.drop (x + 1 + c) dst := by
      rw [List.drop_append, hto, List.drop_of_length_le (by rw [hto]; omega), List.nil_append]
      rw [show x + 1 + c - x = (c + 1) by omega, List.drop_succ_cons, List.drop_drop]
    rw [e1, e2, List.drop_drop]
    simp [Nat.add_comm, Nat.add_left_comm]

end Cx.Proofs.GlueMd
