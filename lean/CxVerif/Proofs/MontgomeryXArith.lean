/-
  Proofs.MontgomeryXArith — x-only arithmetic on Curve25519 is correct w.r.t. the group law, including every
  degenerate case (operand or result at infinity, 2-torsion, P' = −P): projective representations `(X : Z)`
  of the x-coordinate of a point (`Rep`), the doubling formula `xdbl` and the differential addition
  `xadd` (difference point affine with x-coordinate ≠ 0), cf. Bernstein, "Curve25519: new Diffie-Hellman
  speed records", Theorems B.1/B.2.
-/
import CxVerif.Proofs.MontgomeryCurve
namespace Cx.Proofs.Montgomery
open Cx.Spec
open Cx.Spec.Field25519 (p)
open Cx.Proofs.EdField

section prime
variable [hp : Fact (Nat.Prime p)]

/-- `(X : Z)` is a projective x-coordinate of `P`: `(X : 0)`, `X ≠ 0`, for the point at infinity -/
def Rep (X Z : Fp) (P : Pt) : Prop :=
  (P = 0 ∧ Z = 0 ∧ X ≠ 0) ∨ (P ≠ 0 ∧ Z ≠ 0 ∧ X = xenc P * Z)

theorem Rep.zero : Rep 1 0 (0 : Pt) := Or.inl ⟨rfl, rfl, one_ne_zero⟩

theorem Rep.affine {P : Pt} (hP : P ≠ 0) : Rep (xenc P) 1 P :=
  Or.inr ⟨hP, one_ne_zero, (mul_one _).symm⟩

/-- x-only doubling (RFC 7748: `x_2 = AA·BB`, `z_2 = E·(AA + a24·E)`), for EVERY point -/
theorem xdbl {X Z : Fp} {P : Pt} (h : Rep X Z P) :
    Rep ((X ^ 2 - Z ^ 2) ^ 2) (4 * X * Z * (X ^ 2 + (A : Fp) * X * Z + Z ^ 2)) (P + P) := by
  rcases h with ⟨rfl, rfl, hX⟩ | ⟨hP, hZ, rfl⟩
  · left
    refine ⟨add_zero 0, by ring, ?_⟩
    have : (X ^ 2 - 0 ^ 2) ^ 2 = X ^ 4 := by ring
    rw [this]; exact pow_ne_zero 4 hX
  · have hZ4 : 4 * (xenc P * Z) * Z * ((xenc P * Z) ^ 2 + (A : Fp) * (xenc P * Z) * Z + Z ^ 2)
        = 4 * Z ^ 4 * g (xenc P) := by rw [g]; ring
    have hX4 : ((xenc P * Z) ^ 2 - Z ^ 2) ^ 2 = Z ^ 4 * (xenc P ^ 2 - 1) ^ 2 := by ring
    rw [hZ4, hX4]
    rcases dbl_x hP with ⟨hg, h0⟩ | ⟨hg, hne, hrel⟩
    · left
      refine ⟨h0, by rw [hg]; ring, ?_⟩
      exact mul_ne_zero (pow_ne_zero 4 hZ) (sq_sub_one_ne_of_g_eq_zero hg)
    · right
      refine ⟨hne, mul_ne_zero (mul_ne_zero four_ne_zero (pow_ne_zero 4 hZ)) hg, ?_⟩
      linear_combination (-Z ^ 4) * hrel

/-- x-only differential addition (RFC 7748: `x_3 = (DA + CB)²`, `z_3 = x_1·(DA − CB)²`): if the difference
    `P' − P` is an affine point with x-coordinate `x₁ ≠ 0`, the formula represents `P + P'` — whatever
    `P`, `P'` are (infinity, equal x-coordinates, …). -/
theorem xadd {X₂ Z₂ X₃ Z₃ x₁ : Fp} {P P' D : Pt} (h₂ : Rep X₂ Z₂ P) (h₃ : Rep X₃ Z₃ P')
    (hD : P' - P = D) (hD0 : D ≠ 0) (hx : xenc D = x₁) (hx1 : x₁ ≠ 0) :
    Rep (4 * (X₂ * X₃ - Z₂ * Z₃) ^ 2) (4 * x₁ * (X₃ * Z₂ - X₂ * Z₃) ^ 2) (P + P') := by
  have h4 : (4 : Fp) ≠ 0 := four_ne_zero
  rcases h₂ with ⟨rfl, rfl, hX₂⟩ | ⟨hP, hZ₂, rfl⟩
  · -- P = 0, so P' = D
    rw [sub_zero] at hD
    subst hD
    rw [zero_add]
    rcases h₃ with ⟨h0, _, _⟩ | ⟨_, hZ₃, rfl⟩
    · exact absurd h0 hD0
    · right
      rw [hx]
      refine ⟨hD0, ?_, by ring⟩
      have : 4 * x₁ * (x₁ * Z₃ * 0 - X₂ * Z₃) ^ 2 = 4 * x₁ * (X₂ * Z₃) ^ 2 := by ring
      rw [this]
      exact mul_ne_zero (mul_ne_zero h4 hx1) (pow_ne_zero 2 (mul_ne_zero hX₂ hZ₃))
  · rcases h₃ with ⟨rfl, rfl, hX₃⟩ | ⟨hP', hZ₃, rfl⟩
    · -- P' = 0, so P = −D
      rw [zero_sub] at hD
      have hxP : xenc P = x₁ := by rw [← hx, ← hD, xenc_neg]
      rw [add_zero]
      right
      rw [hxP]
      refine ⟨hP, ?_, by ring⟩
      have : 4 * x₁ * (X₃ * Z₂ - x₁ * Z₂ * 0) ^ 2 = 4 * x₁ * (X₃ * Z₂) ^ 2 := by ring
      rw [this]
      exact mul_ne_zero (mul_ne_zero h4 hx1) (pow_ne_zero 2 (mul_ne_zero hX₃ hZ₂))
    · by_cases hxx : xenc P = xenc P'
      · -- same x-coordinate: P' = P is excluded by D ≠ 0, so P' = −P and P + P' = 0
        rcases eq_or_eq_neg_of_xenc_eq hP hP' hxx with rfl | rfl
        · exact absurd (by rw [← hD, sub_self]) hD0
        · left
          have hD' : P' + P' = D := by rw [← hD, sub_neg_eq_add]
          refine ⟨neg_add_cancel P', by rw [xenc_neg]; ring, ?_⟩
          rw [xenc_neg]
          have : 4 * (xenc P' * Z₂ * (xenc P' * Z₃) - Z₂ * Z₃) ^ 2
              = 4 * Z₂ ^ 2 * Z₃ ^ 2 * (xenc P' ^ 2 - 1) ^ 2 := by ring
          rw [this]
          refine mul_ne_zero (mul_ne_zero (mul_ne_zero h4 (pow_ne_zero 2 hZ₂)) (pow_ne_zero 2 hZ₃)) ?_
          rcases dbl_x hP' with ⟨_, h0⟩ | ⟨_, _, hrel⟩
          · exact absurd (by rw [← hD', h0]) hD0
          · rw [← hrel, hD', hx]
            intro h0
            rcases mul_eq_zero.mp h0 with h | h
            · exact hx1 h
            · rcases dbl_x hP' with ⟨hg, h0'⟩ | ⟨hg, _, _⟩
              · exact hD0 (by rw [← hD', h0'])
              · exact (mul_ne_zero h4 hg) h
      · -- distinct x-coordinates: chord
        obtain ⟨hS, _, hrel⟩ := add_x hP hP' hxx
        rw [hD, hx] at hrel
        right
        have hd : xenc P - xenc P' ≠ 0 := sub_ne_zero.mpr hxx
        refine ⟨hS, ?_, ?_⟩
        · have : 4 * x₁ * (xenc P' * Z₃ * Z₂ - xenc P * Z₂ * Z₃) ^ 2
              = 4 * x₁ * Z₂ ^ 2 * Z₃ ^ 2 * (xenc P - xenc P') ^ 2 := by ring
          rw [this]
          exact mul_ne_zero (mul_ne_zero (mul_ne_zero (mul_ne_zero h4 hx1) (pow_ne_zero 2 hZ₂))
            (pow_ne_zero 2 hZ₃)) (pow_ne_zero 2 hd)
        · linear_combination (-4 * Z₂ ^ 2 * Z₃ ^ 2) * hrel

/-- Fermat: `z^(p−2) = z⁻¹` in `Fp` (`0 ↦ 0`) -/
theorem pow_p_sub_two (z : Fp) : z ^ (p - 2) = z⁻¹ := by
  by_cases h : z = 0
  · rw [h, inv_zero, zero_pow (by decide)]
  · have hf := ZMod.pow_card_sub_one_eq_one h
    have : z ^ (p - 2) * z = 1 := by
      rw [← pow_succ]
      have : p - 2 + 1 = p - 1 := by have := p_gt_two; omega
      rw [this]; exact hf
    exact eq_inv_of_mul_eq_one_left this

/-- the affine output `X · Z^(p−2)` of a representation is the encoded x-coordinate (`0` at infinity) -/
theorem Rep.out {X Z : Fp} {P : Pt} (h : Rep X Z P) : X * Z ^ (p - 2) = xenc P := by
  rw [pow_p_sub_two]
  rcases h with ⟨rfl, rfl, _⟩ | ⟨_, hZ, rfl⟩
  · simp
  · field_simp

end prime
end Cx.Proofs.Montgomery
