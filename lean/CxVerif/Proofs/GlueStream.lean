/-
  Proofs.GlueStream — helper lemmas for the translator tie of the stateful glue (Props/C04/GlueTieStream.lean):
  * the raw-pointer loop of `cryptoutil::xor_keystream_mut` (index loop over `isize`, `getUB`/`setUB`) is the bytewise xor of the
    model and never leaves the buffers;
  * the `while i < len` loop of `process_mut` (index `i` into the whole buffer, checked usize arithmetic, slice bounds tests,
    write-back of the processed sub-slice) is the model's recursion on the unprocessed rest of the data, for every context, every
    buffer shorter than 2^64 and every offset (also the out-of-invariant offsets > 64, where both panic);
  * small wrappers (`process`, re-returned `Except` values, length of `natToLE`).
  `condG`/`bodyG` are the loop condition / body that the five context types share textually (over the type's `update`); the
  Props file proves `<T>.process_mut_loop1_body_src = bodyG (<T>.update_src …)` by `rfl` for each type, so a source change in
  one copy breaks that copy's tie.
-/
import CxVerif.Extracted.GlueStream
import CxVerif.Proofs.StreamCtx
namespace Cx.Proofs.GlueStream
open Cx Cx.Impl Cx.Impl.StreamCtx Cx.Extracted.GlueStream Cx.Proofs.Stream
set_option linter.unusedVariables false

theorem usizeToIsize_small (n : Nat) (h : n < 2 ^ 63) : usizeToIsize n = (n : Int) := by
  unfold usizeToIsize
  have : n % 2 ^ 64 = n := Nat.mod_eq_of_lt (by omega)
  rw [this, if_pos h]

theorem xor_body_eq (ks buf : Bytes) (i : Nat) (h1 : i < buf.length) (h2 : i < ks.length) :
    xor_keystream_mut_loop1_body_src ks (i : Int) buf = .ok (buf.set i (buf[i] ^^^ ks[i])) := by
  simp [xor_keystream_mut_loop1_body_src, getUB, setUB, h1, h2]

theorem xor_loop (ks : Bytes) : ∀ (n i : Nat) (buf : Bytes), i + n = buf.length → buf.length ≤ ks.length →
    forN (xor_keystream_mut_loop1_body_src ks) n (i : Int) buf
      = .ok (buf.take i ++ List.zipWith (· ^^^ ·) (buf.drop i) (ks.drop i)) := by
  intro n
  induction n with
  | zero =>
    intro i buf h1 h2
    have : i = buf.length := by omega
    subst this
    simp [forN]
  | succ n ih =>
    intro i buf h1 h2
    have hi : i < buf.length := by omega
    have hk : i < ks.length := by omega
    rw [forN, xor_body_eq ks buf i hi hk]
    simp only []
    have := ih (i + 1) (buf.set i (buf[i] ^^^ ks[i])) (by simp; omega) (by simpa using h2)
    rw [show ((i : Int) + 1) = ((i + 1 : Nat) : Int) by simp, this]
    congr 1
    rw [List.drop_eq_getElem_cons hi, List.drop_eq_getElem_cons hk, List.zipWith_cons_cons]
    simp [List.take_add_one, hi]
    rw [List.take_set_of_le (by omega), List.drop_set_of_lt (by omega)]


/-- **`xor_keystream_mut`**: the raw-pointer loop is the bytewise xor of the model (and never leaves the buffers) -/
theorem xor_keystream_mut_src_eq (buf ks : Bytes) (h : buf.length < 2 ^ 63) :
    xor_keystream_mut_src buf ks = StreamCtx.xor_keystream_mut buf ks := by
  unfold xor_keystream_mut_src StreamCtx.xor_keystream_mut
  by_cases hle : buf.length ≤ ks.length
  · simp only [hle, not_true_eq_false, if_false, if_true]
    rw [forRangeI, usizeToIsize_small _ h]
    have := xor_loop ks buf.length 0 buf (by simp) hle
    simp only [Int.sub_zero, Int.toNat_natCast]
    simp only [List.take_zero, List.nil_append, List.drop_zero, Int.cast_ofNat_Int] at this
    rw [this]
  · simp [hle]

variable {σ : Type}

/-- the loop condition of every `process_mut` -/
def condG (len : Nat) (st : Ctx σ × Bytes × Nat) : Bool :=
  match st with
  | (self, data, i) =>
  decide (i < len)

/-- the loop body of every `process_mut`, over the context type's `update` -/
def bodyG (upd : Ctx σ → Ctx σ) (len : Nat) (st : Ctx σ × Bytes × Nat) : Except String (Ctx σ × Bytes × Nat) :=
  match st with
  | (self, data, i) =>
  let self :=
    if self.offset = 64 then
      let self := upd self
      self
    else
      self
  match subChk 64 self.offset with
  | .error e => .error e
  | .ok t1 =>
  match subChk len i with
  | .error e => .error e
  | .ok t2 =>
  let count := min t1 t2
  match addChk i count with
  | .error e => .error e
  | .ok t3 =>
  if ¬ (i ≤ t3 ∧ t3 ≤ data.length) then .error "PANIC" else
  if ¬ (self.offset ≤ 64) then .error "PANIC" else
  match xor_keystream_mut_src ((data.drop i).take (t3 - i)) (self.output.drop self.offset) with
  | .error e => .error e
  | .ok t4 =>
  let data := data.take i ++ t4 ++ data.drop t3
  match addChk i count with
  | .error e => .error e
  | .ok t5 =>
  let i := t5
  match addChk self.offset count with
  | .error e => .error e
  | .ok t6 =>
  let self := { self with offset := t6 }
  .ok (self, data, i)


/-- one iteration, in closed form (the context after the optional refill is `c1`, with `c1.offset < 64`) -/
theorem bodyG_step (g : BlockGen σ) (c : Ctx σ) (data : Bytes) (i : Nat) (hi : i < data.length) (hlen : data.length < 2 ^ 64)
    (c1 : Ctx σ) (hc1 : c1 = if c.offset = 64 then update g c else c) (hlt : c1.offset < 64) :
    bodyG (update g) data.length (c, data, i) =
      (match xor_keystream_mut ((data.drop i).take (min (64 - c1.offset) (data.length - i))) (c1.output.drop c1.offset) with
       | .error e => .error e
       | .ok out => .ok ({ c1 with offset := c1.offset + min (64 - c1.offset) (data.length - i) },
                        data.take i ++ out ++ data.drop (i + min (64 - c1.offset) (data.length - i)),
                        i + min (64 - c1.offset) (data.length - i))) := by
  subst hc1
  generalize hcnt : min (64 - (if c.offset = 64 then update g c else c).offset) (data.length - i) = cnt
  have h1 : cnt ≤ 64 := by omega
  have h2 : i + cnt ≤ data.length := by omega
  simp only [bodyG, subChk, addChk]
  rw [if_pos (by omega : (if c.offset = 64 then update g c else c).offset ≤ 64), if_pos (by omega : i ≤ data.length)]
  simp only [hcnt]
  rw [if_pos (by omega : i + cnt < 2 ^ 64)]
  simp only []
  rw [if_neg (by omega), if_neg (by omega)]
  rw [xor_keystream_mut_src_eq _ _ (by simp; omega)]
  rw [show i + cnt - i = cnt by omega]
  cases xor_keystream_mut ((data.drop i).take cnt) ((if c.offset = 64 then update g c else c).output.drop (if c.offset = 64 then update g c else c).offset) with
  | error e => rfl
  | ok out =>
    simp only []
    rw [if_pos (by omega : (if c.offset = 64 then update g c else c).offset + cnt < 2 ^ 64)]


theorem xor_ok_length (buf ks out : Bytes) (h : xor_keystream_mut buf ks = .ok out) : out.length = buf.length := by
  unfold xor_keystream_mut at h
  split at h
  · cases h; simp; omega
  · cases h

/-- an out-of-range offset panics in both -/
theorem bodyG_panic (g : BlockGen σ) (c : Ctx σ) (data : Bytes) (i : Nat)
    (hgt : 64 < (if c.offset = 64 then update g c else c).offset) :
    bodyG (update g) data.length (c, data, i) = .error "PANIC" := by
  simp only [bodyG, subChk]
  rw [if_neg (by omega)]

/-- **the `while` loop of `process_mut` is the model's recursion on the unprocessed rest** -/
theorem loop_eq (g : BlockGen σ) : ∀ (n : Nat) (c : Ctx σ) (data : Bytes) (i : Nat),
    data.length - i ≤ n → i ≤ data.length → data.length < 2 ^ 64 →
    whileFuel (condG data.length) (bodyG (update g) data.length) n (c, data, i) =
      (match process_mut g c (data.drop i) with
       | .error e => .error e
       | .ok (c', out) => .ok (c', data.take i ++ out, data.length)) := by
  intro n
  induction n with
  | zero =>
    intro c data i h1 h2 h3
    have : i = data.length := by omega
    subst this
    simp [whileFuel, condG, process_mut_nil]
  | succ n ih =>
    intro c data i h1 h2 h3
    by_cases hi : i < data.length
    · rw [whileFuel]
      have hc : condG data.length (c, data, i) = true := by simp [condG, hi]
      rw [if_pos hc]
      rw [List.drop_eq_getElem_cons hi]
      have hds : (data.drop (i + 1)).length + 1 = data.length - i := by simp; omega
      by_cases hlt : (if c.offset = 64 then update g c else c).offset < 64
      · rw [bodyG_step g c data i hi h3 _ rfl hlt, process_mut_cons g c _ _ _ rfl hlt]
        rw [hds, ← List.drop_eq_getElem_cons hi]
        generalize hcnt : min (64 - (if c.offset = 64 then update g c else c).offset) (data.length - i) = cnt
        have hc1 : cnt ≤ data.length - i := by omega
        have hc0 : 1 ≤ cnt := by omega
        cases hx : xor_keystream_mut ((data.drop i).take cnt) ((if c.offset = 64 then update g c else c).output.drop (if c.offset = 64 then update g c else c).offset) with
        | error e => rfl
        | ok out =>
          have hol : out.length = cnt := by
            rw [xor_ok_length _ _ _ hx]; simp; omega
          simp only []
          have hl' : (data.take i ++ out ++ data.drop (i + cnt)).length = data.length := by
            simp [hol]; omega
          have := ih { (if c.offset = 64 then update g c else c) with offset := (if c.offset = 64 then update g c else c).offset + cnt }
            (data.take i ++ out ++ data.drop (i + cnt)) (i + cnt) (by rw [hl']; omega) (by rw [hl']; omega) (by rw [hl']; exact h3)
          rw [hl'] at this
          rw [this]
          have e1 : (data.take i ++ out ++ data.drop (i + cnt)).drop (i + cnt) = (data.drop i).drop cnt := by
            have : i + cnt = (data.take i ++ out).length := by simp [hol]; omega
            rw [this, List.drop_left, List.drop_drop]
            congr 1; omega
          have e2 : (data.take i ++ out ++ data.drop (i + cnt)).take (i + cnt) = data.take i ++ out := by
            have : i + cnt = (data.take i ++ out).length := by simp [hol]; omega
            rw [this, List.take_left]
          rw [e1, e2]
          cases process_mut g { (if c.offset = 64 then update g c else c) with offset := (if c.offset = 64 then update g c else c).offset + cnt } ((data.drop i).drop cnt) with
          | error e => rfl
          | ok r => obtain ⟨c', rest⟩ := r; simp
      · have hne : (if c.offset = 64 then update g c else c).offset ≠ 64 := by
          split
          · simp [update]
          · assumption
        rw [bodyG_panic g c data i (by omega), process_mut]
        simp only [hlt, dite_false]
    · have : i = data.length := by omega
      subst this
      simp [whileFuel, condG, process_mut_nil]


/-- the whole loop of `process_mut` as generated (fuel `len - 0`, from index 0) -/
theorem loop0 (g : BlockGen σ) (c : Ctx σ) (data : Bytes) (h : data.length < 2 ^ 64) :
    whileFuel (condG data.length) (bodyG (update g) data.length) (data.length - 0) (c, data, 0) =
      (match process_mut g c data with
       | .error e => .error e
       | .ok (c', out) => .ok (c', out, data.length)) := by
  rw [loop_eq g _ c data 0 (by omega) (by omega) h]
  simp only [List.drop_zero, List.take_zero, List.nil_append]

/-- an `assert!` that holds / fails, as generated -/
theorem guard_pos {α : Type} {p : Prop} [Decidable p] (h : p) (msg : String) (x : Except String α) :
    (if ¬ p then .error msg else x) = x := by simp [h]
theorem guard_neg {α : Type} {p : Prop} [Decidable p] (h : ¬ p) (msg : String) (x : Except String α) :
    (if ¬ p then .error msg else x) = .error msg := by simp [h]

/-- `if a == b { Match } else { MisMatch }` as generated -/
theorem ite_bool_id (b : Bool) : (if b = true then true else false) = b := by cases b <;> rfl
/-- `verdict == DecryptionResult::Match` as generated -/
theorem decide_eq_true_id (b : Bool) : decide (b = true) = b := by cases b <;> rfl

theorem natToLE_length : ∀ (n v : Nat), (natToLE n v).length = n := by
  intro n
  induction n with
  | zero => intro v; rfl
  | succ n ih => intro v; simp [natToLE, ih]

/-- the length block of `finalize_raw` as generated: two 8-byte writes into a zeroed 16-byte array -/
theorem len_block (a d : Nat) :
    (natToLE 8 a ++ (zeros 16).drop 8).take 8 ++ natToLE 8 d = natToLE 8 a ++ natToLE 8 d := by
  rw [List.take_left' (natToLE_length 8 a)]

end Cx.Proofs.GlueStream
