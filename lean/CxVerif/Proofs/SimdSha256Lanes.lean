/-
  Proofs.SimdSha256Lanes — lane algebra of the vectorised SHA-256 message schedule (sse41.rs / avx.rs, C16 (ii)):

    getElem_add … getElem_set1     every vector op of the model is the scalar op on each lane
    GoodCfg, good_sse41, good_avx  what the EXTRACTED data of a file must be (register tables, shift amounts of
                                   sigma0/sigma1, gather word offsets 16·j, message offsets 4·k, byte-swap pshufb mask,
                                   `compress_once!` lanes, batch size); checked for both files (`decide` / `rfl` /
                                   `interval_cases` over the lanes)
    word_sigma0/1, lanes_sigma0/1  the five-shift xor trees are σ0 / σ1 (on a word, on every lane)
    shuffle_bswap4/8               `_mm_shuffle_epi8(w, bswap_mask)` / `_mm256_shuffle_epi8` = byte swap of each lane
    loadRegs_eq                    the sixteen gathers + shuffles: lane j of register k = big-endian word k of block j
    word_schedule                  the macro program on single words = `schedule256` + K (per-block view)
    message_schedule_eq            `message_schedule_Nways`: `schedule[k]` lane j = W_k(block j) + K32[k], no panic
-/
import CxVerif.Proofs.SimdSha256Sched
import CxVerif.Proofs.SimdBits
import CxVerif.Proofs.Sha1Chunks
namespace Cx.Proofs.SimdSha256
open Cx Cx.Impl Cx.Impl.Simd Cx.Impl.SimdSha256 Cx.Impl.Sha2 Cx.Spec.Sha2 Cx.Proofs.SimdBits Cx.Proofs.FB

/-! ### lane-wise operations -/

section lanes
variable {n : Nat}
theorem getElem_add (a b : Lanes n) (j : Nat) (h : j < n) : (Lanes.add a b)[j] = a[j] + b[j] := by simp [Lanes.add]
theorem getElem_xor (a b : Lanes n) (j : Nat) (h : j < n) : (Lanes.xor a b)[j] = a[j] ^^^ b[j] := by simp [Lanes.xor]
theorem getElem_or (a b : Lanes n) (j : Nat) (h : j < n) : (Lanes.or a b)[j] = a[j] ||| b[j] := by simp [Lanes.or]
theorem getElem_srli (a : Lanes n) (k j : Nat) (h : j < n) :
    (Lanes.srli a k)[j] = if k ≥ 32 then 0 else a[j] >>> UInt32.ofNat k := by simp [Lanes.srli]
theorem getElem_slli (a : Lanes n) (k j : Nat) (h : j < n) :
    (Lanes.slli a k)[j] = if k ≥ 32 then 0 else a[j] <<< UInt32.ofNat k := by simp [Lanes.slli]
theorem getElem_set1 (x : UInt32) (j : Nat) (h : j < n) : (Lanes.set1 x : Lanes n)[j] = x := by simp [Lanes.set1]
end lanes

/-- byte swap of a 32-bit lane (what `pshufb` with `bswap_mask` does to each lane) -/
def bswap32 (x : UInt32) : UInt32 := ofBytes32 [byte32 x 3, byte32 x 2, byte32 x 1, byte32 x 0]

/-! ### what the extracted data of one file must be -/

structure GoodCfg (C : Cfg) : Prop where
  npos : 0 < C.n
  std : StdTables C
  sig0 : ∀ {V : Type} (A : RegAlg V) (w : V), sigma0 A C w = some (A.sh.xor (A.sh.xor (A.sh.xor (A.sh.xor
    (A.sh.srli w 7) (A.sh.srli w 18)) (A.sh.srli w 3)) (A.sh.slli w 25)) (A.sh.slli w 14))
  sig1 : ∀ {V : Type} (A : RegAlg V) (w : V), sigma1 A C w = some (A.sh.xor (A.sh.xor (A.sh.xor (A.sh.xor
    (A.sh.srli w 17) (A.sh.srli w 10)) (A.sh.srli w 19)) (A.sh.slli w 15)) (A.sh.slli w 13))
  gather : C.gather = (List.range C.n).map (16 * ·)
  offs : C.msgOffsets = (List.range 16).map (4 * ·)
  bswap : ∀ v : Lanes C.n, Lanes.shuffle_epi8 v C.bswapMask = v.map bswap32
  lanes : C.compressLanes = List.range C.n
  batch : C.batchBytes = 64 * C.n

theorem vec4_eq {α : Type} (v : Vector α 4) : v = #v[v[0], v[1], v[2], v[3]] := by
  ext i hi
  interval_cases i <;> rfl

theorem vec8_eq {α : Type} (v : Vector α 8) : v = #v[v[0], v[1], v[2], v[3], v[4], v[5], v[6], v[7]] := by
  ext i hi
  interval_cases i <;> rfl

theorem range4 : List.range 4 = [0, 1, 2, 3] := by decide

/-- `_mm_shuffle_epi8(w, bswap_mask)` swaps the bytes of each of the four lanes -/
theorem shuffle_bswap4 (v : Lanes 4) : Lanes.shuffle_epi8 v Extracted.Simd.SSE41_BSWAP_MASK = v.map bswap32 := by
  rw [vec4_eq v]
  ext i hi
  interval_cases i <;> simp [Lanes.shuffle_epi8, Extracted.Simd.SSE41_BSWAP_MASK, pshufb16, bytes32, bswap32, range4]

/-- `_mm256_shuffle_epi8(w, bswap_mask)`: the selectors 16…31 of the upper half act modulo 16 inside that half -/
theorem shuffle_bswap8 (v : Lanes 8) : Lanes.shuffle_epi8 v Extracted.Simd.AVX_BSWAP_MASK = v.map bswap32 := by
  rw [vec8_eq v]
  ext i hi
  interval_cases i <;> simp [Lanes.shuffle_epi8, Extracted.Simd.AVX_BSWAP_MASK, pshufb16, bytes32, bswap32, range4]

theorem good_sse41 : GoodCfg Sse41.cfg where
  npos := by decide
  std := std_sse41
  sig0 := fun _ _ => rfl
  sig1 := fun _ _ => rfl
  gather := by decide
  offs := by decide
  bswap := shuffle_bswap4
  lanes := by decide
  batch := by decide

theorem good_avx : GoodCfg Avx.cfg where
  npos := by decide
  std := std_avx
  sig0 := fun _ _ => rfl
  sig1 := fun _ _ => rfl
  gather := by decide
  offs := by decide
  bswap := shuffle_bswap8
  lanes := by decide
  batch := by decide

/-! ### sigma0 / sigma1 -/

theorem s0_eq (x : UInt32) : Impl256.s0 x = smallSigma0_256 x := rfl
theorem s1_eq (x : UInt32) : Impl256.s1 x = smallSigma1_256 x := rfl

theorem word_sigma0 {C : Cfg} (hC : GoodCfg C) (x : UInt32) : sigma0 wordRegAlg C x = some (smallSigma0_256 x) := by
  rw [hC.sig0, ← s0_eq, ← sigma0_shifts]; rfl

theorem word_sigma1 {C : Cfg} (hC : GoodCfg C) (x : UInt32) : sigma1 wordRegAlg C x = some (smallSigma1_256 x) := by
  rw [hC.sig1, ← s1_eq, ← sigma1_shifts]; rfl

theorem lanes_sigma0 {C : Cfg} (hC : GoodCfg C) (v : Lanes C.n) :
    sigma0 (lanesAlg C.n) C v = some (v.map smallSigma0_256) := by
  rw [hC.sig0]
  congr 1
  ext j hj
  simp only [lanesAlg, Lanes.alg, getElem_xor, getElem_srli, getElem_slli, Vector.getElem_map, ← s0_eq, ← sigma0_shifts]
  rfl

theorem lanes_sigma1 {C : Cfg} (hC : GoodCfg C) (v : Lanes C.n) :
    sigma1 (lanesAlg C.n) C v = some (v.map smallSigma1_256) := by
  rw [hC.sig1]
  congr 1
  ext j hj
  simp only [lanesAlg, Lanes.alg, getElem_xor, getElem_srli, getElem_slli, Vector.getElem_map, ← s1_eq, ← sigma1_shifts]
  rfl

/-! ### bytes: little-endian read + byte swap = big-endian read -/

theorem byte32_ofBytes32 (b0 b1 b2 b3 : UInt8) :
    byte32 (ofBytes32 [b0, b1, b2, b3]) 0 = b0 ∧ byte32 (ofBytes32 [b0, b1, b2, b3]) 1 = b1 ∧
    byte32 (ofBytes32 [b0, b1, b2, b3]) 2 = b2 ∧ byte32 (ofBytes32 [b0, b1, b2, b3]) 3 = b3 := by
  simp only [ofBytes32, List.foldr, byte32]
  refine ⟨?_, ?_, ?_, ?_⟩ <;>
  (apply UInt8.eq_of_toBitVec_eq; simp; try (ext i hi; interval_cases i <;> simp))

theorem or_shl8 (b : UInt8) (y : UInt32) (hy : y.toNat < 2 ^ 24) :
    (b.toUInt32 ||| (y <<< 8)).toNat = y.toNat * 256 + b.toNat := by
  have hb : b.toNat < 2 ^ 8 := b.toNat_lt
  simp only [UInt32.toNat_or, UInt32.toNat_shiftLeft, UInt8.toNat_toUInt32]
  have : y.toNat <<< (UInt32.toNat 8 % 32) % 2 ^ 32 = y.toNat <<< 8 := by
    have : UInt32.toNat 8 % 32 = 8 := by decide
    rw [this, Nat.shiftLeft_eq]
    apply Nat.mod_eq_of_lt
    omega
  rw [this, Nat.or_comm, ← Nat.shiftLeft_add_eq_or_of_lt hb, Nat.shiftLeft_eq]

theorem ofBytes32_rev_toNat (b0 b1 b2 b3 : UInt8) :
    (ofBytes32 [b3, b2, b1, b0]).toNat = beNat [b0, b1, b2, b3] := by
  have h0 := b0.toNat_lt; have h1 := b1.toNat_lt; have h2 := b2.toNat_lt; have h3 := b3.toNat_lt
  simp only [ofBytes32, List.foldr, beNat, List.foldl]
  have z : ((0 : UInt32) <<< 8) = 0 := by decide
  rw [z]
  have e0 : (b0.toUInt32 ||| 0).toNat = b0.toNat := by simp
  have e1 := or_shl8 b1 (b0.toUInt32 ||| 0) (by rw [e0]; omega)
  have e2 := or_shl8 b2 _ (by rw [e1, e0]; omega)
  have e3 := or_shl8 b3 _ (by rw [e2, e1, e0]; omega)
  rw [e3, e2, e1, e0]; omega

/-- `read(p as *const i32)` (little-endian) followed by the byte swap is the big-endian word at `p` -/
theorem bswap32_read (bs : Bytes) (h : 4 ≤ bs.length) : bswap32 (ofBytes32 (bs.take 4)) = beU32 bs := by
  rcases bs with _ | ⟨b0, _ | ⟨b1, _ | ⟨b2, _ | ⟨b3, rest⟩⟩⟩⟩
  all_goals try (simp at h; done)
  obtain ⟨e0, e1, e2, e3⟩ := byte32_ofBytes32 b0 b1 b2 b3
  simp only [List.take_succ_cons, List.take_zero, bswap32, e0, e1, e2, e3, beU32]
  apply UInt32.toNat_inj.mp
  rw [ofBytes32_rev_toNat, UInt32.toNat_ofNat']
  have h0 := b0.toNat_lt; have h1 := b1.toNat_lt; have h2 := b2.toNat_lt; have h3 := b3.toNat_lt
  simp only [beNat, List.foldl]
  omega

/-! ### blocks of a batch and their words -/

/-- block `j` of a batch: bytes `64·j … 64·j + 63` -/
def blockAt (message : Bytes) (j : Nat) : Bytes := (message.drop (64 * j)).take 64

theorem blockAt_length {message : Bytes} {j : Nat} (h : 64 * j + 64 ≤ message.length) : (blockAt message j).length = 64 := by
  simp [blockAt]; omega

theorem takeBlocks_getElem? (N : Nat) : ∀ (k : Nat) (d : Bytes) (i : Nat), i < k →
    (takeBlocks N k d)[i]? = some ((d.drop (N * i)).take N) := by
  intro k
  induction k with
  | zero => intro d i h; omega
  | succ k ih =>
    intro d i h
    cases i with
    | zero => simp [takeBlocks]
    | succ i =>
      simp only [takeBlocks, List.getElem?_cons_succ]
      rw [ih (d.drop N) i (by omega), List.drop_drop]
      congr 3
      rw [Nat.mul_succ]; omega

theorem takeBlocks_eq_map (N k : Nat) (d : Bytes) :
    takeBlocks N k d = (List.range k).map fun j => (d.drop (N * j)).take N := by
  apply List.ext_getElem?
  intro i
  by_cases h : i < k
  · rw [takeBlocks_getElem? N k d i h]; simp [h]
  · rw [List.getElem?_eq_none (by rw [takeBlocks_length]; omega), List.getElem?_eq_none (by simp; omega)]

theorem takeBlocks_add (N a b : Nat) : ∀ d : Bytes, takeBlocks N (a + b) d = takeBlocks N a d ++ takeBlocks N b (d.drop (N * a)) := by
  induction a with
  | zero => intro d; simp [takeBlocks]
  | succ a ih =>
    intro d
    rw [show a + 1 + b = (a + b) + 1 by omega]
    simp only [takeBlocks, ih, List.cons_append, List.drop_drop]
    rw [show N * (a + 1) = N + N * a by rw [Nat.mul_succ]; omega]

/-- big-endian word `k` of a 64-byte block -/
theorem wordsBE32_getElem? (blk : Bytes) (hl : blk.length = 64) (k : Nat) (hk : k < 16) :
    (wordsBE32 blk)[k]? = some (beU32 (blk.drop (4 * k))) := by
  unfold wordsBE32
  rw [Cx.Proofs.Sha1Chunks.chunks_eq_fullBlocks (by decide) blk (by rw [hl]), fullBlocks, hl, List.getElem?_map,
    takeBlocks_getElem? 4 (64 / 4) blk k (by omega)]
  simp [beU32, List.take_take]

theorem take4_blockAt (message : Bytes) (j k : Nat) (hk : k < 16) :
    ((blockAt message j).drop (4 * k)).take 4 = (message.drop (4 * k + 64 * j)).take 4 := by
  unfold blockAt
  rw [List.drop_take, List.take_take, List.drop_drop]
  congr 1
  · omega
  · congr 1; omega

theorem mapM_some_map {α β γ : Type} (l : List α) (p : α → β) (f : β → Option γ) (g : α → γ)
    (h : ∀ x ∈ l, f (p x) = some (g x)) : (l.map p).mapM f = some (l.map g) := by
  induction l with
  | nil => rfl
  | cons a l ih =>
    simp only [List.map_cons, List.mapM_cons, h a (by simp), ih (fun x hx => h x (by simp [hx]))]
    rfl

/-! ### loads -/

/-- lane `j` = `W_t` of block `j` (for `t < 16`: its big-endian word `t`) -/
def laneW (C : Cfg) (message : Bytes) (t : Nat) : Lanes C.n :=
  Vector.ofFn fun j : Fin C.n => Wf (wordsBE32 (blockAt message j.val)) t

theorem gather_eq {C : Cfg} (hC : GoodCfg C) (message : Bytes) (hm : 64 * C.n ≤ message.length) (k : Nat) (hk : k < 16) :
    gather C message (4 * k)
      = some (Vector.ofFn fun j : Fin C.n => ofBytes32 ((message.drop (4 * k + 64 * j.val)).take 4)) := by
  have hmap : C.gather.mapM (fun g => readI32 message (4 * k + 4 * g))
      = some ((List.range C.n).map fun j => ofBytes32 ((message.drop (4 * k + 64 * j)).take 4)) := by
    rw [hC.gather]
    apply mapM_some_map
    intro j hj
    have hj' : j < C.n := by simpa using hj
    rw [readI32, if_pos (by omega)]
    congr 4; omega
  unfold gather
  simp only [hmap]
  rw [dif_pos (by simp)]
  congr 1
  ext j hj
  simp

/-- **the transposing loads**: `wK = gather(message.add(4K)); wK = shuffle_epi8(wK, bswap_mask)`, K = 0 … 15, on a
    message of at least one batch: lane `j` of register `K` is big-endian word `K` of block `j`; no refused read -/
theorem loadRegs_eq {C : Cfg} (hC : GoodCfg C) (message : Bytes) (hm : 64 * C.n ≤ message.length) :
    loadRegs C message = some ((List.range 16).map (laneW C message)) := by
  unfold loadRegs
  rw [hC.offs]
  apply mapM_some_map
  intro k hk
  have hk' : k < 16 := by simpa using hk
  rw [gather_eq hC message hm k hk', Option.map_some, hC.bswap]
  congr 1
  ext j hj
  simp only [Vector.getElem_map, Vector.getElem_ofFn, laneW]
  have hb : (blockAt message j).length = 64 := blockAt_length (by omega)
  rw [Wf_lt _ hk', List.getD_eq_getElem?_getD, wordsBE32_getElem? _ hb k hk', Option.getD_some,
    bswap32_read _ (by simp; omega)]
  simp only [beU32, take4_blockAt message j k hk']

/-! ### the schedule: words, then lanes -/

/-- item (1), per-block view: the macro program of either file run on single words = the FIPS schedule plus K -/
theorem word_schedule {C : Cfg} (hC : GoodCfg C) (m : List UInt32) (hm : m.length = 16) :
    ∃ sch, scheduleFromRegs wordRegAlg C m = some sch ∧ sch.length = 64 ∧
      ∀ (k : Nat) (kk w : UInt32), Impl256.K32[k]? = some kk → (schedule256 m)[k]? = some w → sch[k]? = some (w + kk) := by
  have hrec : ∀ t, wordRegAlg.sh.add (wordRegAlg.sh.add (Wf m t) (Wf m (t + 9)))
      (wordRegAlg.sh.add (smallSigma0_256 (Wf m (t + 1))) (smallSigma1_256 (Wf m (t + 14)))) = Wf m (t + 16) := by
    intro t
    rw [Wf_ge]
    show (Wf m t + Wf m (t + 9)) + (smallSigma0_256 (Wf m (t + 1)) + smallSigma1_256 (Wf m (t + 14))) = _
    ac_rfl
  obtain ⟨sch, h1, h2, h3⟩ := scheduleFromRegs_spec wordRegAlg C (Wf m) smallSigma0_256 smallSigma1_256 hC.std
    (word_sigma0 hC) (word_sigma1 hC) hrec
  have hw : (List.range 16).map (Wf m) = m := by
    apply List.ext_getElem?
    intro i
    by_cases hi : i < 16
    · simp [hi, Wf_lt m hi, List.getD_eq_getElem?_getD, List.getElem?_eq_getElem (show i < m.length by omega)]
    · rw [List.getElem?_eq_none (by simp; omega), List.getElem?_eq_none (by omega)]
  rw [hw] at h1
  refine ⟨sch, h1, h2, ?_⟩
  intro k kk w hk hwk
  rw [h3 k kk hk]
  have hk64 := K32_lt hk
  rw [schedule256_eq_Wf m hm] at hwk
  simp [hk64] at hwk
  rw [← hwk]; rfl

/-- **`message_schedule_4ways` / `message_schedule_8ways`** on a message holding at least one batch: no panic, 64
    vectors, and lane `j` of `schedule[k]` is `W_k(block j) + K32[k]` — N independent scalar schedules -/
theorem message_schedule_eq {C : Cfg} (hC : GoodCfg C) (message : Bytes) (hm : 64 * C.n ≤ message.length) :
    ∃ sch, message_schedule C message = some sch ∧ sch.length = 64 ∧
      ∀ k kk, Impl256.K32[k]? = some kk → sch[k]? = some (Vector.ofFn fun j : Fin C.n =>
        Wf (wordsBE32 (blockAt message j.val)) k + kk) := by
  have hrec : ∀ t, (lanesAlg C.n).sh.add ((lanesAlg C.n).sh.add (laneW C message t) (laneW C message (t + 9)))
      ((lanesAlg C.n).sh.add ((laneW C message (t + 1)).map smallSigma0_256) ((laneW C message (t + 14)).map smallSigma1_256))
        = laneW C message (t + 16) := by
    intro t
    ext j hj
    simp only [lanesAlg, Lanes.alg, getElem_add, Vector.getElem_map, laneW, Vector.getElem_ofFn]
    rw [Wf_ge]
    ac_rfl
  obtain ⟨sch, h1, h2, h3⟩ := scheduleFromRegs_spec (lanesAlg C.n) C (laneW C message)
    (fun v => v.map smallSigma0_256) (fun v => v.map smallSigma1_256) hC.std (lanes_sigma0 hC) (lanes_sigma1 hC) hrec
  refine ⟨sch, ?_, h2, ?_⟩
  · simp only [message_schedule, loadRegs_eq hC message hm, h1]
  · intro k kk hk
    rw [h3 k kk hk]
    congr 1
    ext j hj
    simp only [lanesAlg, Lanes.alg, getElem_add, getElem_set1, laneW, Vector.getElem_ofFn]

end Cx.Proofs.SimdSha256
