/-
  Proofs.Sha2Engine — Engine256 / Engine512 and the `digest!` contexts of src/hashing/sha2/mod.rs refine the
  abstract state "bytes since the last reset" (C01 (i),(ii), C02).

    blocks256_isBlocks / blocks512_isBlocks   `Engine::blocks` = fold of the FIPS compression over the blocks
    Abs256 / Abs512                            abstraction relation engine ↔ absorbed message
    abs*_new, abs*_reset, abs*_input, abs*_finish   the step lemmas (no panic; lengths < 2^61 / 2^125 at finish)
    output_*bits_at_eq                         truncations, incl. `(h[3] >> 32) as u32` of SHA-512/224
    refines256 / refines512                    `Cx.Proofs.HashProg.Refines` instances (→ every op history)
    oneShot256_eq / oneShot512_eq              `ShaNNN::new().update(m).finalize()` = Spec digest
    reset*_view, abs*_nil_view, abs*_of_view_eq   `reset ≈ new`, fresh state after finalize_reset, as equality of
                                               the readable state (everything except dead buffer bytes)
  The 64-bit family lemmas take `hC : Compress512OK` (impl512 block function = FIPS compression) as a parameter;
  `compress512_ok` (from Proofs/Sha2Compress512.lean) discharges it, so the Props theorems are unconditional.
  Core Lean only.
-/
import CxVerif.Proofs.FixedBuffer
import CxVerif.Proofs.Sha2Compress
import CxVerif.Proofs.Sha2Compress512
import CxVerif.Proofs.HashProg
namespace Cx.Proofs.Sha2Engine
open Cx Cx.Spec.Sha2 Cx.Impl Cx.Impl.Sha2 Cx.Proofs.FB Cx.Proofs.Sha2Compress
open Cx.Proofs.Sha2Compress512 (compress512w compress512_eq_w digest_block_u64_eq)

/-! ### SHA-224/256: the block loop -/

/-- the one-block compression on the `eng256::Engine` wrapper -/
def compressE256 (e : Eng256.Engine) (blk : Bytes) : Eng256.Engine := ⟨compress256 e.h blk⟩

theorem foldl_compressE256 (l : List Bytes) (h : W8 UInt32) :
    l.foldl compressE256 ⟨h⟩ = ⟨l.foldl compress256 h⟩ := by
  induction l generalizing h with
  | nil => rfl
  | cons b bs ih => simp only [List.foldl, compressE256]; exact ih _

theorem digest_block_loop256_spec (k : Nat) : ∀ (fuel : Nat) (state : W8 UInt32) (block : Bytes),
    block.length = 64 * k → k < fuel →
    Impl256.digest_block_loop fuel state block = some ((fullBlocks 64 block).foldl compress256 state) := by
  induction k with
  | zero =>
    intro fuel state block hl hf
    have : block = [] := List.length_eq_zero_iff.mp (by omega)
    subst this
    obtain ⟨f, rfl⟩ : ∃ f, fuel = f + 1 := ⟨fuel - 1, by omega⟩
    simp [Impl256.digest_block_loop, fullBlocks, takeBlocks]
  | succ k ih =>
    intro fuel state block hl hf
    obtain ⟨f, rfl⟩ : ∃ f, fuel = f + 1 := ⟨fuel - 1, by omega⟩
    unfold Impl256.digest_block_loop
    have hne : block.length ≠ 0 := by omega
    simp only [hne, if_false]
    rw [slice_eq (Nat.zero_le _) (by omega)]
    simp only [List.drop_zero, Nat.sub_zero]
    have ht : (block.take 64).length = 64 := by simp; omega
    rw [digest_block_u32_eq _ _ ht]
    simp only []
    rw [ih f _ (block.drop 64) (by simp; omega) (by omega)]
    have hb : block = block.take 64 ++ block.drop 64 := (List.take_append_drop 64 block).symm
    conv => rhs; rw [hb, fullBlocks_cons (by decide) ht]
    rfl

theorem blocks256_isBlocks : FuncIsBlocks 64 Eng256.Engine.blocks compressE256 := by
  intro s d hd
  have hB : Eng256.BLOCK_LEN_BYTES = 64 := by decide
  unfold Eng256.Engine.blocks Impl256.digest_block
  simp only [hB, hd, ne_eq, not_true_eq_false, if_false]
  have hl : d.length = 64 * (d.length / 64) := by omega
  rw [digest_block_loop256_spec (d.length / 64) _ s.h d hl (by omega)]
  simp only []
  obtain ⟨h⟩ := s
  rw [foldl_compressE256]

/-! ### Engine256 -/

/-- abstraction relation: engine `e` (chaining IV `iv`) has absorbed exactly `msg` since `new`/`reset` -/
def Abs256 (iv : W8 UInt32) (e : Engine256) (msg : Bytes) : Prop :=
  e.processed_bytes = msg.length % 2 ^ 64 ∧ WF 64 e.buffer ∧ e.buffer.data = blockTail 64 msg
  ∧ e.state = ⟨(fullBlocks 64 msg).foldl compress256 iv⟩ ∧ e.finished = false

theorem abs256_new (iv : W8 UInt32) : Abs256 iv (Engine256.new iv) [] := by
  refine ⟨rfl, new_WF (by decide), ?_, rfl, rfl⟩
  simp [Engine256.new, new_data, blockTail]

/-- `reset` from ANY state whose array has its size (dead buffer bytes are irrelevant) -/
theorem abs256_reset (iv : W8 UInt32) (e : Engine256) (hl : e.buffer.buffer.length = 64) :
    Abs256 iv (e.reset iv) [] := by
  refine ⟨rfl, ⟨hl, by simp [Engine256.reset, FixedBuffer.reset]⟩, ?_, rfl, rfl⟩
  simp [Engine256.reset, FixedBuffer.reset, FixedBuffer.data, blockTail]

theorem abs256_input (iv : W8 UInt32) (e : Engine256) (msg inp : Bytes) (h : Abs256 iv e msg) :
    ∃ e', e.input inp = some e' ∧ Abs256 iv e' (msg ++ inp) := by
  obtain ⟨hp, hw, hd, hs, hf⟩ := h
  obtain ⟨b', eq, hw', hd'⟩ := input_spec (by decide) e.buffer inp Eng256.Engine.blocks compressE256 e.state hw
    blocks256_isBlocks
  unfold Engine256.input
  simp only [hf, Bool.false_eq_true, if_false, eq]
  refine ⟨_, rfl, ?_, hw', ?_, ?_, rfl⟩
  · simp only [hp, List.length_append]; omega
  · rw [hd', hd, ← blockTail_append (by decide)]
  · simp only [hs, hd]
    rw [foldl_compressE256, fullBlocks_append (by decide) msg, List.foldl_append]

theorem finish256_eq (e : Engine256) (hf : e.finished = false) :
    e.finish = (md_finish 64 8 (len_be64 e.processed_bytes) e.buffer Eng256.Engine.blocks e.state).map
      (fun p => (⟨e.processed_bytes, p.1, p.2, true⟩ : Engine256)) := by
  unfold Engine256.finish md_finish md_finish_with
  simp only [hf, Bool.false_eq_true, if_false]
  cases h1 : e.buffer.standard_padding 64 8 Eng256.Engine.blocks e.state with
  | none => rfl
  | some p =>
    obtain ⟨b1, s1⟩ := p
    simp only []
    cases h2 : b1.next_write 8 (len_be64 e.processed_bytes) with
    | none => rfl
    | some b2 =>
      simp only []
      cases h3 : b2.full_buffer 64 with
      | none => rfl
      | some q =>
        obtain ⟨b3, blk⟩ := q
        simp only []
        cases h4 : s1.blocks blk with
        | none => rfl
        | some s2 => rfl

/-- `finish` inside the FIPS length domain: the state becomes the FIPS hash value of the absorbed message -/
theorem abs256_finish (iv : W8 UInt32) (e : Engine256) (msg : Bytes) (h : Abs256 iv e msg)
    (hlen : msg.length < 2 ^ 61) :
    ∃ e', e.finish = some e' ∧ e'.state = ⟨hashWords256 iv msg⟩ ∧ e'.buffer.buffer.length = 64 := by
  obtain ⟨hp, hw, hd, hs, hf⟩ := h
  obtain ⟨b', eq, hw', _⟩ := md_finish_spec (N := 64) (rem := 8) (by decide) (by decide) e.buffer
    (len_be64 e.processed_bytes) (len_be64_length _) Eng256.Engine.blocks compressE256 e.state hw
    (blocks256_isBlocks.one (by decide))
  rw [finish256_eq e hf, eq]
  refine ⟨_, rfl, ?_, hw'.1⟩
  simp only [hs, hd, hp, len_be64_eq hlen]
  rw [foldl_compressE256, md_hash_split (by decide) 8 compress256 iv Cx.Spec.MD.be64 msg]
  rfl



/-! ### output functions -/

theorem u32be_length (w : UInt32) : (u32be w).length = 4 := natToBE_length _ _
theorem u64be_length (w : UInt64) : (u64be w).length = 8 := natToBE_length _ _

theorem output_256bits_at_eq (e : Eng256.Engine) :
    e.output_256bits_at (zeros 32) = some (wordsToBytes32 e.h) := by
  unfold Eng256.Engine.output_256bits_at
  rw [slice_eq (by decide) (by simp [zeros])]
  simp only [write_u32v_be]
  have hl : (wordsToBytes32 e.h).length = 32 := by
    simp [wordsToBytes32, W8.toList, List.flatMap_cons, u32be_length]
  simp only [W8.toList, List.length_cons, List.length_nil, zeros, List.drop_zero, List.length_take,
    List.length_replicate]
  simp only [Nat.sub_zero, Nat.min_self, ne_eq, not_true_eq_false, if_false]
  rw [copy_from_slice_eq (by decide) (by simp) (by simpa [wordsToBytes32, W8.toList] using hl)]
  simp [wordsToBytes32, W8.toList]



theorem take_append_exact {α : Type} (l r : List α) (n : Nat) (h : l.length = n) : (l ++ r).take n = l :=
  List.take_left' h

theorem output_224bits_at_eq (e : Eng256.Engine) :
    e.output_224bits_at (zeros 28) = some ((wordsToBytes32 e.h).take 28) := by
  unfold Eng256.Engine.output_224bits_at
  rw [slice_eq (by decide) (by simp [zeros])]
  simp only [write_u32v_be]
  have hl : (u32be e.h.a ++ (u32be e.h.b ++ (u32be e.h.c ++ (u32be e.h.d ++ (u32be e.h.e ++
      (u32be e.h.f ++ u32be e.h.g)))))).length = 28 := by simp [u32be_length]
  have ht : (wordsToBytes32 e.h).take 28 = u32be e.h.a ++ (u32be e.h.b ++ (u32be e.h.c ++ (u32be e.h.d ++
      (u32be e.h.e ++ (u32be e.h.f ++ u32be e.h.g))))) := by
    have : wordsToBytes32 e.h = (u32be e.h.a ++ (u32be e.h.b ++ (u32be e.h.c ++ (u32be e.h.d ++ (u32be e.h.e ++
      (u32be e.h.f ++ u32be e.h.g)))))) ++ u32be e.h.h := by
      simp [wordsToBytes32, W8.toList]
    rw [this, take_append_exact _ _ 28 hl]
  simp only [W8.toList, List.take, List.length_cons, List.length_nil, zeros, List.drop_zero, List.length_take,
    List.length_replicate]
  simp only [Nat.sub_zero, Nat.min_self, ne_eq, not_true_eq_false, if_false]
  rw [copy_from_slice_eq (by decide) (by simp) (by simpa using hl)]
  rw [ht]
  simp



/-! ### the `digest!` contexts of the 32-bit family -/

/-- what a `digest!(256 …)` instantiation must satisfy: its output function applied to the zeroed output array
    returns `trunc` of the big-endian state words -/
def OutOK256 (A : Alg256) (trunc : Bytes → Bytes) : Prop :=
  ∀ e : Eng256.Engine, A.output_fn e (zeros (A.output_bits / 8)) = some (trunc (wordsToBytes32 e.h))

theorem outOK_sha256 : OutOK256 Sha256 id := fun e => output_256bits_at_eq e
theorem outOK_sha224 : OutOK256 Sha224 (List.take 28) := fun e => output_224bits_at_eq e

/-- the digest the Spec assigns to `msg` for a 32-bit-family algorithm -/
def specDigest256 (A : Alg256) (trunc : Bytes → Bytes) (msg : Bytes) : Bytes :=
  trunc (wordsToBytes32 (hashWords256 A.state msg))

open Cx.Proofs.HashProg in
/-- **the context state machine of Sha224/Sha256 refines "bytes since the last reset"** -/
theorem refines256 (A : Alg256) (trunc : Bytes → Bytes) (hout : OutOK256 A trunc) :
    Refines (fam256 A) (specDigest256 A trunc) (fun c m => Abs256 A.state c.engine m)
      (fun m => m.length < 2 ^ 61) where
  new := abs256_new A.state
  update := by
    intro c m b hR
    obtain ⟨e', he, hA⟩ := abs256_input A.state c.engine m b hR
    exact ⟨⟨e'⟩, by simp [fam256, Ctx256.update, he], hA⟩
  update_mut := by
    intro c m b hR
    obtain ⟨e', he, hA⟩ := abs256_input A.state c.engine m b hR
    exact ⟨⟨e'⟩, by simp [fam256, Ctx256.update_mut, he], hA⟩
  reset := by
    intro c m hR
    exact abs256_reset A.state c.engine hR.2.1.1
  finalize_reset := by
    intro c m hR hok
    obtain ⟨e', he, hs, hl⟩ := abs256_finish A.state c.engine m hR hok
    refine ⟨Ctx256.reset A ⟨e'⟩, ?_, abs256_reset A.state e' hl⟩
    simp [fam256, Ctx256.finalize_reset, he, hs, hout _, specDigest256]
  finalize := by
    intro c m hR hok
    obtain ⟨e', he, hs, _⟩ := abs256_finish A.state c.engine m hR hok
    simp [fam256, Ctx256.finalize, he, hs, hout _, specDigest256]

/-- one-shot: `ShaNNN::new().update(msg).finalize()` -/
theorem oneShot256_eq (A : Alg256) (trunc : Bytes → Bytes) (hout : OutOK256 A trunc) (msg : Bytes)
    (hlen : msg.length < 2 ^ 61) : oneShot256 A msg = some (specDigest256 A trunc msg) := by
  obtain ⟨e1, he1, hA1⟩ := abs256_input A.state (Engine256.new A.state) [] msg (abs256_new A.state)
  simp only [List.nil_append] at hA1
  obtain ⟨e2, he2, hs, _⟩ := abs256_finish A.state e1 msg hA1 hlen
  simp [oneShot256, Ctx256.new, Ctx256.update, he1, Ctx256.finalize, he2, hs, hout _, specDigest256]

theorem specDigest256_sha256 (msg : Bytes) : specDigest256 Sha256 id msg = Spec.Sha2.sha256 msg := by
  simp only [specDigest256, Sha256, Spec.Sha2.sha256, Cx.Proofs.Sha2Tables.H256_eq, id]

theorem specDigest256_sha224 (msg : Bytes) : specDigest256 Sha224 (List.take 28) msg = Spec.Sha2.sha224 msg := by
  simp only [specDigest256, Sha224, Spec.Sha2.sha224, Cx.Proofs.Sha2Tables.H224_eq]



/-! ### SHA-384/512/512-224/512-256 -/

/-- the statement "the u64x2 pair-lane block function of impl512/reference.rs is the FIPS compression function" -/
def Compress512OK : Prop :=
  ∀ (s : W8 UInt64) (ws : List UInt64), ws.length = 16 → Impl512.digest_block_u64 s ws = some (compress512w s ws)

/-- … and it holds: Proofs/Sha2Compress512.lean -/
theorem compress512_ok : Compress512OK := digest_block_u64_eq

def compressE512 (e : Eng512.Engine) (blk : Bytes) : Eng512.Engine := ⟨compress512 e.h blk⟩

theorem foldl_compressE512 (l : List Bytes) (h : W8 UInt64) :
    l.foldl compressE512 ⟨h⟩ = ⟨l.foldl compress512 h⟩ := by
  induction l generalizing h with
  | nil => rfl
  | cons b bs ih => simp only [List.foldl, compressE512]; exact ih _

theorem digest_block_loop512_spec (hC : Compress512OK) (k : Nat) : ∀ (fuel : Nat) (state : W8 UInt64) (block : Bytes),
    block.length = 128 * k → k < fuel →
    Impl512.digest_block_loop fuel state block = some ((fullBlocks 128 block).foldl compress512 state) := by
  induction k with
  | zero =>
    intro fuel state block hl hf
    have : block = [] := List.length_eq_zero_iff.mp (by omega)
    subst this
    obtain ⟨f, rfl⟩ : ∃ f, fuel = f + 1 := ⟨fuel - 1, by omega⟩
    simp [Impl512.digest_block_loop, fullBlocks, takeBlocks]
  | succ k ih =>
    intro fuel state block hl hf
    obtain ⟨f, rfl⟩ : ∃ f, fuel = f + 1 := ⟨fuel - 1, by omega⟩
    unfold Impl512.digest_block_loop
    have hne : block.length ≠ 0 := by omega
    simp only [hne, if_false]
    rw [slice_eq (Nat.zero_le _) (by omega)]
    simp only [List.drop_zero, Nat.sub_zero]
    have ht : (block.take 128).length = 128 := by simp; omega
    simp only [read_u64v_be, ht, ne_eq, not_true_eq_false, if_false]
    rw [hC _ _ (by rw [wordsBE64_length, ht])]
    simp only []
    rw [ih f _ (block.drop 128) (by simp; omega) (by omega)]
    have hb : block = block.take 128 ++ block.drop 128 := (List.take_append_drop 128 block).symm
    conv => rhs; rw [hb, fullBlocks_cons (by decide) ht]
    rfl

theorem blocks512_isBlocks (hC : Compress512OK) : FuncIsBlocks 128 Eng512.Engine.blocks compressE512 := by
  intro s d hd
  have hB : Eng512.BLOCK_LEN_BYTES = 128 := by decide
  unfold Eng512.Engine.blocks Impl512.digest_block
  simp only [hB, hd, ne_eq, not_true_eq_false, if_false]
  have hl : d.length = 128 * (d.length / 128) := by omega
  rw [digest_block_loop512_spec hC (d.length / 128) _ s.h d hl (by omega)]
  simp only []
  obtain ⟨h⟩ := s
  rw [foldl_compressE512]

def Abs512 (iv : W8 UInt64) (e : Engine512) (msg : Bytes) : Prop :=
  e.processed_bytes = msg.length % 2 ^ 128 ∧ WF 128 e.buffer ∧ e.buffer.data = blockTail 128 msg
  ∧ e.state = ⟨(fullBlocks 128 msg).foldl compress512 iv⟩

theorem abs512_new (iv : W8 UInt64) : Abs512 iv (Engine512.new iv) [] := by
  refine ⟨rfl, new_WF (by decide), ?_, rfl⟩
  simp [Engine512.new, new_data, blockTail]

theorem abs512_reset (iv : W8 UInt64) (e : Engine512) (hl : e.buffer.buffer.length = 128) :
    Abs512 iv (e.reset iv) [] := by
  refine ⟨rfl, ⟨hl, by simp [Engine512.reset, FixedBuffer.reset]⟩, ?_, rfl⟩
  simp [Engine512.reset, FixedBuffer.reset, FixedBuffer.data, blockTail]

theorem abs512_input (hC : Compress512OK) (iv : W8 UInt64) (e : Engine512) (msg inp : Bytes) (h : Abs512 iv e msg) :
    ∃ e', e.input inp = some e' ∧ Abs512 iv e' (msg ++ inp) := by
  obtain ⟨hp, hw, hd, hs⟩ := h
  obtain ⟨b', eq, hw', hd'⟩ := input_spec (by decide) e.buffer inp Eng512.Engine.blocks compressE512 e.state hw
    (blocks512_isBlocks hC)
  unfold Engine512.input
  simp only [eq]
  refine ⟨_, rfl, ?_, hw', ?_, ?_⟩
  · simp only [hp, List.length_append]; omega
  · rw [hd', hd, ← blockTail_append (by decide)]
  · simp only [hs, hd]
    rw [foldl_compressE512, fullBlocks_append (by decide) msg, List.foldl_append]

theorem finish512_eq (e : Engine512) :
    e.finish = (md_finish 128 16 (len_be128 e.processed_bytes) e.buffer Eng512.Engine.blocks e.state).map
      (fun p => (⟨e.processed_bytes, p.1, p.2⟩ : Engine512)) := by
  unfold Engine512.finish md_finish md_finish_with
  cases h1 : e.buffer.standard_padding 128 16 Eng512.Engine.blocks e.state with
  | none => rfl
  | some p =>
    obtain ⟨b1, s1⟩ := p
    simp only []
    cases h2 : b1.next_write 16 (len_be128 e.processed_bytes) with
    | none => rfl
    | some b2 =>
      simp only []
      cases h3 : b2.full_buffer 128 with
      | none => rfl
      | some q =>
        obtain ⟨b3, blk⟩ := q
        simp only []
        cases h4 : s1.blocks blk with
        | none => rfl
        | some s2 => rfl

theorem abs512_finish (hC : Compress512OK) (iv : W8 UInt64) (e : Engine512) (msg : Bytes) (h : Abs512 iv e msg)
    (hlen : msg.length < 2 ^ 125) :
    ∃ e', e.finish = some e' ∧ e'.state = ⟨hashWords512 iv msg⟩ ∧ e'.buffer.buffer.length = 128 := by
  obtain ⟨hp, hw, hd, hs⟩ := h
  obtain ⟨b', eq, hw', _⟩ := md_finish_spec (N := 128) (rem := 16) (by decide) (by decide) e.buffer
    (len_be128 e.processed_bytes) (len_be128_length _) Eng512.Engine.blocks compressE512 e.state hw
    ((blocks512_isBlocks hC).one (by decide))
  rw [finish512_eq e, eq]
  refine ⟨_, rfl, ?_, hw'.1⟩
  simp only [hs, hd, hp, len_be128_eq hlen]
  rw [foldl_compressE512, md_hash_split (by decide) 16 compress512 iv Cx.Spec.MD.be128 msg]
  rfl



theorem wordsToBytes64_eq (h : W8 UInt64) : wordsToBytes64 h =
    u64be h.a ++ (u64be h.b ++ (u64be h.c ++ (u64be h.d ++ (u64be h.e ++ (u64be h.f ++ (u64be h.g ++ u64be h.h)))))) := by
  simp [wordsToBytes64, W8.toList]

theorem output_512bits_at_eq (e : Eng512.Engine) :
    e.output_512bits_at (zeros 64) = some ((wordsToBytes64 e.h).take 64) := by
  unfold Eng512.Engine.output_512bits_at write_u64v_be
  have hl : (wordsToBytes64 e.h).length = 64 := by simp [wordsToBytes64_eq, u64be_length]
  have ht : (wordsToBytes64 e.h).take 64 = wordsToBytes64 e.h := List.take_of_length_le (by omega)
  rw [ht]
  simp [zeros, W8.toList, wordsToBytes64]

theorem output_384bits_at_eq (e : Eng512.Engine) :
    e.output_384bits_at (zeros 48) = some ((wordsToBytes64 e.h).take 48) := by
  unfold Eng512.Engine.output_384bits_at write_u64v_be
  have : wordsToBytes64 e.h = (u64be e.h.a ++ (u64be e.h.b ++ (u64be e.h.c ++ (u64be e.h.d ++ (u64be e.h.e ++
      u64be e.h.f))))) ++ (u64be e.h.g ++ u64be e.h.h) := by simp [wordsToBytes64_eq]
  rw [this, take_append_exact _ _ 48 (by simp [u64be_length])]
  simp [zeros, W8.toList]

theorem output_256bits_at_512_eq (e : Eng512.Engine) :
    e.output_256bits_at (zeros 32) = some ((wordsToBytes64 e.h).take 32) := by
  unfold Eng512.Engine.output_256bits_at write_u64v_be
  have : wordsToBytes64 e.h = (u64be e.h.a ++ (u64be e.h.b ++ (u64be e.h.c ++ u64be e.h.d))) ++
      (u64be e.h.e ++ (u64be e.h.f ++ (u64be e.h.g ++ u64be e.h.h))) := by simp [wordsToBytes64_eq]
  rw [this, take_append_exact _ _ 32 (by simp [u64be_length])]
  simp [zeros, W8.toList]

/-- `(self.h[3] >> 32) as u32`, big-endian = the first four bytes of the big-endian 64-bit word -/
theorem u32be_high_half (d : UInt64) : u32be (d >>> 32).toUInt32 = (u64be d).take 4 := by
  have h1 : (d >>> 32).toUInt32.toNat = d.toNat / 2 ^ 32 % 2 ^ 32 := by
    simp [UInt64.toNat_toUInt32, UInt64.toNat_shiftRight, Nat.shiftRight_eq_div_pow]
  have h2 : d.toNat < 2 ^ 64 := d.toNat_lt
  simp only [u32be, u64be, natToBE, natToLE, h1, List.reverse_cons, List.reverse_nil, List.nil_append,
    List.cons_append, List.take]
  repeat (first | rfl | (rw [List.cons.injEq]; refine ⟨congrArg UInt8.ofNat (by omega), ?_⟩))



theorem splice224 (A D R Z : Bytes) (hA : A.length = 24) (hD : D.length = 8) (hZ : Z.length = 28) :
    ((Z.take 0 ++ A ++ Z.drop 24).take 24 ++ D.take 4 ++ (Z.take 0 ++ A ++ Z.drop 24).drop 28)
      = (A ++ (D ++ R)).take 28 := by
  simp only [List.take_zero, List.nil_append]
  rw [List.take_left' hA, List.drop_of_length_le (by simp [hA, hZ]), List.append_nil]
  rw [List.take_append, hA, List.take_of_length_le (by omega : A.length ≤ 28)]
  rw [List.take_append_of_le_length (by omega)]

/-- SHA-512/224: three whole words and the upper half of the fourth = the leftmost 224 bits -/
theorem output_224bits_at_512_eq (e : Eng512.Engine) :
    e.output_224bits_at (zeros 28) = some ((wordsToBytes64 e.h).take 28) := by
  unfold Eng512.Engine.output_224bits_at
  rw [slice_eq (by decide) (by simp [zeros])]
  simp only [write_u64v_be, W8.toList, List.take, List.length_cons, List.length_nil, zeros, List.drop_zero,
    List.length_take, List.length_replicate]
  simp only [Nat.sub_zero, ne_eq]
  have h24 : (u64be e.h.a ++ (u64be e.h.b ++ u64be e.h.c)).length = 24 := by simp [u64be_length]
  simp only [List.flatMap_cons, List.flatMap_nil, List.append_nil]
  rw [if_neg (show ¬ ¬ min 24 28 = 8 * (0 + 1 + 1 + 1) by decide)]
  simp only []
  rw [copy_from_slice_eq (by decide) (by simp) (by simpa using h24)]
  simp only []
  have hout : (List.take 0 (List.replicate 28 (0 : UInt8)) ++ (u64be e.h.a ++ (u64be e.h.b ++ u64be e.h.c))
      ++ List.drop 24 (List.replicate 28 (0 : UInt8))).length = 28 := by simp [u64be_length]
  rw [slice_eq (by decide) (by omega)]
  simp only [write_u32_be, List.length_take, List.length_drop, hout]
  simp only [Nat.reduceSub, Nat.min_self, ne_eq, not_true_eq_false, if_false]
  rw [copy_from_slice_eq (by decide) (by omega) (by simp [u32be_length])]
  rw [u32be_high_half]
  have : wordsToBytes64 e.h = (u64be e.h.a ++ (u64be e.h.b ++ u64be e.h.c)) ++ (u64be e.h.d ++
      (u64be e.h.e ++ (u64be e.h.f ++ (u64be e.h.g ++ u64be e.h.h)))) := by simp [wordsToBytes64_eq]
  rw [this]
  exact congrArg some (splice224 _ _ _ _ h24 (u64be_length _) (by simp))



/-! ### the `digest!` contexts of the 64-bit family -/

def OutOK512 (A : Alg512) (n : Nat) : Prop :=
  ∀ e : Eng512.Engine, A.output_fn e (zeros (A.output_bits / 8)) = some ((wordsToBytes64 e.h).take n)

theorem outOK_sha512 : OutOK512 Sha512 64 := fun e => output_512bits_at_eq e
theorem outOK_sha384 : OutOK512 Sha384 48 := fun e => output_384bits_at_eq e
theorem outOK_sha512_256 : OutOK512 Sha512Trunc256 32 := fun e => output_256bits_at_512_eq e
theorem outOK_sha512_224 : OutOK512 Sha512Trunc224 28 := fun e => output_224bits_at_512_eq e

def specDigest512 (A : Alg512) (n : Nat) (msg : Bytes) : Bytes :=
  (wordsToBytes64 (hashWords512 A.state msg)).take n

open Cx.Proofs.HashProg in
/-- **the context state machine of Sha384/Sha512/Sha512Trunc224/Sha512Trunc256 refines "bytes since the last reset"** -/
theorem refines512 (hC : Compress512OK) (A : Alg512) (n : Nat) (hout : OutOK512 A n) :
    Refines (fam512 A) (specDigest512 A n) (fun c m => Abs512 A.state c.engine m)
      (fun m => m.length < 2 ^ 125) where
  new := abs512_new A.state
  update := by
    intro c m b hR
    obtain ⟨e', he, hA⟩ := abs512_input hC A.state c.engine m b hR
    exact ⟨⟨e'⟩, by simp [fam512, Ctx512.update, he], hA⟩
  update_mut := by
    intro c m b hR
    obtain ⟨e', he, hA⟩ := abs512_input hC A.state c.engine m b hR
    exact ⟨⟨e'⟩, by simp [fam512, Ctx512.update_mut, he], hA⟩
  reset := by
    intro c m hR
    exact abs512_reset A.state c.engine hR.2.1.1
  finalize_reset := by
    intro c m hR hok
    obtain ⟨e', he, hs, hl⟩ := abs512_finish hC A.state c.engine m hR hok
    refine ⟨Ctx512.reset A ⟨e'⟩, ?_, abs512_reset A.state e' hl⟩
    simp [fam512, Ctx512.finalize_reset, he, hs, hout _, specDigest512]
  finalize := by
    intro c m hR hok
    obtain ⟨e', he, hs, _⟩ := abs512_finish hC A.state c.engine m hR hok
    simp [fam512, Ctx512.finalize, he, hs, hout _, specDigest512]

theorem oneShot512_eq (hC : Compress512OK) (A : Alg512) (n : Nat) (hout : OutOK512 A n) (msg : Bytes)
    (hlen : msg.length < 2 ^ 125) : oneShot512 A msg = some (specDigest512 A n msg) := by
  obtain ⟨e1, he1, hA1⟩ := abs512_input hC A.state (Engine512.new A.state) [] msg (abs512_new A.state)
  simp only [List.nil_append] at hA1
  obtain ⟨e2, he2, hs, _⟩ := abs512_finish hC A.state e1 msg hA1 hlen
  simp [oneShot512, Ctx512.new, Ctx512.update, he1, Ctx512.finalize, he2, hs, hout _, specDigest512]

theorem specDigest512_sha512 (msg : Bytes) : specDigest512 Sha512 64 msg = Spec.Sha2.sha512 msg := by
  have hl : (wordsToBytes64 (hashWords512 Spec.Sha2.H512 msg)).length = 64 := by simp [wordsToBytes64_eq, u64be_length]
  simp only [specDigest512, Sha512, Spec.Sha2.sha512, Cx.Proofs.Sha2Tables.H512_eq]
  exact List.take_of_length_le (by omega)

theorem specDigest512_sha384 (msg : Bytes) : specDigest512 Sha384 48 msg = Spec.Sha2.sha384 msg := by
  simp only [specDigest512, Sha384, Spec.Sha2.sha384, Cx.Proofs.Sha2Tables.H384_eq]

theorem specDigest512_sha512_256 (msg : Bytes) : specDigest512 Sha512Trunc256 32 msg = Spec.Sha2.sha512_256 msg := by
  simp only [specDigest512, Sha512Trunc256, Spec.Sha2.sha512_256, Cx.Proofs.Sha2Tables.H512_TRUNC_256_eq]

theorem specDigest512_sha512_224 (msg : Bytes) : specDigest512 Sha512Trunc224 28 msg = Spec.Sha2.sha512_224 msg := by
  simp only [specDigest512, Sha512Trunc224, Spec.Sha2.sha512_224, Cx.Proofs.Sha2Tables.H512_TRUNC_224_eq]

/-! ### state equality up to dead buffer bytes -/

/-- everything of an `Engine256` a method can read: the array bytes beyond `buffer_idx` are dead (every path
    overwrites them before reading: `input_spec`, `md_finish_with_spec` are proved for arbitrary dead contents) -/
def view256 (e : Engine256) : Nat × Nat × Bytes × Nat × Eng256.Engine × Bool :=
  (e.processed_bytes, e.buffer.buffer_idx, e.buffer.data, e.buffer.buffer.length, e.state, e.finished)

def view512 (e : Engine512) : Nat × Nat × Bytes × Nat × Eng512.Engine :=
  (e.processed_bytes, e.buffer.buffer_idx, e.buffer.data, e.buffer.buffer.length, e.state)

/-- `reset` ≈ `new`: equal as states (up to dead bytes), from any engine whose array has its size -/
theorem reset256_view (iv : W8 UInt32) (e : Engine256) (hl : e.buffer.buffer.length = 64) :
    view256 (e.reset iv) = view256 (Engine256.new iv) := by
  simp [view256, Engine256.reset, Engine256.new, FixedBuffer.reset, FixedBuffer.new, FixedBuffer.data, hl,
    Eng256.Engine.reset, Eng256.Engine.new, zeros]

theorem reset512_view (iv : W8 UInt64) (e : Engine512) (hl : e.buffer.buffer.length = 128) :
    view512 (e.reset iv) = view512 (Engine512.new iv) := by
  simp [view512, Engine512.reset, Engine512.new, FixedBuffer.reset, FixedBuffer.new, FixedBuffer.data, hl,
    Eng512.Engine.reset, Eng512.Engine.new, zeros]

/-- the abstraction relation (hence, by `runProg_sim`, every future digest) depends on the view only -/
theorem abs256_of_view_eq (iv : W8 UInt32) (e1 e2 : Engine256) (m : Bytes) (hv : view256 e1 = view256 e2)
    (h : Abs256 iv e1 m) : Abs256 iv e2 m := by
  simp only [view256, Prod.mk.injEq] at hv
  obtain ⟨h1, h2, h3, h4, h5, h6⟩ := hv
  obtain ⟨a1, ⟨a2, a3⟩, a4, a5, a6⟩ := h
  exact ⟨h1 ▸ a1, ⟨h4 ▸ a2, h2 ▸ a3⟩, h3 ▸ a4, h5 ▸ a5, h6 ▸ a6⟩

theorem abs512_of_view_eq (iv : W8 UInt64) (e1 e2 : Engine512) (m : Bytes) (hv : view512 e1 = view512 e2)
    (h : Abs512 iv e1 m) : Abs512 iv e2 m := by
  simp only [view512, Prod.mk.injEq] at hv
  obtain ⟨h1, h2, h3, h4, h5⟩ := hv
  obtain ⟨a1, ⟨a2, a3⟩, a4, a5⟩ := h
  exact ⟨h1 ▸ a1, ⟨h4 ▸ a2, h2 ▸ a3⟩, h3 ▸ a4, h5 ▸ a5⟩

/-- an engine in relation with the empty message has the view of a new engine -/
theorem abs256_nil_view (iv : W8 UInt32) (e : Engine256) (h : Abs256 iv e []) :
    view256 e = view256 (Engine256.new iv) := by
  obtain ⟨a1, ⟨a2, a3⟩, a4, a5, a6⟩ := h
  have hi : e.buffer.buffer_idx = 0 := by
    have := data_length (N := 64) ⟨a2, a3⟩
    rw [a4] at this; simpa [blockTail] using this.symm
  simp [view256, a1, hi, a2, a5, a6, Engine256.new, FixedBuffer.new, FixedBuffer.data,
    fullBlocks, takeBlocks, Eng256.Engine.new, zeros]

theorem abs512_nil_view (iv : W8 UInt64) (e : Engine512) (h : Abs512 iv e []) :
    view512 e = view512 (Engine512.new iv) := by
  obtain ⟨a1, ⟨a2, a3⟩, a4, a5⟩ := h
  have hi : e.buffer.buffer_idx = 0 := by
    have := data_length (N := 128) ⟨a2, a3⟩
    rw [a4] at this; simpa [blockTail] using this.symm
  simp [view512, a1, hi, a2, a5, Engine512.new, FixedBuffer.new, FixedBuffer.data,
    fullBlocks, takeBlocks, Eng512.Engine.new, zeros]

end Cx.Proofs.Sha2Engine
