/-
  Proofs.GlueSimdBlake2AvxB — `avx::compress_b` / `compress_b_avx` (BLAKE2b on eight `__m128i` half rows) of the generated
  Extracted/GlueSimd.lean (namespace Blake2Avx) against `Impl.SimdBlake2.AvxB`: see Proofs/GlueSimdBlake2.lean for the scheme.
-/
import CxVerif.Proofs.GlueSimdBlake2
namespace Cx.Proofs.GlueSimdBlake2.AvxBI
open Cx Cx.Intrinsics Cx.Impl Cx.Impl.Simd Cx.Impl.SimdBlake2 Cx.Proofs.SimdBits Cx.Proofs.Keccak Cx.Proofs.SimdBlake2
open Cx.Extracted.GlueSimd Cx.Proofs.GlueSimdBlake2 Cx.Proofs.GlueSimd
open Cx.Impl.Blake2 (LastBlock)
open Cx.Spec.Blake2 (loadWords fromLE)
open Blake2Avx

/-- eight `__m128i`: the row registers, or the eight gathered vectors of a `loadR!` -/
abbrev R8 := M128i × M128i × M128i × M128i × M128i × M128i × M128i × M128i
abbrev LoadF := M128i → M128i → M128i → M128i → M128i → M128i → M128i → M128i → R8

def toRows : R8 → AvxB.Rows
  | (a, b, c, d, e, f, g, h) => ⟨to2 a, to2 b, to2 c, to2 d, to2 e, to2 f, to2 g, to2 h⟩
def toL : R8 → List V2x64
  | (a, b, c, d, e, f, g, h) => [to2 a, to2 b, to2 c, to2 d, to2 e, to2 f, to2 g, to2 h]

/-- the sequence `ROUND!(load0!()); … ROUND!(load1!());` over the generated macro functions, then `k` -/
def roundsKB {R : Type} (m0 : M128i) (m1 : M128i) (m2 : M128i) (m3 : M128i) (m4 : M128i) (m5 : M128i) (m6 : M128i) (m7 : M128i) : List LoadF → R8 → (R8 → R) → R
  | [], rows, k => k rows
  | ld :: rest, rows, k =>
    match rows with
    | (r1l, r1h, r2l, r2h, r3l, r3h, r4l, r4h) =>
      match compress_b_avx_ROUND_src (ld m0 m1 m2 m3 m4 m5 m6 m7) r1l r1h r2l r2h r3l r3h r4l r4h with
      | (a, b, c, d, e, f, g, h) => roundsKB m0 m1 m2 m3 m4 m5 m6 m7 rest (a, b, c, d, e, f, g, h) k

/-- CPS copy of the generated `compress_b_avx_src` (same prologue and epilogue, the rounds as `roundsKB`) -/
def compress_b_avx_proK (h : List UInt64) (h_off : Nat) (block : Bytes) (block_off : Nat) (iv : List UInt64) (iv_off : Nat) (t : List UInt64) (t_off : Nat) (f : M128i) : Except String (List UInt64) :=
  if ¬ (debugAssert (((16 - h_off % 16) % 16) = 0)) then .error "PANIC" else
  match _mm_loadu_si128 block block_off with
  | .error err => .error err
  | .ok v =>
  match _mm_loadu_si128 block (block_off + 16) with
  | .error err => .error err
  | .ok v_1 =>
  match _mm_loadu_si128 block (block_off + 32) with
  | .error err => .error err
  | .ok v_2 =>
  match _mm_loadu_si128 block (block_off + 48) with
  | .error err => .error err
  | .ok v_3 =>
  match _mm_loadu_si128 block (block_off + 64) with
  | .error err => .error err
  | .ok v_4 =>
  match _mm_loadu_si128 block (block_off + 80) with
  | .error err => .error err
  | .ok v_5 =>
  match _mm_loadu_si128 block (block_off + 96) with
  | .error err => .error err
  | .ok v_6 =>
  match _mm_loadu_si128 block (block_off + 112) with
  | .error err => .error err
  | .ok v_7 =>
  match _mm_load_si128_u64 h h_off with
  | .error err => .error err
  | .ok v_8 =>
  match _mm_load_si128_u64 h (h_off + 16) with
  | .error err => .error err
  | .ok v_9 =>
  match _mm_load_si128_u64 h (h_off + 32) with
  | .error err => .error err
  | .ok v_10 =>
  match _mm_load_si128_u64 h (h_off + 48) with
  | .error err => .error err
  | .ok v_11 =>
  match _mm_loadu_si128_u64 iv iv_off with
  | .error err => .error err
  | .ok v_12 =>
  match _mm_loadu_si128_u64 iv (iv_off + 16) with
  | .error err => .error err
  | .ok v_13 =>
  match _mm_loadu_si128_u64 iv (iv_off + 32) with
  | .error err => .error err
  | .ok v_14 =>
  match _mm_loadu_si128_u64 t t_off with
  | .error err => .error err
  | .ok v_15 =>
  let row4l := (_mm_xor_si128 v_14 v_15)
  match _mm_loadu_si128_u64 iv (iv_off + 48) with
  | .error err => .error err
  | .ok v_16 =>
  let row4h := (_mm_xor_si128 v_16 f)
  roundsKB v v_1 v_2 v_3 v_4 v_5 v_6 v_7 [compress_b_avx_load0_src, compress_b_avx_load1_src, compress_b_avx_load2_src, compress_b_avx_load3_src, compress_b_avx_load4_src, compress_b_avx_load5_src, compress_b_avx_load6_src, compress_b_avx_load7_src, compress_b_avx_load8_src, compress_b_avx_load9_src, compress_b_avx_load0_src, compress_b_avx_load1_src] (v_8, v_9, v_10, v_11, v_12, v_13, row4l, row4h) fun rows =>
  match rows with
  | (row1l_11, row1h_11, row2l_11, row2h_11, row3l_11, row3h_11, row4l_12, row4h_12) =>
  let row1l_12 := (_mm_xor_si128 row3l_11 row1l_11)
  let row1h_12 := (_mm_xor_si128 row3h_11 row1h_11)
  match _mm_store_si128_u64 h h_off (_mm_xor_si128 v_8 row1l_12) with
  | .error err => .error err
  | .ok h_buf =>
  match _mm_store_si128_u64 h_buf (h_off + 16) (_mm_xor_si128 v_9 row1h_12) with
  | .error err => .error err
  | .ok h_buf_1 =>
  let row2l_12 := (_mm_xor_si128 row4l_12 row2l_11)
  let row2h_12 := (_mm_xor_si128 row4h_12 row2h_11)
  match _mm_store_si128_u64 h_buf_1 (h_off + 32) (_mm_xor_si128 v_10 row2l_12) with
  | .error err => .error err
  | .ok h_buf_2 =>
  match _mm_store_si128_u64 h_buf_2 (h_off + 48) (_mm_xor_si128 v_11 row2h_12) with
  | .error err => .error err
  | .ok h_buf_3 =>
  .ok h_buf_3


theorem compress_b_avx_src_eq_proK (h : List UInt64) (h_off : Nat) (block : Bytes) (block_off : Nat) (iv : List UInt64) (iv_off : Nat)
    (t : List UInt64) (t_off : Nat) (f : M128i) :
    compress_b_avx_src h h_off block block_off iv iv_off t t_off f = compress_b_avx_proK h h_off block block_off iv iv_off t t_off f := by
  kernel_rfl

/-! ### the row macros -/

theorem G1_tie (b0 b1 r1l r1h r2l r2h r3l r3h r4l r4h : M128i) :
    toRows (compress_b_avx_G1_src b0 b1 r1l r1h r2l r2h r3l r3h r4l r4h)
      = AvxB.G1 (toRows (r1l, r1h, r2l, r2h, r3l, r3h, r4l, r4h)) (to2 b0) (to2 b1) := by
  simp only [compress_b_avx_G1_src, compress_b_avx_G_rotate32_epi64_rotate24_epi64_src, toRows, AvxB.G1, AvxB.G, to2_add, to2_xor,
    to2_rotate32, to2_rotate24]

theorem G2_tie (b0 b1 r1l r1h r2l r2h r3l r3h r4l r4h : M128i) :
    toRows (compress_b_avx_G2_src b0 b1 r1l r1h r2l r2h r3l r3h r4l r4h)
      = AvxB.G2 avxbRot63 (toRows (r1l, r1h, r2l, r2h, r3l, r3h, r4l, r4h)) (to2 b0) (to2 b1) := by
  simp only [compress_b_avx_G2_src, compress_b_avx_G_rotate16_epi64_rotate63_epi64_src, toRows, AvxB.G2, AvxB.G, to2_add, to2_xor,
    to2_rotate16, to2_rotate63]

theorem DIAG_tie (r2l r2h r3l r3h r4l r4h : M128i) (x y : M128i) :
    (match compress_b_avx_DIAGONALIZE_src r2l r2h r3l r3h r4l r4h with
      | (a, b, c, d, e, f) => toRows (x, y, a, b, c, d, e, f)) = AvxB.DIAGONALIZE (toRows (x, y, r2l, r2h, r3l, r3h, r4l, r4h)) := by
  simp only [compress_b_avx_DIAGONALIZE_src, toRows, AvxB.DIAGONALIZE, to2_alignr8]

theorem UNDIAG_tie (r2l r2h r3l r3h r4l r4h : M128i) (x y : M128i) :
    (match compress_b_avx_UNDIAGONALIZE_src r2l r2h r3l r3h r4l r4h with
      | (a, b, c, d, e, f) => toRows (x, y, a, b, c, d, e, f)) = AvxB.UNDIAGONALIZE (toRows (x, y, r2l, r2h, r3l, r3h, r4l, r4h)) := by
  simp only [compress_b_avx_UNDIAGONALIZE_src, toRows, AvxB.UNDIAGONALIZE, to2_alignr8]

/-- `ROUND!($load)` -/
theorem ROUND_tie (ld : R8) (rows : R8) :
    AvxB.ROUND avxbRot63 (toRows rows) (toL ld) =
      some (toRows (match rows with
        | (r1l, r1h, r2l, r2h, r3l, r3h, r4l, r4h) => compress_b_avx_ROUND_src ld r1l r1h r2l r2h r3l r3h r4l r4h)) := by
  obtain ⟨b0, b1, b2, b3, b4, b5, b6, b7⟩ := ld
  obtain ⟨r1l, r1h, r2l, r2h, r3l, r3h, r4l, r4h⟩ := rows
  simp only [compress_b_avx_ROUND_src, toL, AvxB.ROUND]
  rw [← G1_tie]
  generalize compress_b_avx_G1_src b0 b1 r1l r1h r2l r2h r3l r3h r4l r4h = p1
  obtain ⟨a1, a2, a3, a4, a5, a6, a7, a8⟩ := p1
  rw [← G2_tie]
  generalize compress_b_avx_G2_src b2 b3 a1 a2 a3 a4 a5 a6 a7 a8 = p2
  obtain ⟨c1, c2, c3, c4, c5, c6, c7, c8⟩ := p2
  rw [← DIAG_tie]
  generalize compress_b_avx_DIAGONALIZE_src c3 c4 c5 c6 c7 c8 = p3
  obtain ⟨d3, d4, d5, d6, d7, d8⟩ := p3
  rw [← G1_tie]
  generalize compress_b_avx_G1_src b4 b5 c1 c2 d3 d4 d5 d6 d7 d8 = p4
  obtain ⟨e1, e2, e3, e4, e5, e6, e7, e8⟩ := p4
  rw [← G2_tie]
  generalize compress_b_avx_G2_src b6 b7 e1 e2 e3 e4 e5 e6 e7 e8 = p5
  obtain ⟨f1, f2, f3, f4, f5, f6, f7, f8⟩ := p5
  rw [← UNDIAG_tie]

/-- a generated `loadR!` function gathers what the model's program `B_AVX_LOADS[r]` gathers -/
def LoadTie (ld : LoadF) (r : Nat) : Prop :=
  ∀ m0 m1 m2 m3 m4 m5 m6 m7 : M128i,
    AvxB.load [to2 m0, to2 m1, to2 m2, to2 m3, to2 m4, to2 m5, to2 m6, to2 m7] r = some (toL (ld m0 m1 m2 m3 m4 m5 m6 m7))


set_option linter.unusedSimpArgs false
theorem load0_tie : LoadTie compress_b_avx_load0_src 0 := by
  intro m0 m1 m2 m3 m4 m5 m6 m7
  simp only [compress_b_avx_load0_src, toL, to2_unpacklo, to2_unpackhi, to2_alignr8, to2_blendF0, to2_shuffle78]
  rfl
theorem load1_tie : LoadTie compress_b_avx_load1_src 1 := by
  intro m0 m1 m2 m3 m4 m5 m6 m7
  simp only [compress_b_avx_load1_src, toL, to2_unpacklo, to2_unpackhi, to2_alignr8, to2_blendF0, to2_shuffle78]
  rfl
theorem load2_tie : LoadTie compress_b_avx_load2_src 2 := by
  intro m0 m1 m2 m3 m4 m5 m6 m7
  simp only [compress_b_avx_load2_src, toL, to2_unpacklo, to2_unpackhi, to2_alignr8, to2_blendF0, to2_shuffle78]
  rfl
theorem load3_tie : LoadTie compress_b_avx_load3_src 3 := by
  intro m0 m1 m2 m3 m4 m5 m6 m7
  simp only [compress_b_avx_load3_src, toL, to2_unpacklo, to2_unpackhi, to2_alignr8, to2_blendF0, to2_shuffle78]
  rfl
theorem load4_tie : LoadTie compress_b_avx_load4_src 4 := by
  intro m0 m1 m2 m3 m4 m5 m6 m7
  simp only [compress_b_avx_load4_src, toL, to2_unpacklo, to2_unpackhi, to2_alignr8, to2_blendF0, to2_shuffle78]
  rfl
theorem load5_tie : LoadTie compress_b_avx_load5_src 5 := by
  intro m0 m1 m2 m3 m4 m5 m6 m7
  simp only [compress_b_avx_load5_src, toL, to2_unpacklo, to2_unpackhi, to2_alignr8, to2_blendF0, to2_shuffle78]
  rfl
theorem load6_tie : LoadTie compress_b_avx_load6_src 6 := by
  intro m0 m1 m2 m3 m4 m5 m6 m7
  simp only [compress_b_avx_load6_src, toL, to2_unpacklo, to2_unpackhi, to2_alignr8, to2_blendF0, to2_shuffle78]
  rfl
theorem load7_tie : LoadTie compress_b_avx_load7_src 7 := by
  intro m0 m1 m2 m3 m4 m5 m6 m7
  simp only [compress_b_avx_load7_src, toL, to2_unpacklo, to2_unpackhi, to2_alignr8, to2_blendF0, to2_shuffle78]
  rfl
theorem load8_tie : LoadTie compress_b_avx_load8_src 8 := by
  intro m0 m1 m2 m3 m4 m5 m6 m7
  simp only [compress_b_avx_load8_src, toL, to2_unpacklo, to2_unpackhi, to2_alignr8, to2_blendF0, to2_shuffle78]
  rfl
theorem load9_tie : LoadTie compress_b_avx_load9_src 9 := by
  intro m0 m1 m2 m3 m4 m5 m6 m7
  simp only [compress_b_avx_load9_src, toL, to2_unpacklo, to2_unpackhi, to2_alignr8, to2_blendF0, to2_shuffle78]
  rfl

/-- the model's `rounds` follows the fold over the generated macro functions -/
theorem roundsKB_spec (m0 m1 m2 m3 m4 m5 m6 m7 : M128i) :
    ∀ (lds : List (LoadF × Nat)), (∀ p ∈ lds, LoadTie p.1 p.2) → ∀ (rows : R8),
      ∃ rows', (∀ {R : Type} (k : R8 → R), roundsKB m0 m1 m2 m3 m4 m5 m6 m7 (lds.map Prod.fst) rows k = k rows') ∧
        AvxB.rounds avxbRot63 [to2 m0, to2 m1, to2 m2, to2 m3, to2 m4, to2 m5, to2 m6, to2 m7] (toRows rows) (lds.map Prod.snd)
          = some (toRows rows') := by
  intro lds
  induction lds with
  | nil => intro _ rows; exact ⟨rows, fun _ => rfl, rfl⟩
  | cons p rest ih =>
    intro hp rows
    obtain ⟨ld, r⟩ := p
    have hld : LoadTie ld r := hp (ld, r) (by simp)
    obtain ⟨r1l, r1h, r2l, r2h, r3l, r3h, r4l, r4h⟩ := rows
    have hR := ROUND_tie (ld m0 m1 m2 m3 m4 m5 m6 m7) (r1l, r1h, r2l, r2h, r3l, r3h, r4l, r4h)
    dsimp only at hR
    generalize hq : compress_b_avx_ROUND_src (ld m0 m1 m2 m3 m4 m5 m6 m7) r1l r1h r2l r2h r3l r3h r4l r4h = q at hR
    obtain ⟨a, b, c, d, e, f, g, h⟩ := q
    obtain ⟨rows', h1, h2⟩ := ih (fun p hp' => hp p (by simp [hp'])) (a, b, c, d, e, f, g, h)
    refine ⟨rows', ?_, ?_⟩
    · intro R k
      simp only [List.map_cons, roundsKB, hq]
      exact h1 k
    · simp only [List.map_cons, AvxB.rounds, hld m0 m1 m2 m3 m4 m5 m6 m7, hR]
      exact h2

/-- the pairs (generated gather function, index of the model's program) of the twelve rounds, in source order -/
def loadsB : List (LoadF × Nat) :=
  [(compress_b_avx_load0_src, 0), (compress_b_avx_load1_src, 1), (compress_b_avx_load2_src, 2), (compress_b_avx_load3_src, 3),
   (compress_b_avx_load4_src, 4), (compress_b_avx_load5_src, 5), (compress_b_avx_load6_src, 6), (compress_b_avx_load7_src, 7),
   (compress_b_avx_load8_src, 8), (compress_b_avx_load9_src, 9), (compress_b_avx_load0_src, 0), (compress_b_avx_load1_src, 1)]

theorem loadsB_tie : ∀ p ∈ loadsB, LoadTie p.1 p.2 := by
  intro p hp
  simp only [loadsB, List.mem_cons, List.mem_nil_iff, or_false] at hp
  rcases hp with h | h | h | h | h | h | h | h | h | h | h | h <;> subst h
  exacts [load0_tie, load1_tie, load2_tie, load3_tie, load4_tie, load5_tie, load6_tie, load7_tie, load8_tie, load9_tie, load0_tie, load1_tie]

theorem loadsB_rounds : loadsB.map Prod.snd = Extracted.Simd.B_AVX_ROUNDS := by decide

/-! ### memory, and the whole function -/

theorem leNat_append (a b : Bytes) : leNat (a ++ b) = leNat a + 256 ^ a.length * leNat b := by
  induction a with
  | nil => simp [leNat]
  | cons x xs ih =>
    simp only [List.cons_append, leNat, ih, List.length_cons, Nat.pow_succ]
    rw [Nat.mul_add, Nat.add_assoc, ← Nat.mul_assoc, Nat.mul_comm 256 (256 ^ xs.length)]

theorem join64_toNat (a b : UInt32) : (join64 a b).toNat = a.toNat + 2 ^ 32 * b.toNat := by
  have ha := a.toNat_lt; have hb := b.toNat_lt
  simp only [join64, UInt64.toNat_or, UInt64.toNat_shiftLeft, UInt32.toNat_toUInt64]
  have e : (UInt64.toNat 32 % 64) = 32 := by decide
  rw [e, Nat.shiftLeft_eq, Nat.mod_eq_of_lt (by omega), Nat.or_comm, ← Nat.shiftLeft_eq,
    ← Nat.shiftLeft_add_eq_or_of_lt (by omega), Nat.shiftLeft_eq]
  omega

/-- two consecutive little-endian dword loads = one little-endian qword -/
theorem ld64 (b : Bytes) (o : Nat) (h : o + 8 ≤ b.length) :
    join64 (ld32 b o) (ld32 b (o + 4)) = (fromLE ((b.drop o).take 8) : UInt64) := by
  apply UInt64.toNat_inj.mp
  rw [join64_toNat]
  show _ = (UInt64.ofNat _).toNat
  rw [UInt64.toNat_ofNat']
  have h1 : ((b.drop o).take 4).length = 4 := by rw [List.length_take, List.length_drop]; omega
  have h2 : ((b.drop (o + 4)).take 4).length = 4 := by rw [List.length_take, List.length_drop]; omega
  have e : (b.drop o).take 8 = (b.drop o).take 4 ++ (b.drop (o + 4)).take 4 := by
    rw [show (8 : Nat) = 4 + 4 from rfl, List.take_add, List.drop_drop]
  rw [e, leNat_append, h1]
  unfold ld32
  rw [(ofBytes32_toNat _ (by omega)).1, (ofBytes32_toNat _ (by omega)).1]
  have l1 := leNat_lt ((b.drop o).take 4)
  have l2 := leNat_lt ((b.drop (o + 4)).take 4)
  rw [h1] at l1; rw [h2] at l2
  omega

/-- the 16 bytes at offset `o` as a vector -/
def vec (b : Bytes) (o : Nat) : M128i := ⟨ld32 b o, ld32 b (o + 4), ld32 b (o + 8), ld32 b (o + 12)⟩

theorem loadu_vec (b : Bytes) (o : Nat) (h : o + 16 ≤ b.length) : _mm_loadu_si128 b o = .ok (vec b o) := by
  unfold _mm_loadu_si128; rw [if_pos h]; rfl

theorem to2_vec (b : Bytes) (k : Nat) (h : 16 * k + 16 ≤ b.length) :
    to2 (vec b (16 * k)) = ⟨(fromLE ((b.drop ((2 * k) * 8)).take 8) : UInt64), (fromLE ((b.drop ((2 * k + 1) * 8)).take 8) : UInt64)⟩ := by
  simp only [to2, vec]
  have h2 := ld64 b (16 * k + 8) (by omega)
  rw [show 16 * k + 8 + 4 = 16 * k + 12 by omega] at h2
  rw [ld64 b (16 * k) (by omega), h2, show 2 * k * 8 = 16 * k by omega, show (2 * k + 1) * 8 = 16 * k + 8 by omega]

theorem msg_eq (b : Bytes) (h : 128 ≤ b.length) :
    AvxB.msgVecs (loadWords b) = [to2 (vec b 0), to2 (vec b 16), to2 (vec b 32), to2 (vec b 48), to2 (vec b 64), to2 (vec b 80),
      to2 (vec b 96), to2 (vec b 112)] := by
  have e := fun k (hk : 16 * k + 16 ≤ b.length) => to2_vec b k hk
  have e0 := e 0 (by omega); have e1 := e 1 (by omega); have e2 := e 2 (by omega); have e3 := e 3 (by omega)
  have e4 := e 4 (by omega); have e5 := e 5 (by omega); have e6 := e 6 (by omega); have e7 := e 7 (by omega)
  simp only [Nat.mul_zero, Nat.reduceMul, Nat.reduceAdd] at e0 e1 e2 e3 e4 e5 e6 e7
  rw [e0, e1, e2, e3, e4, e5, e6, e7]
  simp only [AvxB.msgVecs, loadWords, Vector.getElem_ofFn]
  rfl
/-- the model's `compress_b_avx` once its `rounds` are known -/
theorem model_eq (h iv : Vector UInt64 8) (block : Bytes) (t f : V2x64) (s' : AvxB.Rows)
    (hr : AvxB.rounds (fun r => (AvxB.rotate63_epi64 r).getD r) (AvxB.msgVecs (loadWords block))
      ⟨⟨h[0], h[1]⟩, ⟨h[2], h[3]⟩, ⟨h[4], h[5]⟩, ⟨h[6], h[7]⟩, ⟨iv[0], iv[1]⟩, ⟨iv[2], iv[3]⟩, V2x64.xor ⟨iv[4], iv[5]⟩ t,
        V2x64.xor ⟨iv[6], iv[7]⟩ f⟩ Extracted.Simd.B_AVX_ROUNDS = some s') :
    AvxB.compress_b_avx h block iv t f = some #v[
      (V2x64.xor ⟨h[0], h[1]⟩ (s'.row3l.xor s'.row1l)).l0, (V2x64.xor ⟨h[0], h[1]⟩ (s'.row3l.xor s'.row1l)).l1,
      (V2x64.xor ⟨h[2], h[3]⟩ (s'.row3h.xor s'.row1h)).l0, (V2x64.xor ⟨h[2], h[3]⟩ (s'.row3h.xor s'.row1h)).l1,
      (V2x64.xor ⟨h[4], h[5]⟩ (s'.row4l.xor s'.row2l)).l0, (V2x64.xor ⟨h[4], h[5]⟩ (s'.row4l.xor s'.row2l)).l1,
      (V2x64.xor ⟨h[6], h[7]⟩ (s'.row4h.xor s'.row2h)).l0, (V2x64.xor ⟨h[6], h[7]⟩ (s'.row4h.xor s'.row2h)).l1] := by
  unfold AvxB.compress_b_avx
  rw [avxb_rotate63]
  simp only [hr]

set_option maxRecDepth 4000 in
/-- **`compress_b_avx`** of the translated source = the model, on any chaining value / IV / counter words and any block of ≥ 128 bytes -/
theorem compress_b_avx_src_eq_model (h0 h1 h2 h3 h4 h5 h6 h7 i0 i1 i2 i3 i4 i5 i6 i7 t0 t1 : UInt64) (block : Bytes)
    (hb : 128 ≤ block.length) (f : M128i) :
    ∃ out : Vector UInt64 8,
      AvxB.compress_b_avx #v[h0, h1, h2, h3, h4, h5, h6, h7] block #v[i0, i1, i2, i3, i4, i5, i6, i7] ⟨t0, t1⟩ (to2 f) = some out ∧
      compress_b_avx_src [h0, h1, h2, h3, h4, h5, h6, h7] 0 block 0 [i0, i1, i2, i3, i4, i5, i6, i7] 0 [t0, t1] 0 f = .ok out.toList := by
  rw [compress_b_avx_src_eq_proK]
  unfold compress_b_avx_proK
  rw [if_neg (by decide)]
  simp only [Nat.zero_add, loadu_vec block 0 (by omega), loadu_vec block 16 (by omega), loadu_vec block 32 (by omega),
    loadu_vec block 48 (by omega), loadu_vec block 64 (by omega), loadu_vec block 80 (by omega), loadu_vec block 96 (by omega),
    loadu_vec block 112 (by omega)]
  have hl0 : _mm_load_si128_u64 [h0, h1, h2, h3, h4, h5, h6, h7] 0 = .ok (M128i.ofQwords h0 h1) := rfl
  have hl1 : _mm_load_si128_u64 [h0, h1, h2, h3, h4, h5, h6, h7] 16 = .ok (M128i.ofQwords h2 h3) := rfl
  have hl2 : _mm_load_si128_u64 [h0, h1, h2, h3, h4, h5, h6, h7] 32 = .ok (M128i.ofQwords h4 h5) := rfl
  have hl3 : _mm_load_si128_u64 [h0, h1, h2, h3, h4, h5, h6, h7] 48 = .ok (M128i.ofQwords h6 h7) := rfl
  have il0 : _mm_loadu_si128_u64 [i0, i1, i2, i3, i4, i5, i6, i7] 0 = .ok (M128i.ofQwords i0 i1) := rfl
  have il1 : _mm_loadu_si128_u64 [i0, i1, i2, i3, i4, i5, i6, i7] 16 = .ok (M128i.ofQwords i2 i3) := rfl
  have il2 : _mm_loadu_si128_u64 [i0, i1, i2, i3, i4, i5, i6, i7] 32 = .ok (M128i.ofQwords i4 i5) := rfl
  have il3 : _mm_loadu_si128_u64 [i0, i1, i2, i3, i4, i5, i6, i7] 48 = .ok (M128i.ofQwords i6 i7) := rfl
  have tl0 : _mm_loadu_si128_u64 [t0, t1] 0 = .ok (M128i.ofQwords t0 t1) := rfl
  simp only [hl0, hl1, hl2, hl3, il0, il1, il2, il3, tl0]
  -- the twelve rounds
  obtain ⟨rows', hk, hm⟩ := roundsKB_spec (vec block 0) (vec block 16) (vec block 32) (vec block 48)
    (vec block 64) (vec block 80) (vec block 96) (vec block 112) loadsB loadsB_tie
    (M128i.ofQwords h0 h1, M128i.ofQwords h2 h3, M128i.ofQwords h4 h5, M128i.ofQwords h6 h7, M128i.ofQwords i0 i1, M128i.ofQwords i2 i3,
      _mm_xor_si128 (M128i.ofQwords i4 i5) (M128i.ofQwords t0 t1), _mm_xor_si128 (M128i.ofQwords i6 i7) f)
  rw [loadsB_rounds] at hm
  have hfst : loadsB.map Prod.fst = [compress_b_avx_load0_src, compress_b_avx_load1_src, compress_b_avx_load2_src,
      compress_b_avx_load3_src, compress_b_avx_load4_src, compress_b_avx_load5_src, compress_b_avx_load6_src,
      compress_b_avx_load7_src, compress_b_avx_load8_src, compress_b_avx_load9_src, compress_b_avx_load0_src,
      compress_b_avx_load1_src] := rfl
  rw [hfst] at hk
  rw [hk]
  obtain ⟨a1, a2, b1, b2, c1, c2, d1, d2⟩ := rows'
  dsimp only
  -- the model
  have hr : AvxB.rounds (fun r => (AvxB.rotate63_epi64 r).getD r) (AvxB.msgVecs (loadWords block))
      ⟨⟨h0, h1⟩, ⟨h2, h3⟩, ⟨h4, h5⟩, ⟨h6, h7⟩, ⟨i0, i1⟩, ⟨i2, i3⟩, V2x64.xor ⟨i4, i5⟩ ⟨t0, t1⟩, V2x64.xor ⟨i6, i7⟩ (to2 f)⟩
      Extracted.Simd.B_AVX_ROUNDS = some (toRows (a1, a2, b1, b2, c1, c2, d1, d2)) := by
    rw [msg_eq block hb]
    have hrows : (⟨⟨h0, h1⟩, ⟨h2, h3⟩, ⟨h4, h5⟩, ⟨h6, h7⟩, ⟨i0, i1⟩, ⟨i2, i3⟩, V2x64.xor ⟨i4, i5⟩ ⟨t0, t1⟩, V2x64.xor ⟨i6, i7⟩ (to2 f)⟩ : AvxB.Rows)
        = toRows (M128i.ofQwords h0 h1, M128i.ofQwords h2 h3, M128i.ofQwords h4 h5, M128i.ofQwords h6 h7, M128i.ofQwords i0 i1,
          M128i.ofQwords i2 i3, _mm_xor_si128 (M128i.ofQwords i4 i5) (M128i.ofQwords t0 t1), _mm_xor_si128 (M128i.ofQwords i6 i7) f) := by
      simp only [toRows, to2_xor, to2_ofQwords]
    rw [hrows]
    exact hm
  have hmod := model_eq #v[h0, h1, h2, h3, h4, h5, h6, h7] #v[i0, i1, i2, i3, i4, i5, i6, i7] block ⟨t0, t1⟩ (to2 f) _ hr
  refine ⟨_, hmod, ?_⟩
  have e : ∀ (x y : M128i) (p q : UInt64), to2 (_mm_xor_si128 (M128i.ofQwords p q) (_mm_xor_si128 x y)) =
      V2x64.xor ⟨p, q⟩ ((to2 x).xor (to2 y)) := fun x y p q => by rw [to2_xor, to2_xor, to2_ofQwords]
  show _ = Except.ok [(V2x64.xor ⟨h0, h1⟩ ((to2 c1).xor (to2 a1))).l0, (V2x64.xor ⟨h0, h1⟩ ((to2 c1).xor (to2 a1))).l1,
      (V2x64.xor ⟨h2, h3⟩ ((to2 c2).xor (to2 a2))).l0, (V2x64.xor ⟨h2, h3⟩ ((to2 c2).xor (to2 a2))).l1,
      (V2x64.xor ⟨h4, h5⟩ ((to2 d1).xor (to2 b1))).l0, (V2x64.xor ⟨h4, h5⟩ ((to2 d1).xor (to2 b1))).l1,
      (V2x64.xor ⟨h6, h7⟩ ((to2 d2).xor (to2 b2))).l0, (V2x64.xor ⟨h6, h7⟩ ((to2 d2).xor (to2 b2))).l1]
  rw [← e c1 a1 h0 h1, ← e c2 a2 h2 h3, ← e d1 b1 h4 h5, ← e d2 b2 h6 h7]
  rfl

theorem b_IV_eq : Impl.Blake2.b.iv = #v[0x6a09e667f3bcc908, 0xbb67ae8584caa73b, 0x3c6ef372fe94f82b, 0xa54ff53a5f1d36f1,
    0x510e527fade682d1, 0x9b05688c2b3e6c1f, 0x1f83d9abfb41bd6b, 0x5be0cd19137e2179] := by decide

/-- **`avx::compress_b`** of the translated source = the model `avx_compress_b` -/
theorem compress_b_src_eq_model (h0 h1 h2 h3 h4 h5 h6 h7 t0 t1 : UInt64) (buf : Bytes) (hb : 128 ≤ buf.length) (last : LastBlock) :
    ∃ out : Vector UInt64 8, avx_compress_b #v[h0, h1, h2, h3, h4, h5, h6, h7] t0.toNat t1.toNat buf last = some out ∧
      compress_b_src [h0, h1, h2, h3, h4, h5, h6, h7] [t0, t1] buf last = .ok (out.toList, [t0, t1]) := by
  obtain ⟨out, hm, hs⟩ := compress_b_avx_src_eq_model h0 h1 h2 h3 h4 h5 h6 h7 0x6a09e667f3bcc908 0xbb67ae8584caa73b
    0x3c6ef372fe94f82b 0xa54ff53a5f1d36f1 0x510e527fade682d1 0x9b05688c2b3e6c1f 0x1f83d9abfb41bd6b 0x5be0cd19137e2179 t0 t1 buf hb
    (if last = LastBlock.Yes then _mm_set_epi64x 0 0xffffffffffffffff else _mm_set1_epi64x 0)
  refine ⟨out, ?_, ?_⟩
  · unfold avx_compress_b
    rw [b_IV_eq]
    simp only [UInt64.ofNat_toNat]
    rw [← hm]
    congr 1
    cases last <;> decide
  · unfold compress_b_src
    have hiv : b_IV = [0x6a09e667f3bcc908, 0xbb67ae8584caa73b, 0x3c6ef372fe94f82b, 0xa54ff53a5f1d36f1,
      0x510e527fade682d1, 0x9b05688c2b3e6c1f, 0x1f83d9abfb41bd6b, 0x5be0cd19137e2179] := rfl
    rw [hiv]
    dsimp only
    rw [hs]

end Cx.Proofs.GlueSimdBlake2.AvxBI
