/-
  Proofs.Sha1Chunks — `slice.chunks(n)` (Util.Bytes `chunks`) on a whole number of blocks is `fullBlocks`;
  word parsing of a 64-byte block yields 16 words.  Shared by the SHA-1 and RIPEMD-160 streaming proofs.
-/
import CxVerif.Proofs.FixedBuffer
namespace Cx.Proofs.Sha1Chunks
open Cx Cx.Proofs.FB

theorem chunksAux_eq_takeBlocks {n : Nat} (hn : 0 < n) (k : Nat) :
    ∀ (fuel : Nat) (bs : Bytes), bs.length = k * n → k ≤ fuel → chunksAux n fuel bs = takeBlocks n k bs := by
  induction k with
  | zero =>
    intro fuel bs hl _
    have : bs = [] := List.eq_nil_of_length_eq_zero (by simpa using hl)
    subst this
    cases fuel <;> rfl
  | succ k ih =>
    intro fuel bs hl hf
    obtain ⟨f, rfl⟩ : ∃ f, fuel = f + 1 := ⟨fuel - 1, by omega⟩
    have hpos : 0 < bs.length := by rw [hl, Nat.add_mul]; omega
    have hne : bs.isEmpty = false := by
      cases bs with
      | nil => simp at hpos
      | cons _ _ => rfl
    simp only [chunksAux, hne, Bool.false_eq_true, if_false, takeBlocks]
    rw [ih f (bs.drop n) (by rw [List.length_drop, hl, Nat.add_mul]; omega) (by omega)]

/-- `d.chunks(n)` for `d.len() % n == 0` are exactly the full blocks -/
theorem chunks_eq_fullBlocks {n : Nat} (hn : 0 < n) (d : Bytes) (h : d.length % n = 0) :
    chunks n d = fullBlocks n d := by
  unfold chunks fullBlocks
  have hl : d.length = d.length / n * n := by
    have := Nat.div_add_mod d.length n
    rw [h, Nat.add_zero, Nat.mul_comm] at this
    exact this.symm
  apply chunksAux_eq_takeBlocks hn (d.length / n) d.length d hl
  calc d.length / n ≤ d.length / n * n := Nat.le_mul_of_pos_right _ hn
    _ = d.length := hl.symm

theorem wordsBE32_length (blk : Bytes) (h : blk.length = 64) : (wordsBE32 blk).length = 16 := by
  unfold wordsBE32
  rw [List.length_map, chunks_eq_fullBlocks (by decide) blk (by rw [h]), fullBlocks, takeBlocks_length, h]

theorem wordsLE32_length (blk : Bytes) (h : blk.length = 64) : (wordsLE32 blk).length = 16 := by
  unfold wordsLE32
  rw [List.length_map, chunks_eq_fullBlocks (by decide) blk (by rw [h]), fullBlocks, takeBlocks_length, h]

end Cx.Proofs.Sha1Chunks
