/-
  Proofs.GlueSimdBlake2 — helper lemmas of the SIMD glue tie for BLAKE2 (Props/C16/GlueTieSimdBlake2.lean): the generated
  `compress_b` / `compress_s` of Extracted/GlueSimd.lean (namespaces Blake2Avx, Blake2Avx2) against the lane model
  Impl/SimdBlake2.lean.

    bits            qword / dword / byte views of Util/Intrinsics.lean (`join64`, `lo32`, `hi32`, `ofBytes32`, 16-bit words)
    to2             a generated `__m128i` as the model's two 64-bit lanes `V2x64`; every intrinsic used by `compress_b_avx` commutes
                    with it (per immediate the source uses)
    roundsK         the twelve `ROUND!(loadR!())` statements as a fold in continuation-passing style over the GENERATED macro
                    functions (the generated code IS this fold: `kernel_rfl` in the Props file), related to the model's `rounds`
                    over the extracted round list by induction
-/
import CxVerif.Extracted.GlueSimd
import CxVerif.Impl.SimdBlake2
import CxVerif.Proofs.SimdBits
import CxVerif.Proofs.SimdBlake2
import CxVerif.Proofs.KeccakTactic
import CxVerif.Proofs.GlueSimd
namespace Cx.Proofs.GlueSimdBlake2
open Cx Cx.Intrinsics Cx.Impl Cx.Impl.Simd Cx.Impl.SimdBlake2 Cx.Proofs.SimdBits Cx.Proofs.Keccak
open Cx.Extracted.GlueSimd Cx.Proofs.SimdBlake2

/-! ## bits -/

theorem mod32_64 (y : BitVec 64) (j : Nat) (h : j < 64) : (y % 4294967296#64)[j] = (decide (j < 32) && y[j]) := by
  have : y % 4294967296#64 = (y.setWidth 32).setWidth 64 := by
    apply BitVec.eq_of_toNat_eq
    simp [BitVec.toNat_umod]
    omega
  rw [this]
  simp [BitVec.getElem_setWidth, BitVec.getLsbD_setWidth, h]

macro "bits64'" : tactic =>
  `(tactic| (apply UInt64.eq_of_toBitVec_eq; simp <;> try (ext i hi; interval_cases i <;> simp [mod256_64, mod32_64])))
macro "bits32'" : tactic =>
  `(tactic| (apply UInt32.eq_of_toBitVec_eq; simp <;> try (ext i hi; interval_cases i <;> simp [mod256_32, mod32_64])))

theorem join_split (q : UInt64) : join64 (lo32 q) (hi32 q) = q := by
  simp only [join64, lo32, hi32]; bits64'
theorem lo_join (a b : UInt32) : lo32 (join64 a b) = a := by
  simp only [join64, lo32]; bits32'
theorem hi_join (a b : UInt32) : hi32 (join64 a b) = b := by
  simp only [join64, hi32]; bits32'
theorem join_xor (a b c d : UInt32) : join64 (a ^^^ c) (b ^^^ d) = join64 a b ^^^ join64 c d := by
  simp only [join64]; bits64'
theorem join_or (a b c d : UInt32) : join64 (a ||| c) (b ||| d) = join64 a b ||| join64 c d := by
  simp only [join64]; bits64'
theorem ofBytes32_bytes32 (x : UInt32) : Intrinsics.ofBytes32 [Intrinsics.byte32 x 0, Intrinsics.byte32 x 1, Intrinsics.byte32 x 2, Intrinsics.byte32 x 3] = x := by
  simp only [Intrinsics.ofBytes32, List.foldr, Intrinsics.byte32]; bits32
theorem word_join (x : UInt32) : ((x >>> UInt32.ofNat (16 * (0 % 2))) &&& (0xFFFF : UInt32)) ||| (((x >>> UInt32.ofNat (16 * (1 % 2))) &&& (0xFFFF : UInt32)) <<< 16) = x := by
  bits32'

/-- a generated `__m128i` as the model's two 64-bit lanes -/
def to2 (v : M128i) : V2x64 := ⟨join64 v.d0 v.d1, join64 v.d2 v.d3⟩

theorem to2_ofQwords (a b : UInt64) : to2 (M128i.ofQwords a b) = ⟨a, b⟩ := by
  simp only [to2, M128i.ofQwords, join_split]
theorem to2_add (a b : M128i) : to2 (_mm_add_epi64 a b) = (to2 a).add (to2 b) := by
  simp only [_mm_add_epi64, M128i.zipWith64, to2_ofQwords]; rfl
theorem to2_xor (a b : M128i) : to2 (_mm_xor_si128 a b) = (to2 a).xor (to2 b) := by
  simp only [_mm_xor_si128, M128i.zipWith, to2, join_xor]; rfl
theorem to2_unpacklo (a b : M128i) : to2 (_mm_unpacklo_epi64 a b) = V2x64.unpacklo_epi64 (to2 a) (to2 b) := rfl
theorem to2_unpackhi (a b : M128i) : to2 (_mm_unpackhi_epi64 a b) = V2x64.unpackhi_epi64 (to2 a) (to2 b) := rfl
theorem alignr8 (a b : M128i) : _mm_alignr_epi8 a b 8 = ⟨b.d2, b.d3, a.d0, a.d1⟩ := by
  obtain ⟨a0, a1, a2, a3⟩ := a; obtain ⟨b0, b1, b2, b3⟩ := b
  show (⟨Intrinsics.ofBytes32 [Intrinsics.byte32 b2 0, Intrinsics.byte32 b2 1, Intrinsics.byte32 b2 2, Intrinsics.byte32 b2 3], _, _, _⟩ : M128i) = _
  simp only [ofBytes32_bytes32]
  show (⟨b2, Intrinsics.ofBytes32 [Intrinsics.byte32 b3 0, Intrinsics.byte32 b3 1, Intrinsics.byte32 b3 2, Intrinsics.byte32 b3 3], _, _⟩ : M128i) = _
  simp only [ofBytes32_bytes32]
  show (⟨b2, b3, Intrinsics.ofBytes32 [Intrinsics.byte32 a0 0, Intrinsics.byte32 a0 1, Intrinsics.byte32 a0 2, Intrinsics.byte32 a0 3],
    Intrinsics.ofBytes32 [Intrinsics.byte32 a1 0, Intrinsics.byte32 a1 1, Intrinsics.byte32 a1 2, Intrinsics.byte32 a1 3]⟩ : M128i) = _
  simp only [ofBytes32_bytes32]
theorem to2_alignr8 (a b : M128i) : to2 (_mm_alignr_epi8 a b 8) = V2x64.alignr_epi8 (to2 a) (to2 b) 8 := by
  rw [alignr8]; rfl

theorem to2_srli (a : M128i) (n : Nat) : to2 (_mm_srli_epi64 a n) = (to2 a).srli n := by
  simp only [_mm_srli_epi64, M128i.map64, to2_ofQwords, V2x64.srli]
  by_cases h : n > 63
  · rw [if_pos h, if_pos h, if_pos (show n ≥ 64 by omega)]
  · rw [if_neg h, if_neg h, if_neg (show ¬ n ≥ 64 by omega)]; rfl
theorem to2_slli (a : M128i) (n : Nat) : to2 (_mm_slli_epi64 a n) = (to2 a).slli n := by
  simp only [_mm_slli_epi64, M128i.map64, to2_ofQwords, V2x64.slli]
  by_cases h : n > 63
  · rw [if_pos h, if_pos h, if_pos (show n ≥ 64 by omega)]
  · rw [if_neg h, if_neg h, if_neg (show ¬ n ≥ 64 by omega)]; rfl

theorem blendF0 (a b : M128i) : _mm_blend_epi16 a b 240 = ⟨a.d0, a.d1, b.d2, b.d3⟩ := by
  obtain ⟨a0, a1, a2, a3⟩ := a; obtain ⟨b0, b1, b2, b3⟩ := b
  show (⟨_, _, _, _⟩ : M128i) = _
  congr 1 <;> exact word_join _
theorem to2_blendF0 (a b : M128i) : to2 (_mm_blend_epi16 a b 240) = V2x64.blend_epi16 (to2 a) (to2 b) 240 := by
  rw [blendF0]; rfl
theorem to2_shuffle78 (a : M128i) : to2 (_mm_shuffle_epi32 a 78) = V2x64.shuffle_epi32 (to2 a) 78 := rfl

/-! ### the rotations of `compress_b_avx` -/

theorem rot16_join (a b : UInt32) :
    join64 (Intrinsics.ofBytes32 [Intrinsics.byte32 a 2, Intrinsics.byte32 a 3, Intrinsics.byte32 b 0, Intrinsics.byte32 b 1])
      (Intrinsics.ofBytes32 [Intrinsics.byte32 b 2, Intrinsics.byte32 b 3, Intrinsics.byte32 a 0, Intrinsics.byte32 a 1])
      = rotr64 (join64 a b) 16 := by
  simp only [join64, Intrinsics.ofBytes32, List.foldr, Intrinsics.byte32, rotr64, rotl64]; bits64'
theorem rot24_join (a b : UInt32) :
    join64 (Intrinsics.ofBytes32 [Intrinsics.byte32 a 3, Intrinsics.byte32 b 0, Intrinsics.byte32 b 1, Intrinsics.byte32 b 2])
      (Intrinsics.ofBytes32 [Intrinsics.byte32 b 3, Intrinsics.byte32 a 0, Intrinsics.byte32 a 1, Intrinsics.byte32 a 2])
      = rotr64 (join64 a b) 24 := by
  simp only [join64, Intrinsics.ofBytes32, List.foldr, Intrinsics.byte32, rotr64, rotl64]; bits64'
theorem rot32_join (a b : UInt32) : join64 b a = rotr64 (join64 a b) 32 := by
  simp only [join64, rotr64, rotl64]; bits64'

open Blake2Avx in
theorem rotate16_dwords (d0 d1 d2 d3 : UInt32) : rotate16_epi64_src ⟨d0, d1, d2, d3⟩ =
    ⟨Intrinsics.ofBytes32 [Intrinsics.byte32 d0 2, Intrinsics.byte32 d0 3, Intrinsics.byte32 d1 0, Intrinsics.byte32 d1 1],
     Intrinsics.ofBytes32 [Intrinsics.byte32 d1 2, Intrinsics.byte32 d1 3, Intrinsics.byte32 d0 0, Intrinsics.byte32 d0 1],
     Intrinsics.ofBytes32 [Intrinsics.byte32 d2 2, Intrinsics.byte32 d2 3, Intrinsics.byte32 d3 0, Intrinsics.byte32 d3 1],
     Intrinsics.ofBytes32 [Intrinsics.byte32 d3 2, Intrinsics.byte32 d3 3, Intrinsics.byte32 d2 0, Intrinsics.byte32 d2 1]⟩ := by
  kernel_rfl
open Blake2Avx in
theorem rotate24_dwords (d0 d1 d2 d3 : UInt32) : rotate24_epi64_src ⟨d0, d1, d2, d3⟩ =
    ⟨Intrinsics.ofBytes32 [Intrinsics.byte32 d0 3, Intrinsics.byte32 d1 0, Intrinsics.byte32 d1 1, Intrinsics.byte32 d1 2],
     Intrinsics.ofBytes32 [Intrinsics.byte32 d1 3, Intrinsics.byte32 d0 0, Intrinsics.byte32 d0 1, Intrinsics.byte32 d0 2],
     Intrinsics.ofBytes32 [Intrinsics.byte32 d2 3, Intrinsics.byte32 d3 0, Intrinsics.byte32 d3 1, Intrinsics.byte32 d3 2],
     Intrinsics.ofBytes32 [Intrinsics.byte32 d3 3, Intrinsics.byte32 d2 0, Intrinsics.byte32 d2 1, Intrinsics.byte32 d2 2]⟩ := by
  kernel_rfl
open Blake2Avx in
theorem rotate32_dwords (d0 d1 d2 d3 : UInt32) : rotate32_epi64_src ⟨d0, d1, d2, d3⟩ = ⟨d1, d0, d3, d2⟩ := by
  kernel_rfl

open Blake2Avx in
theorem to2_rotate16 (r : M128i) : to2 (rotate16_epi64_src r) = AvxB.rotate16_epi64 (to2 r) := by
  rw [avxb_rotate16]
  obtain ⟨d0, d1, d2, d3⟩ := r
  rw [rotate16_dwords]
  simp only [to2, rot16_join]
open Blake2Avx in
theorem to2_rotate24 (r : M128i) : to2 (rotate24_epi64_src r) = AvxB.rotate24_epi64 (to2 r) := by
  rw [avxb_rotate24]
  obtain ⟨d0, d1, d2, d3⟩ := r
  rw [rotate24_dwords]
  simp only [to2, rot24_join]
open Blake2Avx in
theorem to2_rotate32 (r : M128i) : to2 (rotate32_epi64_src r) = AvxB.rotate32_epi64 (to2 r) := by
  rw [avxb_rotate32]
  obtain ⟨d0, d1, d2, d3⟩ := r
  rw [rotate32_dwords]
  show (⟨join64 d1 d0, join64 d3 d2⟩ : V2x64) = ⟨rotr64 (join64 d0 d1) 32, rotr64 (join64 d2 d3) 32⟩
  rw [rot32_join d0 d1, rot32_join d2 d3]
open Blake2Avx in
theorem to2_rotate63 (r : M128i) : to2 (rotate63_epi64_src r) = avxbRot63 (to2 r) := by
  rw [avxbRot63_eq]
  unfold rotate63_epi64_src
  rw [to2_xor, to2_srli, to2_slli]
  show (⟨((to2 r).l0 >>> 63) ^^^ ((to2 r).l0 <<< 1), ((to2 r).l1 >>> 63) ^^^ ((to2 r).l1 <<< 1)⟩ : V2x64) = _
  rw [shr_xor_shl_63, shr_xor_shl_63]

end Cx.Proofs.GlueSimdBlake2
