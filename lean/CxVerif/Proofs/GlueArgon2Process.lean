/-
  Proofs.GlueArgon2Process — helper lemmas for the translator tie of src/kdf/argon2.rs (Props/C11/GlueTieArgon2.lean):
  `process` (first two blocks of every lane, the three nested fill loops, the final xor), `argon2_at`, `argon2` of
  Extracted/GlueArgon2.lean against Impl/Argon2.lean.  Core Lean only.
-/
import CxVerif.Proofs.GlueArgon2Hash
import CxVerif.Proofs.GlueArgon2Segment
namespace Cx.Proofs.GlueArgon2
open Cx Cx.Impl.Argon2 Cx.Extracted.GlueArgon2
open Cx.Spec.Argon2 (Block)

/-! ### the byte view of a block -/

theorem natToLE_length : ∀ (n v : Nat), (natToLE n v).length = n := by
  intro n
  induction n with
  | zero => intro v; rfl
  | succ n ih => intro v; simp [natToLE, ih]

theorem flatMap_u64le_length : ∀ (l : List UInt64), (l.flatMap u64le).length = 8 * l.length := by
  intro l
  induction l with
  | nil => rfl
  | cons a l ih => simp only [List.flatMap_cons, List.length_append, ih, u64le, natToLE_length, List.length_cons]; omega

theorem as_u8_length (b : Block) : (Block.as_u8 b).length = 1024 := by
  simp only [Block.as_u8, flatMap_u64le_length, Vector.length_toList]

/-! ### `process`: the first two blocks of every lane -/

theorem process_loop1_eq (h0 : Bytes) : ∀ (lanes : List Nat) (memory : Memory),
    process_loop1_src h0 lanes memory = process_init h0 lanes memory := by
  intro lanes
  induction lanes with
  | nil => intro memory; rfl
  | cons lane rest ih =>
    intro memory
    simp only [process_loop1_src, process_init, mut_block_at_set_src_eq]
    have half : ∀ (memory : Memory) (col : Nat) (k : Memory → Option Memory),
        (match Memory.mut_block_at_get_src memory lane col with
          | none => none
          | some t1 =>
            match hprime_block_init_src (Block.as_u8 t1) h0 col lane with
            | none => none
            | some t2 =>
              match memory.set_block_at lane col (Block.of_u8 t2) with
              | none => none
              | some memory => k memory)
        = (match hprime_block_init h0 col lane with
          | none => none
          | some b0 =>
            match memory.set_block_at lane col (Block.of_u8 b0) with
            | none => none
            | some memory => k memory) := by
      intro memory col k
      cases hg : Memory.mut_block_at_get_src memory lane col with
      | none =>
        dsimp only
        cases hprime_block_init h0 col lane with
        | none => rfl
        | some b0 =>
          dsimp only
          have := mut_block_at_get_isSome memory lane col (Block.of_u8 b0)
          rw [hg] at this
          cases hs : memory.set_block_at lane col (Block.of_u8 b0) with
          | none => rfl
          | some m => rw [hs] at this; cases this
      | some t1 =>
        dsimp only
        rw [hprime_block_init_src_eq _ _ _ _ (as_u8_length t1)]
    refine (half memory 0 _).trans ?_
    cases hprime_block_init h0 0 lane with
    | none => rfl
    | some b0 =>
      dsimp only
      cases memory.set_block_at lane 0 (Block.of_u8 b0) with
      | none => rfl
      | some memory1 =>
        dsimp only
        refine (half memory1 1 _).trans ?_
        cases hprime_block_init h0 1 lane with
        | none => rfl
        | some b1 =>
          dsimp only
          cases memory1.set_block_at lane 1 (Block.of_u8 b1) with
          | none => rfl
          | some memory2 => exact ih memory2

/-! ### `process`: the three nested fill loops = `process_fill` over `process_positions` -/

theorem process_fill_append (params : Params) : ∀ (a b : List BlockPos) (memory : Memory),
    process_fill params (a ++ b) memory = (process_fill params a memory).bind (process_fill params b) := by
  intro a
  induction a with
  | nil => intro b memory; rfl
  | cons p rest ih =>
    intro b memory
    simp only [List.cons_append, process_fill]
    cases fill_segment params p memory with
    | none => rfl
    | some m => exact ih b m

theorem process_loop4_eq (params : Params) (pass slice : Nat) : ∀ (lanes : List Nat) (memory : Memory),
    process_loop4_src params pass slice lanes memory
      = process_fill params (lanes.map fun lane => { pass := pass, lane := lane, slice := slice, index := 0 }) memory := by
  intro lanes
  induction lanes with
  | nil => intro memory; rfl
  | cons lane rest ih =>
    intro memory
    simp only [process_loop4_src, List.map_cons, process_fill, fill_segment_src_eq]
    cases fill_segment params { pass := pass, lane := lane, slice := slice, index := 0 } memory with
    | none => rfl
    | some m => exact ih m

theorem process_loop3_eq (params : Params) (pass : Nat) : ∀ (slices : List Nat) (memory : Memory),
    process_loop3_src params pass slices memory
      = process_fill params (slices.flatMap fun slice =>
          (List.range params.parallelism).map fun lane => { pass := pass, lane := lane, slice := slice, index := 0 }) memory := by
  intro slices
  induction slices with
  | nil => intro memory; rfl
  | cons slice rest ih =>
    intro memory
    simp only [process_loop3_src, List.flatMap_cons, process_fill_append, process_loop4_eq]
    cases process_fill params ((List.range params.parallelism).map fun lane =>
        ({ pass := pass, lane := lane, slice := slice, index := 0 } : BlockPos)) memory with
    | none => rfl
    | some m => exact ih m

theorem process_loop2_eq (params : Params) : ∀ (passes : List Nat) (memory : Memory),
    process_loop2_src params passes memory
      = process_fill params (passes.flatMap fun pass => (List.range 4).flatMap fun slice =>
          (List.range params.parallelism).map fun lane => { pass := pass, lane := lane, slice := slice, index := 0 }) memory := by
  intro passes
  induction passes with
  | nil => intro memory; rfl
  | cons pass rest ih =>
    intro memory
    simp only [process_loop2_src, List.flatMap_cons, process_fill_append, process_loop3_eq]
    cases process_fill params ((List.range 4).flatMap fun slice => (List.range params.parallelism).map fun lane =>
        ({ pass := pass, lane := lane, slice := slice, index := 0 } : BlockPos)) memory with
    | none => rfl
    | some m => exact ih m

/-! ### `process`: the final xor -/

theorem process_loop5_eq (memory : Memory) : ∀ (ls : List Nat) (blockhash : Block),
    process_loop5_src memory ls blockhash = process_final memory ls blockhash := by
  intro ls
  induction ls with
  | nil => intro blockhash; rfl
  | cons l rest ih =>
    intro blockhash
    simp only [process_loop5_src, process_final, Memory.stride_src, Memory.stride, Memory.block_index_src, Memory.block_index,
      Option.bind_eq_bind]
    cases mul32 l memory.lane_length with
    | none => rfl
    | some a =>
      simp only [Option.bind_some]
      cases subU memory.lane_length 1 with
      | none => rfl
      | some b =>
        simp only [Option.bind_some]
        cases add32 a b with
        | none => rfl
        | some i =>
          dsimp only
          cases memory.blocks[i]? with
          | none => rfl
          | some blk => exact ih _

/-! ### `process`, `argon2_at`, `argon2` -/

theorem process_src_eq (params : Params) (h0 : Bytes) (memory : Memory) (out : Bytes) :
    (process_src params h0 memory out).map (·.2) = process params h0 memory out.length := by
  simp only [process_src, process, process_loop1_eq, process_loop2_eq, process_loop5_eq, process_positions, SYNC_POINTS,
    Memory.stride_src, Memory.stride, Memory.block_index_src, hprime_src_eq]
  cases process_init h0 (List.range params.parallelism) memory with
  | none => rfl
  | some m1 =>
    dsimp only
    cases process_fill params ((List.range params.iterations).flatMap fun pass => (List.range 4).flatMap fun slice =>
        (List.range params.parallelism).map fun lane => ({ pass := pass, lane := lane, slice := slice, index := 0 } : BlockPos)) m1 with
    | none => rfl
    | some m2 =>
      dsimp only
      cases subU m2.lane_length 1 with
      | none => rfl
      | some i =>
        simp only [Option.bind_some, Memory.block_index]
        cases m2.blocks[i]? with
        | none => rfl
        | some bh =>
          dsimp only
          cases process_final m2 (List.range' 1 (params.parallelism - 1)) bh with
          | none => rfl
          | some bh' =>
            dsimp only
            cases hprime out.length (Block.as_u8 bh') <;> rfl

theorem argon2_at_src_eq (params : Params) (password salt key aad tag : Bytes) :
    argon2_at_src params password salt key aad tag = argon2_at params password salt key aad tag.length := by
  unfold argon2_at_src argon2_at
  rw [H0_new_src_eq, memory_new_src_eq]
  cases H0.new params password salt key aad (tag.length % 2 ^ 32) with
  | none => rfl
  | some h0 =>
    dsimp only
    cases Memory.new params with
    | none => rfl
    | some memory =>
      dsimp only
      rw [← process_src_eq]
      cases process_src params h0 memory tag with
      | none => rfl
      | some r => obtain ⟨m, t⟩ := r; rfl

theorem argon2_src_eq (T : Nat) (params : Params) (password salt key aad : Bytes) :
    argon2_src T params password salt key aad = argon2 T params password salt key aad := by
  have hz : (zeros T).length = T := length_zeros T
  unfold argon2_src argon2
  rw [H0_new_src_eq, memory_new_src_eq]
  cases H0.new params password salt key aad (T % 2 ^ 32) with
  | none => rfl
  | some h0 =>
    dsimp only
    cases Memory.new params with
    | none => rfl
    | some memory =>
      dsimp only
      have := process_src_eq params h0 memory (zeros T)
      rw [hz] at this
      rw [← this]
      cases process_src params h0 memory (zeros T) with
      | none => rfl
      | some r => obtain ⟨m, t⟩ := r; rfl

end Cx.Proofs.GlueArgon2
