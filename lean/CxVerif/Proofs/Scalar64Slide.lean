/-
  Proofs.Scalar64Slide — the contract of `Scalar::slide` (scalar/mod.rs, ref10's sliding-window recoding):
  for a < 2^255 no `i8` overflow occurs, Σ r_i·2^i = a, every non-zero digit is odd and |r_i| ≤ 15.
  Loop invariants (outer index i, inner offset b):
    digits below i are final; digits above i are bits; T r 0 = a (value); the part of the value at and above i
    is ≤ 2^255 (this is what keeps the carry loop from running off the end of the array).
-/
import CxVerif.Proofs.Scalar64Digits
import Mathlib.Tactic.Ring
import Mathlib.Tactic.Linarith
namespace Cx.Proofs.Scalar64.Slide
set_option linter.unusedVariables false
open Cx Cx.Impl.Scalar64

/-- `ev l p = Σ_j l[j]·2^(p+j)` -/
def ev : List Int → Nat → Int
  | [], _ => 0
  | d :: ds, p => d * 2 ^ p + ev ds (p + 1)

theorem ev_eq : ∀ (l : List Int) (p : Nat), ev l p = 2 ^ p * Spec.ScalarL.evalDigits 2 l := by
  intro l; induction l with
  | nil => intro p; simp [ev, Spec.ScalarL.evalDigits]
  | cons d ds ih =>
    intro p
    simp only [ev, Spec.ScalarL.evalDigits, ih, pow_succ]
    push_cast; ring

theorem ev_set : ∀ (l : List Int) (p j : Nat) (v : Int) (h : j < l.length),
    ev (l.set j v) p = ev l p + (v - l[j]) * 2 ^ (p + j) := by
  intro l; induction l with
  | nil => intro p j v h; simp at h
  | cons d ds ih =>
    intro p j v h
    cases j with
    | zero => simp only [List.set_cons_zero, ev, List.getElem_cons_zero, Nat.add_zero]; ring
    | succ j =>
      simp only [List.set_cons_succ, ev, List.getElem_cons_succ]
      rw [ih (p + 1) j v (by simpa using h)]
      have : p + 1 + j = p + (j + 1) := by omega
      rw [this]; ring

/-- the part of the value at and above position k: `Σ_{j ≥ k} r[j]·2^j` -/
def T (r : Vector Int 256) (k : Nat) : Int := ev (r.toList.drop k) k

theorem T_ge (r : Vector Int 256) (k : Nat) (h : 256 ≤ k) : T r k = 0 := by
  unfold T; rw [List.drop_eq_nil_of_le (by simpa using h)]; rfl

theorem T_step (r : Vector Int 256) (k : Nat) (h : k < 256) : T r k = r[k] * 2 ^ k + T r (k + 1) := by
  unfold T
  rw [List.drop_eq_getElem_cons (by simpa using h)]
  simp only [ev, Vector.getElem_toList]

theorem T_dvd (r : Vector Int 256) (k : Nat) : ∃ c, T r k = 2 ^ k * c := ⟨_, ev_eq _ _⟩

theorem T_set_lt (r : Vector Int 256) (j k : Nat) (v : Int) (hj : j < 256) (h : j < k) :
    T (r.set j v hj) k = T r k := by
  unfold T; rw [Vector.toList_set, List.drop_set_of_lt h]

theorem T_set_ge (r : Vector Int 256) (j k : Nat) (v : Int) (hj : j < 256) (h : k ≤ j) :
    T (r.set j v hj) k = T r k + (v - r[j]) * 2 ^ j := by
  unfold T
  rw [Vector.toList_set, List.drop_set, if_neg (by omega), ev_set _ _ _ _ (by simp; omega)]
  have : k + (j - k) = j := by omega
  rw [this]
  simp only [List.getElem_drop, Vector.getElem_toList, this]

def Bits (r : Vector Int 256) (k : Nat) : Prop := ∀ j (h : j < 256), k ≤ j → r[j] = 0 ∨ r[j] = 1
/-- a final digit: zero, or odd with absolute value at most 15 -/
def Dig (d : Int) : Prop := d = 0 ∨ (d % 2 = 1 ∧ -15 ≤ d ∧ d ≤ 15)
def Done (r : Vector Int 256) (i : Nat) : Prop := ∀ j (h : j < 256), j < i → Dig r[j]

theorem T_zero_run (r : Vector Int 256) (i : Nat) : ∀ b, i + b ≤ 256 →
    (∀ j (h : j < 256), i ≤ j → j < i + b → r[j] = 0) → T r i = T r (i + b) := by
  intro b; induction b with
  | zero => intro _ _; rfl
  | succ b ih =>
    intro hb hz
    rw [ih (by omega) (fun j h h1 h2 => hz j h h1 (by omega)), T_step r (i + b) (by omega),
      hz (i + b) (by omega) (by omega) (by omega)]
    simp; rfl

theorem slideCarry_zero (fuel k : Nat) (r : Vector Int 256) (hk : k < 256) (h : r[k] = 0) :
    slideCarry (fuel + 1) k r = r.set k 1 hk := by
  simp [slideCarry, hk, h]

theorem slideCarry_one (fuel k : Nat) (r : Vector Int 256) (hk : k < 256) (h : r[k] ≠ 0) :
    slideCarry (fuel + 1) k r = slideCarry fuel (k + 1) (r.set k 0 hk) := by
  simp [slideCarry, hk, h]

/-- the carry loop adds 2^k to the part of the value above k, as long as the result stays ≤ 2^255 -/
theorem carry_spec : ∀ (fuel k : Nat) (r : Vector Int 256), fuel = 256 - k → k ≤ 256 → Bits r k →
    T r k + 2 ^ k ≤ 2 ^ 255 →
    Bits (slideCarry fuel k r) k ∧ (∀ m, m ≤ k → T (slideCarry fuel k r) m = T r m + 2 ^ k) ∧
    (∀ j (h : j < 256), j < k → (slideCarry fuel k r)[j] = r[j]) ∧
    (∀ (h : k < 256), r[k] = 1 → (slideCarry fuel k r)[k] = 0) := by
  intro fuel; induction fuel with
  | zero =>
    intro k r hf hk _ hT
    have : k = 256 := by omega
    subst this
    rw [T_ge r 256 (by omega)] at hT
    exfalso; norm_num at hT
  | succ fuel ih =>
    intro k r hf hk hB hT
    have hk' : k < 256 := by omega
    by_cases h0 : r[k] = 0
    · rw [slideCarry_zero fuel k r hk' h0]
      refine ⟨?_, ?_, ?_, ?_⟩
      · intro j hj hkj
        rw [Vector.getElem_set]
        split
        · right; rfl
        · exact hB j hj hkj
      · intro m hm
        rw [T_set_ge r k m 1 hk' hm, h0]; ring
      · intro j hj hjk
        rw [Vector.getElem_set_ne]; omega
      · intro _ h1; rw [h1] at h0; norm_num at h0
    · rw [slideCarry_one fuel k r hk' h0]
      have h1 : r[k] = 1 := by rcases hB k hk' (Nat.le_refl k) with h | h; exact absurd h h0; exact h
      have hB1 : Bits (r.set k 0 hk') (k + 1) := by
        intro j hj hkj
        rw [Vector.getElem_set_ne hk' hj (by omega)]
        exact hB j hj (by omega)
      have hT1 : T (r.set k 0 hk') (k + 1) + 2 ^ (k + 1) ≤ 2 ^ 255 := by
        rw [T_set_lt r k (k + 1) 0 hk' (by omega)]
        have := T_step r k hk'
        rw [h1] at this
        rw [pow_succ]; linarith
      obtain ⟨a1, a2, a3, a4⟩ := ih (k + 1) (r.set k 0 hk') (by omega) (by omega) hB1 hT1
      have hk0 : (slideCarry fuel (k + 1) (r.set k 0 hk'))[k] = 0 := by
        rw [a3 k hk' (by omega), Vector.getElem_set_self]
      refine ⟨?_, ?_, ?_, ?_⟩
      · intro j hj hkj
        by_cases e : j = k
        · subst e; left; exact hk0
        · exact a1 j hj (by omega)
      · intro m hm
        rw [a2 m (by omega), T_set_ge r k m 0 hk' hm, h1, pow_succ]; ring
      · intro j hj hjk
        rw [a3 j hj (by omega), Vector.getElem_set_ne hk' hj (by omega)]
      · intro _ _; exact hk0

theorem shlI8_one (b : Nat) (h1 : 1 ≤ b) (h6 : b ≤ 6) :
    shlI8 1 b = 2 ^ b ∧ (2 : Int) ^ b % 2 = 0 ∧ (2 : Int) ≤ 2 ^ b ∧ (2 : Int) ^ b ≤ 64 := by
  match b, h1, h6 with
  | 1, _, _ => decide
  | 2, _, _ => decide
  | 3, _, _ => decide
  | 4, _, _ => decide
  | 5, _, _ => decide
  | 6, _, _ => decide

theorem ckI8_some (v : Int) (h1 : -128 ≤ v) (h2 : v ≤ 127) : ckI8 v = some v := by
  simp [ckI8, h1, h2]

variable (i bound : Nat)

theorem inner_stop (fuel b : Nat) (r : Vector Int 256) (h : ¬ (b < bound ∧ i + b < 256)) :
    slideInner i bound (fuel + 1) b r = some r := by
  simp only [slideInner, dif_neg h]

theorem inner_skip (fuel b : Nat) (r : Vector Int 256) (h : b < bound ∧ i + b < 256) (h0 : r[i + b]'h.2 = 0) :
    slideInner i bound (fuel + 1) b r = slideInner i bound fuel (b + 1) r := by
  simp [slideInner, h, h0]

theorem inner_add (fuel b : Nat) (r : Vector Int 256) (h : b < bound ∧ i + b < 256) (h1 : r[i + b]'h.2 = 1)
    (hb1 : 1 ≤ b) (hb6 : b ≤ 6) (hlo : -15 ≤ r[i]'(by omega)) (hhi : r[i]'(by omega) ≤ 15)
    (hs : r[i]'(by omega) + 2 ^ b ≤ 15) :
    slideInner i bound (fuel + 1) b r =
      slideInner i bound fuel (b + 1) ((r.set i (r[i]'(by omega) + 2 ^ b) (by omega)).set (i + b) 0 h.2) := by
  obtain ⟨e1, _, e3, e4⟩ := shlI8_one b hb1 hb6
  simp only [slideInner, dif_pos h, h1, e1]
  rw [ckI8_some _ (by omega) (by omega)]
  simp [hs]

theorem inner_sub (fuel b : Nat) (r : Vector Int 256) (h : b < bound ∧ i + b < 256) (h1 : r[i + b]'h.2 = 1)
    (hb1 : 1 ≤ b) (hb6 : b ≤ 6) (hlo : -15 ≤ r[i]'(by omega)) (hhi : r[i]'(by omega) ≤ 15)
    (hs : ¬ r[i]'(by omega) + 2 ^ b ≤ 15) (hd : r[i]'(by omega) - 2 ^ b ≥ -15) :
    slideInner i bound (fuel + 1) b r =
      slideInner i bound fuel (b + 1)
        (slideCarry (256 - (i + b)) (i + b) (r.set i (r[i]'(by omega) - 2 ^ b) (by omega))) := by
  obtain ⟨e1, _, e3, e4⟩ := shlI8_one b hb1 hb6
  simp only [slideInner, dif_pos h, h1, e1]
  rw [ckI8_some _ (by omega) (by omega)]
  simp only [bne_iff_ne, ne_eq, one_ne_zero, not_false_eq_true, ↓reduceIte, hs]
  rw [ckI8_some _ (by omega) (by omega)]
  simp [hd]

theorem inner_break (fuel b : Nat) (r : Vector Int 256) (h : b < bound ∧ i + b < 256) (h1 : r[i + b]'h.2 = 1)
    (hb1 : 1 ≤ b) (hb6 : b ≤ 6) (hlo : -15 ≤ r[i]'(by omega)) (hhi : r[i]'(by omega) ≤ 15)
    (hs : ¬ r[i]'(by omega) + 2 ^ b ≤ 15) (hd : ¬ r[i]'(by omega) - 2 ^ b ≥ -15) :
    slideInner i bound (fuel + 1) b r = some r := by
  obtain ⟨e1, _, e3, e4⟩ := shlI8_one b hb1 hb6
  simp only [slideInner, dif_pos h, h1, e1]
  rw [ckI8_some _ (by omega) (by omega)]
  simp only [bne_iff_ne, ne_eq, one_ne_zero, not_false_eq_true, ↓reduceIte, hs]
  rw [ckI8_some _ (by omega) (by omega)]
  simp [hd]

structure IInv (a : Int) (i b : Nat) (hi : i < 256) (r : Vector Int 256) : Prop where
  done : Done r i
  odd : r[i] % 2 = 1
  lo : -15 ≤ r[i]
  up : r[i] ≤ 15
  bits : Bits r (i + 1)
  zeros : ∀ j (h : j < 256), i < j → j < i + b → r[j] = 0
  val : T r 0 = a
  top : T r i ≤ 2 ^ 255
  top1 : T r (i + 1) ≤ 2 ^ 255

structure OInv (a : Int) (i : Nat) (r : Vector Int 256) : Prop where
  done : Done r i
  bits : Bits r i
  val : T r 0 = a
  top : T r i ≤ 2 ^ 255

theorem IInv.post {a : Int} {i b : Nat} {hi : i < 256} {r : Vector Int 256} (inv : IInv a i b hi r) :
    OInv a (i + 1) r where
  done := by
    intro j hj hji
    by_cases e : j = i
    · subst e; exact Or.inr ⟨inv.odd, inv.lo, inv.up⟩
    · exact inv.done j hj (by omega)
  bits := inv.bits
  val := inv.val
  top := inv.top1

theorem dvd_gap (x P c M : Int) (hP : 0 < P) (hx : x = P * c) (h : x < P * M) : x + P ≤ P * M := by
  have h1 : c < M := by
    by_contra hc
    have : P * M ≤ P * c := Int.mul_le_mul_of_nonneg_left (by omega) (by omega)
    omega
  have : P * (c + 1) ≤ P * M := Int.mul_le_mul_of_nonneg_left (by omega) (by omega)
  rw [hx]; linarith

theorem inner_spec (a : Int) (hi : i < 256) (hbound : bound ≤ 7) :
    ∀ (fuel b : Nat) (r : Vector Int 256), 1 ≤ b → IInv a i b hi r →
      ∃ r', slideInner i bound fuel b r = some r' ∧ OInv a (i + 1) r' := by
  intro fuel; induction fuel with
  | zero => intro b r _ inv; exact ⟨r, by simp [slideInner], inv.post⟩
  | succ fuel ih =>
    intro b r hb1 inv
    by_cases hb : b < bound ∧ i + b < 256
    swap
    · exact ⟨r, inner_stop i bound fuel b r hb, inv.post⟩
    have hb6 : b ≤ 6 := by omega
    have hib : i + b < 256 := hb.2
    obtain ⟨e1, qeven, q2, q64⟩ := shlI8_one b hb1 hb6
    have hpow : (2 : Int) ^ (i + b) = 2 ^ i * 2 ^ b := pow_add 2 i b
    have hPi : (0 : Int) < 2 ^ i := by positivity
    have hPb : (0 : Int) < 2 ^ b := by positivity
    have hodd := inv.odd; have hlo := inv.lo; have hup := inv.up
    rcases inv.bits (i + b) hib (by omega) with h0 | h1
    · -- r[i+b] = 0: skip
      rw [inner_skip i bound fuel b r hb h0]
      apply ih (b + 1) r (by omega)
      refine ⟨inv.done, inv.odd, inv.lo, inv.up, inv.bits, ?_, inv.val, inv.top, inv.top1⟩
      intro j hj h1 h2
      by_cases e : j = i + b
      · subst e; exact h0
      · exact inv.zeros j hj h1 (by omega)
    · by_cases hs : r[i] + 2 ^ b ≤ 15
      · -- add branch
        rw [inner_add i bound fuel b r hb h1 hb1 hb6 hlo hup hs]
        apply ih (b + 1) _ (by omega)
        have g : ∀ j (hj : j < 256), ((r.set i (r[i] + 2 ^ b) hi).set (i + b) 0 hib)[j] =
            if i + b = j then 0 else if i = j then r[i] + 2 ^ b else r[j] := by
          intro j hj; rw [Vector.getElem_set, Vector.getElem_set]
        have tv : ∀ m, m ≤ i → T ((r.set i (r[i] + 2 ^ b) hi).set (i + b) 0 hib) m = T r m := by
          intro m hm
          rw [T_set_ge _ (i + b) m 0 hib (by omega), T_set_ge r i m _ hi hm,
            Vector.getElem_set_ne hi hib (by omega), h1, hpow]
          ring
        refine ⟨?_, ?_, ?_, ?_, ?_, ?_, ?_, ?_, ?_⟩
        · intro j hj hji
          rw [g j hj, if_neg (by omega), if_neg (by omega)]; exact inv.done j hj hji
        · rw [g i hi, if_neg (by omega), if_pos rfl]; omega
        · rw [g i hi, if_neg (by omega), if_pos rfl]; omega
        · rw [g i hi, if_neg (by omega), if_pos rfl]; omega
        · intro j hj hij
          rw [g j hj]
          split
          · left; rfl
          · rw [if_neg (by omega)]; exact inv.bits j hj hij
        · intro j hj h1' h2
          rw [g j hj]
          split
          · rfl
          · rw [if_neg (by omega)]; exact inv.zeros j hj h1' (by omega)
        · rw [tv 0 (by omega)]; exact inv.val
        · rw [tv i (by omega)]; exact inv.top
        · rw [T_set_ge _ (i + b) (i + 1) 0 hib (by omega), T_set_lt r i (i + 1) _ hi (by omega),
            Vector.getElem_set_ne hi hib (by omega), h1]
          have := inv.top1
          have : (0 : Int) < 2 ^ (i + b) := by positivity
          linarith
      · by_cases hd : r[i] - 2 ^ b ≥ -15
        · -- sub branch with carry
          rw [inner_sub i bound fuel b r hb h1 hb1 hb6 hlo hup hs hd]
          apply ih (b + 1) _ (by omega)
          have hrpos : 1 ≤ r[i] := by omega
          -- the upper part is a multiple of 2^(i+b) strictly below 2^255
          have hrun : T r (i + 1) = T r (i + 1 + (b - 1)) :=
            T_zero_run r (i + 1) (b - 1) (by omega) (fun j hj h1' h2 => inv.zeros j hj (by omega) (by omega))
          have hib' : i + 1 + (b - 1) = i + b := by omega
          rw [hib'] at hrun
          have hstep := T_step r i hi
          have hlt : T r (i + b) < 2 ^ 255 := by
            have := inv.top
            have : r[i] * 2 ^ i ≥ 2 ^ i := by nlinarith
            rw [← hrun]; linarith
          obtain ⟨c, hc⟩ := T_dvd r (i + b)
          have h255 : (2 : Int) ^ 255 = 2 ^ (i + b) * 2 ^ (255 - (i + b)) := by
            rw [← pow_add]; congr 1; omega
          have hgap : T r (i + b) + 2 ^ (i + b) ≤ 2 ^ 255 := by
            rw [h255] at hlt ⊢
            exact dvd_gap _ _ c _ (by positivity) hc hlt
          have hB1 : Bits (r.set i (r[i] - 2 ^ b) hi) (i + b) := by
            intro j hj hjk
            rw [Vector.getElem_set_ne hi hj (by omega)]; exact inv.bits j hj (by omega)
          have hT1 : T (r.set i (r[i] - 2 ^ b) hi) (i + b) + 2 ^ (i + b) ≤ 2 ^ 255 := by
            rw [T_set_lt r i (i + b) _ hi (by omega)]; exact hgap
          obtain ⟨a1, a2, a3, a4⟩ := carry_spec (256 - (i + b)) (i + b) _ rfl (by omega) hB1 hT1
          have h1' : (r.set i (r[i] - 2 ^ b) hi)[i + b] = 1 := by
            rw [Vector.getElem_set_ne hi hib (by omega)]; exact h1
          have tv : ∀ m, m ≤ i → T (slideCarry (256 - (i + b)) (i + b) (r.set i (r[i] - 2 ^ b) hi)) m = T r m := by
            intro m hm
            rw [a2 m (by omega), T_set_ge r i m _ hi hm, hpow]; ring
          have gl : ∀ j (hj : j < 256), j < i + b →
              (slideCarry (256 - (i + b)) (i + b) (r.set i (r[i] - 2 ^ b) hi))[j] = if i = j then r[i] - 2 ^ b else r[j] := by
            intro j hj hjk; rw [a3 j hj hjk, Vector.getElem_set]
          refine ⟨?_, ?_, ?_, ?_, ?_, ?_, ?_, ?_, ?_⟩
          · intro j hj hji
            rw [gl j hj (by omega), if_neg (by omega)]; exact inv.done j hj hji
          · rw [gl i hi (by omega), if_pos rfl]; omega
          · rw [gl i hi (by omega), if_pos rfl]; omega
          · rw [gl i hi (by omega), if_pos rfl]; omega
          · intro j hj hij
            by_cases hjk : j < i + b
            · rw [gl j hj hjk, if_neg (by omega)]; left; exact inv.zeros j hj (by omega) hjk
            · exact a1 j hj (by omega)
          · intro j hj hij h2
            by_cases hjk : j < i + b
            · rw [gl j hj hjk, if_neg (by omega)]; exact inv.zeros j hj hij hjk
            · have : j = i + b := by omega
              subst this; exact a4 hib h1'
          · rw [tv 0 (by omega)]; exact inv.val
          · rw [tv i (by omega)]; exact inv.top
          · rw [a2 (i + 1) (by omega), T_set_lt r i (i + 1) _ hi (by omega), hrun]; exact hgap
        · -- break
          exact ⟨r, inner_break i bound fuel b r hb h1 hb1 hb6 hlo hup hs hd, inv.post⟩

theorem outer_skip (fuel i : Nat) (r : Vector Int 256) (hi : i < 256) (h : r[i] = 0) :
    slideOuter (fuel + 1) i r = slideOuter fuel (i + 1) r := by
  simp [slideOuter, hi, h]

theorem outer_go (fuel i : Nat) (r r' : Vector Int 256) (hi : i < 256) (h : r[i] ≠ 0)
    (hin : slideInner i (min 7 (256 - i)) 7 1 r = some r') :
    slideOuter (fuel + 1) i r = slideOuter fuel (i + 1) r' := by
  simp [slideOuter, hi, h, hin]

theorem outer_spec (a : Int) : ∀ (fuel i : Nat) (r : Vector Int 256), fuel = 256 - i → i ≤ 256 → OInv a i r →
    ∃ r', slideOuter fuel i r = some r' ∧ Done r' 256 ∧ T r' 0 = a := by
  intro fuel; induction fuel with
  | zero =>
    intro i r hf hi inv
    have : i = 256 := by omega
    subst this
    exact ⟨r, by simp [slideOuter], inv.done, inv.val⟩
  | succ fuel ih =>
    intro i r hf hi inv
    have hi' : i < 256 := by omega
    have hstep := T_step r i hi'
    have htop := inv.top
    by_cases h0 : r[i] = 0
    · rw [outer_skip fuel i r hi' h0]
      apply ih (i + 1) r (by omega) (by omega)
      refine ⟨?_, ?_, inv.val, ?_⟩
      · intro j hj hji
        by_cases e : j = i
        · subst e; left; exact h0
        · exact inv.done j hj (by omega)
      · intro j hj hij; exact inv.bits j hj (by omega)
      · rw [h0] at hstep; linarith
    · have h1 : r[i] = 1 := by
        rcases inv.bits i hi' (Nat.le_refl i) with h | h
        · exact absurd h h0
        · exact h
      have iinv : IInv a i 1 hi' r := by
        refine ⟨inv.done, by rw [h1]; decide, by rw [h1]; decide, by rw [h1]; decide, ?_, ?_, inv.val, htop, ?_⟩
        · intro j hj hij; exact inv.bits j hj (by omega)
        · intro j hj h1' h2; omega
        · rw [h1] at hstep
          have : (0 : Int) < 2 ^ i := by positivity
          linarith
      obtain ⟨r', hr', oinv⟩ := inner_spec i (min 7 (256 - i)) a hi' (by omega) 7 1 r (by omega) iinv
      rw [outer_go fuel i r r' hi' h0 hr']
      exact ih (i + 1) r' (by omega) (by omega) oinv

/-- **slide**: for every scalar inside the invariant with value below 2^255 the recoding does not overflow,
    denotes the value, and every digit is zero or odd with absolute value ≤ 15 -/
theorem slide_spec (s : Scalar) (h : Inv s) (ha : s.val < 2 ^ 255) :
    ∃ r, slide s = some r ∧ Spec.ScalarL.evalDigits 2 r.toList = (s.val : Int) ∧ ∀ d ∈ r.toList, Dig d := by
  have hv : T (bits s) 0 = (s.val : Int) := by
    unfold T
    rw [List.drop_zero, ev_eq, bits_eq_bitsLE s h]
    unfold Spec.ScalarL.bitsLE
    rw [evalDigits_digits, Nat.mod_eq_of_lt h.val_lt]; simp
  have oinv : OInv (s.val : Int) 0 (bits s) := by
    refine ⟨?_, ?_, hv, ?_⟩
    · intro j hj hj0; omega
    · intro j hj _
      rw [bits_get s h j hj]
      have : s.val / 2 ^ j % 2 < 2 := Nat.mod_lt _ (by decide)
      rcases Nat.lt_or_ge (s.val / 2 ^ j % 2) 1 with h1 | h1
      · left; have : s.val / 2 ^ j % 2 = 0 := by omega
        rw [this]; rfl
      · right; have : s.val / 2 ^ j % 2 = 1 := by omega
        rw [this]; rfl
    · rw [hv]; exact_mod_cast (Nat.le_of_lt ha)
  obtain ⟨r, hr, hdone, hval⟩ := outer_spec (s.val : Int) 256 0 (bits s) rfl (by omega) oinv
  refine ⟨r, hr, ?_, ?_⟩
  · unfold T at hval
    rw [List.drop_zero, ev_eq] at hval
    simpa using hval
  · intro d hd
    obtain ⟨j, hj, rfl⟩ := List.getElem_of_mem hd
    rw [Vector.getElem_toList]
    exact hdone j (by simpa using hj) (by simpa using hj)

/-- the executable contract of the Spec holds -/
theorem slide_isSlideOf (s : Scalar) (h : Inv s) (ha : s.val < 2 ^ 255) :
    ∃ r, slide s = some r ∧ Spec.ScalarL.isSlideOf s.val r.toList = true := by
  obtain ⟨r, hr, hv, hd⟩ := slide_spec s h ha
  refine ⟨r, hr, ?_⟩
  unfold Spec.ScalarL.isSlideOf
  simp only [Bool.and_eq_true, beq_iff_eq, List.all_eq_true, Bool.or_eq_true, bne_iff_ne, ne_eq,
    decide_eq_true_eq]
  refine ⟨⟨by simp, hv⟩, ?_⟩
  intro d hdm
  rcases hd d hdm with h0 | ⟨h1, h2, h3⟩
  · left; exact h0
  · right; exact ⟨⟨by omega, h2⟩, h3⟩
end Cx.Proofs.Scalar64.Slide
