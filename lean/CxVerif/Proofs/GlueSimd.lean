/-
  Proofs.GlueSimd — helper lemmas of the SIMD glue tie (Props/C16/GlueTieSimd*.lean): the generated definitions of
  Extracted/GlueSimd.lean (tools/ktx_glue_simd.py; intrinsics of Util/Intrinsics.lean) against the hand lane models.

    bytes          `ofBytes32` / `bytes32` / `ld32` of Util/Intrinsics.lean = the little-endian codecs of Util/Bytes.lean
    memory         a 16-byte store into `pre ++ rest` at offset `|pre|`, four stores in a row
    ChaCha         the abstraction `toM : M128i → Sse2.M128`, `toS : State → Sse2.State` (structure isomorphisms)
  Core Lean only.
-/
import CxVerif.Extracted.GlueSimd
import CxVerif.Impl.ChaCha
namespace Cx.Proofs.GlueSimd
open Cx Cx.Intrinsics Cx.Impl Cx.Impl.ChaCha

/-! ### bytes -/

theorem leNat_lt : ∀ (bs : Bytes), leNat bs < 256 ^ bs.length
  | [] => by simp [leNat]
  | b :: bs => by
    have := leNat_lt bs
    have hb := b.toNat_lt
    simp only [leNat, List.length_cons, Nat.pow_succ]
    omega

theorem or_shl8 (b : UInt8) (y : UInt32) (hy : y.toNat < 2 ^ 24) :
    (b.toUInt32 ||| (y <<< 8)).toNat = y.toNat * 256 + b.toNat := by
  have hb : b.toNat < 2 ^ 8 := b.toNat_lt
  simp only [UInt32.toNat_or, UInt32.toNat_shiftLeft, UInt8.toNat_toUInt32]
  have : y.toNat <<< (UInt32.toNat 8 % 32) % 2 ^ 32 = y.toNat <<< 8 := by
    have : UInt32.toNat 8 % 32 = 8 := by decide
    rw [this, Nat.shiftLeft_eq]
    apply Nat.mod_eq_of_lt
    omega
  rw [this, Nat.or_comm, ← Nat.shiftLeft_add_eq_or_of_lt hb, Nat.shiftLeft_eq]

theorem ofBytes32_toNat : ∀ (l : Bytes), l.length ≤ 4 → (ofBytes32 l).toNat = leNat l ∧ (l.length ≤ 3 → leNat l < 2 ^ 24)
  | [], _ => by simp [ofBytes32, leNat]
  | b :: l, h => by
    have hl : l.length ≤ 3 := by simpa using h
    obtain ⟨ih, ib⟩ := ofBytes32_toNat l (by omega)
    have hlt := leNat_lt l
    have hb := b.toNat_lt
    constructor
    · show (b.toUInt32 ||| (ofBytes32 l <<< 8)).toNat = _
      have : leNat l < 2 ^ 24 := ib hl
      rw [or_shl8 b _ (by rw [ih]; exact this), ih]
      simp only [leNat]; omega
    · intro h3
      have : l.length ≤ 2 := by simpa using h3
      have : 256 ^ l.length ≤ 256 ^ 2 := Nat.pow_le_pow_right (by decide) this
      simp only [leNat]; omega

theorem ld32_eq (mem : Bytes) (off : Nat) : ld32 mem off = Cx.Impl.read_u32_le mem off := by
  unfold ld32 Cx.Impl.read_u32_le leU32
  apply UInt32.toNat_inj.mp
  have hlen : ((mem.drop off).take 4).length ≤ 4 := by rw [List.length_take]; omega
  rw [(ofBytes32_toNat _ hlen).1, UInt32.toNat_ofNat']
  have : ((mem.drop off).take 4).take 4 = (mem.drop off).take 4 := by rw [List.take_take, Nat.min_self]
  rw [this]
  have := leNat_lt ((mem.drop off).take 4)
  have : 256 ^ ((mem.drop off).take 4).length ≤ 256 ^ 4 := Nat.pow_le_pow_right (by decide) hlen
  omega

theorem byte32_eq (x : UInt32) (k : Nat) (hk : k < 4) : byte32 x k = UInt8.ofNat (x.toNat / 256 ^ k % 256) := by
  apply UInt8.toNat_inj.mp
  simp only [byte32, UInt32.toNat_toUInt8, UInt32.toNat_shiftRight, UInt8.toNat_ofNat']
  have h8 : (UInt32.ofNat (8 * k)).toNat % 32 = 8 * k := by
    rw [UInt32.toNat_ofNat']; omega
  rw [h8, Nat.shiftRight_eq_div_pow]
  have : 2 ^ (8 * k) = 256 ^ k := by rw [Nat.pow_mul]
  rw [this]; omega

theorem bytes32_eq_u32le (x : UInt32) : bytes32 x = u32le x := by
  simp only [bytes32, u32le, natToLE, byte32_eq x 0 (by decide), byte32_eq x 1 (by decide), byte32_eq x 2 (by decide), byte32_eq x 3 (by decide)]
  simp [Nat.div_div_eq_div_mul]

theorem bytes_length (v : M128i) : v.bytes.length = 16 := rfl

/-! ### memory -/

/-- a 16-byte store at the end of `pre` -/
theorem storeu_append (pre rest : Bytes) (off : Nat) (v : M128i) (ho : pre.length = off) (h : 16 ≤ rest.length) :
    _mm_storeu_si128 (pre ++ rest) off v = .ok ((pre ++ v.bytes) ++ rest.drop 16) := by
  subst ho
  unfold _mm_storeu_si128
  rw [if_pos (by rw [List.length_append]; omega)]
  have h1 : (pre ++ rest).take pre.length = pre := List.take_left' rfl
  have h2 : (pre ++ rest).drop (pre.length + 16) = rest.drop 16 := by
    rw [List.drop_append]
    simp
  rw [h1, h2]

theorem storeu_fail (mem : Bytes) (off : Nat) (v : M128i) (h : ¬ off + 16 ≤ mem.length) :
    _mm_storeu_si128 mem off v = .error "UB" := by
  unfold _mm_storeu_si128; rw [if_neg h]

/-! ### ChaCha: the SSE2 row model of Impl/ChaCha.lean -/

/-- a generated `M128i` as the model's row -/
def toM (v : M128i) : Sse2.M128 := ⟨v.d0, v.d1, v.d2, v.d3⟩
def ofM (v : Sse2.M128) : M128i := ⟨v.l0, v.l1, v.l2, v.l3⟩
open Cx.Extracted.GlueSimd.ChaChaSse2 in
def toS (s : State) : Sse2.State := ⟨toM s.a, toM s.b, toM s.c, toM s.d⟩
open Cx.Extracted.GlueSimd.ChaChaSse2 in
def ofS (s : Sse2.State) : State := ⟨ofM s.a, ofM s.b, ofM s.c, ofM s.d⟩
def ofM3 (t : Sse2.M128 × Sse2.M128 × Sse2.M128) : M128i × M128i × M128i := (ofM t.1, ofM t.2.1, ofM t.2.2)

theorem toM_ofM (v : Sse2.M128) : toM (ofM v) = v := rfl
theorem ofM_toM (v : M128i) : ofM (toM v) = v := rfl
theorem toS_ofS (s : Sse2.State) : toS (ofS s) = s := rfl
open Cx.Extracted.GlueSimd.ChaChaSse2 in
theorem ofS_toS (s : State) : ofS (toS s) = s := rfl

/-- the unaligned load of the model (total, `read_u32_le`) is the intrinsic load wherever the latter is defined -/
theorem loadu_eq (mem : Bytes) (off : Nat) :
    _mm_loadu_si128 mem off = if off + 16 ≤ mem.length then .ok (ofM (Sse2._mm_loadu_si128 mem off)) else .error "UB" := by
  unfold _mm_loadu_si128 Sse2._mm_loadu_si128 ofM
  simp only [ld32_eq]

theorem bytes_eq_storeu (v : M128i) : v.bytes = Sse2._mm_storeu_si128 (toM v) := by
  simp [M128i.bytes, Sse2._mm_storeu_si128, toM, bytes32_eq_u32le]

end Cx.Proofs.GlueSimd
