/-
  Proofs.Sha2Tables — the constant tables of the SHA-2 code are the constants FIPS 180-4 defines.

  Two layers:
   (1) formula layer: `Spec.Sha2.firstPrimes` lists exactly the first 80 primes (primality = no divisor, by definition;
       complete check of every n < 410), and `Spec.Sha2.iroot` returns the exact floor root for every value the Spec
       takes a root of (`c^k ≤ x < (c+1)^k`, complete finite tables, kernel arithmetic on `Nat`).  Hence
       `K256`, `K512`, `H256`, `H224`, `H384`, `H512` ARE "the first 32/64 bits of the fractional parts of the
       cube/square roots of the first 64/80/8/9th–16th primes", and `H512_224`, `H512_256` are the output of the
       FIPS §5.3.6 IV generation function (they are defined by running it).
   (2) extraction layer: every table re-extracted from /repo/src on each run equals the Spec's (kernel-decided):
       a changed constant in the Rust source breaks one of these theorems.
  Core Lean only.  `decide +kernel` over complete finite tables.
-/
import CxVerif.Spec.Sha2
import CxVerif.Impl.Sha2
import CxVerif.Extracted.Sha2
namespace Cx.Proofs.Sha2Tables
open Cx Cx.Spec.Sha2

/-! ### (1) the formulas -/

/-- primality, by definition -/
def IsPrimeDef (n : Nat) : Prop := 2 ≤ n ∧ ∀ d, d < n → 2 ≤ d → n % d ≠ 0

instance (n : Nat) : Decidable (IsPrimeDef n) := by unfold IsPrimeDef; infer_instance

def strictlyIncreasing (l : List Nat) : Bool := (l.zip l.tail).all fun p => decide (p.1 < p.2)

/-- `firstPrimes 80` is strictly increasing, has 80 entries, and below 410 it contains exactly the primes:
    it is the list of the first 80 primes (the 80th is 409). -/
theorem firstPrimes80_spec :
    (firstPrimes 80).length = 80 ∧ strictlyIncreasing (firstPrimes 80) = true
    ∧ (∀ p ∈ firstPrimes 80, p < 410)
    ∧ ∀ n, n < 410 → (n ∈ firstPrimes 80 ↔ IsPrimeDef n) := by decide +kernel

theorem firstPrimes64_prefix : firstPrimes 64 = (firstPrimes 80).take 64 := by decide +kernel
theorem firstPrimes16_prefix : firstPrimes 16 = (firstPrimes 80).take 16 := by decide +kernel
theorem firstPrimes8_prefix : firstPrimes 8 = (firstPrimes 80).take 8 := by decide +kernel
/-- the 9th..16th primes -/
theorem primes9to16_eq : primes9to16 = ((firstPrimes 80).take 16).drop 8 := by decide +kernel

/-- `c = ⌊x^(1/k)⌋` -/
def IsFloorRoot (k x c : Nat) : Prop := c ^ k ≤ x ∧ x < (c + 1) ^ k

instance (k x c : Nat) : Decidable (IsFloorRoot k x c) := by unfold IsFloorRoot; infer_instance

/-- `fracRoot k bits p = ⌊p^(1/k)·2^bits⌋ mod 2^bits` uses the exact floor root: cube roots, 32 fractional bits
    (K^{256}) -/
theorem iroot_exact_cube32 : ∀ p ∈ firstPrimes 64, IsFloorRoot 3 (p * 2 ^ (3 * 32)) (iroot 3 (p * 2 ^ (3 * 32))) := by
  decide +kernel
/-- cube roots, 64 fractional bits (K^{512}) -/
theorem iroot_exact_cube64 : ∀ p ∈ firstPrimes 80, IsFloorRoot 3 (p * 2 ^ (3 * 64)) (iroot 3 (p * 2 ^ (3 * 64))) := by
  decide +kernel
/-- square roots, 32 fractional bits (SHA-256 H^{(0)}) -/
theorem iroot_exact_sqrt32 : ∀ p ∈ firstPrimes 8, IsFloorRoot 2 (p * 2 ^ (2 * 32)) (iroot 2 (p * 2 ^ (2 * 32))) := by
  decide +kernel
/-- square roots, 64 fractional bits (SHA-512, SHA-384 and — low halves — SHA-224 H^{(0)}) -/
theorem iroot_exact_sqrt64 : ∀ p ∈ firstPrimes 16, IsFloorRoot 2 (p * 2 ^ (2 * 64)) (iroot 2 (p * 2 ^ (2 * 64))) := by
  decide +kernel

/-- the integer part of the root is below 2^bits·(something small): the `% 2^bits` really strips the integer part
    `⌊p^(1/k)⌋·2^bits` and nothing else, i.e. `fracRoot = ⌊frac(p^(1/k))·2^bits⌋` -/
theorem fracRoot_is_fraction_cube64 :
    ∀ p ∈ firstPrimes 80, iroot 3 (p * 2 ^ (3 * 64)) = iroot 3 p * 2 ^ 64 + fracRoot 3 64 p
      ∧ IsFloorRoot 3 p (iroot 3 p) := by decide +kernel
theorem fracRoot_is_fraction_cube32 :
    ∀ p ∈ firstPrimes 64, iroot 3 (p * 2 ^ (3 * 32)) = iroot 3 p * 2 ^ 32 + fracRoot 3 32 p
      ∧ IsFloorRoot 3 p (iroot 3 p) := by decide +kernel
theorem fracRoot_is_fraction_sqrt64 :
    ∀ p ∈ firstPrimes 16, iroot 2 (p * 2 ^ (2 * 64)) = iroot 2 p * 2 ^ 64 + fracRoot 2 64 p
      ∧ IsFloorRoot 2 p (iroot 2 p) := by decide +kernel
theorem fracRoot_is_fraction_sqrt32 :
    ∀ p ∈ firstPrimes 8, iroot 2 (p * 2 ^ (2 * 32)) = iroot 2 p * 2 ^ 32 + fracRoot 2 32 p
      ∧ IsFloorRoot 2 p (iroot 2 p) := by decide +kernel

/-- the constant tables are complete (no junk default of `w8OfNats` was used) -/
theorem spec_table_sizes :
    K256.length = 64 ∧ K512.length = 80 ∧ ((firstPrimes 8).map (fracRoot 2 32)).length = 8
    ∧ primes9to16.length = 8 := by decide +kernel

/-! ### (2) the extracted tables -/

theorem K32_eq : Extracted.Sha2.K32 = K256 := by decide +kernel
theorem K64_eq : Extracted.Sha2.K64 = K512 := by decide +kernel
theorem H256_eq : Impl.Sha2.H256 = H256 := by decide +kernel
theorem H224_eq : Impl.Sha2.H224 = H224 := by decide +kernel
theorem H512_eq : Impl.Sha2.H512 = H512 := by decide +kernel
theorem H384_eq : Impl.Sha2.H384 = H384 := by decide +kernel

/-- the SHA-512/224 initial value in initials.rs is what the FIPS IV generation function produces -/
theorem H512_TRUNC_224_eq : Impl.Sha2.H512_TRUNC_224 = H512_224 := by decide +kernel
/-- the SHA-512/256 initial value -/
theorem H512_TRUNC_256_eq : Impl.Sha2.H512_TRUNC_256 = H512_256 := by decide +kernel

def swapPairs : List UInt64 → List UInt64
  | a :: b :: rest => b :: a :: swapPairs rest
  | l => l

/-- `K64X2[i] = u64x2(K64[2i+1], K64[2i])` for all 40 entries -/
theorem K64X2_eq : Extracted.Sha2.K64X2 = swapPairs Extracted.Sha2.K64 := by decide +kernel

theorem block_len_eq : Impl.Sha2.Eng256.BLOCK_LEN_BYTES = blockBytes256
    ∧ Impl.Sha2.Eng512.BLOCK_LEN_BYTES = blockBytes512 := by decide

end Cx.Proofs.Sha2Tables
