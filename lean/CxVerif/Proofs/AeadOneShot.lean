/-
  Proofs.AeadOneShot — the one-shot object `ChaChaPoly1305<R>` (new / encrypt / decrypt / reuse refused) in terms
  of the context lemmas of Proofs.Aead, and the structured histories of the incremental interface.
-/
import CxVerif.Proofs.AeadHist
namespace Cx.Proofs.Aead
open Cx Cx.Impl Cx.Impl.Aead
set_option linter.unusedSimpArgs false
set_option linter.unusedVariables false

variable {σ : Type}
variable {E : ChaCha.Engine σ} {R : Nat} {key nonce : Bytes} {At : StreamCtx.Ctx σ → Nat → Prop}

/-! ## one-shot object -/

theorem oneshot_new (D : CipherDeps E R key nonce At) (M : MacDeps) (aad : Bytes) (hb : aad.length < 2 ^ 64) :
    ∃ o, ChaChaPoly1305.new E R key nonce aad = .ok o ∧ o.finished = false ∧
      CtxInv R key nonce At o.context aad aad.length 0 := by
  obtain ⟨c, hnew, _, hinv⟩ := new_inv D
  obtain ⟨c', hadd, hinv'⟩ := add_data_inv D M c [] aad 0 0 hinv (by simpa using hb)
  refine ⟨{ finished := false, context := c' }, ?_, rfl, by simpa using hinv'⟩
  simp [ChaChaPoly1305.new, hnew, hadd]

theorem oneshot_encrypt (D : CipherDeps E R key nonce At) (M : MacDeps) (o : ChaChaPoly1305 σ) (aad pt : Bytes)
    (hfin : o.finished = false) (hinv : CtxInv R key nonce At o.context aad aad.length 0)
    (hb : pt.length < 2 ^ 64) :
    ChaChaPoly1305.encrypt E R o pt pt.length 16 =
      .ok ({ o with finished := true }, Spec.Aead.cipher R key nonce pt,
           Spec.Aead.tag R key nonce aad (Spec.Aead.cipher R key nonce pt)) := by
  obtain ⟨c1, h1, inv1⟩ := to_encryption_inv D M o.context aad hinv
  obtain ⟨c2, h2, inv2⟩ := encrypt_inv D M c1 aad [] pt inv1 (by simpa using hb)
  simp only [List.length_nil, Nat.add_zero, List.nil_append] at h2 inv2
  obtain ⟨c3, h3⟩ := finalize_raw_inv D M c2 aad _ inv2
  simp only [ChaChaPoly1305.encrypt, hfin, ne_eq, not_true_eq_false, if_false, h1, h2, ContextEncryption.finalize, h3,
    Spec.Aead.cipher]
  rfl

theorem oneshot_decrypt (D : CipherDeps E R key nonce At) (M : MacDeps) (o : ChaChaPoly1305 σ) (aad ct tag : Bytes)
    (hfin : o.finished = false) (hinv : CtxInv R key nonce At o.context aad aad.length 0)
    (hb : ct.length < 2 ^ 64) (ht : tag.length = 16) :
    ChaChaPoly1305.decrypt E R o ct ct.length tag =
      .ok ({ o with finished := true }, Spec.Aead.cipher R key nonce ct,
           decide (tag = Spec.Aead.tag R key nonce aad ct)) := by
  obtain ⟨c1, h1, inv1⟩ := to_encryption_inv D M o.context aad hinv
  obtain ⟨c2, h2, inv2⟩ := decrypt_inv D M c1 aad [] ct inv1 (by simpa using hb)
  simp only [List.length_nil, Nat.add_zero, List.nil_append] at h2 inv2
  obtain ⟨c3, h3⟩ := finalize_raw_inv D M c2 aad _ inv2
  have he : Tag.eq (Spec.Aead.tag R key nonce aad ct) tag = decide (tag = Spec.Aead.tag R key nonce aad ct) := by
    rw [tag_eq_spec _ _ (by rw [tag_length, ht])]
    simp [eq_comm]
  simp only [ChaChaPoly1305.decrypt, hfin, ht, ne_eq, not_true_eq_false, if_false, to_decryption_eq, h1, h2,
    ContextDecryption.finalize, h3, he, Spec.Aead.cipher]
  rfl

/-- a finished object refuses every further call, whatever the arguments -/
theorem oneshot_finished_refuses_encrypt (o : ChaChaPoly1305 σ) (h : o.finished = true) (input : Bytes) (n l : Nat) :
    ChaChaPoly1305.encrypt E R o input n l = .error "PANIC" := by
  unfold ChaChaPoly1305.encrypt
  by_cases h1 : input.length ≠ n <;> simp [h1, h]

theorem oneshot_finished_refuses_decrypt (o : ChaChaPoly1305 σ) (h : o.finished = true) (input : Bytes) (n : Nat)
    (tag : Bytes) : ChaChaPoly1305.decrypt E R o input n tag = .error "PANIC" := by
  unfold ChaChaPoly1305.decrypt
  by_cases h1 : tag.length ≠ 16 <;> by_cases h2 : input.length ≠ n <;> simp [h1, h2, h]

/-- wrong buffer lengths are refused -/
theorem oneshot_encrypt_refuses_lengths (o : ChaChaPoly1305 σ) (input : Bytes) (n l : Nat)
    (h : input.length ≠ n ∨ l ≠ 16) : ChaChaPoly1305.encrypt E R o input n l = .error "PANIC" := by
  unfold ChaChaPoly1305.encrypt
  by_cases h1 : input.length ≠ n <;> by_cases h2 : o.finished = true <;> by_cases h3 : l ≠ 16 <;> simp [h1, h2, h3]
  simp only [ne_eq, Decidable.not_not] at h1 h3
  rcases h with h | h
  · exact absurd h1 h
  · exact absurd h3 h

theorem oneshot_decrypt_refuses_lengths (o : ChaChaPoly1305 σ) (input : Bytes) (n : Nat) (tag : Bytes)
    (h : input.length ≠ n ∨ tag.length ≠ 16) : ChaChaPoly1305.decrypt E R o input n tag = .error "PANIC" := by
  unfold ChaChaPoly1305.decrypt
  by_cases h1 : tag.length ≠ 16 <;> by_cases h2 : input.length ≠ n <;> by_cases h3 : o.finished = true <;>
    simp [h1, h2, h3]
  simp only [ne_eq, Decidable.not_not] at h1 h2
  rcases h with h | h
  · exact absurd h2 h
  · exact absurd h1 h

/-! ## structured histories of the abstract machine -/

/-- `add_data` once per piece -/
theorem absRun_addData (R : Nat) (key nonce : Bytes) : ∀ (as : List Bytes) (aad : Bytes) (rest : List Op),
    absRun R key nonce ⟨.aad, aad, []⟩ (as.map Op.addData ++ rest) =
      absRun R key nonce ⟨.aad, aad ++ as.flatten, []⟩ rest := by
  intro as
  induction as with
  | nil => intro aad rest; simp
  | cons a as ih =>
    intro aad rest
    simp only [List.map_cons, List.cons_append, absRun, absStep, List.flatten_cons]
    rw [ih, List.append_assoc]
    cases absRun R key nonce ⟨.aad, aad ++ (a ++ as.flatten), []⟩ rest with
    | none => rfl
    | some r => obtain ⟨x, y⟩ := r; simp

/-- an encryption call: buffer-to-buffer (`false`) or in place (`true`) -/
def encOp (p : Bytes × Bool) : Op := if p.2 then .encryptMut p.1 else .encrypt p.1 p.1.length
def decOp (p : Bytes × Bool) : Op := if p.2 then .decryptMut p.1 else .decrypt p.1 p.1.length

theorem absStep_encOp (R : Nat) (key nonce : Bytes) (aad ct : Bytes) (p : Bytes × Bool) :
    absStep R key nonce ⟨.enc, aad, ct⟩ (encOp p) =
      some (⟨.enc, aad, ct ++ Spec.ChaCha.encrypt R key nonce (64 + ct.length) p.1⟩,
            [.bytes (Spec.ChaCha.encrypt R key nonce (64 + ct.length) p.1)]) := by
  obtain ⟨d, b⟩ := p
  cases b <;> simp [encOp, absStep]

theorem absStep_decOp (R : Nat) (key nonce : Bytes) (aad ct : Bytes) (p : Bytes × Bool) :
    absStep R key nonce ⟨.dec, aad, ct⟩ (decOp p) =
      some (⟨.dec, aad, ct ++ p.1⟩, [.bytes (Spec.ChaCha.encrypt R key nonce (64 + ct.length) p.1)]) := by
  obtain ⟨d, b⟩ := p
  cases b <;> simp [decOp, absStep]

/-- data calls in the encryption phase followed by `finalize` -/
theorem absRun_enc (R : Nat) (key nonce aad : Bytes) : ∀ (ps : List (Bytes × Bool)) (ct : Bytes),
    absRun R key nonce ⟨.enc, aad, ct⟩ (ps.map encOp ++ [Op.finalizeEnc]) =
      some (⟨.done, aad, ct ++ Spec.ChaCha.encrypt R key nonce (64 + ct.length) (ps.map (·.1)).flatten⟩,
            dataOuts R key nonce (64 + ct.length) (ps.map (·.1)) ++
            [.bytes (Spec.Aead.tag R key nonce aad
              (ct ++ Spec.ChaCha.encrypt R key nonce (64 + ct.length) (ps.map (·.1)).flatten))]) := by
  intro ps
  induction ps with
  | nil =>
    intro ct
    simp [absRun, absStep, dataOuts, Spec.ChaCha.encrypt, encrypt_nil]
  | cons p ps ih =>
    intro ct
    simp only [List.map_cons, List.cons_append, absRun, absStep_encOp, ih, List.flatten_cons, dataOuts]
    have happ := encrypt_append (Spec.ChaCha.blockAt R key nonce) (64 + ct.length) p.1 (ps.map (·.1)).flatten
    have hlen : (Spec.ChaCha.encrypt R key nonce (64 + ct.length) p.1).length = p.1.length := encrypt_length _ _ _
    simp only [Spec.ChaCha.encrypt] at happ hlen ⊢
    simp only [List.length_append, hlen, happ, Nat.add_assoc, List.append_assoc, List.cons_append, List.nil_append]

/-- data calls in the decryption phase followed by `finalize(&Tag)` -/
theorem absRun_dec (R : Nat) (key nonce aad t : Bytes) (ht : t.length = 16) : ∀ (ps : List (Bytes × Bool)) (ct : Bytes),
    absRun R key nonce ⟨.dec, aad, ct⟩ (ps.map decOp ++ [Op.finalizeDec t]) =
      some (⟨.done, aad, ct ++ (ps.map (·.1)).flatten⟩,
            dataOuts R key nonce (64 + ct.length) (ps.map (·.1)) ++
            [.verdict (decide (t = Spec.Aead.tag R key nonce aad (ct ++ (ps.map (·.1)).flatten)))]) := by
  intro ps
  induction ps with
  | nil =>
    intro ct
    simp [absRun, absStep, dataOuts, ht]
  | cons p ps ih =>
    intro ct
    simp only [List.map_cons, List.cons_append, absRun, absStep_decOp, ih, List.flatten_cons, dataOuts]
    simp only [List.length_append, Nat.add_assoc, List.append_assoc, List.cons_append, List.nil_append]

/-- the encryption history: one `add_data` per AAD piece, `to_encryption`, one `encrypt` (flag `false`) or
    `encrypt_mut` (flag `true`) per data piece, `finalize` -/
def encProg (as : List Bytes) (ps : List (Bytes × Bool)) : List Op :=
  as.map Op.addData ++ ([Op.toEnc] ++ (ps.map encOp ++ [Op.finalizeEnc]))

/-- the decryption history with the expected tag `t` -/
def decProg (as : List Bytes) (ps : List (Bytes × Bool)) (t : Bytes) : List Op :=
  as.map Op.addData ++ ([Op.toDec] ++ (ps.map decOp ++ [Op.finalizeDec t]))

/-- flip bit `i` (bit `i % 8` of byte `i / 8`) of a byte string -/
def flipBit : Bytes → Nat → Bytes
  | [], _ => []
  | b :: bs, i => if i < 8 then (b ^^^ ((1 : UInt8) <<< UInt8.ofNat i)) :: bs else b :: flipBit bs (i - 8)

theorem flipBit_length : ∀ (t : Bytes) (i : Nat), (flipBit t i).length = t.length := by
  intro t
  induction t with
  | nil => intro i; rfl
  | cons b bs ih =>
    intro i
    simp only [flipBit]
    split
    · simp
    · simp [ih]

theorem shl_ne_zero : ∀ i : Fin 8, (1 : UInt8) <<< UInt8.ofNat i.val ≠ 0 := by decide

theorem xor_ne_self (b m : UInt8) (hm : m ≠ 0) : b ^^^ m ≠ b := by
  intro h
  apply hm
  have : b ^^^ (b ^^^ m) = b ^^^ b := by rw [h]
  rw [← UInt8.xor_assoc, UInt8.xor_self, UInt8.zero_xor] at this
  exact this

/-- flipping any bit inside the string changes it -/
theorem flipBit_ne : ∀ (t : Bytes) (i : Nat), i < 8 * t.length → flipBit t i ≠ t := by
  intro t
  induction t with
  | nil => intro i h; simp at h
  | cons b bs ih =>
    intro i h
    simp only [flipBit]
    split
    · rename_i hi
      intro he
      simp only [List.cons.injEq, and_true] at he
      exact xor_ne_self b _ (shl_ne_zero ⟨i, hi⟩) he
    · rename_i hi
      intro he
      simp only [List.cons.injEq, true_and] at he
      exact ih (i - 8) (by simp only [List.length_cons] at h; omega) he

end Cx.Proofs.Aead
