/-
  Proofs.StreamFast — the blockwise evaluation `keystreamFast`/`encryptFast` of Spec.Stream equals the
  position-indexed definition `keystream`/`encrypt` (for block functions returning 64 bytes).
-/
import CxVerif.Proofs.StreamCtx
namespace Cx.Proofs.Stream
open Cx Cx.Spec.Stream

theorem flatMap_getElem? (blk : Nat → Bytes) (hlen : ∀ n, (blk n).length = 64) :
    ∀ (m b i : Nat), ((List.range' b m).flatMap blk)[i]? = if i < 64 * m then (blk (b + i / 64))[i % 64]? else none := by
  intro m
  induction m with
  | zero => intro b i; simp
  | succ m ih =>
    intro b i
    rw [List.range'_succ, List.flatMap_cons, List.getElem?_append]
    by_cases h : i < 64
    · have e1 : i / 64 = 0 := by omega
      have e2 : i % 64 = i := by omega
      simp [hlen, h, e1, e2]; omega
    · have e1 : b + 1 + (i - 64) / 64 = b + i / 64 := by omega
      have e2 : (i - 64) % 64 = i % 64 := by omega
      simp only [hlen, h, if_false, ih, e1, e2]
      by_cases h2 : i - 64 < 64 * m
      · have : i < 64 * (m + 1) := by omega
        simp [h2, this]
      · have : ¬ i < 64 * (m + 1) := by omega
        simp [h2, this]

theorem keystreamFast_eq (blk : Nat → Bytes) (hlen : ∀ n, (blk n).length = 64) (pos len : Nat) :
    keystreamFast blk pos len = keystream blk pos len := by
  apply List.ext_getElem?
  intro i
  unfold keystreamFast keystream
  rw [List.getElem?_take, List.getElem?_drop, flatMap_getElem? blk hlen]
  by_cases h : i < len
  · have h1 : pos % 64 + i < 64 * ((pos % 64 + len + 63) / 64) := by omega
    have e1 : pos / 64 + (pos % 64 + i) / 64 = (pos + i) / 64 := by omega
    have e2 : (pos % 64 + i) % 64 = (pos + i) % 64 := by omega
    have h3 : (pos + i) % 64 < (blk ((pos + i) / 64)).length := by rw [hlen]; omega
    simp [h, h1, e1, e2, ksByte, List.getD_eq_getElem?_getD, List.getElem?_eq_getElem h3]
  · simp [h]

theorem encryptFast_eq (blk : Nat → Bytes) (hlen : ∀ n, (blk n).length = 64) (pos : Nat) (data : Bytes) :
    encryptFast blk pos data = encrypt blk pos data := by
  unfold encryptFast encrypt; rw [keystreamFast_eq blk hlen]

end Cx.Proofs.Stream
