/-
  Proofs.GeBytes — `Ge::to_bytes` / `GePartial::to_bytes` return the RFC 8032 §5.1.2 encoding of the represented
  point (one inversion, canonical y, sign bit of x in bit 255).
-/
import CxVerif.Proofs.GeRefine
namespace Cx.Proofs.GeBytes
open Cx Cx.Spec Cx.Impl.Fe64 Cx.Impl.Ge Cx.Proofs.EdField Cx.Proofs.EdSpec Cx.Proofs.GeRefine
open Cx.Proofs.Fe64 (eval Tight Loose SubOk Pub Bnd some_bind pure_eq_some)
open Cx.Spec.Field25519 (p)

set_option maxRecDepth 10000

theorem modify_append_len {α} (l : List α) (x : α) (f : α → α) : (l ++ [x]).modify l.length f = l ++ [f x] := by
  induction l with
  | nil => rfl
  | cons a l ih => simp only [List.cons_append, List.length_cons, List.modify_succ_cons, ih]

theorem modify_append_len' {α} (l : List α) (n : Nat) (hn : l.length = n) (x : α) (f : α → α) :
    (l ++ [x]).modify n f = l ++ [f x] := by subst hn; exact modify_append_len l x f

theorem xor_top_bit : ∀ w : Fin 128, UInt8.ofNat w.val ^^^ ((1 : UInt8) <<< 7) = UInt8.ofNat (w.val + 128) := by
  decide

/-- setting the sign bit of a 255-bit little-endian encoding -/
theorem setSign_natToLE (v : Nat) (hv : v < 2 ^ 255) (b : Bool) :
    setSign (natToLE 32 v) b = natToLE 32 (v + 2 ^ 255 * (if b then 1 else 0)) := by
  have split : ∀ u : Nat, natToLE 32 u = natToLE 31 u ++ [UInt8.ofNat (u / 256 ^ 31 % 256)] := by
    intro u
    rw [show (32 : Nat) = 31 + 1 from rfl, Proofs.Fe64.natToLE_add 31 1 u]
    rfl
  unfold setSign
  rw [split v]
  have hl : (natToLE 31 v).length = 31 := Proofs.Fe64.natToLE_length 31 v
  rw [modify_append_len' _ 31 hl, split (v + 2 ^ 255 * (if b then 1 else 0))]
  have hw : v / 256 ^ 31 < 128 := by
    rw [Nat.div_lt_iff_lt_mul (by decide)]
    exact Nat.lt_of_lt_of_le hv (by decide)
  congr 1
  · rw [← Proofs.Fe64.natToLE_mod 31 (v + _), ← Proofs.Fe64.natToLE_mod 31 v]
    congr 1
    cases b
    · simp
    · simp only [if_true, Nat.mul_one]
      rw [show (2 : Nat) ^ 255 = 128 * 256 ^ 31 by decide, Nat.add_mul_mod_self_right]
  · congr 1
    cases b
    · simp only [Bool.false_eq_true, if_false, Nat.mul_zero, Nat.add_zero]
      rw [show ((0 : UInt8) <<< 7) = 0 by decide, UInt8.xor_zero]
    · simp only [if_true, Nat.mul_one]
      rw [Nat.mod_eq_of_lt (by omega)]
      have := xor_top_bit ⟨v / 256 ^ 31, hw⟩
      simp only at this
      rw [this]
      congr 1
      rw [show (2 : Nat) ^ 255 = 128 * 256 ^ 31 by decide, Nat.add_mul_div_right _ _ (by decide)]
      omega

section prime
variable [hp : Fact (Nat.Prime p)]

/-- the shared core of `Ge::to_bytes` (through `to_affine`) and `GePartial::to_bytes` -/
theorem affine_core (x y z : Fe) (P : Edwards.Point) (tx : Tight x) (ty : Tight y) (tz : Tight z)
    (rep : EdAlg.RepProj (ev x) (ev y) (ev z) (P.x : Fp) (P.y : Fp)) (hx : P.x < p) (hy : P.y < p) :
    ∃ recip x' y', invert z = some recip ∧ mul x recip = some x' ∧ mul y recip = some y' ∧
      Tight x' ∧ Tight y' ∧ eval x' = P.x ∧ eval y' = P.y := by
  obtain ⟨hz, hX, hY⟩ := rep
  obtain ⟨recip, e1, tr, vr⟩ := invert_ok z tz.loose
  obtain ⟨x', e2, tx', vx⟩ := mul_ok x recip tx.loose tr.loose
  obtain ⟨y', e3, ty', vy⟩ := mul_ok y recip ty.loose tr.loose
  refine ⟨recip, x', y', e1, e2, e3, tx', ty', ?_, ?_⟩
  · rw [← cast_inj (Proofs.Fe64.eval_lt x') hx]
    show ev x' = _
    rw [vx, vr, hX]; field_simp
  · rw [← cast_inj (Proofs.Fe64.eval_lt y') hy]
    show ev y' = _
    rw [vy, vr, hY]; field_simp

theorem encode_tail (x' y' : Fe) (P : Edwards.Point) (tx' : Tight x') (ty' : Tight y')
    (vx : eval x' = P.x) (vy : eval y' = P.y) :
    (do let bs ← Impl.Fe64.to_bytes y'; let n ← is_negative x'; pure (setSign bs n)) = some (Edwards.encode P) := by
  rw [Proofs.Fe64.to_bytes_spec y' ty'.loose, some_bind, Proofs.Fe64.is_negative_spec x' tx'.loose, some_bind,
    pure_eq_some, vx, vy]
  unfold Field25519.encode Field25519.isNegative Edwards.encode
  rw [setSign_natToLE _ (Nat.lt_of_lt_of_le (Nat.mod_lt _ p_pos) (by decide)), edp]
  congr 3
  rcases Nat.mod_two_eq_zero_or_one (P.x % p) with h | h <;> simp [h]

/-- `Ge::to_bytes` is the §5.1.2 encoding of the represented point -/
theorem ge_to_bytes_ok (g : Ge) (P : Edwards.Point) (hg : GeOk g P) (hx : P.x < p) (hy : P.y < p) :
    g.to_bytes = some (Edwards.encode P) := by
  obtain ⟨recip, x', y', e1, e2, e3, tx', ty', vx, vy⟩ :=
    affine_core g.x g.y g.z P hg.tx hg.ty hg.tz hg.rep.toProj hx hy
  simp only [Ge.to_bytes, Ge.to_affine]
  rw [e1, some_bind, e2, some_bind, e3, some_bind, pure_eq_some, some_bind]
  exact encode_tail x' y' P tx' ty' vx vy

/-- `GePartial::to_bytes` likewise -/
theorem partial_to_bytes_ok (g : GePartial) (P : Edwards.Point) (hg : PartialOk g P) (hx : P.x < p) (hy : P.y < p) :
    g.to_bytes = some (Edwards.encode P) := by
  obtain ⟨recip, x', y', e1, e2, e3, tx', ty', vx, vy⟩ :=
    affine_core g.x g.y g.z P hg.tx hg.ty hg.tz hg.rep hx hy
  simp only [GePartial.to_bytes]
  rw [e1, some_bind, e2, some_bind, e3, some_bind]
  exact encode_tail x' y' P tx' ty' vx vy

end prime

end Cx.Proofs.GeBytes
