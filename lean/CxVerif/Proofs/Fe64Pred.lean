/-
  Proofs.Fe64Pred — to_bytes, is_nonzero, is_negative, ct_eq / ==, maybe_swap_with, maybe_set, constants
  of fe64, through the canonical encoding (`to_packed_spec`) and the C18 theorems.
-/
import CxVerif.Proofs.Fe64Bytes
import CxVerif.Props.C18
namespace Cx.Proofs.Fe64
open Cx Cx.Spec Cx.Impl.Fe64
open Cx.Spec.Field25519 (p)

/-! ## little-endian byte strings -/

theorem natToLE_length (n v : Nat) : (natToLE n v).length = n := by
  induction n generalizing v with
  | zero => rfl
  | succ n ih => simp [natToLE, ih]

theorem natToLE_add (m n v : Nat) : natToLE (m + n) v = natToLE m v ++ natToLE n (v / 256^m) := by
  induction m generalizing v with
  | zero => simp [natToLE]
  | succ m ih =>
    rw [Nat.add_right_comm]
    simp only [natToLE, List.cons_append, ih]
    rw [Nat.div_div_eq_div_mul, Nat.pow_succ, Nat.mul_comm]

theorem leNat_natToLE (n v : Nat) : leNat (natToLE n v) = v % 256^n := by
  induction n generalizing v with
  | zero => simp [natToLE, leNat, Nat.mod_one]
  | succ n ih =>
    simp only [natToLE, leNat, ih]
    have : (UInt8.ofNat (v % 256)).toNat = v % 256 := by
      simp [UInt8.toNat_ofNat']
    rw [this, Nat.pow_succ, Nat.mul_comm (256^n) 256, Nat.mod_mul]

theorem natToLE_mod (n v : Nat) : natToLE n (v % 256^n) = natToLE n v := by
  induction n generalizing v with
  | zero => rfl
  | succ n ih =>
    simp only [natToLE]
    have h1 : v % 256 ^ (n + 1) % 256 = v % 256 := by
      rw [Nat.pow_succ, Nat.mul_comm]; exact Nat.mod_mul_right_mod v 256 (256^n)
    have h2 : v % 256 ^ (n + 1) / 256 = (v / 256) % 256^n := by
      rw [Nat.pow_succ, Nat.mul_comm, Nat.mod_mul_right_div_self]
    rw [h1, h2, ih]

theorem natToLE_inj {n v w : Nat} (hv : v < 256^n) (hw : w < 256^n) (h : natToLE n v = natToLE n w) :
    v = w := by
  have := congrArg leNat h
  rwa [leNat_natToLE, leNat_natToLE, Nat.mod_eq_of_lt hv, Nat.mod_eq_of_lt hw] at this

theorem words_to_bytes (v : Nat) :
    [v % 2^64, v / 2^64 % 2^64, v / 2^128 % 2^64, v / 2^192 % 2^64].flatMap (natToLE 8) = natToLE 32 v := by
  have e : (2:Nat)^64 = 256^8 := by decide
  have e2 : (2:Nat)^128 = 256^8 * 256^8 := by decide
  have e3 : (2:Nat)^192 = 256^8 * 256^8 * 256^8 := by decide
  simp only [List.flatMap_cons, List.flatMap_nil, List.append_nil]
  rw [e2, e3, e, natToLE_mod, natToLE_mod, natToLE_mod, natToLE_mod]
  rw [show (32:Nat) = 8 + (8 + (8 + 8)) from rfl, natToLE_add, natToLE_add, natToLE_add]
  simp only [Nat.div_div_eq_div_mul]

/-! ## to_bytes -/

theorem eval_lt (f : Fe) : eval f < p := Nat.mod_lt _ p_pos
theorem eval_mod (f : Fe) : eval f % p = eval f := Nat.mod_eq_of_lt (eval_lt f)

/-- `to_bytes` is the canonical 32-byte little-endian encoding of `val f mod p`, for every Loose input -/
theorem to_bytes_spec (f : Fe) (hf : Loose f) : to_bytes f = some (Field25519.encode (eval f)) := by
  simp only [to_bytes]
  rw [to_packed_spec f hf, some_bind, pure_eq_some, words_to_bytes]
  unfold Field25519.encode
  rw [eval_mod]; rfl

theorem to_bytes_length (f : Fe) (hf : Loose f) : ∃ b, to_bytes f = some b ∧ b.length = 32 :=
  ⟨_, to_bytes_spec f hf, natToLE_length 32 _⟩

/-! ## is_nonzero, is_negative, == -/

theorem p_lt_256_32 : p < 256^32 := by decide

theorem is_nonzero_spec (f : Fe) (hf : Loose f) :
    is_nonzero f = some (Field25519.isNonzero (eval f)) := by
  simp only [is_nonzero]
  rw [to_bytes_spec f hf, some_bind, pure_eq_some]
  congr 1
  rw [Cx.Props.C18.array_u8_ct_ne_spec _ _ (by rw [Field25519.encode, natToLE_length]; rfl)]
  unfold Field25519.isNonzero Field25519.encode
  rw [eval_mod]
  have hz : zeros 32 = natToLE 32 0 := by decide
  by_cases h : eval f = 0
  · rw [h, hz]; decide
  · have : natToLE 32 (eval f) ≠ zeros 32 := by
      rw [hz]; intro e
      exact h (natToLE_inj (Nat.lt_trans (eval_lt f) p_lt_256_32) (by decide) e)
    simp [this, h]

theorem is_negative_spec (f : Fe) (hf : Loose f) :
    is_negative f = some (Field25519.isNegative (eval f)) := by
  simp only [is_negative]
  rw [to_packed_spec f hf, some_bind]
  simp only [pure_eq_some]
  congr 1
  unfold Field25519.isNegative
  rw [eval_mod, Nat.and_one_is_mod]
  have : val f % p % 2^64 % 2 = eval f % 2 := by unfold eval; omega
  rw [this]
  rcases Nat.mod_two_eq_zero_or_one (eval f) with h | h <;> simp [h]

theorem word_inj {a b : Nat} (ha : a < 2^64) (hb : b < 2^64) (h : UInt64.ofNat a = UInt64.ofNat b) : a = b := by
  have := congrArg UInt64.toNat h
  simp only [UInt64.toNat_ofNat'] at this
  omega

theorem ct_eq_spec (f g : Fe) (hf : Loose f) (hg : Loose g) :
    ∃ c, ct_eq f g = some c ∧ c.isTrue = decide (eval f = eval g) := by
  simp only [ct_eq]
  rw [to_packed_spec f hf, some_bind, to_packed_spec g hg, some_bind, pure_eq_some]
  refine ⟨_, rfl, ?_⟩
  rw [Cx.Props.C18.array_u64_ct_eq_spec _ _ (by simp)]
  have hfl := Nat.lt_trans (eval_lt f) p_lt_256_32
  have hgl := Nat.lt_trans (eval_lt g) p_lt_256_32
  unfold eval at *
  generalize val f % p = a at *
  generalize val g % p = b at *
  by_cases h : a = b
  · subst h; simp
  · have : ¬ (List.map UInt64.ofNat [a % 2^64, a / 2^64 % 2^64, a / 2^128 % 2^64, a / 2^192 % 2^64]
        = List.map UInt64.ofNat [b % 2^64, b / 2^64 % 2^64, b / 2^128 % 2^64, b / 2^192 % 2^64]) := by
      intro e
      simp only [List.map_cons, List.map_nil, List.cons.injEq, and_true] at e
      obtain ⟨e0, e1, e2, e3⟩ := e
      have e0 := word_inj (Nat.mod_lt _ (by decide)) (Nat.mod_lt _ (by decide)) e0
      have e1 := word_inj (Nat.mod_lt _ (by decide)) (Nat.mod_lt _ (by decide)) e1
      have e2 := word_inj (Nat.mod_lt _ (by decide)) (Nat.mod_lt _ (by decide)) e2
      have e3 := word_inj (Nat.mod_lt _ (by decide)) (Nat.mod_lt _ (by decide)) e3
      apply h
      have : (256:Nat)^32 = 2^256 := by decide
      omega
    rw [decide_eq_false this, decide_eq_false h]

/-- `==` on field elements is equality modulo p -/
theorem eq_spec (f g : Fe) (hf : Loose f) (hg : Loose g) :
    eq f g = some (decide (eval f = eval g)) := by
  obtain ⟨c, hc, hcv⟩ := ct_eq_spec f g hf hg
  simp only [eq]
  rw [hc, some_bind, pure_eq_some, hcv]

/-! ## masked swap / set (C18) on limb vectors that are machine words -/

theorem ofWords_toWords (f : Fe) (hf : Bnd (2^64) f) : Fe.ofWords f.toWords = f := by
  obtain ⟨f0, f1, f2, f3, f4⟩ := f
  simp only [Bnd] at hf
  simp only [Fe.ofWords, Fe.toWords, Fe.toList, List.map_cons, List.map_nil, Fe.ofList,
    UInt64.toNat_ofNat']
  congr 1 <;> omega

theorem maybe_swap_with_spec (f g : Fe) (hf : Bnd (2^64) f) (hg : Bnd (2^64) g) (c : Bool) :
    maybe_swap_with f g (Cx.Props.C18.Choice.ofBool c) = if c then (g, f) else (f, g) := by
  unfold maybe_swap_with
  rw [Cx.Props.C18.ct_array64_maybe_swap_spec _ _ (by simp [Fe.toWords, Fe.toList])]
  cases c <;> simp only [if_true, if_false, Bool.false_eq_true, ofWords_toWords _ hf, ofWords_toWords _ hg]

theorem maybe_set_spec (f g : Fe) (hf : Bnd (2^64) f) (hg : Bnd (2^64) g) (c : Bool) :
    maybe_set f g (Cx.Props.C18.Choice.ofBool c) = if c then g else f := by
  unfold maybe_set
  rw [Cx.Props.C18.ct_array64_maybe_set_spec _ _ (by simp [Fe.toWords, Fe.toList])]
  cases c <;> simp only [if_true, if_false, Bool.false_eq_true, ofWords_toWords _ hf, ofWords_toWords _ hg]

/-! ## the constants, against their defining formulas -/

theorem ZERO_spec : Bnd (2^51) Fe.ZERO ∧ eval Fe.ZERO = 0 := by decide
theorem ONE_spec : Bnd (2^51) Fe.ONE ∧ eval Fe.ONE = 1 := by decide
/-- the extracted limbs of `Fe::D` denote `−121665/121666` (kernel evaluation of the Spec formula) -/
theorem D_spec : Bnd (2^51) Fe.D ∧ eval Fe.D = Field25519.edwardsD := by decide +kernel
theorem D2_spec : Bnd (2^51) Fe.D2 ∧ eval Fe.D2 = Field25519.edwardsD2 := by decide +kernel
/-- the extracted limbs of `Fe::SQRTM1` denote `2^((p−1)/4)` -/
theorem SQRTM1_spec : Bnd (2^51) Fe.SQRTM1 ∧ eval Fe.SQRTM1 = Field25519.sqrtM1 := by decide +kernel
theorem bnd51_tight {f : Fe} (h : Bnd (2^51) f) : Tight f := Bnd.mono (by decide) h

end Cx.Proofs.Fe64
