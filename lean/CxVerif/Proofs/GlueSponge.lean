/-
  Proofs.GlueSponge — helper lemmas for the translator tie of the stateful glue (Props/C02/GlueTieSponge.lean):
  the loop combinators of Extracted/GlueSponge.lean (`forRange`, `whileLoop`) against the recursions / folds of the
  hand models (Impl/Sha3.lean: `xor_in`, `absorb_loop`, `clear_bits`, `squeeze_loop`; Impl/Blake2.lean: `update_loop`),
  length / bound facts of the model functions, the slice primitives (`slice`, `sliceFrom`, `copyInto`).
-/
import CxVerif.Extracted.GlueSponge
import CxVerif.Proofs.SpongePad
namespace Cx.Proofs.GlueSponge
open Cx Cx.Impl.Sha3 Cx.Extracted.GlueSponge Cx.Extracted.GlueSponge.Sha3

/-! ## generic facts -/

theorem filter_le_range8 (lo : Nat) (h : lo < 8) :
    (List.range 8).filter (fun i => decide (lo ≤ i)) = lo :: (List.range 8).filter (fun i => decide (lo + 1 ≤ i)) := by
  have : lo = 0 ∨ lo = 1 ∨ lo = 2 ∨ lo = 3 ∨ lo = 4 ∨ lo = 5 ∨ lo = 6 ∨ lo = 7 := by omega
  rcases this with h | h | h | h | h | h | h | h <;> subst h <;> rfl

theorem forRange_clear_bits (D off s bl : Nat) : ∀ (n lo : Nat) (buf : Bytes), lo + n = 8 →
    forRange (set_pad_src_for1 D off s bl) n lo buf = clear_bits buf s lo := by
  intro n
  induction n with
  | zero =>
    intro lo buf h
    have : lo = 8 := by omega
    subst this
    rfl
  | succ n ih =>
    intro lo buf h
    have hlo : lo < 8 := by omega
    unfold clear_bits
    rw [filter_le_range8 lo hlo, List.foldlM_cons]
    simp only [forRange, set_pad_src_for1, shlU8, hlo, if_true, Option.bind_eq_bind, Option.pure_def, Option.bind_some]
    cases h1 : idx buf s with
    | none => simp
    | some v =>
      simp only [Option.bind_some]
      cases h2 : upd buf s (v &&& ~~~(1 <<< UInt8.ofNat lo)) with
      | none => simp
      | some b' =>
        simp only [Option.bind_some]
        rw [ih (lo + 1) b' (by omega)]
        rfl

theorem mapM_zero (l : Bytes) : l.mapM (fun _ => (some (0 : UInt8))) = some (zeros l.length) := by
  induction l with
  | nil => rfl
  | cons a t ih => simp [List.mapM_cons, ih, zeros, List.replicate_succ]

theorem upd_length {α : Type} {a a' : List α} {i : Nat} {v : α} (h : upd a i v = some a') : a'.length = a.length := by
  unfold upd at h
  split at h
  · cases h; simp
  · cases h

theorem idx_lt {α : Type} {a : List α} {i : Nat} {v : α} (h : idx a i = some v) : i < a.length := by
  unfold idx at h
  exact (List.getElem?_eq_some_iff.mp h).1

theorem foldlM_upd_length (s : Nat) (f : UInt8 → Nat → UInt8) (l : List Nat) : ∀ (a a' : Bytes),
    l.foldlM (fun buf i => do upd buf s (f (← idx buf s) i)) a = some a' → a'.length = a.length := by
  induction l with
  | nil => intro a a' h; cases h; rfl
  | cons i l ih =>
    intro a a' h
    rw [List.foldlM_cons] at h
    simp only [Option.bind_eq_bind] at h
    cases h1 : idx a s with
    | none => simp [h1] at h
    | some v =>
      simp only [h1, Option.bind_some] at h
      cases h2 : upd a s (f v i) with
      | none => simp [h2] at h
      | some b => 
        simp only [h2, Option.bind_some] at h
        rw [ih b a' h, upd_length h2]

theorem clear_bits_length {a a' : Bytes} {s lo : Nat} (h : clear_bits a s lo = some a') : a'.length = a.length := by
  unfold clear_bits at h
  exact foldlM_upd_length s (fun v i => v &&& ~~~((1 : UInt8) <<< UInt8.ofNat i)) _ a a' h


theorem usizechk_some {v w : Nat} (h : usizechk v = some w) : w = v ∧ v < 2 ^ 64 := by
  unfold usizechk at h
  split at h
  · cases h; exact ⟨rfl, by omega⟩
  · cases h

theorem pad_len_lt {ds o r n : Nat} (h : pad_len ds o r = some n) : n < 2 ^ 61 := by
  unfold pad_len at h
  split at h
  · cases h
  · simp only [Option.bind_eq_bind, Option.bind_eq_some_iff, Option.pure_def] at h
    obtain ⟨_, _, _, _, _, _, _, _, _, _, _, _, _, _, _, _, h⟩ := h
    split at h
    · cases h
    · simp only [Option.bind_eq_some_iff] at h
      obtain ⟨b1, _, b2, hb2, h⟩ := h
      have := usizechk_some hb2
      cases h
      omega

theorem set_domain_sep_length {n : Nat} {buf buf' : Bytes} (h : set_domain_sep n buf = some buf') : buf'.length = buf.length := by
  unfold set_domain_sep at h
  split at h
  · cases h
  · split at h
    · simp only [Option.bind_eq_bind, Option.bind_eq_some_iff] at h
      obtain ⟨_, _, b1, h1, _, _, h2⟩ := h
      rw [upd_length h2, upd_length h1]
    · simp only [Option.bind_eq_bind, Option.bind_eq_some_iff] at h
      obtain ⟨_, _, h2⟩ := h
      rw [upd_length h2]

theorem set_pad_length {ds : Nat} {buf buf' : Bytes} (h : set_pad ds buf = some buf') : buf'.length = buf.length := by
  unfold set_pad at h
  simp only [Option.bind_eq_bind, Option.bind_eq_some_iff] at h
  obtain ⟨_, _, b1, h1, b2, h2, h⟩ := h
  have l1 := upd_length h1
  have l2 := clear_bits_length h2
  split at h
  · cases h
  · split at h
    · cases h
    · simp only [Option.bind_eq_some_iff] at h
      obtain ⟨_, _, h3⟩ := h
      rw [upd_length h3]
      simp [zeros]
      omega


theorem xor_in_nil' (st : Bytes) (k : Nat) : xor_in st k [] = some st := by
  cases st <;> cases k <;> rfl

theorem xor_in_cons_step (d : UInt8) (ds : Bytes) : ∀ (st : Bytes) (k : Nat),
    xor_in st k (d :: ds) = (idx st k).bind fun v => (upd st k (v ^^^ d)).bind fun st' => xor_in st' (k + 1) ds := by
  intro st
  induction st with
  | nil => intro k; cases k <;> rfl
  | cons b t ih =>
    intro k
    cases k with
    | zero =>
      simp only [xor_in, idx, upd, List.getElem?_cons_zero, Option.bind_some, List.length_cons, Nat.zero_lt_succ, if_true,
        List.set_cons_zero]
      cases ds with
      | nil => simp [xor_in_nil']
      | cons d' ds' => simp [xor_in]
    | succ k =>
      simp only [xor_in, ih k]
      simp only [idx, upd, List.getElem?_cons_succ, List.length_cons, Nat.add_lt_add_iff_right, List.set_cons_succ]
      cases h1 : t[k]? with
      | none => simp
      | some v =>
        simp only [Option.bind_some]
        by_cases h2 : k < t.length
        · simp only [h2, if_true, Option.bind_some]
          cases ds with
          | nil => simp [xor_in_nil']
          | cons d' ds' => simp [xor_in]
        · simp [h2]

theorem usizechk_lt {v : Nat} (h : v < 2 ^ 64) : usizechk v = some v := by
  unfold usizechk; rw [if_pos (by simpa using h)]

/-- one byte of the absorb loop -/
theorem process_for2_eq (dl ds : Nat) (data : Bytes) (r in_len in_pos offset nread i : Nat) (e : Engine)
    (h1 : offset + i < 2 ^ 64) (h2 : in_pos + i < 2 ^ 64) :
    Engine.process_src_for2 dl ds data r in_len in_pos offset nread i e =
      (idx e.state (offset + i)).bind fun v => (idx data (in_pos + i)).bind fun d =>
        (upd e.state (offset + i) (v ^^^ d)).bind fun st => some { e with state := st } := by
  simp only [Engine.process_src_for2, usizechk_lt h1, usizechk_lt h2, Option.bind_eq_bind, Option.bind_some, Option.pure_def]

theorem process_forRange_eq (dl ds : Nat) (data : Bytes) (r in_len in_pos offset nread : Nat) (hd : data.length < 2 ^ 64) :
    ∀ (n lo : Nat) (e : Engine), in_pos + lo + n ≤ data.length → offset + lo + n < 2 ^ 64 →
    forRange (Engine.process_src_for2 dl ds data r in_len in_pos offset nread) n lo e =
      (xor_in e.state (offset + lo) ((data.drop (in_pos + lo)).take n)).bind fun st => some { e with state := st } := by
  intro n
  induction n with
  | zero => intro lo e _ _; simp [forRange, xor_in_nil']
  | succ n ih =>
    intro lo e h1 h2
    have hlt : in_pos + lo < data.length := by omega
    have hdrop : (data.drop (in_pos + lo)).take (n + 1) = data[in_pos + lo] :: (data.drop (in_pos + (lo + 1))).take n := by
      rw [List.drop_eq_getElem_cons hlt, List.take_succ_cons]; rfl
    rw [hdrop, xor_in_cons_step, forRange, process_for2_eq dl ds data r in_len in_pos offset nread lo e (by omega) (by omega)]
    have hidx : idx data (in_pos + lo) = some data[in_pos + lo] := by simp [idx, hlt]
    cases h3 : idx e.state (offset + lo) with
    | none => simp
    | some v =>
      simp only [Option.bind_some, hidx]
      cases h4 : upd e.state (offset + lo) (v ^^^ data[in_pos + lo]) with
      | none => simp
      | some st =>
        simp only [Option.bind_some]
        rw [ih (lo + 1) _ (by omega) (by omega)]
        rfl

theorem usub_le {a b : Nat} (h : b ≤ a) : usub a b = some (a - b) := by unfold usub; rw [if_pos h]

/-- one iteration of the absorb loop (loop condition true) -/
theorem process_while1_eq (dl ds : Nat) (data : Bytes) (r in_pos : Nat) (e : Engine) (hd : data.length < 2 ^ 64)
    (hr : r < 2 ^ 63) (ho : e.offset < r) (hp : in_pos < data.length) :
    Engine.process_src_while1 dl ds data r data.length (e, in_pos) =
      (xor_in e.state e.offset ((data.drop in_pos).take (min (r - e.offset) (data.length - in_pos)))).bind fun st' =>
        if e.offset + min (r - e.offset) (data.length - in_pos) = r then
          (keccak_f st').bind fun st'' =>
            some (({ e with state := st'', offset := 0 }, in_pos + min (r - e.offset) (data.length - in_pos)), true)
        else some (({ e with state := st', offset := e.offset + min (r - e.offset) (data.length - in_pos) },
                    in_pos + min (r - e.offset) (data.length - in_pos)), false) := by
  generalize hn : min (r - e.offset) (data.length - in_pos) = nread
  have hn1 : nread ≤ r - e.offset := by omega
  have hn2 : nread ≤ data.length - in_pos := by omega
  simp only [Engine.process_src_while1, hp, if_true, usub_le (Nat.le_of_lt ho), usub_le (Nat.le_of_lt hp), Option.bind_eq_bind,
    Option.bind_some, Option.pure_def, hn, Nat.sub_zero]
  rw [process_forRange_eq dl ds data r data.length in_pos e.offset nread hd nread 0 e (by omega) (by omega)]
  simp only [Nat.add_zero]
  cases h1 : xor_in e.state e.offset ((data.drop in_pos).take nread) with
  | none => simp
  | some st' =>
    simp only [Option.bind_some, usizechk_lt (show in_pos + nread < 2 ^ 64 by omega),
      usizechk_lt (show e.offset + nread < 2 ^ 64 by omega)]
    by_cases h2 : e.offset + nread = r
    · simp [h2]
    · simp [h2]

theorem absorb_whileLoop_eq (dl ds : Nat) (data : Bytes) (r : Nat) (hd : data.length < 2 ^ 64) (hr : r < 2 ^ 63) :
    ∀ (fuel : Nat) (e : Engine) (in_pos : Nat), in_pos ≤ data.length → data.length - in_pos < fuel → e.offset < r →
    (whileLoop (Engine.process_src_while1 dl ds data r data.length) fuel (e, in_pos)).bind (fun p => some p.1) =
      (absorb_loop r e.state e.offset (data.drop in_pos)).bind fun p => some { e with state := p.1, offset := p.2 } := by
  intro fuel
  induction fuel with
  | zero => intro e in_pos _ h; omega
  | succ fuel ih =>
    intro e in_pos hle hf ho
    by_cases hp : in_pos < data.length
    · rw [whileLoop, process_while1_eq dl ds data r in_pos e hd hr ho hp, absorb_loop]
      have hne : data.drop in_pos ≠ [] := by
        intro h; have := congrArg List.length h; simp at this; omega
      simp only [hne, dite_false, ho, dite_true, List.length_drop]
      generalize hn : min (r - e.offset) (data.length - in_pos) = nread
      have hn0 : 0 < nread := by omega
      cases h1 : xor_in e.state e.offset ((data.drop in_pos).take nread) with
      | none => simp
      | some st' =>
        simp only [Option.bind_some]
        by_cases h2 : e.offset + nread = r
        · simp only [h2, if_true]
          cases h3 : keccak_f st' with
          | none => simp
          | some st'' =>
            simp only [Option.bind_some]
            rw [ih _ _ (by omega) (by omega) (by simpa using (show 0 < r by omega))]
            simp only [List.drop_drop]
        · simp [h2]
    · have : in_pos = data.length := by omega
      subst this
      rw [whileLoop]
      simp [Engine.process_src_while1, absorb_loop]

theorem rate_le {dl r : Nat} (h : rate dl = some r) : r ≤ 200 := by
  unfold rate at h
  split at h
  · cases h; simp [Cx.Extracted.Sha3.B]
  · cases h


/-! ## SHA-3: the tie lemmas (restated with their documentation in Props/C02/GlueTieSponge.lean) -/

theorem rate_src_eq_model (dl ds : Nat) (e : Engine) : Engine.rate_src dl ds e = rate dl := by
  simp only [Engine.rate_src, rate, usizechk, usub, Cx.Extracted.Sha3.B]
  by_cases h : dl * 2 < 18446744073709551616
  · simp [h]
  · have : ¬ dl * 2 ≤ 200 := by omega
    simp [h, this]


theorem new_src_eq_model (dl ds : Nat) : Engine.new_src dl ds = some Engine.new := rfl

theorem set_domain_sep_src_eq_model (n : Nat) (buf : Bytes) : set_domain_sep_src n buf = set_domain_sep n buf := by
  unfold set_domain_sep_src set_domain_sep
  cases buf with
  | nil => simp
  | cons b t =>
    by_cases hn : n = 0
    · subst hn; simp
    · simp [hn]

theorem pad_len_src_eq_model (ds offset rate : Nat) : pad_len_src ds offset rate = pad_len ds offset rate := by
  unfold pad_len_src pad_len
  by_cases h1 : rate % 8 = 0 <;> by_cases h2 : offset % 8 = 0 <;> simp [h1, h2]
  

theorem set_pad_src_eq_model (ds : Nat) (buf : Bytes) (hb : buf.length < 2 ^ 64) : set_pad_src ds buf = set_pad ds buf := by
  unfold set_pad_src set_pad
  have hm : ds % 8 < 8 := Nat.mod_lt _ (by decide)
  simp only [shlU8, hm, if_true, Option.bind_eq_bind, Option.pure_def, Option.bind_some]
  cases h1 : idx buf (ds / 8) with
  | none => simp
  | some v =>
    simp only [Option.bind_some]
    cases h2 : upd buf (ds / 8) (v ||| 1 <<< UInt8.ofNat (ds % 8)) with
    | none => simp
    | some b1 =>
      have hc : usizechk (ds % 8 + 1) = some (ds % 8 + 1) := by simp [usizechk]; omega
      simp only [Option.bind_some, hc]
      rw [forRange_clear_bits ds ds (ds / 8) buf.length (8 - (ds % 8 + 1)) (ds % 8 + 1) b1 (by omega)]
      cases h3 : clear_bits b1 (ds / 8) (ds % 8 + 1) with
      | none => simp
      | some b2 =>
        simp only [Option.bind_some]
        have hl1 := upd_length h2
        have hl2 := clear_bits_length h3
        have hi := idx_lt h1
        have hc2 : usizechk (ds / 8 + 1) = some (ds / 8 + 1) := by simp [usizechk]; omega
        have hlen : ¬ b2.length < ds / 8 + 1 := by omega
        simp only [hc2, Option.bind_some, sliceFrom, hlen]
        have hle : ds / 8 + 1 ≤ b2.length := by omega
        have hne : ¬ buf.length = 0 := by omega
        have hu : usub buf.length 1 = some (buf.length - 1) := by unfold usub; rw [if_pos (by omega)]
        have hcp : copyInto b2 (ds / 8 + 1) b2.length (zeros (b2.drop (ds / 8 + 1)).length) =
            some (List.take (ds / 8 + 1) b2 ++ zeros (b2.length - (ds / 8 + 1))) := by
          simp [copyInto, hle, zeros]
        simp only [hle, if_true, Option.bind_some, mapM_zero, hcp, hu, if_false, hne]

theorem process_src_eq_model (dl ds : Nat) (e : Engine) (data : Bytes) (hd : data.length < 2 ^ 64) :
    Engine.process_src dl ds e data = e.process dl data := by
  unfold Engine.process_src Engine.process
  rw [rate_src_eq_model]
  cases hca : e.can_absorb with
  | false => simp
  | true =>
    cases hr : rate dl with
    | none => simp
    | some r =>
      have hr200 := rate_le hr
      by_cases ho : e.offset < r
      · have := absorb_whileLoop_eq dl ds data r hd (by omega) (data.length - 0 + 1) e 0 (by omega) (by omega) ho
        simp only [Option.bind_eq_bind, Option.bind_some, Option.pure_def, ho, not_true_eq_false, if_false, Bool.not_true]
        rw [this]
        simp only [List.drop_zero]
        cases absorb_loop r e.state e.offset data with
        | none => simp
        | some p => simp [hca]
      · have : r ≤ e.offset := by omega
        simp [this]

theorem slice_eq {a : Bytes} {lo n : Nat} (h : n + lo ≤ a.length) : slice a lo (n + lo) = some ((a.drop lo).take n) := by
  unfold slice; rw [if_pos ⟨by omega, h⟩]; simp

theorem slice_none {a : Bytes} {lo n : Nat} (h : a.length < n + lo) : slice a lo (n + lo) = none := by
  unfold slice; rw [if_neg (by omega)]

theorem copyInto_eq {dst src : Bytes} {lo n : Nat} (h : n + lo ≤ dst.length) (hs : src.length = n) :
    copyInto dst lo (n + lo) src = some (dst.take lo ++ src ++ dst.drop (lo + n)) := by
  unfold copyInto; rw [if_pos ⟨by omega, h, by omega⟩, Nat.add_comm n lo]

theorem copyInto_none {dst src : Bytes} {lo n : Nat} (h : dst.length < n + lo) : copyInto dst lo (n + lo) src = none := by
  unfold copyInto; rw [if_neg (by omega)]

set_option hygiene false in
/-- the part of one squeeze iteration after `nread = N` is known (common to `DIGESTLEN = 0` and `≠ 0`) -/
macro "squeeze_tail" : tactic => `(tactic| (
  have hN3 : e.offset % r ≤ e.offset := Nat.mod_le _ _
  simp only [usizechk_lt (show N + e.offset % r < 2 ^ 64 by omega), usizechk_lt (show N + in_pos < 2 ^ 64 by omega),
    usizechk_lt (show in_pos + N < 2 ^ 64 by omega), usizechk_lt (show e.offset % r + N < 2 ^ 64 by omega),
    usizechk_lt (show e.offset + N < 2 ^ 64 by omega), Option.bind_some]
  by_cases hs : e.state.length < N + e.offset % r
  · simp [hs, slice_none hs]
  · have hs' : N + e.offset % r ≤ e.state.length := by omega
    simp only [slice_eq hs', Option.bind_some, hs, false_or]
    by_cases ho : out.length < N + in_pos
    · simp [ho, copyInto_none ho]
    · have ho' : N + in_pos ≤ out.length := by omega
      have hlen : ((e.state.drop (e.offset % r)).take N).length = N := by simp; omega
      simp only [copyInto_eq ho' hlen, Option.bind_some, ho, if_false]
      by_cases hfull : e.offset % r + N = r
      · simp only [hfull, not_true_eq_false, if_false, dite_true, ite_D, Option.bind_some,
          usizechk_lt (show e.offset + N < 2 ^ 64 by omega)]
        cases hk : keccak_f e.state with
        | none => simp
        | some st'' =>
          simp only [Option.bind_some]
          rw [ih _ _ _ (by omega) (by omega) (by first | exact fun h0 => absurd h0 hD1 | (intro _; show 0 < r; omega))]
      · simp [hfull]))

theorem squeeze_whileLoop_eq (D ds r in_len : Nat) (hr : r < 2 ^ 63) (hD : D < 2 ^ 63) (hl : in_len < 2 ^ 64) :
    ∀ (fuel : Nat) (e : Engine) (in_pos : Nat) (out : Bytes), in_pos ≤ in_len → in_len - in_pos < fuel →
      (D = 0 → e.offset < r) →
    (whileLoop (Engine.output_src_while1 D ds r in_len) fuel (out, in_pos, e)).bind (fun p => some (p.2.2, p.1)) =
      squeeze_loop D r e in_len in_pos out := by
  intro fuel
  induction fuel with
  | zero => intro e in_pos out _ h; omega
  | succ fuel ih =>
    intro e in_pos out hle hf hD0
    rw [whileLoop, squeeze_loop]
    by_cases hp : in_pos < in_len
    · simp only [Engine.output_src_while1, hp, if_true, dite_true, Option.bind_eq_bind, Option.pure_def]
      by_cases hr0 : r = 0
      · simp [hr0, urem]
      · have hmod : e.offset % r < r := Nat.mod_lt _ (Nat.pos_of_ne_zero hr0)
        simp only [hr0, dite_false, urem, if_false, Option.bind_some, usub_le (Nat.le_of_lt hmod), usub_le (Nat.le_of_lt hp)]
        unfold squeeze_nread
        by_cases hD1 : D = 0
        · have ho := hD0 hD1
          have ite_D : ∀ {α : Type} (a b : α), (if D = 0 then a else b) = a := fun a b => if_pos hD1
          simp only [ne_eq, if_neg (not_not_intro hD1), Option.bind_some]
          generalize hN : min (r - e.offset % r) (in_len - in_pos) = N
          have hN1 : N ≤ r - e.offset % r := by omega
          have hN2 : N ≤ in_len - in_pos := by omega
          have hme : e.offset % r = e.offset := Nat.mod_eq_of_lt ho
          squeeze_tail
        · have ite_D : ∀ {α : Type} (a b : α), (if D = 0 then a else b) = b := fun a b => if_neg hD1
          simp only [ne_eq, hD1, not_false_eq_true, if_true]
          by_cases hDo : D < e.offset
          · have h' : ¬ e.offset ≤ D := by omega
            simp [hDo, usub, h']
          · simp only [hDo, if_false, usub_le (show e.offset ≤ D by omega), Option.bind_some]
            generalize hN : min (min (r - e.offset % r) (in_len - in_pos)) (D - e.offset) = N
            have hN1 : N ≤ r - e.offset % r := by omega
            have hN2 : N ≤ in_len - in_pos := by omega
            have hN4 : N ≤ D - e.offset := by omega
            squeeze_tail
    · have : in_pos = in_len := by omega
      subst this
      simp [Engine.output_src_while1]

/-- `Engine.output` writing into a caller-supplied buffer `out` (the hand model `Engine.output` fixes `out = zeros out_len`;
    everything else is its text) -/
def outputOn (DIGESTLEN DSLEN : Nat) (e : Engine) (out : Bytes) : Option (Engine × Bytes) := do
  if !e.can_squeeze then none else
  let e ← if e.can_absorb then e.finalize DIGESTLEN DSLEN else pure e
  let r ← rate DIGESTLEN
  if ¬ (if DIGESTLEN != 0 then e.offset < DIGESTLEN else e.offset < r) then none else
  let (e, out) ← squeeze_loop DIGESTLEN r e out.length 0 out
  let e := if DIGESTLEN != 0 && DIGESTLEN == e.offset then { e with can_squeeze := false } else e
  pure (e, out)

theorem output_eq_outputOn (D ds : Nat) (e : Engine) (n : Nat) : e.output D ds n = outputOn D ds e (zeros n) := by
  unfold Engine.output outputOn
  rw [show (zeros n).length = n from by simp [zeros]]

theorem rate_dl {dl r : Nat} (h : rate dl = some r) : dl * 2 ≤ 200 := by
  unfold rate at h; split at h
  · simpa [Cx.Extracted.Sha3.B] using ‹_›
  · cases h
theorem finalize_src_eq_model (dl ds : Nat) (e : Engine) : Engine.finalize_src dl ds e = e.finalize dl ds := by
  unfold Engine.finalize_src Engine.finalize
  rw [rate_src_eq_model]
  cases hca : e.can_absorb with
  | false => simp
  | true =>
    simp only [not_true_eq_false, if_false, Bool.not_true, Option.bind_eq_bind, Option.pure_def, Bool.false_eq_true]
    cases hr : rate dl with
    | none => cases usizechk (e.offset * 8) <;> simp
    | some r =>
      have hr200 := rate_le hr
      have hdl : dl * 2 ≤ 200 := by
        unfold rate at hr; split at hr
        · simpa [Cx.Extracted.Sha3.B] using ‹_›
        · cases hr
      cases ho : usizechk (e.offset * 8) with
      | none => simp
      | some o8 =>
        simp only [Option.bind_some, pad_len_src_eq_model]
        cases hr8 : usizechk (r * 8) with
        | none => simp
        | some r8 =>
          simp only [Option.bind_some]
          cases hp : pad_len ds o8 r8 with
          | none => simp
          | some p_len =>
            have hpl := pad_len_lt hp
            simp only [Option.bind_some]
            have hz : List.replicate p_len (0 : UInt8) = zeros p_len := rfl
            rw [hz]
            have hzl : (zeros p_len).length = p_len := by simp [zeros]
            have tail : ∀ p1 : Bytes, p1.length = p_len →
                ((set_pad_src ds p1).bind fun p => (Engine.process_src dl ds e p).bind fun self =>
                  some ({ state := self.state, can_absorb := false, can_squeeze := self.can_squeeze, offset := self.offset } : Engine)) =
                ((set_pad ds p1).bind fun p => (Engine.process dl e p).bind fun self =>
                  some ({ state := self.state, can_absorb := false, can_squeeze := self.can_squeeze, offset := self.offset } : Engine)) := by
              intro p1 hl1
              rw [set_pad_src_eq_model ds p1 (by omega)]
              cases hp2 : set_pad ds p1 with
              | none => simp
              | some p2 =>
                have hl2 := set_pad_length hp2
                simp only [Option.bind_some]
                rw [process_src_eq_model dl ds e p2 (by omega)]
            by_cases hds : ds = 0
            · subst hds
              simp only [ne_eq, not_true_eq_false, if_false, Option.bind_some, bne_self_eq_false, Bool.false_eq_true]
              exact tail _ hzl
            · have hb : (ds != 0) = true := by simp [hds]
              simp only [ne_eq, hds, not_false_eq_true, if_true, hb, usizechk_lt (show dl * 8 < 2 ^ 64 by omega), Option.bind_some,
                set_domain_sep_src_eq_model]
              cases hp1 : set_domain_sep (dl * 8) (zeros p_len) with
              | none => simp
              | some p1 =>
                simp only [Option.bind_some]
                exact tail p1 (by rw [set_domain_sep_length hp1, hzl])

theorem reset_src_eq_model (dl ds : Nat) (e : Engine) : Engine.reset_src dl ds e = some e.reset := rfl

set_option hygiene false in
/-- `output` after the optional `finalize` (engine `e1`) -/
macro "output_core" : tactic => `(tactic| (
  cases hr : rate D with
  | none => simp
  | some r =>
    have hr200 := rate_le hr
    have hdl := rate_dl hr
    simp only [Option.bind_some]
    by_cases hD : D = 0
    · subst hD
      by_cases hoff : e1.offset < r
      · simp only [ne_eq, not_true_eq_false, if_false, hoff, if_true, Option.bind_some, bne_self_eq_false,
          Bool.false_eq_true, Bool.false_and, Nat.sub_zero]
        rw [← squeeze_whileLoop_eq 0 ds r out.length (by omega) (by omega) ho (out.length + 1) e1 0 out (by omega) (by omega)
          (fun _ => hoff)]
        cases whileLoop (Engine.output_src_while1 0 ds r out.length) (out.length + 1) (out, 0, e1) with
        | none => simp
        | some p => simp
      · simp [hoff]
    · have hb : (D != 0) = true := by simp [hD]
      by_cases hoff : e1.offset < D
      · simp only [ne_eq, hD, not_false_eq_true, if_true, hoff, not_true_eq_false, if_false, Option.bind_some, hb,
          Bool.true_and, Nat.sub_zero]
        rw [← squeeze_whileLoop_eq D ds r out.length (by omega) (by omega) ho (out.length + 1) e1 0 out (by omega) (by omega)
          (fun h => absurd h hD)]
        cases whileLoop (Engine.output_src_while1 D ds r out.length) (out.length + 1) (out, 0, e1) with
        | none => simp
        | some p =>
          simp only [Option.bind_some]
          by_cases hfin : D = p.2.2.offset
          · simp [hfin]
          · simp [hfin]
      · simp [hoff, hD]))

theorem output_src_eq_outputOn (D ds : Nat) (e : Engine) (out : Bytes) (ho : out.length < 2 ^ 64) :
    Engine.output_src D ds e out = outputOn D ds e out := by
  unfold Engine.output_src outputOn
  cases hcs : e.can_squeeze with
  | false => simp
  | true =>
    simp only [not_true_eq_false, if_false, Bool.not_true, Bool.false_eq_true, Option.bind_eq_bind, Option.pure_def,
      finalize_src_eq_model, rate_src_eq_model]
    cases hca : e.can_absorb with
    | false =>
      simp only [Bool.false_eq_true, if_false, Option.bind_some]
      obtain ⟨e1, rfl⟩ : ∃ e1, e1 = e := ⟨e, rfl⟩
      output_core
    | true =>
      simp only [if_true]
      cases hf : e.finalize D ds with
      | none => simp
      | some e1 =>
        simp only [Option.bind_some]
        output_core

/-- when `rate` panics (`DIGESTLEN * 2 > B`) so does `output`, in the model and in the source -/
theorem outputOn_none_of_rate (D ds : Nat) (e : Engine) (out : Bytes) (h : rate D = none) : outputOn D ds e out = none := by
  unfold outputOn Engine.finalize
  cases e.can_squeeze <;> cases e.can_absorb <;> simp [h]

theorem output_src_none_of_rate (D ds : Nat) (e : Engine) (out : Bytes) (h : rate D = none) :
    Engine.output_src D ds e out = none := by
  unfold Engine.output_src
  simp only [finalize_src_eq_model, rate_src_eq_model]
  unfold Engine.finalize
  cases e.can_squeeze <;> cases e.can_absorb <;> simp [h]

/-- `fn output` on a fresh buffer of any length — the form the contexts use — is the hand model's `Engine.output` -/
theorem output_src_zeros (D ds : Nat) (e : Engine) (n : Nat) (hn : n < 2 ^ 64) :
    Engine.output_src D ds e (zeros n) = e.output D ds n := by
  rw [output_eq_outputOn]
  exact output_src_eq_outputOn D ds e (zeros n) (by simpa [zeros] using hn)

/-- … and with `out = [0; DIGESTLEN]` unconditionally (a `DIGESTLEN` that does not fit `usize` makes `rate` panic first) -/
theorem output_src_digest (D ds : Nat) (e : Engine) : Engine.output_src D ds e (zeros D) = e.output D ds D := by
  cases hr : rate D with
  | none => rw [output_eq_outputOn, outputOn_none_of_rate D ds e _ hr, output_src_none_of_rate D ds e _ hr]
  | some r => have := rate_dl hr; exact output_src_zeros D ds e D (by omega)

theorem ctx_new_src_eq_model (dl : Nat) : Context.new_src dl = some Context.new := rfl

theorem ctx_update_mut_src_eq_model (dl : Nat) (c : Context) (data : Bytes) (hd : data.length < 2 ^ 64) :
    Context.update_mut_src dl c data = Context.update_mut dl c data := by
  unfold Context.update_mut_src Context.update_mut
  rw [process_src_eq_model dl 2 c data hd]

theorem ctx_update_src_eq_model (dl : Nat) (c : Context) (data : Bytes) (hd : data.length < 2 ^ 64) :
    Context.update_src dl c data = Context.update dl c data := by
  unfold Context.update_src Context.update
  rw [process_src_eq_model dl 2 c data hd]

theorem ctx_finalize_reset_src_eq_model (dl : Nat) (c : Context) :
    Context.finalize_reset_src dl c = Context.finalize_reset dl 2 c := by
  unfold Context.finalize_reset_src Context.finalize_reset
  show (Engine.output_src dl 2 c (zeros dl)).bind _ = _
  rw [output_src_digest]
  cases Engine.output dl 2 c dl with
  | none => rfl
  | some p => rfl

theorem ctx_finalize_src_eq_model (dl : Nat) (c : Context) : Context.finalize_src dl c = Context.finalize dl 2 c := by
  unfold Context.finalize_src Context.finalize
  show (Engine.output_src dl 2 c (zeros dl)).bind _ = _
  rw [output_src_digest]
  cases Engine.output dl 2 c dl with
  | none => rfl
  | some p => rfl

theorem ctx_reset_src_eq_model (dl : Nat) (c : Context) : Context.reset_src dl c = some (Context.reset c) := rfl

end Cx.Proofs.GlueSponge
