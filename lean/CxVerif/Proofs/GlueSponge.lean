/-
  Proofs.GlueSponge — helper lemmas for the translator tie of the stateful glue (Props/C02/GlueTieSponge.lean):
  the loop combinators of Extracted/GlueSponge.lean (`forRange`, `whileLoop`) against the recursions / folds of the
  hand models (Impl/Sha3.lean: `xor_in`, `absorb_loop`, `clear_bits`, `squeeze_loop`; Impl/Blake2.lean: `update_loop`),
  length / bound facts of the model functions, the slice primitives (`slice`, `sliceFrom`, `copyInto`).
-/
import CxVerif.Extracted.GlueSponge
import CxVerif.Proofs.SpongePad
import CxVerif.Proofs.Blake2
set_option linter.unusedSimpArgs false
set_option linter.unusedVariables false
namespace Cx.Proofs.GlueSponge
open Cx Cx.Extracted.GlueSponge

section Sha3Part
open Cx.Impl.Sha3 Cx.Extracted.GlueSponge.Sha3

/-! ## generic facts -/

theorem filter_le_range8 (lo : Nat) (h : lo < 8) :
    (List.range 8).filter (fun i => decide (lo ≤ i)) = lo :: (List.range 8).filter (fun i => decide (lo + 1 ≤ i)) := by
  have : lo = 0 ∨ lo = 1 ∨ lo = 2 ∨ lo = 3 ∨ lo = 4 ∨ lo = 5 ∨ lo = 6 ∨ lo = 7 := by omega
  rcases this with h | h | h | h | h | h | h | h <;> subst h <;> rfl

theorem forRange_clear_bits (D off s bl : Nat) : ∀ (n lo : Nat) (buf : Bytes), lo + n = 8 →
    forRange (set_pad_src_for1 D off s bl) n lo buf = clear_bits buf s lo := by
  intro n
  induction n with
  | zero =>
    intro lo buf h
    have : lo = 8 := by omega
    subst this
    rfl
  | succ n ih =>
    intro lo buf h
    have hlo : lo < 8 := by omega
    unfold clear_bits
    rw [filter_le_range8 lo hlo, List.foldlM_cons]
    simp only [forRange, set_pad_src_for1, shlU8, hlo, if_true, Option.bind_eq_bind, Option.pure_def, Option.bind_some]
    cases h1 : idx buf s with
    | none => simp
    | some v =>
      simp only [Option.bind_some]
      cases h2 : upd buf s (v &&& ~~~(1 <<< UInt8.ofNat lo)) with
      | none => simp
      | some b' =>
        simp only [Option.bind_some]
        rw [ih (lo + 1) b' (by omega)]
        rfl

theorem mapM_zero (l : Bytes) : l.mapM (fun _ => (some (0 : UInt8))) = some (zeros l.length) := by
  induction l with
  | nil => rfl
  | cons a t ih => simp [List.mapM_cons, ih, zeros, List.replicate_succ]

theorem upd_length {α : Type} {a a' : List α} {i : Nat} {v : α} (h : upd a i v = some a') : a'.length = a.length := by
  unfold upd at h
  split at h
  · cases h; simp
  · cases h

theorem idx_lt {α : Type} {a : List α} {i : Nat} {v : α} (h : idx a i = some v) : i < a.length := by
  unfold idx at h
  exact (List.getElem?_eq_some_iff.mp h).1

theorem foldlM_upd_length (s : Nat) (f : UInt8 → Nat → UInt8) (l : List Nat) : ∀ (a a' : Bytes),
    l.foldlM (fun buf i => do upd buf s (f (← idx buf s) i)) a = some a' → a'.length = a.length := by
  induction l with
  | nil => intro a a' h; cases h; rfl
  | cons i l ih =>
    intro a a' h
    rw [List.foldlM_cons] at h
    simp only [Option.bind_eq_bind] at h
    cases h1 : idx a s with
    | none => simp [h1] at h
    | some v =>
      simp only [h1, Option.bind_some] at h
      cases h2 : upd a s (f v i) with
      | none => simp [h2] at h
      | some b => 
        simp only [h2, Option.bind_some] at h
        rw [ih b a' h, upd_length h2]

theorem clear_bits_length {a a' : Bytes} {s lo : Nat} (h : clear_bits a s lo = some a') : a'.length = a.length := by
  unfold clear_bits at h
  exact foldlM_upd_length s (fun v i => v &&& ~~~((1 : UInt8) <<< UInt8.ofNat i)) _ a a' h


theorem usizechk_some {v w : Nat} (h : usizechk v = some w) : w = v ∧ v < 2 ^ 64 := by
  unfold usizechk at h
  split at h
  · cases h; exact ⟨rfl, by omega⟩
  · cases h

theorem pad_len_lt {ds o r n : Nat} (h : pad_len ds o r = some n) : n < 2 ^ 61 := by
  unfold pad_len at h
  split at h
  · cases h
  · simp only [Option.bind_eq_bind, Option.bind_eq_some_iff, Option.pure_def] at h
    obtain ⟨_, _, _, _, _, _, _, _, _, _, _, _, _, _, _, _, h⟩ := h
    split at h
    · cases h
    · simp only [Option.bind_eq_some_iff] at h
      obtain ⟨b1, _, b2, hb2, h⟩ := h
      have := usizechk_some hb2
      cases h
      omega

theorem set_domain_sep_length {n : Nat} {buf buf' : Bytes} (h : set_domain_sep n buf = some buf') : buf'.length = buf.length := by
  unfold set_domain_sep at h
  split at h
  · cases h
  · split at h
    · simp only [Option.bind_eq_bind, Option.bind_eq_some_iff] at h
      obtain ⟨_, _, b1, h1, _, _, h2⟩ := h
      rw [upd_length h2, upd_length h1]
    · simp only [Option.bind_eq_bind, Option.bind_eq_some_iff] at h
      obtain ⟨_, _, h2⟩ := h
      rw [upd_length h2]

theorem set_pad_length {ds : Nat} {buf buf' : Bytes} (h : set_pad ds buf = some buf') : buf'.length = buf.length := by
  unfold set_pad at h
  simp only [Option.bind_eq_bind, Option.bind_eq_some_iff] at h
  obtain ⟨_, _, b1, h1, b2, h2, h⟩ := h
  have l1 := upd_length h1
  have l2 := clear_bits_length h2
  split at h
  · cases h
  · split at h
    · cases h
    · simp only [Option.bind_eq_some_iff] at h
      obtain ⟨_, _, h3⟩ := h
      rw [upd_length h3]
      simp [zeros]
      omega


theorem xor_in_nil' (st : Bytes) (k : Nat) : xor_in st k [] = some st := by
  cases st <;> cases k <;> rfl

theorem xor_in_cons_step (d : UInt8) (ds : Bytes) : ∀ (st : Bytes) (k : Nat),
    xor_in st k (d :: ds) = (idx st k).bind fun v => (upd st k (v ^^^ d)).bind fun st' => xor_in st' (k + 1) ds := by
  intro st
  induction st with
  | nil => intro k; cases k <;> rfl
  | cons b t ih =>
    intro k
    cases k with
    | zero =>
      simp only [xor_in, idx, upd, List.getElem?_cons_zero, Option.bind_some, List.length_cons, Nat.zero_lt_succ, if_true,
        List.set_cons_zero]
      cases ds with
      | nil => simp [xor_in_nil']
      | cons d' ds' => simp [xor_in]
    | succ k =>
      simp only [xor_in, ih k]
      simp only [idx, upd, List.getElem?_cons_succ, List.length_cons, Nat.add_lt_add_iff_right, List.set_cons_succ]
      cases h1 : t[k]? with
      | none => simp
      | some v =>
        simp only [Option.bind_some]
        by_cases h2 : k < t.length
        · simp only [h2, if_true, Option.bind_some]
          cases ds with
          | nil => simp [xor_in_nil']
          | cons d' ds' => simp [xor_in]
        · simp [h2]

theorem usizechk_lt {v : Nat} (h : v < 2 ^ 64) : usizechk v = some v := by
  unfold usizechk; rw [if_pos (by simpa using h)]

/-- one byte of the absorb loop -/
theorem process_for2_eq (dl ds : Nat) (data : Bytes) (r in_len in_pos offset nread i : Nat) (e : Engine)
    (h1 : offset + i < 2 ^ 64) (h2 : in_pos + i < 2 ^ 64) :
    Engine.process_src_for2 dl ds data r in_len in_pos offset nread i e =
      (idx e.state (offset + i)).bind fun v => (idx data (in_pos + i)).bind fun d =>
        (upd e.state (offset + i) (v ^^^ d)).bind fun st => some { e with state := st } := by
  simp only [Engine.process_src_for2, usizechk_lt h1, usizechk_lt h2, Option.bind_eq_bind, Option.bind_some, Option.pure_def]

theorem process_forRange_eq (dl ds : Nat) (data : Bytes) (r in_len in_pos offset nread : Nat) (hd : data.length < 2 ^ 64) :
    ∀ (n lo : Nat) (e : Engine), in_pos + lo + n ≤ data.length → offset + lo + n < 2 ^ 64 →
    forRange (Engine.process_src_for2 dl ds data r in_len in_pos offset nread) n lo e =
      (xor_in e.state (offset + lo) ((data.drop (in_pos + lo)).take n)).bind fun st => some { e with state := st } := by
  intro n
  induction n with
  | zero => intro lo e _ _; simp [forRange, xor_in_nil']
  | succ n ih =>
    intro lo e h1 h2
    have hlt : in_pos + lo < data.length := by omega
    have hdrop : (data.drop (in_pos + lo)).take (n + 1) = data[in_pos + lo] :: (data.drop (in_pos + (lo + 1))).take n := by
      rw [List.drop_eq_getElem_cons hlt, List.take_succ_cons]; rfl
    rw [hdrop, xor_in_cons_step, forRange, process_for2_eq dl ds data r in_len in_pos offset nread lo e (by omega) (by omega)]
    have hidx : idx data (in_pos + lo) = some data[in_pos + lo] := by simp [idx, hlt]
    cases h3 : idx e.state (offset + lo) with
    | none => simp
    | some v =>
      simp only [Option.bind_some, hidx]
      cases h4 : upd e.state (offset + lo) (v ^^^ data[in_pos + lo]) with
      | none => simp
      | some st =>
        simp only [Option.bind_some]
        rw [ih (lo + 1) _ (by omega) (by omega)]
        rfl

theorem usub_le {a b : Nat} (h : b ≤ a) : usub a b = some (a - b) := by unfold usub; rw [if_pos h]

/-- one iteration of the absorb loop (loop condition true) -/
theorem process_while1_eq (dl ds : Nat) (data : Bytes) (r in_pos : Nat) (e : Engine) (hd : data.length < 2 ^ 64)
    (hr : r < 2 ^ 63) (ho : e.offset < r) (hp : in_pos < data.length) :
    Engine.process_src_while1 dl ds data r data.length (e, in_pos) =
      (xor_in e.state e.offset ((data.drop in_pos).take (min (r - e.offset) (data.length - in_pos)))).bind fun st' =>
        if e.offset + min (r - e.offset) (data.length - in_pos) = r then
          (keccak_f st').bind fun st'' =>
            some (({ e with state := st'', offset := 0 }, in_pos + min (r - e.offset) (data.length - in_pos)), true)
        else some (({ e with state := st', offset := e.offset + min (r - e.offset) (data.length - in_pos) },
                    in_pos + min (r - e.offset) (data.length - in_pos)), false) := by
  generalize hn : min (r - e.offset) (data.length - in_pos) = nread
  have hn1 : nread ≤ r - e.offset := by omega
  have hn2 : nread ≤ data.length - in_pos := by omega
  simp only [Engine.process_src_while1, hp, if_true, usub_le (Nat.le_of_lt ho), usub_le (Nat.le_of_lt hp), Option.bind_eq_bind,
    Option.bind_some, Option.pure_def, hn, Nat.sub_zero]
  rw [process_forRange_eq dl ds data r data.length in_pos e.offset nread hd nread 0 e (by omega) (by omega)]
  simp only [Nat.add_zero]
  cases h1 : xor_in e.state e.offset ((data.drop in_pos).take nread) with
  | none => simp
  | some st' =>
    simp only [Option.bind_some, usizechk_lt (show in_pos + nread < 2 ^ 64 by omega),
      usizechk_lt (show e.offset + nread < 2 ^ 64 by omega)]
    by_cases h2 : e.offset + nread = r
    · simp [h2]
    · simp [h2]

theorem absorb_whileLoop_eq (dl ds : Nat) (data : Bytes) (r : Nat) (hd : data.length < 2 ^ 64) (hr : r < 2 ^ 63) :
    ∀ (fuel : Nat) (e : Engine) (in_pos : Nat), in_pos ≤ data.length → data.length - in_pos < fuel → e.offset < r →
    (whileLoop (Engine.process_src_while1 dl ds data r data.length) fuel (e, in_pos)).bind (fun p => some p.1) =
      (absorb_loop r e.state e.offset (data.drop in_pos)).bind fun p => some { e with state := p.1, offset := p.2 } := by
  intro fuel
  induction fuel with
  | zero => intro e in_pos _ h; omega
  | succ fuel ih =>
    intro e in_pos hle hf ho
    by_cases hp : in_pos < data.length
    · rw [whileLoop, process_while1_eq dl ds data r in_pos e hd hr ho hp, absorb_loop]
      have hne : data.drop in_pos ≠ [] := by
        intro h; have := congrArg List.length h; simp at this; omega
      simp only [hne, dite_false, ho, dite_true, List.length_drop]
      generalize hn : min (r - e.offset) (data.length - in_pos) = nread
      have hn0 : 0 < nread := by omega
      cases h1 : xor_in e.state e.offset ((data.drop in_pos).take nread) with
      | none => simp
      | some st' =>
        simp only [Option.bind_some]
        by_cases h2 : e.offset + nread = r
        · simp only [h2, if_true]
          cases h3 : keccak_f st' with
          | none => simp
          | some st'' =>
            simp only [Option.bind_some]
            rw [ih _ _ (by omega) (by omega) (by simpa using (show 0 < r by omega))]
            simp only [List.drop_drop]
        · simp [h2]
    · have : in_pos = data.length := by omega
      subst this
      rw [whileLoop]
      simp [Engine.process_src_while1, absorb_loop]

theorem rate_le {dl r : Nat} (h : rate dl = some r) : r ≤ 200 := by
  unfold rate at h
  split at h
  · cases h; simp [Cx.Extracted.Sha3.B]
  · cases h


/-! ## SHA-3: the tie lemmas (restated with their documentation in Props/C02/GlueTieSponge.lean) -/

theorem rate_src_eq_model (dl ds : Nat) (e : Engine) : Engine.rate_src dl ds e = rate dl := by
  simp only [Engine.rate_src, rate, usizechk, usub, Cx.Extracted.Sha3.B]
  by_cases h : dl * 2 < 18446744073709551616
  · simp [h]
  · have : ¬ dl * 2 ≤ 200 := by omega
    simp [h, this]


theorem new_src_eq_model (dl ds : Nat) : Engine.new_src dl ds = some Engine.new := rfl

theorem set_domain_sep_src_eq_model (n : Nat) (buf : Bytes) : set_domain_sep_src n buf = set_domain_sep n buf := by
  unfold set_domain_sep_src set_domain_sep
  cases buf with
  | nil => simp
  | cons b t =>
    by_cases hn : n = 0
    · subst hn; simp
    · simp [hn]

theorem pad_len_src_eq_model (ds offset rate : Nat) : pad_len_src ds offset rate = pad_len ds offset rate := by
  unfold pad_len_src pad_len
  by_cases h1 : rate % 8 = 0 <;> by_cases h2 : offset % 8 = 0 <;> simp [h1, h2]
  

theorem set_pad_src_eq_model (ds : Nat) (buf : Bytes) (hb : buf.length < 2 ^ 64) : set_pad_src ds buf = set_pad ds buf := by
  unfold set_pad_src set_pad
  have hm : ds % 8 < 8 := Nat.mod_lt _ (by decide)
  simp only [shlU8, hm, if_true, Option.bind_eq_bind, Option.pure_def, Option.bind_some]
  cases h1 : idx buf (ds / 8) with
  | none => simp
  | some v =>
    simp only [Option.bind_some]
    cases h2 : upd buf (ds / 8) (v ||| 1 <<< UInt8.ofNat (ds % 8)) with
    | none => simp
    | some b1 =>
      have hc : usizechk (ds % 8 + 1) = some (ds % 8 + 1) := by simp [usizechk]; omega
      simp only [Option.bind_some, hc]
      rw [forRange_clear_bits ds ds (ds / 8) buf.length (8 - (ds % 8 + 1)) (ds % 8 + 1) b1 (by omega)]
      cases h3 : clear_bits b1 (ds / 8) (ds % 8 + 1) with
      | none => simp
      | some b2 =>
        simp only [Option.bind_some]
        have hl1 := upd_length h2
        have hl2 := clear_bits_length h3
        have hi := idx_lt h1
        have hc2 : usizechk (ds / 8 + 1) = some (ds / 8 + 1) := by simp [usizechk]; omega
        have hlen : ¬ b2.length < ds / 8 + 1 := by omega
        simp only [hc2, Option.bind_some, sliceFrom, hlen]
        have hle : ds / 8 + 1 ≤ b2.length := by omega
        have hne : ¬ buf.length = 0 := by omega
        have hu : usub buf.length 1 = some (buf.length - 1) := by unfold usub; rw [if_pos (by omega)]
        have hcp : copyInto b2 (ds / 8 + 1) b2.length (zeros (b2.drop (ds / 8 + 1)).length) =
            some (List.take (ds / 8 + 1) b2 ++ zeros (b2.length - (ds / 8 + 1))) := by
          simp [copyInto, hle, zeros]
        simp only [hle, if_true, Option.bind_some, mapM_zero, hcp, hu, if_false, hne]

theorem process_src_eq_model (dl ds : Nat) (e : Engine) (data : Bytes) (hd : data.length < 2 ^ 64) :
    Engine.process_src dl ds e data = e.process dl data := by
  unfold Engine.process_src Engine.process
  rw [rate_src_eq_model]
  cases hca : e.can_absorb with
  | false => simp
  | true =>
    cases hr : rate dl with
    | none => simp
    | some r =>
      have hr200 := rate_le hr
      by_cases ho : e.offset < r
      · have := absorb_whileLoop_eq dl ds data r hd (by omega) (data.length - 0 + 1) e 0 (by omega) (by omega) ho
        simp only [Option.bind_eq_bind, Option.bind_some, Option.pure_def, ho, not_true_eq_false, if_false, Bool.not_true]
        rw [this]
        simp only [List.drop_zero]
        cases absorb_loop r e.state e.offset data with
        | none => simp
        | some p => simp [hca]
      · have : r ≤ e.offset := by omega
        simp [this]

theorem slice_eq {a : Bytes} {lo n : Nat} (h : n + lo ≤ a.length) : slice a lo (n + lo) = some ((a.drop lo).take n) := by
  unfold slice; rw [if_pos ⟨by omega, h⟩]; simp

theorem slice_none {a : Bytes} {lo n : Nat} (h : a.length < n + lo) : slice a lo (n + lo) = none := by
  unfold slice; rw [if_neg (by omega)]

theorem copyInto_eq {dst src : Bytes} {lo n : Nat} (h : n + lo ≤ dst.length) (hs : src.length = n) :
    copyInto dst lo (n + lo) src = some (dst.take lo ++ src ++ dst.drop (lo + n)) := by
  unfold copyInto; rw [if_pos ⟨by omega, h, by omega⟩, Nat.add_comm n lo]

theorem copyInto_none {dst src : Bytes} {lo n : Nat} (h : dst.length < n + lo) : copyInto dst lo (n + lo) src = none := by
  unfold copyInto; rw [if_neg (by omega)]

set_option hygiene false in
/-- the part of one squeeze iteration after `nread = N` is known (common to `DIGESTLEN = 0` and `≠ 0`) -/
macro "squeeze_tail" : tactic => `(tactic| (
  have hN3 : e.offset % r ≤ e.offset := Nat.mod_le _ _
  simp only [usizechk_lt (show N + e.offset % r < 2 ^ 64 by omega), usizechk_lt (show N + in_pos < 2 ^ 64 by omega),
    usizechk_lt (show in_pos + N < 2 ^ 64 by omega), usizechk_lt (show e.offset % r + N < 2 ^ 64 by omega),
    usizechk_lt (show e.offset + N < 2 ^ 64 by omega), Option.bind_some]
  by_cases hs : e.state.length < N + e.offset % r
  · simp [hs, slice_none hs]
  · have hs' : N + e.offset % r ≤ e.state.length := by omega
    simp only [slice_eq hs', Option.bind_some, hs, false_or]
    by_cases ho : out.length < N + in_pos
    · simp [ho, copyInto_none ho]
    · have ho' : N + in_pos ≤ out.length := by omega
      have hlen : ((e.state.drop (e.offset % r)).take N).length = N := by simp; omega
      simp only [copyInto_eq ho' hlen, Option.bind_some, ho, if_false]
      by_cases hfull : e.offset % r + N = r
      · simp only [hfull, not_true_eq_false, if_false, dite_true, ite_D, Option.bind_some,
          usizechk_lt (show e.offset + N < 2 ^ 64 by omega)]
        cases hk : keccak_f e.state with
        | none => simp
        | some st'' =>
          simp only [Option.bind_some]
          rw [ih _ _ _ (by omega) (by omega) (by first | exact fun h0 => absurd h0 hD1 | (intro _; show 0 < r; omega))]
      · simp [hfull]))

theorem squeeze_whileLoop_eq (D ds r in_len : Nat) (hr : r < 2 ^ 63) (hD : D < 2 ^ 63) (hl : in_len < 2 ^ 64) :
    ∀ (fuel : Nat) (e : Engine) (in_pos : Nat) (out : Bytes), in_pos ≤ in_len → in_len - in_pos < fuel →
      (D = 0 → e.offset < r) →
    (whileLoop (Engine.output_src_while1 D ds r in_len) fuel (out, in_pos, e)).bind (fun p => some (p.2.2, p.1)) =
      squeeze_loop D r e in_len in_pos out := by
  intro fuel
  induction fuel with
  | zero => intro e in_pos out _ h; omega
  | succ fuel ih =>
    intro e in_pos out hle hf hD0
    rw [whileLoop, squeeze_loop]
    by_cases hp : in_pos < in_len
    · simp only [Engine.output_src_while1, hp, if_true, dite_true, Option.bind_eq_bind, Option.pure_def]
      by_cases hr0 : r = 0
      · simp [hr0, urem]
      · have hmod : e.offset % r < r := Nat.mod_lt _ (Nat.pos_of_ne_zero hr0)
        simp only [hr0, dite_false, urem, if_false, Option.bind_some, usub_le (Nat.le_of_lt hmod), usub_le (Nat.le_of_lt hp)]
        unfold squeeze_nread
        by_cases hD1 : D = 0
        · have ho := hD0 hD1
          have ite_D : ∀ {α : Type} (a b : α), (if D = 0 then a else b) = a := fun a b => if_pos hD1
          simp only [ne_eq, if_neg (not_not_intro hD1), Option.bind_some]
          generalize hN : min (r - e.offset % r) (in_len - in_pos) = N
          have hN1 : N ≤ r - e.offset % r := by omega
          have hN2 : N ≤ in_len - in_pos := by omega
          have hme : e.offset % r = e.offset := Nat.mod_eq_of_lt ho
          squeeze_tail
        · have ite_D : ∀ {α : Type} (a b : α), (if D = 0 then a else b) = b := fun a b => if_neg hD1
          simp only [ne_eq, hD1, not_false_eq_true, if_true]
          by_cases hDo : D < e.offset
          · have h' : ¬ e.offset ≤ D := by omega
            simp [hDo, usub, h']
          · simp only [hDo, if_false, usub_le (show e.offset ≤ D by omega), Option.bind_some]
            generalize hN : min (min (r - e.offset % r) (in_len - in_pos)) (D - e.offset) = N
            have hN1 : N ≤ r - e.offset % r := by omega
            have hN2 : N ≤ in_len - in_pos := by omega
            have hN4 : N ≤ D - e.offset := by omega
            squeeze_tail
    · have : in_pos = in_len := by omega
      subst this
      simp [Engine.output_src_while1]

/-- `Engine.output` writing into a caller-supplied buffer `out` (the hand model `Engine.output` fixes `out = zeros out_len`;
    everything else is its text) -/
def outputOn (DIGESTLEN DSLEN : Nat) (e : Engine) (out : Bytes) : Option (Engine × Bytes) := do
  if !e.can_squeeze then none else
  let e ← if e.can_absorb then e.finalize DIGESTLEN DSLEN else pure e
  let r ← rate DIGESTLEN
  if ¬ (if DIGESTLEN != 0 then e.offset < DIGESTLEN else e.offset < r) then none else
  let (e, out) ← squeeze_loop DIGESTLEN r e out.length 0 out
  let e := if DIGESTLEN != 0 && DIGESTLEN == e.offset then { e with can_squeeze := false } else e
  pure (e, out)

theorem output_eq_outputOn (D ds : Nat) (e : Engine) (n : Nat) : e.output D ds n = outputOn D ds e (zeros n) := by
  unfold Engine.output outputOn
  rw [show (zeros n).length = n from by simp [zeros]]

theorem rate_dl {dl r : Nat} (h : rate dl = some r) : dl * 2 ≤ 200 := by
  unfold rate at h; split at h
  · simpa [Cx.Extracted.Sha3.B] using ‹_›
  · cases h
theorem finalize_src_eq_model (dl ds : Nat) (e : Engine) : Engine.finalize_src dl ds e = e.finalize dl ds := by
  unfold Engine.finalize_src Engine.finalize
  rw [rate_src_eq_model]
  cases hca : e.can_absorb with
  | false => simp
  | true =>
    simp only [not_true_eq_false, if_false, Bool.not_true, Option.bind_eq_bind, Option.pure_def, Bool.false_eq_true]
    cases hr : rate dl with
    | none => cases usizechk (e.offset * 8) <;> simp
    | some r =>
      have hr200 := rate_le hr
      have hdl : dl * 2 ≤ 200 := by
        unfold rate at hr; split at hr
        · simpa [Cx.Extracted.Sha3.B] using ‹_›
        · cases hr
      cases ho : usizechk (e.offset * 8) with
      | none => simp
      | some o8 =>
        simp only [Option.bind_some, pad_len_src_eq_model]
        cases hr8 : usizechk (r * 8) with
        | none => simp
        | some r8 =>
          simp only [Option.bind_some]
          cases hp : pad_len ds o8 r8 with
          | none => simp
          | some p_len =>
            have hpl := pad_len_lt hp
            simp only [Option.bind_some]
            have hz : List.replicate p_len (0 : UInt8) = zeros p_len := rfl
            rw [hz]
            have hzl : (zeros p_len).length = p_len := by simp [zeros]
            have tail : ∀ p1 : Bytes, p1.length = p_len →
                ((set_pad_src ds p1).bind fun p => (Engine.process_src dl ds e p).bind fun self =>
                  some ({ state := self.state, can_absorb := false, can_squeeze := self.can_squeeze, offset := self.offset } : Engine)) =
                ((set_pad ds p1).bind fun p => (Engine.process dl e p).bind fun self =>
                  some ({ state := self.state, can_absorb := false, can_squeeze := self.can_squeeze, offset := self.offset } : Engine)) := by
              intro p1 hl1
              rw [set_pad_src_eq_model ds p1 (by omega)]
              cases hp2 : set_pad ds p1 with
              | none => simp
              | some p2 =>
                have hl2 := set_pad_length hp2
                simp only [Option.bind_some]
                rw [process_src_eq_model dl ds e p2 (by omega)]
            by_cases hds : ds = 0
            · subst hds
              simp only [ne_eq, not_true_eq_false, if_false, Option.bind_some, bne_self_eq_false, Bool.false_eq_true]
              exact tail _ hzl
            · have hb : (ds != 0) = true := by simp [hds]
              simp only [ne_eq, hds, not_false_eq_true, if_true, hb, usizechk_lt (show dl * 8 < 2 ^ 64 by omega), Option.bind_some,
                set_domain_sep_src_eq_model]
              cases hp1 : set_domain_sep (dl * 8) (zeros p_len) with
              | none => simp
              | some p1 =>
                simp only [Option.bind_some]
                exact tail p1 (by rw [set_domain_sep_length hp1, hzl])

theorem reset_src_eq_model (dl ds : Nat) (e : Engine) : Engine.reset_src dl ds e = some e.reset := rfl

set_option hygiene false in
/-- `output` after the optional `finalize` (engine `e1`) -/
macro "output_core" : tactic => `(tactic| (
  cases hr : rate D with
  | none => simp
  | some r =>
    have hr200 := rate_le hr
    have hdl := rate_dl hr
    simp only [Option.bind_some]
    by_cases hD : D = 0
    · subst hD
      by_cases hoff : e1.offset < r
      · simp only [ne_eq, not_true_eq_false, if_false, hoff, if_true, Option.bind_some, bne_self_eq_false,
          Bool.false_eq_true, Bool.false_and, Nat.sub_zero]
        rw [← squeeze_whileLoop_eq 0 ds r out.length (by omega) (by omega) ho (out.length + 1) e1 0 out (by omega) (by omega)
          (fun _ => hoff)]
        cases whileLoop (Engine.output_src_while1 0 ds r out.length) (out.length + 1) (out, 0, e1) with
        | none => simp
        | some p => simp
      · simp [hoff]
    · have hb : (D != 0) = true := by simp [hD]
      by_cases hoff : e1.offset < D
      · simp only [ne_eq, hD, not_false_eq_true, if_true, hoff, not_true_eq_false, if_false, Option.bind_some, hb,
          Bool.true_and, Nat.sub_zero]
        rw [← squeeze_whileLoop_eq D ds r out.length (by omega) (by omega) ho (out.length + 1) e1 0 out (by omega) (by omega)
          (fun h => absurd h hD)]
        cases whileLoop (Engine.output_src_while1 D ds r out.length) (out.length + 1) (out, 0, e1) with
        | none => simp
        | some p =>
          simp only [Option.bind_some]
          by_cases hfin : D = p.2.2.offset
          · simp [hfin]
          · simp [hfin]
      · simp [hoff, hD]))

theorem output_src_eq_outputOn (D ds : Nat) (e : Engine) (out : Bytes) (ho : out.length < 2 ^ 64) :
    Engine.output_src D ds e out = outputOn D ds e out := by
  unfold Engine.output_src outputOn
  cases hcs : e.can_squeeze with
  | false => simp
  | true =>
    simp only [not_true_eq_false, if_false, Bool.not_true, Bool.false_eq_true, Option.bind_eq_bind, Option.pure_def,
      finalize_src_eq_model, rate_src_eq_model]
    cases hca : e.can_absorb with
    | false =>
      simp only [Bool.false_eq_true, if_false, Option.bind_some]
      obtain ⟨e1, rfl⟩ : ∃ e1, e1 = e := ⟨e, rfl⟩
      output_core
    | true =>
      simp only [if_true]
      cases hf : e.finalize D ds with
      | none => simp
      | some e1 =>
        simp only [Option.bind_some]
        output_core

/-- when `rate` panics (`DIGESTLEN * 2 > B`) so does `output`, in the model and in the source -/
theorem outputOn_none_of_rate (D ds : Nat) (e : Engine) (out : Bytes) (h : rate D = none) : outputOn D ds e out = none := by
  unfold outputOn Engine.finalize
  cases e.can_squeeze <;> cases e.can_absorb <;> simp [h]

theorem output_src_none_of_rate (D ds : Nat) (e : Engine) (out : Bytes) (h : rate D = none) :
    Engine.output_src D ds e out = none := by
  unfold Engine.output_src
  simp only [finalize_src_eq_model, rate_src_eq_model]
  unfold Engine.finalize
  cases e.can_squeeze <;> cases e.can_absorb <;> simp [h]

/-- `fn output` on a fresh buffer of any length — the form the contexts use — is the hand model's `Engine.output` -/
theorem output_src_zeros (D ds : Nat) (e : Engine) (n : Nat) (hn : n < 2 ^ 64) :
    Engine.output_src D ds e (zeros n) = e.output D ds n := by
  rw [output_eq_outputOn]
  exact output_src_eq_outputOn D ds e (zeros n) (by simpa [zeros] using hn)

/-- … and with `out = [0; DIGESTLEN]` unconditionally (a `DIGESTLEN` that does not fit `usize` makes `rate` panic first) -/
theorem output_src_digest (D ds : Nat) (e : Engine) : Engine.output_src D ds e (zeros D) = e.output D ds D := by
  cases hr : rate D with
  | none => rw [output_eq_outputOn, outputOn_none_of_rate D ds e _ hr, output_src_none_of_rate D ds e _ hr]
  | some r => have := rate_dl hr; exact output_src_zeros D ds e D (by omega)

theorem ctx_new_src_eq_model (dl : Nat) : Context.new_src dl = some Context.new := rfl

theorem ctx_update_mut_src_eq_model (dl : Nat) (c : Context) (data : Bytes) (hd : data.length < 2 ^ 64) :
    Context.update_mut_src dl c data = Context.update_mut dl c data := by
  unfold Context.update_mut_src Context.update_mut
  rw [process_src_eq_model dl 2 c data hd]

theorem ctx_update_src_eq_model (dl : Nat) (c : Context) (data : Bytes) (hd : data.length < 2 ^ 64) :
    Context.update_src dl c data = Context.update dl c data := by
  unfold Context.update_src Context.update
  rw [process_src_eq_model dl 2 c data hd]

theorem ctx_finalize_reset_src_eq_model (dl : Nat) (c : Context) :
    Context.finalize_reset_src dl c = Context.finalize_reset dl 2 c := by
  unfold Context.finalize_reset_src Context.finalize_reset
  show (Engine.output_src dl 2 c (zeros dl)).bind _ = _
  rw [output_src_digest]
  cases Engine.output dl 2 c dl with
  | none => rfl
  | some p => rfl

theorem ctx_finalize_src_eq_model (dl : Nat) (c : Context) : Context.finalize_src dl c = Context.finalize dl 2 c := by
  unfold Context.finalize_src Context.finalize
  show (Engine.output_src dl 2 c (zeros dl)).bind _ = _
  rw [output_src_digest]
  cases Engine.output dl 2 c dl with
  | none => rfl
  | some p => rfl

theorem ctx_reset_src_eq_model (dl : Nat) (c : Context) : Context.reset_src dl c = some (Context.reset c) := rfl

theorem alg_new_src_eq_model (dl : Nat) : Algorithm.new_src dl = some Context.new := rfl

end Sha3Part

/-! ## BLAKE2b / BLAKE2s: engines, `Context<BITS>`, `ContextDyn` -/

section Blake2Part
open Cx.Impl.Blake2
open Cx.Impl.Sha3 (usizechk idx upd)
open Cx.Proofs.Blake2 (Inv)

/-! ### slices against the model's `setSlice` / `zeroFrom` -/

theorem slice_take {a : Bytes} {n : Nat} (h : n ≤ a.length) : slice a 0 n = some (a.take n) := by
  unfold slice; rw [if_pos ⟨by omega, h⟩]; simp

theorem slice_to_end {a : Bytes} {lo : Nat} (h : lo ≤ a.length) : slice a lo a.length = some (a.drop lo) := by
  unfold slice; rw [if_pos ⟨h, Nat.le_refl _⟩]
  rw [List.take_of_length_le (by simp)]

theorem sliceFrom_eq {a : Bytes} {lo : Nat} (h : lo ≤ a.length) : sliceFrom a lo = some (a.drop lo) := by
  unfold sliceFrom; rw [if_pos h]

theorem copyInto_setSlice {buf src : Bytes} {off hi : Nat} (hhi : hi = off + src.length) (h : off + src.length ≤ buf.length) :
    copyInto buf off hi src = some (setSlice buf off src) := by
  subst hhi
  unfold copyInto setSlice; rw [if_pos ⟨by omega, h, by omega⟩]

theorem copyInto_zeroFrom {buf : Bytes} {lo n : Nat} (h : lo ≤ buf.length) (hn : n = (buf.drop lo).length) :
    copyInto buf lo buf.length (zeros n) = some (zeroFrom buf lo) := by
  subst hn
  unfold copyInto zeroFrom
  rw [if_pos ⟨h, Nat.le_refl _, by simp [zeros]⟩]
  simp

theorem copyInto_all {dst src : Bytes} (h : src.length = dst.length) : copyInto dst 0 dst.length src = some src := by
  unfold copyInto; rw [if_pos ⟨by omega, Nat.le_refl _, by omega⟩]; simp

theorem copyInto_all_none {dst src : Bytes} (h : src.length ≠ dst.length) : copyInto dst 0 dst.length src = none := by
  unfold copyInto; rw [if_neg (by omega)]

/-- what the model's block loop leaves over fits the buffer -/
theorem update_loop_rest {W : Type} [Cx.Spec.Blake2.Word W] (P : Cx.Spec.Blake2.Params W) (pr : Profile) (hbb : 0 < P.bb) :
    ∀ (n : Nat) (e : Engine W) (input : Bytes) (e' : Engine W) (rest : Bytes), input.length ≤ n →
      Ctx.update_loop P pr n e input = some (e', rest) → rest.length ≤ P.bb ∧ rest.length ≤ input.length := by
  intro n
  induction n with
  | zero =>
    intro e input e' rest hn h
    simp only [Ctx.update_loop, Option.some.injEq, Prod.mk.injEq] at h
    obtain ⟨_, rfl⟩ := h
    omega
  | succ n ih =>
    intro e input e' rest hn h
    rw [Ctx.update_loop] at h
    split at h
    · rename_i hgt
      cases hinc : Engine.increment_counter pr e P.bb with
      | none => simp [hinc] at h
      | some e1 =>
        simp only [hinc] at h
        have := ih _ _ _ _ (by simp; omega) h
        simp at this
        omega
    · simp only [Option.some.injEq, Prod.mk.injEq] at h
      obtain ⟨_, rfl⟩ := h
      omega

namespace B
open Cx.Extracted.GlueSponge.Blake2b

theorem consts_src_eq_model : Engine.BLOCK_BYTES_src = b.bb ∧ Engine.MAX_OUTLEN_src = b.maxOut ∧ Engine.MAX_KEYLEN_src = b.maxKey ∧
    Engine.BLOCK_BYTES_NATIVE_src = b.bb := ⟨rfl, rfl, rfl, by decide⟩

theorem engine_new_src_eq_model (outlen keylen : Nat) : Engine.new_src outlen keylen = Engine.new b outlen keylen := by
  unfold Engine.new_src Engine.new
  by_cases h1 : outlen > 0 <;> by_cases h2 : outlen ≤ b.maxOut <;> by_cases h3 : keylen ≤ b.maxKey <;> simp [h1, h2, h3] <;> rfl

theorem engine_reset_src_eq_model (e : Engine UInt64) (outlen keylen : Nat) :
    Engine.reset_src e outlen keylen = some (Engine.reset b e outlen keylen) := rfl

theorem engine_increment_counter_src_eq_model (e : Engine UInt64) (inc : Nat) :
    Engine.increment_counter_src e inc = Engine.increment_counter .wrapping e inc := rfl


theorem bb_eq : b.bb = 128 := rfl
theorem maxOut_eq : b.maxOut = 64 := rfl
theorem maxKey_eq : b.maxKey = 64 := rfl

theorem ctx_new_keyed_src_eq_model (BITS : Nat) (key : Bytes) : Context.new_keyed_src BITS key = Context.new_keyed b BITS key := by
  unfold Context.new_keyed_src Context.new_keyed Ctx.new_keyed Context.outlen
  simp only [consts_src_eq_model.1, consts_src_eq_model.2.1, consts_src_eq_model.2.2.1]
  by_cases hB : BITS + 7 < 2 ^ 64
  · simp only [usizechk_lt hB, Option.bind_eq_bind, Option.bind_some, Option.pure_def, engine_new_src_eq_model]
    by_cases h1 : BITS > 0
    · by_cases h2 : (BITS + 7) / 8 ≤ b.maxOut
      · by_cases h3 : key.length ≤ b.maxKey
        · have h4 : (BITS + 7) / 8 > 0 := by omega
          simp only [h1, h2, h3, h4, and_self, not_true_eq_false, if_false]
          cases Engine.new b ((BITS + 7) / 8) key.length with
          | none => rfl
          | some eng =>
            simp only [Option.bind_some]
            by_cases hk : key.isEmpty = true
            · simp [hk]
            · have : copyInto (zeros b.bb) 0 key.length key = some (setSlice (zeros b.bb) 0 key) :=
                copyInto_setSlice (by simp) (by rw [maxKey_eq] at h3; simp [zeros, bb_eq]; omega)
              simp [hk, this]
        · simp [h1, h2, h3]
      · simp [h1, h2]
    · simp [h1]
  · have : ¬ (BITS + 7) / 8 ≤ b.maxOut := by rw [maxOut_eq]; omega
    have h' : usizechk (BITS + 7) = none := by unfold usizechk; rw [if_neg (by omega)]
    by_cases h1 : BITS > 0 <;> simp [h1, this, h']


theorem ctx_new_src_eq_model (BITS : Nat) : Context.new_src BITS = Context.new b BITS := by
  unfold Context.new_src Context.new Context.outlen
  simp only [consts_src_eq_model.2.1, ctx_new_keyed_src_eq_model]
  by_cases hB : BITS + 7 < 2 ^ 64
  · simp only [usizechk_lt hB, Option.bind_eq_bind, Option.bind_some, Option.pure_def]
    by_cases h1 : BITS > 0 <;> by_cases h2 : (BITS + 7) / 8 ≤ b.maxOut <;> simp [h1, h2]
  · have : ¬ (BITS + 7) / 8 ≤ b.maxOut := by rw [maxOut_eq]; omega
    have h' : usizechk (BITS + 7) = none := by unfold usizechk; rw [if_neg (by omega)]
    by_cases h1 : BITS > 0 <;> simp [h1, this, h']

/-- the `while input.len() > BLOCK_BYTES` loop of `update_mut` against the model's fuel recursion -/
theorem ctx_update_loop_eq (BITS fill : Nat) : ∀ (m n : Nat) (c : Ctx UInt64) (input : Bytes), input.length < m → input.length ≤ n →
    whileLoop (Context.update_mut_src_while1 BITS fill) m (c, input) =
      (Ctx.update_loop b .wrapping n c.eng input).bind fun p => some ({ c with eng := p.1 }, p.2) := by
  intro m
  induction m with
  | zero => intro n c input h; omega
  | succ m ih =>
    intro n c input hm hn
    rw [whileLoop]
    simp only [Context.update_mut_src_while1, consts_src_eq_model.1, consts_src_eq_model.2.2.2, engine_increment_counter_src_eq_model,
      Option.bind_eq_bind, Option.pure_def]
    by_cases hlen : input.length > b.bb
    · have hbb := bb_eq
      cases n with
      | zero => omega
      | succ n =>
        rw [Ctx.update_loop]
        simp only [hlen, if_true]
        cases hinc : Engine.increment_counter Profile.wrapping c.eng b.bb with
        | none => simp
        | some e1 =>
          simp only [Option.bind_some, slice_take (Nat.le_of_lt hlen), sliceFrom_eq (Nat.le_of_lt hlen)]
          rw [ih n _ _ (by simp; omega) (by simp; omega)]
    · simp only [hlen, if_false, Option.bind_some]
      cases n with
      | zero => simp [Ctx.update_loop]
      | succ n => simp [Ctx.update_loop, hlen]


theorem ctx_update_mut_src_eq_model (BITS : Nat) (c : Ctx UInt64) (input : Bytes) (hi : Inv b c) :
    Context.update_mut_src BITS c input = Context.update_mut b .wrapping c input := by
  obtain ⟨hbl, hle⟩ := hi
  have hbb := bb_eq
  unfold Context.update_mut_src Context.update_mut Ctx.update_mut
  simp only [consts_src_eq_model.1, consts_src_eq_model.2.2.2, engine_increment_counter_src_eq_model, Option.bind_eq_bind,
    Option.pure_def]
  by_cases he : input.isEmpty = true
  · simp [he]
  · simp only [he, if_false, usub_le hle, Option.bind_some, Bool.false_eq_true]
    by_cases hfill : input.length > b.bb - c.buflen
    · simp only [hfill, if_true]
      have h1 : slice input 0 (b.bb - c.buflen) = some (input.take (b.bb - c.buflen)) := slice_take (Nat.le_of_lt hfill)
      have h2 : usizechk (c.buflen + (b.bb - c.buflen)) = some (c.buflen + (b.bb - c.buflen)) := usizechk_lt (by omega)
      have h3 : copyInto c.buf c.buflen (c.buflen + (b.bb - c.buflen)) (input.take (b.bb - c.buflen)) =
          some (setSlice c.buf c.buflen (input.take (b.bb - c.buflen))) :=
        copyInto_setSlice (by simp; omega) (by simp; omega)
      simp only [h1, h2, h3, Option.bind_some]
      cases hinc : Engine.increment_counter Profile.wrapping c.eng b.bb with
      | none => simp
      | some e1 =>
        have hsl : (setSlice c.buf c.buflen (input.take (b.bb - c.buflen))).length = c.buf.length :=
          Cx.Proofs.Blake2.setSlice_length _ _ _ (by simp; omega)
        simp only [Option.bind_some, slice_take (show b.bb ≤ (setSlice c.buf c.buflen (input.take (b.bb - c.buflen))).length by omega),
          sliceFrom_eq (Nat.le_of_lt hfill)]
        rw [ctx_update_loop_eq BITS (b.bb - c.buflen) _ (input.drop (b.bb - c.buflen)).length _ _ (by omega) (Nat.le_refl _)]
        cases hloop : Ctx.update_loop b Profile.wrapping (input.drop (b.bb - c.buflen)).length
            (Engine.compress b e1 (List.take b.bb (setSlice c.buf c.buflen (input.take (b.bb - c.buflen)))) LastBlock.No)
            (input.drop (b.bb - c.buflen)) with
        | none => simp
        | some p =>
          obtain ⟨e2, rest⟩ := p
          have hrest := update_loop_rest b Profile.wrapping (by decide) _ _ _ _ _ (Nat.le_refl _) hloop
          have h5 : usizechk (0 + rest.length) = some (0 + rest.length) := usizechk_lt (by omega)
          have h6 : copyInto (setSlice c.buf c.buflen (input.take (b.bb - c.buflen))) 0 (0 + rest.length) rest =
              some (setSlice (setSlice c.buf c.buflen (input.take (b.bb - c.buflen))) 0 rest) :=
            copyInto_setSlice rfl (by omega)
          simp only [Option.bind_some, h5, h6]
    · simp only [hfill, if_false, Option.bind_some]
      have h2 : usizechk (c.buflen + input.length) = some (c.buflen + input.length) := usizechk_lt (by omega)
      have h3 : copyInto c.buf c.buflen (c.buflen + input.length) input = some (setSlice c.buf c.buflen input) :=
        copyInto_setSlice rfl (by omega)
      simp only [h2, h3, Option.bind_some]


theorem ctx_update_src_eq_model (BITS : Nat) (c : Ctx UInt64) (input : Bytes) (hi : Inv b c) :
    Context.update_src BITS c input = Context.update b .wrapping c input := by
  unfold Context.update_src Context.update
  rw [ctx_update_mut_src_eq_model BITS c input hi]
  unfold Context.update_mut
  cases Ctx.update_mut b Profile.wrapping c input <;> rfl

theorem toLE_eq_u64le : (Cx.Spec.Blake2.toLE : UInt64 → Bytes) = u64le := rfl

theorem ctx_internal_final_src_eq_model (BITS : Nat) (c : Ctx UInt64) (hi : Inv b c) :
    Context.internal_final_src BITS c = Ctx.internal_final b .wrapping c := by
  obtain ⟨hbl, hle⟩ := hi
  have hbb := bb_eq
  unfold Context.internal_final_src Ctx.internal_final
  simp only [consts_src_eq_model.1, engine_increment_counter_src_eq_model, Option.bind_eq_bind, Option.pure_def]
  have hw : Cx.Spec.Blake2.Word.bits UInt64 = 64 := rfl
  rw [hw]
  cases hinc : Engine.increment_counter Profile.wrapping c.eng (c.buflen % 2 ^ 64) with
  | none => rfl
  | some e1 =>
    have hzl : (zeroFrom c.buf c.buflen).length = c.buf.length := Cx.Proofs.Blake2.zeroFrom_length _ _ (by omega)
    simp only [Option.bind_some, slice_to_end (show c.buflen ≤ c.buf.length by omega),
      copyInto_zeroFrom (show c.buflen ≤ c.buf.length by omega) rfl,
      slice_take (show b.bb ≤ (zeroFrom c.buf c.buflen).length by omega),
      slice_take (show 64 ≤ (zeroFrom c.buf c.buflen).length by omega)]
    have hlen : ((Engine.compress b e1 (List.take b.bb (zeroFrom c.buf c.buflen)) LastBlock.Yes).h.toList.flatMap u64le).length = 64 := by
      rw [← toLE_eq_u64le, Cx.Proofs.Blake2.hbytes_length]; rfl
    have hw8 : write_u64v_le (List.take 64 (zeroFrom c.buf c.buflen))
        (Engine.compress b e1 (List.take b.bb (zeroFrom c.buf c.buflen)) LastBlock.Yes).h.toList =
        some ((Engine.compress b e1 (List.take b.bb (zeroFrom c.buf c.buflen)) LastBlock.Yes).h.toList.flatMap u64le) := by
      unfold write_u64v_le
      rw [if_pos (by simp; omega)]
    simp only [hw8, Option.bind_some]
    rw [copyInto_setSlice (by rw [hlen]) (by rw [hlen]; omega)]
    rfl


theorem zero_all (buf : Bytes) : (slice buf 0 buf.length).bind (fun t => copyInto buf 0 buf.length (zeros t.length)) = some (zeroFrom buf 0) := by
  rw [slice_to_end (Nat.zero_le _)]
  simp only [Option.bind_some]
  exact copyInto_zeroFrom (Nat.zero_le _) rfl

theorem ctx_reset_src_eq_model (BITS : Nat) (c : Ctx UInt64) (hB : BITS + 7 < 2 ^ 64) :
    Context.reset_src BITS c = some (Context.reset b BITS c) := by
  unfold Context.reset_src Context.reset Ctx.reset Context.outlen
  have hz := zero_all c.buf
  rw [slice_to_end (Nat.zero_le _)] at hz
  simp only [Option.bind_some] at hz
  simp only [usizechk_lt hB, engine_reset_src_eq_model, Option.bind_eq_bind, Option.bind_some, Option.pure_def,
    slice_to_end (Nat.zero_le _), hz]

theorem ctx_reset_with_key_src_eq_model (BITS : Nat) (c : Ctx UInt64) (key : Bytes) (hi : Inv b c) (hB : BITS + 7 < 2 ^ 64) :
    Context.reset_with_key_src BITS c key = Context.reset_with_key b BITS c key := by
  obtain ⟨hbl, hle⟩ := hi
  have hbb := bb_eq
  unfold Context.reset_with_key_src Context.reset_with_key Ctx.reset_with_key Context.outlen
  have hz := zero_all c.buf
  rw [slice_to_end (Nat.zero_le _)] at hz
  simp only [Option.bind_some] at hz
  simp only [usizechk_lt hB, engine_reset_src_eq_model, Option.bind_eq_bind, Option.bind_some, Option.pure_def,
    slice_to_end (Nat.zero_le _), hz, consts_src_eq_model.1, consts_src_eq_model.2.2.1]
  by_cases hk : key.length ≤ b.maxKey
  · simp only [hk, not_true_eq_false, if_false]
    by_cases hke : key.isEmpty = true
    · simp [hke]
    · have hzl : (zeroFrom c.buf 0).length = c.buf.length := Cx.Proofs.Blake2.zeroFrom_length _ _ (by omega)
      have : copyInto (zeroFrom c.buf 0) 0 key.length key = some (setSlice (zeroFrom c.buf 0) 0 key) :=
        copyInto_setSlice (by simp) (by rw [maxKey_eq] at hk; omega)
      simp [hke, this]
  · simp [hk]

/-- shape of the buffer after the model's `internal_final` -/
theorem internal_final_shape (c c' : Ctx UInt64) (hi : Inv b c) (h : Ctx.internal_final b .wrapping c = some c') : Inv b c' := by
  obtain ⟨hbl, hle⟩ := hi
  have hbb := bb_eq
  unfold Ctx.internal_final at h
  split at h
  · cases h
  · cases h
    have hzl : (zeroFrom c.buf c.buflen).length = c.buf.length := Cx.Proofs.Blake2.zeroFrom_length _ _ (by omega)
    refine ⟨?_, hle⟩
    show (setSlice _ 0 _).length = _
    rw [Cx.Proofs.Blake2.setSlice_length _ _ _ (by rw [Cx.Proofs.Blake2.hbytes_length]; show 0 + 8 * 8 ≤ _; omega), hzl, hbl]

theorem ctx_finalize_at_src_eq_model (BITS : Nat) (c : Ctx UInt64) (out : Bytes) (hi : Inv b c) (hB : (BITS + 7) / 8 ≤ b.maxOut) :
    Context.finalize_at_src BITS c out = Context.finalize_at b .wrapping BITS c out.length := by
  have hmo := maxOut_eq
  have hbb := bb_eq
  unfold Context.finalize_at_src Context.finalize_at Ctx.finalize_at Context.outlen
  simp only [usizechk_lt (show BITS + 7 < 2 ^ 64 by omega), ctx_internal_final_src_eq_model BITS c hi, Option.bind_eq_bind,
    Option.bind_some, Option.pure_def]
  by_cases hl : out.length = (BITS + 7) / 8
  · simp only [hl, not_true_eq_false, if_false, ne_eq]
    cases hf : Ctx.internal_final b Profile.wrapping c with
    | none => rfl
    | some c' =>
      have hi' := internal_final_shape c c' hi hf
      simp only [Option.bind_some]
      rw [← hl, slice_take (by rw [hi'.1]; omega)]
      simp only [Option.bind_some]
      rw [copyInto_all (by simp; rw [hi'.1]; omega)]
  · simp [hl]


/-- the common prefix of the three `finalize_*_at`: assert, `internal_final`, copy the digest out -/
theorem ctx_finalize_prefix (c : Ctx UInt64) (out : Bytes) (hi : Inv b c) (hB : out.length ≤ b.maxOut) (c' : Ctx UInt64)
    (hf : Ctx.internal_final b .wrapping c = some c') :
    (slice c'.buf 0 out.length).bind (fun t3 => copyInto out 0 out.length t3) = some (c'.buf.take out.length) := by
  have hmo := maxOut_eq
  have hbb := bb_eq
  have hi' := internal_final_shape c c' hi hf
  rw [slice_take (by rw [hi'.1]; omega)]
  simp only [Option.bind_some]
  rw [copyInto_all (by simp; rw [hi'.1]; omega)]

theorem ctx_finalize_reset_at_src_eq_model (BITS : Nat) (c : Ctx UInt64) (out : Bytes) (hi : Inv b c) (hB : (BITS + 7) / 8 ≤ b.maxOut) :
    Context.finalize_reset_at_src BITS c out = Context.finalize_reset_at b .wrapping BITS c out.length := by
  have hmo := maxOut_eq
  unfold Context.finalize_reset_at_src Context.finalize_reset_at Ctx.finalize_reset_at Context.outlen
  simp only [usizechk_lt (show BITS + 7 < 2 ^ 64 by omega), ctx_internal_final_src_eq_model BITS c hi, Option.bind_eq_bind,
    Option.bind_some, Option.pure_def]
  by_cases hl : out.length = (BITS + 7) / 8
  · simp only [hl, not_true_eq_false, if_false, ne_eq]
    cases hf : Ctx.internal_final b Profile.wrapping c with
    | none => rfl
    | some c' =>
      have hp := ctx_finalize_prefix c out hi (by omega) c' hf
      rw [hl] at hp
      simp only [Option.bind_some]
      cases hs : slice c'.buf 0 ((BITS + 7) / 8) with
      | none => simp [hs] at hp
      | some t3 =>
        simp only [hs, Option.bind_some] at hp
        simp only [Option.bind_some, hp, ctx_reset_src_eq_model BITS c' (by omega)]
        rfl
  · simp [hl]

theorem ctx_finalize_reset_with_key_at_src_eq_model (BITS : Nat) (c : Ctx UInt64) (key out : Bytes) (hi : Inv b c)
    (hB : (BITS + 7) / 8 ≤ b.maxOut) :
    Context.finalize_reset_with_key_at_src BITS c key out = Context.finalize_reset_with_key_at b .wrapping BITS c key out.length := by
  have hmo := maxOut_eq
  unfold Context.finalize_reset_with_key_at_src Context.finalize_reset_with_key_at Ctx.finalize_reset_with_key_at Context.outlen
  simp only [usizechk_lt (show BITS + 7 < 2 ^ 64 by omega), ctx_internal_final_src_eq_model BITS c hi, Option.bind_eq_bind,
    Option.bind_some, Option.pure_def]
  by_cases hl : out.length = (BITS + 7) / 8
  · simp only [hl, not_true_eq_false, if_false, ne_eq]
    cases hf : Ctx.internal_final b Profile.wrapping c with
    | none => rfl
    | some c' =>
      have hp := ctx_finalize_prefix c out hi (by omega) c' hf
      have hi' := internal_final_shape c c' hi hf
      rw [hl] at hp
      simp only [Option.bind_some]
      cases hs : slice c'.buf 0 ((BITS + 7) / 8) with
      | none => simp [hs] at hp
      | some t3 =>
        simp only [hs, Option.bind_some] at hp
        simp only [Option.bind_some, hp, ctx_reset_with_key_src_eq_model BITS c' key hi' (by omega)]
        unfold Context.reset_with_key Context.outlen
        cases Ctx.reset_with_key b c' ((BITS + 7) / 8) key <;> rfl
  · simp [hl]

theorem ctx_finalize_src_eq_model (BITS : Nat) (c : Ctx UInt64) (hi : Inv b c) (hB : (BITS + 7) / 8 ≤ b.maxOut) :
    Context.finalize_src BITS c = Context.finalize b .wrapping BITS c := by
  unfold Context.finalize_src Context.finalize
  simp only [ctx_finalize_at_src_eq_model BITS c _ hi hB, Cx.Proofs.Blake2.length_zeros]

theorem ctx_finalize_reset_src_eq_model (BITS : Nat) (c : Ctx UInt64) (hi : Inv b c) (hB : (BITS + 7) / 8 ≤ b.maxOut) :
    Context.finalize_reset_src BITS c = Context.finalize_reset b .wrapping BITS c := by
  unfold Context.finalize_reset_src Context.finalize_reset
  simp only [ctx_finalize_reset_at_src_eq_model BITS c _ hi hB, Option.bind_eq_bind, Option.pure_def, Cx.Proofs.Blake2.length_zeros]
  cases Context.finalize_reset_at b Profile.wrapping BITS c (BITS / 8) <;> rfl

theorem ctx_finalize_reset_with_key_src_eq_model (BITS : Nat) (c : Ctx UInt64) (key : Bytes) (hi : Inv b c)
    (hB : (BITS + 7) / 8 ≤ b.maxOut) :
    Context.finalize_reset_with_key_src BITS c key = Context.finalize_reset_with_key b .wrapping BITS c key := by
  unfold Context.finalize_reset_with_key_src Context.finalize_reset_with_key
  simp only [ctx_finalize_reset_with_key_at_src_eq_model BITS c key _ hi hB, Option.bind_eq_bind, Option.pure_def,
    Cx.Proofs.Blake2.length_zeros]
  cases Context.finalize_reset_with_key_at b Profile.wrapping BITS c key (BITS / 8) <;> rfl


/-! ### the invariant `Inv` (`buf` is the whole block array, `buflen ≤ BLOCK_BYTES`) is established by `new_keyed` and preserved -/

theorem ctx_new_keyed_inv (n : Nat) (key : Bytes) (c : Ctx UInt64) (h : Ctx.new_keyed b n key = some c) : Inv b c := by
  have hbb := bb_eq
  have hmk := maxKey_eq
  unfold Ctx.new_keyed at h
  split at h
  · cases h
  · split at h
    · cases h
    · rename_i hk
      split at h
      · cases h
      · split at h
        · cases h
          refine ⟨?_, Nat.le_refl _⟩
          show (setSlice _ 0 key).length = _
          rw [Cx.Proofs.Blake2.setSlice_length _ _ _ (by simp [zeros]; omega)]
          simp [zeros]
        · cases h
          exact ⟨by simp [zeros], Nat.zero_le _⟩

theorem ctx_update_mut_inv (c c' : Ctx UInt64) (input : Bytes) (hi : Inv b c) (h : Ctx.update_mut b .wrapping c input = some c') :
    Inv b c' := by
  obtain ⟨hbl, hle⟩ := hi
  have hbb := bb_eq
  unfold Ctx.update_mut at h
  by_cases he : input.isEmpty = true
  · rw [if_pos he] at h; cases h; exact ⟨hbl, hle⟩
  · rw [if_neg he] at h
    by_cases hfill : input.length > b.bb - c.buflen
    · simp only [hfill, if_true] at h
      cases hinc : Engine.increment_counter Profile.wrapping c.eng b.bb with
      | none => simp [hinc] at h
      | some e1 =>
        simp only [hinc] at h
        have hsl : (setSlice c.buf c.buflen (input.take (b.bb - c.buflen))).length = c.buf.length :=
          Cx.Proofs.Blake2.setSlice_length _ _ _ (by simp; omega)
        split at h
        · cases h
        · rename_i e2 rest hloop
          have hrest := update_loop_rest b Profile.wrapping (by decide) _ _ _ _ _ (Nat.le_refl _) hloop
          cases h
          refine ⟨?_, by show 0 + rest.length ≤ _; omega⟩
          show (setSlice _ 0 rest).length = _
          rw [Cx.Proofs.Blake2.setSlice_length _ _ _ (by omega), hsl, hbl]
    · simp only [hfill, if_false] at h
      cases h
      refine ⟨?_, by show c.buflen + input.length ≤ _; omega⟩
      show (setSlice _ _ input).length = _
      rw [Cx.Proofs.Blake2.setSlice_length _ _ _ (by omega), hbl]

theorem ctx_reset_inv (c : Ctx UInt64) (n : Nat) (hi : Inv b c) : Inv b (Ctx.reset b c n) := by
  refine ⟨?_, Nat.zero_le _⟩
  show (zeroFrom c.buf 0).length = _
  rw [Cx.Proofs.Blake2.zeroFrom_length _ _ (Nat.zero_le _), hi.1]

theorem ctx_reset_with_key_inv (c c' : Ctx UInt64) (n : Nat) (key : Bytes) (hi : Inv b c)
    (h : Ctx.reset_with_key b c n key = some c') : Inv b c' := by
  have hbb := bb_eq
  have hmk := maxKey_eq
  unfold Ctx.reset_with_key at h
  split at h
  · cases h
  · split at h
    · cases h
      have hzl : (zeroFrom c.buf 0).length = c.buf.length := Cx.Proofs.Blake2.zeroFrom_length _ _ (Nat.zero_le _)
      refine ⟨?_, Nat.le_refl _⟩
      show (setSlice _ 0 key).length = _
      rw [Cx.Proofs.Blake2.setSlice_length _ _ _ (by have := hi.1; omega), hzl, hi.1]
    · cases h
      exact ⟨by simp [zeros], Nat.zero_le _⟩


/-! ### `ContextDyn` -/

/-- invariant of `ContextDyn`: the buffer invariant and `outlen ≤ MAX_OUTLEN` (asserted by `new`/`new_keyed`, never changed) -/
def DynInv (d : ContextDyn UInt64) : Prop := Inv b d.ctx ∧ d.outlen ≤ b.maxOut

theorem dyn_new_keyed_src_eq_model (n : Nat) (key : Bytes) : ContextDyn.new_keyed_src n key = ContextDyn.new_keyed b n key := by
  unfold ContextDyn.new_keyed_src ContextDyn.new_keyed Ctx.new_keyed
  simp only [consts_src_eq_model.1, consts_src_eq_model.2.1, consts_src_eq_model.2.2.1, Option.bind_eq_bind, Option.pure_def,
    engine_new_src_eq_model]
  by_cases h1 : n > 0
  · by_cases h2 : n ≤ b.maxOut
    · by_cases h3 : key.length ≤ b.maxKey
      · simp only [h1, h2, h3, and_self, not_true_eq_false, if_false]
        cases Engine.new b n key.length with
        | none => rfl
        | some eng =>
          simp only [Option.bind_some]
          by_cases hk : key.isEmpty = true
          · simp [hk]
          · have : copyInto (zeros b.bb) 0 key.length key = some (setSlice (zeros b.bb) 0 key) :=
              copyInto_setSlice (by simp) (by rw [maxKey_eq] at h3; simp [zeros, bb_eq]; omega)
            simp [hk, this]
      · simp [h1, h2, h3]
    · simp [h1, h2]
  · simp [h1]

theorem dyn_new_src_eq_model (n : Nat) : ContextDyn.new_src n = ContextDyn.new b n := by
  unfold ContextDyn.new_src ContextDyn.new
  simp only [consts_src_eq_model.2.1, dyn_new_keyed_src_eq_model, Option.bind_eq_bind, Option.pure_def]
  by_cases h1 : n > 0 <;> by_cases h2 : n ≤ b.maxOut <;> simp [h1, h2]

theorem dyn_update_loop_eq (fill : Nat) : ∀ (m n : Nat) (d : ContextDyn UInt64) (input : Bytes), input.length < m → input.length ≤ n →
    whileLoop (ContextDyn.update_mut_src_while1 fill) m (d, input) =
      (Ctx.update_loop b .wrapping n d.ctx.eng input).bind fun p => some ({ d with ctx := { d.ctx with eng := p.1 } }, p.2) := by
  intro m
  induction m with
  | zero => intro n c input h; omega
  | succ m ih =>
    intro n d input hm hn
    rw [whileLoop]
    simp only [ContextDyn.update_mut_src_while1, consts_src_eq_model.1, consts_src_eq_model.2.2.2, engine_increment_counter_src_eq_model,
      Option.bind_eq_bind, Option.pure_def]
    by_cases hlen : input.length > b.bb
    · have hbb := bb_eq
      cases n with
      | zero => omega
      | succ n =>
        rw [Ctx.update_loop]
        simp only [hlen, if_true]
        cases hinc : Engine.increment_counter Profile.wrapping d.ctx.eng b.bb with
        | none => simp
        | some e1 =>
          simp only [Option.bind_some, slice_take (Nat.le_of_lt hlen), sliceFrom_eq (Nat.le_of_lt hlen)]
          rw [ih n _ _ (by simp; omega) (by simp; omega)]
    · simp only [hlen, if_false, Option.bind_some]
      cases n with
      | zero => simp [Ctx.update_loop]
      | succ n => simp [Ctx.update_loop, hlen]

theorem dyn_update_mut_src_eq_model (d : ContextDyn UInt64) (input : Bytes) (hi : DynInv d) :
    ContextDyn.update_mut_src d input = ContextDyn.update_mut b .wrapping d input := by
  obtain ⟨⟨hbl, hle⟩, _⟩ := hi
  have hbb := bb_eq
  unfold ContextDyn.update_mut_src ContextDyn.update_mut Ctx.update_mut
  simp only [consts_src_eq_model.1, consts_src_eq_model.2.2.2, engine_increment_counter_src_eq_model, Option.bind_eq_bind,
    Option.pure_def]
  by_cases he : input.isEmpty = true
  · simp [he]
  · simp only [he, if_false, usub_le hle, Option.bind_some, Bool.false_eq_true]
    by_cases hfill : input.length > b.bb - d.ctx.buflen
    · simp only [hfill, if_true]
      have h1 : slice input 0 (b.bb - d.ctx.buflen) = some (input.take (b.bb - d.ctx.buflen)) := slice_take (Nat.le_of_lt hfill)
      have h2 : usizechk (d.ctx.buflen + (b.bb - d.ctx.buflen)) = some (d.ctx.buflen + (b.bb - d.ctx.buflen)) := usizechk_lt (by omega)
      have h3 : copyInto d.ctx.buf d.ctx.buflen (d.ctx.buflen + (b.bb - d.ctx.buflen)) (input.take (b.bb - d.ctx.buflen)) =
          some (setSlice d.ctx.buf d.ctx.buflen (input.take (b.bb - d.ctx.buflen))) :=
        copyInto_setSlice (by simp; omega) (by simp; omega)
      simp only [h1, h2, h3, Option.bind_some]
      cases hinc : Engine.increment_counter Profile.wrapping d.ctx.eng b.bb with
      | none => simp
      | some e1 =>
        have hsl : (setSlice d.ctx.buf d.ctx.buflen (input.take (b.bb - d.ctx.buflen))).length = d.ctx.buf.length :=
          Cx.Proofs.Blake2.setSlice_length _ _ _ (by simp; omega)
        simp only [Option.bind_some,
          slice_take (show b.bb ≤ (setSlice d.ctx.buf d.ctx.buflen (input.take (b.bb - d.ctx.buflen))).length by omega),
          sliceFrom_eq (Nat.le_of_lt hfill)]
        rw [dyn_update_loop_eq (b.bb - d.ctx.buflen) _ (input.drop (b.bb - d.ctx.buflen)).length _ _ (by omega) (Nat.le_refl _)]
        cases hloop : Ctx.update_loop b Profile.wrapping (input.drop (b.bb - d.ctx.buflen)).length
            (Engine.compress b e1 (List.take b.bb (setSlice d.ctx.buf d.ctx.buflen (input.take (b.bb - d.ctx.buflen)))) LastBlock.No)
            (input.drop (b.bb - d.ctx.buflen)) with
        | none => simp
        | some p =>
          obtain ⟨e2, rest⟩ := p
          have hrest := update_loop_rest b Profile.wrapping (by decide) _ _ _ _ _ (Nat.le_refl _) hloop
          have h5 : usizechk (0 + rest.length) = some (0 + rest.length) := usizechk_lt (by omega)
          have h6 : copyInto (setSlice d.ctx.buf d.ctx.buflen (input.take (b.bb - d.ctx.buflen))) 0 (0 + rest.length) rest =
              some (setSlice (setSlice d.ctx.buf d.ctx.buflen (input.take (b.bb - d.ctx.buflen))) 0 rest) :=
            copyInto_setSlice rfl (by omega)
          simp only [Option.bind_some, h5, h6]
    · simp only [hfill, if_false, Option.bind_some]
      have h2 : usizechk (d.ctx.buflen + input.length) = some (d.ctx.buflen + input.length) := usizechk_lt (by omega)
      have h3 : copyInto d.ctx.buf d.ctx.buflen (d.ctx.buflen + input.length) input = some (setSlice d.ctx.buf d.ctx.buflen input) :=
        copyInto_setSlice rfl (by omega)
      simp only [h2, h3, Option.bind_some]


theorem dyn_update_src_eq_model (d : ContextDyn UInt64) (input : Bytes) (hi : DynInv d) :
    ContextDyn.update_src d input = ContextDyn.update b .wrapping d input := by
  unfold ContextDyn.update_src ContextDyn.update
  rw [dyn_update_mut_src_eq_model d input hi]

theorem dyn_internal_final_src_eq_model (d : ContextDyn UInt64) (hi : DynInv d) :
    ContextDyn.internal_final_src d = (Ctx.internal_final b .wrapping d.ctx).bind fun x => some { d with ctx := x } := by
  obtain ⟨⟨hbl, hle⟩, _⟩ := hi
  have hbb := bb_eq
  unfold ContextDyn.internal_final_src Ctx.internal_final
  simp only [consts_src_eq_model.1, engine_increment_counter_src_eq_model, Option.bind_eq_bind, Option.pure_def]
  have hw : Cx.Spec.Blake2.Word.bits UInt64 = 64 := rfl
  rw [hw]
  cases hinc : Engine.increment_counter Profile.wrapping d.ctx.eng (d.ctx.buflen % 2 ^ 64) with
  | none => rfl
  | some e1 =>
    have hzl : (zeroFrom d.ctx.buf d.ctx.buflen).length = d.ctx.buf.length := Cx.Proofs.Blake2.zeroFrom_length _ _ (by omega)
    simp only [Option.bind_some, slice_to_end (show d.ctx.buflen ≤ d.ctx.buf.length by omega),
      copyInto_zeroFrom (show d.ctx.buflen ≤ d.ctx.buf.length by omega) rfl,
      slice_take (show b.bb ≤ (zeroFrom d.ctx.buf d.ctx.buflen).length by omega),
      slice_take (show 64 ≤ (zeroFrom d.ctx.buf d.ctx.buflen).length by omega)]
    have hlen : ((Engine.compress b e1 (List.take b.bb (zeroFrom d.ctx.buf d.ctx.buflen)) LastBlock.Yes).h.toList.flatMap u64le).length = 64 := by
      rw [← toLE_eq_u64le, Cx.Proofs.Blake2.hbytes_length]; rfl
    have hw8 : write_u64v_le (List.take 64 (zeroFrom d.ctx.buf d.ctx.buflen))
        (Engine.compress b e1 (List.take b.bb (zeroFrom d.ctx.buf d.ctx.buflen)) LastBlock.Yes).h.toList =
        some ((Engine.compress b e1 (List.take b.bb (zeroFrom d.ctx.buf d.ctx.buflen)) LastBlock.Yes).h.toList.flatMap u64le) := by
      unfold write_u64v_le
      rw [if_pos (by simp; omega)]
    simp only [hw8, Option.bind_some]
    rw [copyInto_setSlice (by rw [hlen]) (by rw [hlen]; omega)]
    rfl

theorem dyn_reset_src_eq_model (d : ContextDyn UInt64) : ContextDyn.reset_src d = some (ContextDyn.reset b d) := by
  unfold ContextDyn.reset_src ContextDyn.reset Ctx.reset
  have hz := zero_all d.ctx.buf
  rw [slice_to_end (Nat.zero_le _)] at hz
  simp only [Option.bind_some] at hz
  simp only [engine_reset_src_eq_model, Option.bind_eq_bind, Option.bind_some, Option.pure_def, slice_to_end (Nat.zero_le _), hz]

theorem dyn_reset_with_key_src_eq_model (d : ContextDyn UInt64) (key : Bytes) (hi : DynInv d) :
    ContextDyn.reset_with_key_src d key = ContextDyn.reset_with_key b d key := by
  obtain ⟨⟨hbl, hle⟩, _⟩ := hi
  have hbb := bb_eq
  unfold ContextDyn.reset_with_key_src ContextDyn.reset_with_key Ctx.reset_with_key
  have hz := zero_all d.ctx.buf
  rw [slice_to_end (Nat.zero_le _)] at hz
  simp only [Option.bind_some] at hz
  simp only [engine_reset_src_eq_model, Option.bind_eq_bind, Option.bind_some, Option.pure_def,
    slice_to_end (Nat.zero_le _), hz, consts_src_eq_model.1, consts_src_eq_model.2.2.1]
  by_cases hk : key.length ≤ b.maxKey
  · simp only [hk, not_true_eq_false, if_false]
    by_cases hke : key.isEmpty = true
    · simp [hke]
    · have hzl : (zeroFrom d.ctx.buf 0).length = d.ctx.buf.length := Cx.Proofs.Blake2.zeroFrom_length _ _ (by omega)
      have : copyInto (zeroFrom d.ctx.buf 0) 0 key.length key = some (setSlice (zeroFrom d.ctx.buf 0) 0 key) :=
        copyInto_setSlice (by simp) (by rw [maxKey_eq] at hk; omega)
      simp [hke, this]
  · simp [hk]

theorem dyn_finalize_at_src_eq_model (d : ContextDyn UInt64) (out : Bytes) (hi : DynInv d) :
    ContextDyn.finalize_at_src d out = ContextDyn.finalize_at b .wrapping d out.length := by
  have hmo := maxOut_eq
  unfold ContextDyn.finalize_at_src ContextDyn.finalize_at Ctx.finalize_at
  simp only [dyn_internal_final_src_eq_model d hi, Option.bind_eq_bind, Option.bind_some, Option.pure_def]
  by_cases hl : out.length = d.outlen
  · simp only [hl, not_true_eq_false, if_false, ne_eq]
    cases hf : Ctx.internal_final b Profile.wrapping d.ctx with
    | none => rfl
    | some c' =>
      have hp := ctx_finalize_prefix d.ctx out hi.1 (by have := hi.2; omega) c' hf
      rw [hl] at hp
      simp only [Option.bind_some]
      cases hs : slice c'.buf 0 d.outlen with
      | none => simp [hs] at hp
      | some t3 =>
        simp only [hs, Option.bind_some] at hp
        simp only [Option.bind_some, hp]
  · simp [hl]

theorem dyn_finalize_reset_at_src_eq_model (d : ContextDyn UInt64) (out : Bytes) (hi : DynInv d) :
    ContextDyn.finalize_reset_at_src d out = ContextDyn.finalize_reset_at b .wrapping d out.length := by
  have hmo := maxOut_eq
  unfold ContextDyn.finalize_reset_at_src ContextDyn.finalize_reset_at Ctx.finalize_reset_at
  simp only [dyn_internal_final_src_eq_model d hi, Option.bind_eq_bind, Option.bind_some, Option.pure_def]
  by_cases hl : out.length = d.outlen
  · simp only [hl, not_true_eq_false, if_false, ne_eq]
    cases hf : Ctx.internal_final b Profile.wrapping d.ctx with
    | none => rfl
    | some c' =>
      have hp := ctx_finalize_prefix d.ctx out hi.1 (by have := hi.2; omega) c' hf
      rw [hl] at hp
      simp only [Option.bind_some]
      cases hs : slice c'.buf 0 d.outlen with
      | none => simp [hs] at hp
      | some t3 =>
        simp only [hs, Option.bind_some] at hp
        simp only [Option.bind_some, hp, dyn_reset_src_eq_model]
        rfl
  · simp [hl]

theorem dyn_finalize_reset_with_key_at_src_eq_model (d : ContextDyn UInt64) (key out : Bytes) (hi : DynInv d) :
    ContextDyn.finalize_reset_with_key_at_src d key out = ContextDyn.finalize_reset_with_key_at b .wrapping d key out.length := by
  have hmo := maxOut_eq
  unfold ContextDyn.finalize_reset_with_key_at_src ContextDyn.finalize_reset_with_key_at Ctx.finalize_reset_with_key_at
  simp only [dyn_internal_final_src_eq_model d hi, Option.bind_eq_bind, Option.bind_some, Option.pure_def]
  by_cases hl : out.length = d.outlen
  · simp only [hl, not_true_eq_false, if_false, ne_eq]
    cases hf : Ctx.internal_final b Profile.wrapping d.ctx with
    | none => rfl
    | some c' =>
      have hp := ctx_finalize_prefix d.ctx out hi.1 (by have := hi.2; omega) c' hf
      have hi' := internal_final_shape d.ctx c' hi.1 hf
      rw [hl] at hp
      simp only [Option.bind_some]
      cases hs : slice c'.buf 0 d.outlen with
      | none => simp [hs] at hp
      | some t3 =>
        simp only [hs, Option.bind_some] at hp
        have hd' : DynInv { d with ctx := c' } := ⟨hi', hi.2⟩
        simp only [Option.bind_some, hp, dyn_reset_with_key_src_eq_model _ key hd']
        unfold ContextDyn.reset_with_key
        cases Ctx.reset_with_key b c' d.outlen key <;> rfl
  · simp [hl]

theorem dyn_output_bits_src_eq_model (d : ContextDyn UInt64) (hi : DynInv d) :
    ContextDyn.output_bits_src d = some (ContextDyn.output_bits d) := by
  have hmo := maxOut_eq
  unfold ContextDyn.output_bits_src ContextDyn.output_bits
  have := hi.2
  simp [usizechk_lt (show d.outlen * 8 < 2 ^ 64 by omega)]


theorem dyn_new_keyed_inv (n : Nat) (key : Bytes) (d : ContextDyn UInt64) (h : ContextDyn.new_keyed b n key = some d) : DynInv d := by
  unfold ContextDyn.new_keyed at h
  cases hc : Ctx.new_keyed b n key with
  | none => simp [hc] at h
  | some c =>
    simp only [hc, Option.some.injEq] at h
    subst h
    refine ⟨ctx_new_keyed_inv n key c hc, ?_⟩
    show n ≤ b.maxOut
    unfold Ctx.new_keyed at hc
    split at hc
    · cases hc
    · rename_i hn; simp at hn; exact hn.2

theorem dyn_update_mut_inv (d d' : ContextDyn UInt64) (input : Bytes) (hi : DynInv d)
    (h : ContextDyn.update_mut b .wrapping d input = some d') : DynInv d' := by
  unfold ContextDyn.update_mut at h
  cases hc : Ctx.update_mut b .wrapping d.ctx input with
  | none => simp [hc] at h
  | some c =>
    simp only [hc, Option.some.injEq] at h
    subst h
    exact ⟨ctx_update_mut_inv d.ctx c input hi.1 hc, hi.2⟩

theorem dyn_reset_inv (d : ContextDyn UInt64) (hi : DynInv d) : DynInv (ContextDyn.reset b d) :=
  ⟨ctx_reset_inv d.ctx d.outlen hi.1, hi.2⟩

theorem dyn_reset_with_key_inv (d d' : ContextDyn UInt64) (key : Bytes) (hi : DynInv d)
    (h : ContextDyn.reset_with_key b d key = some d') : DynInv d' := by
  unfold ContextDyn.reset_with_key at h
  cases hc : Ctx.reset_with_key b d.ctx d.outlen key with
  | none => simp [hc] at h
  | some c =>
    simp only [hc, Option.some.injEq] at h
    subst h
    exact ⟨ctx_reset_with_key_inv d.ctx c d.outlen key hi.1 hc, hi.2⟩

theorem alg_new_src_eq_model (BITS : Nat) : Algorithm.new_src BITS = Context.new b BITS := by
  unfold Algorithm.new_src
  rw [ctx_new_src_eq_model]

theorem alg_new_keyed_src_eq_model (BITS : Nat) (key : Bytes) : Algorithm.new_keyed_src BITS key = Context.new_keyed b BITS key := by
  unfold Algorithm.new_keyed_src
  rw [ctx_new_keyed_src_eq_model]

end B

namespace S
open Cx.Extracted.GlueSponge.Blake2s

theorem consts_src_eq_model : Engine.BLOCK_BYTES_src = s.bb ∧ Engine.MAX_OUTLEN_src = s.maxOut ∧ Engine.MAX_KEYLEN_src = s.maxKey ∧
    Engine.BLOCK_BYTES_NATIVE_src = s.bb := ⟨rfl, rfl, rfl, by decide⟩

theorem engine_new_src_eq_model (outlen keylen : Nat) : Engine.new_src outlen keylen = Engine.new s outlen keylen := by
  unfold Engine.new_src Engine.new
  by_cases h1 : outlen > 0 <;> by_cases h2 : outlen ≤ s.maxOut <;> by_cases h3 : keylen ≤ s.maxKey <;> simp [h1, h2, h3] <;> rfl

theorem engine_reset_src_eq_model (e : Engine UInt32) (outlen keylen : Nat) :
    Engine.reset_src e outlen keylen = some (Engine.reset s e outlen keylen) := rfl

theorem engine_increment_counter_src_eq_model (e : Engine UInt32) (inc : Nat) :
    Engine.increment_counter_src e inc = Engine.increment_counter .wrapping e inc := rfl


theorem bb_eq : s.bb = 64 := rfl
theorem maxOut_eq : s.maxOut = 32 := rfl
theorem maxKey_eq : s.maxKey = 32 := rfl

theorem ctx_new_keyed_src_eq_model (BITS : Nat) (key : Bytes) : Context.new_keyed_src BITS key = Context.new_keyed s BITS key := by
  unfold Context.new_keyed_src Context.new_keyed Ctx.new_keyed Context.outlen
  simp only [consts_src_eq_model.1, consts_src_eq_model.2.1, consts_src_eq_model.2.2.1]
  by_cases hB : BITS + 7 < 2 ^ 64
  · simp only [usizechk_lt hB, Option.bind_eq_bind, Option.bind_some, Option.pure_def, engine_new_src_eq_model]
    by_cases h1 : BITS > 0
    · by_cases h2 : (BITS + 7) / 8 ≤ s.maxOut
      · by_cases h3 : key.length ≤ s.maxKey
        · have h4 : (BITS + 7) / 8 > 0 := by omega
          simp only [h1, h2, h3, h4, and_self, not_true_eq_false, if_false]
          cases Engine.new s ((BITS + 7) / 8) key.length with
          | none => rfl
          | some eng =>
            simp only [Option.bind_some]
            by_cases hk : key.isEmpty = true
            · simp [hk]
            · have : copyInto (zeros s.bb) 0 key.length key = some (setSlice (zeros s.bb) 0 key) :=
                copyInto_setSlice (by simp) (by rw [maxKey_eq] at h3; simp [zeros, bb_eq]; omega)
              simp [hk, this]
        · simp [h1, h2, h3]
      · simp [h1, h2]
    · simp [h1]
  · have : ¬ (BITS + 7) / 8 ≤ s.maxOut := by rw [maxOut_eq]; omega
    have h' : usizechk (BITS + 7) = none := by unfold usizechk; rw [if_neg (by omega)]
    by_cases h1 : BITS > 0 <;> simp [h1, this, h']


theorem ctx_new_src_eq_model (BITS : Nat) : Context.new_src BITS = Context.new s BITS := by
  unfold Context.new_src Context.new Context.outlen
  simp only [consts_src_eq_model.2.1, ctx_new_keyed_src_eq_model]
  by_cases hB : BITS + 7 < 2 ^ 64
  · simp only [usizechk_lt hB, Option.bind_eq_bind, Option.bind_some, Option.pure_def]
    by_cases h1 : BITS > 0 <;> by_cases h2 : (BITS + 7) / 8 ≤ s.maxOut <;> simp [h1, h2]
  · have : ¬ (BITS + 7) / 8 ≤ s.maxOut := by rw [maxOut_eq]; omega
    have h' : usizechk (BITS + 7) = none := by unfold usizechk; rw [if_neg (by omega)]
    by_cases h1 : BITS > 0 <;> simp [h1, this, h']

/-- the `while input.len() > BLOCK_BYTES` loop of `update_mut` against the model's fuel recursion -/
theorem ctx_update_loop_eq (BITS fill : Nat) : ∀ (m n : Nat) (c : Ctx UInt32) (input : Bytes), input.length < m → input.length ≤ n →
    whileLoop (Context.update_mut_src_while1 BITS fill) m (c, input) =
      (Ctx.update_loop s .wrapping n c.eng input).bind fun p => some ({ c with eng := p.1 }, p.2) := by
  intro m
  induction m with
  | zero => intro n c input h; omega
  | succ m ih =>
    intro n c input hm hn
    rw [whileLoop]
    simp only [Context.update_mut_src_while1, consts_src_eq_model.1, consts_src_eq_model.2.2.2, engine_increment_counter_src_eq_model,
      Option.bind_eq_bind, Option.pure_def]
    by_cases hlen : input.length > s.bb
    · have hbb := bb_eq
      cases n with
      | zero => omega
      | succ n =>
        rw [Ctx.update_loop]
        simp only [hlen, if_true]
        cases hinc : Engine.increment_counter Profile.wrapping c.eng s.bb with
        | none => simp
        | some e1 =>
          simp only [Option.bind_some, slice_take (Nat.le_of_lt hlen), sliceFrom_eq (Nat.le_of_lt hlen)]
          rw [ih n _ _ (by simp; omega) (by simp; omega)]
    · simp only [hlen, if_false, Option.bind_some]
      cases n with
      | zero => simp [Ctx.update_loop]
      | succ n => simp [Ctx.update_loop, hlen]


theorem ctx_update_mut_src_eq_model (BITS : Nat) (c : Ctx UInt32) (input : Bytes) (hi : Inv s c) :
    Context.update_mut_src BITS c input = Context.update_mut s .wrapping c input := by
  obtain ⟨hbl, hle⟩ := hi
  have hbb := bb_eq
  unfold Context.update_mut_src Context.update_mut Ctx.update_mut
  simp only [consts_src_eq_model.1, consts_src_eq_model.2.2.2, engine_increment_counter_src_eq_model, Option.bind_eq_bind,
    Option.pure_def]
  by_cases he : input.isEmpty = true
  · simp [he]
  · simp only [he, if_false, usub_le hle, Option.bind_some, Bool.false_eq_true]
    by_cases hfill : input.length > s.bb - c.buflen
    · simp only [hfill, if_true]
      have h1 : slice input 0 (s.bb - c.buflen) = some (input.take (s.bb - c.buflen)) := slice_take (Nat.le_of_lt hfill)
      have h2 : usizechk (c.buflen + (s.bb - c.buflen)) = some (c.buflen + (s.bb - c.buflen)) := usizechk_lt (by omega)
      have h3 : copyInto c.buf c.buflen (c.buflen + (s.bb - c.buflen)) (input.take (s.bb - c.buflen)) =
          some (setSlice c.buf c.buflen (input.take (s.bb - c.buflen))) :=
        copyInto_setSlice (by simp; omega) (by simp; omega)
      simp only [h1, h2, h3, Option.bind_some]
      cases hinc : Engine.increment_counter Profile.wrapping c.eng s.bb with
      | none => simp
      | some e1 =>
        have hsl : (setSlice c.buf c.buflen (input.take (s.bb - c.buflen))).length = c.buf.length :=
          Cx.Proofs.Blake2.setSlice_length _ _ _ (by simp; omega)
        simp only [Option.bind_some, slice_take (show s.bb ≤ (setSlice c.buf c.buflen (input.take (s.bb - c.buflen))).length by omega),
          sliceFrom_eq (Nat.le_of_lt hfill)]
        rw [ctx_update_loop_eq BITS (s.bb - c.buflen) _ (input.drop (s.bb - c.buflen)).length _ _ (by omega) (Nat.le_refl _)]
        cases hloop : Ctx.update_loop s Profile.wrapping (input.drop (s.bb - c.buflen)).length
            (Engine.compress s e1 (List.take s.bb (setSlice c.buf c.buflen (input.take (s.bb - c.buflen)))) LastBlock.No)
            (input.drop (s.bb - c.buflen)) with
        | none => simp
        | some p =>
          obtain ⟨e2, rest⟩ := p
          have hrest := update_loop_rest s Profile.wrapping (by decide) _ _ _ _ _ (Nat.le_refl _) hloop
          have h5 : usizechk (0 + rest.length) = some (0 + rest.length) := usizechk_lt (by omega)
          have h6 : copyInto (setSlice c.buf c.buflen (input.take (s.bb - c.buflen))) 0 (0 + rest.length) rest =
              some (setSlice (setSlice c.buf c.buflen (input.take (s.bb - c.buflen))) 0 rest) :=
            copyInto_setSlice rfl (by omega)
          simp only [Option.bind_some, h5, h6]
    · simp only [hfill, if_false, Option.bind_some]
      have h2 : usizechk (c.buflen + input.length) = some (c.buflen + input.length) := usizechk_lt (by omega)
      have h3 : copyInto c.buf c.buflen (c.buflen + input.length) input = some (setSlice c.buf c.buflen input) :=
        copyInto_setSlice rfl (by omega)
      simp only [h2, h3, Option.bind_some]


theorem ctx_update_src_eq_model (BITS : Nat) (c : Ctx UInt32) (input : Bytes) (hi : Inv s c) :
    Context.update_src BITS c input = Context.update s .wrapping c input := by
  unfold Context.update_src Context.update
  rw [ctx_update_mut_src_eq_model BITS c input hi]
  unfold Context.update_mut
  cases Ctx.update_mut s Profile.wrapping c input <;> rfl

theorem toLE_eq_u32le : (Cx.Spec.Blake2.toLE : UInt32 → Bytes) = u32le := rfl

theorem ctx_internal_final_src_eq_model (BITS : Nat) (c : Ctx UInt32) (hi : Inv s c) :
    Context.internal_final_src BITS c = Ctx.internal_final s .wrapping c := by
  obtain ⟨hbl, hle⟩ := hi
  have hbb := bb_eq
  unfold Context.internal_final_src Ctx.internal_final
  simp only [consts_src_eq_model.1, engine_increment_counter_src_eq_model, Option.bind_eq_bind, Option.pure_def]
  have hw : Cx.Spec.Blake2.Word.bits UInt32 = 32 := rfl
  rw [hw]
  cases hinc : Engine.increment_counter Profile.wrapping c.eng (c.buflen % 2 ^ 32) with
  | none => rfl
  | some e1 =>
    have hzl : (zeroFrom c.buf c.buflen).length = c.buf.length := Cx.Proofs.Blake2.zeroFrom_length _ _ (by omega)
    simp only [Option.bind_some, slice_to_end (show c.buflen ≤ c.buf.length by omega),
      copyInto_zeroFrom (show c.buflen ≤ c.buf.length by omega) rfl,
      slice_take (show s.bb ≤ (zeroFrom c.buf c.buflen).length by omega),
      slice_take (show 32 ≤ (zeroFrom c.buf c.buflen).length by omega)]
    have hlen : ((Engine.compress s e1 (List.take s.bb (zeroFrom c.buf c.buflen)) LastBlock.Yes).h.toList.flatMap u32le).length = 32 := by
      rw [← toLE_eq_u32le, Cx.Proofs.Blake2.hbytes_length]; rfl
    have hw8 : write_u32v_le (List.take 32 (zeroFrom c.buf c.buflen))
        (Engine.compress s e1 (List.take s.bb (zeroFrom c.buf c.buflen)) LastBlock.Yes).h.toList =
        some ((Engine.compress s e1 (List.take s.bb (zeroFrom c.buf c.buflen)) LastBlock.Yes).h.toList.flatMap u32le) := by
      unfold write_u32v_le
      rw [if_pos (by simp; omega)]
    simp only [hw8, Option.bind_some]
    rw [copyInto_setSlice (by rw [hlen]) (by rw [hlen]; omega)]
    rfl


theorem zero_all (buf : Bytes) : (slice buf 0 buf.length).bind (fun t => copyInto buf 0 buf.length (zeros t.length)) = some (zeroFrom buf 0) := by
  rw [slice_to_end (Nat.zero_le _)]
  simp only [Option.bind_some]
  exact copyInto_zeroFrom (Nat.zero_le _) rfl

theorem ctx_reset_src_eq_model (BITS : Nat) (c : Ctx UInt32) (hB : BITS + 7 < 2 ^ 64) :
    Context.reset_src BITS c = some (Context.reset s BITS c) := by
  unfold Context.reset_src Context.reset Ctx.reset Context.outlen
  have hz := zero_all c.buf
  rw [slice_to_end (Nat.zero_le _)] at hz
  simp only [Option.bind_some] at hz
  simp only [usizechk_lt hB, engine_reset_src_eq_model, Option.bind_eq_bind, Option.bind_some, Option.pure_def,
    slice_to_end (Nat.zero_le _), hz]

theorem ctx_reset_with_key_src_eq_model (BITS : Nat) (c : Ctx UInt32) (key : Bytes) (hi : Inv s c) (hB : BITS + 7 < 2 ^ 64) :
    Context.reset_with_key_src BITS c key = Context.reset_with_key s BITS c key := by
  obtain ⟨hbl, hle⟩ := hi
  have hbb := bb_eq
  unfold Context.reset_with_key_src Context.reset_with_key Ctx.reset_with_key Context.outlen
  have hz := zero_all c.buf
  rw [slice_to_end (Nat.zero_le _)] at hz
  simp only [Option.bind_some] at hz
  simp only [usizechk_lt hB, engine_reset_src_eq_model, Option.bind_eq_bind, Option.bind_some, Option.pure_def,
    slice_to_end (Nat.zero_le _), hz, consts_src_eq_model.1, consts_src_eq_model.2.2.1]
  by_cases hk : key.length ≤ s.maxKey
  · simp only [hk, not_true_eq_false, if_false]
    by_cases hke : key.isEmpty = true
    · simp [hke]
    · have hzl : (zeroFrom c.buf 0).length = c.buf.length := Cx.Proofs.Blake2.zeroFrom_length _ _ (by omega)
      have : copyInto (zeroFrom c.buf 0) 0 key.length key = some (setSlice (zeroFrom c.buf 0) 0 key) :=
        copyInto_setSlice (by simp) (by rw [maxKey_eq] at hk; omega)
      simp [hke, this]
  · simp [hk]

/-- shape of the buffer after the model's `internal_final` -/
theorem internal_final_shape (c c' : Ctx UInt32) (hi : Inv s c) (h : Ctx.internal_final s .wrapping c = some c') : Inv s c' := by
  obtain ⟨hbl, hle⟩ := hi
  have hbb := bb_eq
  unfold Ctx.internal_final at h
  split at h
  · cases h
  · cases h
    have hzl : (zeroFrom c.buf c.buflen).length = c.buf.length := Cx.Proofs.Blake2.zeroFrom_length _ _ (by omega)
    refine ⟨?_, hle⟩
    show (setSlice _ 0 _).length = _
    rw [Cx.Proofs.Blake2.setSlice_length _ _ _ (by rw [Cx.Proofs.Blake2.hbytes_length]; show 0 + 8 * 4 ≤ _; omega), hzl, hbl]

theorem ctx_finalize_at_src_eq_model (BITS : Nat) (c : Ctx UInt32) (out : Bytes) (hi : Inv s c) (hB : (BITS + 7) / 8 ≤ s.maxOut) :
    Context.finalize_at_src BITS c out = Context.finalize_at s .wrapping BITS c out.length := by
  have hmo := maxOut_eq
  have hbb := bb_eq
  unfold Context.finalize_at_src Context.finalize_at Ctx.finalize_at Context.outlen
  simp only [usizechk_lt (show BITS + 7 < 2 ^ 64 by omega), ctx_internal_final_src_eq_model BITS c hi, Option.bind_eq_bind,
    Option.bind_some, Option.pure_def]
  by_cases hl : out.length = (BITS + 7) / 8
  · simp only [hl, not_true_eq_false, if_false, ne_eq]
    cases hf : Ctx.internal_final s Profile.wrapping c with
    | none => rfl
    | some c' =>
      have hi' := internal_final_shape c c' hi hf
      simp only [Option.bind_some]
      rw [← hl, slice_take (by rw [hi'.1]; omega)]
      simp only [Option.bind_some]
      rw [copyInto_all (by simp; rw [hi'.1]; omega)]
  · simp [hl]


/-- the common prefix of the three `finalize_*_at`: assert, `internal_final`, copy the digest out -/
theorem ctx_finalize_prefix (c : Ctx UInt32) (out : Bytes) (hi : Inv s c) (hB : out.length ≤ s.maxOut) (c' : Ctx UInt32)
    (hf : Ctx.internal_final s .wrapping c = some c') :
    (slice c'.buf 0 out.length).bind (fun t3 => copyInto out 0 out.length t3) = some (c'.buf.take out.length) := by
  have hmo := maxOut_eq
  have hbb := bb_eq
  have hi' := internal_final_shape c c' hi hf
  rw [slice_take (by rw [hi'.1]; omega)]
  simp only [Option.bind_some]
  rw [copyInto_all (by simp; rw [hi'.1]; omega)]

theorem ctx_finalize_reset_at_src_eq_model (BITS : Nat) (c : Ctx UInt32) (out : Bytes) (hi : Inv s c) (hB : (BITS + 7) / 8 ≤ s.maxOut) :
    Context.finalize_reset_at_src BITS c out = Context.finalize_reset_at s .wrapping BITS c out.length := by
  have hmo := maxOut_eq
  unfold Context.finalize_reset_at_src Context.finalize_reset_at Ctx.finalize_reset_at Context.outlen
  simp only [usizechk_lt (show BITS + 7 < 2 ^ 64 by omega), ctx_internal_final_src_eq_model BITS c hi, Option.bind_eq_bind,
    Option.bind_some, Option.pure_def]
  by_cases hl : out.length = (BITS + 7) / 8
  · simp only [hl, not_true_eq_false, if_false, ne_eq]
    cases hf : Ctx.internal_final s Profile.wrapping c with
    | none => rfl
    | some c' =>
      have hp := ctx_finalize_prefix c out hi (by omega) c' hf
      rw [hl] at hp
      simp only [Option.bind_some]
      cases hs : slice c'.buf 0 ((BITS + 7) / 8) with
      | none => simp [hs] at hp
      | some t3 =>
        simp only [hs, Option.bind_some] at hp
        simp only [Option.bind_some, hp, ctx_reset_src_eq_model BITS c' (by omega)]
        rfl
  · simp [hl]

theorem ctx_finalize_reset_with_key_at_src_eq_model (BITS : Nat) (c : Ctx UInt32) (key out : Bytes) (hi : Inv s c)
    (hB : (BITS + 7) / 8 ≤ s.maxOut) :
    Context.finalize_reset_with_key_at_src BITS c key out = Context.finalize_reset_with_key_at s .wrapping BITS c key out.length := by
  have hmo := maxOut_eq
  unfold Context.finalize_reset_with_key_at_src Context.finalize_reset_with_key_at Ctx.finalize_reset_with_key_at Context.outlen
  simp only [usizechk_lt (show BITS + 7 < 2 ^ 64 by omega), ctx_internal_final_src_eq_model BITS c hi, Option.bind_eq_bind,
    Option.bind_some, Option.pure_def]
  by_cases hl : out.length = (BITS + 7) / 8
  · simp only [hl, not_true_eq_false, if_false, ne_eq]
    cases hf : Ctx.internal_final s Profile.wrapping c with
    | none => rfl
    | some c' =>
      have hp := ctx_finalize_prefix c out hi (by omega) c' hf
      have hi' := internal_final_shape c c' hi hf
      rw [hl] at hp
      simp only [Option.bind_some]
      cases hs : slice c'.buf 0 ((BITS + 7) / 8) with
      | none => simp [hs] at hp
      | some t3 =>
        simp only [hs, Option.bind_some] at hp
        simp only [Option.bind_some, hp, ctx_reset_with_key_src_eq_model BITS c' key hi' (by omega)]
        unfold Context.reset_with_key Context.outlen
        cases Ctx.reset_with_key s c' ((BITS + 7) / 8) key <;> rfl
  · simp [hl]

theorem ctx_finalize_src_eq_model (BITS : Nat) (c : Ctx UInt32) (hi : Inv s c) (hB : (BITS + 7) / 8 ≤ s.maxOut) :
    Context.finalize_src BITS c = Context.finalize s .wrapping BITS c := by
  unfold Context.finalize_src Context.finalize
  simp only [ctx_finalize_at_src_eq_model BITS c _ hi hB, Cx.Proofs.Blake2.length_zeros]

theorem ctx_finalize_reset_src_eq_model (BITS : Nat) (c : Ctx UInt32) (hi : Inv s c) (hB : (BITS + 7) / 8 ≤ s.maxOut) :
    Context.finalize_reset_src BITS c = Context.finalize_reset s .wrapping BITS c := by
  unfold Context.finalize_reset_src Context.finalize_reset
  simp only [ctx_finalize_reset_at_src_eq_model BITS c _ hi hB, Option.bind_eq_bind, Option.pure_def, Cx.Proofs.Blake2.length_zeros]
  cases Context.finalize_reset_at s Profile.wrapping BITS c (BITS / 8) <;> rfl

theorem ctx_finalize_reset_with_key_src_eq_model (BITS : Nat) (c : Ctx UInt32) (key : Bytes) (hi : Inv s c)
    (hB : (BITS + 7) / 8 ≤ s.maxOut) :
    Context.finalize_reset_with_key_src BITS c key = Context.finalize_reset_with_key s .wrapping BITS c key := by
  unfold Context.finalize_reset_with_key_src Context.finalize_reset_with_key
  simp only [ctx_finalize_reset_with_key_at_src_eq_model BITS c key _ hi hB, Option.bind_eq_bind, Option.pure_def,
    Cx.Proofs.Blake2.length_zeros]
  cases Context.finalize_reset_with_key_at s Profile.wrapping BITS c key (BITS / 8) <;> rfl


/-! ### the invariant `Inv` (`buf` is the whole block array, `buflen ≤ BLOCK_BYTES`) is established by `new_keyed` and preserved -/

theorem ctx_new_keyed_inv (n : Nat) (key : Bytes) (c : Ctx UInt32) (h : Ctx.new_keyed s n key = some c) : Inv s c := by
  have hbb := bb_eq
  have hmk := maxKey_eq
  unfold Ctx.new_keyed at h
  split at h
  · cases h
  · split at h
    · cases h
    · rename_i hk
      split at h
      · cases h
      · split at h
        · cases h
          refine ⟨?_, Nat.le_refl _⟩
          show (setSlice _ 0 key).length = _
          rw [Cx.Proofs.Blake2.setSlice_length _ _ _ (by simp [zeros]; omega)]
          simp [zeros]
        · cases h
          exact ⟨by simp [zeros], Nat.zero_le _⟩

theorem ctx_update_mut_inv (c c' : Ctx UInt32) (input : Bytes) (hi : Inv s c) (h : Ctx.update_mut s .wrapping c input = some c') :
    Inv s c' := by
  obtain ⟨hbl, hle⟩ := hi
  have hbb := bb_eq
  unfold Ctx.update_mut at h
  by_cases he : input.isEmpty = true
  · rw [if_pos he] at h; cases h; exact ⟨hbl, hle⟩
  · rw [if_neg he] at h
    by_cases hfill : input.length > s.bb - c.buflen
    · simp only [hfill, if_true] at h
      cases hinc : Engine.increment_counter Profile.wrapping c.eng s.bb with
      | none => simp [hinc] at h
      | some e1 =>
        simp only [hinc] at h
        have hsl : (setSlice c.buf c.buflen (input.take (s.bb - c.buflen))).length = c.buf.length :=
          Cx.Proofs.Blake2.setSlice_length _ _ _ (by simp; omega)
        split at h
        · cases h
        · rename_i e2 rest hloop
          have hrest := update_loop_rest s Profile.wrapping (by decide) _ _ _ _ _ (Nat.le_refl _) hloop
          cases h
          refine ⟨?_, by show 0 + rest.length ≤ _; omega⟩
          show (setSlice _ 0 rest).length = _
          rw [Cx.Proofs.Blake2.setSlice_length _ _ _ (by omega), hsl, hbl]
    · simp only [hfill, if_false] at h
      cases h
      refine ⟨?_, by show c.buflen + input.length ≤ _; omega⟩
      show (setSlice _ _ input).length = _
      rw [Cx.Proofs.Blake2.setSlice_length _ _ _ (by omega), hbl]

theorem ctx_reset_inv (c : Ctx UInt32) (n : Nat) (hi : Inv s c) : Inv s (Ctx.reset s c n) := by
  refine ⟨?_, Nat.zero_le _⟩
  show (zeroFrom c.buf 0).length = _
  rw [Cx.Proofs.Blake2.zeroFrom_length _ _ (Nat.zero_le _), hi.1]

theorem ctx_reset_with_key_inv (c c' : Ctx UInt32) (n : Nat) (key : Bytes) (hi : Inv s c)
    (h : Ctx.reset_with_key s c n key = some c') : Inv s c' := by
  have hbb := bb_eq
  have hmk := maxKey_eq
  unfold Ctx.reset_with_key at h
  split at h
  · cases h
  · split at h
    · cases h
      have hzl : (zeroFrom c.buf 0).length = c.buf.length := Cx.Proofs.Blake2.zeroFrom_length _ _ (Nat.zero_le _)
      refine ⟨?_, Nat.le_refl _⟩
      show (setSlice _ 0 key).length = _
      rw [Cx.Proofs.Blake2.setSlice_length _ _ _ (by have := hi.1; omega), hzl, hi.1]
    · cases h
      exact ⟨by simp [zeros], Nat.zero_le _⟩


/-! ### `ContextDyn` -/

/-- invariant of `ContextDyn`: the buffer invariant and `outlen ≤ MAX_OUTLEN` (asserted by `new`/`new_keyed`, never changed) -/
def DynInv (d : ContextDyn UInt32) : Prop := Inv s d.ctx ∧ d.outlen ≤ s.maxOut

theorem dyn_new_keyed_src_eq_model (n : Nat) (key : Bytes) : ContextDyn.new_keyed_src n key = ContextDyn.new_keyed s n key := by
  unfold ContextDyn.new_keyed_src ContextDyn.new_keyed Ctx.new_keyed
  simp only [consts_src_eq_model.1, consts_src_eq_model.2.1, consts_src_eq_model.2.2.1, Option.bind_eq_bind, Option.pure_def,
    engine_new_src_eq_model]
  by_cases h1 : n > 0
  · by_cases h2 : n ≤ s.maxOut
    · by_cases h3 : key.length ≤ s.maxKey
      · simp only [h1, h2, h3, and_self, not_true_eq_false, if_false]
        cases Engine.new s n key.length with
        | none => rfl
        | some eng =>
          simp only [Option.bind_some]
          by_cases hk : key.isEmpty = true
          · simp [hk]
          · have : copyInto (zeros s.bb) 0 key.length key = some (setSlice (zeros s.bb) 0 key) :=
              copyInto_setSlice (by simp) (by rw [maxKey_eq] at h3; simp [zeros, bb_eq]; omega)
            simp [hk, this]
      · simp [h1, h2, h3]
    · simp [h1, h2]
  · simp [h1]

theorem dyn_new_src_eq_model (n : Nat) : ContextDyn.new_src n = ContextDyn.new s n := by
  unfold ContextDyn.new_src ContextDyn.new
  simp only [consts_src_eq_model.2.1, dyn_new_keyed_src_eq_model, Option.bind_eq_bind, Option.pure_def]
  by_cases h1 : n > 0 <;> by_cases h2 : n ≤ s.maxOut <;> simp [h1, h2]

theorem dyn_update_loop_eq (fill : Nat) : ∀ (m n : Nat) (d : ContextDyn UInt32) (input : Bytes), input.length < m → input.length ≤ n →
    whileLoop (ContextDyn.update_mut_src_while1 fill) m (d, input) =
      (Ctx.update_loop s .wrapping n d.ctx.eng input).bind fun p => some ({ d with ctx := { d.ctx with eng := p.1 } }, p.2) := by
  intro m
  induction m with
  | zero => intro n c input h; omega
  | succ m ih =>
    intro n d input hm hn
    rw [whileLoop]
    simp only [ContextDyn.update_mut_src_while1, consts_src_eq_model.1, consts_src_eq_model.2.2.2, engine_increment_counter_src_eq_model,
      Option.bind_eq_bind, Option.pure_def]
    by_cases hlen : input.length > s.bb
    · have hbb := bb_eq
      cases n with
      | zero => omega
      | succ n =>
        rw [Ctx.update_loop]
        simp only [hlen, if_true]
        cases hinc : Engine.increment_counter Profile.wrapping d.ctx.eng s.bb with
        | none => simp
        | some e1 =>
          simp only [Option.bind_some, slice_take (Nat.le_of_lt hlen), sliceFrom_eq (Nat.le_of_lt hlen)]
          rw [ih n _ _ (by simp; omega) (by simp; omega)]
    · simp only [hlen, if_false, Option.bind_some]
      cases n with
      | zero => simp [Ctx.update_loop]
      | succ n => simp [Ctx.update_loop, hlen]

theorem dyn_update_mut_src_eq_model (d : ContextDyn UInt32) (input : Bytes) (hi : DynInv d) :
    ContextDyn.update_mut_src d input = ContextDyn.update_mut s .wrapping d input := by
  obtain ⟨⟨hbl, hle⟩, _⟩ := hi
  have hbb := bb_eq
  unfold ContextDyn.update_mut_src ContextDyn.update_mut Ctx.update_mut
  simp only [consts_src_eq_model.1, consts_src_eq_model.2.2.2, engine_increment_counter_src_eq_model, Option.bind_eq_bind,
    Option.pure_def]
  by_cases he : input.isEmpty = true
  · simp [he]
  · simp only [he, if_false, usub_le hle, Option.bind_some, Bool.false_eq_true]
    by_cases hfill : input.length > s.bb - d.ctx.buflen
    · simp only [hfill, if_true]
      have h1 : slice input 0 (s.bb - d.ctx.buflen) = some (input.take (s.bb - d.ctx.buflen)) := slice_take (Nat.le_of_lt hfill)
      have h2 : usizechk (d.ctx.buflen + (s.bb - d.ctx.buflen)) = some (d.ctx.buflen + (s.bb - d.ctx.buflen)) := usizechk_lt (by omega)
      have h3 : copyInto d.ctx.buf d.ctx.buflen (d.ctx.buflen + (s.bb - d.ctx.buflen)) (input.take (s.bb - d.ctx.buflen)) =
          some (setSlice d.ctx.buf d.ctx.buflen (input.take (s.bb - d.ctx.buflen))) :=
        copyInto_setSlice (by simp; omega) (by simp; omega)
      simp only [h1, h2, h3, Option.bind_some]
      cases hinc : Engine.increment_counter Profile.wrapping d.ctx.eng s.bb with
      | none => simp
      | some e1 =>
        have hsl : (setSlice d.ctx.buf d.ctx.buflen (input.take (s.bb - d.ctx.buflen))).length = d.ctx.buf.length :=
          Cx.Proofs.Blake2.setSlice_length _ _ _ (by simp; omega)
        simp only [Option.bind_some,
          slice_take (show s.bb ≤ (setSlice d.ctx.buf d.ctx.buflen (input.take (s.bb - d.ctx.buflen))).length by omega),
          sliceFrom_eq (Nat.le_of_lt hfill)]
        rw [dyn_update_loop_eq (s.bb - d.ctx.buflen) _ (input.drop (s.bb - d.ctx.buflen)).length _ _ (by omega) (Nat.le_refl _)]
        cases hloop : Ctx.update_loop s Profile.wrapping (input.drop (s.bb - d.ctx.buflen)).length
            (Engine.compress s e1 (List.take s.bb (setSlice d.ctx.buf d.ctx.buflen (input.take (s.bb - d.ctx.buflen)))) LastBlock.No)
            (input.drop (s.bb - d.ctx.buflen)) with
        | none => simp
        | some p =>
          obtain ⟨e2, rest⟩ := p
          have hrest := update_loop_rest s Profile.wrapping (by decide) _ _ _ _ _ (Nat.le_refl _) hloop
          have h5 : usizechk (0 + rest.length) = some (0 + rest.length) := usizechk_lt (by omega)
          have h6 : copyInto (setSlice d.ctx.buf d.ctx.buflen (input.take (s.bb - d.ctx.buflen))) 0 (0 + rest.length) rest =
              some (setSlice (setSlice d.ctx.buf d.ctx.buflen (input.take (s.bb - d.ctx.buflen))) 0 rest) :=
            copyInto_setSlice rfl (by omega)
          simp only [Option.bind_some, h5, h6]
    · simp only [hfill, if_false, Option.bind_some]
      have h2 : usizechk (d.ctx.buflen + input.length) = some (d.ctx.buflen + input.length) := usizechk_lt (by omega)
      have h3 : copyInto d.ctx.buf d.ctx.buflen (d.ctx.buflen + input.length) input = some (setSlice d.ctx.buf d.ctx.buflen input) :=
        copyInto_setSlice rfl (by omega)
      simp only [h2, h3, Option.bind_some]


theorem dyn_update_src_eq_model (d : ContextDyn UInt32) (input : Bytes) (hi : DynInv d) :
    ContextDyn.update_src d input = ContextDyn.update s .wrapping d input := by
  unfold ContextDyn.update_src ContextDyn.update
  rw [dyn_update_mut_src_eq_model d input hi]

theorem dyn_internal_final_src_eq_model (d : ContextDyn UInt32) (hi : DynInv d) :
    ContextDyn.internal_final_src d = (Ctx.internal_final s .wrapping d.ctx).bind fun x => some { d with ctx := x } := by
  obtain ⟨⟨hbl, hle⟩, _⟩ := hi
  have hbb := bb_eq
  unfold ContextDyn.internal_final_src Ctx.internal_final
  simp only [consts_src_eq_model.1, engine_increment_counter_src_eq_model, Option.bind_eq_bind, Option.pure_def]
  have hw : Cx.Spec.Blake2.Word.bits UInt32 = 32 := rfl
  rw [hw]
  cases hinc : Engine.increment_counter Profile.wrapping d.ctx.eng (d.ctx.buflen % 2 ^ 32) with
  | none => rfl
  | some e1 =>
    have hzl : (zeroFrom d.ctx.buf d.ctx.buflen).length = d.ctx.buf.length := Cx.Proofs.Blake2.zeroFrom_length _ _ (by omega)
    simp only [Option.bind_some, slice_to_end (show d.ctx.buflen ≤ d.ctx.buf.length by omega),
      copyInto_zeroFrom (show d.ctx.buflen ≤ d.ctx.buf.length by omega) rfl,
      slice_take (show s.bb ≤ (zeroFrom d.ctx.buf d.ctx.buflen).length by omega),
      slice_take (show 32 ≤ (zeroFrom d.ctx.buf d.ctx.buflen).length by omega)]
    have hlen : ((Engine.compress s e1 (List.take s.bb (zeroFrom d.ctx.buf d.ctx.buflen)) LastBlock.Yes).h.toList.flatMap u32le).length = 32 := by
      rw [← toLE_eq_u32le, Cx.Proofs.Blake2.hbytes_length]; rfl
    have hw8 : write_u32v_le (List.take 32 (zeroFrom d.ctx.buf d.ctx.buflen))
        (Engine.compress s e1 (List.take s.bb (zeroFrom d.ctx.buf d.ctx.buflen)) LastBlock.Yes).h.toList =
        some ((Engine.compress s e1 (List.take s.bb (zeroFrom d.ctx.buf d.ctx.buflen)) LastBlock.Yes).h.toList.flatMap u32le) := by
      unfold write_u32v_le
      rw [if_pos (by simp; omega)]
    simp only [hw8, Option.bind_some]
    rw [copyInto_setSlice (by rw [hlen]) (by rw [hlen]; omega)]
    rfl

theorem dyn_reset_src_eq_model (d : ContextDyn UInt32) : ContextDyn.reset_src d = some (ContextDyn.reset s d) := by
  unfold ContextDyn.reset_src ContextDyn.reset Ctx.reset
  have hz := zero_all d.ctx.buf
  rw [slice_to_end (Nat.zero_le _)] at hz
  simp only [Option.bind_some] at hz
  simp only [engine_reset_src_eq_model, Option.bind_eq_bind, Option.bind_some, Option.pure_def, slice_to_end (Nat.zero_le _), hz]

theorem dyn_reset_with_key_src_eq_model (d : ContextDyn UInt32) (key : Bytes) (hi : DynInv d) :
    ContextDyn.reset_with_key_src d key = ContextDyn.reset_with_key s d key := by
  obtain ⟨⟨hbl, hle⟩, _⟩ := hi
  have hbb := bb_eq
  unfold ContextDyn.reset_with_key_src ContextDyn.reset_with_key Ctx.reset_with_key
  have hz := zero_all d.ctx.buf
  rw [slice_to_end (Nat.zero_le _)] at hz
  simp only [Option.bind_some] at hz
  simp only [engine_reset_src_eq_model, Option.bind_eq_bind, Option.bind_some, Option.pure_def,
    slice_to_end (Nat.zero_le _), hz, consts_src_eq_model.1, consts_src_eq_model.2.2.1]
  by_cases hk : key.length ≤ s.maxKey
  · simp only [hk, not_true_eq_false, if_false]
    by_cases hke : key.isEmpty = true
    · simp [hke]
    · have hzl : (zeroFrom d.ctx.buf 0).length = d.ctx.buf.length := Cx.Proofs.Blake2.zeroFrom_length _ _ (by omega)
      have : copyInto (zeroFrom d.ctx.buf 0) 0 key.length key = some (setSlice (zeroFrom d.ctx.buf 0) 0 key) :=
        copyInto_setSlice (by simp) (by rw [maxKey_eq] at hk; omega)
      simp [hke, this]
  · simp [hk]

theorem dyn_finalize_at_src_eq_model (d : ContextDyn UInt32) (out : Bytes) (hi : DynInv d) :
    ContextDyn.finalize_at_src d out = ContextDyn.finalize_at s .wrapping d out.length := by
  have hmo := maxOut_eq
  unfold ContextDyn.finalize_at_src ContextDyn.finalize_at Ctx.finalize_at
  simp only [dyn_internal_final_src_eq_model d hi, Option.bind_eq_bind, Option.bind_some, Option.pure_def]
  by_cases hl : out.length = d.outlen
  · simp only [hl, not_true_eq_false, if_false, ne_eq]
    cases hf : Ctx.internal_final s Profile.wrapping d.ctx with
    | none => rfl
    | some c' =>
      have hp := ctx_finalize_prefix d.ctx out hi.1 (by have := hi.2; omega) c' hf
      rw [hl] at hp
      simp only [Option.bind_some]
      cases hs : slice c'.buf 0 d.outlen with
      | none => simp [hs] at hp
      | some t3 =>
        simp only [hs, Option.bind_some] at hp
        simp only [Option.bind_some, hp]
  · simp [hl]

theorem dyn_finalize_reset_at_src_eq_model (d : ContextDyn UInt32) (out : Bytes) (hi : DynInv d) :
    ContextDyn.finalize_reset_at_src d out = ContextDyn.finalize_reset_at s .wrapping d out.length := by
  have hmo := maxOut_eq
  unfold ContextDyn.finalize_reset_at_src ContextDyn.finalize_reset_at Ctx.finalize_reset_at
  simp only [dyn_internal_final_src_eq_model d hi, Option.bind_eq_bind, Option.bind_some, Option.pure_def]
  by_cases hl : out.length = d.outlen
  · simp only [hl, not_true_eq_false, if_false, ne_eq]
    cases hf : Ctx.internal_final s Profile.wrapping d.ctx with
    | none => rfl
    | some c' =>
      have hp := ctx_finalize_prefix d.ctx out hi.1 (by have := hi.2; omega) c' hf
      rw [hl] at hp
      simp only [Option.bind_some]
      cases hs : slice c'.buf 0 d.outlen with
      | none => simp [hs] at hp
      | some t3 =>
        simp only [hs, Option.bind_some] at hp
        simp only [Option.bind_some, hp, dyn_reset_src_eq_model]
        rfl
  · simp [hl]

theorem dyn_finalize_reset_with_key_at_src_eq_model (d : ContextDyn UInt32) (key out : Bytes) (hi : DynInv d) :
    ContextDyn.finalize_reset_with_key_at_src d key out = ContextDyn.finalize_reset_with_key_at s .wrapping d key out.length := by
  have hmo := maxOut_eq
  unfold ContextDyn.finalize_reset_with_key_at_src ContextDyn.finalize_reset_with_key_at Ctx.finalize_reset_with_key_at
  simp only [dyn_internal_final_src_eq_model d hi, Option.bind_eq_bind, Option.bind_some, Option.pure_def]
  by_cases hl : out.length = d.outlen
  · simp only [hl, not_true_eq_false, if_false, ne_eq]
    cases hf : Ctx.internal_final s Profile.wrapping d.ctx with
    | none => rfl
    | some c' =>
      have hp := ctx_finalize_prefix d.ctx out hi.1 (by have := hi.2; omega) c' hf
      have hi' := internal_final_shape d.ctx c' hi.1 hf
      rw [hl] at hp
      simp only [Option.bind_some]
      cases hs : slice c'.buf 0 d.outlen with
      | none => simp [hs] at hp
      | some t3 =>
        simp only [hs, Option.bind_some] at hp
        have hd' : DynInv { d with ctx := c' } := ⟨hi', hi.2⟩
        simp only [Option.bind_some, hp, dyn_reset_with_key_src_eq_model _ key hd']
        unfold ContextDyn.reset_with_key
        cases Ctx.reset_with_key s c' d.outlen key <;> rfl
  · simp [hl]

theorem dyn_output_bits_src_eq_model (d : ContextDyn UInt32) (hi : DynInv d) :
    ContextDyn.output_bits_src d = some (ContextDyn.output_bits d) := by
  have hmo := maxOut_eq
  unfold ContextDyn.output_bits_src ContextDyn.output_bits
  have := hi.2
  simp [usizechk_lt (show d.outlen * 8 < 2 ^ 64 by omega)]


theorem dyn_new_keyed_inv (n : Nat) (key : Bytes) (d : ContextDyn UInt32) (h : ContextDyn.new_keyed s n key = some d) : DynInv d := by
  unfold ContextDyn.new_keyed at h
  cases hc : Ctx.new_keyed s n key with
  | none => simp [hc] at h
  | some c =>
    simp only [hc, Option.some.injEq] at h
    subst h
    refine ⟨ctx_new_keyed_inv n key c hc, ?_⟩
    show n ≤ s.maxOut
    unfold Ctx.new_keyed at hc
    split at hc
    · cases hc
    · rename_i hn; simp at hn; exact hn.2

theorem dyn_update_mut_inv (d d' : ContextDyn UInt32) (input : Bytes) (hi : DynInv d)
    (h : ContextDyn.update_mut s .wrapping d input = some d') : DynInv d' := by
  unfold ContextDyn.update_mut at h
  cases hc : Ctx.update_mut s .wrapping d.ctx input with
  | none => simp [hc] at h
  | some c =>
    simp only [hc, Option.some.injEq] at h
    subst h
    exact ⟨ctx_update_mut_inv d.ctx c input hi.1 hc, hi.2⟩

theorem dyn_reset_inv (d : ContextDyn UInt32) (hi : DynInv d) : DynInv (ContextDyn.reset s d) :=
  ⟨ctx_reset_inv d.ctx d.outlen hi.1, hi.2⟩

theorem dyn_reset_with_key_inv (d d' : ContextDyn UInt32) (key : Bytes) (hi : DynInv d)
    (h : ContextDyn.reset_with_key s d key = some d') : DynInv d' := by
  unfold ContextDyn.reset_with_key at h
  cases hc : Ctx.reset_with_key s d.ctx d.outlen key with
  | none => simp [hc] at h
  | some c =>
    simp only [hc, Option.some.injEq] at h
    subst h
    exact ⟨ctx_reset_with_key_inv d.ctx c d.outlen key hi.1 hc, hi.2⟩

theorem alg_new_src_eq_model (BITS : Nat) : Algorithm.new_src BITS = Context.new s BITS := by
  unfold Algorithm.new_src
  rw [ctx_new_src_eq_model]

theorem alg_new_keyed_src_eq_model (BITS : Nat) (key : Bytes) : Algorithm.new_keyed_src BITS key = Context.new_keyed s BITS key := by
  unfold Algorithm.new_keyed_src
  rw [ctx_new_keyed_src_eq_model]

end S

end Blake2Part

end Cx.Proofs.GlueSponge
