/-
  Proofs.Ed25519_32Verify — `ed25519::verify` and `ed25519::exchange` on the 32-BIT backends (Impl/Ed25519_32.lean):
  `verify` decides exactly the Spec predicate (cofactorless equation, canonical S, decodable non-zero key), `exchange` is
  X25519 of the pruned hashed secret with the mapped key.  Counterpart of Proofs/Ed25519Verify.lean and
  Proofs/Ed25519Exchange.lean; the decision logic lemmas (`or_fold_zero`, `dsm_point_eq`) are reused.  The callee facts
  are the THEOREMS of the 32-bit development: Proofs/Ge32Decode.lean (`Ge::from_bytes`), Proofs/Ge32Dsm.lean
  (`double_scalarmult_vartime`), Proofs/Scalar32Canon.lean (`from_bytes_canonical` accepts exactly `le(b) < L`),
  Proofs/Ed25519_32Sign.lean (scalar layer), Proofs/X25519_32Ladder.lean (the ladder).
-/
import CxVerif.Proofs.Ed25519_32Sign
import CxVerif.Proofs.Ge32Decode
import CxVerif.Proofs.Ge32Dsm
import CxVerif.Proofs.X25519_32Ladder
import CxVerif.Proofs.Scalar32Canon
import CxVerif.Proofs.Ed25519Verify
namespace Cx.Proofs.Ed25519_32Verify
open Cx Cx.Spec Cx.Impl.Ge32 Cx.Impl.Ed25519_32 Cx.Proofs.EdSpec Cx.Proofs.Ge32Refine Cx.Proofs.Ge32Comb
  Cx.Proofs.Ed25519Sha Cx.Proofs.Ed25519_32Sign
open Cx.Proofs.Fe32 (eval W some_bind pure_eq_some)
open Cx.Impl.Scalar32 (Scalar)
open Cx.Impl.Ed25519 (sha512_1 sha512_2 sha512_3 extended_secret extended_scalar_bytes)
open Cx.Proofs.GeComb (GroupLawFact)
open Cx.Proofs.Ed25519Sign (extended_secret_eq expandSeed_length expandSeed_take sha512_length clamp_length
  encode_length)
open Cx.Proofs.Ed25519Verify (or_fold_zero dsm_point_eq)
open Cx.Spec.Field25519 (p)
open Cx.Spec.ScalarL (L)

set_option maxRecDepth 10000

/-- `Scalar::from_bytes_canonical` accepts exactly the encodings of values below L (and keeps the bytes) -/
theorem canonical_ok (b : Bytes) (hb : b.length = 32) :
    ∃ s : Scalar, sval s = leNat b ∧
      Impl.Scalar32.fromBytesCanonical b = some (if leNat b < L then some s else none) := by
  obtain ⟨v, hv, hl⟩ := toArr_some 32 b hb
  refine ⟨v, by unfold sval; rw [hl], ?_⟩
  unfold Impl.Scalar32.fromBytesCanonical
  rw [hv, Option.map_some, Proofs.Scalar32.from_bytes_canonical_spec v]
  unfold Spec.ScalarL.decode Impl.Scalar32.from_bytes
  rw [hl]

section main
variable [hp : Fact (Nat.Prime p)] [hG : GroupLawFact]

/-- `verify` computes the Spec predicate -/
theorem verify_eq (msg pk sig : Bytes) (hpk : pk.length = 32) (hsig : sig.length = 64) (hm : msg.length < 2 ^ 124) :
    verify msg pk sig = some (Spec.Ed25519.verify msg pk sig) := by
  have hLt : L < 2 ^ 255 := by decide +kernel
  have hLpos : 0 < L := by decide +kernel
  unfold verify Spec.Ed25519.verify Spec.Ed25519.verifyWith
  rw [if_pos ⟨hpk, hsig⟩]
  have hdec := Proofs.Ge32Decode.from_bytes_refines_decode pk hpk
  cases hd : Edwards.decode pk with
  | none =>
    rw [hd] at hdec
    rw [hdec, some_bind]
    rfl
  | some A =>
    rw [hd] at hdec
    obtain ⟨hA, g, eg, gok⟩ := hdec
    rw [eg, some_bind]
    dsimp only
    obtain ⟨a, ea, aok⟩ := negate_ok g A gok
    rw [ea, some_bind]
    obtain ⟨S, Sval, ecan⟩ := canonical_ok (sig.drop 32) (by simp [hsig])
    rw [ecan, some_bind]
    by_cases hSL : leNat (sig.drop 32) < L
    · rw [if_pos hSL]
      dsimp only
      rw [or_fold_zero pk, hpk]
      by_cases hz : pk = zeros 32
      · simp [hz]
      · have hcond : sig.length = 64 ∧ leNat (sig.drop 32) < Spec.Ed25519.L ∧ pk ≠ zeros 32 := ⟨hsig, hSL, hz⟩
        rw [if_pos hcond]
        simp only [hz, decide_false, Bool.false_eq_true, if_false]
        rw [sha512_3_eq _ _ _ (by simp [hpk, hsig]; omega), some_bind]
        obtain ⟨k, ek, kval⟩ := reduceWide_ok _ (sha512_length (sig.take 32 ++ pk ++ msg))
        rw [ek, some_bind]
        have hkL : sval k < L := by rw [kval]; exact Nat.mod_lt _ hLpos
        obtain ⟨r, er, rok⟩ := Proofs.Ge32Dsm.dsm_ok k S a (Edwards.neg A) (by show sval k < _; omega)
          (by show sval S < _; rw [Sval]; omega) aok (neg_onCurve A hA)
        rw [er, some_bind]
        change PartialOk r (Edwards.add (Edwards.smul (sval k) (Edwards.neg A)) (Edwards.smul (sval S) Edwards.B)) at rok
        rw [dsm_point_eq (sval k) (sval S) A hA] at rok
        have hc : OnCurve (Edwards.sub (Edwards.smul (sval S) Edwards.B) (Edwards.smul (sval k) A)) := by
          unfold Edwards.sub
          exact hG.out.closed _ _ (smul_onCurve hG.out _ _ Proofs.Ge.B_spec.1)
            (neg_onCurve _ (smul_onCurve hG.out _ _ hA))
        obtain ⟨hx, hy, _⟩ := (onCurve_iff _).1 hc
        rw [Proofs.Ge32Bytes.partial_to_bytes_ok r _ rok hx hy, some_bind, pure_eq_some]
        rw [Cx.Props.C18.array_u8_ct_eq_spec _ _ (by rw [encode_length]; simp [hsig])]
        rw [Sval, kval]
        unfold Spec.Ed25519.H Spec.Ed25519.L
        rw [beq_eq_decide]
    · rw [if_neg hSL]
      have hcond : ¬ (sig.length = 64 ∧ leNat (sig.drop 32) < Spec.Ed25519.L ∧ pk ≠ zeros 32) :=
        fun h => hSL h.2.1
      rw [if_neg hcond]
      rfl

end main

/-! ### exchange -/

theorem edwards_to_montgomery_x_eq (y : Impl.Fe32.Fe) (hy : W 1 y) :
    ∃ m, edwards_to_montgomery_x y = some m ∧ W 1 m ∧ eval m = Spec.Ed25519.edwardsToMontgomeryU (eval y) := by
  have t1 := Proofs.Fe32.ONE_spec.1
  unfold edwards_to_montgomery_x
  dsimp only
  obtain ⟨a, e, ta, va⟩ := Proofs.Fe32.add_specN Impl.Fe32.Fe.ONE y t1 hy; rw [e, some_bind]
  obtain ⟨b, e, tb, vb⟩ := Proofs.Fe32.sub_specN Impl.Fe32.Fe.ONE y t1 hy; rw [e, some_bind]
  obtain ⟨c, e, tc, vc⟩ := Proofs.Fe32.invert_spec b tb.w3; rw [e, some_bind]
  obtain ⟨d, e, td, vd⟩ := Proofs.Fe32.mul_spec a c ta.w3 tc.w3
  refine ⟨d, e, td, ?_⟩
  rw [vd, va, vc, vb, Proofs.Fe32.ONE_spec.2]
  rfl

/-- `exchange(pk, seed)` for 32-byte arguments -/
theorem exchange_eq (pk seed : Bytes) (hpk : pk.length = 32) (hs : seed.length = 32) :
    exchange pk seed = some (Spec.Ed25519.exchange pk seed) := by
  obtain ⟨y, ey, ty, _, vy⟩ := Proofs.Fe32.from_bytes_spec pk hpk
  obtain ⟨m, em, tm, vm⟩ := edwards_to_montgomery_x_eq y ty
  unfold exchange
  have hfb : Impl.Fe32.fromBytes pk = some y := by
    unfold Impl.Fe32.fromBytes; rw [dif_pos hpk]; exact ey
  rw [hfb, some_bind, em, some_bind, extended_secret_eq seed hs, some_bind]
  have hn : extended_scalar_bytes (Spec.Ed25519.expandSeed seed) = some (Spec.Ed25519.clamp ((Spec.Ed25519.H seed).take 32)) := by
    unfold extended_scalar_bytes; rw [if_pos (expandSeed_length seed), expandSeed_take]
  rw [hn, some_bind, Proofs.Fe32.to_bytes_spec m tm.w6, some_bind]
  have hl : (Spec.Ed25519.clamp ((Spec.Ed25519.H seed).take 32)).length = 32 ∧
      (Field25519.encode (eval m)).length = 32 := by
    constructor
    · rw [clamp_length]; unfold Spec.Ed25519.H; simp [sha512_length]
    · exact Proofs.Fe64.natToLE_length _ _
  rw [dif_pos hl, Proofs.X25519_32.curve25519_eq, vm, vy]
  rfl

end Cx.Proofs.Ed25519_32Verify
