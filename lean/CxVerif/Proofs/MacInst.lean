/-
  Proofs.MacInst — the context contract (`Proofs.MacLegacy.CtxContract`) of the legacy wrappers' context types,
  obtained from the hash units' refinement theorems (`Proofs.HashProg.Refines`, Props/C02): SHA-1, RIPEMD-160 and
  the six SHA-2 contexts.  (The SHA-3 / Keccak contexts: see Props/C08/Hmac.lean — explicit hypothesis.)
-/
import CxVerif.Proofs.MacLegacy
import CxVerif.Proofs.HashProg
import CxVerif.Props.C02.Sha2
import CxVerif.Props.C02.Sha1Ripemd
namespace Cx.Proofs.MacInst
open Cx Cx.Impl.Digest Cx.Proofs.MacObj Cx.Proofs.MacLegacy Cx.Proofs.HashProg

/-- a `Refines` fact about the family the `hctx` ops run is a `CtxContract` for a wrapper model with the same methods -/
theorem ctxContract_of_refines {γ : Type} (M : CtxModel γ) (F : Cx.HashProg.Family γ) (H : Fn) (R : γ → Bytes → Prop)
    (ok : Bytes → Prop) (h : Refines F H R ok)
    (e1 : M.new = F.new) (e2 : M.update_mut = F.update_mut) (e3 : M.reset = F.reset)
    (e4 : M.finalize_reset = F.finalize_reset) (hl : ∀ m, (H m).length = (M.OUTPUT_BITS + 7) / 8) :
    CtxContract M H R ok where
  new := e1 ▸ h.new
  update_mut := by rw [e2]; exact h.update_mut
  reset := by rw [e3]; exact h.reset
  finalize_reset := by rw [e4]; exact h.finalize_reset
  out_len := fun m _ => hl m

theorem natToLE_length (n v : Nat) : (natToLE n v).length = n := by
  induction n generalizing v with
  | zero => rfl
  | succ n ih => simp [natToLE, ih]

theorem natToBE_length (n v : Nat) : (natToBE n v).length = n := by simp [natToBE, natToLE_length]

theorem w32_length (h : Spec.Sha2.W8 UInt32) : (Spec.Sha2.wordsToBytes32 h).length = 32 := by
  simp [Spec.Sha2.wordsToBytes32, Spec.Sha2.W8.toList, u32be, natToBE_length]
theorem w64_length (h : Spec.Sha2.W8 UInt64) : (Spec.Sha2.wordsToBytes64 h).length = 64 := by
  simp [Spec.Sha2.wordsToBytes64, Spec.Sha2.W8.toList, u64be, natToBE_length]

theorem sha256_length (m : Bytes) : (Spec.Sha2.sha256 m).length = 32 := w32_length _
theorem sha224_length (m : Bytes) : (Spec.Sha2.sha224 m).length = 28 := by simp [Spec.Sha2.sha224, w32_length]
theorem sha512_length (m : Bytes) : (Spec.Sha2.sha512 m).length = 64 := w64_length _
theorem sha384_length (m : Bytes) : (Spec.Sha2.sha384 m).length = 48 := by simp [Spec.Sha2.sha384, w64_length]
theorem sha512_224_length (m : Bytes) : (Spec.Sha2.sha512_224 m).length = 28 := by simp [Spec.Sha2.sha512_224, w64_length]
theorem sha512_256_length (m : Bytes) : (Spec.Sha2.sha512_256 m).length = 32 := by simp [Spec.Sha2.sha512_256, w64_length]
theorem sha1_length (m : Bytes) : (Spec.Sha1.sha1 m).length = 20 := by
  simp [Spec.Sha1.sha1, Spec.Sha1.Hash.toBytes, u32be, natToBE_length]
theorem ripemd160_length (m : Bytes) : (Spec.Ripemd160.ripemd160 m).length = 20 := by
  simp [Spec.Ripemd160.ripemd160, Spec.Ripemd160.Hash.toBytes, u32le, natToLE_length]

open Cx.Props.C02.Sha2 Cx.Props.C02.Sha1Ripemd

theorem sha1_ctx : CtxContract sha1Ctx Spec.Sha1.sha1 Cx.Proofs.Sha1Stream.Abs Cx.Props.C02.Sha1Ripemd.ok :=
  ctxContract_of_refines sha1Ctx Impl.Sha1.fam _ _ _ sha1_refines rfl rfl rfl rfl (by intro m; rw [sha1_length]; decide)

theorem ripemd160_ctx :
    CtxContract ripemd160Ctx Spec.Ripemd160.ripemd160 Cx.Proofs.Ripemd160Stream.Abs Cx.Props.C02.Sha1Ripemd.ok :=
  ctxContract_of_refines ripemd160Ctx Impl.Ripemd160.fam _ _ _ ripemd160_refines rfl rfl rfl rfl
    (by intro m; rw [ripemd160_length]; decide)

open Cx.Impl.Sha2 Cx.Proofs.Sha2Engine in
theorem sha256_ctx : CtxContract sha256Ctx Spec.Sha2.sha256 (fun c m => Abs256 Sha256.state c.engine m) ok256 :=
  ctxContract_of_refines sha256Ctx (fam256 Sha256) _ _ _ sha256_refines rfl rfl rfl rfl
    (by intro m; rw [sha256_length]; decide)

open Cx.Impl.Sha2 Cx.Proofs.Sha2Engine in
theorem sha224_ctx : CtxContract sha224Ctx Spec.Sha2.sha224 (fun c m => Abs256 Sha224.state c.engine m) ok256 :=
  ctxContract_of_refines sha224Ctx (fam256 Sha224) _ _ _ sha224_refines rfl rfl rfl rfl
    (by intro m; rw [sha224_length]; decide)

open Cx.Impl.Sha2 Cx.Proofs.Sha2Engine in
theorem sha512_ctx : CtxContract sha512Ctx Spec.Sha2.sha512 (fun c m => Abs512 Sha512.state c.engine m) ok512 :=
  ctxContract_of_refines sha512Ctx (fam512 Sha512) _ _ _ sha512_refines rfl rfl rfl rfl
    (by intro m; rw [sha512_length]; decide)

open Cx.Impl.Sha2 Cx.Proofs.Sha2Engine in
theorem sha384_ctx : CtxContract sha384Ctx Spec.Sha2.sha384 (fun c m => Abs512 Sha384.state c.engine m) ok512 :=
  ctxContract_of_refines sha384Ctx (fam512 Sha384) _ _ _ sha384_refines rfl rfl rfl rfl
    (by intro m; rw [sha384_length]; decide)

open Cx.Impl.Sha2 Cx.Proofs.Sha2Engine in
theorem sha512_224_ctx :
    CtxContract sha512_224Ctx Spec.Sha2.sha512_224 (fun c m => Abs512 Sha512Trunc224.state c.engine m) ok512 :=
  ctxContract_of_refines sha512_224Ctx (fam512 Sha512Trunc224) _ _ _ sha512_224_refines rfl rfl rfl rfl
    (by intro m; rw [sha512_224_length]; decide)

open Cx.Impl.Sha2 Cx.Proofs.Sha2Engine in
theorem sha512_256_ctx :
    CtxContract sha512_256Ctx Spec.Sha2.sha512_256 (fun c m => Abs512 Sha512Trunc256.state c.engine m) ok512 :=
  ctxContract_of_refines sha512_256Ctx (fam512 Sha512Trunc256) _ _ _ sha512_256_refines rfl rfl rfl rfl
    (by intro m; rw [sha512_256_length]; decide)

end Cx.Proofs.MacInst
