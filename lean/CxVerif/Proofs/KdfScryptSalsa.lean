/-
  Proofs.KdfScryptSalsa — the `salsa20_8` of src/scrypt.rs (Impl.Kdf: the 32 extracted `run_round!` rows, applied
  `rounds / 2` times, plus the feed-forward) equals the Salsa20/8 Core of RFC 7914 §3 (Spec.Kdf.salsa20_8 =
  Bernstein's x + doubleround^4(x)).

  Structure (no evaluation on symbolic words):
    * `qrows i j k l` — the four `run_round!` rows that Bernstein's quarterround on the words (i, j, k, l) expands to;
      `foldlM_qrows`: interpreting them = `Spec.Salsa.qround` (for pairwise distinct indices), proved once;
    * `colIdx`, `rowIdx` — the index quadruples of columnround / rowround, `doubleRound_eq_fold` (by `rfl`):
      `Spec.Salsa.doubleRound` = folding `qround` over them;
    * `table_eq` (closed, finite, by `decide`): the extracted row table = `(colIdx ++ rowIdx).flatMap qrows`;
    * `foldlM_flatMap_qrows`: interpreting a generated row table = folding quarterrounds, by induction over the table.
  Core Lean only.
-/
import CxVerif.Impl.Kdf
import CxVerif.Spec.Kdf
namespace Cx.Proofs.KdfScryptSalsa
open Cx Cx.Impl.Kdf Cx.Spec.Salsa

abbrev Quad := Fin 16 × Fin 16 × Fin 16 × Fin 16

/-- the `run_round!` rows `[set_idx, idx_a, idx_b, rot]` of quarterround(y_i, y_j, y_k, y_l):
    z_j = y_j ⊕ ((y_i + y_l) <<< 7), z_k = y_k ⊕ ((z_j + y_i) <<< 9), z_l = y_l ⊕ ((z_k + z_j) <<< 13),
    z_i = y_i ⊕ ((z_l + z_k) <<< 18) -/
def qrows (q : Quad) : List (List Nat) :=
  match q with
  | (i, j, k, l) => [[j.val, i.val, l.val, 7], [k.val, j.val, i.val, 9], [l.val, k.val, j.val, 13], [i.val, l.val, k.val, 18]]

def distinct (q : Quad) : Prop :=
  match q with
  | (i, j, k, l) => i ≠ j ∧ i ≠ k ∧ i ≠ l ∧ j ≠ k ∧ j ≠ l ∧ k ≠ l

instance (q : Quad) : Decidable (distinct q) := by
  obtain ⟨i, j, k, l⟩ := q
  unfold distinct
  exact inferInstance

def qroundQ (s : State) (q : Quad) : State :=
  match q with
  | (i, j, k, l) => qround s i j k l

theorem run_round_row_eq (x : State) (s a b : Fin 16) (rot : Nat) :
    run_round_row x [s.val, a.val, b.val, rot] = some (x.set s.val (x[s] ^^^ rotl32 (x[a] + x[b]) rot) s.isLt) := by
  simp only [run_round_row]
  rw [dif_pos ⟨s.isLt, a.isLt, b.isLt⟩]
  rfl

/-- **interpreting the four rows of one quarterround = `qround`** (indices pairwise distinct) -/
theorem foldlM_qrows (x : State) (q : Quad) (hd : distinct q) :
    (qrows q).foldlM run_round_row x = some (qroundQ x q) := by
  obtain ⟨i, j, k, l⟩ := q
  obtain ⟨hij, hik, hil, hjk, hjl, hkl⟩ := hd
  have vij : i.val ≠ j.val := fun h => hij (Fin.ext h)
  have vik : i.val ≠ k.val := fun h => hik (Fin.ext h)
  have vil : i.val ≠ l.val := fun h => hil (Fin.ext h)
  have vjk : j.val ≠ k.val := fun h => hjk (Fin.ext h)
  have vjl : j.val ≠ l.val := fun h => hjl (Fin.ext h)
  have vkl : k.val ≠ l.val := fun h => hkl (Fin.ext h)
  simp only [qrows, List.foldlM_cons, List.foldlM_nil, run_round_row_eq, Option.bind_eq_bind, Option.bind_some,
    Option.pure_def, qroundQ, qround, quarterRound, Option.some.injEq]
  apply Vector.ext
  intro n hn
  simp only [Fin.getElem_fin, Vector.getElem_set]
  by_cases hni : i.val = n <;> by_cases hnj : j.val = n <;> by_cases hnk : k.val = n <;> by_cases hnl : l.val = n <;>
    simp_all [Ne.symm vij, Ne.symm vjk, Ne.symm vkl] <;> omega

/-- **interpreting a generated row table = folding quarterrounds** (by induction over the table) -/
theorem foldlM_flatMap_qrows : ∀ (qs : List Quad) (x : State), (∀ q ∈ qs, distinct q) →
    (qs.flatMap qrows).foldlM run_round_row x = some (qs.foldl qroundQ x) := by
  intro qs
  induction qs with
  | nil => intro x _; rfl
  | cons q qs ih =>
    intro x hd
    rw [List.flatMap_cons, List.foldlM_append, foldlM_qrows x q (hd q (List.mem_cons_self ..))]
    simp only [Option.bind_eq_bind, Option.bind_some, List.foldl_cons]
    exact ih _ (fun q' h => hd q' (List.mem_cons_of_mem _ h))

/-- §5 columnround: quarterrounds on (0,4,8,12), (5,9,13,1), (10,14,2,6), (15,3,7,11) -/
def colIdx : List Quad := [(0, 4, 8, 12), (5, 9, 13, 1), (10, 14, 2, 6), (15, 3, 7, 11)]
/-- §4 rowround: quarterrounds on (0,1,2,3), (5,6,7,4), (10,11,8,9), (15,12,13,14) -/
def rowIdx : List Quad := [(0, 1, 2, 3), (5, 6, 7, 4), (10, 11, 8, 9), (15, 12, 13, 14)]

theorem columnRound_eq_fold (x : State) : columnRound x = colIdx.foldl qroundQ x := rfl
theorem rowRound_eq_fold (x : State) : rowRound x = rowIdx.foldl qroundQ x := rfl

theorem doubleRound_eq_fold (x : State) : doubleRound x = (colIdx ++ rowIdx).foldl qroundQ x := by
  rw [List.foldl_append, ← columnRound_eq_fold, ← rowRound_eq_fold]; rfl

/-- **the extracted `run_round!` table is the table generated from the columnround/rowround index pattern**
    (a closed statement about 32 rows of four numbers) -/
theorem table_eq : Extracted.MacKdf.SCRYPT_SALSA = (colIdx ++ rowIdx).flatMap qrows := by decide

theorem idx_distinct : ∀ q ∈ colIdx ++ rowIdx, distinct q := by decide

/-- one `run_round!( … )` invocation = Bernstein's doubleround -/
theorem run_round_eq (x : State) : run_round x = some (doubleRound x) := by
  rw [run_round, table_eq, foldlM_flatMap_qrows _ x idx_distinct, doubleRound_eq_fold]

theorem salsa_rounds_eq : ∀ (k : Nat) (x : State), salsa_rounds k x = some (Spec.Stream.iter doubleRound k x) := by
  intro k
  induction k with
  | zero => intro x; rfl
  | succ k ih => intro x; simp only [salsa_rounds, run_round_eq, ih, Spec.Stream.iter]

theorem rounds_const : Extracted.MacKdf.SCRYPT_ROUNDS = 8 := rfl

theorem serialize_length (s : State) : (serialize s).length = 64 := by
  obtain ⟨⟨l⟩, hl⟩ := s
  simp only [serialize, Vector.toList_mk]
  have : ∀ (l : List UInt32), (l.flatMap u32le).length = 4 * l.length := by
    intro l
    induction l with
    | nil => rfl
    | cons a l ih => simp only [List.flatMap_cons, List.length_append, ih, List.length_cons]; simp [u32le, natToLE]; omega
  rw [this]; simp at hl; omega

theorem spec_salsa20_8_length (B : Bytes) : (Spec.Kdf.salsa20_8 B).length = 64 := serialize_length _

theorem ofFn_eq_map {α : Type} {n : Nat} (f : Fin n → α) : List.ofFn f = (List.finRange n).map f := by
  simp [List.finRange, List.map_ofFn, Function.comp_def]

/-- **`salsa20_8` (src/scrypt.rs) = Salsa20/8 Core (RFC 7914 §3)** for every 64-byte input -/
theorem salsa20_8_eq (input : Bytes) (h : input.length = 64) :
    salsa20_8 input = some (Spec.Kdf.salsa20_8 input) := by
  simp only [salsa20_8, h, rounds_const, salsa_rounds_eq, Spec.Kdf.salsa20_8, Spec.Salsa.hash, rounds, addState,
    serialize, Spec.Stream.word]
  simp only [Vector.toList_ofFn, ofFn_eq_map, List.flatMap_map, Fin.getElem_fin, Vector.getElem_ofFn, not_true_eq_false,
    if_false]

/-- the `read_u32v_le` assertion: any other input length panics -/
theorem salsa20_8_refuses (input : Bytes) (h : input.length ≠ 64) : salsa20_8 input = none := by
  simp only [salsa20_8]
  rw [if_pos (by omega)]

end Cx.Proofs.KdfScryptSalsa
