/-
  Proofs.GlueArgon2Params — helper lemmas for the translator tie of src/kdf/argon2.rs (Props/C11/GlueTieArgon2.lean):
  the `Params` builder chain, `Block`, `Memory` of Extracted/GlueArgon2.lean against Impl/Argon2.lean.  Core Lean only.
-/
import CxVerif.Extracted.GlueArgon2
namespace Cx.Proofs.GlueArgon2
open Cx Cx.Impl.Argon2 Cx.Extracted.GlueArgon2
open Cx.Spec.Argon2 (Block)

/-! ### Params -/

theorem parallelism_override_memory_src_eq (self : Params) :
    Params.parallelism_override_memory_src self = Params.parallelism_override_memory self := by
  simp only [Params.parallelism_override_memory_src, Params.parallelism_override_memory, SYNC_POINTS, Option.bind_eq_bind,
    Option.pure_def]
  cases h8 : mul32 8 self.parallelism with
  | none => rfl
  | some p8 =>
    simp only [Option.bind_some]
    by_cases hc : self.memory_kb < p8
    · simp only [hc, if_true]
      cases mul32 self.parallelism 4 with
      | none => rfl
      | some t3 =>
        simp only [Option.bind_some]
        cases divU p8 t3 with
        | none => rfl
        | some t4 =>
          simp only [Option.bind_some]
          cases mul32 t4 t3 with
          | none => rfl
          | some t6 =>
            simp only [Option.bind_some]
            cases mul32 t4 4 with
            | none => rfl
            | some t7 => rfl
    · simp only [hc, if_false]
      cases mul32 self.parallelism 4 with
      | none => rfl
      | some t3 =>
        simp only [Option.bind_some]
        cases divU self.memory_kb t3 with
        | none => rfl
        | some t4 =>
          simp only [Option.bind_some]
          cases mul32 t4 t3 with
          | none => rfl
          | some t6 =>
            simp only [Option.bind_some]
            cases mul32 t4 4 with
            | none => rfl
            | some t7 => rfl

theorem memory_kb_src_eq (self : Params) (memory_kb : Nat) : Params.memory_kb_src self memory_kb = self.memory_kb' memory_kb := by
  simp only [Params.memory_kb_src, Params.memory_kb', parallelism_override_memory_src_eq]
  rfl

theorem parallelism_src_eq (self : Params) (parallelism : Nat) :
    Params.parallelism_src self parallelism = self.parallelism' parallelism := by
  simp only [Params.parallelism_src, Params.parallelism', parallelism_override_memory_src_eq]
  rfl

theorem iterations_src_eq (self : Params) (iterations : Nat) :
    some (Params.iterations_src self iterations) = self.iterations' iterations := by
  simp only [Params.iterations_src, Params.iterations']
  split <;> rfl

theorem version_src_eq (self : Params) (version : Nat) : some (Params.version_src self version) = self.version' version := by
  simp only [Params.version_src, Params.version']
  split <;> rfl

/-! ### Memory -/

theorem memory_new_src_eq (params : Params) : Memory.new_src params = Memory.new params := by
  simp only [Memory.new_src, Memory.new, Option.bind_eq_bind, Option.pure_def]
  cases mul64 params.parallelism params.lane_length <;> rfl

theorem mut_block_index_set_src_eq (self : Memory) (index : Nat) (b : Block) :
    Memory.mut_block_index_set_src self index b = self.set_block_index index b := by
  simp only [Memory.mut_block_index_set_src, Memory.set_block_index]
  split <;> simp_all

theorem mut_block_at_set_src_eq (self : Memory) (row col : Nat) (b : Block) :
    Memory.mut_block_at_set_src self row col b = self.set_block_at row col b := by
  simp only [Memory.mut_block_at_set_src, Memory.set_block_at, Option.bind_eq_bind]
  cases mul64 row self.lane_length with
  | none => rfl
  | some t1 =>
    simp only [Option.bind_some]
    cases add64 t1 col with
    | none => rfl
    | some pos =>
      simp only [Option.bind_some]
      exact mut_block_index_set_src_eq self pos b

/-- the value behind `mut_block_at(row, col)` exists exactly when the assignment through it succeeds -/
theorem mut_block_at_get_isSome (self : Memory) (row col : Nat) (b : Block) :
    (Memory.mut_block_at_get_src self row col).isSome = (self.set_block_at row col b).isSome := by
  simp only [Memory.mut_block_at_get_src, Memory.set_block_at, Memory.set_block_index, Option.bind_eq_bind]
  cases mul64 row self.lane_length with
  | none => rfl
  | some t1 =>
    simp only [Option.bind_some]
    cases add64 t1 col with
    | none => rfl
    | some pos =>
      simp only [Option.bind_some]
      by_cases h : pos < self.blocks.size
      · simp [h]
      · simp [h]

end Cx.Proofs.GlueArgon2
