/-
  Proofs.KernelTieWords — small helper lemmas for the word-kernel tie theorems (Props/C01/KernelTie*.lean):
  a list / array of known length is a literal list of that many variables, and the `read_*v_*` primitives of the
  hand models return word lists of the requested length.  Core Lean only.
-/
import CxVerif.Util.Bytes
import CxVerif.Impl.FixedBuffer
namespace Cx.Proofs.KernelTieWords
open Cx

/-- a list of length 16 is `[a0, …, a15]` -/
theorem list16 {α : Type} (r : List α) (h : r.length = 16) :
    ∃ a0 a1 a2 a3 a4 a5 a6 a7 a8 a9 a10 a11 a12 a13 a14 a15,
      r = [a0, a1, a2, a3, a4, a5, a6, a7, a8, a9, a10, a11, a12, a13, a14, a15] := by
  rcases r with _ | ⟨a0, _ | ⟨a1, _ | ⟨a2, _ | ⟨a3, _ | ⟨a4, _ | ⟨a5, _ | ⟨a6, _ | ⟨a7, _ | ⟨a8, _ | ⟨a9, _ | ⟨a10,
    _ | ⟨a11, _ | ⟨a12, _ | ⟨a13, _ | ⟨a14, _ | ⟨a15, _ | ⟨a16, t⟩⟩⟩⟩⟩⟩⟩⟩⟩⟩⟩⟩⟩⟩⟩⟩⟩
  all_goals first
    | exact ⟨a0, a1, a2, a3, a4, a5, a6, a7, a8, a9, a10, a11, a12, a13, a14, a15, rfl⟩
    | (simp at h)
    | (simp at h; omega)

theorem chunksAux_length (n : Nat) (hn : 0 < n) : ∀ (fuel : Nat) (bs : Bytes), bs.length ≤ fuel →
    (chunksAux n fuel bs).length = (bs.length + (n - 1)) / n := by
  intro fuel
  induction fuel with
  | zero =>
    intro bs h
    have : bs = [] := List.eq_nil_of_length_eq_zero (Nat.le_zero.mp h)
    subst this
    simp [chunksAux]
    exact (Nat.div_eq_of_lt (by omega)).symm
  | succ f ih =>
    intro bs h
    unfold chunksAux
    by_cases he : bs.isEmpty = true
    · have : bs = [] := List.isEmpty_iff.mp he
      subst this
      simp
      exact (Nat.div_eq_of_lt (by omega)).symm
    · simp only [he]
      have hne : bs ≠ [] := fun hh => he (by simp [hh])
      have hpos : 0 < bs.length := List.length_pos_iff.mpr hne
      simp only [Bool.false_eq_true, ↓reduceIte, List.length_cons]
      rw [ih (bs.drop n) (by simp; omega)]
      simp only [List.length_drop]
      by_cases hle : n ≤ bs.length
      · have : bs.length + (n - 1) = (bs.length - n + (n - 1)) + n := by omega
        rw [this, Nat.add_div_right _ hn]
      · have h1 : bs.length - n = 0 := by omega
        rw [h1]
        have : (0 + (n - 1)) / n = 0 := Nat.div_eq_of_lt (by omega)
        rw [this]
        have : (bs.length + (n - 1)) / n = 1 := by
          have : bs.length + (n - 1) = (bs.length - 1) + n := by omega
          rw [this, Nat.add_div_right _ hn, Nat.div_eq_of_lt (by omega)]
        omega

theorem wordsBE32_length (bs : Bytes) : (wordsBE32 bs).length = (bs.length + 3) / 4 := by
  simp [wordsBE32, chunks, chunksAux_length 4 (by decide) _ _ (Nat.le_refl _)]
theorem wordsLE32_length (bs : Bytes) : (wordsLE32 bs).length = (bs.length + 3) / 4 := by
  simp [wordsLE32, chunks, chunksAux_length 4 (by decide) _ _ (Nat.le_refl _)]
theorem wordsBE64_length (bs : Bytes) : (wordsBE64 bs).length = (bs.length + 7) / 8 := by
  simp [wordsBE64, chunks, chunksAux_length 8 (by decide) _ _ (Nat.le_refl _)]
theorem wordsLE64_length (bs : Bytes) : (wordsLE64 bs).length = (bs.length + 7) / 8 := by
  simp [wordsLE64, chunks, chunksAux_length 8 (by decide) _ _ (Nat.le_refl _)]

/-- `read_u32v_be(dst, input)` returns `dst.len()` words -/
theorem read_u32v_be_length {n : Nat} {buf : Bytes} {w : List UInt32} (h : Impl.read_u32v_be n buf = some w) :
    w.length = n := by
  unfold Impl.read_u32v_be at h
  split at h
  · cases h
  · cases h; rw [wordsBE32_length]; omega

/-- `read_u64v_be(dst, input)` returns `dst.len()` words -/
theorem read_u64v_be_length {n : Nat} {buf : Bytes} {w : List UInt64} (h : Impl.read_u64v_be n buf = some w) :
    w.length = n := by
  unfold Impl.read_u64v_be at h
  split at h
  · cases h
  · cases h; rw [wordsBE64_length]; omega

/-- a list of length 25 is `[a0, …, a24]` -/
theorem list25 {α : Type} (r : List α) (h : r.length = 25) :
    ∃ a0 a1 a2 a3 a4 a5 a6 a7 a8 a9 a10 a11 a12 a13 a14 a15 a16 a17 a18 a19 a20 a21 a22 a23 a24,
      r = [a0, a1, a2, a3, a4, a5, a6, a7, a8, a9, a10, a11, a12, a13, a14, a15, a16, a17, a18, a19, a20, a21, a22, a23, a24] := by
  rcases r with _ | ⟨a0, _ | ⟨a1, _ | ⟨a2, _ | ⟨a3, _ | ⟨a4, _ | ⟨a5, _ | ⟨a6, _ | ⟨a7, _ | ⟨a8, _ | ⟨a9, _ | ⟨a10, _ | ⟨a11, _ | ⟨a12, _ | ⟨a13, _ | ⟨a14, _ | ⟨a15, _ | ⟨a16, _ | ⟨a17, _ | ⟨a18, _ | ⟨a19, _ | ⟨a20, _ | ⟨a21, _ | ⟨a22, _ | ⟨a23, _ | ⟨a24, _ | ⟨a25, t⟩⟩⟩⟩⟩⟩⟩⟩⟩⟩⟩⟩⟩⟩⟩⟩⟩⟩⟩⟩⟩⟩⟩⟩⟩⟩
  all_goals first
    | exact ⟨a0, a1, a2, a3, a4, a5, a6, a7, a8, a9, a10, a11, a12, a13, a14, a15, a16, a17, a18, a19, a20, a21, a22, a23, a24, rfl⟩
    | (simp at h)
    | (simp at h; omega)

/-- an array of size 25 is `#[a0, …, a24]` -/
theorem array25 {α : Type} (r : Array α) (h : r.size = 25) :
    ∃ a0 a1 a2 a3 a4 a5 a6 a7 a8 a9 a10 a11 a12 a13 a14 a15 a16 a17 a18 a19 a20 a21 a22 a23 a24,
      r = #[a0, a1, a2, a3, a4, a5, a6, a7, a8, a9, a10, a11, a12, a13, a14, a15, a16, a17, a18, a19, a20, a21, a22, a23, a24] := by
  obtain ⟨a0, a1, a2, a3, a4, a5, a6, a7, a8, a9, a10, a11, a12, a13, a14, a15, a16, a17, a18, a19, a20, a21, a22, a23, a24, hl⟩ := list25 r.toList (by simpa using h)
  exact ⟨a0, a1, a2, a3, a4, a5, a6, a7, a8, a9, a10, a11, a12, a13, a14, a15, a16, a17, a18, a19, a20, a21, a22, a23, a24, by cases r; simp_all⟩

/-- a list of length 8 is `[a0, …, a7]` -/
theorem list8 {α : Type} (r : List α) (h : r.length = 8) :
    ∃ a0 a1 a2 a3 a4 a5 a6 a7, r = [a0, a1, a2, a3, a4, a5, a6, a7] := by
  rcases r with _ | ⟨a0, _ | ⟨a1, _ | ⟨a2, _ | ⟨a3, _ | ⟨a4, _ | ⟨a5, _ | ⟨a6, _ | ⟨a7, _ | ⟨a8, t⟩⟩⟩⟩⟩⟩⟩⟩⟩
  all_goals first
    | exact ⟨a0, a1, a2, a3, a4, a5, a6, a7, rfl⟩
    | (simp at h)
    | (simp at h; omega)

/-- a vector of size 8 is `#v[a0, …, a7]` -/
theorem vec8 {α : Type} (v : Vector α 8) : ∃ a0 a1 a2 a3 a4 a5 a6 a7, v = #v[a0, a1, a2, a3, a4, a5, a6, a7] := by
  obtain ⟨⟨l⟩, hl⟩ := v
  obtain ⟨a0, a1, a2, a3, a4, a5, a6, a7, rfl⟩ := list8 l (by simpa using hl)
  exact ⟨a0, a1, a2, a3, a4, a5, a6, a7, rfl⟩

end Cx.Proofs.KernelTieWords
