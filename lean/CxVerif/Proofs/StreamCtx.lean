/-
  Proofs.StreamCtx — the generic refinement behind C04: the context model of Impl.StreamCtx (cached 64-byte block
  + offset + engine state) refines the abstract state "absolute keystream position".
-/
import CxVerif.Impl.StreamCtx
import CxVerif.Spec.Stream
namespace Cx.Proofs.Stream
open Cx Cx.Impl.StreamCtx Cx.Spec.Stream
set_option linter.unusedSimpArgs false
set_option linter.unusedVariables false

variable {σ : Type}

/-- what the refinement needs from an engine: `mk n` = the engine state whose block counter is `n` (reduced into
    the counter width by `mk` itself), `KS n` = the specified block number `n` -/
structure Refines (g : BlockGen σ) (mk : Nat → σ) (KS : Nat → Bytes) : Prop where
  block_eq : ∀ n, g.block (mk n) = KS n
  len : ∀ n, (KS n).length = 64
  inc : ∀ n, g.increment (mk n) = mk (n + 1)

/-- abstraction relation: context `c` stands at absolute keystream position `p` -/
def Abs (mk : Nat → σ) (KS : Nat → Bytes) (c : Ctx σ) (p : Nat) : Prop :=
  (c.offset = 64 ∧ p % 64 = 0 ∧ c.state = mk (p / 64)) ∨
  (c.offset < 64 ∧ c.offset = p % 64 ∧ c.output = KS (p / 64) ∧ c.state = mk (p / 64 + 1))

theorem keystream_length (KS : Nat → Bytes) (p n : Nat) : (keystream KS p n).length = n := by
  simp [keystream]

theorem keystream_add (KS : Nat → Bytes) (p a b : Nat) :
    keystream KS p (a + b) = keystream KS p a ++ keystream KS (p + a) b := by
  unfold keystream
  rw [← List.map_append]
  congr 1
  rw [List.range'_append_1]

theorem xorBytes_append (a b k1 k2 : Bytes) (h : a.length = k1.length) :
    xorBytes (a ++ b) (k1 ++ k2) = xorBytes a k1 ++ xorBytes b k2 := by
  unfold xorBytes
  exact List.zipWith_append h

theorem encrypt_append (KS : Nat → Bytes) (p : Nat) (a b : Bytes) :
    encrypt KS p (a ++ b) = encrypt KS p a ++ encrypt KS (p + a.length) b := by
  unfold encrypt
  rw [List.length_append, keystream_add, xorBytes_append]
  simp [keystream_length]

/-- the rest of the cached block IS the keystream at the current position -/
theorem block_chunk (KS : Nat → Bytes) (hlen : ∀ n, (KS n).length = 64) (p cnt : Nat) (h : p % 64 + cnt ≤ 64) :
    ((KS (p / 64)).drop (p % 64)).take cnt = keystream KS p cnt := by
  apply List.ext_getElem
  · simp [keystream, hlen]; omega
  · intro i h1 h2
    simp only [keystream, List.length_map, List.length_range'] at h2
    simp only [keystream, List.getElem_take, List.getElem_drop, List.getElem_map, List.getElem_range', ksByte]
    have e1 : (p + 1 * i) / 64 = p / 64 := by omega
    have e2 : (p + 1 * i) % 64 = p % 64 + i := by omega
    rw [e1, e2]
    have : p % 64 + i < (KS (p / 64)).length := by rw [hlen]; omega
    simp [List.getD_eq_getElem?_getD, List.getElem?_eq_getElem this]

theorem zipWith_take_right (a k : Bytes) :
    List.zipWith (· ^^^ ·) a k = List.zipWith (· ^^^ ·) a (k.take a.length) := by
  induction a generalizing k with
  | nil => simp
  | cons x xs ih =>
    cases k with
    | nil => simp
    | cons y ys => simp [List.take_succ_cons, ih ys]

/-- `xor_keystream_mut` over the first `cnt` bytes against the rest of the cached block -/
theorem xor_chunk (KS : Nat → Bytes) (hlen : ∀ n, (KS n).length = 64) (p : Nat) (data : Bytes) (cnt : Nat)
    (h : p % 64 + cnt ≤ 64) (hd : cnt ≤ data.length) :
    xor_keystream_mut (data.take cnt) ((KS (p / 64)).drop (p % 64)) = .ok (encrypt KS p (data.take cnt)) := by
  unfold xor_keystream_mut
  have hl : (data.take cnt).length = cnt := by simp; omega
  have : (data.take cnt).length ≤ ((KS (p / 64)).drop (p % 64)).length := by
    rw [hl, List.length_drop, hlen]; omega
  rw [if_pos this]
  congr 1
  rw [zipWith_take_right, hl, block_chunk KS hlen p cnt h]
  simp [encrypt, xorBytes, hl]

theorem process_mut_nil (g : BlockGen σ) (c : Ctx σ) : process_mut g c [] = .ok (c, []) := by
  rw [process_mut]

/-- one iteration of the `while` loop, with the `if` already decided -/
theorem process_mut_cons (g : BlockGen σ) (c : Ctx σ) (d : UInt8) (ds : Bytes)
    (c1 : Ctx σ) (hc1 : c1 = if c.offset = 64 then update g c else c) (hlt : c1.offset < 64) :
    process_mut g c (d :: ds) =
      (match xor_keystream_mut ((d :: ds).take (min (64 - c1.offset) (ds.length + 1))) (c1.output.drop c1.offset) with
       | .error e => .error e
       | .ok out =>
         match process_mut g { c1 with offset := c1.offset + min (64 - c1.offset) (ds.length + 1) }
                 ((d :: ds).drop (min (64 - c1.offset) (ds.length + 1))) with
         | .error e => .error e
         | .ok (c', rest) => .ok (c', out ++ rest)) := by
  subst hc1
  rw [process_mut]
  simp only [hlt, dite_true]
  rfl

/-- **process_mut refines the position**: from position `p` it returns `data ⊕ KS[p, p+len)` and stands at `p+len` -/
theorem process_mut_spec {g : BlockGen σ} {mk : Nat → σ} {KS : Nat → Bytes} (R : Refines g mk KS) :
    ∀ (n : Nat) (data : Bytes) (c : Ctx σ) (p : Nat), data.length = n → Abs mk KS c p →
      ∃ c', process_mut g c data = .ok (c', encrypt KS p data) ∧ Abs mk KS c' (p + data.length) := by
  intro n
  induction n using Nat.strongRecOn with
  | ind n ih =>
    intro data c p hn habs
    cases data with
    | nil => exact ⟨c, by simp [process_mut_nil, encrypt, xorBytes], by simpa using habs⟩
    | cons d ds =>
      -- the context after the optional refill
      have hc1 : ∃ c1, c1 = (if c.offset = 64 then update g c else c) ∧ c1.offset < 64 ∧ c1.offset = p % 64 ∧
          c1.output = KS (p / 64) ∧ c1.state = mk (p / 64 + 1) := by
        rcases habs with ⟨h1, h2, h3⟩ | ⟨h1, h2, h3, h4⟩
        · refine ⟨_, rfl, ?_, ?_, ?_, ?_⟩
          · simp [h1, update]
          · simp [h1, update]; omega
          · simp [h1, update, h3, R.block_eq]
          · simp [h1, update, h3, R.inc]
        · refine ⟨_, rfl, ?_⟩
          have : c.offset ≠ 64 := by omega
          simp only [this, if_false]
          exact ⟨h1, h2, h3, h4⟩
      obtain ⟨c1, e1, hlt, hoff, hout, hst⟩ := hc1
      rw [process_mut_cons g c d ds c1 e1 hlt]
      generalize hcnt : min (64 - c1.offset) (ds.length + 1) = cnt
      have hcnt1 : 1 ≤ cnt := by omega
      have hcnt2 : cnt ≤ (d :: ds).length := by simp only [List.length_cons]; omega
      have hcnt3 : p % 64 + cnt ≤ 64 := by omega
      rw [hout, hoff, xor_chunk KS R.len p (d :: ds) cnt hcnt3 hcnt2]
      -- the context handed to the next iteration stands at p + cnt
      have habs2 : Abs mk KS { c1 with offset := p % 64 + cnt } (p + cnt) := by
        by_cases hfull : p % 64 + cnt = 64
        · left
          refine ⟨hfull, by omega, ?_⟩
          show c1.state = _
          rw [hst]; congr 1; omega
        · right
          refine ⟨by show p % 64 + cnt < 64; omega, by show p % 64 + cnt = _; omega, ?_, ?_⟩
          · show c1.output = _
            rw [hout]; congr 1; omega
          · show c1.state = _
            rw [hst]; congr 2; omega
      have hlen2 : ((d :: ds).drop cnt).length < n := by
        rw [List.length_drop, ← hn]; simp only [List.length_cons] at hcnt2 ⊢; omega
      obtain ⟨c', hrun, habs'⟩ := ih _ hlen2 ((d :: ds).drop cnt) _ (p + cnt) rfl habs2
      refine ⟨c', ?_, ?_⟩
      · rw [hout] at hrun
        have hl : ((d :: ds).take cnt).length = cnt := by
          rw [List.length_take]; simp only [List.length_cons] at hcnt2 ⊢; omega
        have := encrypt_append KS p ((d :: ds).take cnt) ((d :: ds).drop cnt)
        rw [List.take_append_drop, hl] at this
        rw [this, hrun]
      · have : p + cnt + ((d :: ds).drop cnt).length = p + (d :: ds).length := by
          rw [List.length_drop]; simp only [List.length_cons] at hcnt2 ⊢; omega
        rw [← this]; exact habs'

theorem process_mut_refines {g : BlockGen σ} {mk : Nat → σ} {KS : Nat → Bytes} (R : Refines g mk KS)
    (c : Ctx σ) (p : Nat) (data : Bytes) (h : Abs mk KS c p) :
    ∃ c', process_mut g c data = .ok (c', encrypt KS p data) ∧ Abs mk KS c' (p + data.length) :=
  process_mut_spec R data.length data c p rfl h

theorem process_refines {g : BlockGen σ} {mk : Nat → σ} {KS : Nat → Bytes} (R : Refines g mk KS)
    (c : Ctx σ) (p : Nat) (data : Bytes) (h : Abs mk KS c p) :
    ∃ c', process g c data data.length = .ok (c', encrypt KS p data) ∧ Abs mk KS c' (p + data.length) := by
  unfold process; simp only [if_true]; exact process_mut_refines R c p data h

/-- a fresh context stands at the start of block `n` of its engine state -/
theorem mk_abs (mk : Nat → σ) (KS : Nat → Bytes) (n : Nat) : Abs mk KS (Impl.StreamCtx.mk (mk n)) (64 * n) := by
  left; refine ⟨rfl, by omega, ?_⟩
  show mk n = mk (64 * n / 64); congr 1; omega

/-- seek (from ANY offset, also mid-block) stands at the start of the block it names -/
theorem seek_abs {τ : Type} (mk : Nat → σ) (KS : Nat → Bytes) (setCounter : σ → τ → σ) (toBlock : τ → Nat)
    (hset : ∀ n t, setCounter (mk n) t = mk (toBlock t)) (c : Ctx σ) (p : Nat) (t : τ) (h : Abs mk KS c p) :
    Abs mk KS (seek setCounter c t) (64 * toBlock t) := by
  left
  refine ⟨rfl, by omega, ?_⟩
  show setCounter c.state t = mk (64 * toBlock t / 64)
  have e : 64 * toBlock t / 64 = toBlock t := by omega
  rw [e]
  rcases h with ⟨_, _, h3⟩ | ⟨_, _, _, h4⟩
  · rw [h3, hset]
  · rw [h4, hset]


/-! ### histories: the abstract machine "absolute position (+ positions of the clones)" -/

/-- one operation on the abstract state -/
def absStep (KS : Nat → Bytes) (hasSeek hasSet64 : Bool) (a : Nat × List Nat) :
    Op → Except String ((Nat × List Nat) × List Bytes)
  | .process d => .ok ((a.1 + d.length, a.2), [encrypt KS a.1 d])
  | .processBad d n => if d.length = n then .ok ((a.1 + d.length, a.2), [encrypt KS a.1 d]) else .error "PANIC"
  | .processMut d => .ok ((a.1 + d.length, a.2), [encrypt KS a.1 d])
  | .seek n => if hasSeek then .ok ((64 * n.toNat, a.2), []) else .error "bad-args"
  | .setCounter64 n => if hasSet64 then .ok ((64 * n.toNat, a.2), []) else .error "bad-args"
  | .clone => .ok ((a.1, a.1 :: a.2), [])
  | .swap => match a.2 with
    | t :: rest => .ok ((t, a.1 :: rest), [])
    | [] => .error "bad-args"

def absRun (KS : Nat → Bytes) (hasSeek hasSet64 : Bool) (a : Nat × List Nat) :
    List Op → Except String ((Nat × List Nat) × List Bytes)
  | [] => .ok (a, [])
  | op :: ops =>
    match absStep KS hasSeek hasSet64 a op with
    | .error e => .error e
    | .ok (a', o) =>
      match absRun KS hasSeek hasSet64 a' ops with
      | .error e => .error e
      | .ok (a'', os) => .ok (a'', o ++ os)

/-- the stack of clones stands at the stack of positions -/
def AbsList (mk : Nat → σ) (KS : Nat → Bytes) : List (Ctx σ) → List Nat → Prop
  | [], [] => True
  | c :: cs, p :: ps => Abs mk KS c p ∧ AbsList mk KS cs ps
  | _, _ => False

def AbsSt (mk : Nat → σ) (KS : Nat → Bytes) (st : Ctx σ × List (Ctx σ)) (a : Nat × List Nat) : Prop :=
  Abs mk KS st.1 a.1 ∧ AbsList mk KS st.2 a.2

/-- what the refinement needs from a context type's method table -/
structure MethodsRefine (m : Methods σ) (mk : Nat → σ) (KS : Nat → Bytes) : Prop where
  gen : Refines m.gen mk KS
  seek : ∀ f, m.seek = some f → ∀ n (t : UInt32), f (mk n) t = mk t.toNat
  set64 : ∀ f, m.setCounter64 = some f → ∀ n (t : UInt64), f (mk n) t = mk t.toNat

/-- result of a concrete step/run against the abstract one: same refusal, or same bytes and related states -/
def Agrees (mk : Nat → σ) (KS : Nat → Bytes) (r : Except String ((Ctx σ × List (Ctx σ)) × List Bytes))
    (ra : Except String ((Nat × List Nat) × List Bytes)) : Prop :=
  match ra with
  | .error e => r = .error e
  | .ok (a', out) => ∃ st', r = .ok (st', out) ∧ AbsSt mk KS st' a'

theorem step_refines {m : Methods σ} {mk : Nat → σ} {KS : Nat → Bytes} (M : MethodsRefine m mk KS)
    (st : Ctx σ × List (Ctx σ)) (a : Nat × List Nat) (h : AbsSt mk KS st a) (op : Op) :
    Agrees mk KS (step m st op) (absStep KS m.seek.isSome m.setCounter64.isSome a op) := by
  obtain ⟨c, stk⟩ := st
  obtain ⟨p, ps⟩ := a
  obtain ⟨hc, hs⟩ := h
  cases op with
  | process d =>
    obtain ⟨c', h1, h2⟩ := process_refines M.gen c p d hc
    simp only [step, absStep, Agrees, h1]
    exact ⟨_, rfl, h2, hs⟩
  | processBad d n =>
    simp only [step, absStep]
    by_cases hn : d.length = n
    · subst hn
      obtain ⟨c', h1, h2⟩ := process_refines M.gen c p d hc
      simp only [if_true, Agrees, h1]
      exact ⟨_, rfl, h2, hs⟩
    · simp only [hn, if_false, Agrees, process]
  | processMut d =>
    obtain ⟨c', h1, h2⟩ := process_mut_refines M.gen c p d hc
    simp only [step, absStep, Agrees, h1]
    exact ⟨_, rfl, h2, hs⟩
  | seek n =>
    simp only [step, absStep]
    cases hsk : m.seek with
    | none => simp [Agrees]
    | some f =>
      simp only [Option.isSome_some, if_true, Agrees]
      exact ⟨_, rfl, seek_abs mk KS f (fun t => t.toNat) (M.seek f hsk) c p n hc, hs⟩
  | setCounter64 n =>
    simp only [step, absStep]
    cases hsk : m.setCounter64 with
    | none => simp [Agrees]
    | some f =>
      simp only [Option.isSome_some, if_true, Agrees]
      exact ⟨_, rfl, seek_abs mk KS f (fun t => t.toNat) (M.set64 f hsk) c p n hc, hs⟩
  | clone =>
    simp only [step, absStep, Agrees]
    exact ⟨_, rfl, hc, hc, hs⟩
  | swap =>
    simp only [step, absStep]
    cases stk with
    | nil =>
      cases ps with
      | nil => simp [Agrees]
      | cons q qs => exact absurd hs (by simp [AbsList])
    | cons t ts =>
      cases ps with
      | nil => exact absurd hs (by simp [AbsList])
      | cons q qs =>
        simp only [Agrees]
        exact ⟨_, rfl, hs.1, hc, hs.2⟩

/-- **every history refines the abstract machine** (induction over the history) -/
theorem run_refines {m : Methods σ} {mk : Nat → σ} {KS : Nat → Bytes} (M : MethodsRefine m mk KS) :
    ∀ (ops : List Op) (st : Ctx σ × List (Ctx σ)) (a : Nat × List Nat), AbsSt mk KS st a →
      Agrees mk KS (run m st ops) (absRun KS m.seek.isSome m.setCounter64.isSome a ops) := by
  intro ops
  induction ops with
  | nil => intro st a h; exact ⟨st, rfl, h⟩
  | cons op ops ih =>
    intro st a h
    have hs := step_refines M st a h op
    simp only [run, absRun]
    cases hsa : absStep KS m.seek.isSome m.setCounter64.isSome a op with
    | error e =>
      rw [hsa] at hs
      simp only [Agrees] at hs
      simp [hs, Agrees]
    | ok r =>
      obtain ⟨a', o⟩ := r
      rw [hsa] at hs
      obtain ⟨st', h1, h2⟩ := hs
      have hr := ih st' a' h2
      simp only [h1]
      cases hra : absRun KS m.seek.isSome m.setCounter64.isSome a' ops with
      | error e =>
        rw [hra] at hr
        simp only [Agrees] at hr
        simp [hr, Agrees]
      | ok r2 =>
        obtain ⟨a'', os⟩ := r2
        rw [hra] at hr
        obtain ⟨st'', h3, h4⟩ := hr
        simp only [h3, Agrees]
        exact ⟨_, rfl, h4⟩

/-! ### algebra of `encrypt` -/

theorem xorBytes_invol : ∀ (d k : Bytes), d.length ≤ k.length → xorBytes (xorBytes d k) k = d := by
  intro d
  induction d with
  | nil => intro k _; simp [xorBytes]
  | cons x xs ih =>
    intro k hk
    cases k with
    | nil => simp at hk
    | cons y ys =>
      have := ih ys (by simpa using hk)
      simp only [xorBytes] at this ⊢
      simp only [List.zipWith_cons_cons, this, UInt8.xor_assoc, UInt8.xor_self, UInt8.xor_zero]

theorem encrypt_length (KS : Nat → Bytes) (p : Nat) (d : Bytes) : (encrypt KS p d).length = d.length := by
  simp [encrypt, xorBytes, keystream_length]

/-- involution: processing the output again from the same position restores the input -/
theorem encrypt_invol (KS : Nat → Bytes) (p : Nat) (d : Bytes) : encrypt KS p (encrypt KS p d) = d := by
  have hl := encrypt_length KS p d
  unfold encrypt at hl ⊢
  rw [hl]
  exact xorBytes_invol d _ (by simp [keystream_length])

/-- partition independence at the level of the specification: any cutting of the data into pieces -/
theorem encrypt_pieces (KS : Nat → Bytes) : ∀ (pieces : List Bytes) (p : Nat),
    encrypt KS p pieces.flatten =
      (pieces.foldl (fun (acc : Bytes × Nat) d => (acc.1 ++ encrypt KS acc.2 d, acc.2 + d.length)) ([], p)).1 := by
  have gen : ∀ (pieces : List Bytes) (acc : Bytes) (p : Nat),
      (pieces.foldl (fun (acc : Bytes × Nat) d => (acc.1 ++ encrypt KS acc.2 d, acc.2 + d.length)) (acc, p)).1
        = acc ++ encrypt KS p pieces.flatten := by
    intro pieces
    induction pieces with
    | nil => intro acc p; simp [encrypt, xorBytes]
    | cons d ds ih =>
      intro acc p
      simp only [List.foldl_cons, List.flatten_cons, ih, encrypt_append, List.append_assoc]
  intro pieces p
  rw [gen]; simp

end Cx.Proofs.Stream
