/-
  Proofs.GlueKdfScrypt — helper lemmas for the translator tie of src/scrypt.rs (Props/C10/GlueTieKdf.lean):
  the generated `xor_src`, `scrypt_block_mix_src`, `integerify_src`, `scrypt_ro_mix_src`, `ScryptParams.new_src`, `scrypt_src`
  of Extracted/GlueKdf.lean against the hand model of Impl/Kdf.lean.  Core Lean only.
-/
import CxVerif.Proofs.GlueKdf
import CxVerif.Proofs.KdfScryptMix
namespace Cx.Proofs.GlueKdfScrypt
open Cx Cx.Impl.Digest Cx.Impl.Hmac Cx.Impl.Kdf Cx.Extracted.GlueKdf Cx.Proofs.GlueKdf

/-! ### `chunks` of a whole number of blocks = `takeBlocks` -/

theorem chunksAux_takeBlocks (n : Nat) (hn : 0 < n) : ∀ (k fuel : Nat) (bs : Bytes), bs.length = n * k → bs.length ≤ fuel →
    chunksAux n fuel bs = takeBlocks n k bs := by
  intro k
  induction k with
  | zero =>
    intro fuel bs h _
    have : bs = [] := List.eq_nil_of_length_eq_zero (by simpa using h)
    subst this; cases fuel <;> simp [chunksAux, takeBlocks]
  | succ k ih =>
    intro fuel bs h hf
    have hpos : 0 < bs.length := by rw [h]; exact Nat.mul_pos hn (Nat.succ_pos k)
    have hne : bs ≠ [] := List.length_pos_iff.mp hpos
    cases fuel with
    | zero => omega
    | succ fuel =>
      simp only [chunksAux, List.isEmpty_iff, hne, if_false, takeBlocks]
      have hge : n ≤ bs.length := by rw [h, Nat.mul_succ]; omega
      rw [ih fuel (bs.drop n) (by simp [h, Nat.mul_succ]) (by simp; omega)]

theorem chunks_takeBlocks (n : Nat) (hn : 0 < n) (bs : Bytes) (h : bs.length % n = 0) :
    chunks n bs = takeBlocks n (bs.length / n) bs :=
  chunksAux_takeBlocks n hn _ _ bs (by rw [Nat.mul_comm]; exact (Nat.div_mul_cancel (Nat.dvd_of_mod_eq_zero h)).symm) (Nat.le_refl _)

/-! ### `xor` -/

theorem xor_src_eq : ∀ (output x y : Bytes), xor_src x y output = Impl.Kdf.xor x y output := by
  intro output
  induction output with
  | nil => intro x y; cases x <;> cases y <;> simp [xor_src, zipMut3, Impl.Kdf.xor]
  | cons o out ih =>
    intro x y
    cases x with
    | nil => simp [xor_src, zipMut3, Impl.Kdf.xor]
    | cons a x =>
      cases y with
      | nil => simp [xor_src, zipMut3, Impl.Kdf.xor]
      | cons b y =>
        have := ih x y
        simp only [xor_src, Impl.Kdf.xor] at this ⊢
        simp [zipMut3, this]

/-! ### `scrypt_block_mix` -/

theorem salsa20_8_length (t x : Bytes) (h : salsa20_8 t = some x) : x.length = 64 := by
  by_cases ht : t.length = 64
  · rw [Cx.Proofs.KdfScryptSalsa.salsa20_8_eq t ht] at h
    cases h; exact Cx.Proofs.KdfScryptSalsa.spec_salsa20_8_length t
  · rw [Cx.Proofs.KdfScryptSalsa.salsa20_8_refuses t ht] at h; cases h

theorem block_mix_loop1_eq (input : Bytes) : ∀ (cs : List Bytes) (i : Nat) (output x t : Bytes),
    (scrypt_block_mix_loop1_src input cs i output x t).map (·.2.1) = scrypt_block_mix_loop input.length cs i x t output := by
  intro cs
  induction cs with
  | nil => intro i output x t; rfl
  | cons chunk rest ih =>
    intro i output x t
    simp only [scrypt_block_mix_loop1_src, scrypt_block_mix_loop, xor_src_eq]
    cases hs : salsa20_8 (Impl.Kdf.xor x chunk t) with
    | none => rfl
    | some x' =>
      have hx := salsa20_8_length _ _ hs
      simp only [write_at, hx]
      generalize (if i % 2 = 0 then i / 2 * 64 else i / 2 * 64 + input.length / 2) = pos
      by_cases hl : pos + 64 ≤ output.length
      · simp only [hl, not_true_eq_false, if_false, if_true]
        exact ih _ _ _ _
      · simp [hl]

theorem scrypt_block_mix_src_eq (input output : Bytes) : scrypt_block_mix_src input output = scrypt_block_mix input output := by
  simp only [scrypt_block_mix_src, scrypt_block_mix]
  by_cases h1 : input.length < 64
  · have h2 : ¬ 64 ≤ input.length := by omega
    simp only [h1, h2, if_true, not_false_eq_true, ite_self]
  · have h2 : 64 ≤ input.length := by omega
    by_cases h3 : input.length % 64 > 0
    · have h4 : ¬ (input.length - (input.length - 64) = input.length % 64) := by omega
      simp [h1, h2, h3, h4]
    · have h4 : input.length - (input.length - 64) = 64 := by omega
      have h5 : input.length % 64 = 0 := by omega
      simp only [h1, h2, h3, h4, if_false, not_true_eq_false]
      rw [chunks_takeBlocks 64 (by omega) input h5, ← block_mix_loop1_eq]
      cases scrypt_block_mix_loop1_src input (takeBlocks 64 (input.length / 64) input) 0 output
          (input.drop (input.length - 64)) (zeros 64) with
      | none => rfl
      | some r => obtain ⟨a, b, c, d⟩ := r; rfl

/-! ### `integerify` -/

theorem integerify_src_eq (x : Bytes) (n : Nat) : integerify_src x n = integerify x n := by
  simp only [integerify_src, integerify]
  by_cases hn : n = 0
  · simp [hn]
  · have h1 : 1 ≤ n := by omega
    by_cases hx : x.length < 64
    · have : ¬ 64 ≤ x.length := by omega
      simp [hn, h1, hx, this]
    · have h2 : 64 ≤ x.length := by omega
      have h3 : 60 ≤ x.length := by omega
      have h4 : x.length - 64 ≤ x.length - 60 := by omega
      have h5 : x.length - 60 - (x.length - 64) = 4 := by omega
      simp only [hn, h1, hx, h2, h3, h4, h5, if_false, not_true_eq_false, Cx.Proofs.KdfScryptMix.leU32_toNat]

/-! ### length bookkeeping of the model (`&mut [u8]` buffers keep their length) -/

theorem write_at_length (dst src out : Bytes) (pos : Nat) (h : write_at dst pos src = some out) : out.length = dst.length := by
  simp only [write_at] at h
  split at h
  · cases h; simp; omega
  · cases h

theorem block_mix_loop_length (L : Nat) : ∀ (cs : List Bytes) (i : Nat) (x t output out : Bytes),
    scrypt_block_mix_loop L cs i x t output = some out → out.length = output.length := by
  intro cs
  induction cs with
  | nil => intro i x t output out h; simp only [scrypt_block_mix_loop] at h; cases h; rfl
  | cons c rest ih =>
    intro i x t output out h
    simp only [scrypt_block_mix_loop] at h
    split at h
    · cases h
    · split at h
      · cases h
      · rename_i o' ho
        rw [ih _ _ _ _ _ h, write_at_length _ _ _ _ ho]

theorem block_mix_length (input output out : Bytes) (h : scrypt_block_mix input output = some out) :
    out.length = output.length := by
  simp only [scrypt_block_mix] at h
  split at h
  · cases h
  · split at h
    · cases h
    · exact block_mix_loop_length _ _ _ _ _ _ _ h

/-! ### `scrypt_ro_mix`: the fill loop -/

theorem ro_mix_fill_done : ∀ (cs : List Bytes) (b : Bytes) (done : List Bytes),
    ro_mix_fill cs b done = (ro_mix_fill cs b []).map (fun r => (r.1, r.2 ++ done)) := by
  intro cs
  induction cs with
  | nil => intro b done; simp [ro_mix_fill]
  | cons c rest ih =>
    intro b done
    simp only [ro_mix_fill]
    split
    · rfl
    · cases scrypt_block_mix (copy_prefix c b) b with
      | none => rfl
      | some b' =>
        simp only []
        rw [ih b' (copy_prefix c b :: done), ih b' [copy_prefix c b]]
        cases ro_mix_fill rest b' [] with
        | none => rfl
        | some r => simp

theorem ro_mix_fill_facts (len : Nat) : ∀ (cs : List Bytes) (b b' : Bytes) (vrev : List Bytes), b.length = len →
    (∀ c ∈ cs, c.length ≤ len) → ro_mix_fill cs b [] = some (b', vrev) →
    b'.length = len ∧ vrev.length = cs.length ∧ ∀ c ∈ vrev, c.length = len := by
  intro cs
  induction cs with
  | nil =>
    intro b b' vrev hb _ h
    simp only [ro_mix_fill] at h
    cases h; simp [hb]
  | cons c rest ih =>
    intro b b' vrev hb hcs h
    simp only [ro_mix_fill] at h
    split at h
    · cases h
    · rename_i hle
      have hle : b.length ≤ c.length := by simpa using hle
      have hc : c.length ≤ len := hcs c (List.mem_cons_self ..)
      have hcp : (copy_prefix c b).length = len := by simp [copy_prefix]; omega
      cases hm : scrypt_block_mix (copy_prefix c b) b with
      | none => rw [hm] at h; cases h
      | some b1 =>
        rw [hm] at h
        simp only [] at h
        rw [ro_mix_fill_done] at h
        cases hr : ro_mix_fill rest b1 [] with
        | none => rw [hr] at h; cases h
        | some r =>
          obtain ⟨b2, v2⟩ := r
          rw [hr] at h
          simp only [Option.map_some, Option.some.injEq, Prod.mk.injEq] at h
          obtain ⟨h1, h2⟩ := h
          subst h1; subst h2
          have hb1 : b1.length = len := by rw [block_mix_length _ _ _ hm, hb]
          obtain ⟨f1, f2, f3⟩ := ih b1 b2 v2 hb1 (fun c hc => hcs c (List.mem_cons_of_mem _ hc)) hr
          refine ⟨f1, by simp [f2], ?_⟩
          intro c hc
          rcases List.mem_append.mp hc with hc | hc
          · exact f3 c hc
          · simp at hc; subst hc; exact hcp

theorem ro_mix_loop1_eq : ∀ (cs : List Bytes) (b acc : Bytes),
    scrypt_ro_mix_loop1_src cs b acc = (ro_mix_fill cs b []).map (fun r => (r.1, acc ++ r.2.reverse.flatten)) := by
  intro cs
  induction cs with
  | nil => intro b acc; simp [scrypt_ro_mix_loop1_src, ro_mix_fill]
  | cons c rest ih =>
    intro b acc
    simp only [scrypt_ro_mix_loop1_src, ro_mix_fill, scrypt_block_mix_src_eq]
    split
    · rfl
    · have hcp : b ++ c.drop b.length = copy_prefix c b := rfl
      rw [hcp]
      cases scrypt_block_mix (copy_prefix c b) b with
      | none => rfl
      | some b' =>
        simp only []
        rw [ih, ro_mix_fill_done rest b' [copy_prefix c b]]
        cases ro_mix_fill rest b' [] with
        | none => rfl
        | some r => simp

/-! ### a byte vector as the list of its equal-length chunks -/

theorem uniform_flatten_length (len : Nat) : ∀ (vs : List Bytes), (∀ c ∈ vs, c.length = len) →
    vs.flatten.length = vs.length * len := by
  intro vs
  induction vs with
  | nil => intro _; simp
  | cons c rest ih =>
    intro h
    simp only [List.flatten_cons, List.length_append, List.length_cons]
    rw [ih (fun c hc => h c (List.mem_cons_of_mem _ hc)), h c (List.mem_cons_self ..), Nat.succ_mul]; omega

theorem uniform_slice (len : Nat) : ∀ (vs : List Bytes) (j : Nat), (∀ c ∈ vs, c.length = len) →
    (vs.flatten.drop (j * len)).take len = (vs[j]?).getD [] := by
  intro vs
  induction vs with
  | nil => intro j _; simp
  | cons c rest ih =>
    intro j h
    have hc : c.length = len := h c (List.mem_cons_self ..)
    cases j with
    | zero => simp [hc]
    | succ j =>
      have := ih j (fun c hc => h c (List.mem_cons_of_mem _ hc))
      simp only [List.flatten_cons, List.getElem?_cons_succ]
      rw [show (j + 1) * len = c.length + j * len by rw [hc, Nat.succ_mul]; omega, List.drop_append,
        List.drop_eq_nil_of_le (Nat.le_add_right ..), Nat.add_sub_cancel_left, List.nil_append]
      exact this

theorem chunks_uniform (len : Nat) (hl : 0 < len) : ∀ (vs : List Bytes), (∀ c ∈ vs, c.length = len) →
    chunks len vs.flatten = vs := by
  intro vs h
  rw [chunks_takeBlocks len hl _ (by rw [uniform_flatten_length len vs h]; exact Nat.mul_mod_left ..),
    uniform_flatten_length len vs h, Nat.mul_div_cancel _ hl]
  clear hl
  induction vs with
  | nil => rfl
  | cons c rest ih =>
    have hc : c.length = len := h c (List.mem_cons_self ..)
    simp only [List.length_cons, takeBlocks, List.flatten_cons]
    rw [List.take_left' hc, List.drop_left' hc, ih (fun c hc => h c (List.mem_cons_of_mem _ hc))]

theorem chunks_mem_le (n : Nat) : ∀ (fuel : Nat) (bs : Bytes), ∀ c ∈ chunksAux n fuel bs, c.length ≤ n := by
  intro fuel
  induction fuel with
  | zero => intro bs c hc; simp [chunksAux] at hc
  | succ fuel ih =>
    intro bs c hc
    simp only [chunksAux] at hc
    split at hc
    · simp at hc
    · rcases List.mem_cons.mp hc with hc | hc
      · subst hc; simp; omega
      · exact ih _ c hc

/-! ### `scrypt_ro_mix`: the walk loop -/

theorem ro_mix_loop2_eq (len : Nat) (hl : 0 < len) (vs : List Bytes) (hvs : ∀ c ∈ vs, c.length = len) (n : Nat) :
    ∀ (cnt : Nat) (b t : Bytes), scrypt_ro_mix_loop2_src vs.flatten n len cnt b t = ro_mix_walk vs n cnt b t := by
  intro cnt
  induction cnt with
  | zero => intro b t; rfl
  | succ cnt ih =>
    intro b t
    simp only [scrypt_ro_mix_loop2_src, ro_mix_walk, integerify_src_eq, xor_src_eq, scrypt_block_mix_src_eq]
    cases integerify b n with
    | none => rfl
    | some j =>
      simp only []
      have h1 : j * len ≤ (j + 1) * len := Nat.mul_le_mul_right _ (Nat.le_succ j)
      have h2 : (j + 1) * len - j * len = len := by rw [Nat.succ_mul]; omega
      simp only [h1, h2, not_true_eq_false, if_false, uniform_flatten_length len vs hvs, uniform_slice len vs j hvs]
      by_cases hj : j < vs.length
      · have h3 : (j + 1) * len ≤ vs.length * len := Nat.mul_le_mul_right _ hj
        simp only [h3, not_true_eq_false, if_false, List.getElem?_eq_getElem hj, Option.getD_some]
        cases scrypt_block_mix (Impl.Kdf.xor b vs[j] t) b with
        | none => rfl
        | some b' => exact ih _ _
      · have h3 : ¬ (j + 1) * len ≤ vs.length * len := by
          intro hc
          have := Nat.le_of_mul_le_mul_right hc hl
          omega
        have h4 : vs[j]? = none := List.getElem?_eq_none (by omega)
        simp [h3, h4]

/-- `scrypt_ro_mix` on a scratch vector given as the list `vs` of its `b.len()`-byte chunks -/
theorem scrypt_ro_mix_src_eq (b : Bytes) (vs : List Bytes) (t : Bytes) (n : Nat) (hb : b.length ≠ 0)
    (hvs : ∀ c ∈ vs, c.length = b.length) :
    scrypt_ro_mix_src b vs.flatten t n = (scrypt_ro_mix b vs t n).map (fun r => (r.1, r.2.1.flatten, r.2.2)) := by
  have hl : 0 < b.length := Nat.pos_of_ne_zero hb
  simp only [scrypt_ro_mix_src, scrypt_ro_mix, ne_eq, hb, not_false_eq_true, not_true_eq_false, if_false,
    chunks_uniform b.length hl vs hvs, ro_mix_loop1_eq, List.nil_append]
  cases hf : ro_mix_fill vs b [] with
  | none => rfl
  | some r =>
    obtain ⟨b1, vrev⟩ := r
    obtain ⟨f1, f2, f3⟩ := ro_mix_fill_facts b.length vs b b1 vrev rfl (fun c hc => Nat.le_of_eq (hvs c hc)) hf
    simp only [Option.map_some]
    rw [ro_mix_loop2_eq b.length hl vrev.reverse (fun c hc => f3 c (List.mem_reverse.mp hc))]
    cases ro_mix_walk vrev.reverse n n b1 t with
    | none => rfl
    | some r => obtain ⟨b2, t2⟩ := r; rfl

/-- what `scrypt_ro_mix` preserves: the chunk structure of `v` -/
theorem scrypt_ro_mix_facts (b : Bytes) (vs : List Bytes) (t : Bytes) (n : Nat) (b' : Bytes) (vs' : List Bytes) (t' : Bytes)
    (hvs : ∀ c ∈ vs, c.length = b.length) (h : scrypt_ro_mix b vs t n = some (b', vs', t')) :
    ∀ c ∈ vs', c.length = b.length := by
  simp only [scrypt_ro_mix] at h
  cases hf : ro_mix_fill vs b [] with
  | none => rw [hf] at h; cases h
  | some r =>
    obtain ⟨b1, vrev⟩ := r
    rw [hf] at h
    simp only [] at h
    obtain ⟨f1, f2, f3⟩ := ro_mix_fill_facts b.length vs b b1 vrev rfl (fun c hc => Nat.le_of_eq (hvs c hc)) hf
    cases hw : ro_mix_walk vrev.reverse n n b1 t with
    | none => rw [hw] at h; cases h
    | some r =>
      obtain ⟨b2, t2⟩ := r
      rw [hw] at h
      simp only [Option.some.injEq, Prod.mk.injEq] at h
      obtain ⟨_, h2, _⟩ := h
      subst h2
      intro c hc
      exact f3 c (List.mem_reverse.mp hc)

/-! ### `ScryptParams::new` -/

theorem ScryptParams_new_src_eq (log_n r p : Nat) : ScryptParams.new_src log_n r p = ScryptParams.new log_n r p := by
  have e : USIZE_BITS = 64 := rfl
  simp only [ScryptParams.new_src, ScryptParams.new, e]
  by_cases h1 : r > 0
  · by_cases h2 : p > 0
    · by_cases h3 : log_n > 0
      · by_cases h4 : log_n < 64
        · simp only [h1, h2, h3, h4, not_true_eq_false, if_false]
          cases checked_mul r 128 with
          | none => rfl
          | some r128 =>
            simp only []
            cases checked_mul r128 (1 <<< log_n) with
            | none => rfl
            | some _ =>
              simp only []
              cases checked_mul r128 p with
              | none => rfl
              | some _ =>
                simp only []
                by_cases h5 : log_n < r * 16
                · by_cases h6 : r * p < 0x40000000
                  · have hr : r % 2 ^ 32 = r := Nat.mod_eq_of_lt (by
                      have : r * 1 ≤ r * p := Nat.mul_le_mul_left r h2
                      omega)
                    have hp : p % 2 ^ 32 = p := Nat.mod_eq_of_lt (by
                      have : 1 * p ≤ r * p := Nat.mul_le_mul_right p h1
                      omega)
                    simp only [h5, h6, not_true_eq_false, if_false, hr, hp]
                  · simp only [h5, h6, not_true_eq_false, not_false_eq_true, if_false, if_true]
                · simp only [h5, not_false_eq_true, if_true]
        · simp only [h1, h2, h3, h4, not_true_eq_false, not_false_eq_true, if_false, if_true]
      · simp only [h1, h2, h3, not_true_eq_false, not_false_eq_true, if_false, if_true]
    · simp only [h1, h2, not_true_eq_false, not_false_eq_true, if_false, if_true]
  · simp only [h1, not_false_eq_true, if_true]

/-! ### the length of a PBKDF2 output (needed to cut `b` into its `r128`-byte chunks) -/

/-- the typing fact behind `raw_result(&mut self, output: &mut [u8])` in the `MacModel` convention: a `&mut [u8]` keeps its length -/
def MacResultLen {μ : Type} (M : MacModel μ) : Prop :=
  ∀ (m m' : μ) (n : Nat) (out : Bytes), M.raw_result m n = some (m', out) → out.length = n

theorem legacy_result_len {γ : Type} (C : CtxModel γ) (d d' : Legacy γ) (n : Nat) (out : Bytes)
    (h : (legacyDigest C).result d n = some (d', out)) : out.length = n := by
  simp only [legacyDigest, Legacy.result] at h
  split at h
  · cases h
  · split at h
    · cases h
    · split at h
      · rename_i hn; cases h; exact hn.symm
      · cases h

theorem hmac_legacy_resultLen {γ : Type} (C : CtxModel γ) : MacResultLen (hmacMac (legacyDigest C)) := by
  intro m m' n out h
  simp only [hmacMac, Hmac.raw_result] at h
  split at h
  · cases h
  · split at h
    · cases h
    · rename_i hr
      cases h
      exact legacy_result_len C _ _ _ _ hr

theorem xor_into_length (a b : Bytes) : (xor_into a b).length = a.length := by
  simp [xor_into]; omega

section
variable {μ : Type} (M : MacModel μ)

theorem calculate_block_loop_length : ∀ (k : Nat) (mac : μ) (scratch block : Bytes) (mac' : μ) (s' b' : Bytes),
    calculate_block_loop M k mac scratch block = some (mac', s', b') → b'.length = block.length := by
  intro k
  induction k with
  | zero => intro mac scratch block mac' s' b' h; simp only [calculate_block_loop] at h; cases h; rfl
  | succ k ih =>
    intro mac scratch block mac' s' b' h
    simp only [calculate_block_loop] at h
    split at h
    · cases h
    · split at h
      · cases h
      · split at h
        · cases h
        · rw [ih _ _ _ _ _ _ h, xor_into_length]

theorem calculate_block_length (hM : MacResultLen M) (mac : μ) (salt : Bytes) (c idx : Nat) (scratch : Bytes) (blockLen : Nat)
    (mac' : μ) (s' b' : Bytes) (h : calculate_block M mac salt c idx scratch blockLen = some (mac', s', b')) :
    b'.length = blockLen := by
  simp only [calculate_block] at h
  split at h
  · cases h
  · split at h
    · cases h
    · split at h
      · cases h
      · rename_i mac3 block hr
        have hb : block.length = blockLen := hM _ _ _ _ hr
        split at h
        · cases h
        · split at h
          · cases h
          · rename_i mac5 s5 b5 hsec
            rw [calculate_block_loop_length M _ _ _ _ _ _ _ h]
            split at hsec
            · split at hsec
              · cases hsec
              · split at hsec
                · cases hsec
                · split at hsec
                  · cases hsec
                  · cases hsec; rw [xor_into_length, hb]
            · cases hsec; exact hb

theorem pbkdf2_loop_length (hM : MacResultLen M) (salt : Bytes) (c os : Nat) : ∀ (cls : List Nat) (mac : μ) (scratch : Bytes)
    (idx : Nat) (acc : Bytes) (mac' : μ) (out : Bytes),
    pbkdf2_loop M salt c os cls mac scratch idx acc = some (mac', out) → out.length = acc.length + cls.sum := by
  intro cls
  induction cls with
  | nil => intro mac scratch idx acc mac' out h; simp only [pbkdf2_loop] at h; cases h; simp
  | cons cl rest ih =>
    intro mac scratch idx acc mac' out h
    simp only [pbkdf2_loop] at h
    split at h
    · cases h
    · split at h
      · split at h
        · cases h
        · rename_i hcb
          rw [ih _ _ _ _ _ _ h, List.length_append, calculate_block_length M hM _ _ _ _ _ _ _ _ _ hcb, List.sum_cons]; omega
      · split at h
        · cases h
        · split at h
          · cases h
          · rename_i hle
            have hle' := Decidable.not_not.mp hle
            rw [ih _ _ _ _ _ _ h, List.length_append, List.length_take, Nat.min_eq_left hle', List.sum_cons]; omega

theorem sum_replicate (k a : Nat) : (List.replicate k a).sum = k * a := by
  induction k with
  | zero => simp
  | succ k ih => rw [List.replicate_succ, List.sum_cons, ih, Nat.succ_mul]; omega

theorem chunkLens_sum (os L : Nat) : (chunkLens os L).sum = L := by
  simp only [chunkLens, List.sum_append, sum_replicate]
  have := Nat.div_add_mod L os
  rw [Nat.mul_comm] at this
  split
  · simp; omega
  · simp; omega

theorem pbkdf2_length (hM : MacResultLen M) (mac : μ) (salt : Bytes) (c L : Nat) (mac' : μ) (out : Bytes)
    (h : pbkdf2 M mac salt c L = some (mac', out)) : out.length = L := by
  simp only [pbkdf2] at h
  split at h
  · cases h
  · split at h
    · cases h
    · rw [pbkdf2_loop_length M hM _ _ _ _ _ _ _ _ _ _ h, chunkLens_sum]; simp

end

/-! ### `scrypt` -/

theorem scrypt_loop1_eq (n L : Nat) (hL : L ≠ 0) : ∀ (cs vs : List Bytes) (t acc : Bytes), (∀ c ∈ cs, c.length = L) →
    (∀ x ∈ vs, x.length = L) → (scrypt_loop1_src n cs vs.flatten t acc).map (·.2.2) = scrypt_chunks n cs vs t acc := by
  intro cs
  induction cs with
  | nil => intro vs t acc _ _; rfl
  | cons c rest ih =>
    intro vs t acc hcs hvs
    have hc : c.length = L := hcs c (List.mem_cons_self ..)
    have hvs' : ∀ x ∈ vs, x.length = c.length := fun x hx => by rw [hvs x hx, hc]
    simp only [scrypt_loop1_src, scrypt_chunks]
    rw [scrypt_ro_mix_src_eq c vs t n (by omega) hvs']
    cases hm : scrypt_ro_mix c vs t n with
    | none => rfl
    | some r =>
      obtain ⟨b', vs', t'⟩ := r
      have hf := scrypt_ro_mix_facts c vs t n b' vs' t' hvs' hm
      exact ih vs' t' _ (fun c hc => hcs c (List.mem_cons_of_mem _ hc)) (fun x hx => by rw [hf x hx, hc])

theorem zeros_flatten (k L : Nat) : zeros (k * L) = (List.replicate k (zeros L)).flatten := by
  induction k with
  | zero => simp [zeros]
  | succ k ih =>
    rw [List.replicate_succ, List.flatten_cons, ← ih, Nat.succ_mul]
    simp only [zeros]
    rw [Nat.add_comm, List.replicate_append_replicate]

theorem scrypt_src_eq (password salt : Bytes) (params : ScryptParams) (output : Bytes) (hlog : params.log_n < 64) :
    scrypt_src password salt params output = scrypt password salt params output.length := by
  simp only [scrypt_src, scrypt, hlog, not_true_eq_false, if_false, pbkdf2_src_eq]
  by_cases h1 : output.length > 0
  · by_cases h2 : output.length / 32 ≤ 0xffffffff
    · simp only [h1, h2, not_true_eq_false, if_false]
      cases Hmac.new sha256Digest (Legacy.new sha256Ctx) password with
      | none => rfl
      | some mac =>
        simp only []
        have hz : (zeros (params.p * (params.r * 128))).length = params.p * (params.r * 128) := by simp [zeros]
        rw [hz]
        cases hp : pbkdf2 (hmacMac sha256Digest) mac salt 1 (params.p * (params.r * 128)) with
        | none => rfl
        | some r =>
          obtain ⟨mac1, b⟩ := r
          simp only []
          have hb : b.length = params.p * (params.r * 128) := pbkdf2_length _ (hmac_legacy_resultLen sha256Ctx) _ _ _ _ _ _ hp
          by_cases hr : params.r * 128 = 0
          · simp [hr]
          · have hrp : 0 < params.r * 128 := Nat.pos_of_ne_zero hr
            simp only [ne_eq, hr, not_false_eq_true, not_true_eq_false, if_false]
            rw [chunks_takeBlocks _ hrp b (by rw [hb]; exact Nat.mul_mod_left ..), hb, zeros_flatten,
              Nat.mul_div_cancel _ hrp, Nat.mul_div_cancel _ hrp, ← scrypt_loop1_eq _ (params.r * 128) hr]
            · cases scrypt_loop1_src (1 <<< params.log_n) (takeBlocks (params.r * 128) params.p b)
                  (List.replicate (1 <<< params.log_n) (zeros (params.r * 128))).flatten (zeros (params.r * 128)) [] with
              | none => rfl
              | some r =>
                obtain ⟨v', t', b'⟩ := r
                simp only [Option.map_some]
                cases pbkdf2 (hmacMac sha256Digest) mac1 b' 1 output.length with
                | none => rfl
                | some r => rfl
            · intro c hc
              exact Cx.Proofs.KdfScryptMix.takeBlocks_mem_length _ _ _ (by rw [hb, Nat.mul_comm]; exact Nat.le_refl _) c hc
            · intro x hx
              rw [List.eq_of_mem_replicate hx]; simp [zeros]
    · simp [h1, h2]
  · simp [h1]

/-! ### `scrypt_ro_mix` for an arbitrary scratch vector `v` (any length) -/

theorem chunksAux_flatten (n : Nat) (hn : 0 < n) : ∀ (fuel : Nat) (bs : Bytes), bs.length ≤ fuel →
    (chunksAux n fuel bs).flatten = bs := by
  intro fuel
  induction fuel with
  | zero =>
    intro bs h
    have : bs = [] := List.eq_nil_of_length_eq_zero (Nat.le_zero.mp h)
    subst this; rfl
  | succ fuel ih =>
    intro bs h
    simp only [chunksAux]
    split
    · rename_i he; simp at he; subst he; rfl
    · rename_i he
      have hpos : 0 < bs.length := List.length_pos_iff.mpr (by simpa using he)
      rw [List.flatten_cons, ih (bs.drop n) (by simp; omega), List.take_append_drop]

theorem chunks_flatten (n : Nat) (hn : 0 < n) (bs : Bytes) : (chunks n bs).flatten = bs :=
  chunksAux_flatten n hn _ bs (Nat.le_refl _)

theorem ro_mix_fill_guard (len : Nat) : ∀ (cs : List Bytes) (b : Bytes) (r : Bytes × List Bytes), b.length = len →
    ro_mix_fill cs b [] = some r → ∀ c ∈ cs, len ≤ c.length := by
  intro cs
  induction cs with
  | nil => intro b r _ _ c hc; cases hc
  | cons c0 rest ih =>
    intro b r hb h c hc
    simp only [ro_mix_fill] at h
    split at h
    · cases h
    · rename_i hle
      have hle := Decidable.not_not.mp hle
      cases hm : scrypt_block_mix (copy_prefix c0 b) b with
      | none => rw [hm] at h; cases h
      | some b1 =>
        rw [hm] at h
        simp only [] at h
        rw [ro_mix_fill_done] at h
        cases hr : ro_mix_fill rest b1 [] with
        | none => rw [hr] at h; cases h
        | some r1 =>
          rcases List.mem_cons.mp hc with hc | hc
          · subst hc; omega
          · exact ih b1 r1 (by rw [block_mix_length _ _ _ hm, hb]) hr c hc

theorem scrypt_ro_mix_src_eq_chunks (b v t : Bytes) (n : Nat) (hb : b.length ≠ 0) :
    scrypt_ro_mix_src b v t n = (scrypt_ro_mix b (chunks b.length v) t n).map (fun r => (r.1, r.2.1.flatten, r.2.2)) := by
  have hl : 0 < b.length := Nat.pos_of_ne_zero hb
  cases hf : ro_mix_fill (chunks b.length v) b [] with
  | none =>
    simp only [scrypt_ro_mix_src, scrypt_ro_mix, ne_eq, hb, not_false_eq_true, not_true_eq_false, if_false, ro_mix_loop1_eq, hf]
    rfl
  | some r =>
    have hu : ∀ c ∈ chunks b.length v, c.length = b.length := fun c hc =>
      Nat.le_antisymm (chunks_mem_le _ _ _ c hc) (ro_mix_fill_guard b.length _ b r rfl hf c hc)
    have := scrypt_ro_mix_src_eq b (chunks b.length v) t n hb hu
    rw [chunks_flatten _ hl] at this
    exact this

theorem scrypt_ro_mix_src_empty (v t : Bytes) (n : Nat) : scrypt_ro_mix_src [] v t n = none := by
  simp [scrypt_ro_mix_src]

theorem new_log_n (log_n r p : Nat) (x : ScryptParams) (h : ScryptParams.new log_n r p = some x) : x.log_n < 64 := by
  simp only [ScryptParams.new] at h
  repeat' split at h
  all_goals (cases h; try (simp only [USIZE_BITS, Decidable.not_not] at *; assumption))

end Cx.Proofs.GlueKdfScrypt
