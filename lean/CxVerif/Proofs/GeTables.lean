/-
  Proofs.GeTables — the precomputed tables of fe64/precomp.rs (re-extracted: Extracted/Ed25519.lean) against the
  Spec: kernel evaluation over the COMPLETE tables (all 256 + 8 entries, `decide +kernel`, no sampling).

  Method.  `Spec.Edwards.smul` is the LSB-first double-and-add loop, so `smul (n·2^k) P = smul n (double^k P)`
  holds by the shape of the loop alone (no group law): row `i` of GE_BASE is checked against
  `smul (j+1) (double^(8i) B)`, the doublings are shared by walking down the rows.  The walk is cut into four
  blocks of eight rows (each `decide +kernel` ≈ 15 s) joined by three explicit chain points.

  Also here: the value `fval` of a limb vector (= `Proofs.Fe64.eval`, restated so that this file has no
  dependency on the field proofs), limb bounds of every table entry (< 2^51), the base point facts.
-/
import CxVerif.Spec.Edwards
import CxVerif.Impl.Ge
namespace Cx.Proofs.Ge
open Cx Cx.Spec.Edwards
open Cx.Impl.Fe64 (Fe)

/-- the residue mod p denoted by five 51-bit limbs -/
def fval (f : Fe) : Nat := (f.l0 + 2^51 * f.l1 + 2^102 * f.l2 + 2^153 * f.l3 + 2^204 * f.l4) % Cx.Spec.Field25519.p

/-- every limb below `b` -/
def fbnd (b : Nat) (f : Fe) : Bool :=
  decide (f.l0 < b) && decide (f.l1 < b) && decide (f.l2 < b) && decide (f.l3 < b) && decide (f.l4 < b)

/-- what a `GePrecomp` denotes -/
def precompVals (e : Impl.Ge.GePrecomp) : Nat × Nat × Nat := (fval e.y_plus_x, fval e.y_minus_x, fval e.xy2d)

def precompBnd (e : Impl.Ge.GePrecomp) : Bool :=
  fbnd (2^51) e.y_plus_x && fbnd (2^51) e.y_minus_x && fbnd (2^51) e.xy2d

/-! ### the shape of `smul` -/

theorem smulAux_fuel2 : ∀ (f f' n : Nat) (P Q : Point), n ≤ f → n ≤ f' → smulAux f n P Q = smulAux f' n P Q := by
  intro f
  induction f with
  | zero =>
    intro f' n P Q h _
    have : n = 0 := by omega
    subst this
    cases f' <;> simp [smulAux]
  | succ f ih =>
    intro f' n P Q h h'
    cases f' with
    | zero =>
      have : n = 0 := by omega
      subst this
      simp [smulAux]
    | succ f' =>
      simp only [smulAux]
      by_cases hn : n = 0
      · simp [hn]
      · simp only [hn, if_false]
        exact ih f' (n / 2) _ _ (by omega) (by omega)

theorem smulAux_fuel (f n : Nat) (P Q : Point) (h : n ≤ f) : smulAux f n P Q = smulAux n n P Q :=
  smulAux_fuel2 f n n P Q h (Nat.le_refl n)

theorem smul_two_mul (n : Nat) (hn : 0 < n) (P : Point) : smul (2 * n) P = smul n (double P) := by
  unfold smul
  obtain ⟨m, hm⟩ : ∃ m, 2 * n = m + 1 := ⟨2 * n - 1, by omega⟩
  rw [hm]
  simp only [smulAux]
  rw [← hm]
  have h1 : 2 * n ≠ 0 := by omega
  have h2 : 2 * n / 2 = n := by omega
  have h3 : ¬ (2 * n % 2 = 1) := by omega
  simp only [h1, h2, h3, if_false]
  have : m = 2 * n - 1 := by omega
  rw [this, smulAux_fuel (2 * n - 1) n _ _ (by omega)]
  rfl

/-- `k` doublings -/
def doubleN : Nat → Point → Point
  | 0, P => P
  | k + 1, P => doubleN k (double P)

theorem smul_mul_two_pow (k : Nat) : ∀ (n : Nat) (P : Point), 0 < n → smul (n * 2 ^ k) P = smul n (doubleN k P) := by
  induction k with
  | zero => intro n P _; simp [doubleN]
  | succ k ih =>
    intro n P hn
    have : n * 2 ^ (k + 1) = 2 * (n * 2 ^ k) := by rw [Nat.pow_succ]; ac_rfl
    rw [this, smul_two_mul _ (Nat.mul_pos hn (Nat.pow_pos (by decide))), ih n _ hn]
    rfl

def dbl8 (P : Point) : Point := double (double (double (double (double (double (double (double P)))))))

/-- `i` times eight doublings -/
def dbl8N : Nat → Point → Point
  | 0, P => P
  | i + 1, P => dbl8N i (dbl8 P)

theorem doubleN_add (a b : Nat) (P : Point) : doubleN (a + b) P = doubleN b (doubleN a P) := by
  induction a generalizing P with
  | zero => simp [doubleN]
  | succ a ih => rw [Nat.succ_add]; simp only [doubleN]; exact ih _

theorem dbl8N_eq (i : Nat) : ∀ P, dbl8N i P = doubleN (8 * i) P := by
  induction i with
  | zero => intro P; rfl
  | succ i ih =>
    intro P
    have : 8 * (i + 1) = 8 + 8 * i := by omega
    rw [this, doubleN_add]
    simp only [dbl8N]
    rw [ih]; rfl

theorem dbl8N_add (a b : Nat) (P : Point) : dbl8N (a + b) P = dbl8N b (dbl8N a P) := by
  rw [dbl8N_eq, dbl8N_eq, dbl8N_eq, Nat.mul_add, doubleN_add]

/-- `[(j+1)·256^i]P = [j+1](2^(8i) P)` by the shape of the double-and-add loop -/
theorem smul_row (i j : Nat) (P : Point) : smul ((j + 1) * 256 ^ i) P = smul (j + 1) (dbl8N i P) := by
  have : (256 : Nat) ^ i = 2 ^ (8 * i) := by
    rw [Nat.pow_mul]
  rw [this, smul_mul_two_pow _ _ _ (by omega), dbl8N_eq]

/-! ### the check that the kernel evaluates -/

/-- row `i` (eight entries) against `[j+1]D`, `j = 0..7`, limb bounds included -/
def rowOk (D : Point) (row : List Impl.Ge.GePrecomp) : Bool :=
  row.length == 8 &&
  (List.range 8).all fun j => match row[j]? with
    | some e => precompBnd e && (precompVals e == precomp (smul (j + 1) D))
    | none => false

/-- consecutive rows against `D, 2^8 D, 2^16 D, …` -/
def rowsOk : List (List Impl.Ge.GePrecomp) → Point → Bool
  | [], _ => true
  | row :: rest, D => rowOk D row && rowsOk rest (dbl8 D)

theorem rowsOk_get : ∀ (T : List (List Impl.Ge.GePrecomp)) (D : Point), rowsOk T D = true →
    ∀ i row, T[i]? = some row → rowOk (dbl8N i D) row = true := by
  intro T
  induction T with
  | nil => intro D _ i row h; simp at h
  | cons r rest ih =>
    intro D h i row hi
    simp only [rowsOk, Bool.and_eq_true] at h
    cases i with
    | zero => simp at hi; subst hi; exact h.1
    | succ i => simp at hi; exact ih (dbl8 D) h.2 i row hi

theorem rowOk_get {D : Point} {row : List Impl.Ge.GePrecomp} (h : rowOk D row = true) (j : Nat) (hj : j < 8) :
    ∃ e, row[j]? = some e ∧ precompBnd e = true ∧ precompVals e = precomp (smul (j + 1) D) := by
  simp only [rowOk, Bool.and_eq_true, List.all_eq_true, List.mem_range] at h
  have := h.2 j hj
  cases hr : row[j]? with
  | none => rw [hr] at this; exact absurd this (by simp)
  | some e =>
    rw [hr] at this
    simp only [Bool.and_eq_true, beq_iff_eq] at this
    exact ⟨e, rfl, this.1, this.2⟩

/-! ### base point -/

set_option maxRecDepth 100000 in
/-- RFC 8032 §5.1: B is on the curve, its x is the even root recovered from y = 4/5, and its published encoding -/
theorem B_spec : onCurve B = true ∧ recoverX By false = some Bx ∧ Bx % 2 = 0 ∧
    By = 46316835694926478169428394003475163141307993866256225615783033603165251855960 ∧
    encode B = natToLE 32 0x6666666666666666666666666666666666666666666666666666666666666658 := by
  decide +kernel

/-! ### the four blocks of GE_BASE and BI -/

def P8 : Point := ⟨44388040078108422381599858079345000847427885062711346041771517276226329616898,
  1423604317745427322790381226394774763053130405907994130724317794966956167955⟩
def P16 : Point := ⟨34445898214599204196824587830670445739267303633182408050117152659121903233060,
  43048524062920118298805915568484795959327268000798232147099016825120495085163⟩
def P24 : Point := ⟨12565258097955692523285632157940150666933275725759344066053586092157591802509,
  44257820073692905562487031197842487206011716534849741297988353661581996935219⟩

set_option maxRecDepth 1000000 in
theorem chain8 : dbl8N 8 B = P8 := by decide +kernel
set_option maxRecDepth 1000000 in
theorem chain16 : dbl8N 8 P8 = P16 := by decide +kernel
set_option maxRecDepth 1000000 in
theorem chain24 : dbl8N 8 P16 = P24 := by decide +kernel

set_option maxRecDepth 1000000 in
theorem block0 : rowsOk (Impl.Ge.GE_BASE.take 8) B = true := by decide +kernel
set_option maxRecDepth 1000000 in
theorem block1 : rowsOk ((Impl.Ge.GE_BASE.drop 8).take 8) P8 = true := by decide +kernel
set_option maxRecDepth 1000000 in
theorem block2 : rowsOk ((Impl.Ge.GE_BASE.drop 16).take 8) P16 = true := by decide +kernel
set_option maxRecDepth 1000000 in
theorem block3 : rowsOk (Impl.Ge.GE_BASE.drop 24) P24 = true := by decide +kernel

set_option maxRecDepth 1000000 in
theorem GE_BASE_length : Impl.Ge.GE_BASE.length = 32 := by decide +kernel

set_option maxRecDepth 1000000 in
theorem GE_BASE_rows8 : (Impl.Ge.GE_BASE.all fun row => row.length == 8) = true := by decide +kernel

/-- BI[k] against `[2k+1]B`, limb bounds included -/
def biOk : Bool :=
  Impl.Ge.BI.length == 8 &&
  (List.range 8).all fun k => match Impl.Ge.BI[k]? with
    | some e => precompBnd e && (precompVals e == precomp (smul (2 * k + 1) B))
    | none => false

set_option maxRecDepth 1000000 in
theorem biOk_true : biOk = true := by decide +kernel

/-- TABLE THEOREM, GE_BASE: entry `[i][j]` exists for `i < 32`, `j < 8`, its limbs are below 2^51 and it denotes
    `(y+x, y−x, 2dxy)` of `[(j+1)·256^i]B` -/
theorem GE_BASE_entry (i j : Nat) (hi : i < 32) (hj : j < 8) :
    ∃ row e, Impl.Ge.GE_BASE[i]? = some row ∧ row[j]? = some e ∧ precompBnd e = true ∧
      precompVals e = precomp (smul ((j + 1) * 256 ^ i) B) := by
  have hlen := GE_BASE_length
  obtain ⟨row, hrow⟩ : ∃ row, Impl.Ge.GE_BASE[i]? = some row := by
    rw [List.getElem?_eq_getElem (by omega)]; exact ⟨_, rfl⟩
  rw [smul_row]
  -- which block
  have key : rowOk (dbl8N i B) row = true := by
    by_cases h0 : i < 8
    · exact rowsOk_get _ _ block0 i row (by rw [List.getElem?_take, if_pos h0]; exact hrow)
    · by_cases h1 : i < 16
      · have := rowsOk_get _ _ block1 (i - 8) row
          (by rw [List.getElem?_take, if_pos (by omega), List.getElem?_drop]
              rw [show 8 + (i - 8) = i by omega]; exact hrow)
        rw [← chain8, ← dbl8N_add, show 8 + (i - 8) = i by omega] at this
        exact this
      · by_cases h2 : i < 24
        · have := rowsOk_get _ _ block2 (i - 16) row
            (by rw [List.getElem?_take, if_pos (by omega), List.getElem?_drop]
                rw [show 16 + (i - 16) = i by omega]; exact hrow)
          rw [← chain16, ← chain8, ← dbl8N_add, ← dbl8N_add, show 8 + (8 + (i - 16)) = i by omega] at this
          exact this
        · have := rowsOk_get _ _ block3 (i - 24) row
            (by rw [List.getElem?_drop, show 24 + (i - 24) = i by omega]; exact hrow)
          rw [← chain24, ← chain16, ← chain8, ← dbl8N_add, ← dbl8N_add, ← dbl8N_add,
            show 8 + (8 + (8 + (i - 24))) = i by omega] at this
          exact this
  obtain ⟨e, he, hb, hv⟩ := rowOk_get key j hj
  exact ⟨row, e, hrow, he, hb, hv⟩

/-- TABLE THEOREM, BI: entry `[k]`, `k < 8`, denotes `(y+x, y−x, 2dxy)` of `[2k+1]B`, limbs below 2^51 -/
theorem BI_entry (k : Nat) (hk : k < 8) :
    ∃ e, Impl.Ge.BI[k]? = some e ∧ precompBnd e = true ∧ precompVals e = precomp (smul (2 * k + 1) B) := by
  have h := biOk_true
  simp only [biOk, Bool.and_eq_true, List.all_eq_true, List.mem_range] at h
  have := h.2 k hk
  cases hr : Impl.Ge.BI[k]? with
  | none => rw [hr] at this; exact absurd this (by simp)
  | some e =>
    rw [hr] at this
    simp only [Bool.and_eq_true, beq_iff_eq] at this
    exact ⟨e, rfl, this.1, this.2⟩

end Cx.Proofs.Ge
