/-
  Proofs.GeRefine — the limb-level group layer (Impl/Ge.lean over Impl/Fe64.lean) refines the field-level
  formulas of Proofs/EdwardsAlgebra.lean, hence (Proofs/EdwardsSpec.lean) the affine law of Spec/Edwards.lean:
  every function returns `some` (no overflow panic), its output limbs are again `Tight`, and the output
  represents the Spec result.  Built on the Fe64 refinement library (Proofs/Fe64*.lean: `add_spec`, `mul_spec`, …).
  Needs `Nat.Prime p` wherever a division occurs.
-/
import CxVerif.Proofs.EdwardsSpec
import CxVerif.Proofs.Fe64Chain
import CxVerif.Proofs.Fe64Pred
import CxVerif.Impl.Ge
namespace Cx.Proofs.GeRefine
open Cx Cx.Spec Cx.Impl.Fe64 Cx.Impl.Ge Cx.Proofs.EdField Cx.Proofs.EdSpec
open Cx.Proofs.Fe64 (eval Tight Loose SubOk Pub Bnd some_bind pure_eq_some)
open Cx.Spec.Edwards (Point)
open Cx.Spec.Field25519 (p)

set_option maxRecDepth 10000

/-- the field element a limb vector denotes -/
noncomputable def ev (f : Fe) : Fp := ((eval f : Nat) : Fp)

/-! ### the Fe64 operator specs, cast to the field -/

theorem add_ok (f g : Fe) (hf : Loose f) (hg : Loose g) :
    ∃ h, Impl.Fe64.add f g = some h ∧ Tight h ∧ ev h = ev f + ev g := by
  obtain ⟨h, e, t, v⟩ := Proofs.Fe64.add_spec f g hf hg
  exact ⟨h, e, t, by unfold ev; rw [v, cast_add]⟩

theorem sub_ok (f g : Fe) (hf : Loose f) (hg : SubOk g) :
    ∃ h, Impl.Fe64.sub f g = some h ∧ Tight h ∧ ev h = ev f - ev g := by
  obtain ⟨h, e, t, v⟩ := Proofs.Fe64.sub_spec f g hf hg
  exact ⟨h, e, t, by unfold ev; rw [v, cast_sub]⟩

theorem neg_ok (g : Fe) (hg : SubOk g) : ∃ h, Impl.Fe64.neg g = some h ∧ Tight h ∧ ev h = - ev g := by
  obtain ⟨h, e, t, v⟩ := Proofs.Fe64.neg_spec g hg
  exact ⟨h, e, t, by unfold ev; rw [v, cast_neg]⟩

theorem mul_ok (f g : Fe) (hf : Loose f) (hg : Loose g) :
    ∃ h, Impl.Fe64.mul f g = some h ∧ Tight h ∧ ev h = ev f * ev g := by
  obtain ⟨h, e, t, v⟩ := Proofs.Fe64.mul_spec f g hf hg
  exact ⟨h, e, t, by unfold ev; rw [v, cast_mul]⟩

theorem square_ok (f : Fe) (hf : Loose f) : ∃ h, Impl.Fe64.square f = some h ∧ Tight h ∧ ev h = ev f * ev f := by
  obtain ⟨h, e, t, v⟩ := Proofs.Fe64.square_spec f hf
  exact ⟨h, e, t, by unfold ev; rw [v, cast_sq]⟩

theorem sqd_ok (f : Fe) (hf : Loose f) :
    ∃ h, Impl.Fe64.square_and_double f = some h ∧ Pub h ∧ ev h = 2 * (ev f * ev f) := by
  obtain ⟨h, e, t, v⟩ := Proofs.Fe64.square_and_double_spec f hf
  exact ⟨h, e, t, by unfold ev; rw [v, cast_mul, cast_sq]; norm_num⟩

theorem invert_ok [Fact (Nat.Prime p)] (f : Fe) (hf : Loose f) :
    ∃ h, Impl.Fe64.invert f = some h ∧ Tight h ∧ ev h = (ev f)⁻¹ := by
  obtain ⟨h, e, t, v⟩ := Proofs.Fe64.invert_spec f hf
  exact ⟨h, e, t, by unfold ev; rw [v, cast_inv]⟩

theorem ev_ONE : ev Fe.ONE = 1 := by unfold ev; rw [Proofs.Fe64.ONE_spec.2]; exact Nat.cast_one
theorem ev_ZERO : ev Fe.ZERO = 0 := by unfold ev; rw [Proofs.Fe64.ZERO_spec.2]; exact Nat.cast_zero
theorem ev_D2 : ev Fe.D2 = 2 * dF := by
  unfold ev dF; rw [Proofs.Fe64.D2_spec.2]; unfold Field25519.edwardsD2 Edwards.d; rw [cast_mul]; norm_num
theorem ev_D : ev Fe.D = dF := by unfold ev dF; rw [Proofs.Fe64.D_spec.2]; rfl
theorem tight_ONE : Tight Fe.ONE := Proofs.Fe64.bnd51_tight Proofs.Fe64.ONE_spec.1
theorem tight_ZERO : Tight Fe.ZERO := Proofs.Fe64.bnd51_tight Proofs.Fe64.ZERO_spec.1
theorem tight_D2 : Tight Fe.D2 := Proofs.Fe64.bnd51_tight Proofs.Fe64.D2_spec.1
theorem tight_D : Tight Fe.D := Proofs.Fe64.bnd51_tight Proofs.Fe64.D_spec.1

/-! ### representation predicates: limbs Tight, values represent a Spec point -/

section prime
variable [hp : Fact (Nat.Prime p)]

structure GeOk (g : Ge) (P : Point) : Prop where
  tx : Tight g.x
  ty : Tight g.y
  tz : Tight g.z
  tt : Tight g.t
  rep : EdAlg.RepExt (ev g.x) (ev g.y) (ev g.z) (ev g.t) (P.x : Fp) (P.y : Fp)

structure PartialOk (g : GePartial) (P : Point) : Prop where
  tx : Tight g.x
  ty : Tight g.y
  tz : Tight g.z
  rep : EdAlg.RepProj (ev g.x) (ev g.y) (ev g.z) (P.x : Fp) (P.y : Fp)

structure P1P1Ok (g : GeP1P1) (P : Point) : Prop where
  tx : Tight g.x
  ty : Tight g.y
  tz : Tight g.z
  tt : Tight g.t
  rep : EdAlg.RepP1P1 (ev g.x) (ev g.y) (ev g.z) (ev g.t) (P.x : Fp) (P.y : Fp)

structure CachedOk (c : GeCached) (P : Point) : Prop where
  tp : Tight c.y_plus_x
  tm : Tight c.y_minus_x
  tz : Tight c.z
  tt : Tight c.t2d
  rep : EdAlg.RepCached dF (ev c.y_plus_x) (ev c.y_minus_x) (ev c.z) (ev c.t2d) (P.x : Fp) (P.y : Fp)

structure PrecompOk (c : GePrecomp) (P : Point) : Prop where
  tp : Tight c.y_plus_x
  tm : Tight c.y_minus_x
  tt : Tight c.xy2d
  rep : EdAlg.RepPrecomp dF (ev c.y_plus_x) (ev c.y_minus_x) (ev c.xy2d) (P.x : Fp) (P.y : Fp)

theorem GeOk.toPartial {g : Ge} {P : Point} (h : GeOk g P) : PartialOk g.to_partial P :=
  ⟨h.tx, h.ty, h.tz, h.rep.toProj⟩

/-- `GeP1P1::to_full` -/
theorem to_full_ok (r : GeP1P1) (P : Point) (h : P1P1Ok r P) : ∃ g, r.to_full = some g ∧ GeOk g P := by
  obtain ⟨tx, ty, tz, tt, rep⟩ := h
  simp only [GeP1P1.to_full]
  obtain ⟨x, e, hx, vx⟩ := mul_ok r.x r.t tx.loose tt.loose; rw [e, some_bind]
  obtain ⟨y, e, hy, vy⟩ := mul_ok r.y r.z ty.loose tz.loose; rw [e, some_bind]
  obtain ⟨z, e, hz, vz⟩ := mul_ok r.z r.t tz.loose tt.loose; rw [e, some_bind]
  obtain ⟨t, e, ht, vt⟩ := mul_ok r.x r.y tx.loose ty.loose; rw [e, some_bind]
  refine ⟨_, rfl, hx, hy, hz, ht, ?_⟩
  simp only [vx, vy, vz, vt]
  exact EdAlg.p1p1_to_full rep

/-- `GeP1P1::to_partial` -/
theorem to_partial_ok (r : GeP1P1) (P : Point) (h : P1P1Ok r P) : ∃ g, r.to_partial = some g ∧ PartialOk g P := by
  obtain ⟨tx, ty, tz, tt, rep⟩ := h
  simp only [GeP1P1.to_partial]
  obtain ⟨x, e, hx, vx⟩ := mul_ok r.x r.t tx.loose tt.loose; rw [e, some_bind]
  obtain ⟨y, e, hy, vy⟩ := mul_ok r.y r.z ty.loose tz.loose; rw [e, some_bind]
  obtain ⟨z, e, hz, vz⟩ := mul_ok r.z r.t tz.loose tt.loose; rw [e, some_bind]
  refine ⟨_, rfl, hx, hy, hz, ?_⟩
  simp only [vx, vy, vz]
  exact EdAlg.p1p1_to_partial rep

/-- `Ge::to_cached` -/
theorem to_cached_ok (g : Ge) (P : Point) (h : GeOk g P) : ∃ c, g.to_cached = some c ∧ CachedOk c P := by
  obtain ⟨tx, ty, tz, tt, rep⟩ := h
  simp only [Ge.to_cached]
  obtain ⟨a, e, ha, va⟩ := add_ok g.y g.x ty.loose tx.loose; rw [e, some_bind]
  obtain ⟨b, e, hb, vb⟩ := sub_ok g.y g.x ty.loose tx.subOk; rw [e, some_bind]
  obtain ⟨c, e, hc, vc⟩ := mul_ok g.t Fe.D2 tt.loose tight_D2.loose; rw [e, some_bind]
  refine ⟨_, rfl, ha, hb, tz, hc, ?_⟩
  simp only [va, vb, vc, ev_D2]
  exact EdAlg.to_cached rep

/-- `impl Add<&GeCached> for &Ge` computes the affine sum of the represented curve points -/
theorem add_cached_ok (g : Ge) (c : GeCached) (P Q : Point) (hg : GeOk g P) (hc : CachedOk c Q)
    (hP : OnCurve P) (hQ : OnCurve Q) :
    ∃ r, g.add_cached c = some r ∧ P1P1Ok r (Edwards.add P Q) := by
  obtain ⟨tx, ty, tz, tt, rep⟩ := hg
  obtain ⟨cp, cm, cz, ct, crep⟩ := hc
  obtain ⟨dp, dm⟩ := denoms P Q hP hQ
  simp only [Ge.add_cached]
  obtain ⟨s1, e, hs1, v1⟩ := add_ok g.y g.x ty.loose tx.loose; rw [e, some_bind]
  obtain ⟨s2, e, hs2, v2⟩ := sub_ok g.y g.x ty.loose tx.subOk; rw [e, some_bind]
  obtain ⟨a, e, ha, va⟩ := mul_ok s1 c.y_plus_x hs1.loose cp.loose; rw [e, some_bind]
  obtain ⟨b, e, hb, vb⟩ := mul_ok s2 c.y_minus_x hs2.loose cm.loose; rw [e, some_bind]
  obtain ⟨cc, e, hcc, vc⟩ := mul_ok c.t2d g.t ct.loose tt.loose; rw [e, some_bind]
  obtain ⟨zz, e, hzz, vzz⟩ := mul_ok g.z c.z tz.loose cz.loose; rw [e, some_bind]
  obtain ⟨d, e, hd, vd⟩ := add_ok zz zz hzz.loose hzz.loose; rw [e, some_bind]
  obtain ⟨x3, e, hx3, vx3⟩ := sub_ok a b ha.loose hb.subOk; rw [e, some_bind]
  obtain ⟨y3, e, hy3, vy3⟩ := add_ok a b ha.loose hb.loose; rw [e, some_bind]
  obtain ⟨z3, e, hz3, vz3⟩ := add_ok d cc hd.loose hcc.loose; rw [e, some_bind]
  obtain ⟨t3, e, ht3, vt3⟩ := sub_ok d cc hd.loose hcc.subOk; rw [e, some_bind]
  refine ⟨_, rfl, hx3, hy3, hz3, ht3, ?_⟩
  simp only [vx3, vy3, vz3, vt3, va, vb, vc, vd, vzz, v1, v2, cast_add_x, cast_add_y]
  exact EdAlg.add_cached two_ne_zero rep crep dp dm

theorem cast_neg_x (Q : Point) : ((Edwards.neg Q).x : Fp) = -(Q.x : Fp) := by
  unfold Edwards.neg; simp only [cast_neg]
theorem cast_neg_y (Q : Point) : ((Edwards.neg Q).y : Fp) = (Q.y : Fp) := by
  unfold Edwards.neg; simp only [edp, cast_mod]

/-- `impl Sub<&GeCached> for &Ge` computes `P − Q` -/
theorem sub_cached_ok (g : Ge) (c : GeCached) (P Q : Point) (hg : GeOk g P) (hc : CachedOk c Q)
    (hP : OnCurve P) (hQ : OnCurve Q) :
    ∃ r, g.sub_cached c = some r ∧ P1P1Ok r (Edwards.sub P Q) := by
  obtain ⟨tx, ty, tz, tt, rep⟩ := hg
  obtain ⟨cp, cm, cz, ct, crep⟩ := hc
  obtain ⟨dp, dm⟩ := denoms P (Edwards.neg Q) hP (neg_onCurve Q hQ)
  rw [cast_neg_x, cast_neg_y] at dp dm
  simp only [Ge.sub_cached]
  obtain ⟨s1, e, hs1, v1⟩ := add_ok g.y g.x ty.loose tx.loose; rw [e, some_bind]
  obtain ⟨s2, e, hs2, v2⟩ := sub_ok g.y g.x ty.loose tx.subOk; rw [e, some_bind]
  obtain ⟨a, e, ha, va⟩ := mul_ok s1 c.y_minus_x hs1.loose cm.loose; rw [e, some_bind]
  obtain ⟨b, e, hb, vb⟩ := mul_ok s2 c.y_plus_x hs2.loose cp.loose; rw [e, some_bind]
  obtain ⟨cc, e, hcc, vc⟩ := mul_ok c.t2d g.t ct.loose tt.loose; rw [e, some_bind]
  obtain ⟨zz, e, hzz, vzz⟩ := mul_ok g.z c.z tz.loose cz.loose; rw [e, some_bind]
  obtain ⟨d, e, hd, vd⟩ := add_ok zz zz hzz.loose hzz.loose; rw [e, some_bind]
  obtain ⟨x3, e, hx3, vx3⟩ := sub_ok a b ha.loose hb.subOk; rw [e, some_bind]
  obtain ⟨y3, e, hy3, vy3⟩ := add_ok a b ha.loose hb.loose; rw [e, some_bind]
  obtain ⟨z3, e, hz3, vz3⟩ := sub_ok d cc hd.loose hcc.subOk; rw [e, some_bind]
  obtain ⟨t3, e, ht3, vt3⟩ := add_ok d cc hd.loose hcc.loose; rw [e, some_bind]
  refine ⟨_, rfl, hx3, hy3, hz3, ht3, ?_⟩
  unfold Edwards.sub
  simp only [vx3, vy3, vz3, vt3, va, vb, vc, vd, vzz, v1, v2, cast_add_x, cast_add_y, cast_neg_x, cast_neg_y]
  exact EdAlg.sub_cached two_ne_zero rep crep dp dm

/-- `impl Add<&GePrecomp> for &Ge` -/
theorem add_precomp_ok (g : Ge) (c : GePrecomp) (P Q : Point) (hg : GeOk g P) (hc : PrecompOk c Q)
    (hP : OnCurve P) (hQ : OnCurve Q) :
    ∃ r, g.add_precomp c = some r ∧ P1P1Ok r (Edwards.add P Q) := by
  obtain ⟨tx, ty, tz, tt, rep⟩ := hg
  obtain ⟨cp, cm, ct, crep⟩ := hc
  obtain ⟨dp, dm⟩ := denoms P Q hP hQ
  simp only [Ge.add_precomp]
  obtain ⟨s1, e, hs1, v1⟩ := add_ok g.y g.x ty.loose tx.loose; rw [e, some_bind]
  obtain ⟨s2, e, hs2, v2⟩ := sub_ok g.y g.x ty.loose tx.subOk; rw [e, some_bind]
  obtain ⟨a, e, ha, va⟩ := mul_ok s1 c.y_plus_x hs1.loose cp.loose; rw [e, some_bind]
  obtain ⟨b, e, hb, vb⟩ := mul_ok s2 c.y_minus_x hs2.loose cm.loose; rw [e, some_bind]
  obtain ⟨cc, e, hcc, vc⟩ := mul_ok c.xy2d g.t ct.loose tt.loose; rw [e, some_bind]
  obtain ⟨d, e, hd, vd⟩ := add_ok g.z g.z tz.loose tz.loose; rw [e, some_bind]
  obtain ⟨x3, e, hx3, vx3⟩ := sub_ok a b ha.loose hb.subOk; rw [e, some_bind]
  obtain ⟨y3, e, hy3, vy3⟩ := add_ok a b ha.loose hb.loose; rw [e, some_bind]
  obtain ⟨z3, e, hz3, vz3⟩ := add_ok d cc hd.loose hcc.loose; rw [e, some_bind]
  obtain ⟨t3, e, ht3, vt3⟩ := sub_ok d cc hd.loose hcc.subOk; rw [e, some_bind]
  refine ⟨_, rfl, hx3, hy3, hz3, ht3, ?_⟩
  simp only [vx3, vy3, vz3, vt3, va, vb, vc, vd, v1, v2, cast_add_x, cast_add_y]
  have := EdAlg.add_cached two_ne_zero rep (EdAlg.precomp_as_cached crep) dp dm
  simp only [mul_one] at this
  exact this

/-- `impl Sub<&GePrecomp> for &Ge` -/
theorem sub_precomp_ok (g : Ge) (c : GePrecomp) (P Q : Point) (hg : GeOk g P) (hc : PrecompOk c Q)
    (hP : OnCurve P) (hQ : OnCurve Q) :
    ∃ r, g.sub_precomp c = some r ∧ P1P1Ok r (Edwards.sub P Q) := by
  obtain ⟨tx, ty, tz, tt, rep⟩ := hg
  obtain ⟨cp, cm, ct, crep⟩ := hc
  obtain ⟨dp, dm⟩ := denoms P (Edwards.neg Q) hP (neg_onCurve Q hQ)
  rw [cast_neg_x, cast_neg_y] at dp dm
  simp only [Ge.sub_precomp]
  obtain ⟨s1, e, hs1, v1⟩ := add_ok g.y g.x ty.loose tx.loose; rw [e, some_bind]
  obtain ⟨s2, e, hs2, v2⟩ := sub_ok g.y g.x ty.loose tx.subOk; rw [e, some_bind]
  obtain ⟨a, e, ha, va⟩ := mul_ok s1 c.y_minus_x hs1.loose cm.loose; rw [e, some_bind]
  obtain ⟨b, e, hb, vb⟩ := mul_ok s2 c.y_plus_x hs2.loose cp.loose; rw [e, some_bind]
  obtain ⟨cc, e, hcc, vc⟩ := mul_ok c.xy2d g.t ct.loose tt.loose; rw [e, some_bind]
  obtain ⟨d, e, hd, vd⟩ := add_ok g.z g.z tz.loose tz.loose; rw [e, some_bind]
  obtain ⟨x3, e, hx3, vx3⟩ := sub_ok a b ha.loose hb.subOk; rw [e, some_bind]
  obtain ⟨y3, e, hy3, vy3⟩ := add_ok a b ha.loose hb.loose; rw [e, some_bind]
  obtain ⟨z3, e, hz3, vz3⟩ := sub_ok d cc hd.loose hcc.subOk; rw [e, some_bind]
  obtain ⟨t3, e, ht3, vt3⟩ := add_ok d cc hd.loose hcc.loose; rw [e, some_bind]
  refine ⟨_, rfl, hx3, hy3, hz3, ht3, ?_⟩
  unfold Edwards.sub
  simp only [vx3, vy3, vz3, vt3, va, vb, vc, vd, v1, v2, cast_add_x, cast_add_y, cast_neg_x, cast_neg_y]
  have := EdAlg.sub_cached two_ne_zero rep (EdAlg.precomp_as_cached crep) dp dm
  simp only [mul_one] at this
  exact this

/-- the doubling formulas shared by `Ge::double_p1p1` and `GePartial::double_p1p1` -/
theorem double_p1p1_xyz_ok (x y z : Fe) (P : Point) (tx : Tight x) (ty : Tight y) (tz : Tight z)
    (rep : EdAlg.RepProj (ev x) (ev y) (ev z) (P.x : Fp) (P.y : Fp)) (hP : OnCurve P) :
    ∃ r, double_p1p1_xyz x y z = some r ∧ P1P1Ok r (Edwards.double P) := by
  obtain ⟨dp, dm⟩ := denoms P P hP hP
  simp only [double_p1p1_xyz]
  obtain ⟨xx, e, hxx, vxx⟩ := square_ok x tx.loose; rw [e, some_bind]
  obtain ⟨yy, e, hyy, vyy⟩ := square_ok y ty.loose; rw [e, some_bind]
  obtain ⟨b, e, hb, vb⟩ := sqd_ok z tz.loose; rw [e, some_bind]
  obtain ⟨a, e, ha, va⟩ := add_ok x y tx.loose ty.loose; rw [e, some_bind]
  obtain ⟨aa, e, haa, vaa⟩ := square_ok a ha.loose; rw [e, some_bind]
  obtain ⟨y3, e, hy3, vy3⟩ := add_ok yy xx hyy.loose hxx.loose; rw [e, some_bind]
  obtain ⟨z3, e, hz3, vz3⟩ := sub_ok yy xx hyy.loose hxx.subOk; rw [e, some_bind]
  obtain ⟨x3, e, hx3, vx3⟩ := sub_ok aa y3 haa.loose hy3.subOk; rw [e, some_bind]
  obtain ⟨t3, e, ht3, vt3⟩ := sub_ok b z3 hb.loose hz3.subOk; rw [e, some_bind]
  refine ⟨_, rfl, hx3, hy3, hz3, ht3, ?_⟩
  unfold Edwards.double
  simp only [vx3, vy3, vz3, vt3, vaa, va, vb, vxx, vyy, cast_add_x, cast_add_y]
  exact EdAlg.double_p1p1 rep ((onCurve_iff P).1 hP).2.2 dp dm

theorem ge_double_p1p1_ok (g : Ge) (P : Point) (hg : GeOk g P) (hP : OnCurve P) :
    ∃ r, g.double_p1p1 = some r ∧ P1P1Ok r (Edwards.double P) :=
  double_p1p1_xyz_ok g.x g.y g.z P hg.tx hg.ty hg.tz hg.rep.toProj hP

theorem partial_double_p1p1_ok (g : GePartial) (P : Point) (hg : PartialOk g P) (hP : OnCurve P) :
    ∃ r, g.double_p1p1 = some r ∧ P1P1Ok r (Edwards.double P) :=
  double_p1p1_xyz_ok g.x g.y g.z P hg.tx hg.ty hg.tz hg.rep hP

/-- `Ge::negate` -/
theorem negate_ok (g : Ge) (P : Point) (hg : GeOk g P) : ∃ r, g.negate = some r ∧ GeOk r (Edwards.neg P) := by
  obtain ⟨tx, ty, tz, tt, rep⟩ := hg
  simp only [Ge.negate]
  obtain ⟨x, e, hx, vx⟩ := neg_ok g.x tx.subOk; rw [e, some_bind]
  obtain ⟨t, e, ht, vt⟩ := neg_ok g.t tt.subOk; rw [e, some_bind]
  refine ⟨_, rfl, hx, ty, tz, ht, ?_⟩
  simp only [vx, vt, cast_neg_x, cast_neg_y]
  exact EdAlg.negate rep

theorem ZERO_ok : GeOk Ge.ZERO Edwards.zero :=
  ⟨tight_ZERO, tight_ONE, tight_ONE, tight_ZERO, by
    show EdAlg.RepExt (ev Fe.ZERO) (ev Fe.ONE) (ev Fe.ONE) (ev Fe.ZERO) ((0 : Nat) : Fp) ((1 : Nat) : Fp)
    rw [ev_ZERO, ev_ONE]; push_cast; exact EdAlg.ext_zero⟩

theorem partial_ZERO_ok : PartialOk GePartial.ZERO Edwards.zero := ZERO_ok.toPartial

end prime

end Cx.Proofs.GeRefine
