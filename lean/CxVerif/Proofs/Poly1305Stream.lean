/-
  Proofs.Poly1305Stream — `block` on states, the 16-byte staging of `input` (any split gives the same block
  sequence), `finish`/`raw_result`, and the refinement to the abstract object (key, bytes since reset, finished?).
-/
import CxVerif.Proofs.Poly1305Bytes
namespace Cx.Proofs.Poly1305
open Cx Cx.Impl.Poly1305
open Cx.Spec.Poly1305 (p step poly blockNat)

/-! ### `chunks 16` -/

theorem chunksAux_fuel2 (n : Nat) (hn : 0 < n) (f1 f2 : Nat) (bs : Bytes) (h1 : bs.length ≤ f1) (h2 : bs.length ≤ f2) :
    chunksAux n f1 bs = chunksAux n f2 bs := by
  induction f1 generalizing f2 bs with
  | zero =>
    have : bs = [] := List.eq_nil_of_length_eq_zero (by omega)
    subst this; cases f2 <;> rfl
  | succ f1 ih =>
    cases bs with
    | nil => cases f2 <;> rfl
    | cons b bs =>
      cases f2 with
      | zero => simp at h2
      | succ f2 =>
        simp only [chunksAux, List.isEmpty_cons, Bool.false_eq_true, if_false]
        have hd : ((b :: bs).drop n).length ≤ bs.length := by simp; omega
        simp only [List.length_cons] at h1 h2
        rw [ih f2 _ (by omega) (by omega)]

theorem chunksAux_fuel (n : Nat) (hn : 0 < n) (fuel : Nat) (bs : Bytes) (h : bs.length ≤ fuel) :
    chunksAux n fuel bs = chunksAux n bs.length bs :=
  chunksAux_fuel2 n hn _ _ bs h (Nat.le_refl _)

theorem chunks_nil (n : Nat) : chunks n [] = [] := rfl

theorem chunks_cons (n : Nat) (hn : 0 < n) (bs : Bytes) (h : bs ≠ []) :
    chunks n bs = bs.take n :: chunks n (bs.drop n) := by
  cases bs with
  | nil => exact absurd rfl h
  | cons b bs =>
    simp only [chunks, List.length_cons, chunksAux, List.isEmpty_cons, Bool.false_eq_true, if_false]
    rw [chunksAux_fuel n hn]
    simp; omega

theorem chunks_small (bs : Bytes) (h0 : bs ≠ []) (h : bs.length ≤ 16) : chunks 16 bs = [bs] := by
  rw [chunks_cons 16 (by decide) bs h0, List.take_of_length_le h, List.drop_eq_nil_of_le h, chunks_nil]

theorem chunks_block_append (b rest : Bytes) (hb : b.length = 16) :
    chunks 16 (b ++ rest) = b :: chunks 16 rest := by
  have hne : b ++ rest ≠ [] := by
    intro h; have := congrArg List.length h; simp [hb] at this
  rw [chunks_cons 16 (by decide) _ hne, List.take_left' hb, List.drop_left' hb]

theorem chunks_append (pre x : Bytes) (k : Nat) (h : pre.length = 16 * k) :
    chunks 16 (pre ++ x) = chunks 16 pre ++ chunks 16 x := by
  induction k generalizing pre with
  | zero =>
    have : pre = [] := List.eq_nil_of_length_eq_zero (by omega)
    subst this; rfl
  | succ k ih =>
    have hsplit : pre = pre.take 16 ++ pre.drop 16 := (List.take_append_drop 16 pre).symm
    have ht : (pre.take 16).length = 16 := by simp; omega
    have hd : (pre.drop 16).length = 16 * k := by simp; omega
    rw [hsplit, List.append_assoc, chunks_block_append _ _ ht, chunks_block_append _ _ ht, ih _ hd]
    rfl

/-! ### one block -/

/-- `a ≡ a' (mod p)` is preserved by one accumulator step -/
theorem step_mod (a a' n r : Nat) (h : a % p = a' % p) : ((a + n) * r) % p = ((a' + n) * r) % p := by
  rw [Nat.mul_mod, Nat.add_mod, h, ← Nat.add_mod, ← Nat.mul_mod]

/-- **block on states** (C05 b, C20): with clamped `r`, an accumulator inside the invariant and a 16-byte slice,
    `block` does not panic, changes only `h`, keeps the invariant, and multiplies
    `(h + m + hibit·2^128)` by `r` modulo `2^130 − 5`. -/
theorem block_spec (st : State) (m : Bytes) (hr : RInv st.r) (hh : Inv st.h) (hm : m.length = 16) :
    ∃ h', block st m = .ok { st with h := h' } ∧ Inv h' ∧
      val h' % p = ((val st.h + (leNat m + (if st.finalized then 0 else 2 ^ 128))) * val st.r) % p := by
  have lb := loadBlock_spec m hm st.finalized
  obtain ⟨ht, hv⟩ := lb
  have ba := blockArith_spec st.r st.h _ hr hh ht
  obtain ⟨hok, hinv, hval⟩ := ba
  refine ⟨_, ?_, hinv, ?_⟩
  · have : ¬ m.length < 16 := by omega
    simp only [block, this, if_false, hok, if_true]
  · rw [hval, hv]

/-! ### the abstract relation -/

/-- the parts of the state that never change: clamped `r` representing `rOf key`, `pad` representing `sOf key`,
    a 16-byte staging buffer -/
structure Static (key : Bytes) (st : State) : Prop where
  rinv : RInv st.r
  rval : val st.r = Spec.Poly1305.rOf key
  pinv : PadInv st.pad
  pval : val4 st.pad = Spec.Poly1305.sOf key
  blen : st.buffer.length = 16

/-- absorbing state: `msg` = processed prefix (a whole number of blocks) ++ the staged partial block -/
def Absorbing (key : Bytes) (st : State) (msg : Bytes) : Prop :=
  Static key st ∧ st.leftover < 16 ∧ st.finalized = false ∧ Inv st.h ∧
  ∃ (pre : Bytes) (k : Nat), msg = pre ++ st.buffer.take st.leftover ∧ pre.length = 16 * k ∧
    val st.h % p = (chunks 16 pre).foldl (step (Spec.Poly1305.rOf key)) 0

/-! ### the `while` loop of `input` -/

theorem fold_lt (r : Nat) (l : List Bytes) (a : Nat) (ha : a < p) : l.foldl (step r) a < p := by
  induction l generalizing a with
  | nil => exact ha
  | cons b l ih => exact ih _ (Nat.mod_lt _ (by decide))

theorem poly_lt (r : Nat) (msg : Bytes) : (chunks 16 msg).foldl (step r) 0 < p := fold_lt r _ 0 (by decide)

/-- one full block in spec terms -/
theorem block_full (st : State) (b : Bytes) (r acc : Nat) (hr : RInv st.r) (hrv : val st.r = r) (hh : Inv st.h)
    (hb : b.length = 16) (hnf : st.finalized = false) (hacc : val st.h % p = acc) (hlt : acc < p) :
    ∃ h', block st b = .ok { st with h := h' } ∧ Inv h' ∧ val h' % p = step r acc b := by
  obtain ⟨h', e, i, v⟩ := block_spec st b hr hh hb
  refine ⟨h', e, i, ?_⟩
  rw [v, hnf, hrv, step, blockNat_eq, hb]
  simp only [Bool.false_eq_true, if_false]
  exact step_mod _ _ _ _ (by rw [hacc, Nat.mod_eq_of_lt hlt])

theorem blocks_spec (r : Nat) (fuel : Nat) (st : State) (m pre : Bytes) (k : Nat)
    (hf : m.length ≤ fuel) (hr : RInv st.r) (hrv : val st.r = r) (hh : Inv st.h) (hnf : st.finalized = false)
    (hpre : pre.length = 16 * k) (hacc : val st.h % p = (chunks 16 pre).foldl (step r) 0) :
    ∃ h', blocks fuel st m = .ok ({ st with h := h' }, m.drop (16 * (m.length / 16))) ∧ Inv h' ∧
      val h' % p = (chunks 16 (pre ++ m.take (16 * (m.length / 16)))).foldl (step r) 0 := by
  induction fuel generalizing st m pre k with
  | zero =>
    have : m = [] := List.eq_nil_of_length_eq_zero (by omega)
    subst this
    exact ⟨st.h, rfl, hh, by simpa using hacc⟩
  | succ fuel ih =>
    by_cases hm : m.length ≥ 16
    · have hb : (m.take 16).length = 16 := by simp; omega
      obtain ⟨h1, e1, i1, v1⟩ := block_full st (m.take 16) r _ hr hrv hh hb hnf hacc (poly_lt r pre)
      have hpre' : (pre ++ m.take 16).length = 16 * (k + 1) := by simp; omega
      have hacc' : val h1 % p = (chunks 16 (pre ++ m.take 16)).foldl (step r) 0 := by
        rw [chunks_append pre _ k hpre, chunks_small (m.take 16) (by intro h; rw [h] at hb; exact absurd hb (by decide)) (Nat.le_of_eq hb), List.foldl_append, v1]
        rfl
      obtain ⟨h2, e2, i2, v2⟩ := ih { st with h := h1 } (m.drop 16) (pre ++ m.take 16) (k + 1)
        (by simp; omega) hr hrv i1 hnf hpre' hacc'
      have hq : m.length / 16 = (m.length - 16) / 16 + 1 := by omega
      refine ⟨h2, ?_, i2, ?_⟩
      · simp only [blocks, hm, if_true, e1, e2, List.length_drop, List.drop_drop]
        rw [hq]; congr 3; omega
      · rw [v2, List.length_drop, List.append_assoc, hq, Nat.mul_add, Nat.mul_one, Nat.add_comm _ 16, List.take_add]
    · have hq : m.length / 16 = 0 := by omega
      refine ⟨st.h, ?_, hh, ?_⟩
      · simp only [blocks, hm, if_false, hq]; rfl
      · simpa [hq] using hacc

theorem copyInto_spec (src buf : Bytes) (off : Nat) (h : off + src.length ≤ buf.length) :
    ∃ res, copyInto buf off src = some res ∧ res.length = buf.length ∧
      res.take (off + src.length) = buf.take off ++ src := by
  induction src generalizing buf off with
  | nil => exact ⟨buf, rfl, rfl, by simp⟩
  | cons x xs ih =>
    simp only [List.length_cons] at h
    have hlt : off < buf.length := by omega
    obtain ⟨res, h1, h2, h3⟩ := ih (buf.set off x) (off + 1) (by simp; omega)
    refine ⟨res, ?_, ?_, ?_⟩
    · simp only [copyInto, hlt, if_true, h1]
    · simpa using h2
    · have e : off + (x :: xs).length = off + 1 + xs.length := by simp; omega
      rw [e, h3, List.set_eq_take_append_cons_drop, if_pos hlt]
      have : (List.take off buf ++ x :: List.drop (off + 1) buf).take (off + 1) = List.take off buf ++ [x] := by
        have hl : (List.take off buf).length = off := by simp; omega
        rw [List.take_append, hl, List.take_take, Nat.min_eq_right (by omega : off ≤ off + 1)]
        simp
      rw [this]; simp

/-! ### `input` (C05 d): any split gives the same block sequence -/

theorem inputTail_spec (key : Bytes) (st : State) (m pre : Bytes) (k : Nat)
    (hs : Static key st) (hh : Inv st.h) (hnf : st.finalized = false)
    (hpre : pre.length = 16 * k)
    (hacc : val st.h % p = (chunks 16 pre).foldl (step (Spec.Poly1305.rOf key)) 0) :
    ∃ st', inputTail st m = .ok st' ∧ Absorbing key st' (pre ++ m) := by
  obtain ⟨h', e, i, v⟩ := blocks_spec _ m.length st m pre k (Nat.le_refl _) hs.rinv hs.rval hh hnf hpre hacc
  have hrem : (m.drop (16 * (m.length / 16))).length < 16 := by simp; omega
  have hle : (m.drop (16 * (m.length / 16))).length ≤ st.buffer.length := by rw [hs.blen]; omega
  refine ⟨{ st with h := h', buffer := m.drop (16 * (m.length / 16)) ++ st.buffer.drop (m.drop (16 * (m.length / 16))).length,
                      leftover := (m.drop (16 * (m.length / 16))).length }, ?_, ?_⟩
  · simp only [inputTail, e, hle, if_true]
  · refine ⟨⟨hs.rinv, hs.rval, hs.pinv, hs.pval, ?_⟩, hrem, hnf, i, pre ++ m.take (16 * (m.length / 16)),
      k + m.length / 16, ?_, ?_, v⟩
    · have := hs.blen
      simp only [List.length_append, List.length_drop] at hrem ⊢
      omega
    · simp only [List.take_left' rfl, List.append_assoc, List.take_append_drop]
    · simp; omega

/-- **staging** (C05 d): one `input` call on an absorbing state does not panic and extends the abstract
    message by exactly `data`, whatever was staged before and however long `data` is. -/
theorem input_spec (key : Bytes) (st : State) (msg data : Bytes) (h : Absorbing key st msg) :
    ∃ st', input st data = .ok st' ∧ Absorbing key st' (msg ++ data) := by
  obtain ⟨hs, hlo, hnf, hh, pre, k, hmsg, hpre, hacc⟩ := h
  by_cases h0 : st.leftover > 0
  · have hlo16 : ¬ st.leftover > 16 := by omega
    have hwant : min (16 - st.leftover) data.length ≤ data.length := Nat.min_le_right _ _
    have htl : (data.take (min (16 - st.leftover) data.length)).length = min (16 - st.leftover) data.length := by
      simp
    obtain ⟨buf, c1, c2, c3⟩ := copyInto_spec (data.take (min (16 - st.leftover) data.length)) st.buffer st.leftover
      (by rw [htl, hs.blen]; omega)
    rw [htl] at c3
    by_cases hlt : st.leftover + min (16 - st.leftover) data.length < 16
    · -- still a partial block: everything is staged
      have hw : min (16 - st.leftover) data.length = data.length := by omega
      refine ⟨{ st with buffer := buf, leftover := st.leftover + min (16 - st.leftover) data.length }, ?_, ?_⟩
      · simp only [input, hnf, Bool.false_eq_true, if_false, h0, if_true, hlo16, c1, hlt]
      · refine ⟨⟨hs.rinv, hs.rval, hs.pinv, hs.pval, by rw [c2]; exact hs.blen⟩, hlt, hnf, hh, pre, k, ?_, hpre, hacc⟩
        simp only []
        rw [c3, hw, List.take_of_length_le (Nat.le_refl _), hmsg, List.append_assoc]
    · -- the staged block is complete
      have hw : st.leftover + min (16 - st.leftover) data.length = 16 := by omega
      have hbuf : buf = st.buffer.take st.leftover ++ data.take (min (16 - st.leftover) data.length) := by
        rw [← c3, hw, List.take_of_length_le (by rw [c2, hs.blen])]
      have hbl : buf.length = 16 := by rw [c2]; exact hs.blen
      obtain ⟨h1, e1, i1, v1⟩ := block_full
        { st with buffer := buf, leftover := st.leftover + min (16 - st.leftover) data.length } buf
        (Spec.Poly1305.rOf key) _ hs.rinv hs.rval hh hbl hnf hacc (poly_lt _ pre)
      have hacc' : val h1 % p = (chunks 16 (pre ++ buf)).foldl (step (Spec.Poly1305.rOf key)) 0 := by
        rw [chunks_append pre _ k hpre, chunks_small buf (by intro h; rw [h] at hbl; exact absurd hbl (by decide)) (Nat.le_of_eq hbl), List.foldl_append, v1]
        rfl
      obtain ⟨st', e2, a2⟩ := inputTail_spec key
        { st with buffer := buf, leftover := 0, h := h1 } (data.drop (min (16 - st.leftover) data.length))
        (pre ++ buf) (k + 1) ⟨hs.rinv, hs.rval, hs.pinv, hs.pval, hbl⟩ i1 hnf (by simp; omega) hacc'
      refine ⟨st', ?_, ?_⟩
      · simp only [hnf] at e1 e2
        simp only [input, hnf, Bool.false_eq_true, if_false, h0, if_true, hlo16, c1, hlt, e1]
        exact e2
      · have : msg ++ data = pre ++ buf ++ data.drop (min (16 - st.leftover) data.length) := by
          rw [hmsg, hbuf]; simp only [List.append_assoc, List.take_append_drop]
        rw [this]; exact a2
  · have hz : st.leftover = 0 := by omega
    have hm : msg = pre := by rw [hmsg, hz]; simp
    obtain ⟨st', e, a⟩ := inputTail_spec key st data pre k hs hh hnf hpre hacc
    refine ⟨st', ?_, by rw [hm]; exact a⟩
    simp only [input, hnf, Bool.false_eq_true, if_false, h0]
    exact e

/-! ### `finish`, `raw_result` (C05 c, e) -/

/-- finished state: the tag of `msg` sits in `h[0..4]` and the object refuses further input -/
def Finished (key : Bytes) (st : State) (msg : Bytes) : Prop :=
  Static key st ∧ st.finalized = true ∧ tagBytes st.h = Spec.Poly1305.mac key msg

theorem finishTail_spec (key : Bytes) (st : State) (acc : Nat) (hs : Static key st) (hh : Inv st.h)
    (hacc : val st.h % p = acc) :
    ∃ st', finishTail st = .ok st' ∧ Static key st' ∧ st'.finalized = st.finalized ∧
      tagBytes st'.h = natToLE 16 ((acc + Spec.Poly1305.sOf key) % 2 ^ 128) := by
  obtain ⟨hok, w0, w1, w2, w3, hv⟩ := finishArith_spec st.h st.pad hh hs.pinv
  refine ⟨{ st with h := ⟨(finishArith st.h st.pad).out.w0, (finishArith st.h st.pad).out.w1,
      (finishArith st.h st.pad).out.w2, (finishArith st.h st.pad).out.w3, st.h.l4⟩ }, ?_, ?_, rfl, ?_⟩
  · simp only [finishTail, hok, if_true]
  · exact ⟨hs.rinv, hs.rval, hs.pinv, hs.pval, hs.blen⟩
  · rw [tagBytes_eq _ w0 w1 w2 w3]
    have hp := hs.pval
    simp only [val4] at hv hp
    rw [hv, hacc, hp]

/-- **finish** (C05 c): from an absorbing state `finish` does not panic and leaves the RFC 8439 tag of the
    whole message in `h[0..4]`; the final partial block (if any) gets the 0x01 marker and no hibit.
    `finalized` is set iff a partial block was pending or the variant is the repaired one. -/
theorem finish_spec (v : Variant) (key : Bytes) (st : State) (msg : Bytes) (h : Absorbing key st msg) :
    ∃ st', finish v st = .ok st' ∧ Static key st' ∧ tagBytes st'.h = Spec.Poly1305.mac key msg ∧
      st'.finalized = (decide (st.leftover > 0) || decide (v = .repaired)) := by
  obtain ⟨hs, hlo, hnf, hh, pre, k, hmsg, hpre, hacc⟩ := h
  by_cases h0 : st.leftover > 0
  · obtain ⟨pl, pv⟩ := padBuffer_spec st.buffer st.leftover hs.blen hlo
    obtain ⟨h1, e1, i1, v1⟩ := block_spec
      { st with buffer := padBuffer st.buffer st.leftover, finalized := true } _ hs.rinv hh pl
    have htl : (st.buffer.take st.leftover).length = st.leftover := by
      rw [List.length_take, hs.blen]; omega
    have hacc' : val h1 % p = poly (Spec.Poly1305.rOf key) msg := by
      rw [v1, poly, hmsg, chunks_append pre _ k hpre,
        chunks_small (st.buffer.take st.leftover) (by intro h; rw [h] at htl; simp at htl; omega) (by omega),
        List.foldl_append]
      simp only [if_true, Nat.add_zero, List.foldl_cons, List.foldl_nil, step]
      rw [pv, hs.rval]
      exact step_mod _ _ _ _ (by rw [hacc, Nat.mod_eq_of_lt (poly_lt _ pre)])
    obtain ⟨st', e2, s2, f2, t2⟩ := finishTail_spec key
      { st with buffer := padBuffer st.buffer st.leftover, finalized := true, h := h1 } _
      ⟨hs.rinv, hs.rval, hs.pinv, hs.pval, pl⟩ i1 hacc'
    refine ⟨st', ?_, s2, t2, ?_⟩
    · simp only [finish, h0, if_true, hlo, e1]
      exact e2
    · rw [f2]; simp [h0]
  · have hz : st.leftover = 0 := by omega
    have hm : msg = pre := by rw [hmsg, hz]; simp
    have hacc' : val st.h % p = poly (Spec.Poly1305.rOf key) msg := by rw [hm, hacc, poly]
    cases v with
    | original =>
      obtain ⟨st', e2, s2, f2, t2⟩ := finishTail_spec key st _ hs hh hacc'
      refine ⟨st', ?_, s2, t2, ?_⟩
      · simp only [finish, h0, if_false]; exact e2
      · rw [f2, hnf]; simp [h0]
    | repaired =>
      obtain ⟨st', e2, s2, f2, t2⟩ := finishTail_spec key { st with finalized := true } _
        ⟨hs.rinv, hs.rval, hs.pinv, hs.pval, hs.blen⟩ hh hacc'
      refine ⟨st', ?_, s2, t2, ?_⟩
      · simp only [finish, h0, if_false]; exact e2
      · rw [f2]; simp

/-- `raw_result` on an absorbing state: the RFC 8439 tag, no panic (the output slice has ≥ 16 bytes) -/
theorem raw_result_absorbing (v : Variant) (key : Bytes) (st : State) (msg : Bytes) (n : Nat) (hn : 16 ≤ n)
    (h : Absorbing key st msg) :
    ∃ st', raw_result v st n = .ok (st', Spec.Poly1305.mac key msg) ∧ Static key st' ∧
      tagBytes st'.h = Spec.Poly1305.mac key msg ∧
      st'.finalized = (decide (st.leftover > 0) || decide (v = .repaired)) := by
  obtain ⟨st', e, s, t, f⟩ := finish_spec v key st msg h
  have hnf : st.finalized = false := h.2.2.1
  refine ⟨st', ?_, s, t, f⟩
  have : ¬ n < 16 := by omega
  simp only [raw_result, this, if_false, hnf, Bool.not_false, if_true, e, t]

/-- `raw_result` on a finished state returns the same bytes again and changes nothing -/
theorem raw_result_finished (v : Variant) (key : Bytes) (st : State) (msg : Bytes) (n : Nat) (hn : 16 ≤ n)
    (h : Finished key st msg) : raw_result v st n = .ok (st, Spec.Poly1305.mac key msg) := by
  obtain ⟨_, hf, ht⟩ := h
  have : ¬ n < 16 := by omega
  simp only [raw_result, this, if_false, hf, Bool.not_true, Bool.false_eq_true, ht]

/-- `input` on a finished state is refused by the `assert!` -/
theorem input_finished (key : Bytes) (st : State) (msg data : Bytes) (h : Finished key st msg) :
    input st data = .error .assertion := by
  simp only [input, h.2.1, if_true]

/-- `raw_result` into a slice shorter than 16 bytes is refused by the `assert!` -/
theorem raw_result_short (v : Variant) (st : State) (n : Nat) (hn : n < 16) :
    raw_result v st n = .error .assertion := by
  simp only [raw_result, hn, if_true]

/-! ### `new`, `reset`, whole MAC -/

theorem new_static (key : Bytes) : Static key (new key) := by
  obtain ⟨_, ri, rv, pi, pv⟩ := new_spec key
  exact ⟨ri, rv, pi, pv, by simp [new, zeros]⟩

theorem absorbing_fresh (key : Bytes) (st : State) (hs : Static key st) (hh : st.h = ⟨0, 0, 0, 0, 0⟩)
    (hl : st.leftover = 0) (hf : st.finalized = false) : Absorbing key st [] := by
  refine ⟨hs, by omega, hf, ?_, [], 0, ?_, rfl, ?_⟩
  · rw [hh]; decide
  · rw [hl]; simp
  · rw [hh]; rfl

theorem new_absorbing (key : Bytes) : Absorbing key (new key) [] :=
  absorbing_fresh key _ (new_static key) rfl rfl rfl

theorem reset_absorbing (key : Bytes) (st : State) (hs : Static key st) : Absorbing key (reset st) [] :=
  absorbing_fresh key _ ⟨hs.rinv, hs.rval, hs.pinv, hs.pval, hs.blen⟩ rfl rfl rfl

theorem inputs_spec (key : Bytes) (chunks : List Bytes) (st : State) (msg : Bytes) (h : Absorbing key st msg) :
    ∃ st', inputs st chunks = .ok st' ∧ Absorbing key st' (msg ++ chunks.flatten) := by
  induction chunks generalizing st msg with
  | nil => exact ⟨st, rfl, by simpa using h⟩
  | cons c cs ih =>
    obtain ⟨st1, e1, a1⟩ := input_spec key st msg c h
    obtain ⟨st2, e2, a2⟩ := ih st1 (msg ++ c) a1
    refine ⟨st2, ?_, by simpa [List.append_assoc] using a2⟩
    simp only [inputs, e1, e2]

/-- **top level** (C05 e): for ALL keys, ALL chunkings (empty chunks included) and BOTH variants of `finish`,
    `new; input per chunk; raw_result` does not panic and returns the RFC 8439 tag of the concatenation. -/
theorem mac_eq (v : Variant) (key : Bytes) (chunks : List Bytes) :
    Impl.Poly1305.mac v key chunks = .ok (Spec.Poly1305.mac key chunks.flatten) := by
  obtain ⟨st1, e1, a1⟩ := inputs_spec key chunks (new key) [] (new_absorbing key)
  obtain ⟨st2, e2, _⟩ := raw_result_absorbing v key st1 _ 16 (Nat.le_refl _) a1
  simp only [List.nil_append] at e2
  simp only [Impl.Poly1305.mac, e1, e2]

end Cx.Proofs.Poly1305
