/-
  Proofs.Poly1305Object — the abstract MAC object (key, bytes since last reset, finished?) and the simulation
  between it and the (repaired) `Poly1305` context, one operation at a time.
-/
import CxVerif.Proofs.Poly1305Stream
namespace Cx.Proofs.Poly1305
open Cx Cx.Impl.Poly1305

/-- the abstract object of C09: bytes since the last reset, and whether a result has been taken -/
structure Abs where
  msg : Bytes
  fin : Bool
  deriving DecidableEq, Repr

/-- what the property demands of one operation: results are `MAC(key, bytes since last reset)`, input after a
    result is refused, a too short output slice is refused, reset starts over with the same key -/
def absStep (key : Bytes) (a : Abs) : Op → Except Panic (Abs × Option Bytes)
  | .input d => if a.fin then .error .assertion else .ok ({ a with msg := a.msg ++ d }, none)
  | .result => .ok ({ a with fin := true }, some (Spec.Poly1305.mac key a.msg))
  | .rawResult n =>
    if n < 16 then .error .assertion else .ok ({ a with fin := true }, some (Spec.Poly1305.mac key a.msg))
  | .reset => .ok (⟨[], false⟩, none)

/-- a history on the abstract object (same shape as `Impl.runOps`) -/
def absRun (key : Bytes) : Abs → List Op → List Bytes × Option Panic
  | _, [] => ([], none)
  | a, op :: ops =>
    match absStep key a op with
    | .error e => ([], some e)
    | .ok (a', out) =>
      let (outs, e) := absRun key a' ops
      (match out with | some t => t :: outs | none => outs, e)

/-- the simulation relation -/
def Sim (key : Bytes) (st : State) (a : Abs) : Prop :=
  if a.fin then Finished key st a.msg else Absorbing key st a.msg

theorem Sim.static {key : Bytes} {st : State} {a : Abs} (h : Sim key st a) : Static key st := by
  unfold Sim at h
  split at h
  · exact h.1
  · exact h.1

/-- one operation of the repaired code simulates one operation of the abstract object (and vice versa:
    both are functions) -/
theorem step_sim (key : Bytes) (st : State) (a : Abs) (op : Op) (h : Sim key st a) :
    match absStep key a op with
    | .error e => stepOp .repaired st op = .error e
    | .ok (a', out) => ∃ st', stepOp .repaired st op = .ok (st', out) ∧ Sim key st' a' := by
  cases op with
  | input d =>
    cases hf : a.fin with
    | true =>
      have hfin : Finished key st a.msg := by simpa [Sim, hf] using h
      simp only [absStep, hf, if_true, stepOp, input_finished key st a.msg d hfin]
    | false =>
      have hab : Absorbing key st a.msg := by simpa [Sim, hf] using h
      obtain ⟨st', e, a'⟩ := input_spec key st a.msg d hab
      simp only [absStep, hf, Bool.false_eq_true, if_false, stepOp, e]
      exact ⟨st', rfl, by simpa [Sim, hf] using a'⟩
  | result =>
    cases hf : a.fin with
    | true =>
      have hfin : Finished key st a.msg := by simpa [Sim, hf] using h
      simp only [absStep, stepOp, result, raw_result_finished .repaired key st a.msg 16 (Nat.le_refl _) hfin]
      exact ⟨st, rfl, by simpa [Sim] using hfin⟩
    | false =>
      have hab : Absorbing key st a.msg := by simpa [Sim, hf] using h
      obtain ⟨st', e, s, t, f⟩ := raw_result_absorbing .repaired key st a.msg 16 (Nat.le_refl _) hab
      simp only [absStep, stepOp, result, e]
      refine ⟨st', rfl, ?_⟩
      simp only [Sim, if_true]
      exact ⟨s, by simpa using f, t⟩
  | rawResult n =>
    by_cases hn : n < 16
    · simp only [absStep, hn, if_true, stepOp, raw_result_short .repaired st n hn]
    · cases hf : a.fin with
      | true =>
        have hfin : Finished key st a.msg := by simpa [Sim, hf] using h
        simp only [absStep, hn, if_false, stepOp, raw_result_finished .repaired key st a.msg n (by omega) hfin]
        exact ⟨st, rfl, by simpa [Sim] using hfin⟩
      | false =>
        have hab : Absorbing key st a.msg := by simpa [Sim, hf] using h
        obtain ⟨st', e, s, t, f⟩ := raw_result_absorbing .repaired key st a.msg n (by omega) hab
        simp only [absStep, hn, if_false, stepOp, e]
        refine ⟨st', rfl, ?_⟩
        simp only [Sim, if_true]
        exact ⟨s, by simpa using f, t⟩
  | reset =>
    simp only [absStep, stepOp]
    exact ⟨reset st, rfl, by simpa [Sim] using reset_absorbing key st h.static⟩

/-- whole histories -/
theorem run_sim (key : Bytes) (ops : List Op) (st : State) (a : Abs) (h : Sim key st a) :
    runOps .repaired st ops = absRun key a ops := by
  induction ops generalizing st a with
  | nil => rfl
  | cons op ops ih =>
    have s := step_sim key st a op h
    cases ha : absStep key a op with
    | error e =>
      rw [ha] at s
      simp only [runOps, absRun, ha, s]
    | ok r =>
      obtain ⟨a', out⟩ := r
      rw [ha] at s
      obtain ⟨st', e, h'⟩ := s
      simp only [runOps, absRun, ha, e, ih st' a' h']
      cases out <;> rfl

/-- after any panic-free history, `reset; input msg; result` emits `MAC(key, msg)` -/
theorem absRun_reset_fresh (key : Bytes) (msg : Bytes) (junk : List Op) (a : Abs)
    (ha : (absRun key a junk).2 = none) :
    ∃ outs, absRun key a (junk ++ [.reset, .input msg, .result]) = (outs ++ [Spec.Poly1305.mac key msg], none) := by
  induction junk generalizing a with
  | nil => exact ⟨[], by simp [absRun, absStep]⟩
  | cons op ops ih =>
    simp only [absRun, List.cons_append] at ha ⊢
    cases hs : absStep key a op with
    | error e => rw [hs] at ha; simp at ha
    | ok r =>
      obtain ⟨a', out⟩ := r
      rw [hs] at ha
      obtain ⟨outs, ho⟩ := ih a' (by simpa using ha)
      simp only [ho]
      cases out with
      | none => exact ⟨outs, rfl⟩
      | some t => exact ⟨t :: outs, rfl⟩

theorem new_sim (key : Bytes) : Sim key (new key) ⟨[], false⟩ := by
  simpa [Sim] using new_absorbing key

end Cx.Proofs.Poly1305
