/-
  Proofs.LeakModelHashBlake2 — (m) BLAKE2b / BLAKE2s: erasure and non-interference of the instrumented
  `increment_counter`, `update_mut`, `internal_final`, `finalize_reset_at`, `reset`, `reset_with_key`, of the
  `ContextDyn` methods and of the legacy wrappers `Blake2b` / `Blake2s` (src/blake2b.rs, src/blake2s.rs); the
  `DigestLeak` instance of `impl Digest for Blake2b / Blake2s`, generic in the word type.

  Public shadow of a legacy object: the two counter words `t` (bytes hashed so far), the size and the fill of the block
  buffer, the output length, the `computed` flag and the LENGTH of the stored key.  The chaining value `h`, the buffered
  bytes and the key bytes are not in it.
-/
import CxVerif.Proofs.LeakModelHash
import CxVerif.Proofs.Blake2
set_option linter.unusedSimpArgs false
set_option linter.unusedVariables false
set_option linter.unusedSectionVars false
namespace Cx.Proofs.LeakModel
open Cx Cx.Impl Cx.Impl.LeakModel Cx.Impl.Digest Cx.Impl.Blake2 Cx.Impl.LeakModel.Blake2L
open Cx.Spec.Blake2 (Word Params toLE)

section
variable {W : Type} [Word W]

/-! ### erasure -/

theorem Blake2L.increment_counterL_val (pr : Profile) (e : Engine W) (inc : Nat) :
    (increment_counterL pr e inc).val = e.increment_counter pr inc := by
  unfold increment_counterL Engine.increment_counter
  lo_bind (LO.lift_val _)
  rw [LO.emit_bind_val]
  lo_bind (LO.lift_val _)
  exact LO.pure_val _

theorem Blake2L.update_loopL_val (P : Params W) (pr : Profile) (fuel : Nat) : ∀ (e : Engine W) (input : Bytes),
    (update_loopL P pr fuel e input).val = Ctx.update_loop P pr fuel e input := by
  induction fuel with
  | zero =>
    intro e input
    unfold update_loopL Ctx.update_loop
    rw [LO.emit_bind_val]; exact LO.pure_val _
  | succ f ih =>
    intro e input
    unfold update_loopL Ctx.update_loop
    rw [LO.emit_bind_val]
    by_cases h : input.length > P.bb
    · rw [if_pos h, if_pos h]
      lo_bind (Blake2L.increment_counterL_val _ _ _)
      exact ih _ _
    · rw [if_neg h, if_neg h]; exact LO.pure_val _

theorem Blake2L.update_mutL_val (P : Params W) (pr : Profile) (c : Ctx W) (input : Bytes) :
    (Ctx.update_mutL P pr c input).val = c.update_mut P pr input := by
  unfold Ctx.update_mutL Ctx.update_mut
  rw [LO.emit_bind_val]
  by_cases h : input.isEmpty = true
  · rw [if_pos h, if_pos h]; exact LO.pure_val _
  · rw [if_neg h, if_neg h, LO.emit_bind_val]
    dsimp only
    by_cases h2 : input.length > P.bb - c.buflen
    · rw [if_pos h2, if_pos h2, LO.emit_bind_val, LO.emit_bind_val]
      lo_bind (Blake2L.increment_counterL_val _ _ _)
      lo_bind2 (Blake2L.update_loopL_val _ _ _ _ _)
      rw [LO.emit_bind_val]
      exact LO.pure_val _
    · rw [if_neg h2, if_neg h2, LO.emit_bind_val, LO.emit_bind_val]; exact LO.pure_val _

theorem Blake2L.internal_finalL_val (P : Params W) (pr : Profile) (c : Ctx W) :
    (Ctx.internal_finalL P pr c).val = c.internal_final P pr := by
  unfold Ctx.internal_finalL Ctx.internal_final
  lo_bind (Blake2L.increment_counterL_val _ _ _)
  rw [LO.emit_bind_val, LO.emit_bind_val]
  exact LO.pure_val _

theorem Blake2L.resetL_val (P : Params W) (c : Ctx W) (outlen : Nat) :
    (Ctx.resetL P c outlen).val = some (c.reset P outlen) := by
  unfold Ctx.resetL
  rw [LO.emit_bind_val]; exact LO.pure_val _

theorem Blake2L.reset_with_keyL_val (P : Params W) (c : Ctx W) (outlen : Nat) (key : Bytes) :
    (Ctx.reset_with_keyL P c outlen key).val = c.reset_with_key P outlen key := by
  unfold Ctx.reset_with_keyL
  rw [LO.emit_bind_val]
  by_cases h : ¬ key.length ≤ P.maxKey
  · rw [if_pos h]; unfold Ctx.reset_with_key; rw [if_pos h]; exact LO.lift_val _
  · rw [if_neg h, LO.emit_bind_val, LO.emit_bind_val]
    by_cases h2 : ¬ key.isEmpty = true
    · rw [if_pos h2, LO.emit_bind_val]; exact LO.lift_val _
    · rw [if_neg h2]; exact LO.lift_val _

theorem Blake2L.finalize_reset_atL_val (P : Params W) (pr : Profile) (c : Ctx W) (outlen outLen : Nat) :
    (Ctx.finalize_reset_atL P pr c outlen outLen).val = c.finalize_reset_at P pr outlen outLen := by
  unfold Ctx.finalize_reset_atL Ctx.finalize_reset_at
  rw [LO.emit_bind_val]
  by_cases h : outLen ≠ outlen
  · rw [if_pos h, if_pos h]; exact LO.lift_val _
  · rw [if_neg h, if_neg h]
    lo_bind (Blake2L.internal_finalL_val _ _ _)
    rw [LO.emit_bind_val, LO.bind_val_some _ _ _ (Blake2L.resetL_val _ _ _)]
    exact LO.pure_val _

theorem Blake2L.dyn_update_mutL_val (P : Params W) (pr : Profile) (c : ContextDyn W) (input : Bytes) :
    (ContextDyn.update_mutL P pr c input).val = c.update_mut P pr input := by
  unfold ContextDyn.update_mutL ContextDyn.update_mut
  lo_bind (Blake2L.update_mutL_val _ _ _ _)
  exact LO.pure_val _

theorem Blake2L.dyn_finalize_reset_atL_val (P : Params W) (pr : Profile) (c : ContextDyn W) (outLen : Nat) :
    (ContextDyn.finalize_reset_atL P pr c outLen).val = c.finalize_reset_at P pr outLen := by
  unfold ContextDyn.finalize_reset_atL ContextDyn.finalize_reset_at
  lo_bind2 (Blake2L.finalize_reset_atL_val _ _ _ _ _)
  exact LO.pure_val _

theorem Blake2L.dyn_resetL_val (P : Params W) (c : ContextDyn W) :
    (ContextDyn.resetL P c).val = some (c.reset P) := by
  unfold ContextDyn.resetL ContextDyn.reset
  rw [LO.bind_val_some _ _ _ (Blake2L.resetL_val _ _ _)]
  exact LO.pure_val _

theorem Blake2L.dyn_reset_with_keyL_val (P : Params W) (c : ContextDyn W) (key : Bytes) :
    (ContextDyn.reset_with_keyL P c key).val = c.reset_with_key P key := by
  unfold ContextDyn.reset_with_keyL ContextDyn.reset_with_key
  lo_bind (Blake2L.reset_with_keyL_val _ _ _ _)
  exact LO.pure_val _

theorem Blake2L.updateL_val (P : Params W) (o : Digest.Blake2 W) (input : Bytes) :
    (Blake2L.updateL P o input).val = Digest.Blake2.update P o input := by
  unfold Blake2L.updateL Digest.Blake2.update
  rw [LO.emit_bind_val]
  by_cases h : o.computed = true
  · rw [if_pos h, if_pos h]; exact LO.lift_val _
  · rw [if_neg h, if_neg h]
    lo_bind (Blake2L.dyn_update_mutL_val _ _ _ _)
    exact LO.pure_val _

theorem Blake2L.finalizeL_val (P : Params W) (o : Digest.Blake2 W) (n : Nat) :
    (finalizeL P o n).val = Digest.Blake2.finalize P o n := by
  unfold finalizeL Digest.Blake2.finalize
  rw [LO.emit_bind_val]
  by_cases h : o.computed = true
  · rw [if_pos h, if_pos h]; exact LO.lift_val _
  · rw [if_neg h, if_neg h]
    lo_bind2 (Blake2L.dyn_finalize_reset_atL_val _ _ _ _)
    exact LO.pure_val _

theorem Blake2L.resetL'_val (v : CodeVariant) (P : Params W) (o : Digest.Blake2 W) :
    (resetL v P o).val = Digest.Blake2.reset v P o := by
  unfold resetL Digest.Blake2.reset
  cases v with
  | current =>
    simp only []
    rw [LO.bind_val_some _ _ _ (Blake2L.dyn_resetL_val _ _)]
    exact LO.pure_val _
  | repaired =>
    simp only []
    rw [LO.emit_bind_val]
    by_cases h : o.key.length > 0
    · rw [if_pos h, if_pos h]
      lo_bind (Blake2L.dyn_reset_with_keyL_val _ _ _)
      exact LO.pure_val _
    · rw [if_neg h, if_neg h, LO.bind_val_some _ _ _ (Blake2L.dyn_resetL_val _ _)]
      exact LO.pure_val _

/-! ### non-interference -/

/-- the engine's public part: the byte counter -/
def LowEng (e e' : Engine W) : Prop := e.t0 = e'.t0 ∧ e.t1 = e'.t1

/-- a context's public part: counter, buffer size, fill -/
def LowC (c c' : Ctx W) : Prop := LowEng c.eng c'.eng ∧ c.buf.length = c'.buf.length ∧ c.buflen = c'.buflen

def LowDyn (c c' : ContextDyn W) : Prop := LowC c.ctx c'.ctx ∧ c.outlen = c'.outlen

/-- a legacy object's public part -/
def LowBl (o o' : Digest.Blake2 W) : Prop :=
  LowDyn o.ctx o'.ctx ∧ o.computed = o'.computed ∧ o.key.length = o'.key.length

theorem setSlice_length (buf : Bytes) (off : Nat) (src : Bytes) :
    (setSlice buf off src).length = min off buf.length + src.length + (buf.length - (off + src.length)) := by
  simp only [setSlice, List.length_append, List.length_take, List.length_drop]

theorem zeroFrom_length (buf : Bytes) (off : Nat) :
    (zeroFrom buf off).length = min off buf.length + (buf.length - off) := by
  simp only [zeroFrom, List.length_append, List.length_take, zeros, List.length_replicate]

theorem Blake2L.increment_counterL_ni (pr : Profile) (e e' : Engine W) (inc : Nat) (h : LowEng e e') :
    NI (increment_counterL pr e inc) (increment_counterL pr e' inc) LowEng := by
  unfold increment_counterL
  rw [← h.1, ← h.2]
  refine NI.bind (NI.ofORel (ORel.refl_eq _)) (fun t0 t0' ht => ?_)
  subst ht
  refine NI.bind (NI.emit _) (fun _ _ _ => NI.bind (NI.ofORel (ORel.refl_eq _)) (fun t1 t1' ht1 => ?_))
  subst ht1
  exact NI.pure _ _ ⟨rfl, rfl⟩

theorem Blake2L.update_loopL_ni (P : Params W) (pr : Profile) (fuel : Nat) : ∀ (e e' : Engine W) (i i' : Bytes),
    LowEng e e' → i.length = i'.length →
    NI (update_loopL P pr fuel e i) (update_loopL P pr fuel e' i') (fun r r' => LowEng r.1 r'.1 ∧ r.2.length = r'.2.length) := by
  induction fuel with
  | zero =>
    intro e e' i i' he hi
    unfold update_loopL
    rw [hi]
    exact NI.bind (NI.emit _) (fun _ _ _ => NI.pure _ _ ⟨he, hi⟩)
  | succ f ih =>
    intro e e' i i' he hi
    unfold update_loopL
    rw [hi]
    refine NI.bind (NI.emit _) (fun _ _ _ => NI.ite Iff.rfl ?_ (NI.pure _ _ ⟨he, hi⟩))
    refine NI.bind (Blake2L.increment_counterL_ni pr e e' P.bb he) (fun g g' hg => ?_)
    exact ih _ _ _ _ hg (by simp only [List.length_drop, hi])

theorem Blake2L.update_mutL_ni (P : Params W) (pr : Profile) (c c' : Ctx W) (i i' : Bytes) (hc : LowC c c')
    (hi : i.length = i'.length) : NI (Ctx.update_mutL P pr c i) (Ctx.update_mutL P pr c' i') LowC := by
  unfold Ctx.update_mutL
  obtain ⟨h1, h2, h3⟩ := hc
  have he : i.isEmpty = i'.isEmpty := by
    cases i <;> cases i' <;> simp_all
  rw [he, hi, ← h3]
  refine NI.bind (NI.emit _) (fun _ _ _ => NI.ite Iff.rfl (NI.pure _ _ ⟨h1, h2, h3⟩) ?_)
  refine NI.bind (NI.emit _) (fun _ _ _ => NI.ite Iff.rfl ?_ ?_)
  · refine NI.bind (NI.emit _) (fun _ _ _ => NI.bind (NI.emit _) (fun _ _ _ => ?_))
    refine NI.bind (Blake2L.increment_counterL_ni pr _ _ P.bb h1) (fun g g' hg => ?_)
    rw [show (i.drop (P.bb - c.buflen)).length = (i'.drop (P.bb - c.buflen)).length by
      simp only [List.length_drop, hi]]
    refine NI.bind (Blake2L.update_loopL_ni P pr _ _ _ _ _ hg (by simp only [List.length_drop, hi])) (fun r r' hr => ?_)
    rw [hr.2]
    refine NI.bind (NI.emit _) (fun _ _ _ => NI.pure _ _ ⟨hr.1, ?_, by simp only [hr.2]⟩)
    simp only [setSlice_length, List.length_take, h2, hi, hr.2]
  · refine NI.bind (NI.emit _) (fun _ _ _ => NI.bind (NI.emit _) (fun _ _ _ => NI.pure _ _ ⟨h1, ?_, by simp only [hi]⟩))
    simp only [setSlice_length, h2, hi]

theorem Blake2L.internal_finalL_ni (P : Params W) (pr : Profile) (c c' : Ctx W) (hc : LowC c c') :
    NI (Ctx.internal_finalL P pr c) (Ctx.internal_finalL P pr c') LowC := by
  unfold Ctx.internal_finalL
  obtain ⟨h1, h2, h3⟩ := hc
  rw [← h3, ← h2]
  refine NI.bind (Blake2L.increment_counterL_ni pr _ _ _ h1) (fun g g' hg => ?_)
  refine NI.bind (NI.emit _) (fun _ _ _ => NI.bind (NI.emit _) (fun _ _ _ => NI.pure _ _ ⟨hg, ?_, rfl⟩))
  simp only [setSlice_length, zeroFrom_length, Cx.Proofs.Blake2.hbytes_length, h2]

theorem Blake2L.resetL_ni (P : Params W) (c c' : Ctx W) (outlen : Nat) (hc : LowC c c') :
    NI (Ctx.resetL P c outlen) (Ctx.resetL P c' outlen) LowC := by
  unfold Ctx.resetL
  rw [hc.2.1]
  refine NI.bind (NI.emit _) (fun _ _ _ => NI.pure _ _ ⟨⟨rfl, rfl⟩, ?_, rfl⟩)
  simp only [Ctx.reset, zeroFrom_length, hc.2.1]

theorem reset_with_key_rel (P : Params W) (c c' : Ctx W) (outlen : Nat) (key key' : Bytes) (hc : LowC c c')
    (hk : key.length = key'.length) :
    ORel LowC (c.reset_with_key P outlen key) (c'.reset_with_key P outlen key') := by
  unfold Ctx.reset_with_key
  have he : key.isEmpty = key'.isEmpty := by
    cases key <;> cases key' <;> simp_all
  rw [hk, he]
  refine ORel.ite Iff.rfl ORel.none (ORel.ite Iff.rfl (ORel.pure ⟨⟨rfl, rfl⟩, ?_, rfl⟩) (ORel.pure ⟨⟨rfl, rfl⟩, rfl, rfl⟩))
  simp only [setSlice_length, zeroFrom_length, hc.2.1, hk]

theorem Blake2L.reset_with_keyL_ni (P : Params W) (c c' : Ctx W) (outlen : Nat) (key key' : Bytes) (hc : LowC c c')
    (hk : key.length = key'.length) :
    NI (Ctx.reset_with_keyL P c outlen key) (Ctx.reset_with_keyL P c' outlen key') LowC := by
  unfold Ctx.reset_with_keyL
  have he : key.isEmpty = key'.isEmpty := by
    cases key <;> cases key' <;> simp_all
  rw [hk, he, hc.2.1]
  refine NI.bind (NI.emit _) (fun _ _ _ => NI.guard ?_)
  refine NI.bind (NI.emit _) (fun _ _ _ => NI.bind (NI.emit _) (fun _ _ _ => NI.ite Iff.rfl ?_ ?_))
  · exact NI.bind (NI.emit _) (fun _ _ _ => NI.ofORel (reset_with_key_rel P c c' outlen key key' hc hk))
  · exact NI.ofORel (reset_with_key_rel P c c' outlen key key' hc hk)

theorem Blake2L.finalize_reset_atL_ni (P : Params W) (pr : Profile) (c c' : Ctx W) (outlen outLen : Nat) (hc : LowC c c') :
    NI (Ctx.finalize_reset_atL P pr c outlen outLen) (Ctx.finalize_reset_atL P pr c' outlen outLen)
      (fun r r' => LowC r.1 r'.1 ∧ r.2.length = r'.2.length) := by
  unfold Ctx.finalize_reset_atL
  refine NI.bind (NI.emit _) (fun _ _ _ => NI.guard ?_)
  refine NI.bind (Blake2L.internal_finalL_ni P pr c c' hc) (fun d d' hd => ?_)
  refine NI.bind (NI.emit _) (fun _ _ _ => NI.bind (Blake2L.resetL_ni P d d' outlen hd) (fun f f' hf => ?_))
  refine NI.pure _ _ ⟨hf, ?_⟩
  simp only [List.length_take, hd.2.1]

theorem Blake2L.dyn_update_mutL_ni (P : Params W) (pr : Profile) (c c' : ContextDyn W) (i i' : Bytes) (hc : LowDyn c c')
    (hi : i.length = i'.length) :
    NI (ContextDyn.update_mutL P pr c i) (ContextDyn.update_mutL P pr c' i') LowDyn := by
  unfold ContextDyn.update_mutL
  exact NI.bind (Blake2L.update_mutL_ni P pr _ _ i i' hc.1 hi) (fun x x' hx => NI.pure _ _ ⟨hx, hc.2⟩)

theorem Blake2L.dyn_finalize_reset_atL_ni (P : Params W) (pr : Profile) (c c' : ContextDyn W) (n : Nat) (hc : LowDyn c c') :
    NI (ContextDyn.finalize_reset_atL P pr c n) (ContextDyn.finalize_reset_atL P pr c' n)
      (fun r r' => LowDyn r.1 r'.1 ∧ r.2.length = r'.2.length) := by
  unfold ContextDyn.finalize_reset_atL
  rw [← hc.2]
  exact NI.bind (Blake2L.finalize_reset_atL_ni P pr _ _ _ n hc.1) (fun r r' hr => NI.pure _ _ ⟨⟨hr.1, rfl⟩, hr.2⟩)

theorem Blake2L.dyn_resetL_ni (P : Params W) (c c' : ContextDyn W) (hc : LowDyn c c') :
    NI (ContextDyn.resetL P c) (ContextDyn.resetL P c') LowDyn := by
  unfold ContextDyn.resetL
  rw [← hc.2]
  exact NI.bind (Blake2L.resetL_ni P _ _ _ hc.1) (fun x x' hx => NI.pure _ _ ⟨hx, rfl⟩)

theorem Blake2L.dyn_reset_with_keyL_ni (P : Params W) (c c' : ContextDyn W) (key key' : Bytes) (hc : LowDyn c c')
    (hk : key.length = key'.length) :
    NI (ContextDyn.reset_with_keyL P c key) (ContextDyn.reset_with_keyL P c' key') LowDyn := by
  unfold ContextDyn.reset_with_keyL
  rw [← hc.2]
  exact NI.bind (Blake2L.reset_with_keyL_ni P _ _ _ key key' hc.1 hk) (fun x x' hx => NI.pure _ _ ⟨hx, rfl⟩)

theorem Blake2L.updateL_ni (P : Params W) (o o' : Digest.Blake2 W) (i i' : Bytes) (ho : LowBl o o')
    (hi : i.length = i'.length) : NI (Blake2L.updateL P o i) (Blake2L.updateL P o' i') LowBl := by
  unfold Blake2L.updateL
  obtain ⟨h1, h2, h3⟩ := ho
  rw [← h2]
  refine NI.bind (NI.emit _) (fun _ _ _ => NI.guard ?_)
  exact NI.bind (Blake2L.dyn_update_mutL_ni P _ _ _ i i' h1 hi) (fun x x' hx => NI.pure _ _ ⟨hx, rfl, h3⟩)

theorem Blake2L.finalizeL_ni (P : Params W) (o o' : Digest.Blake2 W) (n : Nat) (ho : LowBl o o') :
    NI (finalizeL P o n) (finalizeL P o' n) (fun r r' => LowBl r.1 r'.1 ∧ r.2.length = r'.2.length) := by
  unfold finalizeL
  obtain ⟨h1, h2, h3⟩ := ho
  rw [← h2]
  refine NI.bind (NI.emit _) (fun _ _ _ => NI.guard ?_)
  exact NI.bind (Blake2L.dyn_finalize_reset_atL_ni P _ _ _ n h1) (fun r r' hr => NI.pure _ _ ⟨⟨hr.1, rfl, h3⟩, hr.2⟩)

theorem Blake2L.resetL'_ni (v : CodeVariant) (P : Params W) (o o' : Digest.Blake2 W) (ho : LowBl o o') :
    NI (resetL v P o) (resetL v P o') LowBl := by
  unfold resetL
  obtain ⟨h1, h2, h3⟩ := ho
  cases v with
  | current =>
    simp only []
    exact NI.bind (Blake2L.dyn_resetL_ni P _ _ h1) (fun x x' hx => NI.pure _ _ ⟨hx, rfl, h3⟩)
  | repaired =>
    simp only []
    rw [h3]
    refine NI.bind (NI.emit _) (fun _ _ _ => NI.ite Iff.rfl ?_ ?_)
    · exact NI.bind (Blake2L.dyn_reset_with_keyL_ni P _ _ _ _ h1 h3) (fun x x' hx => NI.pure _ _ ⟨hx, rfl, h3⟩)
    · exact NI.bind (Blake2L.dyn_resetL_ni P _ _ h1) (fun x x' hx => NI.pure _ _ ⟨hx, rfl, h3⟩)

/-- the public shadow of a legacy BLAKE2 object -/
def pubBl (o : Digest.Blake2 W) : (Nat × Nat × Nat × Nat × Nat) × Bool × Nat :=
  ((o.ctx.ctx.eng.t0, o.ctx.ctx.eng.t1, o.ctx.ctx.buf.length, o.ctx.ctx.buflen, o.ctx.outlen), o.computed, o.key.length)

theorem pubBl_iff (o o' : Digest.Blake2 W) : pubBl o = pubBl o' ↔ LowBl o o' := by
  unfold pubBl LowBl LowDyn LowC LowEng
  constructor
  · intro h
    simp only [Prod.mk.injEq] at h
    obtain ⟨⟨a, b, c, d, e⟩, f, g⟩ := h
    exact ⟨⟨⟨⟨a, b⟩, c, d⟩, e⟩, f, g⟩
  · intro h
    obtain ⟨⟨⟨⟨a, b⟩, c, d⟩, e⟩, f, g⟩ := h
    rw [a, b, c, d, e, f, g]

/-- **`impl Digest for Blake2b` / `Blake2s` satisfies `DigestLeak`** (both `reset` variants, any block-size constant) -/
def blake2Leak (v : CodeVariant) (P : Params W) (bb : Nat) : DigestLeak (blake2Digest v P bb) (blake2DigestL v P) where
  π := (Nat × Nat × Nat × Nat × Nat) × Bool × Nat
  pub := pubBl
  input_val := Blake2L.updateL_val P
  result_val := Blake2L.finalizeL_val P
  reset_val := Blake2L.resetL'_val v P
  input_ni o o' b b' h hb :=
    (Blake2L.updateL_ni P o o' b b' ((pubBl_iff o o').mp h) hb).mono (fun e e' he => (pubBl_iff e e').mpr he)
  result_ni o o' n h :=
    (Blake2L.finalizeL_ni P o o' n ((pubBl_iff o o').mp h)).mono (fun r r' hr => ⟨(pubBl_iff _ _).mpr hr.1, hr.2⟩)
  reset_ni o o' h :=
    (Blake2L.resetL'_ni v P o o' ((pubBl_iff o o').mp h)).mono (fun e e' he => (pubBl_iff e e').mpr he)
  block_size_pub _ _ _ := rfl
  output_bits_pub o o' h := by
    have := ((pubBl_iff o o').mp h).1.2
    show o.ctx.outlen * 8 = o'.ctx.outlen * 8
    rw [this]

end

def blake2bLeak (v : CodeVariant) : DigestLeak (blake2bDigest v) (blake2bDigestL v) :=
  blake2Leak v Impl.Blake2.b Extracted.Blake2.B_BLOCK_BYTES
def blake2sLeak (v : CodeVariant) : DigestLeak (blake2sDigest v) (blake2sDigestL v) :=
  blake2Leak v Impl.Blake2.s Extracted.Blake2.S_BLOCK_BYTES

end Cx.Proofs.LeakModel
