/-
  Proofs.LeakModelX25519 — (a) the X25519 ladder: erasure of the instrumented `invert`, ladder step, loop,
  `curve25519`, `curve25519_base`, and their (constant) traces.
-/
import CxVerif.Proofs.LeakModel
set_option linter.unusedSimpArgs false
set_option maxRecDepth 2000
namespace Cx.Proofs.LeakModel
open Cx Cx.Impl.CT Cx.Impl.LeakModel Cx.Impl.Fe64 Cx.Impl.X25519

/-! ### `square_repeatdly`, the addition chains -/

theorem squareLoopL_val (f : Fe) (n : Nat) : (squareLoopL f n).val = square_repeatdly f n := by
  induction n generalizing f with
  | zero => exact LO.pure_val _
  | succ n ih =>
    unfold squareLoopL square_repeatdly
    simp only [LO.bind_val, LO.lift_val]
    cases square f with
    | none => rfl
    | some g => exact ih g

theorem squareLoopL_const (f : Fe) (n : Nat) : Const (squareLoopL f n) [] := by
  induction n generalizing f with
  | zero => exact Const.pure _
  | succ n ih =>
    unfold squareLoopL
    exact Const.bind (Const.lift _) (fun g _ => ih g)

theorem square_repeatdlyL_val (f : Fe) (n : Nat) : (square_repeatdlyL f n).val = square_repeatdly f n := by
  simp only [square_repeatdlyL, LO.bind_val, LO.emit_val, Option.bind_some, squareLoopL_val]

theorem square_repeatdlyL_const (f : Fe) (n : Nat) : Const (square_repeatdlyL f n) [Event.loopBound n] := by
  unfold square_repeatdlyL
  exact Const.bind (Const.emit _) (fun _ _ => squareLoopL_const f n)

theorem chain250L_val (z : Fe) : (chain250L z).val = chain250 z := by
  unfold chain250L chain250
  leak_erase [square_repeatdlyL_val]

open Event in
/-- the loop bounds of the eight `square_repeatdly` calls of the common chain -/
def chain250T : Trace :=
  [loopBound 2, loopBound 5, loopBound 10, loopBound 20, loopBound 10, loopBound 50, loopBound 100, loopBound 50]

theorem chain250L_const (z : Fe) : Const (chain250L z) chain250T := by
  unfold chain250L
  leak_const [square_repeatdlyL_const]
  simp [chain250T]

theorem invertL_val (z : Fe) : (invertL z).val = invert z := by
  unfold invertL invert
  refine LO.erase_bind (chain250L_val z) (fun r => ?_)
  obtain ⟨z11, z250⟩ := r
  exact LO.erase_bind (square_repeatdlyL_val _ _) (fun _ => LO.lift_val _)

/-- trace of `invert` -/
def invertT : Trace := chain250T ++ [Event.loopBound 5]

theorem invertL_const (z : Fe) : Const (invertL z) invertT := by
  unfold invertL
  leak_const [square_repeatdlyL_const, chain250L_const]
  rfl

theorem pow25523L_val (z : Fe) : (pow25523L z).val = pow25523 z := by
  unfold pow25523L pow25523
  refine LO.erase_bind (chain250L_val z) (fun r => ?_)
  obtain ⟨z11, z250⟩ := r
  exact LO.erase_bind (square_repeatdlyL_val _ _) (fun _ => LO.lift_val _)

def pow25523T : Trace := chain250T ++ [Event.loopBound 2]

theorem pow25523L_const (z : Fe) : Const (pow25523L z) pow25523T := by
  unfold pow25523L
  leak_const [square_repeatdlyL_const, chain250L_const]
  rfl

/-! ### the ladder -/

theorem ladderArithL_val (a24p1 : Nat) (z5k : Z5) (x2 z2 x3 z3 : Fe) :
    (ladderArithL a24p1 z5k x2 z2 x3 z3).val = ladderArith a24p1 z5k x2 z2 x3 z3 := by
  unfold ladderArithL ladderArith
  leak_erase []

theorem ladderArithL_const (a24p1 : Nat) (z5k : Z5) (x2 z2 x3 z3 : Fe) :
    Const (ladderArithL a24p1 z5k x2 z2 x3 z3) [] := by
  unfold ladderArithL
  leak_const []
  simp

theorem ladderStepCoreL_val (a24p1 : Nat) (z5k : Z5) (s : Ladder) (b : Choice) :
    (ladderStepCoreL a24p1 z5k s b).val = ladderStepCore a24p1 z5k s b := by
  unfold ladderStepCoreL ladderStepCore
  rw [LO.bind_val, ladderArithL_val]
  cases ladderArith a24p1 z5k _ _ _ _ with
  | none => rfl
  | some r => exact LO.pure_val _

theorem ladderStepCoreL_const (a24p1 : Nat) (z5k : Z5) (s : Ladder) (b : Choice) :
    Const (ladderStepCoreL a24p1 z5k s b) [] := by
  unfold ladderStepCoreL
  leak_const [ladderArithL_const]
  simp

theorem bitChoiceL_val (e : Bytes) (he : e.length = 32) (pos : Nat) (hp : pos < 255) :
    (bitChoiceL e he pos hp).val = some (bitChoice e he pos hp) := by
  unfold bitChoiceL
  rw [LO.bind_val_some _ _ () (LO.emit_val _)]
  exact LO.pure_val _

theorem ladderStepL_val (e : Bytes) (he : e.length = 32) (a24p1 : Nat) (z5k : Z5) (s : Ladder) (pos : Nat)
    (hp : pos < 255) : (ladderStepL e he a24p1 z5k s pos hp).val = ladderStep e he a24p1 z5k s pos hp := by
  unfold ladderStepL ladderStep
  rw [LO.bind_val_some _ _ _ (bitChoiceL_val e he pos hp)]
  exact ladderStepCoreL_val _ _ _ _

theorem ladderStepL_const (e : Bytes) (he : e.length = 32) (a24p1 : Nat) (z5k : Z5) (s : Ladder) (pos : Nat)
    (hp : pos < 255) : Const (ladderStepL e he a24p1 z5k s pos hp) [Event.index (pos / 8)] := by
  unfold ladderStepL bitChoiceL
  leak_const [ladderStepCoreL_const]
  simp

theorem ladderLoopL_val (e : Bytes) (he : e.length = 32) (a24p1 : Nat) (z5k : Z5) (k : Nat) (hk : k ≤ 255)
    (s : Ladder) : (ladderLoopL e he a24p1 z5k k hk s).val = ladderLoop e he a24p1 z5k k hk s := by
  induction k generalizing s with
  | zero => exact LO.pure_val _
  | succ k ih =>
    unfold ladderLoopL ladderLoop
    rw [LO.bind_val, ladderStepL_val]
    cases ladderStep e he a24p1 z5k s k (by omega) with
    | none => rfl
    | some s' => exact ih (by omega) s'

/-- the byte indices read by the iterations `pos = k-1, …, 0` -/
def ladderT : Nat → Trace
  | 0 => []
  | k + 1 => Event.index (k / 8) :: ladderT k

theorem ladderLoopL_const (e : Bytes) (he : e.length = 32) (a24p1 : Nat) (z5k : Z5) (k : Nat) (hk : k ≤ 255)
    (s : Ladder) : Const (ladderLoopL e he a24p1 z5k k hk s) (ladderT k) := by
  induction k generalizing s with
  | zero => exact Const.pure _
  | succ k ih =>
    unfold ladderLoopL
    exact Const.bind (ladderStepL_const e he a24p1 z5k s k (by omega)) (fun s' _ => ih (by omega) s')

theorem ladderMainL_val (n : Bytes) (hn : n.length = 32) (x1 : Fe) (a24p1 : Nat) (z5k : Z5) :
    (ladderMainL n hn x1 a24p1 z5k).val = ladderMain n hn x1 a24p1 z5k := by
  unfold ladderMainL ladderMain
  rw [LO.bind_val_some _ _ () (LO.emit_val _)]
  refine LO.erase_bind (ladderLoopL_val _ _ _ _ _ _ _) (fun s => ?_)
  refine LO.erase_bind (invertL_val _) (fun zi => ?_)
  refine LO.erase_bind (LO.lift_val _) (fun r => ?_)
  exact LO.lift_val _

/-- **the trace of X25519** (both functions): the loop bound, the 255 byte indices `254/8, …, 0/8`, the loop bounds
    of the inversion chain — a closed constant -/
def x25519T : Trace := Event.loopBound 255 :: (ladderT 255 ++ invertT)

theorem ladderMainL_const (n : Bytes) (hn : n.length = 32) (x1 : Fe) (a24p1 : Nat) (z5k : Z5) :
    Const (ladderMainL n hn x1 a24p1 z5k) x25519T := by
  unfold ladderMainL
  refine Const.of_eq (Const.bind (Const.emit _) (fun _ _ => Const.bind (ladderLoopL_const _ _ _ _ _ _ _) (fun s _ =>
    Const.bind (invertL_const _) (fun zi _ => Const.bind (Const.lift _) (fun r _ => Const.lift _))))) ?_
  simp only [x25519T, List.append_nil, List.nil_append, List.cons_append]

theorem curve25519L_val (n p : Bytes) (hn : n.length = 32) (hp : p.length = 32) :
    (curve25519L n p hn hp).val = curve25519 n p hn hp := ladderMainL_val n hn _ _ _

theorem curve25519L_const (n p : Bytes) (hn : n.length = 32) (hp : p.length = 32) :
    Const (curve25519L n p hn hp) x25519T := ladderMainL_const n hn _ _ _

theorem curve25519_baseL_val (n : Bytes) (hn : n.length = 32) :
    (curve25519_baseL n hn).val = curve25519_base n hn := ladderMainL_val n hn _ _ _

theorem curve25519_baseL_const (n : Bytes) (hn : n.length = 32) :
    Const (curve25519_baseL n hn) x25519T := ladderMainL_const n hn _ _ _

end Cx.Proofs.LeakModel
