/-
  Proofs.Blake2 — helper lemmas of the blake2 unit, generic over the variant `P : Params W`:
  the two-word counter, the lazy-last-block buffering of `update_mut`, `internal_final`, and the
  equivalence of the RFC's block-array formulation with the streaming formulation.
-/
import CxVerif.Spec.Blake2
import CxVerif.Impl.Blake2
import CxVerif.Proofs.Blake2Tables
namespace Cx.Proofs.Blake2
open Cx Cx.Spec.Blake2
open Cx.Impl.Blake2 (Engine Ctx Profile LastBlock setSlice zeroFrom addAssign compressRows initH)

/-! ### lists -/

theorem length_zeros (n : Nat) : (zeros n).length = n := by simp [zeros]

theorem natToLE_length (n v : Nat) : (natToLE n v).length = n := by
  induction n generalizing v with
  | zero => rfl
  | succ n ih => simp [natToLE, ih]

section generic
variable {W : Type} [Word W]

theorem toLE_length (x : W) : (toLE x).length = wbytes W := by simp [toLE, natToLE_length]

theorem flatMap_toLE_length (l : List W) : (l.flatMap toLE).length = l.length * wbytes W := by
  induction l with
  | nil => simp
  | cons a l ih => simp [List.flatMap_cons, toLE_length, ih, Nat.succ_mul]; omega

theorem hbytes_length (h : Vector W 8) : (h.toList.flatMap toLE).length = 8 * wbytes W := by
  rw [flatMap_toLE_length]; simp

theorem setSlice_length (buf : Bytes) (off : Nat) (src : Bytes) (h : off + src.length ≤ buf.length) :
    (setSlice buf off src).length = buf.length := by
  simp [setSlice]; omega

theorem take_setSlice (buf : Bytes) (off : Nat) (src : Bytes) (h : off ≤ buf.length) :
    (setSlice buf off src).take (off + src.length) = buf.take off ++ src := by
  have h1 : (buf.take off ++ src).length = off + src.length := by simp; omega
  unfold setSlice
  rw [List.take_append_of_le_length (by omega), List.take_of_length_le (by omega)]

theorem zeroFrom_length (buf : Bytes) (off : Nat) (h : off ≤ buf.length) : (zeroFrom buf off).length = buf.length := by
  simp [zeroFrom, length_zeros]; omega

theorem zeroFrom_zero (buf : Bytes) : zeroFrom buf 0 = zeros buf.length := by simp [zeroFrom]

/-! ### the two-word counter -/

/-- the engine's counter words hold the 2w-bit number `t` (mod 2^(2w)) -/
def Counts (e : Engine W) (t : Nat) : Prop :=
  e.t0 = t % 2 ^ Word.bits W ∧ e.t1 = t / 2 ^ Word.bits W % 2 ^ Word.bits W

/-- what the proofs need to know about a variant (`good_b`, `good_s` below) -/
structure Good (P : Params W) : Prop where
  bits : Word.bits W = 32 ∨ Word.bits W = 64
  bb_pos : 0 < P.bb
  bb_lt : P.bb < 2 ^ 32
  bb_ge : 8 * wbytes W ≤ P.bb
  rows : compressRows P = Spec.Blake2.rows P.rounds
  out_le : P.maxOut ≤ 8 * wbytes W
  key_le : P.maxKey ≤ P.bb
  param : ∀ nn kk, nn ≤ P.maxOut → kk ≤ P.maxKey → initH P nn kk = init P nn kk

theorem compress_h (P : Params W) (g : Good P) (e : Engine W) (t : Nat) (hc : Counts e t) (blk : Bytes) (last : LastBlock) :
    (e.compress P blk last).h = F P e.h blk t (decide (last = LastBlock.Yes)) := by
  simp only [Engine.compress, Impl.Blake2.reference_compress, F, g.rows, hc.1, hc.2]

theorem compress_h_no (P : Params W) (g : Good P) (e : Engine W) (t : Nat) (hc : Counts e t) (blk : Bytes) :
    (e.compress P blk LastBlock.No).h = F P e.h blk t false := compress_h P g e t hc blk LastBlock.No
theorem compress_h_yes (P : Params W) (g : Good P) (e : Engine W) (t : Nat) (hc : Counts e t) (blk : Bytes) :
    (e.compress P blk LastBlock.Yes).h = F P e.h blk t true := compress_h P g e t hc blk LastBlock.Yes

theorem compress_counts (P : Params W) (e : Engine W) (t : Nat) (hc : Counts e t) (blk : Bytes) (last : LastBlock) :
    Counts (e.compress P blk last) t := hc

/-- no overflow of the low counter word when `inc` more bytes are counted from `t` (checked profile only) -/
def Fits (W : Type) [Word W] (pr : Profile) (t inc : Nat) : Prop :=
  pr = Profile.wrapping ∨ t % 2 ^ Word.bits W + inc < 2 ^ Word.bits W

theorem wrap32 (t inc : Nat) (hi : inc < 2^32) :
    (t % 2^32 + inc) % 2^32 = (t+inc) % 2^32 ∧
    (t / 2^32 % 2^32 + if (t % 2^32 + inc) % 2^32 < inc then 1 else 0) % 2^32 = (t+inc)/2^32 % 2^32 := by
  split <;> omega
theorem wrap64 (t inc : Nat) (hi : inc < 2^32) :
    (t % 2^64 + inc) % 2^64 = (t+inc) % 2^64 ∧
    (t / 2^64 % 2^64 + if (t % 2^64 + inc) % 2^64 < inc then 1 else 0) % 2^64 = (t+inc)/2^64 % 2^64 := by
  split <;> omega
theorem chk32 (t inc : Nat) (hf : t % 2^32 + inc < 2^32) :
    t % 2^32 + inc = (t+inc) % 2^32 ∧ ¬ (t % 2^32 + inc < inc) ∧ t / 2^32 % 2^32 + 0 < 2^32 ∧
    t / 2^32 % 2^32 + 0 = (t+inc)/2^32 % 2^32 := by omega
theorem chk64 (t inc : Nat) (hf : t % 2^64 + inc < 2^64) :
    t % 2^64 + inc = (t+inc) % 2^64 ∧ ¬ (t % 2^64 + inc < inc) ∧ t / 2^64 % 2^64 + 0 < 2^64 ∧
    t / 2^64 % 2^64 + 0 = (t+inc)/2^64 % 2^64 := by omega

theorem inc_spec (P : Params W) (g : Good P) (pr : Profile) (e : Engine W) (t inc : Nat) (hc : Counts e t)
    (hinc : inc < 2 ^ 32) (hf : Fits W pr t inc) :
    ∃ e', e.increment_counter pr inc = some e' ∧ e'.h = e.h ∧ Counts e' (t + inc) := by
  obtain ⟨h0, h1⟩ := hc
  unfold Fits at hf
  unfold Engine.increment_counter addAssign Counts
  rcases g.bits with hb | hb <;> rw [hb] at h0 h1 hf ⊢ <;> rw [h0, h1] <;> cases pr
  · have hf' : t % 2^32 + inc < 2^32 := by
      rcases hf with hf | hf
      · cases hf
      · exact hf
    have h := chk32 t inc hf'
    simp only [hf', h.2.1, h.2.2.1, ↓reduceIte]
    exact ⟨_, rfl, rfl, h.1, h.2.2.2⟩
  · have h := wrap32 t inc hinc
    exact ⟨_, rfl, rfl, h.1, h.2⟩
  · have hf' : t % 2^64 + inc < 2^64 := by
      rcases hf with hf | hf
      · cases hf
      · exact hf
    have h := chk64 t inc hf'
    simp only [hf', h.2.1, h.2.2.1, ↓reduceIte]
    exact ⟨_, rfl, rfl, h.1, h.2.2.2⟩
  · have h := wrap64 t inc hinc
    exact ⟨_, rfl, rfl, h.1, h.2⟩

theorem Fits.mono {pr : Profile} {t n m : Nat} (h : Fits W pr t n) (hm : m ≤ n) : Fits W pr t m := by
  unfold Fits at *
  rcases h with h | h
  · exact Or.inl h
  · exact Or.inr (by omega)

theorem Fits.step (P : Params W) (g : Good P) {pr : Profile} {t n b : Nat} (h : Fits W pr t n) (hb : b ≤ n) :
    Fits W pr (t + b) (n - b) := by
  unfold Fits at *
  rcases h with h | h
  · exact Or.inl h
  · refine Or.inr ?_
    rcases g.bits with hw | hw <;> rw [hw] at h ⊢ <;> omega

/-! ### the lazy last block: canonical state after `data` from `(h, t)` -/

/-- compress every full block that is followed by more data; returns (h, t, rest) with `rest` the last 1..bb
    bytes (empty only if there was no data).  Fuel = data length. -/
def lazyAux (P : Params W) : Nat → Vector W 8 → Nat → Bytes → Vector W 8 × Nat × Bytes
  | 0, h, t, d => (h, t, d)
  | f + 1, h, t, d =>
    if d.length > P.bb then lazyAux P f (F P h (d.take P.bb) (t + P.bb) false) (t + P.bb) (d.drop P.bb)
    else (h, t, d)

def lazy (P : Params W) (h : Vector W 8) (t : Nat) (d : Bytes) : Vector W 8 × Nat × Bytes :=
  lazyAux P d.length h t d

/-- the final compression of a lazy state -/
def fin (P : Params W) (x : Vector W 8 × Nat × Bytes) : Vector W 8 :=
  F P x.1 (x.2.2 ++ zeros (P.bb - x.2.2.length)) (x.2.1 + x.2.2.length) true

theorem lazyAux_short (P : Params W) (f : Nat) (h : Vector W 8) (t : Nat) (d : Bytes) (hd : d.length ≤ P.bb) :
    lazyAux P f h t d = (h, t, d) := by
  cases f with
  | zero => rfl
  | succ f => simp [lazyAux]; omega

theorem lazyAux_fuel (P : Params W) (hbb : 0 < P.bb) :
    ∀ (f1 f2 : Nat) (h : Vector W 8) (t : Nat) (d : Bytes), d.length ≤ f1 → d.length ≤ f2 →
      lazyAux P f1 h t d = lazyAux P f2 h t d := by
  intro f1
  induction f1 with
  | zero =>
    intro f2 h t d h1 _
    have : d.length ≤ P.bb := by omega
    rw [lazyAux_short P 0 h t d this, lazyAux_short P f2 h t d this]
  | succ f1 ih =>
    intro f2 h t d h1 h2
    cases f2 with
    | zero =>
      have : d.length ≤ P.bb := by omega
      rw [lazyAux_short P _ h t d this, lazyAux_short P 0 h t d this]
    | succ f2 =>
      simp only [lazyAux]
      split
      · apply ih <;> simp <;> omega
      · rfl

theorem lazy_short (P : Params W) (h : Vector W 8) (t : Nat) (d : Bytes) (hd : d.length ≤ P.bb) :
    lazy P h t d = (h, t, d) := lazyAux_short P _ h t d hd

theorem lazy_step (P : Params W) (hbb : 0 < P.bb) (h : Vector W 8) (t : Nat) (d : Bytes) (hd : P.bb < d.length) :
    lazy P h t d = lazy P (F P h (d.take P.bb) (t + P.bb) false) (t + P.bb) (d.drop P.bb) := by
  unfold lazy
  obtain ⟨n, hn⟩ : ∃ n, d.length = n + 1 := ⟨d.length - 1, by omega⟩
  rw [hn]
  simp only [lazyAux]
  rw [if_pos (by omega)]
  apply lazyAux_fuel P hbb <;> simp <;> omega

/-- shape of the lazy state -/
theorem lazy_props (P : Params W) (hbb : 0 < P.bb) :
    ∀ (n : Nat) (h : Vector W 8) (t : Nat) (d : Bytes), d.length ≤ n →
      (lazy P h t d).2.2.length ≤ P.bb ∧ (d ≠ [] → (lazy P h t d).2.2 ≠ []) ∧
      (lazy P h t d).2.1 + (lazy P h t d).2.2.length = t + d.length := by
  intro n
  induction n with
  | zero =>
    intro h t d hd
    have : d.length ≤ P.bb := by omega
    rw [lazy_short P h t d this]
    exact ⟨this, fun x => x, rfl⟩
  | succ n ih =>
    intro h t d hd
    by_cases hs : d.length ≤ P.bb
    · rw [lazy_short P h t d hs]
      exact ⟨hs, fun x => x, rfl⟩
    · have hs' : P.bb < d.length := by omega
      rw [lazy_step P hbb h t d hs']
      have hl : (d.drop P.bb).length ≤ n := by simp; omega
      obtain ⟨a, b, c⟩ := ih (F P h (d.take P.bb) (t + P.bb) false) (t + P.bb) (d.drop P.bb) hl
      refine ⟨a, fun _ => b ?_, ?_⟩
      · intro hx
        have : (d.drop P.bb).length = 0 := by rw [hx]; rfl
        simp at this; omega
      · rw [c]; simp; omega

/-- the lazy state composes: data may arrive in any pieces -/
theorem lazy_append (P : Params W) (hbb : 0 < P.bb) :
    ∀ (n : Nat) (h : Vector W 8) (t : Nat) (d1 d2 : Bytes), d1.length ≤ n →
      lazy P h t (d1 ++ d2) = lazy P (lazy P h t d1).1 (lazy P h t d1).2.1 ((lazy P h t d1).2.2 ++ d2) := by
  intro n
  induction n with
  | zero =>
    intro h t d1 d2 hd
    have : d1.length ≤ P.bb := by omega
    rw [lazy_short P h t d1 this]
  | succ n ih =>
    intro h t d1 d2 hd
    by_cases hs : d1.length ≤ P.bb
    · rw [lazy_short P h t d1 hs]
    · have hs' : P.bb < d1.length := by omega
      rw [lazy_step P hbb h t d1 hs', lazy_step P hbb h t (d1 ++ d2) (by simp; omega)]
      have h1 : (d1 ++ d2).take P.bb = d1.take P.bb := by
        rw [List.take_append_of_le_length (by omega)]
      have h2 : (d1 ++ d2).drop P.bb = d1.drop P.bb ++ d2 := by
        rw [List.drop_append_of_le_length (by omega)]
      rw [h1, h2]
      apply ih
      simp; omega

theorem streamAux_eq (P : Params W) :
    ∀ (f : Nat) (h : Vector W 8) (t : Nat) (d : Bytes), streamAux P f h t d = fin P (lazyAux P f h t d) := by
  intro f
  induction f with
  | zero => intro h t d; rfl
  | succ f ih =>
    intro h t d
    simp only [streamAux, lazyAux]
    by_cases hs : d.length ≤ P.bb
    · rw [if_pos hs, if_neg (by omega)]; rfl
    · rw [if_neg hs, if_pos (by omega)]; exact ih _ _ _

theorem stream_eq (P : Params W) (h : Vector W 8) (t : Nat) (d : Bytes) : stream P h t d = fin P (lazy P h t d) :=
  streamAux_eq P _ h t d

/-! ### the code against the lazy state -/

theorem update_loop_spec (P : Params W) (g : Good P) (pr : Profile) :
    ∀ (f : Nat) (e : Engine W) (t : Nat) (d : Bytes), Counts e t → Fits W pr t d.length →
      ∃ e', Ctx.update_loop P pr f e d = some (e', (lazyAux P f e.h t d).2.2) ∧
        e'.h = (lazyAux P f e.h t d).1 ∧ Counts e' (lazyAux P f e.h t d).2.1 := by
  intro f
  induction f with
  | zero => intro e t d hc _; exact ⟨e, rfl, rfl, hc⟩
  | succ f ih =>
    intro e t d hc hf
    simp only [Ctx.update_loop, lazyAux]
    by_cases hs : d.length > P.bb
    · rw [if_pos hs, if_pos hs]
      obtain ⟨e1, he1, hh1, hc1⟩ := inc_spec P g pr e t P.bb hc g.bb_lt (hf.mono (by omega))
      rw [he1]
      simp only []
      have hc2 := compress_counts P e1 (t + P.bb) hc1 (d.take P.bb) LastBlock.No
      have hh2 := compress_h_no P g e1 (t + P.bb) hc1 (d.take P.bb)
      have hf2 : Fits W pr (t + P.bb) (d.drop P.bb).length := by
        have := Fits.step P g hf (b := P.bb) (by omega)
        simpa using this
      obtain ⟨e', h1, h2, h3⟩ := ih (e1.compress P (d.take P.bb) LastBlock.No) (t + P.bb) (d.drop P.bb) hc2 hf2
      rw [hh2, hh1] at h1 h2 h3
      exact ⟨e', by simpa using h1, by simpa using h2, by simpa using h3⟩
    · rw [if_neg hs, if_neg hs]
      exact ⟨e, rfl, rfl, hc⟩

/-- the buffer invariant: `buf` is the whole block array, `buflen` is inside it -/
def Inv (P : Params W) (c : Ctx W) : Prop := c.buf.length = P.bb ∧ c.buflen ≤ P.bb

/-- the bytes received and not yet compressed -/
def pending (c : Ctx W) : Bytes := c.buf.take c.buflen

omit [Word W] in
theorem pending_length (P : Params W) (c : Ctx W) (hi : Inv P c) : (pending c).length = c.buflen := by
  have := hi.2
  simp [pending, hi.1]; omega

theorem update_mut_spec (P : Params W) (g : Good P) (pr : Profile) (c : Ctx W) (t : Nat) (input : Bytes)
    (hi : Inv P c) (hc : Counts c.eng t) (hf : Fits W pr t (c.buflen + input.length)) :
    ∃ c', Ctx.update_mut P pr c input = some c' ∧ Inv P c' ∧
      ∃ t', lazy P c.eng.h t (pending c ++ input) = (c'.eng.h, t', pending c') ∧ Counts c'.eng t' := by
  have hpl := pending_length P c hi
  obtain ⟨hbl, hle⟩ := hi
  unfold Ctx.update_mut
  by_cases he : input.isEmpty
  · rw [if_pos he]
    have : input = [] := by simpa using he
    subst this
    refine ⟨c, rfl, ⟨hbl, hle⟩, t, ?_, hc⟩
    rw [List.append_nil, lazy_short P _ _ _ (by omega)]
  · rw [if_neg he]
    have hne : input ≠ [] := by simpa using he
    have hpos : 0 < input.length := List.length_pos_iff.mpr hne
    simp only []
    by_cases hbig : input.length > P.bb - c.buflen
    · rw [if_pos hbig]
      -- first block: top up the buffer
      obtain ⟨e1, he1, hh1, hc1⟩ := inc_spec P g pr c.eng t P.bb hc g.bb_lt (hf.mono (by omega))
      rw [he1]
      simp only []
      have hsrc : (input.take (P.bb - c.buflen)).length = P.bb - c.buflen := by simp; omega
      have hblk : (setSlice c.buf c.buflen (input.take (P.bb - c.buflen))).take P.bb
          = pending c ++ input.take (P.bb - c.buflen) := by
        have := take_setSlice c.buf c.buflen (input.take (P.bb - c.buflen)) (by omega)
        rw [hsrc] at this
        have h2 : c.buflen + (P.bb - c.buflen) = P.bb := by omega
        rw [h2] at this
        exact this
      have hbuf1 : (setSlice c.buf c.buflen (input.take (P.bb - c.buflen))).length = P.bb := by
        rw [setSlice_length _ _ _ (by rw [hsrc]; omega)]; exact hbl
      rw [hblk]
      have hc2 := compress_counts P e1 (t + P.bb) hc1 (pending c ++ input.take (P.bb - c.buflen)) LastBlock.No
      have hh2 := compress_h_no P g e1 (t + P.bb) hc1 (pending c ++ input.take (P.bb - c.buflen))
      have hf2 : Fits W pr (t + P.bb) (input.drop (P.bb - c.buflen)).length := by
        have := Fits.step P g hf (b := P.bb) (by omega)
        have h3 : (input.drop (P.bb - c.buflen)).length = c.buflen + input.length - P.bb := by simp; omega
        rw [h3]; exact this
      obtain ⟨e', h1, h2, h3⟩ := update_loop_spec P g pr (input.drop (P.bb - c.buflen)).length
        (e1.compress P (pending c ++ input.take (P.bb - c.buflen)) LastBlock.No) (t + P.bb)
        (input.drop (P.bb - c.buflen)) hc2 hf2
      rw [h1]
      simp only []
      -- the lazy state of the whole data
      have hlen : P.bb < (pending c ++ input).length := by simp [hpl]; omega
      have htake : (pending c ++ input).take P.bb = pending c ++ input.take (P.bb - c.buflen) := by
        rw [List.take_append, hpl, List.take_of_length_le (by omega)]
      have hdrop : (pending c ++ input).drop P.bb = input.drop (P.bb - c.buflen) := by
        rw [List.drop_append, hpl, List.drop_of_length_le (by omega)]; simp
      have hlz := lazy_step P g.bb_pos c.eng.h t (pending c ++ input) hlen
      rw [htake, hdrop] at hlz
      rw [hh2, hh1] at h2 h3
      have hp := lazy_props P g.bb_pos _ (F P c.eng.h (pending c ++ input.take (P.bb - c.buflen)) (t + P.bb) false)
        (t + P.bb) (input.drop (P.bb - c.buflen)) (Nat.le_refl _)
      unfold lazy at hlz hp
      rw [hh2, hh1]
      generalize lazyAux P (input.drop (P.bb - c.buflen)).length
        (F P c.eng.h (pending c ++ input.take (P.bb - c.buflen)) (t + P.bb) false) (t + P.bb)
        (input.drop (P.bb - c.buflen)) = L at *
      obtain ⟨Lh, Lt, Lr⟩ := L
      simp only [] at h2 h3 hp hlz ⊢
      have hpend : pending (Ctx.mk e' (setSlice (setSlice c.buf c.buflen (input.take (P.bb - c.buflen))) 0 Lr)
          (0 + Lr.length)) = Lr := by
        simp only [pending]
        have := take_setSlice (setSlice c.buf c.buflen (input.take (P.bb - c.buflen))) 0 Lr (by omega)
        simpa using this
      refine ⟨_, rfl, ⟨?_, ?_⟩, Lt, ?_, h3⟩
      · simp only []; rw [setSlice_length _ _ _ (by rw [hbuf1]; omega)]; exact hbuf1
      · simp only []; omega
      · unfold lazy; rw [hlz, hpend]; simp only [h2]
    · rw [if_neg hbig]
      have hsmall : c.buflen + input.length ≤ P.bb := by omega
      have hpend : pending { c with buf := setSlice c.buf c.buflen input, buflen := c.buflen + input.length }
          = pending c ++ input := by
        simp only [pending]
        exact take_setSlice c.buf c.buflen input (by omega)
      refine ⟨_, rfl, ⟨?_, hsmall⟩, t, ?_, hc⟩
      · simp only []; rw [setSlice_length _ _ _ (by omega)]; exact hbl
      · rw [hpend, lazy_short P _ _ _ (by simp [hpl]; omega)]

theorem buflen_mod (P : Params W) (g : Good P) (n : Nat) (hn : n ≤ P.bb) : n % 2 ^ Word.bits W = n := by
  have := g.bb_lt
  rcases g.bits with hw | hw <;> rw [hw] <;> omega

theorem internal_final_spec (P : Params W) (g : Good P) (pr : Profile) (c : Ctx W) (t : Nat)
    (hi : Inv P c) (hc : Counts c.eng t) (hf : Fits W pr t c.buflen) :
    ∃ c', Ctx.internal_final P pr c = some c' ∧ Inv P c' ∧
      c'.eng.h = fin P (c.eng.h, t, pending c) ∧
      (∀ n, n ≤ 8 * wbytes W → c'.buf.take n = output c'.eng.h n) ∧ Counts c'.eng (t + c.buflen) := by
  have hpl := pending_length P c hi
  obtain ⟨hbl, hle⟩ := hi
  unfold Ctx.internal_final
  rw [buflen_mod P g c.buflen hle]
  obtain ⟨e1, he1, hh1, hc1⟩ := inc_spec P g pr c.eng t c.buflen hc (by have := g.bb_lt; omega) hf
  rw [he1]
  simp only []
  have hz : (zeroFrom c.buf c.buflen).length = P.bb := by rw [zeroFrom_length _ _ (by omega)]; exact hbl
  have hblk : (zeroFrom c.buf c.buflen).take P.bb = pending c ++ zeros (P.bb - c.buflen) := by
    rw [List.take_of_length_le (by omega)]
    simp [zeroFrom, pending, hbl]
  rw [hblk]
  have hh2 := compress_h_yes P g e1 (t + c.buflen) hc1 (pending c ++ zeros (P.bb - c.buflen))
  have hc2 := compress_counts P e1 (t + c.buflen) hc1 (pending c ++ zeros (P.bb - c.buflen)) LastBlock.Yes
  have hlen := hbytes_length (e1.compress P (pending c ++ zeros (P.bb - c.buflen)) LastBlock.Yes).h
  have hge := g.bb_ge
  refine ⟨_, rfl, ⟨?_, hle⟩, ?_, ?_, hc2⟩
  · simp only []
    rw [setSlice_length _ _ _ (by rw [hlen, hz]; omega)]; exact hz
  · simp only [fin]
    rw [hh2, hh1, hpl]
  · intro n hn
    simp only [output]
    simp only [setSlice, List.take_zero, List.nil_append, Nat.zero_add]
    rw [List.take_append_of_le_length (by rw [hlen]; omega)]

theorem lazy_t_ge (P : Params W) (hbb : 0 < P.bb) :
    ∀ (n : Nat) (h : Vector W 8) (t : Nat) (d : Bytes), d.length ≤ n → t ≤ (lazy P h t d).2.1 := by
  intro n
  induction n with
  | zero =>
    intro h t d hd
    rw [lazy_short P h t d (by omega)]; exact Nat.le_refl _
  | succ n ih =>
    intro h t d hd
    by_cases hs : d.length ≤ P.bb
    · rw [lazy_short P h t d hs]; exact Nat.le_refl _
    · rw [lazy_step P hbb h t d (by omega)]
      have := ih (F P h (d.take P.bb) (t + P.bb) false) (t + P.bb) (d.drop P.bb) (by simp; omega)
      omega

/-! ### refinement relation: concrete context ↔ (start chaining value, start counter, data so far) -/

/-- `c` is the state of a context that has received `data` starting from chaining value `h0` and counter `t0` -/
def Rel (P : Params W) (c : Ctx W) (h0 : Vector W 8) (t0 : Nat) (data : Bytes) : Prop :=
  Inv P c ∧ ∃ t', lazy P h0 t0 data = (c.eng.h, t', pending c) ∧ Counts c.eng t'

theorem Rel.fits (P : Params W) (g : Good P) {pr : Profile} {c : Ctx W} {h0 : Vector W 8} {t0 t' : Nat} {data : Bytes}
    (hi : Inv P c) (hl : lazy P h0 t0 data = (c.eng.h, t', pending c)) (n : Nat)
    (hf : Fits W pr t0 (data.length + n)) : Fits W pr t' (c.buflen + n) := by
  have hp := lazy_props P g.bb_pos _ h0 t0 data (Nat.le_refl _)
  have hge := lazy_t_ge P g.bb_pos _ h0 t0 data (Nat.le_refl _)
  rw [hl] at hp hge
  simp only [] at hp hge
  rw [pending_length P c hi] at hp
  have h1 : t' = t0 + (t' - t0) := by omega
  have h2 : c.buflen + n = data.length + n - (t' - t0) := by omega
  rw [h1, h2]
  exact Fits.step P g hf (by omega)

theorem Rel.update (P : Params W) (g : Good P) (pr : Profile) (c : Ctx W) (h0 : Vector W 8) (t0 : Nat) (data input : Bytes)
    (hr : Rel P c h0 t0 data) (hf : Fits W pr t0 (data.length + input.length)) :
    ∃ c', Ctx.update_mut P pr c input = some c' ∧ Rel P c' h0 t0 (data ++ input) := by
  obtain ⟨hi, t', hl, hc⟩ := hr
  obtain ⟨c', h1, hi', t'', h2, hc'⟩ := update_mut_spec P g pr c t' input hi hc (Rel.fits P g hi hl _ hf)
  refine ⟨c', h1, hi', t'', ?_, hc'⟩
  rw [lazy_append P g.bb_pos _ h0 t0 data input (Nat.le_refl _), hl]
  exact h2

theorem Rel.internal_final (P : Params W) (g : Good P) (pr : Profile) (c : Ctx W) (h0 : Vector W 8) (t0 : Nat) (data : Bytes)
    (hr : Rel P c h0 t0 data) (hf : Fits W pr t0 data.length) :
    ∃ c', Ctx.internal_final P pr c = some c' ∧ Inv P c' ∧
      ∀ n, n ≤ 8 * wbytes W → c'.buf.take n = output (stream P h0 t0 data) n := by
  obtain ⟨hi, t', hl, hc⟩ := hr
  obtain ⟨c', h1, hi', h2, h3, _⟩ := internal_final_spec P g pr c t' hi hc
    (by simpa using Rel.fits P g hi hl 0 (by simpa using hf))
  refine ⟨c', h1, hi', fun n hn => ?_⟩
  rw [h3 n hn, h2, stream_eq, hl]

theorem Rel.finalize_at (P : Params W) (g : Good P) (pr : Profile) (c : Ctx W) (h0 : Vector W 8) (t0 : Nat) (data : Bytes)
    (nn : Nat) (hn : nn ≤ P.maxOut) (hr : Rel P c h0 t0 data) (hf : Fits W pr t0 data.length) :
    Ctx.finalize_at P pr c nn nn = some (output (stream P h0 t0 data) nn) := by
  obtain ⟨c', h1, _, h2⟩ := Rel.internal_final P g pr c h0 t0 data hr hf
  unfold Ctx.finalize_at
  rw [if_neg (by simp), h1]
  simp only []
  rw [h2 nn (Nat.le_trans hn g.out_le)]

/-- the state `new_keyed` builds (and `reset`, `reset_with_key` rebuild) -/
def newState (P : Params W) (nn : Nat) (key : Bytes) : Ctx W :=
  { eng := { h := initH P nn key.length, t0 := 0, t1 := 0 },
    buf := if key.isEmpty then zeros P.bb else setSlice (zeros P.bb) 0 key,
    buflen := if key.isEmpty then 0 else P.bb }

theorem new_keyed_eq (P : Params W) (nn : Nat) (key : Bytes) (hn : 0 < nn ∧ nn ≤ P.maxOut) (hk : key.length ≤ P.maxKey) :
    Ctx.new_keyed P nn key = some (newState P nn key) := by
  unfold Ctx.new_keyed Engine.new newState
  rw [if_neg (by simpa using hn), if_neg (by simpa using hk)]
  simp only []
  rw [if_neg (by simp; omega), if_neg (by simpa using hk)]
  by_cases he : key.isEmpty <;> simp [he]

theorem new_keyed_none (P : Params W) (nn : Nat) (key : Bytes) (h : ¬ (0 < nn ∧ nn ≤ P.maxOut ∧ key.length ≤ P.maxKey)) :
    Ctx.new_keyed P nn key = none := by
  unfold Ctx.new_keyed
  by_cases h1 : nn > 0 ∧ nn ≤ P.maxOut
  · rw [if_neg (by simpa using h1)]
    rw [if_pos]
    intro h2; exact h ⟨h1.1, h1.2, h2⟩
  · rw [if_pos h1]

theorem reset_eq (P : Params W) (c : Ctx W) (hi : Inv P c) (nn : Nat) : Ctx.reset P c nn = newState P nn [] := by
  unfold Ctx.reset Engine.reset newState
  simp [zeroFrom_zero, hi.1]

theorem reset_with_key_eq (P : Params W) (c : Ctx W) (hi : Inv P c) (nn : Nat) (key : Bytes) (hk : key.length ≤ P.maxKey) :
    Ctx.reset_with_key P c nn key = some (newState P nn key) := by
  unfold Ctx.reset_with_key Engine.reset newState
  rw [if_neg (by simpa using hk)]
  by_cases he : key.isEmpty <;> simp [he, zeroFrom_zero, hi.1]

theorem reset_with_key_none (P : Params W) (c : Ctx W) (nn : Nat) (key : Bytes) (hk : ¬ key.length ≤ P.maxKey) :
    Ctx.reset_with_key P c nn key = none := by
  unfold Ctx.reset_with_key
  rw [if_pos hk]

theorem newState_rel (P : Params W) (g : Good P) (nn : Nat) (key : Bytes) (hn : nn ≤ P.maxOut) (hk : key.length ≤ P.maxKey) :
    Rel P (newState P nn key) (init P nn key.length) 0 (keyBlock P.bb key) := by
  have hkb := g.key_le
  have hinv : Inv P (newState P nn key) := by
    unfold Inv newState
    by_cases he : key.isEmpty
    · simp [he, length_zeros]
    · simp only [he]
      refine ⟨?_, Nat.le_refl _⟩
      simp only [Bool.false_eq_true, ↓reduceIte]
      rw [setSlice_length _ _ _ (by rw [length_zeros]; omega), length_zeros]
  have hpend : pending (newState P nn key) = keyBlock P.bb key := by
    unfold pending newState keyBlock
    by_cases he : key.isEmpty
    · simp [he]
    · simp only [he, Bool.false_eq_true, ↓reduceIte]
      rw [List.take_of_length_le (by
        rw [setSlice_length _ _ _ (by rw [length_zeros]; omega), length_zeros]; exact Nat.le_refl _)]
      simp [setSlice, zeros]
  refine ⟨hinv, 0, ?_, ?_⟩
  · have hlen : (keyBlock P.bb key).length ≤ P.bb := by
      rw [← hpend, pending_length P _ hinv]; exact hinv.2
    rw [lazy_short P _ _ _ hlen, hpend]
    simp only [newState, g.param nn key.length hn hk]
  · simp [Counts, newState]

/-! ### RFC 7693 block-array formulation = streaming formulation -/

theorem stream_short (P : Params W) (h : Vector W 8) (t : Nat) (d : Bytes) (hd : d.length ≤ P.bb) :
    stream P h t d = F P h (d ++ zeros (P.bb - d.length)) (t + d.length) true := by
  rw [stream_eq, lazy_short P h t d hd]; rfl

theorem stream_step (P : Params W) (hbb : 0 < P.bb) (h : Vector W 8) (t : Nat) (d : Bytes) (hd : P.bb < d.length) :
    stream P h t d = stream P (F P h (d.take P.bb) (t + P.bb) false) (t + P.bb) (d.drop P.bb) := by
  rw [stream_eq, stream_eq, lazy_step P hbb h t d hd]

omit [Word W] in
theorem splitAux_fuel (bb : Nat) (hbb : 0 < bb) :
    ∀ (f1 f2 : Nat) (x : Bytes), x.length ≤ f1 → x.length ≤ f2 → splitAux bb f1 x = splitAux bb f2 x := by
  intro f1
  induction f1 with
  | zero =>
    intro f2 x h1 _
    have : x = [] := List.length_eq_zero_iff.mp (by omega)
    subst this
    cases f2 <;> simp [splitAux]
  | succ f1 ih =>
    intro f2 x h1 h2
    cases f2 with
    | zero =>
      have : x = [] := List.length_eq_zero_iff.mp (by omega)
      subst this
      simp [splitAux]
    | succ f2 =>
      simp only [splitAux]
      split
      · rfl
      · rename_i hne
        have : 0 < x.length := by
          cases x with
          | nil => simp at hne
          | cons a l => simp
        rw [ih f2 (x.drop bb) (by simp; omega) (by simp; omega)]

omit [Word W] in
theorem split_cons (bb : Nat) (hbb : 0 < bb) (x : Bytes) (hx : x ≠ []) :
    split bb x = x.take bb :: split bb (x.drop bb) := by
  unfold split
  obtain ⟨n, hn⟩ : ∃ n, x.length = n + 1 := ⟨x.length - 1, by
    have := List.length_pos_iff.mpr hx; omega⟩
  rw [hn]
  simp only [splitAux]
  rw [if_neg (by simpa using hx)]
  rw [splitAux_fuel bb hbb n (x.drop bb).length (x.drop bb) (by simp; omega) (Nat.le_refl _)]

omit [Word W] in
theorem split_nil (bb : Nat) : split bb [] = [] := rfl

omit [Word W] in
theorem padZero_short (bb : Nat) (_hbb : 0 < bb) (m : Bytes) (h1 : 0 < m.length) (h2 : m.length ≤ bb) :
    padZero bb m = m ++ zeros (bb - m.length) := by
  unfold padZero
  congr 2
  by_cases he : m.length = bb
  · rw [he, Nat.mod_self]; simp
  · have h3 : m.length % bb = m.length := Nat.mod_eq_of_lt (by omega)
    rw [h3, Nat.mod_eq_of_lt (by omega)]

omit [Word W] in
theorem padZero_long (bb : Nat) (m : Bytes) (h : bb < m.length) :
    (padZero bb m).take bb = m.take bb ∧ (padZero bb m).drop bb = padZero bb (m.drop bb) := by
  unfold padZero
  have hle : bb ≤ m.length := by omega
  refine ⟨List.take_append_of_le_length hle, ?_⟩
  rw [List.drop_append_of_le_length hle]
  congr 3
  simp only [List.length_drop]
  have : m.length = (m.length - bb) + bb := by omega
  conv => lhs; rw [this, Nat.add_mod_right]

theorem absorb_eq_stream (P : Params W) (hbb : 0 < P.bb) (total : Nat) :
    ∀ (n : Nat) (h : Vector W 8) (i : Nat) (d : Bytes), d.length ≤ n → d ≠ [] → total = i * P.bb + d.length →
      absorb P total h i (split P.bb (padZero P.bb d)) = stream P h (i * P.bb) d := by
  intro n
  induction n with
  | zero =>
    intro h i d hd hne
    exact absurd (List.length_eq_zero_iff.mp (by omega)) hne
  | succ n ih =>
    intro h i d hd hne htot
    have hpos := List.length_pos_iff.mpr hne
    by_cases hs : d.length ≤ P.bb
    · rw [padZero_short P.bb hbb d hpos hs]
      have hx : d ++ zeros (P.bb - d.length) ≠ [] := by simp [hne]
      have hlen : (d ++ zeros (P.bb - d.length)).length = P.bb := by simp [length_zeros]; omega
      rw [split_cons P.bb hbb _ hx]
      rw [List.take_of_length_le (by omega), List.drop_of_length_le (by omega), split_nil]
      rw [stream_short P h _ d hs, htot]
      rfl
    · have hl : P.bb < d.length := by omega
      have hpz : padZero P.bb d ≠ [] := by simp [padZero, hne]
      obtain ⟨ht, hdp⟩ := padZero_long P.bb d hl
      rw [split_cons P.bb hbb _ hpz, ht, hdp]
      have hdne : d.drop P.bb ≠ [] := by
        intro hx
        have : (d.drop P.bb).length = 0 := by rw [hx]; rfl
        simp at this; omega
      have hrest : split P.bb (padZero P.bb (d.drop P.bb)) ≠ [] := by
        have hq : padZero P.bb (d.drop P.bb) ≠ [] := by simp [padZero, hdne]
        rw [split_cons P.bb hbb _ hq]; simp
      obtain ⟨y, ys, hy⟩ := List.exists_cons_of_ne_nil hrest
      have := ih (F P h (d.take P.bb) ((i + 1) * P.bb) false) (i + 1) (d.drop P.bb) (by simp; omega) hdne
        (by simp [Nat.add_mul]; omega)
      rw [hy] at this ⊢
      simp only [absorb]
      rw [this, stream_step P hbb h (i * P.bb) d hl]
      have : i * P.bb + P.bb = (i + 1) * P.bb := by rw [Nat.add_mul]; omega
      rw [this]

/-- RFC 7693 section 3.3 (array of padded blocks, key block first) = streaming form over `keyBlock ++ msg` -/
theorem absorb_dataBlocks (P : Params W) (hbb : 0 < P.bb) (h0 : Vector W 8) (key msg : Bytes) (hk : key.length ≤ P.bb) :
    absorb P (if key.length = 0 then msg.length else msg.length + P.bb) h0 0 (dataBlocks P.bb key msg)
      = stream P h0 0 (keyBlock P.bb key ++ msg) := by
  unfold dataBlocks keyBlock
  by_cases hke : key = []
  · subst hke
    simp only [List.length_nil, List.isEmpty_nil, ↓reduceIte, List.nil_append]
    by_cases hm : msg = []
    · subst hm
      simp only [padZero, List.length_nil, Nat.zero_mod, Nat.sub_zero, Nat.mod_self, zeros, List.replicate_zero,
        List.append_nil, split_nil, List.isEmpty_nil, ↓reduceIte]
      rw [stream_short P _ _ [] (by simp)]
      rfl
    · have hne : split P.bb (padZero P.bb msg) ≠ [] := by
        have hq : padZero P.bb msg ≠ [] := by simp [padZero, hm]
        rw [split_cons P.bb hbb _ hq]; simp
      rw [if_neg (by simpa using hne)]
      have := absorb_eq_stream P hbb msg.length _ h0 0 msg (Nat.le_refl _) hm (by simp)
      simpa using this
  · have hkl : 0 < key.length := List.length_pos_iff.mpr hke
    have hkz : ¬ key.length = 0 := by omega
    simp only [hkz, ↓reduceIte, List.isEmpty_iff, hke, List.cons_append, List.nil_append, List.isEmpty_cons]
    have hkb : (key ++ zeros (P.bb - key.length)).length = P.bb := by simp [length_zeros]; omega
    by_cases hm : msg = []
    · subst hm
      have hz0 : zeros 0 = [] := rfl
      simp only [padZero, List.length_nil, Nat.zero_mod, Nat.sub_zero, Nat.mod_self, hz0,
        List.append_nil, split_nil, Nat.zero_add, Bool.false_eq_true, ↓reduceIte, absorb]
      rw [stream_short P _ _ _ (by rw [hkb]; exact Nat.le_refl _), hkb]
      simp only [Nat.sub_self, hz0, List.append_nil, Nat.zero_add]
    · have hne : split P.bb (padZero P.bb msg) ≠ [] := by
        have hq : padZero P.bb msg ≠ [] := by simp [padZero, hm]
        rw [split_cons P.bb hbb _ hq]; simp
      obtain ⟨y, ys, hy⟩ := List.exists_cons_of_ne_nil hne
      have := absorb_eq_stream P hbb (msg.length + P.bb) _
        (F P h0 (key ++ zeros (P.bb - key.length)) ((0 + 1) * P.bb) false) 1 msg
        (Nat.le_refl _) hm (by omega)
      rw [hy] at this ⊢
      simp only [Bool.false_eq_true, ↓reduceIte, absorb]
      rw [this]
      rw [stream_step P hbb _ 0 _ (by simp [length_zeros]; have := List.length_pos_iff.mpr hm; omega)]
      rw [List.take_append_of_le_length (by omega), List.drop_append_of_le_length (by omega)]
      rw [List.take_of_length_le (by omega), List.drop_of_length_le (by omega)]
      simp

/-- RFC 7693 section 3.3 (array of padded blocks, key block first) = streaming form over `keyBlock ++ msg` -/
theorem blake2_eq_stream (P : Params W) (hbb : 0 < P.bb) (nn : Nat) (key msg : Bytes) (hk : key.length ≤ P.bb) :
    blake2 P nn key msg = blake2At P 0 nn key msg := by
  unfold blake2 blake2At
  simp only []
  rw [absorb_dataBlocks P hbb _ key msg hk]

/-- hook `verif_set_counter` on a context that has not compressed anything yet (at most one block pending):
    the same data, counted from `t0 + 2^w t1` -/
theorem Rel.set_counter (P : Params W) (g : Good P) (c : Ctx W) (h0 : Vector W 8) (data : Bytes) (t0 t1 : Nat)
    (hd : data.length ≤ P.bb) (hr : Rel P c h0 0 data) (ht0 : t0 < 2 ^ Word.bits W) :
    Rel P (Ctx.verif_set_counter c t0 t1) h0 (t0 + 2 ^ Word.bits W * t1) data := by
  obtain ⟨hi, t', hl, _⟩ := hr
  rw [lazy_short P h0 0 data hd] at hl
  have hh : h0 = c.eng.h := congrArg Prod.fst hl
  have hp : data = pending c := congrArg (fun x => x.2.2) hl
  refine ⟨hi, t0 + 2 ^ Word.bits W * t1, ?_, ?_⟩
  · rw [lazy_short P h0 _ data hd]
    simp only [Ctx.verif_set_counter, pending]
    rw [hh, hp]; rfl
  · simp only [Counts, Ctx.verif_set_counter]
    rcases g.bits with hw | hw <;> rw [hw] at ht0 ⊢ <;> omega

/-! ### one-shot digests -/

theorem keyBlock_length (P : Params W) (g : Good P) (key : Bytes) (hk : key.length ≤ P.maxKey) :
    (keyBlock P.bb key).length = if key.isEmpty then 0 else P.bb := by
  have := g.key_le
  unfold keyBlock
  by_cases he : key.isEmpty <;> simp [he, length_zeros]
  omega

theorem fits_wrapping (t n : Nat) : Fits W Profile.wrapping t n := Or.inl rfl

/-- from a related state: update with the rest of the message, then finalise = the streaming Spec -/
theorem Rel.update_finalize (P : Params W) (g : Good P) (pr : Profile) (c : Ctx W) (h0 : Vector W 8) (t0 : Nat)
    (data msg : Bytes) (nn : Nat) (hn : nn ≤ P.maxOut) (hr : Rel P c h0 t0 data)
    (hf : Fits W pr t0 (data.length + msg.length)) :
    ∃ c', Ctx.update_mut P pr c msg = some c' ∧
      Ctx.finalize_at P pr c' nn nn = some (output (stream P h0 t0 (data ++ msg)) nn) := by
  obtain ⟨c', h1, hr'⟩ := Rel.update P g pr c h0 t0 data msg hr hf
  exact ⟨c', h1, Rel.finalize_at P g pr c' h0 t0 (data ++ msg) nn hn hr' (by simpa using hf)⟩

/-- `ContextDyn::new_keyed(nn, key).update(msg).finalize_at(out[nn])` = RFC 7693 -/
theorem blake2_dyn_eq_spec (P : Params W) (g : Good P) (pr : Profile) (nn : Nat) (key msg : Bytes)
    (hn : 0 < nn ∧ nn ≤ P.maxOut) (hk : key.length ≤ P.maxKey)
    (hf : Fits W pr 0 ((if key.isEmpty then 0 else P.bb) + msg.length)) :
    Impl.Blake2.blake2_dyn P pr nn key msg = some (blake2 P nn key msg) := by
  unfold Impl.Blake2.blake2_dyn Impl.Blake2.ContextDyn.new_keyed Impl.Blake2.ContextDyn.update
    Impl.Blake2.ContextDyn.update_mut Impl.Blake2.ContextDyn.finalize_at
  rw [new_keyed_eq P nn key hn hk]
  simp only []
  obtain ⟨c', h1, h2⟩ := Rel.update_finalize P g pr _ _ 0 _ msg nn hn.2 (newState_rel P g nn key hn.2 hk)
    (by rw [keyBlock_length P g key hk]; exact hf)
  rw [h1]
  simp only []
  rw [h2, blake2_eq_stream P g.bb_pos nn key msg (Nat.le_trans hk g.key_le)]
  rfl

/-- the same through `Context<BITS>` -/
theorem blake2_ctx_eq_spec (P : Params W) (g : Good P) (pr : Profile) (BITS : Nat) (key msg : Bytes)
    (hn : 0 < BITS ∧ (BITS + 7) / 8 ≤ P.maxOut) (hk : key.length ≤ P.maxKey)
    (hf : Fits W pr 0 ((if key.isEmpty then 0 else P.bb) + msg.length)) :
    Impl.Blake2.blake2_ctx P pr BITS key msg = some (blake2 P ((BITS + 7) / 8) key msg) := by
  have hn' : 0 < (BITS + 7) / 8 ∧ (BITS + 7) / 8 ≤ P.maxOut := ⟨by omega, hn.2⟩
  unfold Impl.Blake2.blake2_ctx Impl.Blake2.Context.new_keyed Impl.Blake2.Context.update
    Impl.Blake2.Context.finalize_at Impl.Blake2.Context.outlen
  rw [if_neg (by simpa using hn), new_keyed_eq P _ key hn' hk]
  simp only []
  obtain ⟨c', h1, h2⟩ := Rel.update_finalize P g pr _ _ 0 _ msg _ hn.2 (newState_rel P g _ key hn.2 hk)
    (by rw [keyBlock_length P g key hk]; exact hf)
  rw [h1]
  simp only []
  rw [h2, blake2_eq_stream P g.bb_pos _ key msg (Nat.le_trans hk g.key_le)]
  rfl

/-- C20: a context whose counter words were preset (hook) hashes as BLAKE2 with that start counter, the two words
    behaving as ONE 2w-bit counter through every carry and wrap-around -/
theorem blake2_preset_eq_spec (P : Params W) (g : Good P) (nn : Nat) (key msg : Bytes) (t0 t1 : Nat)
    (hn : 0 < nn ∧ nn ≤ P.maxOut) (hk : key.length ≤ P.maxKey) (ht0 : t0 < 2 ^ Word.bits W) :
    ∃ c c', Ctx.new_keyed P nn key = some c ∧
      Ctx.update_mut P .wrapping (Ctx.verif_set_counter c t0 t1) msg = some c' ∧
      Ctx.finalize_at P .wrapping c' nn nn = some (blake2At P (t0 + 2 ^ Word.bits W * t1) nn key msg) := by
  have hkl : (keyBlock P.bb key).length ≤ P.bb := by
    rw [keyBlock_length P g key hk]; split <;> omega
  have hr := Rel.set_counter P g _ _ _ t0 t1 hkl (newState_rel P g nn key hn.2 hk) ht0
  obtain ⟨c', h1, h2⟩ := Rel.update_finalize P g .wrapping _ _ _ _ msg nn hn.2 hr (fits_wrapping _ _)
  exact ⟨_, c', new_keyed_eq P nn key hn hk, h1, h2⟩

/-- `Blake2x::<BITS>::new().update(msg).finalize()` for a BITS that is a multiple of 8 (the `context_finalize!` sizes) -/
theorem blake2_fixed_eq_spec (P : Params W) (g : Good P) (pr : Profile) (BITS : Nat) (msg : Bytes)
    (h8 : BITS % 8 = 0) (hn : 0 < BITS ∧ BITS / 8 ≤ P.maxOut) (hf : Fits W pr 0 msg.length) :
    Impl.Blake2.hashing_blake2 P pr BITS msg = some (blake2 P (BITS / 8) [] msg) := by
  have he : (BITS + 7) / 8 = BITS / 8 := by omega
  have hn' : 0 < BITS ∧ (BITS + 7) / 8 ≤ P.maxOut := ⟨hn.1, by rw [he]; exact hn.2⟩
  have := blake2_ctx_eq_spec P g pr BITS [] msg hn' (Nat.zero_le _) (by simpa using hf)
  unfold Impl.Blake2.blake2_ctx at this
  unfold Impl.Blake2.hashing_blake2 Impl.Blake2.Context.new Impl.Blake2.Context.finalize
  rw [if_neg (by simpa [Impl.Blake2.Context.outlen] using hn')]
  rw [← he]
  exact this

/-- refused parameters: exactly the arguments outside the RFC's domain, and never a value -/
theorem blake2_dyn_refuses (P : Params W) (pr : Profile) (nn : Nat) (key msg : Bytes)
    (h : ¬ (0 < nn ∧ nn ≤ P.maxOut ∧ key.length ≤ P.maxKey)) :
    Impl.Blake2.blake2_dyn P pr nn key msg = none := by
  unfold Impl.Blake2.blake2_dyn Impl.Blake2.ContextDyn.new_keyed
  rw [new_keyed_none P nn key h]

theorem blake2_ctx_refuses (P : Params W) (pr : Profile) (BITS : Nat) (key msg : Bytes)
    (h : ¬ (0 < BITS ∧ (BITS + 7) / 8 ≤ P.maxOut ∧ key.length ≤ P.maxKey)) :
    Impl.Blake2.blake2_ctx P pr BITS key msg = none := by
  unfold Impl.Blake2.blake2_ctx Impl.Blake2.Context.new_keyed Impl.Blake2.Context.outlen
  by_cases h1 : BITS > 0 ∧ (BITS + 7) / 8 ≤ P.maxOut
  · rw [if_neg (by simpa using h1), new_keyed_none P _ key (fun hx => h ⟨h1.1, hx.2.1, hx.2.2⟩)]
  · rw [if_pos h1]

end generic

/-! ### the two variants are `Good` -/

theorem paramWord64 (nn kk : Nat) (hk : kk ≤ 64) :
    (UInt64.ofNat 0x01010000 ^^^ (UInt64.ofNat kk <<< UInt64.ofNat 8)) ^^^ UInt64.ofNat nn = UInt64.ofNat (paramWord nn kk) := by
  apply UInt64.toNat_inj.mp
  simp only [UInt64.toNat_xor, UInt64.toNat_shiftLeft, UInt64.toNat_ofNat', paramWord, Nat.xor_mod_two_pow]
  have h1 : kk % 2 ^ 64 = kk := Nat.mod_eq_of_lt (by omega)
  have h2 : (8 : Nat) % 2 ^ 64 % 64 = 8 := by decide
  rw [h1, h2]

theorem paramWord32 (nn kk : Nat) (hk : kk ≤ 64) :
    (UInt32.ofNat 0x01010000 ^^^ (UInt32.ofNat kk <<< UInt32.ofNat 8)) ^^^ UInt32.ofNat nn = UInt32.ofNat (paramWord nn kk) := by
  apply UInt32.toNat_inj.mp
  simp only [UInt32.toNat_xor, UInt32.toNat_shiftLeft, UInt32.toNat_ofNat', paramWord, Nat.xor_mod_two_pow]
  have h1 : kk % 2 ^ 32 = kk := Nat.mod_eq_of_lt (by omega)
  have h2 : (8 : Nat) % 2 ^ 32 % 32 = 8 := by decide
  rw [h1, h2]

theorem good_b : Good Spec.Blake2.b where
  bits := Or.inr rfl
  bb_pos := by decide
  bb_lt := by decide
  bb_ge := by decide
  rows := rows_b
  out_le := by decide
  key_le := by decide
  param := by
    intro nn kk _ hk
    unfold initH init
    congr 1
    exact congrArg _ (paramWord64 nn kk hk)

theorem good_s : Good Spec.Blake2.s where
  bits := Or.inl rfl
  bb_pos := by decide
  bb_lt := by decide
  bb_ge := by decide
  rows := rows_s
  out_le := by decide
  key_le := by decide
  param := by
    intro nn kk _ hk
    unfold initH init
    congr 1
    exact congrArg _ (paramWord32 nn kk (by have : Spec.Blake2.s.maxKey = 32 := rfl; omega))

end Cx.Proofs.Blake2
