/-
  Proofs.StreamSalsa — Salsa20: the code model (Impl.Salsa) = Bernstein's specification (Spec.Salsa): double round,
  expansion layout for every (key length, nonce length), 64-bit counter carry, HSalsa word selection,
  and the `Refines` instances of `Salsa<R>` / `XSalsa<R>`.
-/
import CxVerif.Impl.Salsa
import CxVerif.Spec.Salsa
import CxVerif.Proofs.StreamEngine
namespace Cx.Proofs.Salsa
open Cx Cx.Impl Cx.Impl.StreamCtx Cx.Spec.Stream Cx.Proofs.Stream
open Cx.Proofs.ChaCha (toVec word_eq_read read_append_left read_append_right read_take read_drop lo_succ hi_succ
  length_flatMap_const u32le_length map_ok toVec_x12)
set_option linter.unusedSimpArgs false
set_option linter.unusedVariables false

theorem QR_eq (a b c d : UInt32) : Impl.Salsa.QR a b c d = Spec.Salsa.quarterRound a b c d := rfl

theorem qround_0_4_8_12 (x0 x1 x2 x3 x4 x5 x6 x7 x8 x9 x10 x11 x12 x13 x14 x15 : UInt32) :
    Spec.Salsa.qround #v[x0,x1,x2,x3,x4,x5,x6,x7,x8,x9,x10,x11,x12,x13,x14,x15] 0 4 8 12 =
      (match Impl.Salsa.QR x0 x4 x8 x12 with | (a,b,c,d) => #v[a,x1,x2,x3,b,x5,x6,x7,c,x9,x10,x11,d,x13,x14,x15]) := rfl
theorem qround_5_9_13_1 (x0 x1 x2 x3 x4 x5 x6 x7 x8 x9 x10 x11 x12 x13 x14 x15 : UInt32) :
    Spec.Salsa.qround #v[x0,x1,x2,x3,x4,x5,x6,x7,x8,x9,x10,x11,x12,x13,x14,x15] 5 9 13 1 =
      (match Impl.Salsa.QR x5 x9 x13 x1 with | (a,b,c,d) => #v[x0,d,x2,x3,x4,a,x6,x7,x8,b,x10,x11,x12,c,x14,x15]) := rfl
theorem qround_10_14_2_6 (x0 x1 x2 x3 x4 x5 x6 x7 x8 x9 x10 x11 x12 x13 x14 x15 : UInt32) :
    Spec.Salsa.qround #v[x0,x1,x2,x3,x4,x5,x6,x7,x8,x9,x10,x11,x12,x13,x14,x15] 10 14 2 6 =
      (match Impl.Salsa.QR x10 x14 x2 x6 with | (a,b,c,d) => #v[x0,x1,c,x3,x4,x5,d,x7,x8,x9,a,x11,x12,x13,b,x15]) := rfl
theorem qround_15_3_7_11 (x0 x1 x2 x3 x4 x5 x6 x7 x8 x9 x10 x11 x12 x13 x14 x15 : UInt32) :
    Spec.Salsa.qround #v[x0,x1,x2,x3,x4,x5,x6,x7,x8,x9,x10,x11,x12,x13,x14,x15] 15 3 7 11 =
      (match Impl.Salsa.QR x15 x3 x7 x11 with | (a,b,c,d) => #v[x0,x1,x2,b,x4,x5,x6,c,x8,x9,x10,d,x12,x13,x14,a]) := rfl
theorem qround_0_1_2_3 (x0 x1 x2 x3 x4 x5 x6 x7 x8 x9 x10 x11 x12 x13 x14 x15 : UInt32) :
    Spec.Salsa.qround #v[x0,x1,x2,x3,x4,x5,x6,x7,x8,x9,x10,x11,x12,x13,x14,x15] 0 1 2 3 =
      (match Impl.Salsa.QR x0 x1 x2 x3 with | (a,b,c,d) => #v[a,b,c,d,x4,x5,x6,x7,x8,x9,x10,x11,x12,x13,x14,x15]) := rfl
theorem qround_5_6_7_4 (x0 x1 x2 x3 x4 x5 x6 x7 x8 x9 x10 x11 x12 x13 x14 x15 : UInt32) :
    Spec.Salsa.qround #v[x0,x1,x2,x3,x4,x5,x6,x7,x8,x9,x10,x11,x12,x13,x14,x15] 5 6 7 4 =
      (match Impl.Salsa.QR x5 x6 x7 x4 with | (a,b,c,d) => #v[x0,x1,x2,x3,d,a,b,c,x8,x9,x10,x11,x12,x13,x14,x15]) := rfl
theorem qround_10_11_8_9 (x0 x1 x2 x3 x4 x5 x6 x7 x8 x9 x10 x11 x12 x13 x14 x15 : UInt32) :
    Spec.Salsa.qround #v[x0,x1,x2,x3,x4,x5,x6,x7,x8,x9,x10,x11,x12,x13,x14,x15] 10 11 8 9 =
      (match Impl.Salsa.QR x10 x11 x8 x9 with | (a,b,c,d) => #v[x0,x1,x2,x3,x4,x5,x6,x7,c,d,a,b,x12,x13,x14,x15]) := rfl
theorem qround_15_12_13_14 (x0 x1 x2 x3 x4 x5 x6 x7 x8 x9 x10 x11 x12 x13 x14 x15 : UInt32) :
    Spec.Salsa.qround #v[x0,x1,x2,x3,x4,x5,x6,x7,x8,x9,x10,x11,x12,x13,x14,x15] 15 12 13 14 =
      (match Impl.Salsa.QR x15 x12 x13 x14 with | (a,b,c,d) => #v[x0,x1,x2,x3,x4,x5,x6,x7,x8,x9,x10,x11,b,c,d,a]) := rfl

/-- one loop iteration of `rounds` = `doubleround` = rowround ∘ columnround -/
theorem doubleRound_eq (w : W16) : toVec (Impl.Salsa.doubleRound w) = Spec.Salsa.doubleRound (toVec w) := by
  cases w
  simp only [toVec, Spec.Salsa.doubleRound, Spec.Salsa.rowRound, Spec.Salsa.columnRound, Impl.Salsa.doubleRound, qround_0_4_8_12, qround_5_9_13_1, qround_10_14_2_6, qround_15_3_7_11, qround_0_1_2_3, qround_5_6_7_4, qround_10_11_8_9, qround_15_12_13_14]

theorem loop_eq (n : Nat) : ∀ w, toVec (Impl.Salsa.loop Impl.Salsa.doubleRound n w) = iter Spec.Salsa.doubleRound n (toVec w) := by
  induction n with
  | zero => intro w; rfl
  | succ n ih => intro w; simp only [Impl.Salsa.loop, iter, ih, doubleRound_eq]

theorem rounds_eq (R : Nat) (w : W16) : toVec (Impl.Salsa.rounds R w) = Spec.Salsa.rounds R (toVec w) := loop_eq (R / 2) w

theorem add_back_eq (a b : W16) : toVec (Impl.Salsa.add_back a b) = Spec.Salsa.addState (toVec a) (toVec b) := by
  cases a; cases b; rfl
theorem output_bytes_eq (w : W16) : Impl.Salsa.output_bytes w = Spec.Salsa.serialize (toVec w) := by cases w; rfl

/-- rounds + add_back + output_bytes = the Salsa20 hash function of that state -/
theorem block_eq (R : Nat) (w : W16) : Impl.Salsa.block R w = Spec.Salsa.hash R (toVec w) := by
  simp only [Impl.Salsa.block, output_bytes_eq, add_back_eq, rounds_eq, Spec.Salsa.hash]

theorem output_ad_bytes_eq (z : W16) :
    Impl.Salsa.output_ad_bytes z =
      [(toVec z)[0], (toVec z)[5], (toVec z)[10], (toVec z)[15], (toVec z)[6], (toVec z)[7], (toVec z)[8],
        (toVec z)[9]].flatMap u32le := by
  cases z; rfl

theorem serialize_length (s : Spec.Salsa.State) : (Spec.Salsa.serialize s).length = 64 := by
  unfold Spec.Salsa.serialize
  rw [length_flatMap_const u32le 4 u32le_length]; simp
theorem block_length (R : Nat) (key nonce : Bytes) (c : UInt64) : (Spec.Salsa.block R key nonce c).length = 64 :=
  serialize_length _
theorem hsalsa_length (R : Nat) (key nonce : Bytes) : (Spec.Salsa.hsalsa R key nonce).length = 32 := by
  unfold Spec.Salsa.hsalsa
  rw [length_flatMap_const u32le 4 u32le_length]; rfl

/-! ### constants and layout -/

theorem cst16 : Cx.Extracted.Stream.SALSA_CST16 = Spec.Salsa.tau := by decide
theorem cst32 : Cx.Extracted.Stream.SALSA_CST32 = Spec.Salsa.sigma := by decide

theorem dup_lo (key : Bytes) (hk : key.length = 16) (i : Nat) (h : i + 4 ≤ 16) :
    read_u32_le (key ++ key) i = read_u32_le key i := read_append_left key key i (by omega)
theorem dup_hi (key : Bytes) (hk : key.length = 16) (i : Nat) :
    read_u32_le (key ++ key) (16 + i) = read_u32_le key i := by rw [← hk, read_append_right]

theorem expand_32 (key : Bytes) (hk : key.length = 32) (a b c d : UInt32) :
    Spec.Salsa.expand key a b c d =
      #v[read_u32_le Spec.Salsa.sigma 0, read_u32_le key 0, read_u32_le key 4, read_u32_le key 8,
         read_u32_le key 12, read_u32_le Spec.Salsa.sigma 4, a, b,
         c, d, read_u32_le Spec.Salsa.sigma 8, read_u32_le key 16,
         read_u32_le key 20, read_u32_le key 24, read_u32_le key 28, read_u32_le Spec.Salsa.sigma 12] := by
  simp only [Spec.Salsa.expand, Spec.Salsa.constants, Spec.Salsa.keyBytes, hk, if_true]
  simp only [word_eq_read]

theorem expand_16 (key : Bytes) (hk : key.length = 16) (a b c d : UInt32) :
    Spec.Salsa.expand key a b c d =
      #v[read_u32_le Spec.Salsa.tau 0, read_u32_le key 0, read_u32_le key 4, read_u32_le key 8,
         read_u32_le key 12, read_u32_le Spec.Salsa.tau 4, a, b,
         c, d, read_u32_le Spec.Salsa.tau 8, read_u32_le key 0,
         read_u32_le key 4, read_u32_le key 8, read_u32_le key 12, read_u32_le Spec.Salsa.tau 12] := by
  simp only [Spec.Salsa.expand, Spec.Salsa.constants, Spec.Salsa.keyBytes, hk,
    show ¬ ((16 : Nat) = 32) by decide, if_false]
  have h0 := dup_hi key hk 0
  have h4 := dup_hi key hk 4
  have h8 := dup_hi key hk 8
  have h12 := dup_hi key hk 12
  simp only [Nat.reduceAdd] at h0 h4 h8 h12
  simp only [word_eq_read, Nat.reduceMul, h0, h4, h8, h12,
    dup_lo key hk 0 (by omega), dup_lo key hk 4 (by omega), dup_lo key hk 8 (by omega), dup_lo key hk 12 (by omega)]

/-- the 16 input bytes `n` of the expansion by nonce length: nonce ‖ counter 0, or the HSalsa input -/
def layoutState (key nonce : Bytes) : Spec.Salsa.State :=
  if nonce.length = 16 then Spec.Salsa.expand key (word nonce 0) (word nonce 1) (word nonce 2) (word nonce 3)
  else Spec.Salsa.expand key (word nonce 0) (word nonce 1) 0 0

def validNonce (nonce : Bytes) : Prop := nonce.length = 8 ∨ nonce.length = 16

theorem tail32 (key : Bytes) (hk : key.length = 32) (i : Nat) (h : i + 4 ≤ 16) :
    read_u32_le ((key.drop 16).take 16) i = read_u32_le key (16 + i) := by
  rw [read_take _ _ _ h, read_drop]

/-- **`State::init` = the expansion function** for every (key length, nonce length) -/
theorem init_layout (key nonce : Bytes) (hk : Spec.ChaCha.validKey key) (hn : validNonce nonce) :
    (Impl.Salsa.init key nonce).map toVec = .ok (layoutState key nonce) := by
  rcases hk with hk | hk
  · rcases hn with hn | hn
    · simp only [layoutState, hn, show ¬ ((8 : Nat) = 16) by decide, if_false, expand_16 key hk, word_eq_read nonce]
      simp [Impl.Salsa.init, hk, hn, Except.map, toVec, cst16]
    · simp only [layoutState, hn, if_true, expand_16 key hk, word_eq_read nonce]
      simp [Impl.Salsa.init, hk, hn, Except.map, toVec, cst16]
  · have t0 := tail32 key hk 0 (by omega)
    have t4 := tail32 key hk 4 (by omega)
    have t8 := tail32 key hk 8 (by omega)
    have t12 := tail32 key hk 12 (by omega)
    simp only [Nat.reduceAdd] at t0 t4 t8 t12
    rcases hn with hn | hn
    · simp only [layoutState, hn, show ¬ ((8 : Nat) = 16) by decide, if_false, expand_32 key hk, word_eq_read nonce]
      simp [Impl.Salsa.init, hk, hn, Except.map, toVec, cst32, t0, t4, t8, t12]
    · simp only [layoutState, hn, if_true, expand_32 key hk, word_eq_read nonce]
      simp [Impl.Salsa.init, hk, hn, Except.map, toVec, cst32, t0, t4, t8, t12]

/-! ### counter and the `Refines` instances -/

theorem inc_set64 (w : W16) (c : UInt64) :
    Impl.Salsa.increment (Impl.Salsa.verif_set_counter64 w c) = Impl.Salsa.verif_set_counter64 w (c + 1) := by
  simp only [Impl.Salsa.increment, Impl.Salsa.verif_set_counter64, lo_succ, hi_succ]
  by_cases h : c.toUInt32 + 1 = 0
  · simp [h]
  · simp [h]

theorem set64_set64 (w : W16) (c c' : UInt64) :
    Impl.Salsa.verif_set_counter64 (Impl.Salsa.verif_set_counter64 w c) c' = Impl.Salsa.verif_set_counter64 w c' := rfl

theorem toVec_set64 (w : W16) (c : UInt64) :
    toVec (Impl.Salsa.verif_set_counter64 w c) = ((toVec w).set 8 c.toUInt32).set 9 (c >>> 32).toUInt32 := by
  cases w; rfl

theorem set64_self (w : W16) (h : w.x8 = 0) (h' : w.x9 = 0) : Impl.Salsa.verif_set_counter64 w 0 = w := by
  cases w; simp only at h h'; subst h; subst h'; rfl
theorem toVec_x8 (w : W16) : (toVec w)[8] = w.x8 := by cases w; rfl
theorem toVec_x9 (w : W16) : (toVec w)[9] = w.x9 := by cases w; rfl

/-- engine state of block `n` (reduced mod 2^64) -/
def mkS (s0 : W16) (n : Nat) : W16 := Impl.Salsa.verif_set_counter64 s0 (UInt64.ofNat n)

theorem layout8 (key nonce : Bytes) (hn : nonce.length = 8) :
    layoutState key nonce = Spec.Salsa.expand key (word nonce 0) (word nonce 1) 0 0 := by
  simp only [layoutState, hn, show ¬ ((8 : Nat) = 16) by decide, if_false]

theorem salsa_block_eq (R : Nat) (key nonce : Bytes) (hn : nonce.length = 8) (s0 : W16)
    (h0 : toVec s0 = layoutState key nonce) (n : Nat) :
    Impl.Salsa.block R (mkS s0 n) = Spec.Salsa.blockAt R key nonce n := by
  unfold Spec.Salsa.blockAt Spec.Salsa.block
  rw [block_eq, mkS, toVec_set64, h0, layout8 key nonce hn]
  rfl

theorem salsa_refines (R : Nat) (key nonce : Bytes) (hn : nonce.length = 8) (s0 : W16)
    (h0 : toVec s0 = layoutState key nonce) :
    MethodsRefine (Impl.Salsa.methods R) (mkS s0) (Spec.Salsa.blockAt R key nonce) where
  gen := {
    block_eq := salsa_block_eq R key nonce hn s0 h0
    len := fun n => by unfold Spec.Salsa.blockAt; exact block_length _ _ _ _
    inc := fun n => by
      show Impl.Salsa.increment (mkS s0 n) = mkS s0 (n + 1)
      simp only [mkS, inc_set64, UInt64.ofNat_add]; rfl }
  seek := fun f hf => by simp [Impl.Salsa.methods] at hf
  set64 := fun f hf n t => by
    have : f = Impl.Salsa.verif_set_counter64 := by simpa [Impl.Salsa.methods] using hf.symm
    subst this
    simp only [mkS, set64_set64, UInt64.ofNat_toNat]

theorem mkS_zero (key nonce : Bytes) (hn : nonce.length = 8) (s0 : W16) (h0 : toVec s0 = layoutState key nonce) :
    s0 = mkS s0 0 := by
  have h8 : s0.x8 = 0 := by rw [← toVec_x8, h0, layout8 key nonce hn]; rfl
  have h9 : s0.x9 = 0 := by rw [← toVec_x9, h0, layout8 key nonce hn]; rfl
  exact (set64_self s0 h8 h9).symm

theorem roundsOk_of_valid (R : Nat) (h : Spec.ChaCha.validRounds R) : Impl.Salsa.roundsOk R = true := by
  rcases h with h | h | h <;> subst h <;> rfl

/-- `Salsa::<R>::new` succeeds on valid arguments; the fresh context stands at position 0 -/
theorem salsa_new (R : Nat) (key nonce : Bytes) (hk : Spec.ChaCha.validKey key) (hn : nonce.length = 8)
    (hR : Spec.ChaCha.validRounds R) :
    ∃ s0, Impl.Salsa.Salsa.new R key nonce = .ok (Impl.StreamCtx.mk s0) ∧ toVec s0 = layoutState key nonce ∧
      Abs (mkS s0) (Spec.Salsa.blockAt R key nonce) (Impl.StreamCtx.mk s0) 0 := by
  obtain ⟨s0, hi, hv⟩ := map_ok (init_layout key nonce hk (Or.inl hn))
  refine ⟨s0, ?_, hv, ?_⟩
  · have hk' : key.length = 16 ∨ key.length = 32 := hk
    simp [Impl.Salsa.Salsa.new, hn, hk', roundsOk_of_valid R hR, hi]
  · left; exact ⟨rfl, rfl, mkS_zero key nonce hn s0 hv⟩

/-! ### XSalsa -/

theorem blockAtX_length (R : Nat) (key nonce : Bytes) (n : Nat) : (Spec.Salsa.blockAtX R key nonce n).length = 64 := by
  unfold Spec.Salsa.blockAtX Spec.Salsa.xsalsaBlock; exact block_length _ _ _ _

theorem xsalsa_refines (R : Nat) (key nonce : Bytes) (hn : nonce.length = 24) (s0 : W16)
    (h0 : toVec s0 = layoutState (Spec.Salsa.hsalsa R key (nonce.take 16)) (nonce.drop 16)) :
    MethodsRefine (Impl.Salsa.methods R) (mkS s0) (Spec.Salsa.blockAtX R key nonce) := by
  have h8 : (nonce.drop 16).length = 8 := by simp [hn]
  have := salsa_refines R (Spec.Salsa.hsalsa R key (nonce.take 16)) (nonce.drop 16) h8 s0 h0
  exact this

/-- `XSalsa::<R>::new`: HSalsa subkey (words 0,5,10,15,6,7,8,9, no feed-forward), then Salsa with nonce[16..24] -/
theorem xsalsa_new (R : Nat) (key nonce : Bytes) (hk : key.length = 32) (hn : nonce.length = 24)
    (hR : Spec.ChaCha.validRounds R) :
    ∃ s0, Impl.Salsa.XSalsa.new R key nonce = .ok (Impl.StreamCtx.mk s0) ∧
      toVec s0 = layoutState (Spec.Salsa.hsalsa R key (nonce.take 16)) (nonce.drop 16) ∧
      Abs (mkS s0) (Spec.Salsa.blockAtX R key nonce) (Impl.StreamCtx.mk s0) 0 := by
  have h16 : (nonce.take 16).length = 16 := by simp [hn]
  have h8 : (nonce.drop 16).length = 8 := by simp [hn]
  obtain ⟨h, hi, hv⟩ := map_ok (init_layout key (nonce.take 16) (Or.inr hk) (Or.inr h16))
  have hsub : Impl.Salsa.output_ad_bytes (Impl.Salsa.rounds R h) = Spec.Salsa.hsalsa R key (nonce.take 16) := by
    rw [output_ad_bytes_eq, rounds_eq, hv]
    simp only [Spec.Salsa.hsalsa, layoutState, h16, if_true]
  have hsubk : Spec.ChaCha.validKey (Spec.Salsa.hsalsa R key (nonce.take 16)) := Or.inr (hsalsa_length _ _ _)
  obtain ⟨s0, hi2, hv2⟩ := map_ok (init_layout _ (nonce.drop 16) hsubk (Or.inl h8))
  have htake : (nonce.drop 16).take 8 = nonce.drop 16 := List.take_of_length_le (by omega)
  refine ⟨s0, ?_, hv2, ?_⟩
  · simp [Impl.Salsa.XSalsa.new, hn, hk, roundsOk_of_valid R hR, hi, hsub, htake, hi2]
  · left; exact ⟨rfl, rfl, mkS_zero _ _ h8 s0 hv2⟩

end Cx.Proofs.Salsa
