/-
  Proofs.GeRecode — the signed radix-16 recoding inside `Ge::scalarmult_base` (Impl.Ge.recode):
  for 64 nibbles in [0,15] with the top nibble ≤ 7 (i.e. a < 2^255) the carry loop never overflows `i8`, returns
  64 digits in [−8, 8] and preserves the value Σ e_i·16^i.  (Linear arithmetic; `omega`.)
-/
import CxVerif.Impl.Ge
import CxVerif.Spec.ScalarL
import Mathlib.Tactic.Ring
import Mathlib.Tactic.Linarith
namespace Cx.Proofs.GeRecode
open Cx Cx.Impl.Ge
open Cx.Impl.Scalar64 (ckI8 shlI8)
open Cx.Spec.ScalarL (evalDigits)

theorem ckI8_some {v : Int} (h : -128 ≤ v ∧ v ≤ 127) : ckI8 v = some v := by
  unfold ckI8; rw [if_pos h]

theorem shlI8_4 {c : Int} (h : c = 0 ∨ c = 1) : shlI8 c 4 = 16 * c := by
  unfold shlI8; rcases h with h | h <;> subst h <;> decide

theorem recodeLoop_spec : ∀ (es : List Int) (c : Int), (∀ e ∈ es, 0 ≤ e ∧ e ≤ 15) → (c = 0 ∨ c = 1) →
    ∃ r c', recodeLoop es c = some (r, c') ∧ r.length = es.length ∧ (c' = 0 ∨ c' = 1) ∧
      (∀ e ∈ r, -8 ≤ e ∧ e ≤ 7) ∧
      evalDigits 16 r + 16 ^ es.length * c' = evalDigits 16 es + c := by
  intro es
  induction es with
  | nil => intro c _ hc; exact ⟨[], c, rfl, rfl, hc, by simp, by simp [evalDigits]⟩
  | cons e es ih =>
    intro c hes hc
    have he := hes e (by simp)
    have hc2 : (e + c + 8) / 16 = 0 ∨ (e + c + 8) / 16 = 1 := by omega
    obtain ⟨r, c', hr, hlen, hc', hrange, hval⟩ := ih ((e + c + 8) / 16) (fun x hx => hes x (by simp [hx])) hc2
    refine ⟨(e + c - 16 * ((e + c + 8) / 16)) :: r, c', ?_, by simp [hlen], hc', ?_, ?_⟩
    · simp only [recodeLoop]
      rw [ckI8_some (by omega)]
      simp only [Option.bind_eq_bind, Option.bind_some]
      rw [ckI8_some (by omega)]
      simp only [Option.bind_some]
      rw [shlI8_4 hc2, ckI8_some (by omega)]
      simp only [Option.bind_some, hr]
      rfl
    · intro x hx
      rcases List.mem_cons.1 hx with h | h
      · subst h; omega
      · exact hrange x h
    · simp only [evalDigits, List.length_cons, pow_succ]
      have : (16 : Int) ^ es.length * 16 * c' = 16 * (16 ^ es.length * c') := by ring
      rw [this]
      have hv : (16:Int) ^ es.length * c' = evalDigits 16 es + (e + c + 8) / 16 - evalDigits 16 r := by omega
      rw [hv]
      push_cast
      ring

/-- the recoding theorem: 64 nibbles, top nibble ≤ 7 -/
theorem recode_spec (es : List Int) (hlen : es.length = 64) (hes : ∀ e ∈ es, 0 ≤ e ∧ e ≤ 15)
    (htop : ∀ t, es[63]? = some t → t ≤ 7) :
    ∃ r, recode es = some r ∧ r.length = 64 ∧ (∀ e ∈ r, -8 ≤ e ∧ e ≤ 8) ∧ evalDigits 16 r = evalDigits 16 es := by
  obtain ⟨t, ht⟩ : ∃ t, es[63]? = some t := ⟨es[63], by rw [List.getElem?_eq_getElem]⟩
  have ht7 := htop t ht
  have htr : 0 ≤ t ∧ t ≤ 15 := hes t (List.mem_of_getElem? ht)
  have hsplit : es = es.take 63 ++ [t] := by
    have h1 : es = es.take 63 ++ es.drop 63 := (List.take_append_drop 63 es).symm
    have h2 : es.drop 63 = [t] := by
      apply List.ext_getElem?
      intro i
      rw [List.getElem?_drop]
      cases i with
      | zero => simpa using ht
      | succ i => simp; omega
    rw [h2] at h1; exact h1
  obtain ⟨lo, c, hlo, hlolen, hc, hrange, hval⟩ :=
    recodeLoop_spec (es.take 63) 0 (fun x hx => hes x (List.mem_of_mem_take hx)) (Or.inl rfl)
  have hl63 : (es.take 63).length = 63 := by simp [hlen]
  refine ⟨lo ++ [t + c], ?_, by simp [hlolen, hl63], ?_, ?_⟩
  · unfold recode
    rw [hlo]
    simp only [Option.bind_eq_bind, Option.bind_some, ht]
    rw [ckI8_some (by omega)]
    rfl
  · intro x hx
    rcases List.mem_append.1 hx with h | h
    · have := hrange x h; omega
    · simp at h; subst h; omega
  · have evalApp : ∀ (a b : List Int), evalDigits 16 (a ++ b) = evalDigits 16 a + 16 ^ a.length * evalDigits 16 b := by
      intro a b
      induction a with
      | nil => simp [evalDigits]
      | cons x xs ih => simp only [List.cons_append, evalDigits, ih, List.length_cons, pow_succ]; push_cast; ring
    rw [evalApp]
    conv_rhs => rw [hsplit, evalApp]
    simp only [evalDigits, hlolen]
    rw [hl63] at hval ⊢
    push_cast at hval ⊢
    linarith

end Cx.Proofs.GeRecode
