/-
  Proofs.Ge32Bytes — `Ge::to_bytes` / `GePartial::to_bytes` of the 32-bit backend return the RFC 8032 §5.1.2 encoding of
  the represented point (one inversion, canonical y, sign bit of x in bit 255).  Counterpart of Proofs/GeBytes.lean
  (whose byte-level lemma `setSign_natToLE` is reused: `setSign` is backend independent).  Weights: x, y, z of weight 1
  → `invert` (≤ 3) → products of weight 1 → `to_bytes` / `is_negative` (≤ 6).
-/
import CxVerif.Proofs.Ge32Refine
import CxVerif.Proofs.Fe32Bytes
import CxVerif.Proofs.GeBytes
namespace Cx.Proofs.Ge32Bytes
open Cx Cx.Spec Cx.Impl.Fe32 Cx.Impl.Ge32 Cx.Proofs.EdField Cx.Proofs.EdSpec Cx.Proofs.Ge32Refine
open Cx.Proofs.Fe32 (eval W some_bind pure_eq_some)
open Cx.Spec.Field25519 (p)
open Cx.Impl.Ge (setSign)
open Cx.Proofs.GeBytes (setSign_natToLE)

set_option maxRecDepth 10000

section prime
variable [hp : Fact (Nat.Prime p)]

/-- the shared core of `Ge::to_bytes` (through `to_affine`) and `GePartial::to_bytes` -/
theorem affine_core (x y z : Fe) (P : Edwards.Point) (tx : W 1 x) (ty : W 1 y) (tz : W 1 z)
    (rep : EdAlg.RepProj (ev x) (ev y) (ev z) (P.x : Fp) (P.y : Fp)) (hx : P.x < p) (hy : P.y < p) :
    ∃ recip x' y', invert z = some recip ∧ mul x recip = some x' ∧ mul y recip = some y' ∧
      W 1 x' ∧ W 1 y' ∧ eval x' = P.x ∧ eval y' = P.y := by
  obtain ⟨hz, hX, hY⟩ := rep
  obtain ⟨recip, e1, tr, vr⟩ := invert_ok z tz.w3
  obtain ⟨x', e2, tx', vx⟩ := mul_ok x recip tx.w3 tr.w3
  obtain ⟨y', e3, ty', vy⟩ := mul_ok y recip ty.w3 tr.w3
  refine ⟨recip, x', y', e1, e2, e3, tx', ty', ?_, ?_⟩
  · rw [← cast_inj (Proofs.Fe32.eval_lt x') hx]
    show ev x' = _
    rw [vx, vr, hX]; field_simp
  · rw [← cast_inj (Proofs.Fe32.eval_lt y') hy]
    show ev y' = _
    rw [vy, vr, hY]; field_simp

omit hp in
theorem encode_tail (x' y' : Fe) (P : Edwards.Point) (tx' : W 1 x') (ty' : W 1 y')
    (vx : eval x' = P.x) (vy : eval y' = P.y) :
    (do let bs ← Impl.Fe32.to_bytes y'; let n ← is_negative x'; pure (setSign bs n)) = some (Edwards.encode P) := by
  rw [Proofs.Fe32.to_bytes_spec y' ty'.w6, some_bind, Proofs.Fe32.is_negative_spec x' tx'.w6, some_bind,
    pure_eq_some, vx, vy]
  unfold Field25519.encode Field25519.isNegative Edwards.encode
  rw [setSign_natToLE _ (Nat.lt_of_lt_of_le (Nat.mod_lt _ p_pos) (by decide)), edp]
  congr 3
  rcases Nat.mod_two_eq_zero_or_one (P.x % p) with h | h <;> simp [h]

/-- `Ge::to_bytes` is the §5.1.2 encoding of the represented point -/
theorem ge_to_bytes_ok (g : Ge) (P : Edwards.Point) (hg : GeOk g P) (hx : P.x < p) (hy : P.y < p) :
    g.to_bytes = some (Edwards.encode P) := by
  obtain ⟨recip, x', y', e1, e2, e3, tx', ty', vx, vy⟩ :=
    affine_core g.x g.y g.z P hg.tx hg.ty hg.tz hg.rep.toProj hx hy
  simp only [Ge.to_bytes, Ge.to_affine]
  rw [e1, some_bind, e2, some_bind, e3, some_bind, pure_eq_some, some_bind]
  exact encode_tail x' y' P tx' ty' vx vy

/-- `GePartial::to_bytes` likewise -/
theorem partial_to_bytes_ok (g : GePartial) (P : Edwards.Point) (hg : PartialOk g P) (hx : P.x < p) (hy : P.y < p) :
    g.to_bytes = some (Edwards.encode P) := by
  obtain ⟨recip, x', y', e1, e2, e3, tx', ty', vx, vy⟩ :=
    affine_core g.x g.y g.z P hg.tx hg.ty hg.tz hg.rep hx hy
  simp only [GePartial.to_bytes]
  rw [e1, some_bind, e2, some_bind, e3, some_bind]
  exact encode_tail x' y' P tx' ty' vx vy

end prime

end Cx.Proofs.Ge32Bytes
