/-
  Proofs.Aead — the refinement behind C06/C07: every method of the incremental `Context` of
  src/chacha20poly1305.rs (model Impl.Aead) keeps the invariant

      "the Poly1305 object has absorbed exactly the bytes  aad            (phase aad)
                                                    resp.  aad ‖ pad16(aad) ‖ ct   (phase enc / dec),
       the ChaCha context stands at absolute keystream position 64 + |ct|,
       aad_len = |aad|, data_len = |ct|"

  and `finalize_raw` then returns Poly1305(otk, macData aad ct) with otk = block 0 [0,32).

  The two lower layers enter as EXPLICIT HYPOTHESES (they are proved by the units `stream` and `poly1305`):

    `CipherDeps E R key nonce At` — the position refinement of the IETF `ChaCha<R>` context (C04):
        new_at          `ChaCha::new` succeeds and stands at position 0
        process_mut_at  from position p, `process_mut data` returns data ⊕ KS[p, p+|data|) and stands at p+|data|
        block_len       every specified block has 64 bytes
      discharged by  At := Cx.Proofs.Stream.Abs mk (Spec.ChaCha.blockAt R key nonce)  with
      Cx.Proofs.Stream.process_mut_refines, Cx.Proofs.Stream.mk_abs (n = 0), Cx.Proofs.Stream.block_length
      (for validKey key, nonce.length = 12, validRounds R; engines: referenceSim / sse2Sim).
      DONE: `Cx.Proofs.Aead.cipherDeps` / `with_cipher` in Proofs/AeadDeps.lean.
    `MacDeps` — Poly1305 = RFC 8439 §2.5 for every chunking, without panic (C05):
        mac_eq          new; one `input` per chunk; raw_result  =  Spec.Poly1305.mac key (concatenation)
      discharged by the poly1305 unit's C05 theorem `Cx.Proofs.Poly1305.mac_eq`.
      DONE: `Cx.Proofs.Aead.macDeps` in Proofs/AeadDeps.lean.
-/
import CxVerif.Impl.Aead
import CxVerif.Proofs.AeadBytes
namespace Cx.Proofs.Aead
open Cx Cx.Impl Cx.Impl.StreamCtx Cx.Impl.Aead
set_option linter.unusedSimpArgs false
set_option linter.unusedVariables false

variable {σ : Type}

/-! ## the hypotheses on the lower layers -/

/-- position refinement of `ChaCha<R>` for one (key, nonce): `At c p` = context `c` stands at absolute
    keystream byte position `p` -/
structure CipherDeps (E : ChaCha.Engine σ) (R : Nat) (key nonce : Bytes) (At : Ctx σ → Nat → Prop) : Prop where
  new_at : ∃ c, ChaCha.ChaCha.new E R key nonce = .ok c ∧ At c 0
  process_mut_at : ∀ (c : Ctx σ) (p : Nat) (data : Bytes), At c p →
    ∃ c', ChaCha.ChaCha.process_mut E R c data = .ok (c', Spec.ChaCha.encrypt R key nonce p data) ∧ At c' (p + data.length)
  block_len : ∀ n, (Spec.ChaCha.blockAt R key nonce n).length = 64

/-- Poly1305 model = RFC for every chunking (the variant of `finish` that /repo has) -/
structure MacDeps : Prop where
  mac_eq : ∀ (key : Bytes) (chunks : List Bytes), key.length = 32 →
    Poly1305.mac Poly1305.codeVariant key chunks = .ok (Spec.Poly1305.mac key chunks.flatten)

/-! ## Poly1305 object: "has absorbed exactly `m`" -/

theorem inputs_append (st : Poly1305.State) (a b : List Bytes) :
    Poly1305.inputs st (a ++ b) =
      match Poly1305.inputs st a with
      | .error e => .error e
      | .ok st' => Poly1305.inputs st' b := by
  induction a generalizing st with
  | nil => simp [Poly1305.inputs]
  | cons x xs ih =>
    simp only [List.cons_append, Poly1305.inputs]
    cases h : Poly1305.input st x with
    | error e => simp
    | ok st1 => simp [ih]

/-- the object `st` was created with key `otk` and has been fed byte strings whose concatenation is `m` -/
def MacAbs (otk : Bytes) (st : Poly1305.State) (m : Bytes) : Prop :=
  ∃ ms : List Bytes, Poly1305.inputs (Poly1305.new otk) ms = .ok st ∧ ms.flatten = m

theorem macAbs_new (otk : Bytes) : MacAbs otk (Poly1305.new otk) [] := ⟨[], rfl, rfl⟩

theorem macAbs_input (M : MacDeps) (otk : Bytes) (hk : otk.length = 32) (st : Poly1305.State) (m d : Bytes)
    (h : MacAbs otk st m) : ∃ st', Poly1305.input st d = .ok st' ∧ MacAbs otk st' (m ++ d) := by
  obtain ⟨ms, hms, hm⟩ := h
  have hmac := M.mac_eq otk (ms ++ [d]) hk
  have happ := inputs_append (Poly1305.new otk) ms [d]
  rw [hms] at happ
  simp only [Poly1305.inputs] at happ
  cases hin : Poly1305.input st d with
  | error e =>
    rw [hin] at happ
    simp only [Poly1305.mac, happ] at hmac
    cases hmac
  | ok st' =>
    rw [hin] at happ
    exact ⟨st', rfl, ms ++ [d], happ, by simp [hm]⟩

theorem macAbs_result (M : MacDeps) (otk : Bytes) (hk : otk.length = 32) (st : Poly1305.State) (m : Bytes)
    (h : MacAbs otk st m) :
    ∃ st', Poly1305.raw_result Poly1305.codeVariant st 16 = .ok (st', Spec.Poly1305.mac otk m) := by
  obtain ⟨ms, hms, hm⟩ := h
  have hmac := M.mac_eq otk ms hk
  simp only [Poly1305.mac, hms] at hmac
  cases hr : Poly1305.raw_result Poly1305.codeVariant st 16 with
  | error e => rw [hr] at hmac; cases hmac
  | ok r =>
    obtain ⟨st', t⟩ := r
    rw [hr] at hmac
    simp only [Except.ok.injEq] at hmac
    exact ⟨st', by rw [hmac, hm]⟩

/-- `pad16(mac, |x|)` feeds exactly the RFC's `pad16(x)` -/
theorem pad16_abs (M : MacDeps) (otk : Bytes) (hk : otk.length = 32) (st : Poly1305.State) (m x : Bytes)
    (h : MacAbs otk st m) :
    ∃ st', Impl.Aead.pad16 st x.length = .ok st' ∧ MacAbs otk st' (m ++ Spec.Aead.pad16 x) := by
  unfold Impl.Aead.pad16
  by_cases hz : x.length % 16 = 0
  · refine ⟨st, by simp [hz], ?_⟩
    have : Spec.Aead.pad16 x = [] := by simp [Spec.Aead.pad16, hz, zeros]
    rw [this, List.append_nil]; exact h
  · have hpad : (zeros 15).take (16 - x.length % 16) = Spec.Aead.pad16 x := by
      simp only [Spec.Aead.pad16, zeros, List.take_replicate]
      congr 1; omega
    obtain ⟨st', hin, habs⟩ := macAbs_input M otk hk st m ((zeros 15).take (16 - x.length % 16)) h
    refine ⟨st', by simp [hz, hin, liftP], ?_⟩
    rw [← hpad]; exact habs

/-! ## the context invariant -/

/-- the one-time key: RFC 8439 §2.6 -/
abbrev otk (R : Nat) (key nonce : Bytes) : Bytes := Spec.Aead.polyKeyGen R key nonce

/-- `c` has authenticated `m`, its counters are `aadLen`/`dataLen`, its cipher stands at 64 + dataLen -/
structure CtxInv (R : Nat) (key nonce : Bytes) (At : Ctx σ → Nat → Prop) (c : Context σ) (m : Bytes)
    (aadLen dataLen : Nat) : Prop where
  mac : MacAbs (otk R key nonce) c.mac m
  cipher : At c.cipher (64 + dataLen)
  aad_len : c.aad_len = aadLen
  data_len : c.data_len = dataLen

section ctx
variable {E : ChaCha.Engine σ} {R : Nat} {key nonce : Bytes} {At : Ctx σ → Nat → Prop}

theorem otk_length (D : CipherDeps E R key nonce At) : (otk R key nonce).length = 32 := by
  have := D.block_len 0
  simp only [Spec.ChaCha.blockAt] at this
  have e : UInt32.ofNat 0 = 0 := rfl
  rw [e] at this
  simp [otk, Spec.Aead.polyKeyGen, this]

theorem process_at (D : CipherDeps E R key nonce At) (c : Ctx σ) (p : Nat) (data : Bytes) (h : At c p) :
    ∃ c', ChaCha.ChaCha.process E R c data data.length = .ok (c', Spec.ChaCha.encrypt R key nonce p data)
      ∧ At c' (p + data.length) := by
  obtain ⟨c', h1, h2⟩ := D.process_mut_at c p data h
  refine ⟨c', ?_, h2⟩
  simp only [ChaCha.ChaCha.process, StreamCtx.process, if_true]
  exact h1

/-- **`Context::new`**: succeeds; the Poly1305 object is keyed with the first 32 bytes of keystream block 0 and has
    absorbed nothing; the cipher stands at the start of block 1 (position 64) -/
theorem new_inv (D : CipherDeps E R key nonce At) :
    ∃ c, Context.new E R key nonce = .ok c ∧ c.mac = Poly1305.new (otk R key nonce) ∧ CtxInv R key nonce At c [] 0 0 := by
  obtain ⟨c0, hnew, hat⟩ := D.new_at
  have hn : nonce.length = 12 := by
    by_cases hn : nonce.length = 12
    · exact hn
    · simp [ChaCha.ChaCha.new, hn] at hnew
  have hkey : key.length = 16 ∨ key.length = 32 := by
    by_cases hk : key.length = 16 ∨ key.length = 32
    · exact hk
    · simp only [ChaCha.ChaCha.new, hn] at hnew
      simp [hk] at hnew
  obtain ⟨c1, hproc, hat1⟩ := process_at D c0 0 (zeros 64) hat
  have hz : (zeros 64).length = 64 := by simp [zeros]
  rw [hz] at hproc hat1
  have hblock : Spec.ChaCha.encrypt R key nonce 0 (zeros 64) = Spec.ChaCha.block R key nonce 0 := by
    have := encrypt_zeros_block0 (Spec.ChaCha.blockAt R key nonce) (D.block_len 0)
    simpa [Spec.ChaCha.encrypt, Spec.ChaCha.blockAt] using this
  refine ⟨{ cipher := c1, mac := Poly1305.new (otk R key nonce), aad_len := 0, data_len := 0 }, ?_, rfl, ?_⟩
  · unfold Context.new
    simp only [hn, hkey, hnew, hproc, hblock]
    simp [otk, Spec.Aead.polyKeyGen]
  · exact ⟨macAbs_new _, by simpa using hat1, rfl, rfl⟩

theorem add_data_inv (D : CipherDeps E R key nonce At) (M : MacDeps) (c : Context σ) (m d : Bytes) (aadLen dataLen : Nat)
    (h : CtxInv R key nonce At c m aadLen dataLen) (hb : aadLen + d.length < 2 ^ 64) :
    ∃ c', Context.add_data c d = .ok c' ∧ CtxInv R key nonce At c' (m ++ d) (aadLen + d.length) dataLen := by
  obtain ⟨st', hin, habs⟩ := macAbs_input M _ (otk_length D) c.mac m d h.mac
  refine ⟨{ c with mac := st', aad_len := aadLen + d.length }, ?_, ⟨habs, h.cipher, rfl, h.data_len⟩⟩
  simp [Context.add_data, addU64, h.aad_len, hb, hin, liftP]

theorem add_encrypted_inv (D : CipherDeps E R key nonce At) (M : MacDeps) (c : Context σ) (m d : Bytes)
    (aadLen dataLen : Nat) (hmac : MacAbs (otk R key nonce) c.mac m) (hdl : c.data_len = dataLen)
    (hb : dataLen + d.length < 2 ^ 64) :
    ∃ st', Context.add_encrypted c d = .ok { c with mac := st', data_len := dataLen + d.length }
      ∧ MacAbs (otk R key nonce) st' (m ++ d) := by
  obtain ⟨st', hin, habs⟩ := macAbs_input M _ (otk_length D) c.mac m d hmac
  exact ⟨st', by simp [Context.add_encrypted, addU64, hdl, hb, hin, liftP], habs⟩

/-- `to_encryption` / `to_decryption`: the AAD is padded to a multiple of 16 -/
theorem to_encryption_inv (D : CipherDeps E R key nonce At) (M : MacDeps) (c : Context σ) (aad : Bytes)
    (h : CtxInv R key nonce At c aad aad.length 0) :
    ∃ c', Context.to_encryption c = .ok c' ∧
      CtxInv R key nonce At c' (aad ++ Spec.Aead.pad16 aad ++ []) aad.length ([] : Bytes).length := by
  obtain ⟨st', hp, habs⟩ := pad16_abs M _ (otk_length D) c.mac aad aad h.mac
  refine ⟨{ c with mac := st' }, ?_, ⟨by simpa using habs, h.cipher, h.aad_len, h.data_len⟩⟩
  simp [Context.to_encryption, h.aad_len, hp]

theorem to_decryption_eq (c : Context σ) : Context.to_decryption c = Context.to_encryption c := rfl

/-- `encrypt_mut`: the bytes written are data ⊕ KS[64+|ct|, …), and exactly they are authenticated -/
theorem encrypt_mut_inv (D : CipherDeps E R key nonce At) (M : MacDeps) (c : Context σ) (aad ct d : Bytes)
    (h : CtxInv R key nonce At c (aad ++ Spec.Aead.pad16 aad ++ ct) aad.length ct.length)
    (hb : ct.length + d.length < 2 ^ 64) :
    let out := Spec.ChaCha.encrypt R key nonce (64 + ct.length) d
    ∃ c', ContextEncryption.encrypt_mut E R c d = .ok (c', out) ∧
      CtxInv R key nonce At c' (aad ++ Spec.Aead.pad16 aad ++ (ct ++ out)) aad.length (ct ++ out).length := by
  intro out
  obtain ⟨c1, hproc, hat⟩ := D.process_mut_at c.cipher _ d h.cipher
  have hlen : out.length = d.length := encrypt_length _ _ _
  obtain ⟨st', hadd, habs⟩ := add_encrypted_inv D M { c with cipher := c1 } _ out aad.length ct.length h.mac h.data_len
    (by rw [hlen]; exact hb)
  refine ⟨{ cipher := c1, mac := st', aad_len := c.aad_len, data_len := ct.length + out.length }, ?_,
    ⟨?_, ?_, h.aad_len, ?_⟩⟩
  · simp only [ContextEncryption.encrypt_mut, hproc]
    simp only [out] at hadd ⊢; simp only [hadd]
  · simpa [List.append_assoc] using habs
  · simp only [List.length_append, hlen]
    rw [← Nat.add_assoc]; exact hat
  · simp [List.length_append]

theorem encrypt_inv (D : CipherDeps E R key nonce At) (M : MacDeps) (c : Context σ) (aad ct d : Bytes)
    (h : CtxInv R key nonce At c (aad ++ Spec.Aead.pad16 aad ++ ct) aad.length ct.length)
    (hb : ct.length + d.length < 2 ^ 64) :
    let out := Spec.ChaCha.encrypt R key nonce (64 + ct.length) d
    ∃ c', ContextEncryption.encrypt E R c d d.length = .ok (c', out) ∧
      CtxInv R key nonce At c' (aad ++ Spec.Aead.pad16 aad ++ (ct ++ out)) aad.length (ct ++ out).length := by
  intro out
  obtain ⟨c1, hproc, hat⟩ := process_at D c.cipher _ d h.cipher
  have hlen : out.length = d.length := encrypt_length _ _ _
  obtain ⟨st', hadd, habs⟩ := add_encrypted_inv D M { c with cipher := c1 } _ out aad.length ct.length h.mac h.data_len
    (by rw [hlen]; exact hb)
  refine ⟨{ cipher := c1, mac := st', aad_len := c.aad_len, data_len := ct.length + out.length }, ?_,
    ⟨?_, ?_, h.aad_len, ?_⟩⟩
  · simp only [ContextEncryption.encrypt, ne_eq, not_true_eq_false, if_false, hproc]
    simp only [out] at hadd ⊢; simp only [hadd]
  · simpa [List.append_assoc] using habs
  · simp only [List.length_append, hlen]
    rw [← Nat.add_assoc]; exact hat
  · simp [List.length_append]

/-- `decrypt_mut`: the INPUT bytes (the ciphertext) are authenticated, the bytes written are input ⊕ KS -/
theorem decrypt_mut_inv (D : CipherDeps E R key nonce At) (M : MacDeps) (c : Context σ) (aad ct d : Bytes)
    (h : CtxInv R key nonce At c (aad ++ Spec.Aead.pad16 aad ++ ct) aad.length ct.length)
    (hb : ct.length + d.length < 2 ^ 64) :
    ∃ c', ContextDecryption.decrypt_mut E R c d = .ok (c', Spec.ChaCha.encrypt R key nonce (64 + ct.length) d) ∧
      CtxInv R key nonce At c' (aad ++ Spec.Aead.pad16 aad ++ (ct ++ d)) aad.length (ct ++ d).length := by
  obtain ⟨st', hadd, habs⟩ := add_encrypted_inv D M c _ d aad.length ct.length h.mac h.data_len hb
  obtain ⟨c1, hproc, hat⟩ := D.process_mut_at c.cipher _ d h.cipher
  refine ⟨{ cipher := c1, mac := st', aad_len := c.aad_len, data_len := ct.length + d.length }, ?_,
    ⟨?_, ?_, h.aad_len, ?_⟩⟩
  · simp only [ContextDecryption.decrypt_mut, hadd, hproc]
  · simpa [List.append_assoc] using habs
  · simp only [List.length_append]
    rw [← Nat.add_assoc]; exact hat
  · simp [List.length_append]

theorem decrypt_inv (D : CipherDeps E R key nonce At) (M : MacDeps) (c : Context σ) (aad ct d : Bytes)
    (h : CtxInv R key nonce At c (aad ++ Spec.Aead.pad16 aad ++ ct) aad.length ct.length)
    (hb : ct.length + d.length < 2 ^ 64) :
    ∃ c', ContextDecryption.decrypt E R c d d.length = .ok (c', Spec.ChaCha.encrypt R key nonce (64 + ct.length) d) ∧
      CtxInv R key nonce At c' (aad ++ Spec.Aead.pad16 aad ++ (ct ++ d)) aad.length (ct ++ d).length := by
  obtain ⟨st', hadd, habs⟩ := add_encrypted_inv D M c _ d aad.length ct.length h.mac h.data_len hb
  obtain ⟨c1, hproc, hat⟩ := process_at D c.cipher _ d h.cipher
  refine ⟨{ cipher := c1, mac := st', aad_len := c.aad_len, data_len := ct.length + d.length }, ?_,
    ⟨?_, ?_, h.aad_len, ?_⟩⟩
  · simp only [ContextDecryption.decrypt, ne_eq, not_true_eq_false, if_false, hadd, hproc]
  · simpa [List.append_assoc] using habs
  · simp only [List.length_append]
    rw [← Nat.add_assoc]; exact hat
  · simp [List.length_append]

/-- **`finalize_raw`**: the authenticated string is completed to the RFC's `mac_data` and the result is the RFC tag -/
theorem finalize_raw_inv (D : CipherDeps E R key nonce At) (M : MacDeps) (c : Context σ) (aad ct : Bytes)
    (h : CtxInv R key nonce At c (aad ++ Spec.Aead.pad16 aad ++ ct) aad.length ct.length) :
    ∃ c', finalize_raw c = .ok (c', Spec.Aead.tag R key nonce aad ct) := by
  obtain ⟨st1, hp, habs1⟩ := pad16_abs M _ (otk_length D) c.mac _ ct h.mac
  obtain ⟨st2, hin, habs2⟩ := macAbs_input M _ (otk_length D) st1 _ (natToLE 8 aad.length ++ natToLE 8 ct.length) habs1
  obtain ⟨st3, hres⟩ := macAbs_result M _ (otk_length D) st2 _ habs2
  refine ⟨{ c with mac := st3 }, ?_⟩
  have hm : aad ++ Spec.Aead.pad16 aad ++ ct ++ Spec.Aead.pad16 ct ++ (natToLE 8 aad.length ++ natToLE 8 ct.length)
      = Spec.Aead.macData aad ct := by
    simp [Spec.Aead.macData, Spec.Aead.le64, List.append_assoc]
  rw [hm] at hres
  simp only [finalize_raw, h.data_len, h.aad_len, hp, hin, hres, liftP, Spec.Aead.tag, otk]

end ctx

end Cx.Proofs.Aead
