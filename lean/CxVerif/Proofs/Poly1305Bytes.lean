/-
  Proofs.Poly1305Bytes — byte-level lemmas: little-endian codecs, the 26-bit limb loads of `new` and `block`,
  the clamp mask, serialisation of the tag, and `chunks 16`.
-/
import CxVerif.Proofs.Poly1305Finish
namespace Cx.Proofs.Poly1305
open Cx Cx.Impl.Poly1305

/-! ### leNat -/

theorem leNat_lt (bs : Bytes) : leNat bs < 256 ^ bs.length := by
  induction bs with
  | nil => simp [leNat]
  | cons b bs ih =>
    have hb : b.toNat < 256 := b.toNat_lt
    simp only [leNat, List.length_cons, Nat.pow_succ]
    omega

theorem leNat_append (a b : Bytes) : leNat (a ++ b) = leNat a + 256 ^ a.length * leNat b := by
  induction a with
  | nil => simp [leNat]
  | cons x a ih =>
    simp only [List.cons_append, leNat, ih, List.length_cons, Nat.pow_succ]
    generalize 256 ^ a.length = P
    generalize leNat b = B
    rw [Nat.mul_add, Nat.add_assoc, Nat.mul_comm P 256, Nat.mul_assoc]

theorem leNat_take (bs : Bytes) (n : Nat) : leNat (bs.take n) = leNat bs % 256 ^ n := by
  induction bs generalizing n with
  | nil => simp [leNat]
  | cons b bs ih =>
    cases n with
    | zero => simp [leNat, Nat.mod_one]
    | succ n =>
      have hb : b.toNat < 256 := b.toNat_lt
      simp only [List.take_succ_cons, leNat, ih, Nat.pow_succ]
      have := Nat.mod_mul (a := 256) (b := 256 ^ n) (x := b.toNat + 256 * leNat bs)
      rw [Nat.mul_comm (256 ^ n) 256, this]
      have h1 : (b.toNat + 256 * leNat bs) % 256 = b.toNat := by omega
      have h2 : (b.toNat + 256 * leNat bs) / 256 = leNat bs := by omega
      rw [h1, h2]

theorem leNat_drop (bs : Bytes) (k : Nat) : leNat (bs.drop k) = leNat bs / 256 ^ k := by
  induction bs generalizing k with
  | nil => simp [leNat]
  | cons b bs ih =>
    cases k with
    | zero => simp
    | succ k =>
      have hb : b.toNat < 256 := b.toNat_lt
      simp only [List.drop_succ_cons, leNat, ih, Nat.pow_succ]
      rw [Nat.mul_comm (256 ^ k) 256, ← Nat.div_div_eq_div_mul]
      have h2 : (b.toNat + 256 * leNat bs) / 256 = leNat bs := by omega
      rw [h2]

/-- `read_u32_le(&m[off..off+4])` is a bit field of the little-endian value of `m` -/
theorem rd32_eq (m : Bytes) (off : Nat) : rd32 m off = (leNat m / 256 ^ off) % 2 ^ 32 := by
  simp only [rd32, leNat_take, leNat_drop]
  rfl

theorem leNat_zeros (n : Nat) : leNat (zeros n) = 0 := by
  induction n with
  | zero => rfl
  | succ n ih => simp only [zeros, List.replicate_succ, leNat] at *; simp [ih]

/-! ### natToLE -/

theorem natToLE_length (n v : Nat) : (natToLE n v).length = n := by
  induction n generalizing v with
  | zero => rfl
  | succ n ih => simp [natToLE, ih]

theorem natToLE_add (a b v : Nat) : natToLE (a + b) v = natToLE a v ++ natToLE b (v / 256 ^ a) := by
  induction a generalizing v with
  | zero => simp [natToLE]
  | succ a ih =>
    rw [Nat.add_right_comm]
    simp only [natToLE, List.cons_append, ih, Nat.pow_succ]
    rw [Nat.div_div_eq_div_mul, Nat.mul_comm 256]

theorem natToLE_mod (n v : Nat) : natToLE n (v % 256 ^ n) = natToLE n v := by
  induction n generalizing v with
  | zero => rfl
  | succ n ih =>
    simp only [natToLE, Nat.pow_succ]
    have h1 : v % (256 ^ n * 256) % 256 = v % 256 := Nat.mod_mod_of_dvd _ (Dvd.intro_left _ rfl)
    have h2 : v % (256 ^ n * 256) / 256 = (v / 256) % 256 ^ n := by
      rw [Nat.mul_comm, Nat.mod_mul_right_div_self]
    rw [h1, h2, ih]

/-- the 16 tag bytes written by `raw_result` are the little-endian bytes of the 128-bit number -/
theorem tagBytes_eq (h : L5) (h0 : h.l0 < 2^32) (h1 : h.l1 < 2^32) (h2 : h.l2 < 2^32) (h3 : h.l3 < 2^32) :
    tagBytes h = natToLE 16 (h.l0 + 2^32 * h.l1 + 2^64 * h.l2 + 2^96 * h.l3) := by
  generalize hV : h.l0 + 2^32 * h.l1 + 2^64 * h.l2 + 2^96 * h.l3 = V
  have e : natToLE 16 V = natToLE 4 V ++ (natToLE 4 (V / 256^4) ++ (natToLE 4 (V / 256^4 / 256^4)
      ++ natToLE 4 (V / 256^4 / 256^4 / 256^4))) := by
    rw [show (16:Nat) = 4 + (4 + (4 + 4)) from rfl, natToLE_add, natToLE_add, natToLE_add]
  rw [e, tagBytes]
  rw [← natToLE_mod 4 V, ← natToLE_mod 4 (V / 256^4), ← natToLE_mod 4 (V / 256^4 / 256^4),
    ← natToLE_mod 4 (V / 256^4 / 256^4 / 256^4)]
  have a0 : V % 256^4 = h.l0 := by omega
  have a1 : V / 256^4 % 256^4 = h.l1 := by omega
  have a2 : V / 256^4 / 256^4 % 256^4 = h.l2 := by omega
  have a3 : V / 256^4 / 256^4 / 256^4 % 256^4 = h.l3 := by omega
  rw [a0, a1, a2, a3]
  simp only [List.append_assoc]

/-! ### bit masks that are not of the form 2^k − 1 -/

theorem land_split (x m k : Nat) :
    x &&& m = (x % 2 ^ k &&& m % 2 ^ k) + 2 ^ k * ((x / 2 ^ k) &&& (m / 2 ^ k)) := by
  rw [← Nat.and_mod_two_pow, ← Nat.and_div_two_pow, Nat.mod_add_div]

theorem and_mask2 (x : Nat) : x &&& 3 = x % 2 ^ 2 := Nat.and_two_pow_sub_one_eq_mod x 2
theorem and_mask6 (x : Nat) : x &&& 63 = x % 2 ^ 6 := Nat.and_two_pow_sub_one_eq_mod x 6
theorem and_mask8 (x : Nat) : x &&& 255 = x % 2 ^ 8 := Nat.and_two_pow_sub_one_eq_mod x 8
theorem and_mask12 (x : Nat) : x &&& 4095 = x % 2 ^ 12 := Nat.and_two_pow_sub_one_eq_mod x 12
theorem and_mask14 (x : Nat) : x &&& 16383 = x % 2 ^ 14 := Nat.and_two_pow_sub_one_eq_mod x 14
theorem and_mask18 (x : Nat) : x &&& 262143 = x % 2 ^ 18 := Nat.and_two_pow_sub_one_eq_mod x 18
theorem and_mask20 (x : Nat) : x &&& 0xfffff = x % 2 ^ 20 := Nat.and_two_pow_sub_one_eq_mod x 20
theorem and_mask28 (x : Nat) : x &&& 0xfffffff = x % 2 ^ 28 := Nat.and_two_pow_sub_one_eq_mod x 28

/-- mask of `r1`: bits 0–1 and 8–25 -/
theorem and_3ffff03 (x : Nat) : x &&& 0x3ffff03 = x % 2^2 + 2^8 * ((x / 2^8) % 2^18) := by
  rw [land_split x 0x3ffff03 2, land_split (x / 2^2) (0x3ffff03 / 2^2) 6]
  simp only [Nat.reduceMod, Nat.reduceDiv, Nat.reducePow, and_mask2, and_mask18, Nat.and_zero]
  omega

/-- mask of `r2`: bits 0–7 and 14–25 -/
theorem and_3ffc0ff (x : Nat) : x &&& 0x3ffc0ff = x % 2^8 + 2^14 * ((x / 2^14) % 2^12) := by
  rw [land_split x 0x3ffc0ff 8, land_split (x / 2^8) (0x3ffc0ff / 2^8) 6]
  simp only [Nat.reduceMod, Nat.reduceDiv, Nat.reducePow, and_mask8, and_mask12, Nat.and_zero]
  omega

/-- mask of `r3`: bits 0–13 and 20–25 -/
theorem and_3f03fff (x : Nat) : x &&& 0x3f03fff = x % 2^14 + 2^20 * ((x / 2^20) % 2^6) := by
  rw [land_split x 0x3f03fff 14, land_split (x / 2^14) (0x3f03fff / 2^14) 6]
  simp only [Nat.reduceMod, Nat.reduceDiv, Nat.reducePow, and_mask14, and_mask6, Nat.and_zero]
  omega

/-- the clamp mask of RFC 8439 keeps bits 0–27, 34–59, 66–91, 98–123 -/
theorem clamp_eq (R : Nat) :
    Spec.Poly1305.clamp R = R % 2^28 + 2^34 * ((R / 2^34) % 2^26) + 2^66 * ((R / 2^66) % 2^26)
      + 2^98 * ((R / 2^98) % 2^26) := by
  unfold Spec.Poly1305.clamp Spec.Poly1305.clampMask
  rw [land_split R _ 28, land_split (R / 2^28) _ 6, land_split (R / 2^28 / 2^6) _ 26,
    land_split (R / 2^28 / 2^6 / 2^26) _ 6, land_split (R / 2^28 / 2^6 / 2^26 / 2^6) _ 26,
    land_split (R / 2^28 / 2^6 / 2^26 / 2^6 / 2^26) _ 6, land_split (R / 2^28 / 2^6 / 2^26 / 2^6 / 2^26 / 2^6) _ 26]
  simp only [Nat.reduceMod, Nat.reduceDiv, Nat.reducePow, and_mask28, and_mask26, Nat.and_zero]
  omega

/-! ### `new`: clamping and the 26-bit split (C05 a) -/

theorem rd32_take (bs : Bytes) (n off : Nat) (h : off + 4 ≤ n) : rd32 (bs.take n) off = rd32 bs off := by
  simp only [rd32, List.drop_take, List.take_take]
  congr 2
  omega

theorem rd32_drop (bs : Bytes) (k off : Nat) : rd32 (bs.drop k) off = rd32 bs (k + off) := by
  simp only [rd32, List.drop_drop]

/-- the limb formulas of `new` on the 128-bit number N, against the clamp formula -/
theorem new_limbs (N : Nat) (hN : N < 2^128) :
    let C := N % 2^28 + 2^34 * ((N / 2^34) % 2^26) + 2^66 * ((N / 2^66) % 2^26) + 2^98 * ((N / 2^98) % 2^26)
    (N / 256^0 % 2^32) % 2^26 = C % 2^26 ∧
    ((N / 256^3 % 2^32) / 2^2) % 2^2 + 2^8 * (((N / 256^3 % 2^32) / 2^2 / 2^8) % 2^18) = (C / 2^26) % 2^26 ∧
    ((N / 256^6 % 2^32) / 2^4) % 2^8 + 2^14 * (((N / 256^6 % 2^32) / 2^4 / 2^14) % 2^12) = (C / 2^52) % 2^26 ∧
    ((N / 256^9 % 2^32) / 2^6) % 2^14 + 2^20 * (((N / 256^9 % 2^32) / 2^6 / 2^20) % 2^6) = (C / 2^78) % 2^26 ∧
    ((N / 256^12 % 2^32) / 2^8) % 2^20 = C / 2^104 := by
  intro C
  have l0 : (N / 256^0 % 2^32) % 2^26 = (N % 2^28) % 2^26 := by omega
  have l1 : ((N / 256^3 % 2^32) / 2^2) % 2^2 + 2^8 * (((N / 256^3 % 2^32) / 2^2 / 2^8) % 2^18)
      = (N % 2^28) / 2^26 + 2^8 * (((N / 2^34) % 2^26) % 2^18) := by omega
  have l2 : ((N / 256^6 % 2^32) / 2^4) % 2^8 + 2^14 * (((N / 256^6 % 2^32) / 2^4 / 2^14) % 2^12)
      = ((N / 2^34) % 2^26) / 2^18 + 2^14 * (((N / 2^66) % 2^26) % 2^12) := by omega
  have l3 : ((N / 256^9 % 2^32) / 2^6) % 2^14 + 2^20 * (((N / 256^9 % 2^32) / 2^6 / 2^20) % 2^6)
      = ((N / 2^66) % 2^26) / 2^12 + 2^20 * (((N / 2^98) % 2^26) % 2^6) := by omega
  have l4 : ((N / 256^12 % 2^32) / 2^8) % 2^20 = ((N / 2^98) % 2^26) / 2^6 := by omega
  rw [l0, l1, l2, l3, l4]
  clear l0 l1 l2 l3 l4 hN
  have hA : N % 2^28 < 2^28 := Nat.mod_lt _ (by decide)
  have hB : (N / 2^34) % 2^26 < 2^26 := Nat.mod_lt _ (by decide)
  have hD : (N / 2^66) % 2^26 < 2^26 := Nat.mod_lt _ (by decide)
  have hE : (N / 2^98) % 2^26 < 2^26 := Nat.mod_lt _ (by decide)
  simp only [C]
  generalize N % 2^28 = A at *
  generalize (N / 2^34) % 2^26 = B at *
  generalize (N / 2^66) % 2^26 = D at *
  generalize (N / 2^98) % 2^26 = E at *
  refine ⟨?_, ?_, ?_, ?_, ?_⟩ <;> omega

/-- 26-bit split of a number below 2^130 -/
theorem split26 (X : Nat) :
    X % 2^26 + 2^26 * ((X / 2^26) % 2^26) + 2^52 * ((X / 2^52) % 2^26) + 2^78 * ((X / 2^78) % 2^26)
      + 2^104 * (X / 2^104) = X := by omega

theorem leNat_take16_lt (bs : Bytes) : leNat (bs.take 16) < 2 ^ 128 := by
  have := leNat_lt (bs.take 16)
  have h2 : (bs.take 16).length ≤ 16 := by rw [List.length_take]; exact Nat.min_le_left _ _
  exact Nat.lt_of_lt_of_le this (Nat.pow_le_pow_right (by decide) h2)

/-- **new** (C05 a): the `r` limbs are exactly the 26-bit split of
    `le(key[0..16]) & 0x0ffffffc0ffffffc0ffffffc0fffffff` (for every key, clamped or not), they respect the mask
    bounds, and `pad` holds the four little-endian words of `key[16..32]`. -/
theorem new_spec (key : Bytes) :
    ((new key).r.l0 = Spec.Poly1305.rOf key % 2^26 ∧
     (new key).r.l1 = (Spec.Poly1305.rOf key / 2^26) % 2^26 ∧
     (new key).r.l2 = (Spec.Poly1305.rOf key / 2^52) % 2^26 ∧
     (new key).r.l3 = (Spec.Poly1305.rOf key / 2^78) % 2^26 ∧
     (new key).r.l4 = Spec.Poly1305.rOf key / 2^104) ∧
    RInv (new key).r ∧ val (new key).r = Spec.Poly1305.rOf key ∧
    PadInv (new key).pad ∧ val4 (new key).pad = Spec.Poly1305.sOf key := by
  have hN := leNat_take16_lt key
  have hS := leNat_take16_lt (key.drop 16)
  have e0 := rd32_take key 16 0 (by decide)
  have e3 := rd32_take key 16 3 (by decide)
  have e6 := rd32_take key 16 6 (by decide)
  have e9 := rd32_take key 16 9 (by decide)
  have e12 := rd32_take key 16 12 (by decide)
  have p0 : rd32 key 16 = rd32 ((key.drop 16).take 16) 0 := by rw [rd32_take _ 16 0 (by decide), rd32_drop]
  have p1 : rd32 key 20 = rd32 ((key.drop 16).take 16) 4 := by rw [rd32_take _ 16 4 (by decide), rd32_drop]
  have p2 : rd32 key 24 = rd32 ((key.drop 16).take 16) 8 := by rw [rd32_take _ 16 8 (by decide), rd32_drop]
  have p3 : rd32 key 28 = rd32 ((key.drop 16).take 16) 12 := by rw [rd32_take _ 16 12 (by decide), rd32_drop]
  have limbs : ((new key).r.l0 = Spec.Poly1305.rOf key % 2^26 ∧
     (new key).r.l1 = (Spec.Poly1305.rOf key / 2^26) % 2^26 ∧
     (new key).r.l2 = (Spec.Poly1305.rOf key / 2^52) % 2^26 ∧
     (new key).r.l3 = (Spec.Poly1305.rOf key / 2^78) % 2^26 ∧
     (new key).r.l4 = Spec.Poly1305.rOf key / 2^104) := by
    simp only [new, Spec.Poly1305.rOf, clamp_eq, ← e0, ← e3, ← e6, ← e9, ← e12]
    simp only [rd32_eq, and_mask26, and_3ffff03, and_3ffc0ff, and_3f03fff, and_mask20, Nat.shiftRight_eq_div_pow]
    exact new_limbs _ hN
  refine ⟨limbs, ?_, ?_, ?_, ?_⟩
  · simp only [new, RInv, and_mask26, and_3ffff03, and_3ffc0ff, and_3f03fff, and_mask20]
    refine ⟨?_, ?_, ?_, ?_, ?_⟩ <;> omega
  · obtain ⟨l0, l1, l2, l3, l4⟩ := limbs
    rw [val, l0, l1, l2, l3, l4]
    exact split26 _
  · simp only [new, PadInv, p0, p1, p2, p3, rd32_eq]
    refine ⟨?_, ?_, ?_, ?_⟩ <;> exact Nat.mod_lt _ (by decide)
  · simp only [new, val4, Spec.Poly1305.sOf, p0, p1, p2, p3, rd32_eq]
    generalize leNat ((key.drop 16).take 16) = S at hS
    omega

/-! ### `block`: the five message limbs -/

theorem or_hibit (x : Nat) (hx : x < 2 ^ 24) : x ||| (1 <<< 24) = x + 2 ^ 24 := by
  have := Nat.two_pow_add_eq_or_of_lt hx 1
  rw [Nat.or_comm, Nat.shiftLeft_eq, Nat.one_mul, ← Nat.mul_one (2 ^ 24), ← this]
  omega

/-- the limbs `block` adds to `h` represent the 16-byte block plus the hibit (2^128 or nothing) -/
theorem loadBlock_spec (m : Bytes) (hm : m.length = 16) (fin : Bool) :
    TInv (loadBlock m (if fin then 0 else 1 <<< 24)) ∧
    val (loadBlock m (if fin then 0 else 1 <<< 24)) = leNat m + (if fin then 0 else 2 ^ 128) := by
  have hN : leNat m < 2 ^ 128 := by have := leNat_lt m; rw [hm] at this; exact this
  have h4 : (leNat m / 256 ^ 12 % 2 ^ 32) >>> 8 < 2 ^ 24 := by
    simp only [Nat.shiftRight_eq_div_pow]; omega
  cases fin
  · simp only [loadBlock, TInv, val, rd32_eq, and_mask26, Bool.false_eq_true, if_false, or_hibit _ h4]
    simp only [Nat.shiftRight_eq_div_pow]
    generalize leNat m = N at hN
    refine ⟨⟨?_, ?_, ?_, ?_, ?_⟩, ?_⟩ <;> omega
  · simp only [loadBlock, TInv, val, rd32_eq, and_mask26, if_true, Nat.or_zero]
    simp only [Nat.shiftRight_eq_div_pow]
    generalize leNat m = N at hN
    refine ⟨⟨?_, ?_, ?_, ?_, ?_⟩, ?_⟩ <;> omega

/-- `blockNat` of the spec: the block with a 0x01 byte appended -/
theorem blockNat_eq (b : Bytes) : Spec.Poly1305.blockNat b = leNat b + 256 ^ b.length := by
  simp [Spec.Poly1305.blockNat, leNat_append, leNat]

/-- the padded staging buffer of `finish` represents the partial block with its 0x01 marker -/
theorem padBuffer_spec (buf : Bytes) (lo : Nat) (hb : buf.length = 16) (hlo : lo < 16) :
    (padBuffer buf lo).length = 16 ∧ leNat (padBuffer buf lo) = Spec.Poly1305.blockNat (buf.take lo) := by
  constructor
  · simp [padBuffer, zeros, hb]; omega
  · rw [padBuffer, List.append_assoc, leNat_append, leNat_append, leNat_zeros, blockNat_eq]
    simp [leNat]

end Cx.Proofs.Poly1305
