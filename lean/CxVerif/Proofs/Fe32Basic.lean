/-
  Proofs.Fe32Basic — vocabulary of the Fe32 refinement library (32-bit field backend, ref10 representation):
  `val` (the integer ten signed limbs denote), `eval` (its residue mod p, a `Nat`), the weight-indexed limb
  bound `W k` (even limbs |·| ≤ k·2^25, odd limbs |·| ≤ k·(2^24 + 2^20)), and the "checked operation succeeds"
  rewriting lemmas (`add64_bind`, …, `carryR26`, `carryR25`, `carryR19_spec`, `sum64_ten`).

  -- API (namespace Cx.Proofs.Fe32):
  --   Fe32Basic   val eval W Red(=W 1)  ck/wrap lemmas  carryR25 carryR26 carryR19_eq sum64_*
  --   Fe32Arith   add_spec sub_spec neg_spec                                    (value + bounds, no i32 overflow)
  --   Fe32Carry   carry_mul_spec carry_par_spec                                 (12 / 10 rounded carries)
  --   Fe32Mul     mul_spec square_spec square_and_double_spec mul_small_spec square_repeatdly_spec
  --   Fe32Bytes   from_bytes_spec to_bytes_spec is_nonzero_spec is_negative_spec eq_spec
  --   Fe32Tables  constants and the 264 table entries against the 64-bit tables
  --   shape: `W a f → W b g → ∃ h, op f g = some h ∧ W c h ∧ eval h = Field25519.op (eval f) (eval g)`
-/
import CxVerif.Impl.Fe32
import CxVerif.Spec.Field25519
import Mathlib.Tactic.Ring
import Mathlib.Tactic.NormNum
namespace Cx.Proofs.Fe32
open Cx Cx.Impl.Fe32
open Cx.Spec
open Cx.Spec.Field25519 (p)

/-- the integer denoted by the ten signed limbs (radix 2^25.5) -/
def val (f : Fe) : Int :=
  f.l0 + 2^26 * f.l1 + 2^51 * f.l2 + 2^77 * f.l3 + 2^102 * f.l4 + 2^128 * f.l5 + 2^153 * f.l6 + 2^179 * f.l7
    + 2^204 * f.l8 + 2^230 * f.l9

/-- the field element denoted: the residue of `val` in `[0, p)` -/
def eval (f : Fe) : Nat := (val f % (p : Int)).toNat

/-- limb bound of weight `k`: even limbs within ±k·2^25, odd limbs within ±k·(2^24 + 2^20).
    `W 1` is what every carrying operator returns (ref10: 1.01·2^25 / 1.01·2^24); `W 3` is inside the ref10
    operand bound of `Mul`/`square` (1.65·2^26 / 1.65·2^25); `W 6` is inside what `to_bytes` tolerates -/
def W (k : Int) (f : Fe) : Prop :=
  (-(k * 2^25) ≤ f.l0 ∧ f.l0 ≤ k * 2^25) ∧ (-(k * (2^24 + 2^20)) ≤ f.l1 ∧ f.l1 ≤ k * (2^24 + 2^20)) ∧
  (-(k * 2^25) ≤ f.l2 ∧ f.l2 ≤ k * 2^25) ∧ (-(k * (2^24 + 2^20)) ≤ f.l3 ∧ f.l3 ≤ k * (2^24 + 2^20)) ∧
  (-(k * 2^25) ≤ f.l4 ∧ f.l4 ≤ k * 2^25) ∧ (-(k * (2^24 + 2^20)) ≤ f.l5 ∧ f.l5 ≤ k * (2^24 + 2^20)) ∧
  (-(k * 2^25) ≤ f.l6 ∧ f.l6 ≤ k * 2^25) ∧ (-(k * (2^24 + 2^20)) ≤ f.l7 ∧ f.l7 ≤ k * (2^24 + 2^20)) ∧
  (-(k * 2^25) ≤ f.l8 ∧ f.l8 ≤ k * 2^25) ∧ (-(k * (2^24 + 2^20)) ≤ f.l9 ∧ f.l9 ≤ k * (2^24 + 2^20))

instance (k : Int) (f : Fe) : Decidable (W k f) := by unfold W; infer_instance

/-- output of every carrying operator -/
abbrev Red (f : Fe) : Prop := W 1 f

theorem W.mono {a b : Int} {f : Fe} (h : a ≤ b) (hf : W a f) : W b f := by
  unfold W at *
  omega

theorem p_eq : (p : Int) = 2^255 - 19 := by decide
theorem p_pos : (0 : Int) < (p : Int) := by decide

theorem eval_lt (f : Fe) : eval f < p := by
  unfold eval
  have h := Int.emod_lt_of_pos (val f) p_pos
  have h0 := Int.emod_nonneg (val f) (by decide : (p : Int) ≠ 0)
  omega

theorem eval_mod (f : Fe) : eval f % p = eval f := Nat.mod_eq_of_lt (eval_lt f)

theorem eval_cast (f : Fe) : ((eval f : Nat) : Int) = val f % (p : Int) := by
  unfold eval
  exact Int.toNat_of_nonneg (Int.emod_nonneg _ (by decide))

/-- two limb vectors with congruent values denote the same field element -/
theorem eval_congr {f g : Fe} (h : val f % (p : Int) = val g % (p : Int)) : eval f = eval g := by
  unfold eval; rw [h]

theorem eval_of_val {f : Fe} {n : Nat} (h : val f % (p : Int) = (n : Int) % (p : Int)) : eval f = n % p := by
  unfold eval; rw [h]
  have : ((n : Int) % (p : Int)) = ((n % p : Nat) : Int) := by norm_cast
  rw [this]; exact Int.toNat_natCast _

/-! ### the Spec's operations on residues are the integer operations on values -/

theorem pN_eq : p = 2^255 - 19 := rfl

theorem add_bridge (x y : Int) :
    ((x + y) % (p : Int)).toNat = Field25519.add ((x % (p : Int)).toNat) ((y % (p : Int)).toNat) := by
  unfold Field25519.add; rw [pN_eq]; omega
theorem sub_bridge (x y : Int) :
    ((x - y) % (p : Int)).toNat = Field25519.sub ((x % (p : Int)).toNat) ((y % (p : Int)).toNat) := by
  unfold Field25519.sub; rw [pN_eq]; omega
theorem neg_bridge (x : Int) :
    ((-x) % (p : Int)).toNat = Field25519.neg ((x % (p : Int)).toNat) := by
  unfold Field25519.neg; rw [pN_eq]; omega
theorem mul_bridge (x y : Int) :
    ((x * y) % (p : Int)).toNat = Field25519.mul ((x % (p : Int)).toNat) ((y % (p : Int)).toNat) := by
  unfold Field25519.mul
  rw [Int.mul_emod]
  obtain ⟨n, hn⟩ := Int.eq_ofNat_of_zero_le (Int.emod_nonneg x (by decide : (p : Int) ≠ 0))
  obtain ⟨m, hm⟩ := Int.eq_ofNat_of_zero_le (Int.emod_nonneg y (by decide : (p : Int) ≠ 0))
  rw [hn, hm]
  simp only [Int.toNat_natCast]
  have : ((n : Int) * (m : Int)) % (p : Int) = ((n * m % p : Nat) : Int) := by norm_cast
  rw [this, Int.toNat_natCast]

theorem eval_add_of_val {f g h : Fe} (hv : val h = val f + val g) : eval h = Field25519.add (eval f) (eval g) := by
  unfold eval; rw [hv]; exact add_bridge _ _
theorem eval_sub_of_val {f g h : Fe} (hv : val h = val f - val g) : eval h = Field25519.sub (eval f) (eval g) := by
  unfold eval; rw [hv]; exact sub_bridge _ _
theorem eval_neg_of_val {f h : Fe} (hv : val h = -val f) : eval h = Field25519.neg (eval f) := by
  unfold eval; rw [hv]; exact neg_bridge _
theorem eval_mul_of_val {f g h : Fe} (hv : val h % (p : Int) = (val f * val g) % (p : Int)) :
    eval h = Field25519.mul (eval f) (eval g) := by
  unfold eval; rw [hv]; exact mul_bridge _ _

/-! ### checked / wrapping operations that fit are the mathematical operations -/

theorem some_bind {α β} (a : α) (f : α → Option β) : (some a >>= f) = f a := rfl
theorem pure_eq_some {α} (a : α) : (pure a : Option α) = some a := rfl

theorem ck32_some {v : Int} (h : -2^31 ≤ v ∧ v < 2^31) : ck32 v = some v := by simp only [ck32, if_pos h]
theorem ck64_some {v : Int} (h : -2^63 ≤ v ∧ v < 2^63) : ck64 v = some v := by simp only [ck64, if_pos h]

theorem add32_bind {β} (a b : Int) (f : Int → Option β) (h : -2^31 ≤ a + b ∧ a + b < 2^31) :
    (add32 a b >>= f) = f (a + b) := by simp only [add32, ck32_some h]; rfl
theorem sub32_bind {β} (a b : Int) (f : Int → Option β) (h : -2^31 ≤ a - b ∧ a - b < 2^31) :
    (sub32 a b >>= f) = f (a - b) := by simp only [sub32, ck32_some h]; rfl
theorem mul32_bind {β} (a b : Int) (f : Int → Option β) (h : -2^31 ≤ a * b ∧ a * b < 2^31) :
    (mul32 a b >>= f) = f (a * b) := by simp only [mul32, ck32_some h]; rfl
theorem neg32_bind {β} (a : Int) (f : Int → Option β) (h : -2^31 ≤ -a ∧ -a < 2^31) :
    (neg32 a >>= f) = f (-a) := by simp only [neg32, ck32_some h]; rfl
theorem add64_bind {β} (a b : Int) (f : Int → Option β) (h : -2^63 ≤ a + b ∧ a + b < 2^63) :
    (add64 a b >>= f) = f (a + b) := by simp only [add64, ck64_some h]; rfl
theorem sub64_bind {β} (a b : Int) (f : Int → Option β) (h : -2^63 ≤ a - b ∧ a - b < 2^63) :
    (sub64 a b >>= f) = f (a - b) := by simp only [sub64, ck64_some h]; rfl
theorem mul64_bind {β} (a b : Int) (f : Int → Option β) (h : -2^63 ≤ a * b ∧ a * b < 2^63) :
    (mul64 a b >>= f) = f (a * b) := by simp only [mul64, ck64_some h]; rfl

theorem wrap32_eq {v : Int} (h : -2^31 ≤ v ∧ v < 2^31) : wrap32 v = v := by unfold wrap32; omega
theorem wrap64_eq {v : Int} (h : -2^63 ≤ v ∧ v < 2^63) : wrap64 v = v := by unfold wrap64; omega

/-- one rounded carry at 26 bits: succeeds for |h|, |hn| ≤ 2^62 and is the centred remainder / quotient -/
theorem carryR26 (h hn : Int) (hh : -2^62 ≤ h ∧ h ≤ 2^62) (hhn : -2^62 ≤ hn ∧ hn ≤ 2^62) :
    carryR 26 h hn = some (h - (h + 2^25) / 2^26 * 2^26, hn + (h + 2^25) / 2^26) := by
  unfold carryR
  rw [show (2:Int)^(26-1) = 2^25 from rfl, add64_bind _ _ _ (by omega)]
  simp only [shr]
  rw [add64_bind _ _ _ (by omega)]
  have hs : shl64 ((h + 2^25) / 2^26) 26 = (h + 2^25) / 2^26 * 2^26 := by
    unfold shl64; exact wrap64_eq (by omega)
  rw [hs, sub64_bind _ _ _ (by omega)]
  rfl

theorem carryR25 (h hn : Int) (hh : -2^62 ≤ h ∧ h ≤ 2^62) (hhn : -2^62 ≤ hn ∧ hn ≤ 2^62) :
    carryR 25 h hn = some (h - (h + 2^24) / 2^25 * 2^25, hn + (h + 2^24) / 2^25) := by
  unfold carryR
  rw [show (2:Int)^(25-1) = 2^24 from rfl, add64_bind _ _ _ (by omega)]
  simp only [shr]
  rw [add64_bind _ _ _ (by omega)]
  have hs : shl64 ((h + 2^24) / 2^25) 25 = (h + 2^24) / 2^25 * 2^25 := by
    unfold shl64; exact wrap64_eq (by omega)
  rw [hs, sub64_bind _ _ _ (by omega)]
  rfl

/-- the wrap-around carry `h9 → h0` (2^255 = 19): succeeds for |h9| ≤ 2^58·… (19·carry must fit) -/
theorem carryR19_eq (h9 h0 : Int) (hh : -2^62 ≤ h9 ∧ h9 ≤ 2^62) (hh0 : -2^62 ≤ h0 ∧ h0 ≤ 2^62) :
    carryR19 h9 h0 = some (h9 - (h9 + 2^24) / 2^25 * 2^25, h0 + (h9 + 2^24) / 2^25 * 19) := by
  unfold carryR19
  rw [add64_bind _ _ _ (by omega)]
  simp only [shr]
  rw [mul64_bind _ _ _ (by omega), add64_bind _ _ _ (by omega)]
  have hs : shl64 ((h9 + 2^24) / 2^25) 25 = (h9 + 2^24) / 2^25 * 2^25 := by
    unfold shl64; exact wrap64_eq (by omega)
  rw [hs, sub64_bind _ _ _ (by omega)]
  rfl

/-- a left-to-right checked sum of ten terms each within ±2^59 is their sum -/
theorem sum64_ten (a b c d e f g h i j : Int) (B : Int) (hB : B ≤ 2^59)
    (ha : -B ≤ a ∧ a ≤ B) (hb : -B ≤ b ∧ b ≤ B) (hc : -B ≤ c ∧ c ≤ B) (hd : -B ≤ d ∧ d ≤ B) (he : -B ≤ e ∧ e ≤ B)
    (hf : -B ≤ f ∧ f ≤ B) (hg : -B ≤ g ∧ g ≤ B) (hh : -B ≤ h ∧ h ≤ B) (hi : -B ≤ i ∧ i ≤ B) (hj : -B ≤ j ∧ j ≤ B) :
    sum64 [a, b, c, d, e, f, g, h, i, j] = some (a + b + c + d + e + f + g + h + i + j) := by
  simp only [sum64, List.foldlM_cons, List.foldlM_nil]
  rw [add64_bind _ _ _ (by omega), add64_bind _ _ _ (by omega), add64_bind _ _ _ (by omega),
    add64_bind _ _ _ (by omega), add64_bind _ _ _ (by omega), add64_bind _ _ _ (by omega),
    add64_bind _ _ _ (by omega), add64_bind _ _ _ (by omega), add64_bind _ _ _ (by omega)]
  rfl

theorem sum64_six (a b c d e f : Int) (B : Int) (hB : B ≤ 2^59)
    (ha : -B ≤ a ∧ a ≤ B) (hb : -B ≤ b ∧ b ≤ B) (hc : -B ≤ c ∧ c ≤ B) (hd : -B ≤ d ∧ d ≤ B) (he : -B ≤ e ∧ e ≤ B)
    (hf : -B ≤ f ∧ f ≤ B) :
    sum64 [a, b, c, d, e, f] = some (a + b + c + d + e + f) := by
  simp only [sum64, List.foldlM_cons, List.foldlM_nil]
  rw [add64_bind _ _ _ (by omega), add64_bind _ _ _ (by omega), add64_bind _ _ _ (by omega),
    add64_bind _ _ _ (by omega), add64_bind _ _ _ (by omega)]
  rfl

theorem sum64_five (a b c d e : Int) (B : Int) (hB : B ≤ 2^59)
    (ha : -B ≤ a ∧ a ≤ B) (hb : -B ≤ b ∧ b ≤ B) (hc : -B ≤ c ∧ c ≤ B) (hd : -B ≤ d ∧ d ≤ B) (he : -B ≤ e ∧ e ≤ B) :
    sum64 [a, b, c, d, e] = some (a + b + c + d + e) := by
  simp only [sum64, List.foldlM_cons, List.foldlM_nil]
  rw [add64_bind _ _ _ (by omega), add64_bind _ _ _ (by omega), add64_bind _ _ _ (by omega),
    add64_bind _ _ _ (by omega)]
  rfl

end Cx.Proofs.Fe32
