/-
  Proofs.Ed25519Sha — the three SHA-512 call shapes of ed25519.rs (`new().update(a)[.update(b)[.update(c)]].finalize()`)
  equal `Spec.Sha2.sha512` of the concatenation: instances of the split-independence theorem of C02 (unit sha2).
-/
import CxVerif.Impl.Ed25519
import CxVerif.Props.C02.Sha2
namespace Cx.Proofs.Ed25519Sha
open Cx Cx.Impl.Ed25519 Cx.Impl.Sha2 Cx.HashProg

theorem sha512_3_eq (a b c : Bytes) (h : (a ++ b ++ c).length < 2 ^ 125) :
    sha512_3 a b c = some (Spec.Sha2.sha512 (a ++ b ++ c)) := by
  have hs := Cx.Props.C02.Sha2.sha512_split_independence [(false, a), (false, b), (false, c)]
    (by simpa [Cx.Proofs.HashProg.chunkBytes, List.append_assoc] using h)
  simp only [List.map, Cx.Proofs.HashProg.chunkOp, Bool.false_eq_true, if_false, List.cons_append, List.nil_append,
    runProg, fam512] at hs
  unfold sha512_3
  cases h1 : (Ctx512.new Sha512).update a with
  | none => rw [h1] at hs; simp at hs
  | some x =>
    rw [h1] at hs; simp only at hs
    cases h2 : x.update b with
    | none => rw [h2] at hs; simp at hs
    | some y =>
      rw [h2] at hs; simp only at hs
      cases h3 : y.update c with
      | none => rw [h3] at hs; simp at hs
      | some z =>
        rw [h3] at hs; simp only at hs
        cases h4 : Ctx512.finalize Sha512 z with
        | none => rw [h4] at hs; simp at hs
        | some d =>
          rw [h4] at hs
          simp only [List.reverse_cons, List.reverse_nil, List.nil_append, Option.some.injEq, List.cons.injEq,
            and_true] at hs
          simp [h2, h3, h4, hs, Cx.Proofs.HashProg.chunkBytes]

theorem sha512_2_eq (a b : Bytes) (h : (a ++ b).length < 2 ^ 125) :
    sha512_2 a b = some (Spec.Sha2.sha512 (a ++ b)) := by
  have hs := Cx.Props.C02.Sha2.sha512_split_independence [(false, a), (false, b)]
    (by simpa [Cx.Proofs.HashProg.chunkBytes] using h)
  simp only [List.map, Cx.Proofs.HashProg.chunkOp, Bool.false_eq_true, if_false, List.cons_append, List.nil_append,
    runProg, fam512] at hs
  unfold sha512_2
  cases h1 : (Ctx512.new Sha512).update a with
  | none => rw [h1] at hs; simp at hs
  | some x =>
    rw [h1] at hs; simp only at hs
    cases h2 : x.update b with
    | none => rw [h2] at hs; simp at hs
    | some y =>
      rw [h2] at hs; simp only at hs
      cases h4 : Ctx512.finalize Sha512 y with
      | none => rw [h4] at hs; simp at hs
      | some d =>
        rw [h4] at hs
        simp only [List.reverse_cons, List.reverse_nil, List.nil_append, Option.some.injEq, List.cons.injEq,
          and_true] at hs
        simp [h2, h4, hs, Cx.Proofs.HashProg.chunkBytes]

theorem sha512_1_eq (a : Bytes) (h : a.length < 2 ^ 125) : sha512_1 a = some (Spec.Sha2.sha512 a) := by
  have hs := Cx.Props.C02.Sha2.sha512_split_independence [(false, a)] (by simpa [Cx.Proofs.HashProg.chunkBytes] using h)
  simp only [List.map, Cx.Proofs.HashProg.chunkOp, Bool.false_eq_true, if_false, List.cons_append, List.nil_append,
    runProg, fam512] at hs
  unfold sha512_1
  cases h1 : (Ctx512.new Sha512).update a with
  | none => rw [h1] at hs; simp at hs
  | some x =>
    rw [h1] at hs; simp only at hs
    cases h4 : Ctx512.finalize Sha512 x with
    | none => rw [h4] at hs; simp at hs
    | some d =>
      rw [h4] at hs
      simp only [List.reverse_cons, List.reverse_nil, List.nil_append, Option.some.injEq, List.cons.injEq,
        and_true] at hs
      simp [h4, hs, Cx.Proofs.HashProg.chunkBytes]

end Cx.Proofs.Ed25519Sha
