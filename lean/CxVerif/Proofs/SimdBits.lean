/-
  Proofs.SimdBits — bit-level facts behind the SIMD rotation / byte-swap / sigma implementations (unit `simd`, C16):
  every rotation implementation used by the vector code (pshufb byte permutations, shift-xor, shift-or with `v + v`,
  dword swap) is the rotation by the RFC / FIPS amount, on every word.  Proof scheme: equality of the bit vectors bit
  by bit (`interval_cases` over the 32 / 64 positions, `simp` on each).
-/
import CxVerif.Impl.SimdLanes
import CxVerif.Impl.Sha2
import Mathlib.Tactic.IntervalCases
namespace Cx.Proofs.SimdBits
open Cx Cx.Impl.Simd

theorem mod256_64 (y : BitVec 64) (j : Nat) (h : j < 64) : (y % 256#64)[j] = (decide (j < 8) && y[j]) := by
  have : y % 256#64 = (y.setWidth 8).setWidth 64 := by
    apply BitVec.eq_of_toNat_eq
    simp [BitVec.toNat_umod]
    omega
  rw [this]
  simp [BitVec.getElem_setWidth, BitVec.getLsbD_setWidth, h]

theorem mod256_32 (y : BitVec 32) (j : Nat) (h : j < 32) : (y % 256#32)[j] = (decide (j < 8) && y[j]) := by
  have : y % 256#32 = (y.setWidth 8).setWidth 32 := by
    apply BitVec.eq_of_toNat_eq
    simp [BitVec.toNat_umod]
    omega
  rw [this]
  simp [BitVec.getElem_setWidth, BitVec.getLsbD_setWidth, h]

/-- bit-by-bit equality of two UInt64 expressions -/
macro "bits64" : tactic =>
  `(tactic| (apply UInt64.eq_of_toBitVec_eq; simp; ext i hi; interval_cases i <;> simp [mod256_64]))
macro "bits32" : tactic =>
  `(tactic| (apply UInt32.eq_of_toBitVec_eq; simp; ext i hi; interval_cases i <;> simp [mod256_32]))

/-! ### pshufb byte permutations = rotations -/

theorem bytes_rot16_64 (x : UInt64) :
    ofBytes64 [byte64 x 2, byte64 x 3, byte64 x 4, byte64 x 5, byte64 x 6, byte64 x 7, byte64 x 0, byte64 x 1] = rotr64 x 16 := by
  simp only [ofBytes64, List.foldr, byte64, rotr64, rotl64]; bits64

theorem bytes_rot24_64 (x : UInt64) :
    ofBytes64 [byte64 x 3, byte64 x 4, byte64 x 5, byte64 x 6, byte64 x 7, byte64 x 0, byte64 x 1, byte64 x 2] = rotr64 x 24 := by
  simp only [ofBytes64, List.foldr, byte64, rotr64, rotl64]; bits64

theorem bytes_rot8_32 (x : UInt32) :
    ofBytes32 [byte32 x 1, byte32 x 2, byte32 x 3, byte32 x 0] = rotr32 x 8 := by
  simp only [ofBytes32, List.foldr, byte32, rotr32, rotl32]; bits32

theorem bytes_rot16_32 (x : UInt32) :
    ofBytes32 [byte32 x 2, byte32 x 3, byte32 x 0, byte32 x 1] = rotr32 x 16 := by
  simp only [ofBytes32, List.foldr, byte32, rotr32, rotl32]; bits32

/-! ### shift-xor / shift-or rotations -/

theorem shr_xor_shl_63 (x : UInt64) : (x >>> 63) ^^^ (x <<< 1) = rotr64 x 63 := by
  simp only [rotr64, rotl64]; bits64

theorem add_self_eq_shl (x : UInt64) : x + x = x <<< 1 := by
  apply UInt64.eq_of_toBitVec_eq
  simp
  apply BitVec.eq_of_toNat_eq
  simp [BitVec.toNat_shiftLeft]
  omega

theorem shr_or_add_63 (x : UInt64) : (x >>> 63) ||| (x + x) = rotr64 x 63 := by
  rw [add_self_eq_shl]; simp only [rotr64, rotl64]; bits64

theorem shr_xor_shl_7 (x : UInt32) : (x >>> 7) ^^^ (x <<< 25) = rotr32 x 7 := by
  simp only [rotr32, rotl32]; bits32

theorem shr_xor_shl_12 (x : UInt32) : (x >>> 12) ^^^ (x <<< 20) = rotr32 x 12 := by
  simp only [rotr32, rotl32]; bits32

/-- the dword swap of `_mm_shuffle_epi32(r, _MM_SHUFFLE(2, 3, 0, 1))` on one 64-bit lane -/
theorem dword_swap (x : UInt64) : (x >>> 32) ||| ((x &&& 0xFFFFFFFF) <<< 32) = rotr64 x 32 := by
  simp only [rotr64, rotl64]; bits64

/-! ### SHA-256: sigma as five shifts; byte swap -/

theorem or_eq_xor_rot (x : UInt32) :
    ((x >>> 7) ||| (x <<< 25) = (x >>> 7) ^^^ (x <<< 25)) ∧ ((x >>> 18) ||| (x <<< 14) = (x >>> 18) ^^^ (x <<< 14)) ∧
    ((x >>> 17) ||| (x <<< 15) = (x >>> 17) ^^^ (x <<< 15)) ∧ ((x >>> 19) ||| (x <<< 13) = (x >>> 19) ^^^ (x <<< 13)) := by
  refine ⟨?_, ?_, ?_, ?_⟩ <;> bits32

open Cx.Impl.Sha2 in
theorem sigma0_shifts (x : UInt32) :
    (x >>> 7) ^^^ (x >>> 18) ^^^ (x >>> 3) ^^^ (x <<< 25) ^^^ (x <<< 14) = Impl256.s0 x := by
  have h := or_eq_xor_rot x
  have e1 : (32 : UInt32) - 7 = 25 := by decide
  have e2 : (32 : UInt32) - 18 = 14 := by decide
  simp only [Impl256.s0, Impl256.rotate_right, Spec.Sha2.ROTR32]
  rw [e1, e2, h.1, h.2.1]
  generalize x >>> 7 = a, x >>> 18 = b, x >>> 3 = c, x <<< 25 = d, x <<< 14 = e
  ac_rfl

open Cx.Impl.Sha2 in
theorem sigma1_shifts (x : UInt32) :
    (x >>> 17) ^^^ (x >>> 10) ^^^ (x >>> 19) ^^^ (x <<< 15) ^^^ (x <<< 13) = Impl256.s1 x := by
  have h := or_eq_xor_rot x
  have e1 : (32 : UInt32) - 17 = 15 := by decide
  have e2 : (32 : UInt32) - 19 = 13 := by decide
  simp only [Impl256.s1, Impl256.rotate_right, Spec.Sha2.ROTR32]
  rw [e1, e2, h.2.2.1, h.2.2.2]
  generalize x >>> 17 = a, x >>> 10 = b, x >>> 19 = c, x <<< 15 = d, x <<< 13 = e
  ac_rfl

end Cx.Proofs.SimdBits
