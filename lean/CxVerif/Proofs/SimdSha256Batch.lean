/-
  Proofs.SimdSha256Batch — from the lane-wise schedule to the block functions (C16 (ii)):

    round_kw, rounds8_kw, rounds_loop_kw   `round!` with the precomputed `kwi = W + K` = the reference `round!`
    compress_once_eq                        `compress_once!(j)` on the vector schedule = `reference::digest_block_u32` on block j
    compress_nways_eq, batch_eq             one batch (`message_schedule_Nways` + `compress_Nways`) = the fold of the
                                            single-block compression over its N blocks, in order
    batch_loop_eq                           `while block.len() >= BATCH { … }`: as many batches as fit; the rest is returned
    reference_digest_block_eq / _none       `reference::digest_block`: fold over the blocks / panic on a ragged length
    sse41_eq_reference, avx_eq_reference    `sse41::digest_block = reference::digest_block`, `avx::… = reference::…` on EVERY
                                            state and EVERY byte string (including the panic on a length ≢ 0 mod 64)
    dispatch_table, digest_block_eq_reference   mod.rs
    blocks_eq, hash_with_eq_spec            `Engine::blocks` and the hashing contexts over the dispatched block function
-/
import CxVerif.Proofs.SimdSha256Lanes
import CxVerif.Proofs.Sha2Engine
namespace Cx.Proofs.SimdSha256
open Cx Cx.Impl Cx.Impl.Simd Cx.Impl.SimdSha256 Cx.Impl.Sha2 Cx.Spec.Sha2 Cx.Proofs.FB Cx.Proofs.Sha2Compress
open Cx.Proofs.Sha2Engine

/-! ### rounds with the precomputed `K + W` -/

theorem round_kw (a b c d e f g h k w : UInt32) :
    SimdSha256.round a b c d e f g h (w + k) = Impl256.round a b c d e f g h k w := by
  simp only [SimdSha256.round, Impl256.round]
  have : ∀ x : UInt32, x + (w + k) = x + k + w := by intro x; ac_rfl
  rw [this]

theorem rounds8_kw (s : W8 UInt32) (kw0 kw1 kw2 kw3 kw4 kw5 kw6 kw7 : UInt32 × UInt32) :
    SimdSha256.rounds8 s (kw0.2 + kw0.1) (kw1.2 + kw1.1) (kw2.2 + kw2.1) (kw3.2 + kw3.1) (kw4.2 + kw4.1) (kw5.2 + kw5.1)
      (kw6.2 + kw6.1) (kw7.2 + kw7.1) = Impl256.rounds8 s kw0 kw1 kw2 kw3 kw4 kw5 kw6 kw7 := by
  simp only [SimdSha256.rounds8, Impl256.rounds8, round_kw]

theorem rounds_loop_kw (n : Nat) : ∀ (s : W8 UInt32) (l : List (UInt32 × UInt32)), l.length = 8 * n →
    SimdSha256.rounds_loop s (l.map fun p => p.2 + p.1) = Impl256.rounds_loop s l := by
  induction n with
  | zero =>
    intro s l hl
    have : l = [] := List.length_eq_zero_iff.mp (by omega)
    subst this; rfl
  | succ n ih =>
    intro s l hl
    rcases l with _ | ⟨x0, _ | ⟨x1, _ | ⟨x2, _ | ⟨x3, _ | ⟨x4, _ | ⟨x5, _ | ⟨x6, _ | ⟨x7, rest⟩⟩⟩⟩⟩⟩⟩⟩
    all_goals try (first | (simp at hl; done) | (simp at hl; omega))
    have hr : rest.length = 8 * n := by simp at hl; omega
    simp only [List.map_cons, SimdSha256.rounds_loop, Impl256.rounds_loop, rounds8_kw]
    exact ih _ rest hr

/-! ### `compress_once!(j)` -/

theorem mapM_some {α β : Type} (l : List α) (f : α → Option β) (g : α → β) (h : ∀ x ∈ l, f x = some (g x)) :
    l.mapM f = some (l.map g) := by
  have := mapM_some_map l id f g h
  simpa using this

/-- `compress_once!(j)`: the `kwi` are lane `j` of the schedule; with the lane-wise schedule this is the reference
    single-block function on block `j` -/
theorem compress_once_eq {C : Cfg} (message : Bytes) (sch : List (Lanes C.n)) (hl : sch.length = 64)
    (hs : ∀ k kk, Impl256.K32[k]? = some kk → sch[k]? = some (Vector.ofFn fun j : Fin C.n =>
        Wf (wordsBE32 (blockAt message j.val)) k + kk))
    (state : W8 UInt32) (j : Nat) (hj : j < C.n) (hb : (blockAt message j).length = 64) :
    compress_once state sch j = Impl256.digest_block_u32 state (blockAt message j) := by
  have hw : (wordsBE32 (blockAt message j)).length = 16 := by rw [wordsBE32_length, hb]
  have hK : Impl256.K32.length = 64 := by decide
  have hkw : sch.mapM (fun v => extract_epi32 v j)
      = some ((Impl256.K32.zip (schedule256 (wordsBE32 (blockAt message j)))).map fun p => p.2 + p.1) := by
    rw [mapM_some sch _ (fun v => v[j]) (by intro v _; simp [extract_epi32, hj])]
    congr 1
    apply List.ext_getElem?
    intro i
    by_cases hi : i < 64
    · obtain ⟨kk, hk⟩ := K32_some hi
      rw [List.getElem?_map, hs i kk hk, schedule256_eq_Wf _ hw]
      simp [hk, hi, List.zip_eq_zipWith, List.getElem?_zipWith]
    · rw [List.getElem?_eq_none (by simp [hl]; omega),
        List.getElem?_eq_none (by simp [hK, schedule256_length _ hw]; omega)]
  unfold compress_once Impl256.digest_block_u32 read_u32v_be
  have hs64 := schedule256_length _ hw
  simp only [hkw, hb, List.length_map, List.length_zip, hK, hs64, ne_eq, not_true_eq_false, if_false, or_self,
    Nat.min_self, Nat.reduceMul]
  rw [rounds_loop_kw 8 _ _ (by simp [hK, hs64])]
  cases Impl256.rounds_loop state (Impl256.K32.zip (schedule256 (wordsBE32 (blockAt message j)))) <;> rfl

/-- `compress_Nways`: `compress_once!(j)` for the listed lanes, in order -/
theorem compress_nways_eq {C : Cfg} (message : Bytes) (hm : 64 * C.n ≤ message.length) (sch : List (Lanes C.n))
    (hl : sch.length = 64)
    (hs : ∀ k kk, Impl256.K32[k]? = some kk → sch[k]? = some (Vector.ofFn fun j : Fin C.n =>
        Wf (wordsBE32 (blockAt message j.val)) k + kk)) :
    ∀ (js : List Nat), (∀ j ∈ js, j < C.n) → ∀ state : W8 UInt32,
      compress_nways sch state js = some ((js.map (blockAt message)).foldl compress256 state) := by
  intro js
  induction js with
  | nil => intro _ state; rfl
  | cons j js ih =>
    intro hjs state
    have hj : j < C.n := hjs j (by simp)
    have hb : (blockAt message j).length = 64 := blockAt_length (by omega)
    simp only [compress_nways, compress_once_eq message sch hl hs state j hj hb, digest_block_u32_eq _ _ hb,
      List.map_cons, List.foldl_cons]
    exact ih (fun x hx => hjs x (by simp [hx])) _

/-- **one batch** (`message_schedule_Nways(&mut schedule, block); compress_Nways(state, &schedule)`) on a slice holding
    at least `N` blocks = the single-block compression folded over the first `N` blocks, in order; no panic -/
theorem batch_eq {C : Cfg} (hC : GoodCfg C) (message : Bytes) (hm : 64 * C.n ≤ message.length) (state : W8 UInt32) :
    ∃ sch, message_schedule C message = some sch ∧
      compress_nways sch state C.compressLanes = some ((takeBlocks 64 C.n message).foldl compress256 state) := by
  obtain ⟨sch, h1, h2, h3⟩ := message_schedule_eq hC message hm
  refine ⟨sch, h1, ?_⟩
  rw [hC.lanes, compress_nways_eq message hm sch h2 h3 (List.range C.n) (by intro j hj; simpa using hj) state,
    takeBlocks_eq_map]
  rfl

/-! ### the batch loop -/

/-- `while block.len() >= BATCH { …; block = &block[BATCH..] }`: with `q` batches fitting, the state has absorbed the first
    `N·q` blocks and the remaining slice starts at byte `BATCH·q` -/
theorem batch_loop_eq {C : Cfg} (hC : GoodCfg C) (q : Nat) : ∀ (fuel : Nat) (state : W8 UInt32) (block : Bytes),
    q * (64 * C.n) ≤ block.length → block.length < (q + 1) * (64 * C.n) → q ≤ fuel →
    batch_loop C fuel state block
      = some ((takeBlocks 64 (C.n * q) block).foldl compress256 state, block.drop (64 * C.n * q)) := by
  have hB := hC.batch
  obtain ⟨B, hBe⟩ : ∃ B, B = 64 * C.n := ⟨_, rfl⟩
  rw [← hBe] at hB ⊢
  induction q with
  | zero =>
    intro fuel state block _ h2 _
    have hlt : ¬ block.length ≥ C.batchBytes := by rw [hB]; omega
    cases fuel <;> simp [batch_loop, hlt, takeBlocks]
  | succ q ih =>
    intro fuel state block h1 h2 hf
    obtain ⟨f, rfl⟩ : ∃ f, fuel = f + 1 := ⟨fuel - 1, by omega⟩
    have hc : (q + 1) * B = q * B + B := Nat.succ_mul q B
    rw [Nat.succ_mul] at h1
    rw [Nat.succ_mul] at h2
    have hge : block.length ≥ C.batchBytes := by rw [hB]; omega
    obtain ⟨sch, hs1, hs2⟩ := batch_eq hC block (by omega) state
    simp only [batch_loop, hge, if_true, hs1, hs2]
    rw [hB, ih f _ (block.drop B) (by rw [List.length_drop]; omega) (by rw [List.length_drop]; omega)
      (by omega)]
    rw [show C.n * (q + 1) = C.n + C.n * q by rw [Nat.mul_succ]; omega, takeBlocks_add, List.foldl_append, List.drop_drop,
      ← hBe]
    rw [show B * (q + 1) = B + B * q by rw [Nat.mul_succ]; omega]

/-- the loop as the drivers call it (fuel = number of bytes) -/
theorem batch_loop_full {C : Cfg} (hC : GoodCfg C) (state : W8 UInt32) (block : Bytes) :
    batch_loop C block.length state block
      = some ((takeBlocks 64 (C.n * (block.length / (64 * C.n))) block).foldl compress256 state,
              block.drop (64 * C.n * (block.length / (64 * C.n)))) := by
  have hpos : 0 < 64 * C.n := by have := hC.npos; omega
  have h1 : block.length / (64 * C.n) * (64 * C.n) ≤ block.length := Nat.div_mul_le_self _ _
  have h2 : block.length < (block.length / (64 * C.n) + 1) * (64 * C.n) := by
    rw [Nat.succ_mul]
    have := Nat.div_add_mod block.length (64 * C.n)
    have := Nat.mod_lt block.length hpos
    rw [Nat.mul_comm] at h1
    rw [Nat.mul_comm]
    omega
  exact batch_loop_eq hC _ _ state block h1 h2 (Nat.le_trans (Nat.le_mul_of_pos_right _ hpos) h1)

/-! ### `reference::digest_block` -/

theorem reference_digest_block_eq (state : W8 UInt32) (block : Bytes) (h : block.length % 64 = 0) :
    Impl256.digest_block state block = some ((fullBlocks 64 block).foldl compress256 state) := by
  unfold Impl256.digest_block
  exact digest_block_loop256_spec (block.length / 64) _ state block (by omega) (by omega)

theorem digest_block_loop_ragged (k : Nat) : ∀ (fuel : Nat) (state : W8 UInt32) (rest : Bytes) (r : Nat),
    rest.length = 64 * k + r → 0 < r → r < 64 → k < fuel → Impl256.digest_block_loop fuel state rest = none := by
  induction k with
  | zero =>
    intro fuel state rest r hl h0 h1 hf
    obtain ⟨f, rfl⟩ : ∃ f, fuel = f + 1 := ⟨fuel - 1, by omega⟩
    have hne : rest.length ≠ 0 := by omega
    have hs : slice rest 0 64 = none := by simp [slice]; omega
    simp [Impl256.digest_block_loop, hne, hs]
  | succ k ih =>
    intro fuel state rest r hl h0 h1 hf
    obtain ⟨f, rfl⟩ : ∃ f, fuel = f + 1 := ⟨fuel - 1, by omega⟩
    unfold Impl256.digest_block_loop
    have hne : rest.length ≠ 0 := by omega
    simp only [hne, if_false]
    rw [slice_eq (Nat.zero_le _) (by omega)]
    simp only [List.drop_zero, Nat.sub_zero]
    have ht : (rest.take 64).length = 64 := by simp; omega
    rw [digest_block_u32_eq _ _ ht]
    simp only []
    exact ih f _ (rest.drop 64) r (by simp; omega) h0 h1 (by omega)

/-- a slice that is not a whole number of blocks: `&block[i..i + 64]` panics on the last, short block -/
theorem reference_digest_block_none (state : W8 UInt32) (block : Bytes) (h : block.length % 64 ≠ 0) :
    Impl256.digest_block state block = none := by
  unfold Impl256.digest_block
  exact digest_block_loop_ragged (block.length / 64) _ state block (block.length % 64) (by omega) (by omega)
    (Nat.mod_lt _ (by decide)) (by omega)

/-! ### the drivers -/

theorem fullBlocks_split (block : Bytes) (B q : Nat) (hq : 64 * B * q ≤ block.length) :
    fullBlocks 64 block = takeBlocks 64 (B * q) block ++ fullBlocks 64 (block.drop (64 * B * q)) := by
  unfold fullBlocks
  have e : block.length / 64 = B * q + (block.drop (64 * B * q)).length / 64 := by
    simp only [List.length_drop]
    have : 64 * B * q = 64 * (B * q) := Nat.mul_assoc _ _ _
    omega
  rw [e, takeBlocks_add, Nat.mul_assoc]

/-- **sse41::digest_block = reference::digest_block**, every state, every byte string -/
theorem sse41_eq_reference (state : W8 UInt32) (block : Bytes) :
    Sse41.digest_block state block = Impl256.digest_block state block := by
  unfold Sse41.digest_block
  rw [batch_loop_full good_sse41]
  have hn : Sse41.cfg.n = 4 := rfl
  simp only [hn]
  have hq : 64 * 4 * (block.length / (64 * 4)) ≤ block.length := by omega
  by_cases h : block.length % 64 = 0
  · rw [reference_digest_block_eq state block h, fullBlocks_split block 4 _ hq, List.foldl_append]
    have hr : (block.drop (64 * 4 * (block.length / (64 * 4)))).length % 64 = 0 := by simp; omega
    split
    · exact reference_digest_block_eq _ _ hr
    · rename_i h0
      have : block.drop (64 * 4 * (block.length / (64 * 4))) = [] := List.length_eq_zero_iff.mp (by omega)
      rw [this, fullBlocks_of_lt (by simp)]
      rfl
  · rw [reference_digest_block_none state block h]
    have hr : (block.drop (64 * 4 * (block.length / (64 * 4)))).length % 64 ≠ 0 := by simp; omega
    rw [if_pos (by omega)]
    exact reference_digest_block_none _ _ hr

/-- **avx::digest_block = reference::digest_block**, every state, every byte string -/
theorem avx_eq_reference (state : W8 UInt32) (block : Bytes) :
    Avx.digest_block state block = Impl256.digest_block state block := by
  unfold Avx.digest_block
  rw [batch_loop_full good_avx]
  have hn : Avx.cfg.n = 8 := rfl
  simp only [hn, sse41_eq_reference]
  have hq : 64 * 8 * (block.length / (64 * 8)) ≤ block.length := by omega
  by_cases h : block.length % 64 = 0
  · rw [reference_digest_block_eq state block h, fullBlocks_split block 8 _ hq, List.foldl_append]
    exact reference_digest_block_eq _ _ (by simp; omega)
  · rw [reference_digest_block_none state block h]
    exact reference_digest_block_none _ _ (by simp; omega)

/-! ### mod.rs -/

/-- TABLE: `impl256::digest_block` tries avx first, then sse4.1; otherwise `reference` -/
theorem dispatch_table (ft : Features) :
    selectPath ft Extracted.Simd.DISPATCH_SHA256 = (if ft.avx then 2 else if ft.sse41 then 1 else 0) := by
  obtain ⟨a, b, c⟩ := ft
  cases a <;> cases b <;> cases c <;> decide

theorem digest_block_eq_reference (ft : Features) (state : W8 UInt32) (block : Bytes) :
    SimdSha256.digest_block ft state block = Impl256.digest_block state block := by
  unfold SimdSha256.digest_block
  rw [dispatch_table]
  cases ft.avx
  · cases ft.sse41
    · rfl
    · exact sse41_eq_reference state block
  · exact avx_eq_reference state block

/-! ### the engine and the hashing contexts -/

theorem blocks_eq (ft : Features) : SimdSha256.Engine.blocks ft = Eng256.Engine.blocks := by
  funext e block
  unfold SimdSha256.Engine.blocks Eng256.Engine.blocks
  rw [digest_block_eq_reference]
  split
  · rfl
  · cases Impl256.digest_block e.h block <;> rfl

theorem inputs_abs (iv : W8 UInt32) : ∀ (pieces : List Bytes) (e : Engine256) (msg : Bytes), Abs256 iv e msg →
    ∃ e', Engine256W.inputs Eng256.Engine.blocks e pieces = some e' ∧ Abs256 iv e' (msg ++ pieces.flatten) := by
  intro pieces
  induction pieces with
  | nil => intro e msg h; exact ⟨e, rfl, by simpa using h⟩
  | cons p ps ih =>
    intro e msg h
    obtain ⟨e1, he1, hA1⟩ := abs256_input iv e msg p h
    obtain ⟨e2, he2, hA2⟩ := ih e1 (msg ++ p) hA1
    refine ⟨e2, ?_, by simpa using hA2⟩
    have : Engine256W.input Eng256.Engine.blocks e p = some e1 := he1
    simp only [Engine256W.inputs, this]
    exact he2

/-- the contexts over ANY dispatched block function compute the Spec digest of the concatenated pieces -/
theorem hash_with_eq_spec (ft : Features) (A : Alg256) (trunc : Bytes → Bytes) (hout : OutOK256 A trunc)
    (pieces : List Bytes) (hlen : pieces.flatten.length < 2 ^ 61) :
    hash_with (SimdSha256.Engine.blocks ft) A pieces = some (specDigest256 A trunc pieces.flatten) := by
  rw [blocks_eq]
  obtain ⟨e1, he1, hA1⟩ := inputs_abs A.state pieces (Engine256.new A.state) [] (abs256_new A.state)
  simp only [List.nil_append] at hA1
  obtain ⟨e2, he2, hs, _⟩ := abs256_finish A.state e1 _ hA1 hlen
  have hf : Engine256W.finish Eng256.Engine.blocks e1 = some e2 := he2
  simp only [hash_with, he1, hf, hs, hout _, specDigest256]

/-! ### statements in terms of the reference single-block function and of `schedule256` -/

/-- folding the reference single-block function (`Option`: it panics on a wrong length) over 64-byte blocks never
    panics and is the fold of the FIPS compression -/
theorem foldlM_digest_block_u32 : ∀ (blocks : List Bytes) (state : W8 UInt32), (∀ b ∈ blocks, b.length = 64) →
    blocks.foldlM Impl256.digest_block_u32 state = some (blocks.foldl compress256 state) := by
  intro blocks
  induction blocks with
  | nil => intro state _; rfl
  | cons b bs ih =>
    intro state h
    rw [List.foldlM_cons, digest_block_u32_eq _ _ (h b (by simp))]
    exact ih _ (fun x hx => h x (by simp [hx]))

/-- `W_k` as an entry of the Spec schedule -/
theorem schedule256_getElem? (m : List UInt32) (hm : m.length = 16) (k : Nat) (w : UInt32)
    (h : (schedule256 m)[k]? = some w) : w = Wf m k := by
  rw [schedule256_eq_Wf m hm] at h
  by_cases hk : k < 64
  · simp [hk] at h; exact h.symm
  · rw [List.getElem?_eq_none (by simp; omega)] at h; cases h

/-- `message_schedule_Nways`, lane by lane, against the Spec schedule of each block -/
theorem message_schedule_lanes {C : Cfg} (hC : GoodCfg C) (message : Bytes) (hm : 64 * C.n ≤ message.length) :
    ∃ sch, message_schedule C message = some sch ∧ sch.length = 64 ∧
      ∀ (k : Nat) (kk w : UInt32) (j : Nat) (hj : j < C.n), Impl256.K32[k]? = some kk →
        (schedule256 (wordsBE32 (blockAt message j)))[k]? = some w → ∃ v, sch[k]? = some v ∧ v[j] = w + kk := by
  obtain ⟨sch, h1, h2, h3⟩ := message_schedule_eq hC message hm
  refine ⟨sch, h1, h2, ?_⟩
  intro k kk w j hj hk hw
  have hb : (blockAt message j).length = 64 := blockAt_length (by omega)
  have := schedule256_getElem? _ (by rw [wordsBE32_length, hb]) k w hw
  exact ⟨_, h3 k kk hk, by simp [this]⟩

/-- a list of 64-byte blocks is the list of full blocks of its concatenation -/
theorem fullBlocks_flatten (blocks : List Bytes) (h : ∀ b ∈ blocks, b.length = 64) :
    fullBlocks 64 blocks.flatten = blocks ∧ blocks.flatten.length % 64 = 0 := by
  have := split_unique (N := 64) (by decide) blocks [] h (by simp)
  simp only [List.append_nil] at this
  refine ⟨this.1, ?_⟩
  have hl := blockTail_length (N := 64) blocks.flatten
  rw [this.2] at hl
  simpa using hl.symm

end Cx.Proofs.SimdSha256
