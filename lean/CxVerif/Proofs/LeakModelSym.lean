/-
  Proofs.LeakModelSym — (e) ChaCha / Salsa `process`: erasure and non-interference of the instrumented context
  functions, generic in the instrumented block generator; the instances for the two ChaCha engines (IETF and
  original counter handling) and for Salsa.
-/
import CxVerif.Impl.LeakModelSym
import CxVerif.Proofs.LeakModel
set_option linter.unusedSimpArgs false
set_option linter.unusedVariables false
namespace Cx.Proofs.LeakModel
open Cx Cx.Impl Cx.Impl.LeakModel Cx.Impl.StreamCtx

section Stream
variable {σ : Type}

/-- what has to be known about an instrumented block generator `G` for the generator `g` of a context type:
    it computes `g` (erasure) and its events depend on a PUBLIC projection `pub` of the engine state only (the block
    counter), which the increment maps to itself -/
structure BlockGenLeak (g : BlockGen σ) (G : BlockGenL σ) where
  π : Type
  pub : σ → π
  block_val : ∀ s, (G.blockL s).val = g.block s
  increment_val : ∀ s, (G.incrementL s).val = g.increment s
  block_tr : ∀ s s', pub s = pub s' → (G.blockL s).tr = (G.blockL s').tr
  increment_tr : ∀ s s', pub s = pub s' → (G.incrementL s).tr = (G.incrementL s').tr
  increment_pub : ∀ s s', pub s = pub s' → pub (g.increment s) = pub (g.increment s')
  block_len : ∀ s, (g.block s).length = 64

variable {g : BlockGen σ} {G : BlockGenL σ}

theorem updateL_val (L : BlockGenLeak g G) (c : Ctx σ) : (updateL G c).val = update g c := by
  simp only [updateL, update, bind_val, pure_val, L.block_val, L.increment_val]

theorem xor_keystream_mutL_val (a b : Bytes) : (xor_keystream_mutL a b).val = xor_keystream_mut a b := rfl

theorem process_mutL_val (L : BlockGenLeak g G) (n : Nat) :
    ∀ (c : Ctx σ) (data : Bytes), data.length ≤ n → (process_mutL G c data).val = process_mut g c data := by
  induction n with
  | zero =>
    intro c data h
    have : data = [] := List.eq_nil_of_length_eq_zero (by omega)
    subst this
    unfold process_mutL process_mut
    rfl
  | succ n ih =>
    intro c data h
    cases data with
    | nil => unfold process_mutL process_mut; rfl
    | cons d ds =>
      unfold process_mutL process_mut
      simp only [bind_val, emit_val]
      have hc1 : (if c.offset = 64 then updateL G c else pure c).val = (if c.offset = 64 then update g c else c) := by
        split
        · exact updateL_val L c
        · rfl
      rw [hc1]
      generalize (if c.offset = 64 then update g c else c) = c1
      by_cases hlt : c1.offset < 64
      · simp only [hlt, dite_true, bind_val, xor_keystream_mutL_val]
        cases xor_keystream_mut (List.take (min (64 - c1.offset) (ds.length + 1)) (d :: ds))
            (List.drop c1.offset c1.output) with
        | error e => rfl
        | ok out =>
          simp only [bind_val]
          rw [ih _ _ (by
            simp only [List.length_drop, List.length_cons] at h ⊢
            omega)]
          cases process_mut g _ _ with
          | error e => rfl
          | ok r => rfl
      · simp only [hlt, dite_false, pure_val]

theorem processL_val (L : BlockGenLeak g G) (c : Ctx σ) (input : Bytes) (outputLen : Nat) :
    (processL G c input outputLen).val = process g c input outputLen := by
  unfold processL process
  by_cases h : input.length = outputLen
  · simp only [h, ite_true, bind_val]
    exact process_mutL_val L _ _ _ (Nat.le_refl _)
  · simp [h]

/-- two contexts are indistinguishable to an observer of the PUBLIC data: position in the keystream block, size of
    the keystream buffer (always 64), public projection (block counter) of the engine state -/
def LowEq (L : BlockGenLeak g G) (c c' : Ctx σ) : Prop :=
  c.offset = c'.offset ∧ c.output.length = c'.output.length ∧ L.pub c.state = L.pub c'.state

theorem updateL_ni (L : BlockGenLeak g G) (c c' : Ctx σ) (h : LowEq L c c') :
    (updateL G c).tr = (updateL G c').tr ∧ LowEq L (updateL G c).val (updateL G c').val := by
  obtain ⟨h1, h2, h3⟩ := h
  constructor
  · simp only [updateL, bind_tr, pure_tr, List.append_nil, L.block_tr _ _ h3, L.increment_tr _ _ h3]
  · simp only [updateL, bind_val, pure_val, LowEq, L.block_val, L.increment_val, L.block_len, true_and]
    exact L.increment_pub _ _ h3

theorem xor_keystream_mutL_ni (a b a' b' : Bytes) (ha : a.length = a'.length) (hb : b.length = b'.length) :
    (xor_keystream_mutL a b).tr = (xor_keystream_mutL a' b').tr ∧
      ((∃ e, (xor_keystream_mutL a b).val = .error e ∧ (xor_keystream_mutL a' b').val = .error e) ∨
       (∃ o o', (xor_keystream_mutL a b).val = .ok o ∧ (xor_keystream_mutL a' b').val = .ok o')) := by
  constructor
  · simp only [xor_keystream_mutL, bind_tr, emit_tr, pure_tr, ha, hb]
  · simp only [xor_keystream_mutL, bind_val, pure_val, xor_keystream_mut, ha, hb]
    by_cases h : a'.length ≤ b'.length
    · right; simp [h]
    · left; simp [h]

theorem tail_tr {α β : Type} (out : Bytes) (r : Except String (α × Bytes)) :
    (match r with
      | .error e => (pure (.error e) : LeakM (Except String (α × Bytes)))
      | .ok (c', rest) => pure (.ok (c', out ++ rest))).tr = [] := by
  cases r with
  | error e => rfl
  | ok p => rfl

/-- **non-interference of `process_mut`**, generic in the engine: indistinguishable contexts and data of the same
    length give the same trace (and stay indistinguishable) -/
theorem process_mutL_ni (L : BlockGenLeak g G) (n : Nat) :
    ∀ (c c' : Ctx σ) (data data' : Bytes), data.length ≤ n → data.length = data'.length → LowEq L c c' →
      (process_mutL G c data).tr = (process_mutL G c' data').tr := by
  induction n with
  | zero =>
    intro c c' data data' h hl _
    have : data = [] := List.eq_nil_of_length_eq_zero (by omega)
    subst this
    have : data' = [] := List.eq_nil_of_length_eq_zero (by rw [← hl]; rfl)
    subst this
    unfold process_mutL
    rfl
  | succ n ih =>
    intro c c' data data' h hl hlow
    cases data with
    | nil =>
      have : data' = [] := List.eq_nil_of_length_eq_zero (by rw [← hl]; rfl)
      subst this
      unfold process_mutL
      rfl
    | cons d ds =>
      cases data' with
      | nil => simp at hl
      | cons d' ds' =>
        have hds : ds.length = ds'.length := by simpa using hl
        unfold process_mutL
        simp only [bind_tr, bind_val, emit_tr, emit_val, hlow.1]
        -- the optional `update`
        have hup : (if c.offset = 64 then updateL G c else pure c).tr = (if c'.offset = 64 then updateL G c' else pure c').tr ∧
            LowEq L (if c.offset = 64 then updateL G c else pure c).val
              (if c'.offset = 64 then updateL G c' else pure c').val := by
          rw [hlow.1]
          split
          · exact updateL_ni L c c' hlow
          · exact ⟨rfl, hlow⟩
        rw [hlow.1] at hup
        rw [hup.1]
        generalize (if c'.offset = 64 then updateL G c else pure c).val = c1 at hup ⊢
        generalize (if c'.offset = 64 then updateL G c' else pure c').val = c1' at hup ⊢
        obtain ⟨_, o1, o2, o3⟩ := hup
        congr 3
        by_cases hlt : c1.offset < 64
        · have hlt' : c1'.offset < 64 := o1 ▸ hlt
          simp only [hlt, hlt', dite_true, bind_tr, bind_val]
          obtain ⟨xt, xv⟩ := xor_keystream_mutL_ni
            (List.take (min (64 - c1.offset) (ds.length + 1)) (d :: ds)) (List.drop c1.offset c1.output)
            (List.take (min (64 - c1'.offset) (ds'.length + 1)) (d' :: ds')) (List.drop c1'.offset c1'.output)
            (by simp only [List.length_take, List.length_cons, o1, hds])
            (by simp only [List.length_drop, o1, o2])
          rw [xt]
          congr 1
          rcases xv with ⟨e, e1, e2⟩ | ⟨o, o', e1, e2⟩
          · rw [e1, e2]
          · rw [e1, e2]
            simp only [bind_tr]
            have key := ih { c1 with offset := c1.offset + min (64 - c1.offset) (ds.length + 1) }
              { c1' with offset := c1'.offset + min (64 - c1'.offset) (ds'.length + 1) }
              (List.drop (min (64 - c1.offset) (ds.length + 1)) (d :: ds))
              (List.drop (min (64 - c1'.offset) (ds'.length + 1)) (d' :: ds'))
              (by simp only [List.length_drop, List.length_cons] at h ⊢; omega)
              (by simp only [List.length_drop, List.length_cons, o1, hds])
              ⟨by simp only [o1, hds], o2, o3⟩
            rw [key]
            congr 1
            generalize (process_mutL G { c1 with offset := c1.offset + min (64 - c1.offset) (ds.length + 1) }
              (List.drop (min (64 - c1.offset) (ds.length + 1)) (d :: ds))).val = r
            generalize (process_mutL G { c1' with offset := c1'.offset + min (64 - c1'.offset) (ds'.length + 1) }
              (List.drop (min (64 - c1'.offset) (ds'.length + 1)) (d' :: ds'))).val = r'
            rcases r with e | ⟨c2, rest⟩ <;> rcases r' with e' | ⟨c2', rest'⟩ <;> rfl
        · have hlt' : ¬ c1'.offset < 64 := o1 ▸ hlt
          simp only [hlt, hlt', dite_false]

theorem processL_ni (L : BlockGenLeak g G) (c c' : Ctx σ) (input input' : Bytes) (n : Nat)
    (hl : input.length = input'.length) (hlow : LowEq L c c') :
    (processL G c input n).tr = (processL G c' input' n).tr := by
  unfold processL
  simp only [bind_tr, emit_tr, hl]
  congr 1
  split
  · exact process_mutL_ni L _ c c' input input' (Nat.le_refl _) hl hlow
  · rfl

end Stream
/-! ### the instances -/
section Instances
open Cx.Impl.ChaCha

theorem natToLE_len'' (n v : Nat) : (natToLE n v).length = n := by
  induction n generalizing v with
  | zero => rfl
  | succ n ih => simp [natToLE, ih]

theorem u32le_length (w : UInt32) : (u32le w).length = 4 := natToLE_len'' 4 _

theorem W16_output_bytes_length (w : W16) : (W16.output_bytes w).length = 64 := by
  simp [W16.output_bytes, W16.toList, List.flatMap_cons, u32le_length]

theorem sse2_output_bytes_length (s : Sse2.State) : (Sse2.output_bytes s).length = 64 := by
  simp [Sse2.output_bytes, Sse2._mm_storeu_si128, List.flatMap_cons, u32le_length]

/-- `ChaCha<R>` / `XChaCha<R>` on the portable engine: nothing of the engine state is observable -/
def refLeak (R : Nat) : BlockGenLeak (ChaCha.gen referenceEngine R) (ChaChaL.refGenL R) where
  π := Unit
  pub := fun _ => ()
  block_val := fun _ => rfl
  increment_val := fun _ => rfl
  block_tr := fun _ _ _ => rfl
  increment_tr := fun _ _ _ => rfl
  increment_pub := fun _ _ _ => rfl
  block_len := fun s => W16_output_bytes_length _

/-- `ChaCha<R>` / `XChaCha<R>` on the SSE2 engine -/
def sse2Leak (R : Nat) : BlockGenLeak (ChaCha.gen sse2Engine R) (ChaChaL.sse2GenL R) where
  π := Unit
  pub := fun _ => ()
  block_val := fun _ => rfl
  increment_val := fun _ => rfl
  block_tr := fun _ _ _ => rfl
  increment_tr := fun _ _ _ => rfl
  increment_pub := fun _ _ _ => rfl
  block_len := fun s => sse2_output_bytes_length _

/-- `ChaChaOriginal<R>` on the portable engine: the low counter word `state[12]` is observable (carry branch) -/
def refLeak64 (R : Nat) : BlockGenLeak (ChaChaOriginal.gen referenceEngine R) (ChaChaL.refGen64L R) where
  π := UInt32
  pub := fun s => s.x12
  block_val := fun _ => rfl
  increment_val := fun _ => rfl
  block_tr := fun _ _ _ => rfl
  increment_tr := fun s s' h => by
    show [Event.branch (s.x12 + 1 == 0)] ++ [] = [Event.branch (s'.x12 + 1 == 0)] ++ []
    have h' : s.x12 = s'.x12 := h
    rw [h']
  increment_pub := fun s s' h => by
    have h' : s.x12 = s'.x12 := h
    show (Reference.increment64 s).x12 = (Reference.increment64 s').x12
    unfold Reference.increment64
    simp only []
    split <;> split <;> simp only [h']
  block_len := fun s => W16_output_bytes_length _

/-- `ChaChaOriginal<R>` on the SSE2 engine: lane 0 of row `d` -/
def sse2Leak64 (R : Nat) : BlockGenLeak (ChaChaOriginal.gen sse2Engine R) (ChaChaL.sse2Gen64L R) where
  π := UInt32
  pub := fun s => s.d.l0
  block_val := fun _ => rfl
  increment_val := fun _ => rfl
  block_tr := fun _ _ _ => rfl
  increment_tr := fun s s' h => by
    show [Event.branch (s.d.l0 == 0xFFFFFFFF)] ++ [] = [Event.branch (s'.d.l0 == 0xFFFFFFFF)] ++ []
    have h' : s.d.l0 = s'.d.l0 := h
    rw [h']
  increment_pub := fun s s' h => by
    have h' : s.d.l0 = s'.d.l0 := h
    show (Sse2.increment64 s).d.l0 = (Sse2.increment64 s').d.l0
    unfold Sse2.increment64
    simp only []
    split <;> split <;> simp only [h']
  block_len := fun s => sse2_output_bytes_length _

/-- `Salsa<R>` / `XSalsa<R>`: the low counter word `state[8]` -/
def salsaLeak (R : Nat) : BlockGenLeak (Salsa.gen R) (SalsaL.genL R) where
  π := UInt32
  pub := fun s => s.x8
  block_val := fun _ => rfl
  increment_val := fun _ => rfl
  block_tr := fun _ _ _ => rfl
  increment_tr := fun s s' h => by
    show [Event.branch (s.x8 + 1 == 0)] ++ [] = [Event.branch (s'.x8 + 1 == 0)] ++ []
    have h' : s.x8 = s'.x8 := h
    rw [h']
  increment_pub := fun s s' h => by
    have h' : s.x8 = s'.x8 := h
    show (Salsa.increment s).x8 = (Salsa.increment s').x8
    unfold Salsa.increment
    simp only []
    split <;> split <;> simp only [h']
  block_len := fun s => W16_output_bytes_length _

end Instances

/-! ### fresh contexts are indistinguishable whatever the key -/
section Fresh
open Cx.Impl.ChaCha

theorem mk_lowEq_unit {σ : Type} {g : BlockGen σ} {G : BlockGenL σ} (L : BlockGenLeak g G) (s s' : σ)
    (h : L.pub s = L.pub s') : LowEq L (StreamCtx.mk s) (StreamCtx.mk s') := ⟨rfl, rfl, h⟩

theorem chacha_new_ok {σ : Type} (E : Engine σ) (R : Nat) (key nonce : Bytes) (c : Ctx σ)
    (h : ChaCha.new E R key nonce = .ok c) : ∃ s, c = StreamCtx.mk s := by
  unfold ChaCha.new at h
  split at h
  · cases h
  · split at h
    · cases h
    · split at h
      · cases h
      · split at h
        · cases h; exact ⟨_, rfl⟩
        · cases h

theorem xchacha_new_ok {σ : Type} (E : Engine σ) (R : Nat) (key nonce : Bytes) (c : Ctx σ)
    (h : XChaCha.new E R key nonce = .ok c) : ∃ s, c = StreamCtx.mk s := by
  unfold XChaCha.new at h
  split at h
  · cases h
  · split at h
    · cases h
    · split at h
      · cases h
      · simp only [] at h
        split at h
        · cases h; exact ⟨_, rfl⟩
        · cases h

/-- a fresh `Salsa<R>` context has block counter 0 -/
theorem salsa_new_ok (R : Nat) (key nonce : Bytes) (c : Ctx W16) (h : Salsa.Salsa.new R key nonce = .ok c) :
    ∃ s, c = StreamCtx.mk s ∧ s.x8 = 0 := by
  unfold Salsa.Salsa.new at h
  split at h
  · cases h
  · rename_i hn
    split at h
    · cases h
    · split at h
      · cases h
      · split at h
        · rename_i s hs
          cases h
          refine ⟨s, rfl, ?_⟩
          unfold Salsa.init at hs
          split at hs
          · simp only [] at hs
            split at hs
            · cases hs
            · cases hs
              have h8 : nonce.length = 8 := by simpa using hn
              simp [h8]
          · cases hs
        · cases h

/-- a fresh `ChaChaOriginal<R>` context on the portable engine has block counter 0 -/
theorem chachaOriginal_new_ok (R : Nat) (key nonce : Bytes) (c : Ctx W16)
    (h : ChaChaOriginal.new referenceEngine R key nonce = .ok c) : ∃ s, c = StreamCtx.mk s ∧ s.x12 = 0 := by
  unfold ChaChaOriginal.new at h
  split at h
  · cases h
  · rename_i hn
    have h8 : nonce.length = 8 := by simpa using hn
    split at h
    · cases h
    · split at h
      · cases h
      · split at h
        · rename_i s hs
          cases h
          refine ⟨s, rfl, ?_⟩
          have hs' : Reference.init key nonce = .ok s := hs
          unfold Reference.init at hs'
          have n16 : ¬ nonce.length = 16 := by omega
          have n12 : ¬ nonce.length = 12 := by omega
          have n8 : 8 ≤ nonce.length := by omega
          split at hs'
          · unfold Reference.initNonce at hs'
            simp only [n16, n12, n8, if_false, if_true] at hs'
            cases hs'; rfl
          · split at hs'
            · unfold Reference.initNonce at hs'
              simp only [n16, n12, n8, if_false, if_true] at hs'
              cases hs'; rfl
            · cases hs'
        · cases h

end Fresh

end Cx.Proofs.LeakModel
