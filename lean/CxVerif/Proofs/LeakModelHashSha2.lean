/-
  Proofs.LeakModelHashSha2 — (h) SHA-2: erasure and non-interference of the instrumented `Engine::blocks`,
  `Engine256/512::{input, finish}` and of the `digest!` contexts; the `CtxLeak` instances of the six context types and
  the `DigestLeak` instances of the six legacy wrappers (`Sha224 … Sha512Trunc256` of src/sha2.rs).

  Public shadow of a context: the size and the fill of the 64/128-byte buffer and the `finished` flag.  Chaining value,
  buffered bytes and the byte counter are NOT in it (the counter only flows into the 8/16-byte length field).
-/
import CxVerif.Proofs.LeakModelHash
import CxVerif.Proofs.Sha2Engine
import CxVerif.Proofs.MacInst
import CxVerif.Proofs.MacHmac
set_option linter.unusedSimpArgs false
set_option linter.unusedVariables false
namespace Cx.Proofs.LeakModel
open Cx Cx.Impl Cx.Impl.LeakModel Cx.Impl.Digest Cx.Impl.Sha2 Cx.Impl.LeakModel.Sha2L
open Cx.Proofs.FB (FuncIsBlocks)
open Cx.Proofs.Sha2Engine

/-! ### the block functions: whether they refuse depends on the LENGTH of the argument only -/

theorem blocks256_isSome (s : Eng256.Engine) (d : Bytes) : (s.blocks d).isSome = decide (d.length % 64 = 0) := by
  by_cases h : d.length % 64 = 0
  · rw [blocks256_isBlocks s d h]; simp [h]
  · have hB : Eng256.BLOCK_LEN_BYTES = 64 := by decide
    unfold Eng256.Engine.blocks
    rw [hB, if_pos h]; simp [h]

theorem blocks512_isSome (s : Eng512.Engine) (d : Bytes) : (s.blocks d).isSome = decide (d.length % 128 = 0) := by
  by_cases h : d.length % 128 = 0
  · rw [blocks512_isBlocks compress512_ok s d h]; simp [h]
  · have hB : Eng512.BLOCK_LEN_BYTES = 128 := by decide
    unfold Eng512.Engine.blocks
    rw [hB, if_pos h]; simp [h]

theorem blocks256L_val (s : Eng256.Engine) (d : Bytes) : (blocks256L s d).val = s.blocks d := by
  unfold blocks256L
  rw [LO.emit_bind_val]
  by_cases h : d.length % Eng256.BLOCK_LEN_BYTES ≠ 0
  · rw [if_pos h]; unfold Eng256.Engine.blocks; rw [if_pos h]; exact LO.lift_val _
  · rw [if_neg h, LO.emit_bind_val]; exact LO.lift_val _

theorem blocks512L_val (s : Eng512.Engine) (d : Bytes) : (blocks512L s d).val = s.blocks d := by
  unfold blocks512L
  rw [LO.emit_bind_val]
  by_cases h : d.length % Eng512.BLOCK_LEN_BYTES ≠ 0
  · rw [if_pos h]; unfold Eng512.Engine.blocks; rw [if_pos h]; exact LO.lift_val _
  · rw [if_neg h, LO.emit_bind_val]; exact LO.lift_val _

/-- the chaining value is secret: nothing of it is public (`fun _ _ => True`) -/
theorem blocks256L_ni (s s' : Eng256.Engine) (x x' : Bytes) (hx : x.length = x'.length) :
    NI (blocks256L s x) (blocks256L s' x') (fun _ _ => True) := by
  unfold blocks256L
  rw [← hx]
  refine NI.bind (NI.emit _) (fun _ _ _ => NI.guard (NI.bind (NI.emit _) (fun _ _ _ => NI.lift _ _ ?_ ?_)))
  · rw [blocks256_isSome, blocks256_isSome, hx]
  · intros; trivial

theorem blocks512L_ni (s s' : Eng512.Engine) (x x' : Bytes) (hx : x.length = x'.length) :
    NI (blocks512L s x) (blocks512L s' x') (fun _ _ => True) := by
  unfold blocks512L
  rw [← hx]
  refine NI.bind (NI.emit _) (fun _ _ _ => NI.guard (NI.bind (NI.emit _) (fun _ _ _ => NI.lift _ _ ?_ ?_)))
  · rw [blocks512_isSome, blocks512_isSome, hx]
  · intros; trivial

/-! ### Engine256 -/

theorem Engine256.inputL_val (e : Engine256) (inp : Bytes) : (Engine256.inputL e inp).val = e.input inp := by
  unfold Engine256.inputL Engine256.input
  rw [LO.emit_bind_val]
  by_cases h : e.finished = true
  · rw [if_pos h, if_pos h]; exact LO.lift_val _
  · rw [if_neg h, if_neg h]
    lo_bind2 (FixedBuffer.inputL_val 64 _ _ blocks256L Eng256.Engine.blocks blocks256L_val _)
    exact LO.pure_val _

theorem Engine256.finishL_val (e : Engine256) : (Engine256.finishL e).val = e.finish := by
  unfold Engine256.finishL Engine256.finish
  rw [LO.emit_bind_val]
  by_cases h : e.finished = true
  · rw [if_pos h, if_pos h]; exact LO.pure_val _
  · rw [if_neg h, if_neg h]
    lo_bind2 (FixedBuffer.standard_paddingL_val 64 _ 8 blocks256L Eng256.Engine.blocks blocks256L_val _)
    lo_bind (FixedBuffer.next_writeL_val _ _ _)
    lo_bind2 (FixedBuffer.full_bufferL_val _ _)
    lo_bind (blocks256L_val _ _)
    exact LO.pure_val _

/-- two engines are indistinguishable: same buffer size and fill, same `finished` flag -/
def LowE256 (e e' : Engine256) : Prop := LowB e.buffer e'.buffer ∧ e.finished = e'.finished

theorem Engine256.inputL_ni (e e' : Engine256) (b b' : Bytes) (he : LowE256 e e') (hb : b.length = b'.length) :
    NI (Engine256.inputL e b) (Engine256.inputL e' b') LowE256 := by
  unfold Engine256.inputL
  rw [← he.2]
  refine NI.bind (NI.emit _) (fun _ _ _ => NI.guard ?_)
  refine NI.bind (FixedBuffer.inputL_ni (R := fun _ _ => True) 64 _ _ b b' blocks256L
    (fun s s' x x' _ hx => blocks256L_ni s s' x x' hx) _ _ he.1 hb trivial) (fun r r' hr => ?_)
  exact NI.pure _ _ ⟨hr.1, rfl⟩

theorem len_be64_length' (n : Nat) : (len_be64 n).length = 8 := Cx.Proofs.FB.len_be64_length n

theorem len_be128_length' (n : Nat) : (len_be128 n).length = 16 := Cx.Proofs.FB.len_be128_length n

theorem Engine256.finishL_ni (e e' : Engine256) (he : LowE256 e e') :
    NI (Engine256.finishL e) (Engine256.finishL e') LowE256 := by
  unfold Engine256.finishL
  rw [← he.2]
  refine NI.bind (NI.emit _) (fun _ _ _ => NI.ite Iff.rfl (NI.pure _ _ he) ?_)
  refine NI.bind (FixedBuffer.standard_paddingL_ni (R := fun _ _ => True) 64 _ _ 8 blocks256L
    (fun s s' x x' _ hx => blocks256L_ni s s' x x' hx) _ _ he.1 trivial) (fun r r' hr => ?_)
  refine NI.bind (FixedBuffer.next_writeL_ni _ _ 8 _ _ hr.1 (by rw [len_be64_length', len_be64_length']))
    (fun b b' hb => ?_)
  refine NI.bind (FixedBuffer.full_bufferL_ni 64 b b' hb) (fun fb fb' hfb => ?_)
  refine NI.bind (blocks256L_ni _ _ _ _ hfb.2) (fun s s' _ => NI.pure _ _ ⟨hfb.1, rfl⟩)

/-! ### Engine512 -/

theorem Engine512.inputL_val (e : Engine512) (inp : Bytes) : (Engine512.inputL e inp).val = e.input inp := by
  unfold Engine512.inputL Engine512.input
  lo_bind2 (FixedBuffer.inputL_val 128 _ _ blocks512L Eng512.Engine.blocks blocks512L_val _)
  exact LO.pure_val _

theorem Engine512.finishL_val (e : Engine512) : (Engine512.finishL e).val = e.finish := by
  unfold Engine512.finishL Engine512.finish
  lo_bind2 (FixedBuffer.standard_paddingL_val 128 _ 16 blocks512L Eng512.Engine.blocks blocks512L_val _)
  lo_bind (FixedBuffer.next_writeL_val _ _ _)
  lo_bind2 (FixedBuffer.full_bufferL_val _ _)
  lo_bind (blocks512L_val _ _)
  exact LO.pure_val _

def LowE512 (e e' : Engine512) : Prop := LowB e.buffer e'.buffer

theorem Engine512.inputL_ni (e e' : Engine512) (b b' : Bytes) (he : LowE512 e e') (hb : b.length = b'.length) :
    NI (Engine512.inputL e b) (Engine512.inputL e' b') LowE512 := by
  unfold Engine512.inputL
  refine NI.bind (FixedBuffer.inputL_ni (R := fun _ _ => True) 128 _ _ b b' blocks512L
    (fun s s' x x' _ hx => blocks512L_ni s s' x x' hx) _ _ he hb trivial) (fun r r' hr => ?_)
  exact NI.pure _ _ hr.1

theorem Engine512.finishL_ni (e e' : Engine512) (he : LowE512 e e') :
    NI (Engine512.finishL e) (Engine512.finishL e') LowE512 := by
  unfold Engine512.finishL
  refine NI.bind (FixedBuffer.standard_paddingL_ni (R := fun _ _ => True) 128 _ _ 16 blocks512L
    (fun s s' x x' _ hx => blocks512L_ni s s' x x' hx) _ _ he trivial) (fun r r' hr => ?_)
  refine NI.bind (FixedBuffer.next_writeL_ni _ _ 16 _ _ hr.1 (by rw [len_be128_length', len_be128_length']))
    (fun b b' hb => ?_)
  refine NI.bind (FixedBuffer.full_bufferL_ni 128 b b' hb) (fun fb fb' hfb => ?_)
  refine NI.bind (blocks512L_ni _ _ _ _ hfb.2) (fun s s' _ => NI.pure _ _ hfb.1)

/-! ### the `digest!` contexts -/

/-- `$output_fn` on the constant-size array `[0; $output_bits / 8]` never refuses and writes a fixed number of bytes
    (from `Proofs.Sha2Engine.outOK_*`) -/
def OutLen256 (A : Alg256) : Prop :=
  ∃ n, ∀ e : Eng256.Engine, ∃ o, A.output_fn e (zeros (A.output_bits / 8)) = some o ∧ o.length = n

def OutLen512 (A : Alg512) : Prop :=
  ∃ n, ∀ e : Eng512.Engine, ∃ o, A.output_fn e (zeros (A.output_bits / 8)) = some o ∧ o.length = n

theorem wordsToBytes32_length (h : Spec.Sha2.W8 UInt32) : (Spec.Sha2.wordsToBytes32 h).length = 32 := by
  simp [Spec.Sha2.wordsToBytes32, Spec.Sha2.W8.toList, List.flatMap_cons, u32be_length]

theorem wordsToBytes64_length (h : Spec.Sha2.W8 UInt64) : (Spec.Sha2.wordsToBytes64 h).length = 64 := by
  simp [wordsToBytes64_eq, u64be_length]

theorem outLen_sha256 : OutLen256 Sha256 := ⟨32, fun e => ⟨_, outOK_sha256 e, wordsToBytes32_length _⟩⟩
theorem outLen_sha224 : OutLen256 Sha224 :=
  ⟨28, fun e => ⟨_, outOK_sha224 e, by rw [List.length_take, wordsToBytes32_length]; rfl⟩⟩
theorem outLen_sha512 : OutLen512 Sha512 :=
  ⟨64, fun e => ⟨_, outOK_sha512 e, by rw [List.length_take, wordsToBytes64_length]; rfl⟩⟩
theorem outLen_sha384 : OutLen512 Sha384 :=
  ⟨48, fun e => ⟨_, outOK_sha384 e, by rw [List.length_take, wordsToBytes64_length]; rfl⟩⟩
theorem outLen_sha512_256 : OutLen512 Sha512Trunc256 :=
  ⟨32, fun e => ⟨_, outOK_sha512_256 e, by rw [List.length_take, wordsToBytes64_length]; rfl⟩⟩
theorem outLen_sha512_224 : OutLen512 Sha512Trunc224 :=
  ⟨28, fun e => ⟨_, outOK_sha512_224 e, by rw [List.length_take, wordsToBytes64_length]; rfl⟩⟩

theorem Ctx256.update_mutL_val (c : Ctx256) (b : Bytes) : (Ctx256.update_mutL c b).val = c.update_mut b := by
  unfold Ctx256.update_mutL Ctx256.update_mut
  lo_bind (Engine256.inputL_val _ _)
  exact LO.pure_val _

theorem Ctx256.finalize_resetL_val (A : Alg256) (c : Ctx256) :
    (Ctx256.finalize_resetL A c).val = c.finalize_reset A := by
  unfold Ctx256.finalize_resetL Ctx256.finalize_reset
  lo_bind (Engine256.finishL_val _)
  lo_bind (LO.lift_val _)
  exact LO.pure_val _

theorem Ctx512.update_mutL_val (c : Ctx512) (b : Bytes) : (Ctx512.update_mutL c b).val = c.update_mut b := by
  unfold Ctx512.update_mutL Ctx512.update_mut
  lo_bind (Engine512.inputL_val _ _)
  exact LO.pure_val _

theorem Ctx512.finalize_resetL_val (A : Alg512) (c : Ctx512) :
    (Ctx512.finalize_resetL A c).val = c.finalize_reset A := by
  unfold Ctx512.finalize_resetL Ctx512.finalize_reset
  lo_bind (Engine512.finishL_val _)
  lo_bind (LO.lift_val _)
  exact LO.pure_val _

/-- the public shadow of a 32-bit-family context: buffer size, fill, `finished` -/
def pub256 (c : Ctx256) : Nat × Nat × Bool :=
  (c.engine.buffer.buffer.length, c.engine.buffer.buffer_idx, c.engine.finished)

/-- the public shadow of a 64-bit-family context: buffer size, fill -/
def pub512 (c : Ctx512) : Nat × Nat := (c.engine.buffer.buffer.length, c.engine.buffer.buffer_idx)

theorem pub256_iff (c c' : Ctx256) : pub256 c = pub256 c' ↔ LowE256 c.engine c'.engine := by
  unfold pub256 LowE256 LowB
  constructor
  · intro h
    simp only [Prod.mk.injEq] at h
    exact ⟨⟨h.1, h.2.1⟩, h.2.2⟩
  · intro h
    rw [h.1.1, h.1.2, h.2]

theorem pub512_iff (c c' : Ctx512) : pub512 c = pub512 c' ↔ LowE512 c.engine c'.engine := by
  unfold pub512 LowE512 LowB
  constructor
  · intro h
    simp only [Prod.mk.injEq] at h
    exact h
  · intro h
    rw [h.1, h.2]

theorem Ctx256.update_mutL_ni (c c' : Ctx256) (b b' : Bytes) (hc : pub256 c = pub256 c') (hb : b.length = b'.length) :
    NI (Ctx256.update_mutL c b) (Ctx256.update_mutL c' b') (fun e e' => pub256 e = pub256 e') := by
  unfold Ctx256.update_mutL
  exact NI.bind (Engine256.inputL_ni _ _ b b' ((pub256_iff c c').mp hc) hb)
    (fun e e' he => NI.pure _ _ ((pub256_iff ⟨e⟩ ⟨e'⟩).mpr he))

theorem Ctx256.finalize_resetL_ni (A : Alg256) (hA : OutLen256 A) (c c' : Ctx256) (hc : pub256 c = pub256 c') :
    NI (Ctx256.finalize_resetL A c) (Ctx256.finalize_resetL A c')
      (fun r r' => pub256 r.1 = pub256 r'.1 ∧ r.2.length = r'.2.length) := by
  unfold Ctx256.finalize_resetL
  obtain ⟨n, hn⟩ := hA
  refine NI.bind (Engine256.finishL_ni _ _ ((pub256_iff c c').mp hc)) (fun e e' he => ?_)
  obtain ⟨o, ho, hol⟩ := hn e.state
  obtain ⟨o', ho', hol'⟩ := hn e'.state
  rw [ho, ho']
  refine NI.bind (R := fun x x' => x.length = x'.length)
    (NI.lift _ _ rfl (fun a a' h h' => by cases h; cases h'; rw [hol, hol'])) (fun x x' hx => ?_)
  refine NI.pure _ _ ⟨?_, hx⟩
  exact (pub256_iff _ _).mpr ⟨⟨he.1.1, rfl⟩, rfl⟩

theorem Ctx256.resetL_ni (A : Alg256) (c c' : Ctx256) (hc : pub256 c = pub256 c') :
    NI (Ctx256.resetL A c) (Ctx256.resetL A c') (fun e e' => pub256 e = pub256 e') := by
  unfold Ctx256.resetL
  refine NI.pure _ _ ((pub256_iff _ _).mpr ⟨⟨((pub256_iff c c').mp hc).1.1, rfl⟩, rfl⟩)

theorem Ctx512.update_mutL_ni (c c' : Ctx512) (b b' : Bytes) (hc : pub512 c = pub512 c') (hb : b.length = b'.length) :
    NI (Ctx512.update_mutL c b) (Ctx512.update_mutL c' b') (fun e e' => pub512 e = pub512 e') := by
  unfold Ctx512.update_mutL
  exact NI.bind (Engine512.inputL_ni _ _ b b' ((pub512_iff c c').mp hc) hb)
    (fun e e' he => NI.pure _ _ ((pub512_iff ⟨e⟩ ⟨e'⟩).mpr he))

theorem Ctx512.finalize_resetL_ni (A : Alg512) (hA : OutLen512 A) (c c' : Ctx512) (hc : pub512 c = pub512 c') :
    NI (Ctx512.finalize_resetL A c) (Ctx512.finalize_resetL A c')
      (fun r r' => pub512 r.1 = pub512 r'.1 ∧ r.2.length = r'.2.length) := by
  unfold Ctx512.finalize_resetL
  obtain ⟨n, hn⟩ := hA
  refine NI.bind (Engine512.finishL_ni _ _ ((pub512_iff c c').mp hc)) (fun e e' he => ?_)
  obtain ⟨o, ho, hol⟩ := hn e.state
  obtain ⟨o', ho', hol'⟩ := hn e'.state
  rw [ho, ho']
  refine NI.bind (R := fun x x' => x.length = x'.length)
    (NI.lift _ _ rfl (fun a a' h h' => by cases h; cases h'; rw [hol, hol'])) (fun x x' hx => ?_)
  refine NI.pure _ _ ⟨?_, hx⟩
  exact (pub512_iff _ _).mpr ⟨he.1, rfl⟩

theorem Ctx512.resetL_ni (A : Alg512) (c c' : Ctx512) (hc : pub512 c = pub512 c') :
    NI (Ctx512.resetL A c) (Ctx512.resetL A c') (fun e e' => pub512 e = pub512 e') := by
  unfold Ctx512.resetL
  refine NI.pure _ _ ((pub512_iff _ _).mpr ⟨((pub512_iff c c').mp hc).1, rfl⟩)

/-- **`CtxLeak` for the 32-bit family** (`Context224`, `Context256`) -/
def sha2Ctx256Leak (A : Alg256) (id : Nat) (hA : OutLen256 A) : CtxLeak (sha2Ctx256 A id) (sha2Ctx256L A) where
  π := Nat × Nat × Bool
  pub := pub256
  update_val := Ctx256.update_mutL_val
  reset_val _ := LO.pure_val _
  finalize_val := Ctx256.finalize_resetL_val A
  update_ni := Ctx256.update_mutL_ni
  reset_ni := Ctx256.resetL_ni A
  finalize_ni := Ctx256.finalize_resetL_ni A hA

/-- **`CtxLeak` for the 64-bit family** (`Context384`, `Context512`, `Context512_224`, `Context512_256`) -/
def sha2Ctx512Leak (A : Alg512) (id : Nat) (hA : OutLen512 A) : CtxLeak (sha2Ctx512 A id) (sha2Ctx512L A) where
  π := Nat × Nat
  pub := pub512
  update_val := Ctx512.update_mutL_val
  reset_val _ := LO.pure_val _
  finalize_val := Ctx512.finalize_resetL_val A
  update_ni := Ctx512.update_mutL_ni
  reset_ni := Ctx512.resetL_ni A
  finalize_ni := Ctx512.finalize_resetL_ni A hA

/-! ### the six legacy wrappers of src/sha2.rs satisfy `DigestLeak` — no hypothesis left -/

def sha224Leak : DigestLeak (legacyDigest sha224Ctx) (legacyDigestL sha224CtxL) :=
  legacyLeak (sha2Ctx256Leak Sha224 1 outLen_sha224)
def sha256Leak : DigestLeak (legacyDigest sha256Ctx) (legacyDigestL sha256CtxL) :=
  legacyLeak (sha2Ctx256Leak Sha256 2 outLen_sha256)
def sha384Leak : DigestLeak (legacyDigest sha384Ctx) (legacyDigestL sha384CtxL) :=
  legacyLeak (sha2Ctx512Leak Sha384 3 outLen_sha384)
def sha512Leak : DigestLeak (legacyDigest sha512Ctx) (legacyDigestL sha512CtxL) :=
  legacyLeak (sha2Ctx512Leak Sha512 4 outLen_sha512)
def sha512_224Leak : DigestLeak (legacyDigest sha512_224Ctx) (legacyDigestL sha512_224CtxL) :=
  legacyLeak (sha2Ctx512Leak Sha512Trunc224 5 outLen_sha512_224)
def sha512_256Leak : DigestLeak (legacyDigest sha512_256Ctx) (legacyDigestL sha512_256CtxL) :=
  legacyLeak (sha2Ctx512Leak Sha512Trunc256 6 outLen_sha512_256)

/-! ### the guards of `Props.C08.hmac_sha256` from a bound on the message length -/

theorem sha256_keyBlock_length (key : Bytes) : (Spec.Hmac.keyBlock Spec.Sha2.sha256 64 key).length = 64 := by
  simp only [Spec.Hmac.keyBlock]
  split
  · simp [zeros]; omega
  · simp [zeros, Cx.Proofs.MacInst.sha256_length]

theorem hmac_sha256_guards (key m : Bytes) (h : m.length + 64 < 2 ^ 61) :
    Cx.Props.C02.Sha2.ok256 (Cx.Proofs.MacHmac.ikey Spec.Sha2.sha256 64 key ++ m) ∧
    Cx.Props.C02.Sha2.ok256 (Cx.Proofs.MacHmac.okey Spec.Sha2.sha256 64 key ++
      Spec.Sha2.sha256 (Cx.Proofs.MacHmac.ikey Spec.Sha2.sha256 64 key ++ m)) := by
  unfold Cx.Props.C02.Sha2.ok256
  constructor
  · simp only [List.length_append, Cx.Proofs.MacHmac.ikey, Spec.Hmac.xorPad, List.length_map, sha256_keyBlock_length]
    omega
  · simp only [List.length_append, Cx.Proofs.MacHmac.okey, Spec.Hmac.xorPad, List.length_map, sha256_keyBlock_length,
      Cx.Proofs.MacInst.sha256_length]
    omega

end Cx.Proofs.LeakModel
