/-
  Proofs.AeadDeps — discharges the hypothesis `CipherDeps` of Proofs.Aead from the delivered theorems of the
  stream unit (C03/C04): for BOTH engine models (`S : EngineSim E α`: `referenceSim`, `sse2Sim`), every key of 16 or
  32 bytes, every 12-byte nonce and R ∈ {8, 12, 20} the IETF `ChaCha<R>` context refines the absolute keystream
  position.  Also: the blockwise `…Fast` evaluation used by the driver equals the Spec.

  `MacDeps` (Poly1305 = RFC 8439 §2.5 for every chunking) is discharged by the poly1305 unit's
  `Cx.Proofs.Poly1305.mac_eq` (C05): `macDeps`.
-/
import CxVerif.Proofs.Aead
import CxVerif.Proofs.StreamEngine
import CxVerif.Proofs.StreamFast
import CxVerif.Proofs.Poly1305Stream
namespace Cx.Proofs.Aead
open Cx Cx.Impl Cx.Impl.ChaCha
set_option linter.unusedSimpArgs false
set_option linter.unusedVariables false

variable {σ : Type} {E : Engine σ} {α : σ → W16}

/-- the stream unit's refinement, in the shape the AEAD proofs use -/
theorem cipherDeps (S : Cx.Proofs.ChaCha.EngineSim E α) (R : Nat) (key nonce : Bytes)
    (hk : Spec.ChaCha.validKey key) (hn : nonce.length = 12) (hR : Spec.ChaCha.validRounds R) :
    ∃ At, CipherDeps E R key nonce At := by
  obtain ⟨s0, hnew, hv, habs⟩ := Cx.Proofs.ChaCha.chacha_new S R key nonce hk hn hR
  have Rf := (Cx.Proofs.ChaCha.chacha_refines S R key nonce hn s0 hv).gen
  exact ⟨Cx.Proofs.Stream.Abs (Cx.Proofs.ChaCha.mk32 E s0) (Spec.ChaCha.blockAt R key nonce),
    { new_at := ⟨_, hnew, habs⟩
      process_mut_at := fun c p data h => Cx.Proofs.Stream.process_mut_refines Rf c p data h
      block_len := fun n => Cx.Proofs.ChaCha.block_length _ _ _ _ }⟩

/-- use a theorem stated for an abstract `At` with the stream unit's refinement -/
theorem with_cipher {P : Prop} (S : Cx.Proofs.ChaCha.EngineSim E α) {R : Nat} {key nonce : Bytes}
    (hk : Spec.ChaCha.validKey key) (hn : nonce.length = 12) (hR : Spec.ChaCha.validRounds R)
    (f : ∀ At, CipherDeps E R key nonce At → P) : P := by
  obtain ⟨At, D⟩ := cipherDeps S R key nonce hk hn hR
  exact f At D

/-- the poly1305 unit's C05 theorem, in the shape the AEAD proofs use -/
theorem macDeps : MacDeps := ⟨fun key chunks _ => Cx.Proofs.Poly1305.mac_eq _ key chunks⟩

/-- the driver's blockwise evaluation is the Spec -/
theorem cipherFast_eq (R : Nat) (key nonce data : Bytes) :
    Spec.Aead.cipherFast R key nonce data = Spec.Aead.cipher R key nonce data :=
  Cx.Proofs.Stream.encryptFast_eq _ (fun n => Cx.Proofs.ChaCha.block_length _ _ _ _) 64 data

theorem encryptFast_eq (R : Nat) (key nonce aad pt : Bytes) :
    Spec.Aead.encryptFast R key nonce aad pt = Spec.Aead.encrypt R key nonce aad pt := by
  simp [Spec.Aead.encryptFast, Spec.Aead.encrypt, cipherFast_eq]

theorem decryptFast_eq (R : Nat) (key nonce aad ct t : Bytes) :
    Spec.Aead.decryptFast R key nonce aad ct t = Spec.Aead.decrypt R key nonce aad ct t := by
  simp [Spec.Aead.decryptFast, Spec.Aead.decrypt, cipherFast_eq]

end Cx.Proofs.Aead
