/-
  Proofs.MacInstBlake2 — the legacy BLAKE2 wrappers (`Impl.Digest.Blake2`, model of src/blake2b.rs / src/blake2s.rs)
  as `Digest` objects (`impl Digest for Blake2b / Blake2s`, dictionary `blake2Digest`) satisfy the DIGEST-object
  contract of Proofs.MacObj — the shape `hmac_generic`, `hkdf_extract_generic`, `hkdf_expand_generic`,
  `pbkdf2_generic` (Props/C08, C10) require:

      Contract (digestFam D) nn [nn, 8·nn, BLOCK_BYTES] (fun _ => none) (fun _ _ => True) RelB FinB

  for EVERY output length 0 < nn ≤ maxOut (64 / 32), in the tree as it is (`CodeVariant.repaired`):
  result after inputs = BLAKE2(nn, key of the object, concatenation), second result / input after result are
  refused, `reset` = fresh (same key), `output_bytes = nn`, `output_bits = 8·nn`, `block_size = 128 / 64`,
  no `reset_with_key` in `trait Digest`.  The abstraction relation is the one of the MAC contract
  (Proofs/MacBlake2.lean: `RelB`, `FinB`; the hash function is RFC 7693 BLAKE2 under the key the object RETAINS), so
  the statement covers keyed objects used through `trait Digest` as well; the object built by the UNKEYED
  constructor `Blake2b::new(nn)` is in `RelB … (blake2 P nn []) []` (`new_rel`), i.e. H = unkeyed BLAKE2-nn — that is
  the object `Hmac::new(Blake2b::new(nn), key)` receives.

  Second part: `ResultLen` (Proofs/GlueMac.lean: "a `&mut [u8]` handed to `Digest::result` keeps its length", the one
  fact the translator tie of src/hmac.rs needs about the digest dictionary).  For the BLAKE2 wrappers the UNRESTRICTED
  `ResultLen` is false on junk states no constructor produces (`outlen` field larger than the 64 / 32 bytes of `h`:
  `resultLen_junk`), so it is stated on the data-structure invariant `outlen ≤ maxOut` (`blake2_resultLenOn`; the
  constructors assert it, no method changes `outlen`), and the tie theorems of src/hmac.rs are re-proved from the
  pointwise fact (`ResultLenAt`) at exactly the two `result` calls where the generated code uses it.
-/
import CxVerif.Proofs.MacBlake2
import CxVerif.Proofs.MacHmac
import CxVerif.Proofs.GlueMac
namespace Cx.Proofs.MacInstBlake2
open Cx Cx.Impl.Digest Cx.Proofs.MacObj Cx.Proofs.MacBlake2 Cx.Proofs.Blake2 Cx.Spec.Blake2
open Cx.Impl.Blake2 (Ctx Profile ContextDyn)

/-! ## the digest-object contract -/

section generic
variable {W : Type} [Word W]

/-- **the contract of the BLAKE2 `Digest` objects in the tree as it is**, every output length, every retained key
    (`bb` = what `block_size()` returns) -/
theorem blake2_digest_contract (P : Params W) (g : Good P) (nn : Nat) (hn : 0 < nn ∧ nn ≤ P.maxOut) (bb : Nat) :
    Contract (digestFam (blake2Digest .repaired P bb)) nn [nn, nn * 8, bb] (fun _ => none) (fun _ _ => True)
      (RelB P nn) (FinB P nn) :=
  have hM := blake2_contract P g nn hn
  have hbytes : ∀ s : Blake2 W, s.ctx.outlen = nn →
      (blake2Digest .repaired P bb).output_bytes s = nn := by
    intro s ho
    simp only [DigestModel.output_bytes, blake2Digest, ContextDyn.output_bits, ho]
    omega
  { input := hM.input
    raw_result := hM.raw_result
    raw_bad := hM.raw_bad
    result := by
      intro s f m hr hok
      obtain ⟨s', e, hf⟩ := hM.raw_result s f m hr hok
      refine ⟨s', ?_, hf⟩
      show (blake2Digest .repaired P bb).result s ((blake2Digest .repaired P bb).output_bytes s) = _
      rw [hbytes s hr.2.2.1]
      exact e
    reset := hM.reset
    reset_fin := hM.reset_fin
    rekey := by intro s f m k f' _ hk; cases hk
    rekey_fin := by intro s f k f' _ hk; cases hk
    rekey_bad := by intros; rfl
    rekey_bad_fin := by intros; rfl
    fin_input := hM.fin_input
    fin_result := by
      intro s f hf
      exact hM.fin_raw s f _ hf
    fin_raw := hM.fin_raw
    out_rel := fun s f m hr => hbytes s hr.2.2.1
    out_fin := fun s f hf => hbytes s hf.2.2.1
    sizes_rel := by
      intro s f m hr
      show [(blake2Digest .repaired P bb).output_bytes s, s.ctx.output_bits, bb] = _
      rw [hbytes s hr.2.2.1, ContextDyn.output_bits, hr.2.2.1]
    sizes_fin := by
      intro s f hf
      show [(blake2Digest .repaired P bb).output_bytes s, s.ctx.output_bits, bb] = _
      rw [hbytes s hf.2.2.1, ContextDyn.output_bits, hf.2.2.1]
    len := hM.len }

/-- the UNKEYED constructor `new(outlen)`: the fresh object of H = BLAKE2-nn without key -/
theorem new_rel (P : Params W) (g : Good P) (nn : Nat) (hn : 0 < nn ∧ nn ≤ P.maxOut) :
    ∃ o, Blake2.new P nn = some o ∧ o.key = [] ∧ RelB P nn o (blake2 P nn []) [] := by
  refine ⟨{ ctx := { ctx := newState P nn [], outlen := nn }, computed := false, key := [] }, ?_, rfl, rfl, rfl, rfl,
    newState_relA P g nn hn.2 [] (Nat.zero_le _)⟩
  simp [Blake2.new, ContextDyn.new, ContextDyn.new_keyed, new_keyed_eq P nn [] hn (Nat.zero_le _), hn.1, hn.2]

/-- outside the domain the constructor refuses (`assert!(outlen > 0 && outlen <= MAX_OUTLEN)`) -/
theorem new_refuses (P : Params W) (nn : Nat) (hn : ¬ (0 < nn ∧ nn ≤ P.maxOut)) : Blake2.new P nn = none := by
  have : ¬ (nn > 0 ∧ nn ≤ P.maxOut) := hn
  simp [Blake2.new, ContextDyn.new, this]

/-- the keyed constructor, as a `Digest` object: H = BLAKE2-nn under that key (kept across `reset`) -/
theorem new_keyed_rel_digest (P : Params W) (g : Good P) (nn : Nat) (hn : 0 < nn ∧ nn ≤ P.maxOut) (key : Bytes)
    (hk : key.length ≤ P.maxKey) (keyAssert : Nat) (hka : key.length ≤ keyAssert) :
    ∃ o, Blake2.new_keyed P keyAssert nn key = some o ∧ RelB P nn o (blake2 P nn key) [] :=
  new_keyed_rel P g nn hn key hk keyAssert hka

end generic

/-! ### BLAKE2b / BLAKE2s -/

theorem b_block : Extracted.Blake2.B_BLOCK_BYTES = 128 := by decide
theorem s_block : Extracted.Blake2.S_BLOCK_BYTES = 64 := by decide
theorem b_maxOut : Spec.Blake2.b.maxOut = 64 := by decide
theorem s_maxOut : Spec.Blake2.s.maxOut = 32 := by decide

/-- `impl Digest for Blake2b` (legacy wrapper): digest-object contract for every 1 ≤ nn ≤ 64; L = nn, bits = 8·nn,
    B = 128 -/
theorem blake2b_digest_contract (nn : Nat) (h : 1 ≤ nn ∧ nn ≤ 64) :
    Contract (digestFam (blake2bDigest codeVariant)) nn [nn, nn * 8, 128] (fun _ => none) (fun _ _ => True)
      (RelB Spec.Blake2.b nn) (FinB Spec.Blake2.b nn) := by
  have := blake2_digest_contract Spec.Blake2.b good_b nn ⟨h.1, by rw [b_maxOut]; exact h.2⟩ 128
  simpa only [blake2bDigest, codeVariant, impl_b_eq_spec_b, b_block] using this

/-- `impl Digest for Blake2s`: every 1 ≤ nn ≤ 32; L = nn, bits = 8·nn, B = 64 -/
theorem blake2s_digest_contract (nn : Nat) (h : 1 ≤ nn ∧ nn ≤ 32) :
    Contract (digestFam (blake2sDigest codeVariant)) nn [nn, nn * 8, 64] (fun _ => none) (fun _ _ => True)
      (RelB Spec.Blake2.s nn) (FinB Spec.Blake2.s nn) := by
  have := blake2_digest_contract Spec.Blake2.s good_s nn ⟨h.1, by rw [s_maxOut]; exact h.2⟩ 64
  simpa only [blake2sDigest, codeVariant, impl_s_eq_spec_s, s_block] using this

/-- `Blake2b::new(nn)` is the fresh object of H = unkeyed BLAKE2b-nn -/
theorem blake2b_new_rel (nn : Nat) (h : 1 ≤ nn ∧ nn ≤ 64) :
    ∃ o, Blake2.new Impl.Blake2.b nn = some o ∧ o.key = [] ∧
      RelB Spec.Blake2.b nn o (Spec.Blake2.blake2b nn []) [] := by
  have := new_rel Spec.Blake2.b good_b nn ⟨h.1, by rw [b_maxOut]; exact h.2⟩
  rw [impl_b_eq_spec_b]; exact this

theorem blake2s_new_rel (nn : Nat) (h : 1 ≤ nn ∧ nn ≤ 32) :
    ∃ o, Blake2.new Impl.Blake2.s nn = some o ∧ o.key = [] ∧
      RelB Spec.Blake2.s nn o (Spec.Blake2.blake2s nn []) [] := by
  have := new_rel Spec.Blake2.s good_s nn ⟨h.1, by rw [s_maxOut]; exact h.2⟩
  rw [impl_s_eq_spec_s]; exact this

theorem blake2b_new_refuses (nn : Nat) (h : ¬ (1 ≤ nn ∧ nn ≤ 64)) : Blake2.new Impl.Blake2.b nn = none := by
  rw [impl_b_eq_spec_b]; exact new_refuses Spec.Blake2.b nn (by rw [b_maxOut]; exact h)

theorem blake2s_new_refuses (nn : Nat) (h : ¬ (1 ≤ nn ∧ nn ≤ 32)) : Blake2.new Impl.Blake2.s nn = none := by
  rw [impl_s_eq_spec_s]; exact new_refuses Spec.Blake2.s nn (by rw [s_maxOut]; exact h)

/-! ## `ResultLen` on the data-structure invariant, and the src/hmac.rs ties from the pointwise fact -/

section resultlen
open Cx.Impl.Hmac Cx.Extracted.GlueMac Cx.Proofs.GlueMac
variable {δ : Type} (D : DigestModel δ)

/-- `ResultLen` at one object -/
def ResultLenAt (d : δ) : Prop := ∀ (d' : δ) (n : Nat) (out : Bytes), D.result d n = some (d', out) → out.length = n

/-- `ResultLen` on the objects satisfying `I` -/
def ResultLenOn (I : δ → Prop) : Prop := ∀ d, I d → ResultLenAt D d

theorem resultLen_iff : ResultLen D ↔ ResultLenOn D (fun _ => True) :=
  ⟨fun h d _ d' n out e => h d d' n out e, fun h d d' n out e => h d trivial d' n out e⟩

/-- a digest object inside a `Contract` (not finished: inside the domain of the hash) keeps buffer lengths: a value is
    returned only into a buffer of `L` bytes and has `L` bytes -/
theorem resultLenAt_of_contract {L : Nat} {sizes : List Nat} {fk : Bytes → Option Fn} {okD : Fn → Bytes → Prop}
    {RelD : δ → Fn → Bytes → Prop} {FinD : δ → Fn → Prop}
    (hD : Contract (digestFam D) L sizes fk okD RelD FinD) (d : δ) (f : Fn) :
    ((∃ m, RelD d f m ∧ okD f m) ∨ FinD d f) → ResultLenAt D d := by
  rintro (⟨m, hr, hok⟩ | hf) d' n out e
  · by_cases hn : n = L
    · subst hn
      obtain ⟨s', e', _⟩ := hD.raw_result d f m hr hok
      have e'' : D.result d n = some (s', f m) := e'
      rw [e''] at e
      cases e
      exact hD.len d f m hr hok
    · have e' : D.result d n = none := hD.raw_bad d f m n hr hok hn
      rw [e'] at e; cases e
  · have e' : D.result d n = none := hD.fin_raw d f n hf
    rw [e'] at e; cases e

/-- `expand_key` of src/hmac.rs (generated) = the hand model, from `ResultLenAt` at the one object whose `result` is
    taken (the digest after `input(key)`) -/
theorem hmac_expand_key_eq_at (digest : δ) (key : Bytes)
    (hD : ¬ key.length ≤ D.block_size digest → ∀ d1, D.input digest key = some d1 → ResultLenAt D d1) :
    Hmac.expand_key_src D digest key = expand_key D digest key := by
  unfold Hmac.expand_key_src expand_key copy_prefix
  have hz : (zeros (D.block_size digest)).length = D.block_size digest := by simp [zeros]
  by_cases hk : key.length ≤ D.block_size digest
  · simp only [if_pos hk, hz]
  · simp only [if_neg hk, hz]
    cases hi : D.input digest key with
    | none => rfl
    | some d1 =>
      simp only
      by_cases ho : D.output_bytes digest ≤ D.block_size digest
      · have hno : ¬ ¬ D.output_bytes digest ≤ D.block_size digest := fun h => h ho
        simp only [if_pos ho, if_neg hno]
        cases hr : D.result d1 (D.output_bytes digest) with
        | none => rfl
        | some p =>
          obtain ⟨d2, out⟩ := p
          simp only [hD hk d1 hi _ _ _ hr]
          cases D.reset d2 with
          | none => rfl
          | some d3 => rfl
      · simp only [if_neg ho, if_pos ho]

theorem hmac_new_eq_at (digest : δ) (key : Bytes)
    (hD : ¬ key.length ≤ D.block_size digest → ∀ d1, D.input digest key = some d1 → ResultLenAt D d1) :
    Hmac.new_src D digest key = Hmac.new D digest key := by
  unfold Hmac.new_src Hmac.new Hmac.create_keys_src create_keys
  rw [hmac_expand_key_eq_at D digest key hD]
  cases expand_key D digest key with
  | none => rfl
  | some p => rfl

/-- `raw_result` (generated) = the hand model, from `ResultLenAt` at the wrapped digest object -/
theorem hmac_raw_result_eq_at (self : Hmac δ) (output : Bytes) (hD : ResultLenAt D self.digest) :
    Hmac.raw_result_src D self output = Hmac.raw_result D self output.length := by
  unfold Hmac.raw_result_src Hmac.raw_result Hmac.raw_result_k1_src
  by_cases hf : (!self.finished) = true
  · simp only [if_pos hf]
    cases hr : D.result self.digest output.length with
    | none => rfl
    | some p =>
      obtain ⟨d1, out1⟩ := p
      simp only
      cases D.reset d1 with
      | none => rfl
      | some d2 =>
        simp only
        cases D.input d2 self.o_key with
        | none => rfl
        | some d3 =>
          simp only
          cases D.input d3 out1 with
          | none => rfl
          | some d4 =>
            simp only [hD _ _ _ hr]
            cases D.result d4 output.length with
            | none => rfl
            | some p => obtain ⟨a, b⟩ := p; rfl
  · simp only [if_neg hf]
    cases D.result self.digest output.length with
    | none => rfl
    | some p => obtain ⟨a, b⟩ := p; rfl

theorem hmac_result_eq_at (self : Hmac δ) (hD : ResultLenAt D self.digest) :
    Hmac.result_src D self = asMacResultO (Hmac.result D self) := by
  unfold Hmac.result_src Hmac.result asMacResultO
  simp only [hmac_raw_result_eq_at D self _ hD]
  have hz : (zeros (D.output_bytes self.digest)).length = D.output_bytes self.digest := by simp [zeros]
  rw [hz]
  cases Hmac.raw_result D self (D.output_bytes self.digest) with
  | none => rfl
  | some p => rfl

/-- **End to end through the GENERATED functions of src/hmac.rs, from the digest-object contract ALONE** (the
    `ResultLen` hypothesis of `Props.C05.GlueTieMac.hmac_src_rfc2104` is a consequence of the contract at the two
    `result` calls where the generated code needs it): `Hmac::new(d0, key)`, one `input` per chunk, `result()` as the
    source says them now return RFC 2104 HMAC_H(key, concatenation) for EVERY key length and EVERY chunking. -/
theorem hmac_src_rfc2104_of_contract (H : Fn) (B : Nat) (key : Bytes)
    (RelD : δ → Fn → Bytes → Prop) (FinD : δ → Fn → Prop) {L bits : Nat} {okD : Fn → Bytes → Prop}
    (hD : Contract (digestFam D) L [L, bits, B] (fun _ => none) okD RelD FinD) (hLB : L ≤ B)
    (d0 : δ) (h0 : RelD d0 H []) (chunks : List Bytes) (hk : key.length ≤ B ∨ okD H key)
    (hok : Proofs.MacHmac.okH H B key okD (Spec.Hmac.hmac H B key) chunks.flatten) :
    ∃ h h' h'', Hmac.new_src D d0 key = some h ∧ chunks.foldlM (Hmac.input_src D) h = some h' ∧
      Hmac.result_src D h' = some (h'', ⟨Spec.Hmac.hmac H B key chunks.flatten⟩) := by
  obtain ⟨h, e, hr⟩ := Proofs.MacHmac.hmac_new D H B key RelD FinD hD hLB d0 h0 hk
  have hC := Proofs.MacHmac.hmac_contract D H B key RelD FinD hD
  obtain ⟨h', e', hr'⟩ := Proofs.MacHmac.feed_chunks hC (Spec.Hmac.hmac H B key) chunks h [] hr
  have hr'' : Proofs.MacHmac.RelH H B key RelD h' (Spec.Hmac.hmac H B key) chunks.flatten := by simpa using hr'
  obtain ⟨h'', e'', _⟩ := hC.result h' _ _ hr'' hok
  have e3 : Hmac.result D h' = some (h'', Spec.Hmac.hmac H B key chunks.flatten) := e''
  refine ⟨h, h', h'', ?_, e', ?_⟩
  · rw [hmac_new_eq_at D d0 key]
    · exact e
    · intro hle d1 hi
      have hsz : [D.output_bytes d0, D.output_bits d0, D.block_size d0] = [L, bits, B] := hD.sizes_rel d0 H [] h0
      have hbs : D.block_size d0 = B := by simpa using congrArg (fun l => l.getD 2 0) hsz
      rw [hbs] at hle
      have hokk : okD H key := hk.resolve_left hle
      obtain ⟨d1', e1, hr1⟩ := hD.input d0 H [] key h0
      have e1' : D.input d0 key = some d1' := e1
      rw [e1'] at hi; cases hi
      exact resultLenAt_of_contract D hD d1 H (Or.inl ⟨key, by simpa using hr1, hokk⟩)
  · rw [hmac_result_eq_at D h' (resultLenAt_of_contract D hD h'.digest H (Or.inl ⟨_, hr''.2.2.2.2, hok.1⟩)), e3]
    rfl

end resultlen

/-! ### the BLAKE2 wrappers -/

section blake2len
open Cx.Proofs.GlueMac
variable {W : Type} [Word W]

theorem setSlice_zero_length (buf src : Bytes) :
    (Impl.Blake2.setSlice buf 0 src).length = src.length + (buf.length - src.length) := by
  simp [Impl.Blake2.setSlice]

/-- after `internal_final` the staging buffer holds at least the `8·wbytes` bytes of `h` -/
theorem internal_final_buf_len (P : Params W) (pr : Profile) (c c' : Ctx W)
    (h : Ctx.internal_final P pr c = some c') : 8 * wbytes W ≤ c'.buf.length := by
  unfold Ctx.internal_final at h
  split at h
  · cases h
  · cases h
    simp only [setSlice_zero_length, hbytes_length]
    omega

/-- **`ResultLen` of the BLAKE2 `Digest` dictionaries on the invariant `outlen ≤ MAX_OUTLEN`** (both code variants):
    a value is written only into a buffer of `outlen` bytes, and it is the first `outlen` of the ≥ 8·wbytes bytes of
    the staging buffer -/
theorem blake2_resultLenOn (v : CodeVariant) (P : Params W) (g : Good P) (bb : Nat) :
    ResultLenOn (blake2Digest v P bb) (fun d => d.ctx.outlen ≤ P.maxOut) := by
  intro d hI d' n out e
  have e' : Blake2.finalize P d n = some (d', out) := e
  unfold Blake2.finalize at e'
  split at e'
  · cases e'
  · simp only [ContextDyn.finalize_reset_at, Ctx.finalize_reset_at] at e'
    by_cases hn : n = d.ctx.outlen
    · subst hn
      cases hf : Ctx.internal_final P blakeProfile d.ctx.ctx with
      | none => simp [hf] at e'
      | some c =>
        simp only [hf, ne_eq, not_true_eq_false, if_false, Option.some.injEq, Prod.mk.injEq] at e'
        obtain ⟨_, rfl⟩ := e'
        have h1 := internal_final_buf_len P _ _ _ hf
        have h2 := g.out_le
        have hI' : d.ctx.outlen ≤ P.maxOut := hI
        simp only [List.length_take]
        omega
    · simp [hn] at e'

/-- the invariant is established by both constructors and preserved by every method of the object -/
theorem outlen_new (P : Params W) (nn : Nat) (o : Blake2 W) (h : Blake2.new P nn = some o) : o.ctx.outlen ≤ P.maxOut := by
  unfold Blake2.new ContextDyn.new at h
  split at h
  · cases h
  · rename_i c hc
    split at hc
    · cases hc
    · rename_i hn
      unfold ContextDyn.new_keyed at hc
      split at hc
      · cases hc
      · cases hc; cases h
        have : nn > 0 ∧ nn ≤ P.maxOut := Classical.not_not.mp hn
        exact this.2

theorem outlen_update (P : Params W) (s s' : Blake2 W) (b : Bytes) (h : Blake2.update P s b = some s') :
    s'.ctx.outlen = s.ctx.outlen := by
  unfold Blake2.update ContextDyn.update_mut at h
  split at h
  · cases h
  · split at h
    · cases h
    · rename_i c hc
      split at hc
      · cases hc
      · cases hc; cases h; rfl

theorem outlen_finalize (P : Params W) (s s' : Blake2 W) (n : Nat) (out : Bytes)
    (h : Blake2.finalize P s n = some (s', out)) : s'.ctx.outlen = s.ctx.outlen := by
  unfold Blake2.finalize ContextDyn.finalize_reset_at at h
  split at h
  · cases h
  · split at h
    · cases h
    · rename_i c o hc
      split at hc
      · cases hc
      · cases hc; cases h; rfl

theorem outlen_reset (v : CodeVariant) (P : Params W) (s s' : Blake2 W) (h : Blake2.reset v P s = some s') :
    s'.ctx.outlen = s.ctx.outlen := by
  unfold Blake2.reset at h
  cases v with
  | current => cases h; rfl
  | repaired =>
    simp only at h
    split at h
    · unfold ContextDyn.reset_with_key at h
      split at h
      · cases h
      · rename_i c hc
        split at hc
        · cases hc
        · cases hc; cases h; rfl
    · cases h; rfl

/-- the UNRESTRICTED `ResultLen` is false for the BLAKE2 dictionaries: a junk object whose `outlen` field exceeds the
    `8·wbytes` bytes of `h` (no constructor produces it) answers `result(&mut [0; outlen])` with only `8·wbytes` bytes —
    in Rust that state does not exist (`ContextDyn::new` asserts `outlen ≤ MAX_OUTLEN`), whence the invariant above -/
theorem resultLen_junk (v : CodeVariant) (P : Params W) (bb : Nat) : ¬ ResultLen (blake2Digest v P bb) := by
  intro h
  let d : Blake2 W :=
    { ctx := { ctx := { eng := { h := P.iv, t0 := 0, t1 := 0 }, buf := [], buflen := 0 }, outlen := 8 * wbytes W + 1 },
      computed := false, key := [] }
  cases hr : (blake2Digest v P bb).result d (8 * wbytes W + 1) with
  | none =>
    simp [blake2Digest, Blake2.finalize, d, ContextDyn.finalize_reset_at, Ctx.finalize_reset_at, Ctx.internal_final,
      Impl.Blake2.Engine.increment_counter, Impl.Blake2.addAssign, blakeProfile] at hr
  | some p =>
    obtain ⟨d', out⟩ := p
    have hl := h d d' _ out hr
    simp [blake2Digest, Blake2.finalize, d, ContextDyn.finalize_reset_at, Ctx.finalize_reset_at, Ctx.internal_final,
      Impl.Blake2.Engine.increment_counter, Impl.Blake2.addAssign, blakeProfile] at hr
    obtain ⟨_, rfl⟩ := hr
    simp only [List.length_take, setSlice_zero_length, hbytes_length] at hl
    simp [Impl.Blake2.zeroFrom, zeros] at hl

end blake2len

end Cx.Proofs.MacInstBlake2
