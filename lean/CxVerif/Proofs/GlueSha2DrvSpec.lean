/-
  Proofs.GlueSha2DrvSpec — the hand model `Impl512.digest_block_loop` on a byte string that is NOT a whole number of 128-byte blocks:
  `&block[0..128]` panics on the last, short block (the SHA-256 counterpart is `digest_block_loop_ragged` of Proofs/SimdSha256Batch.lean).
  Used by Props/C01/GlueTieSha2Drv.lean.
-/
import CxVerif.Proofs.Sha2Engine
namespace Cx.Proofs.GlueSha2Drv
open Cx Cx.Spec.Sha2 Cx.Impl Cx.Impl.Sha2 Cx.Proofs.FB Cx.Proofs.Sha2Compress Cx.Proofs.Sha2Engine

theorem loop512_ragged (k : Nat) : ∀ (fuel : Nat) (state : W8 UInt64) (rest : Bytes) (r : Nat),
    rest.length = 128 * k + r → 0 < r → r < 128 → k < fuel → Impl512.digest_block_loop fuel state rest = none := by
  induction k with
  | zero =>
    intro fuel state rest r hl h0 h1 hf
    obtain ⟨f, rfl⟩ : ∃ f, fuel = f + 1 := ⟨fuel - 1, by omega⟩
    have hne : rest.length ≠ 0 := by omega
    have hs : slice rest 0 128 = none := by simp [slice]; omega
    simp [Impl512.digest_block_loop, hne, hs]
  | succ k ih =>
    intro fuel state rest r hl h0 h1 hf
    obtain ⟨f, rfl⟩ : ∃ f, fuel = f + 1 := ⟨fuel - 1, by omega⟩
    unfold Impl512.digest_block_loop
    have hne : rest.length ≠ 0 := by omega
    simp only [hne, if_false]
    rw [slice_eq (Nat.zero_le _) (by omega)]
    simp only [List.drop_zero, Nat.sub_zero]
    have ht : (rest.take 128).length = 128 := by simp; omega
    simp only [read_u64v_be, ht, ne_eq, not_true_eq_false, if_false]
    rw [compress512_ok _ _ (by rw [wordsBE64_length, ht])]
    simp only []
    exact ih f _ (rest.drop 128) r (by simp; omega) h0 h1 (by omega)

end Cx.Proofs.GlueSha2Drv
