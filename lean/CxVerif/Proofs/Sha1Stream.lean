/-
  Proofs.Sha1Stream — the SHA-1 context of sha1.rs (FixedBuffer<64>, `processed_bytes`, `mk_result`) refines
  "bytes since the last reset": instantiation of the generic Merkle–Damgård framework (Proofs/FixedBuffer.lean)
  with N = 64, rem = 8, big-endian 64-bit length, compression = `digest_block` (= FIPS §6.1.2 by
  `Proofs.Sha1.digest_block_u32_eq`).
-/
import CxVerif.Proofs.Sha1
import CxVerif.Proofs.Sha1Chunks
import CxVerif.Proofs.FixedBuffer
import CxVerif.Proofs.HashProg
namespace Cx.Proofs.Sha1Stream
open Cx Cx.Impl Cx.Impl.Sha1 Cx.Proofs.FB Cx.Proofs.Sha1Chunks
open Cx.Spec.Sha1 (Hash compressBytes H0 hashValue)

/-! ### the closures -/

/-- `digest_block` on a 64-byte block: no panic, FIPS compression of the parsed words -/
theorem digest_block_spec : FuncOneBlock 64 digest_block compressBytes := by
  intro s d hd
  unfold digest_block compressBytes
  rw [if_pos (by rw [hd]; rfl), Cx.Proofs.Sha1.digest_block_u32_eq s _ (wordsBE32_length d hd)]

theorem digest_blocks_go_spec (bs : List Bytes) : ∀ (s : Hash), (∀ b ∈ bs, b.length = 64) →
    digest_blocks_go s bs = some (bs.foldl compressBytes s) := by
  induction bs with
  | nil => intro s _; rfl
  | cons b bs ih =>
    intro s h
    simp only [digest_blocks_go, digest_block_spec s b (h b (by simp)), List.foldl_cons]
    exact ih _ (fun x hx => h x (by simp [hx]))

/-- `digest_blocks` (the closure of `update_mut`) on a whole number of blocks -/
theorem digest_blocks_spec : FuncIsBlocks 64 digest_blocks compressBytes := by
  intro s d hd
  unfold digest_blocks
  rw [show BLOCK_BYTES = 64 from rfl, chunks_eq_fullBlocks (by decide) d hd]
  exact digest_blocks_go_spec _ s (fullBlocks_all_len d)

/-! ### abstraction relation -/

/-- context `c` has absorbed exactly `msg` since `new` / `reset` -/
def Abs (c : Context) (msg : Bytes) : Prop :=
  c.processed_bytes.toNat = msg.length % 2 ^ 64 ∧ WF 64 c.buffer ∧ c.buffer.data = blockTail 64 msg
  ∧ c.h = (fullBlocks 64 msg).foldl compressBytes H0

theorem abs_new : Abs Context.new [] := by
  refine ⟨rfl, new_WF (by decide), ?_, ?_⟩
  · simp [Context.new, new_data, blockTail]
  · simp [Context.new, Cx.Proofs.Sha1.H_eq, fullBlocks, takeBlocks]

/-- `reset` from any state whose array has its size: the dead bytes of the buffer are irrelevant -/
theorem abs_reset (c : Context) (hl : c.buffer.buffer.length = 64) : Abs c.reset [] := by
  refine ⟨rfl, ⟨hl, by simp [Context.reset, FixedBuffer.reset]⟩, ?_, ?_⟩
  · simp [Context.reset, FixedBuffer.reset, FixedBuffer.data, blockTail]
  · simp [Context.reset, Cx.Proofs.Sha1.H_eq, fullBlocks, takeBlocks]

theorem abs_update (c : Context) (msg inp : Bytes) (h : Abs c msg) :
    ∃ c', c.update_mut inp = some c' ∧ Abs c' (msg ++ inp) := by
  obtain ⟨hp, hw, hd, hs⟩ := h
  obtain ⟨b', eq, hw', hd'⟩ := input_spec (by decide) c.buffer inp digest_blocks compressBytes c.h hw
    digest_blocks_spec
  unfold Context.update_mut
  simp only [eq]
  refine ⟨_, rfl, ?_, hw', ?_, ?_⟩
  · simp only [UInt64.toNat_add, UInt64.toNat_ofNat', hp, List.length_append]
    omega
  · rw [hd', hd, ← blockTail_append (by decide)]
  · simp only [hs, hd]
    rw [fullBlocks_append (by decide) msg, List.foldl_append]

/-- `(self.processed_bytes << 3).to_be_bytes()` -/
theorem len_bytes_eq (pb : UInt64) : u64be (pb <<< 3) = len_be64 pb.toNat := by
  unfold u64be len_be64
  congr 1
  rw [UInt64.toNat_shiftLeft]
  simp [Nat.shiftLeft_eq]

theorem mk_result_eq (c : Context) :
    Context.mk_result c = (md_finish 64 8 (len_be64 c.processed_bytes.toNat) c.buffer digest_block c.h).map
      (fun p => ((⟨p.2, c.processed_bytes, p.1⟩ : Context), p.2.toBytes)) := by
  unfold Context.mk_result md_finish md_finish_with
  rw [len_bytes_eq]
  cases h1 : c.buffer.standard_padding 64 8 digest_block c.h with
  | none => rfl
  | some p =>
    obtain ⟨b1, s1⟩ := p
    simp only []
    cases h2 : b1.next_write 8 (len_be64 c.processed_bytes.toNat) with
    | none => rfl
    | some b2 =>
      simp only []
      cases h3 : b2.full_buffer 64 with
      | none => rfl
      | some q =>
        obtain ⟨b3, blk⟩ := q
        simp only []
        cases h4 : digest_block s1 blk with
        | none => rfl
        | some s2 => rfl

/-- `mk_result` inside the FIPS length domain: no panic, the output is the FIPS digest of the absorbed bytes -/
theorem abs_mk_result (c : Context) (msg : Bytes) (h : Abs c msg) (hlen : msg.length < 2 ^ 61) :
    ∃ c', Context.mk_result c = some (c', Cx.Spec.Sha1.sha1 msg) ∧ c'.buffer.buffer.length = 64 := by
  obtain ⟨hp, hw, hd, hs⟩ := h
  obtain ⟨b', eq, hw', _⟩ := md_finish_spec (N := 64) (rem := 8) (by decide) (by decide) c.buffer
    (len_be64 c.processed_bytes.toNat) (len_be64_length _) digest_block compressBytes c.h hw digest_block_spec
  rw [mk_result_eq, eq]
  have hX : (fullBlocks 64 (c.buffer.data ++ [(128 : UInt8)] ++ zeros (Cx.Spec.MD.padZeros 64 8 c.buffer.data.length) ++
      len_be64 c.processed_bytes.toNat)).foldl compressBytes c.h = hashValue msg := by
    unfold hashValue
    rw [hs, hd, hp, len_be64_eq hlen, md_hash_split (by decide) 8 compressBytes H0 Cx.Spec.MD.be64 msg]
  rw [hX]
  exact ⟨⟨hashValue msg, c.processed_bytes, b'⟩, rfl, hw'.1⟩

/-! ### the state machine -/

open Cx.Proofs.HashProg in
/-- **the SHA-1 context refines "bytes since the last reset"** (all five methods) -/
theorem refines : Refines fam Cx.Spec.Sha1.sha1 Abs (fun m => m.length < 2 ^ 61) where
  new := abs_new
  update := fun c m b hR => abs_update c m b hR
  update_mut := fun c m b hR => abs_update c m b hR
  reset := fun c _ hR => abs_reset c hR.2.1.1
  finalize_reset := by
    intro c m hR hok
    obtain ⟨c', he, hl⟩ := abs_mk_result c m hR hok
    exact ⟨c'.reset, by simp [fam, Context.finalize_reset, he], abs_reset c' hl⟩
  finalize := by
    intro c m hR hok
    obtain ⟨c', he, _⟩ := abs_mk_result c m hR hok
    simp [fam, Context.finalize, he]

/-- one-shot: `Sha1::new().update(msg).finalize()` -/
theorem oneShot_eq (msg : Bytes) (hlen : msg.length < 2 ^ 61) :
    Cx.Impl.Sha1.sha1 msg = some (Cx.Spec.Sha1.sha1 msg) := by
  obtain ⟨c1, h1, hA⟩ := abs_update Context.new [] msg abs_new
  simp only [List.nil_append] at hA
  obtain ⟨c2, h2, _⟩ := abs_mk_result c1 msg hA hlen
  simp [Cx.Impl.Sha1.sha1, Context.update, h1, Context.finalize, h2]

end Cx.Proofs.Sha1Stream
