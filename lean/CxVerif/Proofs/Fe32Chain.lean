/-
  Proofs.Fe32Chain — the remaining multiplicative operators of fe32: `square_and_double`, `mul_small`,
  `square_repeatdly`, and the addition chains of fe/mod.rs run on the 32-bit backend:
  `invert z = z^(p−2)`, `pow25523 z = z^((p−5)/8)` for every operand of weight ≤ 3.
-/
import CxVerif.Proofs.Fe32Mul
import CxVerif.Proofs.Field25519
namespace Cx.Proofs.Fe32
open Cx Cx.Spec Cx.Impl.Fe32
open Cx.Spec.Field25519 (p)

theorem W1_W3 {f : Fe} (h : W 1 f) : W 3 f := W.mono (by decide) h


/-! ## square_and_double -/

theorem square_and_double_spec (f : Fe) (hf : W 3 f) :
    ∃ h, square_and_double f = some h ∧ W 1 h ∧ eval h = Field25519.mul 2 (Field25519.sq (eval f)) := by
  obtain ⟨c, ec, hc, vc⟩ := sq_cols_spec f hf
  obtain ⟨c0, c1, c2, c3, c4, c5, c6, c7, c8, c9⟩ := c
  unfold ColH at hc
  simp only at hc
  have hd : Col ⟨c0 + c0, c1 + c1, c2 + c2, c3 + c3, c4 + c4, c5 + c5, c6 + c6, c7 + c7, c8 + c8, c9 + c9⟩ := by
    unfold Col; simp only; omega
  obtain ⟨r, er, hr, vr⟩ := carry_mul_spec _ hd
  refine ⟨r, ?_, hr, ?_⟩
  · unfold square_and_double
    rw [ec, some_bind]
    simp only
    rw [add64_bind _ _ _ (by omega), add64_bind _ _ _ (by omega), add64_bind _ _ _ (by omega),
      add64_bind _ _ _ (by omega), add64_bind _ _ _ (by omega), add64_bind _ _ _ (by omega),
      add64_bind _ _ _ (by omega), add64_bind _ _ _ (by omega), add64_bind _ _ _ (by omega),
      add64_bind _ _ _ (by omega)]
    exact er
  · have h2 : val ⟨c0 + c0, c1 + c1, c2 + c2, c3 + c3, c4 + c4, c5 + c5, c6 + c6, c7 + c7, c8 + c8, c9 + c9⟩
        = 2 * val ⟨c0, c1, c2, c3, c4, c5, c6, c7, c8, c9⟩ := by unfold val; simp only; ring
    have hv : val r % (p : Int) = (2 * (val f * val f)) % (p : Int) := by
      rw [vr, h2, Int.mul_emod, vc, ← Int.mul_emod]
    unfold eval
    rw [hv, mul_bridge 2 (val f * val f), mul_bridge (val f) (val f)]
    rfl

/-! ## mul_small -/

theorem mul_small_spec (f : Fe) (s : Nat) (hf : W 3 f) (hs : s ≤ 2^18) :
    ∃ h, mul_small f s = some h ∧ W 1 h ∧ eval h = Field25519.mul (eval f) s := by
  obtain ⟨f0, f1, f2, f3, f4, f5, f6, f7, f8, f9⟩ := f
  have hs32 : s % 2^32 = s := Nat.mod_eq_of_lt (by omega)
  unfold W at hf
  simp only at hf
  have b0 := emul_bnd f0 (s : Int) (3 * 2^25) (2^18) (by omega) (by omega)
  have b1 := emul_bnd f1 (s : Int) (3 * (2^24 + 2^20)) (2^18) (by omega) (by omega)
  have b2 := emul_bnd f2 (s : Int) (3 * 2^25) (2^18) (by omega) (by omega)
  have b3 := emul_bnd f3 (s : Int) (3 * (2^24 + 2^20)) (2^18) (by omega) (by omega)
  have b4 := emul_bnd f4 (s : Int) (3 * 2^25) (2^18) (by omega) (by omega)
  have b5 := emul_bnd f5 (s : Int) (3 * (2^24 + 2^20)) (2^18) (by omega) (by omega)
  have b6 := emul_bnd f6 (s : Int) (3 * 2^25) (2^18) (by omega) (by omega)
  have b7 := emul_bnd f7 (s : Int) (3 * (2^24 + 2^20)) (2^18) (by omega) (by omega)
  have b8 := emul_bnd f8 (s : Int) (3 * 2^25) (2^18) (by omega) (by omega)
  have b9 := emul_bnd f9 (s : Int) (3 * (2^24 + 2^20)) (2^18) (by omega) (by omega)
  unfold emul at b0 b1 b2 b3 b4 b5 b6 b7 b8 b9
  have hc : ColS ⟨f0 * s, f1 * s, f2 * s, f3 * s, f4 * s, f5 * s, f6 * s, f7 * s, f8 * s, f9 * s⟩ := by
    unfold ColS; simp only; omega
  obtain ⟨r, er, hr, vr⟩ := carry_par_spec _ hc
  refine ⟨r, ?_, hr, ?_⟩
  · unfold mul_small
    simp only [hs32]
    rw [mul64_bind _ _ _ (by omega), mul64_bind _ _ _ (by omega), mul64_bind _ _ _ (by omega),
      mul64_bind _ _ _ (by omega), mul64_bind _ _ _ (by omega), mul64_bind _ _ _ (by omega),
      mul64_bind _ _ _ (by omega), mul64_bind _ _ _ (by omega), mul64_bind _ _ _ (by omega),
      mul64_bind _ _ _ (by omega)]
    exact er
  · have h2 : val ⟨f0 * s, f1 * s, f2 * s, f3 * s, f4 * s, f5 * s, f6 * s, f7 * s, f8 * s, f9 * s⟩
        = val ⟨f0, f1, f2, f3, f4, f5, f6, f7, f8, f9⟩ * (s : Int) := by unfold val; simp only; ring
    unfold eval
    rw [vr, h2, mul_bridge]
    congr 1
    have : ((s : Int) % (p : Int)).toNat = s % p := by
      have : ((s : Int) % (p : Int)) = ((s % p : Nat) : Int) := by norm_cast
      rw [this, Int.toNat_natCast]
    rw [this]
    exact Nat.mod_eq_of_lt (by rw [pN_eq]; omega)

/-! ## square_repeatdly -/

/-- `n` squarings: `z ↦ z^(2^n)`; reduced as soon as `n > 0`; `square_repeatdly(0)` returns its argument (fix k) -/
theorem square_repeatdly_spec (n : Nat) : ∀ (f : Fe), W 3 f →
    ∃ h, square_repeatdly f n = some h ∧ (0 < n → W 1 h) ∧ (n = 0 → h = f) ∧
      eval h = (eval f) ^ (2^n) % p := by
  induction n with
  | zero =>
    intro f _
    refine ⟨f, rfl, by omega, fun _ => rfl, ?_⟩
    simp [eval_mod]
  | succ n ih =>
    intro f hf
    obtain ⟨g, hg, hgt, hgv⟩ := square_spec f hf
    obtain ⟨h, hh, hht, hh0, hhv⟩ := ih g (W1_W3 hgt)
    refine ⟨h, ?_, ?_, by omega, ?_⟩
    · simp only [square_repeatdly, hg]; exact hh
    · intro _
      by_cases hn : n = 0
      · rw [hh0 hn]; exact hgt
      · exact hht (by omega)
    · rw [hhv, hgv]
      have : Field25519.sq (eval f) = (eval f) ^ 2 % p := by
        unfold Field25519.sq; rw [Nat.pow_two]
      rw [this, ← Nat.pow_mod, ← Nat.pow_mul, Nat.pow_succ, Nat.mul_comm]

/-- the pre-fix loop (`for _ in 0..n` after one unconditional squaring) squared once for `n = 0`:
    the current model returns the argument itself -/
theorem square_repeatdly_zero (f : Fe) : square_repeatdly f 0 = some f := rfl

/-! ## addition chains -/

/-- `eval h` is the `e`-th power of `z`, `h` reduced -/
def IsPow (z : Fe) (h : Fe) (e : Nat) : Prop := W 1 h ∧ eval h = (eval z) ^ e % p

theorem mul_pow {z a b : Fe} {i j : Nat} (ha : IsPow z a i) (hb : IsPow z b j) :
    ∃ h, mul a b = some h ∧ IsPow z h (i + j) := by
  obtain ⟨h, hh, ht, hv⟩ := mul_spec a b (W1_W3 ha.1) (W1_W3 hb.1)
  refine ⟨h, hh, ht, ?_⟩
  rw [hv, ha.2, hb.2]
  unfold Field25519.mul
  rw [← Nat.mul_mod, ← Nat.pow_add]

theorem mul_pow_base_left {z b : Fe} {j : Nat} (hz : W 3 z) (hb : IsPow z b j) :
    ∃ h, mul z b = some h ∧ IsPow z h (1 + j) := by
  obtain ⟨h, hh, ht, hv⟩ := mul_spec z b hz (W1_W3 hb.1)
  refine ⟨h, hh, ht, ?_⟩
  rw [hv, hb.2]
  unfold Field25519.mul
  rw [Nat.mul_mod, Nat.mod_mod, ← Nat.mul_mod, Nat.pow_add, Nat.pow_one]

theorem mul_pow_base_right {z a : Fe} {i : Nat} (hz : W 3 z) (ha : IsPow z a i) :
    ∃ h, mul a z = some h ∧ IsPow z h (i + 1) := by
  obtain ⟨h, hh, ht, hv⟩ := mul_spec a z (W1_W3 ha.1) hz
  refine ⟨h, hh, ht, ?_⟩
  rw [hv, ha.2]
  unfold Field25519.mul
  rw [Nat.mul_mod, Nat.mod_mod, ← Nat.mul_mod, Nat.pow_add, Nat.pow_one]

theorem square_pow_base {z : Fe} (hz : W 3 z) : ∃ h, square z = some h ∧ IsPow z h 2 := by
  obtain ⟨h, hh, ht, hv⟩ := square_spec z hz
  refine ⟨h, hh, ht, ?_⟩
  rw [hv]; unfold Field25519.sq; rw [Nat.pow_two]

theorem sq_pow (a e : Nat) : Field25519.sq (a ^ e % p) = a ^ (e * 2) % p := by
  unfold Field25519.sq
  rw [← Nat.mul_mod, ← Nat.pow_add]; congr 2; omega

theorem square_pow {z a : Fe} {i : Nat} (ha : IsPow z a i) : ∃ h, square a = some h ∧ IsPow z h (i * 2) := by
  obtain ⟨h, hh, ht, hv⟩ := square_spec a (W1_W3 ha.1)
  refine ⟨h, hh, ht, ?_⟩
  rw [hv, ha.2]; exact sq_pow _ _

theorem sqrep_pow {z a : Fe} {i : Nat} (n : Nat) (hn : 0 < n) (ha : IsPow z a i) :
    ∃ h, square_repeatdly a n = some h ∧ IsPow z h (i * 2^n) := by
  obtain ⟨h, hh, ht, _, hv⟩ := square_repeatdly_spec n a (W1_W3 ha.1)
  refine ⟨h, hh, ht hn, ?_⟩
  rw [hv, ha.2, ← Nat.pow_mod, ← Nat.pow_mul]

theorem IsPow.cast {z a : Fe} {i j : Nat} (h : IsPow z a i) (e : i = j) : IsPow z a j := e ▸ h

/-- the shared prefix: `z11 = z^11`, `z_250_0 = z^(2^250 − 1)` -/
theorem chain250_spec (z : Fe) (hz : W 3 z) :
    ∃ a b, chain250 z = some (a, b) ∧ IsPow z a 11 ∧ IsPow z b (2^250 - 1) := by
  simp only [chain250]
  obtain ⟨z2, e, h2⟩ := square_pow_base hz; rw [e, some_bind]
  obtain ⟨z8, e, h8⟩ := sqrep_pow 2 (by decide) h2; rw [e, some_bind]
  replace h8 : IsPow z z8 8 := h8.cast (by decide)
  obtain ⟨z9, e, h9⟩ := mul_pow_base_left hz h8; rw [e, some_bind]
  replace h9 : IsPow z z9 9 := h9.cast (by decide)
  obtain ⟨z11, e, h11⟩ := mul_pow h2 h9; rw [e, some_bind]
  replace h11 : IsPow z z11 11 := h11.cast (by decide)
  obtain ⟨z22, e, h22⟩ := square_pow h11; rw [e, some_bind]
  replace h22 : IsPow z z22 22 := h22.cast (by decide)
  obtain ⟨z_5_0, e, h_5_0⟩ := mul_pow h9 h22; rw [e, some_bind]
  replace h_5_0 : IsPow z z_5_0 (2^5 - 1) := h_5_0.cast (by decide)
  obtain ⟨z_10_5, e, h_10_5⟩ := sqrep_pow 5 (by decide) h_5_0; rw [e, some_bind]
  obtain ⟨z_10_0, e, h_10_0⟩ := mul_pow h_10_5 h_5_0; rw [e, some_bind]
  replace h_10_0 : IsPow z z_10_0 (2^10 - 1) := h_10_0.cast (by decide)
  obtain ⟨z_20_10, e, h_20_10⟩ := sqrep_pow 10 (by decide) h_10_0; rw [e, some_bind]
  obtain ⟨z_20_0, e, h_20_0⟩ := mul_pow h_20_10 h_10_0; rw [e, some_bind]
  replace h_20_0 : IsPow z z_20_0 (2^20 - 1) := h_20_0.cast (by decide)
  obtain ⟨z_40_20, e, h_40_20⟩ := sqrep_pow 20 (by decide) h_20_0; rw [e, some_bind]
  obtain ⟨z_40_0, e, h_40_0⟩ := mul_pow h_40_20 h_20_0; rw [e, some_bind]
  replace h_40_0 : IsPow z z_40_0 (2^40 - 1) := h_40_0.cast (by decide)
  obtain ⟨z_50_10, e, h_50_10⟩ := sqrep_pow 10 (by decide) h_40_0; rw [e, some_bind]
  obtain ⟨z_50_0, e, h_50_0⟩ := mul_pow h_50_10 h_10_0; rw [e, some_bind]
  replace h_50_0 : IsPow z z_50_0 (2^50 - 1) := h_50_0.cast (by decide)
  obtain ⟨z_100_50, e, h_100_50⟩ := sqrep_pow 50 (by decide) h_50_0; rw [e, some_bind]
  obtain ⟨z_100_0, e, h_100_0⟩ := mul_pow h_100_50 h_50_0; rw [e, some_bind]
  replace h_100_0 : IsPow z z_100_0 (2^100 - 1) := h_100_0.cast (by decide)
  obtain ⟨z_200_100, e, h_200_100⟩ := sqrep_pow 100 (by decide) h_100_0; rw [e, some_bind]
  obtain ⟨z_200_0, e, h_200_0⟩ := mul_pow h_200_100 h_100_0; rw [e, some_bind]
  replace h_200_0 : IsPow z z_200_0 (2^200 - 1) := h_200_0.cast (by decide)
  obtain ⟨z_250_50, e, h_250_50⟩ := sqrep_pow 50 (by decide) h_200_0; rw [e, some_bind]
  obtain ⟨z_250_0, e, h_250_0⟩ := mul_pow h_250_50 h_50_0; rw [e, some_bind]
  exact ⟨z11, z_250_0, rfl, h11, h_250_0.cast (by decide)⟩

/-- `pow25523 z = z^((p−5)/8)` -/
theorem pow25523_spec (z : Fe) (hz : W 3 z) :
    ∃ h, pow25523 z = some h ∧ W 1 h ∧ eval h = Field25519.pow25523 (eval z) := by
  obtain ⟨a, b, e, _, hb⟩ := chain250_spec z hz
  simp only [pow25523]
  rw [e, some_bind]
  simp only []
  obtain ⟨c, e, hc⟩ := sqrep_pow 2 (by decide) hb; rw [e, some_bind]
  obtain ⟨d, e, hd⟩ := mul_pow_base_right hz hc
  refine ⟨d, e, hd.1, ?_⟩
  rw [hd.2, Cx.Proofs.Field25519.pow25523_eq]
  congr 2

/-- `invert z = z^(p−2)` (including `z ≡ 0`, where the result is 0) -/
theorem invert_spec (z : Fe) (hz : W 3 z) :
    ∃ h, invert z = some h ∧ W 1 h ∧ eval h = Field25519.inv (eval z) := by
  obtain ⟨a, b, e, ha, hb⟩ := chain250_spec z hz
  simp only [invert]
  rw [e, some_bind]
  simp only []
  obtain ⟨c, e, hc⟩ := sqrep_pow 5 (by decide) hb; rw [e, some_bind]
  obtain ⟨d, e, hd⟩ := mul_pow hc ha
  refine ⟨d, e, hd.1, ?_⟩
  rw [hd.2, Cx.Proofs.Field25519.inv_eq]
  congr 2

end Cx.Proofs.Fe32
