/-
  Proofs.Argon2Prologue — link (a) of the Argon2 assembly: the prologue of `fill_segment` (parameter words of
  `input_block`, the extra `next_addresses` of pass 0 / slice 0, `curr_offset`, `prev_offset`) establishes the loop
  invariant `SegInv` at the starting index, and the Spec's loop over `0 .. segLen` skips k = 0, 1 in pass 0 / slice 0,
  so `fill_segment = Spec.fillSegment` on every valid parameter set.  Core Lean only.
-/
import CxVerif.Proofs.Argon2Segment
namespace Cx.Proofs.Argon2
open Cx Cx.Spec.Argon2
open Cx.Impl.Argon2 (subU add32 mul32 mul64 add64 remU divU SYNC_POINTS BlockPos)

def mk (c : Params) (B : Memory) : Impl.Argon2.Memory := { lane_length := q c, blocks := B }

/-- the six parameter words of `input_block` -/
def segInput (params : Impl.Argon2.Params) (position : BlockPos) (dia : Bool) : Block :=
  if dia then
    (((((Impl.Argon2.Block.new.set 0 (UInt64.ofNat position.pass)).set 1 (UInt64.ofNat position.lane)).set 2
      (UInt64.ofNat position.slice)).set 3 (UInt64.ofNat params.memory_blocks)).set 4
      (UInt64.ofNat params.iterations)).set 5 (UInt64.ofNat params.hash_type.toNat)
  else Impl.Argon2.Block.new

/-- the prologue of `fill_segment`: `(starting_index, address_block, input_block)` -/
def segPrologue (params : Impl.Argon2.Params) (position : BlockPos) (dia : Bool) : Option (Nat × Block × Block) :=
  if position.pass = 0 ∧ position.slice = 0 then
    if dia then do
      let (a, i) ← Impl.Argon2.next_addresses Impl.Argon2.Block.new (segInput params position dia) Impl.Argon2.Block.new
      pure (2, a, i)
    else pure (2, Impl.Argon2.Block.new, segInput params position dia)
  else pure (0, Impl.Argon2.Block.new, segInput params position dia)

/-- the offsets and the loop of `fill_segment` -/
def segTail (params : Impl.Argon2.Params) (position : BlockPos) (dia : Bool) (memory : Impl.Argon2.Memory)
    (x : Nat × Block × Block) : Option Impl.Argon2.Memory := do
  let (starting_index, address_block, input_block) := x
  let curr_offset ←
    add32 (← add32 (← mul32 position.lane memory.stride) (← mul32 position.slice params.segment_length)) starting_index
  let prev_offset ←
    if (← remU curr_offset memory.stride) = 0 then do subU (← add32 curr_offset memory.stride) 1
    else subU curr_offset 1
  let st : Impl.Argon2.SegState := { memory := memory, input_block := input_block, address_block := address_block, curr_offset := curr_offset, prev_offset := prev_offset }
  let st ← Impl.Argon2.fill_segment_loop params position dia Impl.Argon2.Block.new
              (List.range' starting_index (params.segment_length - starting_index)) st
  pure st.memory

theorem fill_segment_split (params : Impl.Argon2.Params) (position : BlockPos) (memory : Impl.Argon2.Memory) :
    Impl.Argon2.fill_segment params position memory =
      (segPrologue params position (Impl.Argon2.data_independent_addressing params position)).bind
        (segTail params position (Impl.Argon2.data_independent_addressing params position) memory) := by
  unfold Impl.Argon2.fill_segment segPrologue segInput
  generalize Impl.Argon2.data_independent_addressing params position = dia
  by_cases h0 : position.pass = 0 ∧ position.slice = 0
  · cases dia
    · simp only [if_pos h0, Bool.false_eq_true, if_false]
      rfl
    · simp only [if_pos h0, if_true]
      rfl
  · simp only [if_neg h0]
    rfl

theorem tyOf_toNat (y : Ty) : (tyOf y).toNat = y.y := by cases y <;> rfl

theorem segInput_eq (c : Params) (params : Impl.Argon2.Params) (hc : Corr params c) (r i sl idx : Nat) :
    segInput params ⟨r, i, sl, idx⟩ true = addrInput c r i sl 0 := by
  rw [addrInput_eq]
  show _ = inputWords _ _ _ _ _ _ 0
  rw [inputWords_zero]
  unfold segInput
  simp only [if_true, hc.blocks, hc.t, hc.y, tyOf_toNat]

/-- starting index of the loop -/
def startIdx (r sl : Nat) : Nat := if r = 0 ∧ sl = 0 then 2 else 0

theorem segPrologue_eq (c : Params) (params : Impl.Argon2.Params) (hc : Corr params c) (r i sl idx : Nat) (dia : Bool) :
    ∃ a ib, segPrologue params ⟨r, i, sl, idx⟩ dia = some (startIdx r sl, a, ib) ∧
      (dia = true → startIdx r sl % 128 ≠ 0 → a = addrBlock c r i sl (startIdx r sl / 128 + 1)) ∧
      (dia = true → ib = addrInput c r i sl (if startIdx r sl % 128 = 0 then startIdx r sl / 128 else startIdx r sl / 128 + 1)) := by
  unfold segPrologue startIdx
  by_cases h0 : r = 0 ∧ sl = 0
  · simp only [if_pos h0]
    cases dia
    · exact ⟨_, _, rfl, by simp, by simp⟩
    · simp only [if_true, segInput_eq c params hc, next_addresses_eq c r i sl 0 (by decide)]
      exact ⟨_, _, rfl, fun _ _ => rfl, fun _ => rfl⟩
  · simp only [if_neg h0]
    cases dia
    · exact ⟨_, _, rfl, by simp, by simp⟩
    · simp only [segInput_eq c params hc]
      exact ⟨_, _, rfl, by simp, fun _ => rfl⟩

theorem segTail_eq (c : Params) (params : Impl.Argon2.Params) (hc : Corr params c) (r i sl idx : Nat)
    (hp : 1 ≤ c.p) (hm : 8 * c.p ≤ c.m) (hm2 : c.m < 2 ^ 32) (hi : i < c.p) (hsl : sl < 4) (B : Memory)
    (hB : B.size = c.p * q c) (a ib : Block)
    (ha : dataIndependent c.y r sl = true → startIdx r sl % 128 ≠ 0 → a = addrBlock c r i sl (startIdx r sl / 128 + 1))
    (hib : dataIndependent c.y r sl = true →
      ib = addrInput c r i sl (if startIdx r sl % 128 = 0 then startIdx r sl / 128 else startIdx r sl / 128 + 1)) :
    ∃ B', segTail params ⟨r, i, sl, idx⟩ (dataIndependent c.y r sl) (mk c B) (startIdx r sl, a, ib) = some (mk c B') ∧
      B' = (List.range' (startIdx r sl) (segLen c - startIdx r sl)).foldl
        (fillBlock c r sl i (if dataIndependent c.y r sl then addrBlocks c r i sl else #[])) B ∧
      B'.size = c.p * q c := by
  have hseg := segLen_ge c hp hm
  have hk : startIdx r sl ≤ segLen c := by unfold startIdx; split <;> omega
  have hk0 : r = 0 ∧ sl = 0 → 2 ≤ startIdx r sl := fun h => by unfold startIdx; rw [if_pos h]; exact Nat.le_refl 2
  have hk1 : sl * segLen c + startIdx r sl ≠ 1 := by
    unfold startIdx; split
    · omega
    · rename_i h
      by_cases hs : sl = 0
      · subst hs; omega
      · have : 1 * segLen c ≤ sl * segLen c := Nat.mul_le_mul_right _ (by omega)
        omega
  have hpos : Pos c 1 i sl 0 := ⟨hp, hm, hm2, hi, hsl, by omega, by omega⟩
  have hj : sl * segLen c + startIdx r sl < q c := by
    have hq := q_eq c hp
    unfold startIdx; split
    · rename_i h; rw [h.2]; omega
    · have : sl = 0 ∨ sl = 1 ∨ sl = 2 ∨ sl = 3 := by omega
      rcases this with h | h | h | h <;> subst h <;> omega
  obtain ⟨hb1, hb2, hb3⟩ := hpos.bounds
  generalize hkdef : startIdx r sl = k at *
  have hslseg : sl * segLen c < 2 ^ 32 := by omega
  have e1 : mul32 i (q c) = some (i * q c) := mul32_some (by omega)
  have e2 : mul32 sl (segLen c) = some (sl * segLen c) := mul32_some hslseg
  have e3 : add32 (i * q c) (sl * segLen c) = some (i * q c + sl * segLen c) := add32_some (by omega)
  have e4 : add32 (i * q c + sl * segLen c) k = some (i * q c + (sl * segLen c + k)) := by
    rw [add32_some (by omega), Nat.add_assoc]
  have e5 : remU (i * q c + (sl * segLen c + k)) (q c) = some (sl * segLen c + k) := by
    rw [remU_some (by omega), Nat.add_comm, Nat.add_mul_mod_self_right, Nat.mod_eq_of_lt hj]
  -- the initial state satisfies the invariant
  have inv : ∀ prev, (prev = i * q c + (sl * segLen c + k + q c - 1) % q c) →
      SegInv c r i sl k (dataIndependent c.y r sl)
        { memory := mk c B, input_block := ib, address_block := a, curr_offset := i * q c + (sl * segLen c + k),
          prev_offset := prev } B := fun prev hprev => ⟨rfl, rfl, hB, rfl, fun _ => hprev, ha, hib⟩
  have hloop := fun prev hprev => loop_eq c params hc r i sl idx hp hm hm2 hi hsl (segLen c - k) k _ B (by omega) hk0
    (inv prev hprev)
  have hfin : ∀ prev, (prev = i * q c + (sl * segLen c + k + q c - 1) % q c) →
      ∃ B', (Impl.Argon2.fill_segment_loop params ⟨r, i, sl, idx⟩ (dataIndependent c.y r sl) Impl.Argon2.Block.new
          (List.range' k (segLen c - k))
          { memory := mk c B, input_block := ib, address_block := a, curr_offset := i * q c + (sl * segLen c + k),
            prev_offset := prev }).bind (fun st => some st.memory) = some (mk c B') ∧
        B' = (List.range' k (segLen c - k)).foldl
          (fillBlock c r sl i (if dataIndependent c.y r sl then addrBlocks c r i sl else #[])) B ∧
        B'.size = c.p * q c := by
    intro prev hprev
    obtain ⟨st', e, inv'⟩ := hloop prev hprev
    refine ⟨_, ?_, rfl, inv'.size⟩
    rw [e, Option.bind_some]
    obtain ⟨m1, m2, _⟩ := inv'
    congr 1
    cases hst : st'.memory with
    | mk ll bb => rw [hst] at m1 m2; simp only at m1 m2; rw [m1, m2]; rfl
  unfold segTail
  simp only [Impl.Argon2.Memory.stride, mk, hc.seg, e1, e2, e3, e4, e5, Option.bind_eq_bind, Option.bind_some, Option.pure_def]
  by_cases hj0 : sl * segLen c + k = 0
  · rw [if_pos hj0]
    rw [add32_some (by omega)]
    simp only [Option.bind_some]
    rw [subU_some (by omega)]
    simp only [Option.bind_some]
    exact hfin _ (by rw [hj0]; simp only [Nat.zero_add, Nat.add_zero]; rw [Nat.mod_eq_of_lt (by omega)]; omega)
  · rw [if_neg hj0, subU_some (by omega)]
    simp only [Option.bind_some]
    refine hfin _ ?_
    rw [show sl * segLen c + k + q c - 1 = (sl * segLen c + k - 1) + q c by omega, Nat.add_mod_right,
      Nat.mod_eq_of_lt (by omega)]
    omega

/-- the Spec's loop over `0 .. segLen` leaves the two H'-initialised blocks of pass 0 / slice 0 alone, so it is the
    loop from the code's `starting_index` -/
theorem fillSegment_skip (c : Params) (r sl i : Nat) (B : Memory) (hseg : 2 ≤ segLen c) :
    fillSegment c r sl B i = (List.range' (startIdx r sl) (segLen c - startIdx r sl)).foldl
      (fillBlock c r sl i (if dataIndependent c.y r sl then addrBlocks c r i sl else #[])) B := by
  unfold fillSegment startIdx
  simp only [List.range_eq_range']
  by_cases h0 : r = 0 ∧ sl = 0
  · rw [if_pos h0]
    obtain ⟨n, hn⟩ : ∃ n, segLen c = n + 2 := ⟨segLen c - 2, by omega⟩
    rw [hn, Nat.add_sub_cancel, List.range'_succ, List.range'_succ, List.foldl_cons, List.foldl_cons]
    have s0 : ∀ addrs B, fillBlock c r sl i addrs B 0 = B := by
      intro addrs B; unfold fillBlock; simp only []; rw [if_pos ⟨h0.1, by rw [h0.2]; omega⟩]
    have s1 : ∀ addrs B, fillBlock c r sl i addrs B (0 + 1) = B := by
      intro addrs B; unfold fillBlock; simp only []; rw [if_pos ⟨h0.1, by rw [h0.2]; omega⟩]
    rw [s0, s1]
  · rw [if_neg h0]; rfl

/-- (a) `fill_segment` = the RFC's segment (3.2 steps 5, 6 for the blocks of one segment), for every valid parameter
    set, every pass, lane < p, slice < 4; the memory keeps its `p·q` blocks -/
theorem fill_segment_eq (c : Params) (params : Impl.Argon2.Params) (hc : Corr params c) (r i sl idx : Nat)
    (hp : 1 ≤ c.p) (hm : 8 * c.p ≤ c.m) (hm2 : c.m < 2 ^ 32) (hi : i < c.p) (hsl : sl < 4) (B : Memory)
    (hB : B.size = c.p * q c) :
    Impl.Argon2.fill_segment params ⟨r, i, sl, idx⟩ (mk c B) = some (mk c (fillSegment c r sl B i)) ∧
    (fillSegment c r sl B i).size = c.p * q c := by
  rw [fill_segment_split, dia_eq params c hc, fillSegment_skip c r sl i B (segLen_ge c hp hm)]
  obtain ⟨a, ib, e1, ha, hib⟩ := segPrologue_eq c params hc r i sl idx (dataIndependent c.y r sl)
  obtain ⟨B', e2, hB', hsz⟩ := segTail_eq c params hc r i sl idx hp hm hm2 hi hsl B hB a ib ha hib
  rw [e1, Option.bind_some, e2, ← hB']
  exact ⟨rfl, hsz⟩
