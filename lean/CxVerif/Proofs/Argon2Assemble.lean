/-
  Proofs.Argon2Assemble — links (b)–(e) of the Argon2 assembly: `process_init` = `Spec.firstBlocks`,
  `process_fill` over `process_positions` = the three nested folds of `Spec.fillMemory`, `process_final` =
  `Spec.finalBlock`, and the chain `H0::new` → `Memory::new` → `process` → `hprime` = `Spec.argon2`.
-/
import CxVerif.Proofs.Argon2Prologue
import CxVerif.Proofs.Argon2Hash
namespace Cx.Proofs.Argon2
open Cx Cx.Spec.Argon2
open Cx.Impl.Argon2 (subU add32 mul32 mul64 add64 remU divU SYNC_POINTS BlockPos)

/-- the numeric part of the RFC's domain that the memory geometry needs -/
structure Geo (c : Params) : Prop where
  hp : 1 ≤ c.p
  hm : 8 * c.p ≤ c.m
  hm2 : c.m < 2 ^ 32

theorem Geo.pos {c : Params} (g : Geo c) {i : Nat} (hi : i < c.p) : Pos c 1 i 0 0 :=
  ⟨g.hp, g.hm, g.hm2, hi, by omega, by have := segLen_ge c g.hp g.hm; omega, by omega⟩

theorem Geo.bounds {c : Params} (g : Geo c) {i : Nat} (hi : i < c.p) :
    c.p * q c < 2 ^ 32 ∧ i * q c + q c ≤ c.p * q c ∧ 8 ≤ q c := (g.pos hi).bounds

theorem size_setB (c : Params) (B : Memory) (i j : Nat) (x : Block) : (setB c B i j x).size = B.size := by
  simp [setB]

/-! ### (b) `process_init` = `firstBlocks` -/

theorem set_block_at_eq (c : Params) (B : Memory) (i j : Nat) (x : Block) (h : i * q c + j < B.size)
    (h64 : i * q c + j < 2 ^ 64) :
    (mk c B).set_block_at i j x = some (mk c (setB c B i j x)) := by
  unfold Impl.Argon2.Memory.set_block_at Impl.Argon2.Memory.set_block_index mk setB
  simp only [Option.bind_eq_bind]
  rw [mul64_some (by omega)]
  simp only [Option.bind_some]
  rw [add64_some h64]
  simp only [Option.bind_some]
  rw [if_pos h]

/-- the body of the Spec's loop of steps 3, 4 -/
def firstStep (c : Params) (h0 : Bytes) (B : Memory) (i : Nat) : Memory :=
  let B := setB c B i 0 (blockOfBytes (Hprime 1024 (h0 ++ LE32 0 ++ LE32 i)))
  setB c B i 1 (blockOfBytes (Hprime 1024 (h0 ++ LE32 1 ++ LE32 i)))

theorem firstBlocks_eq (c : Params) (h0 : Bytes) :
    firstBlocks c h0 = (List.range c.p).foldl (firstStep c h0) (Array.replicate (mPrime c) zeroBlock) := rfl

theorem process_init_eq (c : Params) (g : Geo c) (h0 : Bytes) :
    ∀ (lanes : List Nat) (B : Memory), (∀ l ∈ lanes, l < c.p) → B.size = c.p * q c →
      Impl.Argon2.process_init h0 lanes (mk c B) = some (mk c (lanes.foldl (firstStep c h0) B)) ∧
      (lanes.foldl (firstStep c h0) B).size = c.p * q c
  | [], B, _, hB => ⟨rfl, hB⟩
  | i :: rest, B, hl, hB => by
    have hi : i < c.p := hl i (List.mem_cons_self)
    obtain ⟨hb1, hb2, hb3⟩ := g.bounds hi
    have hs : (firstStep c h0 B i).size = c.p * q c := by unfold firstStep; simp only [size_setB, hB]
    obtain ⟨e, hsz⟩ := process_init_eq c g h0 rest (firstStep c h0 B i) (fun l h => hl l (List.mem_cons_of_mem _ h)) hs
    rw [List.foldl_cons]
    refine ⟨?_, hsz⟩
    unfold Impl.Argon2.process_init
    rw [hprime_block_init_eq]
    simp only []
    rw [set_block_at_eq c B i 0 _ (by omega) (by omega)]
    simp only []
    rw [hprime_block_init_eq]
    simp only []
    rw [set_block_at_eq c _ i 1 _ (by rw [size_setB]; omega) (by omega)]
    simp only []
    exact e

/-! ### (c) `process_fill` over `process_positions` = `fillMemory` -/

theorem process_fill_append (params : Impl.Argon2.Params) :
    ∀ (l1 l2 : List BlockPos) (m : Impl.Argon2.Memory),
      Impl.Argon2.process_fill params (l1 ++ l2) m =
        (Impl.Argon2.process_fill params l1 m).bind (Impl.Argon2.process_fill params l2)
  | [], l2, m => rfl
  | x :: l1, l2, m => by
    rw [List.cons_append]
    unfold Impl.Argon2.process_fill
    cases h : Impl.Argon2.fill_segment params x m with
    | none => rfl
    | some m' => exact process_fill_append params l1 l2 m'

/-- the lanes of one slice -/
theorem process_fill_lanes (c : Params) (params : Impl.Argon2.Params) (hc : Corr params c) (g : Geo c) (r sl : Nat)
    (hsl : sl < 4) :
    ∀ (lanes : List Nat) (B : Memory), (∀ l ∈ lanes, l < c.p) → B.size = c.p * q c →
      Impl.Argon2.process_fill params (lanes.map fun lane => ⟨r, lane, sl, 0⟩) (mk c B) =
        some (mk c (lanes.foldl (fillSegment c r sl) B)) ∧
      (lanes.foldl (fillSegment c r sl) B).size = c.p * q c
  | [], B, _, hB => ⟨rfl, hB⟩
  | i :: rest, B, hl, hB => by
    have hi : i < c.p := hl i (List.mem_cons_self)
    obtain ⟨e1, hs⟩ := fill_segment_eq c params hc r i sl 0 g.hp g.hm g.hm2 hi hsl B hB
    obtain ⟨e, hsz⟩ := process_fill_lanes c params hc g r sl hsl rest _ (fun l h => hl l (List.mem_cons_of_mem _ h)) hs
    rw [List.foldl_cons, List.map_cons]
    refine ⟨?_, hsz⟩
    unfold Impl.Argon2.process_fill
    rw [e1]
    exact e

/-- the slices of one pass -/
theorem process_fill_slices (c : Params) (params : Impl.Argon2.Params) (hc : Corr params c) (g : Geo c) (r : Nat) :
    ∀ (slices : List Nat) (B : Memory), (∀ s ∈ slices, s < 4) → B.size = c.p * q c →
      Impl.Argon2.process_fill params
          (slices.flatMap fun slice => (List.range params.parallelism).map fun lane => ⟨r, lane, slice, 0⟩) (mk c B) =
        some (mk c (slices.foldl (fun B sl => (List.range c.p).foldl (fillSegment c r sl) B) B)) ∧
      (slices.foldl (fun B sl => (List.range c.p).foldl (fillSegment c r sl) B) B).size = c.p * q c
  | [], B, _, hB => ⟨rfl, hB⟩
  | sl :: rest, B, hl, hB => by
    obtain ⟨e1, hs⟩ := process_fill_lanes c params hc g r sl (hl sl List.mem_cons_self) (List.range c.p) B
      (fun l h => List.mem_range.mp h) hB
    obtain ⟨e, hsz⟩ := process_fill_slices c params hc g r rest _ (fun l h => hl l (List.mem_cons_of_mem _ h)) hs
    rw [List.foldl_cons, List.flatMap_cons, process_fill_append, hc.p, e1, Option.bind_some]
    rw [hc.p] at e
    exact ⟨e, hsz⟩

/-- all passes -/
theorem process_fill_passes (c : Params) (params : Impl.Argon2.Params) (hc : Corr params c) (g : Geo c) :
    ∀ (passes : List Nat) (B : Memory), B.size = c.p * q c →
      Impl.Argon2.process_fill params
          (passes.flatMap fun pass => (List.range SYNC_POINTS).flatMap fun slice =>
            (List.range params.parallelism).map fun lane => ⟨pass, lane, slice, 0⟩) (mk c B) =
        some (mk c (passes.foldl (fun B r => (List.range SL).foldl (fun B sl =>
          (List.range c.p).foldl (fillSegment c r sl) B) B) B)) ∧
      (passes.foldl (fun B r => (List.range SL).foldl (fun B sl =>
          (List.range c.p).foldl (fillSegment c r sl) B) B) B).size = c.p * q c
  | [], B, hB => ⟨rfl, hB⟩
  | r :: rest, B, hB => by
    obtain ⟨e1, hs⟩ := process_fill_slices c params hc g r (List.range SL) B (fun l h => List.mem_range.mp h) hB
    obtain ⟨e, hsz⟩ := process_fill_passes c params hc g rest _ hs
    rw [List.foldl_cons, List.flatMap_cons, process_fill_append]
    have : SYNC_POINTS = SL := rfl
    rw [this, e1, Option.bind_some]
    rw [this] at e
    exact ⟨e, hsz⟩

/-- (c) the three nested loops of `process` = RFC 9106 3.2 steps 5, 6 (all passes, slices, lanes) -/
theorem process_fill_eq (c : Params) (params : Impl.Argon2.Params) (hc : Corr params c) (g : Geo c) (B : Memory)
    (hB : B.size = c.p * q c) :
    Impl.Argon2.process_fill params (Impl.Argon2.process_positions params) (mk c B) = some (mk c (fillMemory c B)) ∧
    (fillMemory c B).size = c.p * q c := by
  unfold Impl.Argon2.process_positions fillMemory
  rw [hc.t]
  exact process_fill_passes c params hc g (List.range c.t) B hB

/-! ### (d) `process_final` = `finalBlock` -/

theorem xorBlock_zero_left (b : Block) : xorBlock zeroBlock b = b := by
  ext k hk
  simp [xorBlock, zeroBlock]

theorem process_final_eq (c : Params) (g : Geo c) (B : Memory) (hB : B.size = c.p * q c) :
    ∀ (lanes : List Nat) (C : Block), (∀ l ∈ lanes, l < c.p) →
      Impl.Argon2.process_final (mk c B) lanes C =
        some (lanes.foldl (fun C i => xorBlock C (getB c B i (q c - 1))) C)
  | [], C, _ => rfl
  | i :: rest, C, hl => by
    have hi : i < c.p := hl i (List.mem_cons_self)
    obtain ⟨hb1, hb2, hb3⟩ := g.bounds hi
    unfold Impl.Argon2.process_final
    simp only [Impl.Argon2.Memory.stride, mk, Option.bind_eq_bind]
    rw [mul32_some (by omega)]
    simp only [Option.bind_some]
    rw [subU_some (by omega)]
    simp only [Option.bind_some]
    rw [add32_some (by omega)]
    simp only [Impl.Argon2.Memory.block_index]
    rw [getElem?_getB c B i (q c - 1) (by omega)]
    simp only [List.foldl_cons]
    exact process_final_eq c g B hB rest _ (fun l h => hl l (List.mem_cons_of_mem _ h))

/-- (d) the first-lane read plus the loop over lanes `1 .. p−1` = RFC 9106 3.2 step 7 -/
theorem final_eq (c : Params) (g : Geo c) (B : Memory) (hB : B.size = c.p * q c) :
    ((subU (mk c B).stride 1).bind (mk c B).block_index).bind
        (Impl.Argon2.process_final (mk c B) (List.range' 1 (c.p - 1))) = some (finalBlock c B) := by
  have hp := g.hp
  obtain ⟨hb1, hb2, hb3⟩ := g.bounds (show 0 < c.p by omega)
  simp only [Impl.Argon2.Memory.stride, mk]
  rw [subU_some (by omega), Option.bind_some]
  simp only [Impl.Argon2.Memory.block_index]
  have h0 := getElem?_getB c B 0 (q c - 1) (by omega)
  rw [Nat.zero_mul, Nat.zero_add] at h0
  rw [h0, Option.bind_some]
  have := process_final_eq c g B hB (List.range' 1 (c.p - 1)) (getB c B 0 (q c - 1))
    (fun l h => by have := List.mem_range'_1.mp h; omega)
  simp only [mk] at this
  rw [this]
  unfold finalBlock
  obtain ⟨n, hn⟩ : ∃ n, c.p = n + 1 := ⟨c.p - 1, by omega⟩
  rw [hn, List.range_eq_range', List.range'_succ, List.foldl_cons, xorBlock_zero_left]
  rfl

/-! ### (e) the chain -/

theorem memory_new_eq (c : Params) (params : Impl.Argon2.Params) (hc : Corr params c) (g : Geo c) :
    Impl.Argon2.Memory.new params = some (mk c (Array.replicate (mPrime c) zeroBlock)) := by
  obtain ⟨hb1, _, _⟩ := g.bounds (show 0 < c.p from g.hp)
  unfold Impl.Argon2.Memory.new
  simp only [hc.p, hc.lane, Option.bind_eq_bind, Option.pure_def]
  rw [mul64_some (by omega), Option.bind_some, (geometry c g.hp).2.2]
  rfl

/-- `process` = RFC 9106 3.2 steps 3–8 on the freshly allocated memory -/
theorem process_eq (c : Params) (params : Impl.Argon2.Params) (hc : Corr params c) (g : Geo c) (h0 : Bytes) (T : Nat)
    (hT : 1 ≤ T) (hT2 : T < 2 ^ 32) :
    Impl.Argon2.process params h0 (mk c (Array.replicate (mPrime c) zeroBlock)) T =
      some (Hprime T (bytesOfBlock (finalBlock c (fillMemory c (firstBlocks c h0))))) := by
  have hsz : (Array.replicate (mPrime c) zeroBlock).size = c.p * q c := by
    rw [Array.size_replicate, (geometry c g.hp).2.2]
  obtain ⟨e1, s1⟩ := process_init_eq c g h0 (List.range c.p) _ (fun l h => List.mem_range.mp h) hsz
  rw [← firstBlocks_eq] at e1 s1
  obtain ⟨e2, s2⟩ := process_fill_eq c params hc g _ s1
  have e3 := final_eq c g _ s2
  unfold Impl.Argon2.process
  rw [hc.p, e1]
  simp only []
  rw [e2]
  simp only []
  cases h : (subU (mk c (fillMemory c (firstBlocks c h0))).stride 1).bind
      (mk c (fillMemory c (firstBlocks c h0))).block_index with
  | none => rw [h] at e3; simp at e3
  | some bh =>
    rw [h, Option.bind_some] at e3
    simp only []
    rw [e3]
    simp only []
    exact hprime_eq T _ hT hT2

end Cx.Proofs.Argon2
