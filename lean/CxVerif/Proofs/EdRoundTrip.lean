/-
  Proofs.EdRoundTrip — COMPLETENESS of point decoding (RFC 8032 §5.1.3) on edwards25519: every curve point is
  recovered from its §5.1.2 encoding, by the lenient decoder the crate implements and by the strict decoder of the
  RFC.  (Soundness — an accepted string yields a curve point — is Proofs/GeDecode.lean.)

  The classical argument for p ≡ 5 (mod 8): for a curve point (x, y) put u = y² − 1, v = d·y² + 1.  The curve
  equation says u = x²·v, and v ≠ 0 because d is not a square.  With w = u·v⁷ = (x·v⁴)² and the candidate
  β = u·v³·w^((p−5)/8) one has v·β² = u·w^((p−1)/4), and w^((p−1)/4) = (x·v⁴)^((p−1)/2) squares to 1 (Fermat), hence
  is ±1: so v·β² = ±u, the decoder takes β resp. β·√−1, whose square is x², i.e. the root is ±x, and the final
  parity selection returns the one with the parity of x — x itself (p is odd; for x = 0 both roots are 0).

  Only `Nat.Prime p` is used (instance `Fact`, a theorem: Proofs/Prime25519.lean).
-/
import CxVerif.Proofs.GeDecode
import CxVerif.Proofs.Fe64Pred
namespace Cx.Proofs.EdRoundTrip
open Cx Cx.Spec Cx.Proofs.EdField Cx.Proofs.EdSpec Cx.Proofs.GeDecode
open Cx.Spec.Field25519 (p)

set_option maxRecDepth 10000

local infixl:65 " +ₚ " => Field25519.add
local infixl:65 " -ₚ " => Field25519.sub
local infixl:70 " *ₚ " => Field25519.mul

/-! ### the encoding, read back as an integer -/

theorem p_lt_255 : p < 2 ^ 255 := by decide
theorem p_odd : p % 2 = 1 := by decide

/-- the little-endian value of `encode P` for reduced coordinates -/
theorem leNat_encode (P : Edwards.Point) (hx : P.x < p) (hy : P.y < p) :
    leNat (Edwards.encode P) = P.y + 2 ^ 255 * (P.x % 2) := by
  unfold Edwards.encode
  rw [Proofs.Fe64.leNat_natToLE, edp, Nat.mod_eq_of_lt hx, Nat.mod_eq_of_lt hy]
  have := p_lt_255
  have h2 : P.x % 2 < 2 := Nat.mod_lt _ (by decide)
  apply Nat.mod_eq_of_lt
  have e : (256 : Nat) ^ 32 = 2 ^ 255 * 2 := by decide
  rw [e]
  generalize (2 : Nat) ^ 255 = K at *
  have : K * (P.x % 2) ≤ K * 1 := Nat.mul_le_mul_left _ (by omega)
  omega

/-- the low 255 bits of the encoding are `y` -/
theorem encode_y (P : Edwards.Point) (hx : P.x < p) (hy : P.y < p) :
    leNat (Edwards.encode P) % 2 ^ 255 = P.y := by
  rw [leNat_encode P hx hy, Nat.add_mul_mod_self_left]
  exact Nat.mod_eq_of_lt (Nat.lt_trans hy p_lt_255)

/-- bit 255 of the encoding is the parity of `x` -/
theorem encode_sign (P : Edwards.Point) (hx : P.x < p) (hy : P.y < p) :
    (leNat (Edwards.encode P) / 2 ^ 255 % 2 == 1) = (P.x % 2 == 1) := by
  rw [leNat_encode P hx hy, Nat.add_mul_div_left _ _ (by decide : 0 < 2 ^ 255),
    Nat.div_eq_of_lt (Nat.lt_trans hy p_lt_255), Nat.zero_add, Nat.mod_mod]

theorem encode_fdecode (P : Edwards.Point) (hx : P.x < p) (hy : P.y < p) :
    Field25519.decode (Edwards.encode P) = P.y := by
  unfold Field25519.decode
  rw [encode_y P hx hy, Nat.mod_eq_of_lt hy]

/-! ### the parity selection returns `x` from either root -/

theorem neg_of_pos {x : Nat} (hx : x < p) (h0 : x ≠ 0) : Field25519.neg x = p - x := by
  unfold Field25519.neg
  rw [Nat.mod_eq_of_lt hx]
  apply Nat.mod_eq_of_lt
  omega

theorem neg_zero : Field25519.neg 0 = 0 := by decide

theorem exp_quarter : (p - 1) / 4 = (p - 5) / 8 * 2 + 1 := by decide

section prime
variable [hp : Fact (Nat.Prime p)]

/-- if `r² = x²` in GF(p) (reduced naturals) then the root selected for the parity of `x` is `x` -/
theorem fixS_root (x r : Nat) (hx : x < p) (hr : r < p) (h : (r : Fp) ^ 2 = (x : Fp) ^ 2) :
    fixS (x % 2 == 1) r = some x := by
  have hfac : ((r : Fp) - (x : Fp)) * ((r : Fp) + (x : Fp)) = 0 := by linear_combination h
  have hsame : r = x → fixS (x % 2 == 1) r = some x := by
    intro e; subst e
    exact fixS_neg _ _ (by simp)
  rcases mul_eq_zero.1 hfac with h1 | h1
  · exact hsame ((cast_inj hr hx).1 (sub_eq_zero.1 h1))
  · have hneg : r = Field25519.neg x := by
      rw [← cast_inj hr (neg_lt _), cast_neg]
      exact eq_neg_of_add_eq_zero_left h1
    by_cases h0 : x = 0
    · subst h0; rw [neg_zero] at hneg; exact hsame hneg
    · rw [neg_of_pos hx h0] at hneg
      have hodd := p_odd
      have hr0 : r ≠ 0 := by omega
      rw [fixS_pos _ _ (by
        have : r % 2 ≠ x % 2 := by omega
        rcases Nat.mod_two_eq_zero_or_one x with a | a <;> rcases Nat.mod_two_eq_zero_or_one r with b | b <;>
          simp_all)]
      rw [neg_of_pos hr hr0]
      congr 1; omega

/-! ### the square-root candidate -/


/-- for `u = x²·v`, `v ≠ 0`, the candidate `β = u·v³·(u·v⁷)^((p−5)/8)` satisfies `v·β² = ±u` -/
theorem candidate_sq {X U V : Fp} (hU : U = X ^ 2 * V) (hV : V ≠ 0) :
    V * (U * (V * V * V) * (U * ((V * V * V) * (V * V * V) * V)) ^ ((p - 5) / 8)) ^ 2 = U ∨
    V * (U * (V * V * V) * (U * ((V * V * V) * (V * V * V) * V)) ^ ((p - 5) / 8)) ^ 2 = -U := by
  by_cases hX : X = 0
  · left
    have : U = 0 := by rw [hU, hX]; ring
    rw [this]; ring
  · set w : Fp := U * ((V * V * V) * (V * V * V) * V) with hw
    set z : Fp := X * V ^ 4 with hz
    have hz0 : z ≠ 0 := mul_ne_zero hX (pow_ne_zero _ hV)
    have hwz : w = z ^ 2 := by rw [hw, hz, hU]; ring
    have hfermat : z ^ (p - 1) = 1 := ZMod.pow_card_sub_one_eq_one hz0
    have ht2 : (w ^ ((p - 1) / 4)) ^ 2 = 1 := by
      rw [hwz, ← pow_mul, ← pow_mul, show 2 * ((p - 1) / 4 * 2) = p - 1 by decide]
      exact hfermat
    have hkey : V * (U * (V * V * V) * w ^ ((p - 5) / 8)) ^ 2 = U * w ^ ((p - 1) / 4) := by
      have hsplit : w ^ ((p - 5) / 8 * 2 + 1) = (w ^ ((p - 5) / 8)) ^ 2 * w := by rw [pow_succ, pow_mul]
      rw [exp_quarter, hsplit]
      generalize w ^ ((p - 5) / 8) = q
      rw [hw]; ring
    rw [hkey]
    have hfac : (w ^ ((p - 1) / 4) - 1) * (w ^ ((p - 1) / 4) + 1) = 0 := by linear_combination ht2
    rcases mul_eq_zero.1 hfac with h1 | h1
    · left; rw [sub_eq_zero.1 h1]; ring
    · right; rw [eq_neg_of_add_eq_zero_left h1]; ring

/-- `v = d·y² + 1` does not vanish (d is not a square) -/
theorem v_ne_zero (Y : Fp) : dF * (Y * Y) + 1 ≠ 0 := by
  intro h
  have hY : Y ≠ 0 := by
    intro e; rw [e] at h
    have : (1 : Fp) = 0 := by linear_combination h
    exact one_ne_zero this
  apply d_nonsquare (((Field25519.sqrtM1 : Nat) : Fp) / Y)
  have hi := sqrtM1_sq
  have : dF = -1 / (Y * Y) := by
    rw [eq_div_iff (mul_ne_zero hY hY)]; linear_combination h
  show _ = dF
  rw [this, div_pow, hi]; ring

/-! ### `recoverX` finds the abscissa of a curve point -/

/-- **completeness of the square-root step**: for a curve point `(x, y)`, `recoverX y (parity of x) = some x` -/
theorem recoverX_complete (P : Edwards.Point) (hP : OnCurve P) :
    Edwards.recoverX P.y (P.x % 2 == 1) = some P.x := by
  obtain ⟨hx, hy, hc⟩ := (onCurve_iff P).1 hP
  obtain ⟨x, y⟩ := P
  simp only at hx hy hc ⊢
  -- the intermediate naturals of the Spec
  let u := (y *ₚ y) -ₚ 1
  let v := Edwards.d *ₚ (y *ₚ y) +ₚ 1
  let x0 := (u *ₚ ((v *ₚ v) *ₚ v)) *ₚ
      Field25519.pow25523 (u *ₚ ((((v *ₚ v) *ₚ v) *ₚ ((v *ₚ v) *ₚ v)) *ₚ v))
  let vxx := v *ₚ (x0 *ₚ x0)
  rw [recoverX_eq y (x % 2 == 1) u v x0 vxx rfl rfl rfl rfl]
  -- field view
  have cu : ((u : Nat) : Fp) = (y : Fp) * (y : Fp) - 1 := by
    show (((y *ₚ y) -ₚ 1 : Nat) : Fp) = _
    rw [cast_sub, cast_mul, Nat.cast_one]
  have cv : ((v : Nat) : Fp) = dF * ((y : Fp) * (y : Fp)) + 1 := by
    show ((Edwards.d *ₚ (y *ₚ y) +ₚ 1 : Nat) : Fp) = _
    rw [cast_add, cast_mul, cast_mul, Nat.cast_one]; rfl
  have cx0 : ((x0 : Nat) : Fp) = (u : Fp) * ((v : Fp) * (v : Fp) * (v : Fp)) *
      ((u : Fp) * (((v : Fp) * (v : Fp) * (v : Fp)) * ((v : Fp) * (v : Fp) * (v : Fp)) * (v : Fp))) ^ ((p - 5) / 8) := by
    show (((u *ₚ ((v *ₚ v) *ₚ v)) *ₚ
      Field25519.pow25523 (u *ₚ ((((v *ₚ v) *ₚ v) *ₚ ((v *ₚ v) *ₚ v)) *ₚ v)) : Nat) : Fp) = _
    unfold Field25519.pow25523
    simp only [cast_mul, cast_pow]
  have cvxx : ((vxx : Nat) : Fp) = (v : Fp) * (x0 : Fp) ^ 2 := by
    show ((v *ₚ (x0 *ₚ x0) : Nat) : Fp) = _
    rw [cast_mul, cast_mul]; ring
  have hu_lt : u < p := sub_lt _ _
  have hvxx_lt : vxx < p := mul_lt _ _
  have hx0_lt : x0 < p := mul_lt _ _
  have hV : (v : Fp) ≠ 0 := by rw [cv]; exact v_ne_zero _
  have hU : (u : Fp) = (x : Fp) ^ 2 * (v : Fp) := by
    rw [cu, cv]; unfold EdAlg.OnCurve at hc; linear_combination hc
  have hcand := candidate_sq hU hV
  rw [← cx0, ← cvxx] at hcand
  clear_value u v x0 vxx
  rcases hcand with h1 | h2
  · -- v·β² = u : the candidate is a root
    have e1 : vxx = u % p := by
      rw [Nat.mod_eq_of_lt hu_lt]; exact (cast_inj hvxx_lt hu_lt).1 h1
    rw [if_pos e1]
    apply fixS_root x x0 hx hx0_lt
    have : (v : Fp) * ((x0 : Fp) ^ 2 - (x : Fp) ^ 2) = 0 := by
      rw [cvxx] at h1; linear_combination h1 + hU
    rcases mul_eq_zero.1 this with h | h
    · exact absurd h hV
    · exact sub_eq_zero.1 h
  · -- v·β² = −u : the candidate times √−1 is a root
    have e2 : vxx = Field25519.neg u := by
      rw [← cast_inj hvxx_lt (neg_lt _), cast_neg]; exact h2
    have hroot : ((x0 *ₚ Field25519.sqrtM1 : Nat) : Fp) ^ 2 = (x : Fp) ^ 2 := by
      rw [cast_mul, mul_pow, sqrtM1_sq]
      have : (v : Fp) * (-(x0 : Fp) ^ 2 - (x : Fp) ^ 2) = 0 := by
        rw [cvxx] at h2; linear_combination -h2 + hU
      rcases mul_eq_zero.1 this with h | h
      · exact absurd h hV
      · linear_combination h
    by_cases e1 : vxx = u % p
    · -- then u = −u, i.e. u = 0 = x0: the first branch is taken and 0 is the root
      rw [if_pos e1]
      apply fixS_root x x0 hx hx0_lt
      have h1 : (vxx : Fp) = (u : Fp) := by rw [e1, cast_mod]
      have : (v : Fp) * ((x0 : Fp) ^ 2 - (x : Fp) ^ 2) = 0 := by
        rw [cvxx] at h1; linear_combination h1 + hU
      rcases mul_eq_zero.1 this with h | h
      · exact absurd h hV
      · exact sub_eq_zero.1 h
    · rw [if_neg e1, if_pos e2]
      exact fixS_root x _ hx (mul_lt _ _) hroot

/-! ### decode ∘ encode -/

/-- **the lenient decoder recovers every curve point from its encoding** -/
theorem decode_encode (P : Edwards.Point) (hP : OnCurve P) : Edwards.decode (Edwards.encode P) = some P := by
  obtain ⟨hx, hy, _⟩ := (onCurve_iff P).1 hP
  rw [decode_eq _ (Ed25519Sign.encode_length P), encode_fdecode P hx hy, encode_sign P hx hy,
    recoverX_complete P hP]
  rfl

/-- **the strict RFC 8032 §5.1.3 decoder recovers every curve point from its encoding** -/
theorem decodeStrict_encode (P : Edwards.Point) (hP : OnCurve P) :
    Edwards.decodeStrict (Edwards.encode P) = some P := by
  obtain ⟨hx, hy, _⟩ := (onCurve_iff P).1 hP
  have hsplit : Edwards.splitEncoding (Edwards.encode P) = (P.y, P.x % 2 == 1) := by
    unfold Edwards.splitEncoding
    rw [encode_y P hx hy, encode_sign P hx hy]
  have hrec := recoverX_complete P hP
  unfold Edwards.decodeStrict
  rw [if_pos (Ed25519Sign.encode_length P), hsplit]
  dsimp only
  rw [if_pos (show P.y < Edwards.p from hy), hrec]
  dsimp only
  by_cases h0 : P.x = 0
  · obtain ⟨x, y⟩ := P
    simp only at h0
    subst h0; rfl
  · rw [if_neg (by simp [h0])]

/-- the encoding is injective on curve points -/
theorem encode_injective_on_curve (P Q : Edwards.Point) (hP : OnCurve P) (hQ : OnCurve Q)
    (h : Edwards.encode P = Edwards.encode Q) : P = Q := by
  have h1 := decode_encode P hP
  rw [h, decode_encode Q hQ] at h1
  exact (Option.some.inj h1).symm

/-! ### model level: `Ge::to_bytes` then `Ge::from_bytes` -/

open Cx.Impl.Ge Cx.Proofs.GeRefine

/-- `decodeFact` for a string whose Spec decoding is known.  (Stated for a GENERAL string: instantiating `DecodeFact`
    directly at `encode P` would make the elaborator try to evaluate the `match` on `decode (encode P)`.) -/
theorem from_bytes_of_decode (s : Bytes) (hs : s.length = 32) (P : Edwards.Point) (hd : Edwards.decode s = some P) :
    OnCurve P ∧ ∃ g, Ge.from_bytes s = some (some g) ∧ GeOk g P := by
  have hdf := decodeFact s hs
  rw [hd] at hdf
  exact hdf

theorem from_bytes_of_decode_none (s : Bytes) (hs : s.length = 32) (hd : Edwards.decode s = none) :
    Ge.from_bytes s = some none := by
  have hdf := decodeFact s hs
  rw [hd] at hdf
  exact hdf

/-- `to_bytes` then `from_bytes` returns (no panic, no refusal) a representation of the same point -/
theorem from_bytes_to_bytes (g : Ge) (P : Edwards.Point) (h : GeOk g P) (hP : OnCurve P) :
    ∃ b g', g.to_bytes = some b ∧ b = Edwards.encode P ∧ Ge.from_bytes b = some (some g') ∧ GeOk g' P := by
  obtain ⟨hx, hy, _⟩ := (onCurve_iff P).1 hP
  obtain ⟨_, g', e, ok⟩ := from_bytes_of_decode _ (Ed25519Sign.encode_length P) P (decode_encode P hP)
  exact ⟨Edwards.encode P, g', Proofs.GeBytes.ge_to_bytes_ok g P h hx hy, rfl, e, ok⟩

/-- `from_bytes` then `to_bytes`: an accepted 32-byte string `s` is re-encoded to the canonical encoding of the
    point it denotes (`= s` exactly when `s` is canonical) -/
theorem to_bytes_from_bytes (s : Bytes) (hs : s.length = 32) (g : Ge) (h : Ge.from_bytes s = some (some g)) :
    ∃ P, Edwards.decode s = some P ∧ OnCurve P ∧ GeOk g P ∧ g.to_bytes = some (Edwards.encode P) := by
  cases hd : Edwards.decode s with
  | none =>
    rw [from_bytes_of_decode_none s hs hd] at h; cases h
  | some P =>
    obtain ⟨hP, g', e, ok⟩ := from_bytes_of_decode s hs P hd
    rw [e] at h
    have : g' = g := Option.some.inj (Option.some.inj h)
    subst this
    obtain ⟨hx, hy, _⟩ := (onCurve_iff P).1 hP
    exact ⟨P, rfl, hP, ok, Proofs.GeBytes.ge_to_bytes_ok g' P ok hx hy⟩

end prime

end Cx.Proofs.EdRoundTrip
