/-
  Proofs.GlueDigest — helper lemmas for the translator tie of the legacy `Digest` objects and of the hash contexts
  (Props/C09/GlueTieDigest.lean): the shapes tools/ktx_glue_digest.py generates (Extracted/GlueDigest.lean) against the
  hand models Impl/Digest.lean, Impl/Sha1.lean, Impl/Ripemd160.lean, Impl/Sha2.lean.
  Core Lean only.
-/
import CxVerif.Extracted.GlueDigest
namespace Cx.Proofs.GlueDigest
open Cx Cx.Impl.Digest Cx.Extracted.GlueDigest

/-! ### the macro-generated wrappers: one lemma per method, generic in the context model -/

section legacy
variable {γ : Type} (M : CtxModel γ)

/-- the generated text of `input` -/
theorem legacy_input (self : Legacy γ) (msg : Bytes) :
    (if self.computed then none else
      match M.update_mut self.ctx msg with
      | none => none
      | some t1 => some { self with ctx := t1 }) = Legacy.input M self msg := rfl

/-- the generated text of `result`: the flag is set BEFORE `finalize_reset`, the digest is stored by `copy_from_slice`
    (which compares the two lengths) -/
theorem legacy_result (self : Legacy γ) (slice : Bytes) :
    (if self.computed then none else
      match M.finalize_reset ({ self with computed := true } : Legacy γ).ctx with
      | none => none
      | some (t1, t2) =>
        if t2.length = slice.length then some (({ ({ self with computed := true } : Legacy γ) with ctx := t1 } : Legacy γ), t2)
        else none) = Legacy.result M self slice.length := by
  unfold Legacy.result
  cases hc : self.computed
  · simp only [Bool.false_eq_true, if_false]
    cases hf : M.finalize_reset self.ctx with
    | none => rfl
    | some p =>
      obtain ⟨c, d⟩ := p
      by_cases hl : d.length = slice.length
      · simp [hl]
      · have : ¬ slice.length = d.length := fun h => hl h.symm
        simp [hl, this]
  · rfl

end legacy

/-! ### `Digest::result_str`: the hex loop -/

/-- `const CHARS: &'static [u8; 16] = b"0123456789abcdef"` as the translator emits it -/
def CHARS : Bytes := [48, 49, 50, 51, 52, 53, 54, 55, 56, 57, 97, 98, 99, 100, 101, 102]

/-- the lowercase hex digit of a nibble, as an ASCII byte -/
def hexNibble (n : UInt8) : UInt8 := if n < 10 then 48 + n else 87 + n

/-- the model of `result_str`'s loop: two lowercase hex digits per byte, high nibble first (the UTF-8 bytes of the `String`) -/
def hexAscii (d : Bytes) : Bytes := d.flatMap fun (b : UInt8) => [hexNibble (b >>> 4), hexNibble (b &&& 15)]

set_option maxRecDepth 100000 in
theorem nib_all : ∀ n : Fin 256,
    ((UInt8.ofNat n) >>> 4).toNat < 16 ∧ CHARS[((UInt8.ofNat n) >>> 4).toNat]? = some (hexNibble ((UInt8.ofNat n) >>> 4)) ∧
    ((UInt8.ofNat n) &&& 15).toNat < 16 ∧ CHARS[((UInt8.ofNat n) &&& 15).toNat]? = some (hexNibble ((UInt8.ofNat n) &&& 15)) ∧
    Char.ofNat (hexNibble ((UInt8.ofNat n) >>> 4)).toNat = Hex.digit (n.val / 16) ∧
    Char.ofNat (hexNibble ((UInt8.ofNat n) &&& 15)).toNat = Hex.digit (n.val % 16) := by
  decide +kernel

/-- all 256 bytes: both table look-ups of the loop body are in range and give the hex digits -/
theorem nib (b : UInt8) :
    (b >>> 4).toNat < 16 ∧ CHARS[(b >>> 4).toNat]? = some (hexNibble (b >>> 4)) ∧
    (b &&& 15).toNat < 16 ∧ CHARS[(b &&& 15).toNat]? = some (hexNibble (b &&& 15)) ∧
    Char.ofNat (hexNibble (b >>> 4)).toNat = Hex.digit (b.toNat / 16) ∧
    Char.ofNat (hexNibble (b &&& 15)).toNat = Hex.digit (b.toNat % 16) := by
  have h := nib_all ⟨b.toNat, b.toNat_lt⟩
  simpa using h

/-- `hexAscii` is the hex codec of Util/Bytes.lean (the one the line protocol prints digests with) -/
theorem hexAscii_chars (d : Bytes) : (hexAscii d).map (fun b => Char.ofNat b.toNat) = Hex.encodeChars d := by
  induction d with
  | nil => rfl
  | cons b bs ih =>
    obtain ⟨_, _, _, _, h5, h6⟩ := nib b
    have : hexAscii (b :: bs) = hexNibble (b >>> 4) :: hexNibble (b &&& 15) :: hexAscii bs := by
      simp [hexAscii]
    rw [this]
    simp only [List.map_cons, Hex.encodeChars, ih, h5, h6]

/-- the loop `for &byte in buf.iter() { v.push(CHARS[byte >> 4]); v.push(CHARS[byte & 0xf]); }` never panics and appends the
    hex digits -/
theorem result_str_loop {δ : Type} (D : DigestModel δ) (buf : Bytes) : ∀ v : Bytes,
    Digest.result_str_loop1_src D buf v = some (v ++ hexAscii buf) := by
  induction buf with
  | nil => intro v; simp [Digest.result_str_loop1_src, hexAscii]
  | cons b bs ih =>
    intro v
    obtain ⟨h1, h2, h3, h4, _, _⟩ := nib b
    have e2 : ([48, 49, 50, 51, 52, 53, 54, 55, 56, 57, 97, 98, 99, 100, 101, 102] : Bytes) = CHARS := rfl
    unfold Digest.result_str_loop1_src
    simp only [e2, h1, h2, h3, h4, if_true, ih]
    simp [hexAscii]

end Cx.Proofs.GlueDigest
