/-
  Proofs.GlueDigest — helper lemmas for the translator tie of the legacy `Digest` objects and of the hash contexts
  (Props/C09/GlueTieDigest.lean): the shapes tools/ktx_glue_digest.py generates (Extracted/GlueDigest.lean) against the
  hand models Impl/Digest.lean, Impl/Sha1.lean, Impl/Ripemd160.lean, Impl/Sha2.lean.
  Core Lean only.
-/
import CxVerif.Extracted.GlueDigest
namespace Cx.Proofs.GlueDigest
open Cx Cx.Impl Cx.Impl.Digest Cx.Extracted.GlueDigest

/-! ### the macro-generated wrappers: one lemma per method, generic in the context model -/

section legacy
variable {γ : Type} (M : CtxModel γ)

/-- the generated text of `input` -/
theorem legacy_input (self : Legacy γ) (msg : Bytes) :
    (if self.computed then none else
      match M.update_mut self.ctx msg with
      | none => none
      | some t1 => some { self with ctx := t1 }) = Legacy.input M self msg := rfl

/-- the generated text of `result`: the flag is set BEFORE `finalize_reset`, the digest is stored by `copy_from_slice`
    (which compares the two lengths) -/
theorem legacy_result (self : Legacy γ) (slice : Bytes) :
    (if self.computed then none else
      match M.finalize_reset ({ self with computed := true } : Legacy γ).ctx with
      | none => none
      | some (t1, t2) =>
        if t2.length = slice.length then some (({ ({ self with computed := true } : Legacy γ) with ctx := t1 } : Legacy γ), t2)
        else none) = Legacy.result M self slice.length := by
  unfold Legacy.result
  cases hc : self.computed
  · simp only [Bool.false_eq_true, if_false]
    cases hf : M.finalize_reset self.ctx with
    | none => rfl
    | some p =>
      obtain ⟨c, d⟩ := p
      by_cases hl : d.length = slice.length
      · simp [hl]
      · have : ¬ slice.length = d.length := fun h => hl h.symm
        simp [hl, this]
  · rfl

end legacy

/-! ### `Digest::result_str`: the hex loop -/

/-- `const CHARS: &'static [u8; 16] = b"0123456789abcdef"` as the translator emits it -/
def CHARS : Bytes := [48, 49, 50, 51, 52, 53, 54, 55, 56, 57, 97, 98, 99, 100, 101, 102]

/-- the lowercase hex digit of a nibble, as an ASCII byte -/
def hexNibble (n : UInt8) : UInt8 := if n < 10 then 48 + n else 87 + n

/-- the model of `result_str`'s loop: two lowercase hex digits per byte, high nibble first (the UTF-8 bytes of the `String`) -/
def hexAscii (d : Bytes) : Bytes := d.flatMap fun (b : UInt8) => [hexNibble (b >>> 4), hexNibble (b &&& 15)]

set_option maxRecDepth 100000 in
theorem nib_all : ∀ n : Fin 256,
    ((UInt8.ofNat n) >>> 4).toNat < 16 ∧ CHARS[((UInt8.ofNat n) >>> 4).toNat]? = some (hexNibble ((UInt8.ofNat n) >>> 4)) ∧
    ((UInt8.ofNat n) &&& 15).toNat < 16 ∧ CHARS[((UInt8.ofNat n) &&& 15).toNat]? = some (hexNibble ((UInt8.ofNat n) &&& 15)) ∧
    Char.ofNat (hexNibble ((UInt8.ofNat n) >>> 4)).toNat = Hex.digit (n.val / 16) ∧
    Char.ofNat (hexNibble ((UInt8.ofNat n) &&& 15)).toNat = Hex.digit (n.val % 16) := by
  decide +kernel

/-- all 256 bytes: both table look-ups of the loop body are in range and give the hex digits -/
theorem nib (b : UInt8) :
    (b >>> 4).toNat < 16 ∧ CHARS[(b >>> 4).toNat]? = some (hexNibble (b >>> 4)) ∧
    (b &&& 15).toNat < 16 ∧ CHARS[(b &&& 15).toNat]? = some (hexNibble (b &&& 15)) ∧
    Char.ofNat (hexNibble (b >>> 4)).toNat = Hex.digit (b.toNat / 16) ∧
    Char.ofNat (hexNibble (b &&& 15)).toNat = Hex.digit (b.toNat % 16) := by
  have h := nib_all ⟨b.toNat, b.toNat_lt⟩
  simpa using h

/-- `hexAscii` is the hex codec of Util/Bytes.lean (the one the line protocol prints digests with) -/
theorem hexAscii_chars (d : Bytes) : (hexAscii d).map (fun b => Char.ofNat b.toNat) = Hex.encodeChars d := by
  induction d with
  | nil => rfl
  | cons b bs ih =>
    obtain ⟨_, _, _, _, h5, h6⟩ := nib b
    have : hexAscii (b :: bs) = hexNibble (b >>> 4) :: hexNibble (b &&& 15) :: hexAscii bs := by
      simp [hexAscii]
    rw [this]
    simp only [List.map_cons, Hex.encodeChars, ih, h5, h6]

/-- the loop `for &byte in buf.iter() { v.push(CHARS[byte >> 4]); v.push(CHARS[byte & 0xf]); }` never panics and appends the
    hex digits -/
theorem result_str_loop {δ : Type} (D : DigestModel δ) (buf : Bytes) : ∀ v : Bytes,
    Digest.result_str_loop1_src D buf v = some (v ++ hexAscii buf) := by
  induction buf with
  | nil => intro v; simp [Digest.result_str_loop1_src, hexAscii]
  | cons b bs ih =>
    intro v
    obtain ⟨h1, h2, h3, h4, _, _⟩ := nib b
    have e2 : ([48, 49, 50, 51, 52, 53, 54, 55, 56, 57, 97, 98, 99, 100, 101, 102] : Bytes) = CHARS := rfl
    unfold Digest.result_str_loop1_src
    simp only [e2, h1, h2, h3, h4, if_true, ih]
    simp [hexAscii]

/-! ### the legacy BLAKE2 objects (src/blake2b.rs, src/blake2s.rs)

  The Rust struct keeps `key: [u8; N]` and `keylen`; the hand model `Impl.Digest.Blake2` keeps `key[..keylen]`: `abs`.
  `Inv` is the typing invariant of the array plus `keylen ≤ N` (established by the constructors, preserved by every method).
  The two files are the same text up to b/s, `u64`/`u32` and `N` = 64 / 32 (the `assert!(key.len() <= 64)` of `new_keyed` is 64
  in both); so are the two groups of lemmas. -/

set_option linter.unusedSimpArgs false
set_option linter.unusedVariables false

namespace B2b
open Cx.Impl.Blake2 (ContextDyn)
abbrev P := Impl.Blake2.b

/-- abstraction: the model keeps `key[..keylen]` -/
def abs (s : Blake2b.Obj) : Impl.Digest.Blake2 UInt64 := { ctx := s.ctx, computed := s.computed, key := s.key.take s.keylen }

/-- typing invariant: `key: [u8; 64]`, and `keylen` is the length of a key that fitted -/
def Inv (s : Blake2b.Obj) : Prop := s.key.length = 64 ∧ s.keylen ≤ 64

theorem maxKey : P.maxKey = 64 := by decide

theorem rwk_len {c c' : ContextDyn UInt64} {key : Bytes} (h : ContextDyn.reset_with_key P c key = some c') : key.length ≤ 64 := by
  unfold ContextDyn.reset_with_key Impl.Blake2.Ctx.reset_with_key at h
  by_cases hk : key.length ≤ P.maxKey
  · rw [maxKey] at hk; exact hk
  · simp [hk] at h

theorem nk_len {outlen : Nat} {c' : ContextDyn UInt64} {key : Bytes} (h : ContextDyn.new_keyed P outlen key = some c') : key.length ≤ 64 := by
  unfold ContextDyn.new_keyed Impl.Blake2.Ctx.new_keyed at h
  by_cases hk : key.length ≤ P.maxKey
  · rw [maxKey] at hk; exact hk
  · by_cases ho : (outlen > 0 ∧ outlen ≤ P.maxOut) <;> simp [hk, ho] at h

theorem new_src_eq (outlen : Nat) : (Blake2b.new_src outlen).map abs = Blake2.new P outlen := by
  unfold Blake2b.new_src Blake2.new
  cases ContextDyn.new P outlen <;> simp [abs]

theorem new_src_inv (outlen : Nat) (s : Blake2b.Obj) (h : Blake2b.new_src outlen = some s) : Inv s := by
  unfold Blake2b.new_src at h
  cases hc : ContextDyn.new P outlen <;> simp [hc] at h
  subst h; simp [Inv, zeros]

theorem new_keyed_src_eq (outlen : Nat) (key : Bytes) :
    (Blake2b.new_keyed_src outlen key).map abs = Blake2.new_keyed P bKeyAssert outlen key := by
  unfold Blake2b.new_keyed_src Blake2.new_keyed
  have : bKeyAssert = 64 := by decide
  rw [this]
  by_cases hk : key.length ≤ 64
  · cases hc : ContextDyn.new_keyed P outlen key with
    | none => simp [hk]
    | some c =>
      have hk2 := nk_len hc
      simp [hk, hk2, abs]
  · simp [hk]

theorem new_keyed_src_inv (outlen : Nat) (key : Bytes) (s : Blake2b.Obj) (h : Blake2b.new_keyed_src outlen key = some s) : Inv s := by
  unfold Blake2b.new_keyed_src at h
  by_cases hk : key.length ≤ 64
  · cases hc : ContextDyn.new_keyed P outlen key with
    | none => simp [hk, hc] at h
    | some c =>
      have hk2 := nk_len hc
      simp [hk, hk2, hc] at h
      subst h
      refine ⟨?_, hk2⟩
      simp [zeros]; omega
  · simp [hk] at h

theorem update_src_eq (s : Blake2b.Obj) (input : Bytes) :
    (Blake2b.update_src s input).map abs = Blake2.update P (abs s) input := by
  unfold Blake2b.update_src Blake2.update
  cases hcomp : s.computed <;> cases hc : ContextDyn.update_mut P blakeProfile s.ctx input <;> simp [abs, hcomp, hc]

theorem finalize_src_eq (s : Blake2b.Obj) (slice : Bytes) :
    (Blake2b.finalize_src s slice).map (fun p => (abs p.1, p.2)) = Blake2.finalize P (abs s) slice.length := by
  unfold Blake2b.finalize_src Blake2.finalize
  cases hcomp : s.computed <;> cases hc : ContextDyn.finalize_reset_at P blakeProfile s.ctx slice.length <;> simp [abs, hcomp, hc]

theorem reset_src_eq (s : Blake2b.Obj) (hi : Inv s) :
    (Blake2b.reset_src s).map abs = Blake2.reset codeVariant P (abs s) := by
  obtain ⟨hl, hk⟩ := hi
  unfold Blake2b.reset_src Blake2b.reset_k1_src Blake2.reset
  have e : codeVariant = .repaired := rfl
  simp only [e, abs]
  have hlen : (List.take s.keylen s.key).length = s.keylen := by simp [hl]; omega
  by_cases h0 : s.keylen > 0
  · cases hc : ContextDyn.reset_with_key P s.ctx (s.key.take s.keylen) <;> simp [h0, hk, hc, hlen, abs]
  · simp [h0, hlen, abs]

theorem reset_src_inv (s s' : Blake2b.Obj) (hi : Inv s) (h : Blake2b.reset_src s = some s') : Inv s' := by
  obtain ⟨hl, hk⟩ := hi
  unfold Blake2b.reset_src Blake2b.reset_k1_src at h
  by_cases h0 : s.keylen > 0
  · cases hc : ContextDyn.reset_with_key P s.ctx (s.key.take s.keylen) <;> simp [h0, hk, hc] at h
    subst h; exact ⟨hl, hk⟩
  · simp [h0] at h
    subst h; exact ⟨hl, hk⟩

theorem reset_with_key_src_eq (s : Blake2b.Obj) (key : Bytes) :
    (Blake2b.reset_with_key_src s key).map abs = Blake2.reset_with_key P (abs s) key := by
  unfold Blake2b.reset_with_key_src Blake2.reset_with_key
  cases hc : ContextDyn.reset_with_key P s.ctx key with
  | none => simp [abs, hc]
  | some c =>
    have hk := rwk_len hc
    simp [abs, hc, hk]

theorem reset_with_key_src_inv (s s' : Blake2b.Obj) (key : Bytes) (h : Blake2b.reset_with_key_src s key = some s') : Inv s' := by
  unfold Blake2b.reset_with_key_src at h
  cases hc : ContextDyn.reset_with_key P s.ctx key with
  | none => simp [hc] at h
  | some c =>
    have hk := rwk_len hc
    simp [hc, hk] at h
    subst h
    refine ⟨?_, hk⟩
    simp [zeros]; omega

theorem update_src_inv (s s' : Blake2b.Obj) (input : Bytes) (hi : Inv s) (h : Blake2b.update_src s input = some s') : Inv s' := by
  unfold Blake2b.update_src at h
  cases hcomp : s.computed <;> cases hc : ContextDyn.update_mut P blakeProfile s.ctx input <;> simp [hcomp, hc] at h
  subst h; exact hi

theorem finalize_src_inv (s s' : Blake2b.Obj) (slice out : Bytes) (hi : Inv s) (h : Blake2b.finalize_src s slice = some (s', out)) :
    Inv s' := by
  unfold Blake2b.finalize_src at h
  cases hcomp : s.computed <;> cases hc : ContextDyn.finalize_reset_at P blakeProfile s.ctx slice.length <;> simp [hcomp, hc] at h
  obtain ⟨h1, _⟩ := h
  subst h1; exact hi

/-- the static one-shot `Blake2b::blake2b(out, input, key)`: the new contents of `out` -/
theorem blake2b_src_eq (out input key : Bytes) :
    Blake2b.blake2b_src out input key = Blake2.oneShot P bKeyAssert out.length input key := by
  unfold Blake2b.blake2b_src Blake2.oneShot
  have h1 : (if (!key.isEmpty) = true then Blake2.new_keyed P bKeyAssert out.length key else Blake2.new P out.length)
      = (if (!key.isEmpty) = true then Blake2b.new_keyed_src out.length key else Blake2b.new_src out.length).map abs := by
    split
    · rw [new_keyed_src_eq]
    · rw [new_src_eq]
  rw [h1]
  cases (if (!key.isEmpty) = true then Blake2b.new_keyed_src out.length key else Blake2b.new_src out.length) with
  | none => rfl
  | some s =>
    simp only [Option.map_some]
    rw [← update_src_eq]
    cases Blake2b.update_src s input with
    | none => rfl
    | some s2 =>
      simp only [Option.map_some]
      rw [← finalize_src_eq]
      cases Blake2b.finalize_src s2 out with
      | none => rfl
      | some p => rfl

/-! `impl Digest for Blake2b` -/

theorem digest_input_src_eq (s : Blake2b.Obj) (msg : Bytes) :
    (Blake2b.Digest.input_src s msg).map abs = (blake2bDigest codeVariant).input (abs s) msg := by
  unfold Blake2b.Digest.input_src
  show _ = Blake2.update P (abs s) msg
  rw [← update_src_eq]
  cases Blake2b.update_src s msg <;> rfl

theorem digest_reset_src_eq (s : Blake2b.Obj) (hi : Inv s) :
    (Blake2b.Digest.reset_src s).map abs = (blake2bDigest codeVariant).reset (abs s) := by
  unfold Blake2b.Digest.reset_src
  show _ = Blake2.reset codeVariant P (abs s)
  rw [← reset_src_eq s hi]
  cases Blake2b.reset_src s <;> rfl

theorem digest_result_src_eq (s : Blake2b.Obj) (out : Bytes) :
    (Blake2b.Digest.result_src s out).map (fun p => (abs p.1, p.2)) = (blake2bDigest codeVariant).result (abs s) out.length := by
  unfold Blake2b.Digest.result_src
  show _ = Blake2.finalize P (abs s) out.length
  rw [← finalize_src_eq]
  cases Blake2b.finalize_src s out <;> rfl

theorem digest_output_bits_src_eq (s : Blake2b.Obj) :
    Blake2b.Digest.output_bits_src s = (blake2bDigest codeVariant).output_bits (abs s) := rfl

theorem digest_block_size_src_eq (s : Blake2b.Obj) :
    Blake2b.Digest.block_size_src s = (blake2bDigest codeVariant).block_size (abs s) := rfl

/-! `impl Mac for Blake2b` -/

theorem mac_input_src_eq (s : Blake2b.Obj) (data : Bytes) :
    (Blake2b.Mac.input_src s data).map abs = (blake2bMac codeVariant).input (abs s) data := by
  unfold Blake2b.Mac.input_src
  show _ = Blake2.update P (abs s) data
  rw [← update_src_eq]
  cases Blake2b.update_src s data <;> rfl

theorem mac_reset_src_eq (s : Blake2b.Obj) (hi : Inv s) :
    (Blake2b.Mac.reset_src s).map abs = (blake2bMac codeVariant).reset (abs s) := by
  unfold Blake2b.Mac.reset_src
  show _ = Blake2.reset codeVariant P (abs s)
  rw [← reset_src_eq s hi]
  cases Blake2b.reset_src s <;> rfl

theorem mac_raw_result_src_eq (s : Blake2b.Obj) (output : Bytes) :
    (Blake2b.Mac.raw_result_src s output).map (fun p => (abs p.1, p.2))
      = (blake2bMac codeVariant).raw_result (abs s) output.length := by
  unfold Blake2b.Mac.raw_result_src
  show _ = Blake2.finalize P (abs s) output.length
  rw [← finalize_src_eq]
  cases Blake2b.finalize_src s output <;> rfl

/-- `result()`: a buffer of `output_bits() / 8` zero bytes through `raw_result`, wrapped by `MacResult::new_from_owned` -/
theorem mac_result_src_eq (s : Blake2b.Obj) :
    (Blake2b.Mac.result_src s).map (fun p => (abs p.1, p.2.code)) = (blake2bMac codeVariant).result (abs s) := by
  unfold Blake2b.Mac.result_src
  have hz : ∀ n, (zeros n).length = n := by intro n; simp [zeros]
  have h := mac_raw_result_src_eq s (zeros (s.ctx.output_bits / 8))
  rw [hz] at h
  show _ = (blake2bMac codeVariant).raw_result (abs s) (s.ctx.output_bits / 8)
  rw [← h]
  show Option.map _ (match Blake2b.Mac.raw_result_src s (zeros (s.ctx.output_bits / 8)) with | none => none | some (self, mac) => _) = _
  cases Blake2b.Mac.raw_result_src s (zeros (s.ctx.output_bits / 8)) <;> rfl

theorem mac_output_bytes_src_eq (s : Blake2b.Obj) :
    Blake2b.Mac.output_bytes_src s = (blake2bMac codeVariant).output_bytes (abs s) := rfl
end B2b

namespace B2s
open Cx.Impl.Blake2 (ContextDyn)
abbrev P := Impl.Blake2.s

/-- abstraction: the model keeps `key[..keylen]` -/
def abs (s : Blake2s.Obj) : Impl.Digest.Blake2 UInt32 := { ctx := s.ctx, computed := s.computed, key := s.key.take s.keylen }

/-- typing invariant: `key: [u8; 32]`, and `keylen` is the length of a key that fitted -/
def Inv (s : Blake2s.Obj) : Prop := s.key.length = 32 ∧ s.keylen ≤ 32

theorem maxKey : P.maxKey = 32 := by decide

theorem rwk_len {c c' : ContextDyn UInt32} {key : Bytes} (h : ContextDyn.reset_with_key P c key = some c') : key.length ≤ 32 := by
  unfold ContextDyn.reset_with_key Impl.Blake2.Ctx.reset_with_key at h
  by_cases hk : key.length ≤ P.maxKey
  · rw [maxKey] at hk; exact hk
  · simp [hk] at h

theorem nk_len {outlen : Nat} {c' : ContextDyn UInt32} {key : Bytes} (h : ContextDyn.new_keyed P outlen key = some c') : key.length ≤ 32 := by
  unfold ContextDyn.new_keyed Impl.Blake2.Ctx.new_keyed at h
  by_cases hk : key.length ≤ P.maxKey
  · rw [maxKey] at hk; exact hk
  · by_cases ho : (outlen > 0 ∧ outlen ≤ P.maxOut) <;> simp [hk, ho] at h

theorem new_src_eq (outlen : Nat) : (Blake2s.new_src outlen).map abs = Blake2.new P outlen := by
  unfold Blake2s.new_src Blake2.new
  cases ContextDyn.new P outlen <;> simp [abs]

theorem new_src_inv (outlen : Nat) (s : Blake2s.Obj) (h : Blake2s.new_src outlen = some s) : Inv s := by
  unfold Blake2s.new_src at h
  cases hc : ContextDyn.new P outlen <;> simp [hc] at h
  subst h; simp [Inv, zeros]

theorem new_keyed_src_eq (outlen : Nat) (key : Bytes) :
    (Blake2s.new_keyed_src outlen key).map abs = Blake2.new_keyed P sKeyAssert outlen key := by
  unfold Blake2s.new_keyed_src Blake2.new_keyed
  have : sKeyAssert = 64 := by decide
  rw [this]
  by_cases hk : key.length ≤ 64
  · cases hc : ContextDyn.new_keyed P outlen key with
    | none => simp [hk]
    | some c =>
      have hk2 := nk_len hc
      simp [hk, hk2, abs]
  · simp [hk]

theorem new_keyed_src_inv (outlen : Nat) (key : Bytes) (s : Blake2s.Obj) (h : Blake2s.new_keyed_src outlen key = some s) : Inv s := by
  unfold Blake2s.new_keyed_src at h
  by_cases hk : key.length ≤ 64
  · cases hc : ContextDyn.new_keyed P outlen key with
    | none => simp [hk, hc] at h
    | some c =>
      have hk2 := nk_len hc
      simp [hk, hk2, hc] at h
      subst h
      refine ⟨?_, hk2⟩
      simp [zeros]; omega
  · simp [hk] at h

theorem update_src_eq (s : Blake2s.Obj) (input : Bytes) :
    (Blake2s.update_src s input).map abs = Blake2.update P (abs s) input := by
  unfold Blake2s.update_src Blake2.update
  cases hcomp : s.computed <;> cases hc : ContextDyn.update_mut P blakeProfile s.ctx input <;> simp [abs, hcomp, hc]

theorem finalize_src_eq (s : Blake2s.Obj) (slice : Bytes) :
    (Blake2s.finalize_src s slice).map (fun p => (abs p.1, p.2)) = Blake2.finalize P (abs s) slice.length := by
  unfold Blake2s.finalize_src Blake2.finalize
  cases hcomp : s.computed <;> cases hc : ContextDyn.finalize_reset_at P blakeProfile s.ctx slice.length <;> simp [abs, hcomp, hc]

theorem reset_src_eq (s : Blake2s.Obj) (hi : Inv s) :
    (Blake2s.reset_src s).map abs = Blake2.reset codeVariant P (abs s) := by
  obtain ⟨hl, hk⟩ := hi
  unfold Blake2s.reset_src Blake2s.reset_k1_src Blake2.reset
  have e : codeVariant = .repaired := rfl
  simp only [e, abs]
  have hlen : (List.take s.keylen s.key).length = s.keylen := by simp [hl]; omega
  by_cases h0 : s.keylen > 0
  · cases hc : ContextDyn.reset_with_key P s.ctx (s.key.take s.keylen) <;> simp [h0, hk, hc, hlen, abs]
  · simp [h0, hlen, abs]

theorem reset_src_inv (s s' : Blake2s.Obj) (hi : Inv s) (h : Blake2s.reset_src s = some s') : Inv s' := by
  obtain ⟨hl, hk⟩ := hi
  unfold Blake2s.reset_src Blake2s.reset_k1_src at h
  by_cases h0 : s.keylen > 0
  · cases hc : ContextDyn.reset_with_key P s.ctx (s.key.take s.keylen) <;> simp [h0, hk, hc] at h
    subst h; exact ⟨hl, hk⟩
  · simp [h0] at h
    subst h; exact ⟨hl, hk⟩

theorem reset_with_key_src_eq (s : Blake2s.Obj) (key : Bytes) :
    (Blake2s.reset_with_key_src s key).map abs = Blake2.reset_with_key P (abs s) key := by
  unfold Blake2s.reset_with_key_src Blake2.reset_with_key
  cases hc : ContextDyn.reset_with_key P s.ctx key with
  | none => simp [abs, hc]
  | some c =>
    have hk := rwk_len hc
    simp [abs, hc, hk]

theorem reset_with_key_src_inv (s s' : Blake2s.Obj) (key : Bytes) (h : Blake2s.reset_with_key_src s key = some s') : Inv s' := by
  unfold Blake2s.reset_with_key_src at h
  cases hc : ContextDyn.reset_with_key P s.ctx key with
  | none => simp [hc] at h
  | some c =>
    have hk := rwk_len hc
    simp [hc, hk] at h
    subst h
    refine ⟨?_, hk⟩
    simp [zeros]; omega

theorem update_src_inv (s s' : Blake2s.Obj) (input : Bytes) (hi : Inv s) (h : Blake2s.update_src s input = some s') : Inv s' := by
  unfold Blake2s.update_src at h
  cases hcomp : s.computed <;> cases hc : ContextDyn.update_mut P blakeProfile s.ctx input <;> simp [hcomp, hc] at h
  subst h; exact hi

theorem finalize_src_inv (s s' : Blake2s.Obj) (slice out : Bytes) (hi : Inv s) (h : Blake2s.finalize_src s slice = some (s', out)) :
    Inv s' := by
  unfold Blake2s.finalize_src at h
  cases hcomp : s.computed <;> cases hc : ContextDyn.finalize_reset_at P blakeProfile s.ctx slice.length <;> simp [hcomp, hc] at h
  obtain ⟨h1, _⟩ := h
  subst h1; exact hi

/-- the static one-shot `Blake2s::blake2s(out, input, key)`: the new contents of `out` -/
theorem blake2s_src_eq (out input key : Bytes) :
    Blake2s.blake2s_src out input key = Blake2.oneShot P sKeyAssert out.length input key := by
  unfold Blake2s.blake2s_src Blake2.oneShot
  have h1 : (if (!key.isEmpty) = true then Blake2.new_keyed P sKeyAssert out.length key else Blake2.new P out.length)
      = (if (!key.isEmpty) = true then Blake2s.new_keyed_src out.length key else Blake2s.new_src out.length).map abs := by
    split
    · rw [new_keyed_src_eq]
    · rw [new_src_eq]
  rw [h1]
  cases (if (!key.isEmpty) = true then Blake2s.new_keyed_src out.length key else Blake2s.new_src out.length) with
  | none => rfl
  | some s =>
    simp only [Option.map_some]
    rw [← update_src_eq]
    cases Blake2s.update_src s input with
    | none => rfl
    | some s2 =>
      simp only [Option.map_some]
      rw [← finalize_src_eq]
      cases Blake2s.finalize_src s2 out with
      | none => rfl
      | some p => rfl

/-! `impl Digest for Blake2s` -/

theorem digest_input_src_eq (s : Blake2s.Obj) (msg : Bytes) :
    (Blake2s.Digest.input_src s msg).map abs = (blake2sDigest codeVariant).input (abs s) msg := by
  unfold Blake2s.Digest.input_src
  show _ = Blake2.update P (abs s) msg
  rw [← update_src_eq]
  cases Blake2s.update_src s msg <;> rfl

theorem digest_reset_src_eq (s : Blake2s.Obj) (hi : Inv s) :
    (Blake2s.Digest.reset_src s).map abs = (blake2sDigest codeVariant).reset (abs s) := by
  unfold Blake2s.Digest.reset_src
  show _ = Blake2.reset codeVariant P (abs s)
  rw [← reset_src_eq s hi]
  cases Blake2s.reset_src s <;> rfl

theorem digest_result_src_eq (s : Blake2s.Obj) (out : Bytes) :
    (Blake2s.Digest.result_src s out).map (fun p => (abs p.1, p.2)) = (blake2sDigest codeVariant).result (abs s) out.length := by
  unfold Blake2s.Digest.result_src
  show _ = Blake2.finalize P (abs s) out.length
  rw [← finalize_src_eq]
  cases Blake2s.finalize_src s out <;> rfl

theorem digest_output_bits_src_eq (s : Blake2s.Obj) :
    Blake2s.Digest.output_bits_src s = (blake2sDigest codeVariant).output_bits (abs s) := rfl

theorem digest_block_size_src_eq (s : Blake2s.Obj) :
    Blake2s.Digest.block_size_src s = (blake2sDigest codeVariant).block_size (abs s) := rfl

/-! `impl Mac for Blake2s` -/

theorem mac_input_src_eq (s : Blake2s.Obj) (data : Bytes) :
    (Blake2s.Mac.input_src s data).map abs = (blake2sMac codeVariant).input (abs s) data := by
  unfold Blake2s.Mac.input_src
  show _ = Blake2.update P (abs s) data
  rw [← update_src_eq]
  cases Blake2s.update_src s data <;> rfl

theorem mac_reset_src_eq (s : Blake2s.Obj) (hi : Inv s) :
    (Blake2s.Mac.reset_src s).map abs = (blake2sMac codeVariant).reset (abs s) := by
  unfold Blake2s.Mac.reset_src
  show _ = Blake2.reset codeVariant P (abs s)
  rw [← reset_src_eq s hi]
  cases Blake2s.reset_src s <;> rfl

theorem mac_raw_result_src_eq (s : Blake2s.Obj) (output : Bytes) :
    (Blake2s.Mac.raw_result_src s output).map (fun p => (abs p.1, p.2))
      = (blake2sMac codeVariant).raw_result (abs s) output.length := by
  unfold Blake2s.Mac.raw_result_src
  show _ = Blake2.finalize P (abs s) output.length
  rw [← finalize_src_eq]
  cases Blake2s.finalize_src s output <;> rfl

/-- `result()`: a buffer of `output_bits() / 8` zero bytes through `raw_result`, wrapped by `MacResult::new_from_owned` -/
theorem mac_result_src_eq (s : Blake2s.Obj) :
    (Blake2s.Mac.result_src s).map (fun p => (abs p.1, p.2.code)) = (blake2sMac codeVariant).result (abs s) := by
  unfold Blake2s.Mac.result_src
  have hz : ∀ n, (zeros n).length = n := by intro n; simp [zeros]
  have h := mac_raw_result_src_eq s (zeros (s.ctx.output_bits / 8))
  rw [hz] at h
  show _ = (blake2sMac codeVariant).raw_result (abs s) (s.ctx.output_bits / 8)
  rw [← h]
  show Option.map _ (match Blake2s.Mac.raw_result_src s (zeros (s.ctx.output_bits / 8)) with | none => none | some (self, mac) => _) = _
  cases Blake2s.Mac.raw_result_src s (zeros (s.ctx.output_bits / 8)) <;> rfl

theorem mac_output_bytes_src_eq (s : Blake2s.Obj) :
    Blake2s.Mac.output_bytes_src s = (blake2sMac codeVariant).output_bytes (abs s) := rfl
end B2s

/-! ### src/hashing/sha1.rs, src/hashing/ripemd160.rs, src/hashing/sha2/mod.rs, src/hashing/mod.rs -/

theorem store_step (pre rest w : Bytes) (k : Nat) (hp : pre.length = k) :
    (pre ++ rest).take k ++ w ++ (pre ++ rest).drop (k + 4) = (pre ++ w) ++ rest.drop 4 := by
  subst hp
  simp [List.drop_append]
  
theorem five_stores (rs a b c d e : Bytes) (hr : rs.length = 20) (ha : a.length = 4) (hb : b.length = 4) (hc : c.length = 4)
    (hd : d.length = 4) (he : e.length = 4) :
    (let rs := a ++ rs.drop 4
     let rs := rs.take 4 ++ b ++ rs.drop 8
     let rs := rs.take 8 ++ c ++ rs.drop 12
     let rs := rs.take 12 ++ d ++ rs.drop 16
     let rs := rs.take 16 ++ e ++ rs.drop 20
     rs) = a ++ b ++ c ++ d ++ e := by
  simp only
  have h1 := store_step a (rs.drop 4) b 4 ha
  rw [h1]
  have h2 := store_step (a ++ b) ((rs.drop 4).drop 4) c 8 (by simp [ha, hb])
  rw [h2]
  have h3 := store_step (a ++ b ++ c) (((rs.drop 4).drop 4).drop 4) d 12 (by simp [ha, hb, hc])
  rw [h3]
  have h4 := store_step (a ++ b ++ c ++ d) ((((rs.drop 4).drop 4).drop 4).drop 4) e 16 (by simp [ha, hb, hc, hd])
  rw [h4]
  have : ((((rs.drop 4).drop 4).drop 4).drop 4).drop 4 = [] := by
    apply List.eq_nil_of_length_eq_zero; simp [hr]
  rw [this]; simp

theorem natToLE_length (n v : Nat) : (natToLE n v).length = n := by
  induction n generalizing v with
  | zero => simp [natToLE]
  | succ k ih => simp [natToLE, ih]
theorem u32be_length (w : UInt32) : (u32be w).length = 4 := by simp [u32be, natToBE, natToLE_length]
theorem u32le_length (w : UInt32) : (u32le w).length = 4 := by simp [u32le, natToLE_length]

namespace HS1
open Cx.Impl.Sha1

theorem digest_block_src_eq (state : Spec.Sha1.Hash) (block : Bytes) :
    HSha1.digest_block_src state block = digest_block state block := by
  unfold HSha1.digest_block_src digest_block Impl.read_u32v_be BLOCK_BYTES
  by_cases h : block.length = 64
  · simp [h]
    cases digest_block_u32 state (wordsBE32 block) <;> rfl
  · simp [h]

theorem digest_block_fun : (fun cs d => HSha1.digest_block_src cs d) = digest_block := by
  funext cs d; exact digest_block_src_eq cs d

theorem digest_blocks_loop_eq (l : List Bytes) : ∀ state, HSha1.digest_blocks_loop1_src l state = digest_blocks_go state l := by
  induction l with
  | nil => intro s; rfl
  | cons b bs ih =>
    intro s
    unfold HSha1.digest_blocks_loop1_src digest_blocks_go
    rw [digest_block_src_eq]
    cases digest_block s b with
    | none => rfl
    | some s' => exact ih s'

theorem digest_blocks_src_eq (state : Spec.Sha1.Hash) (block : Bytes) :
    HSha1.digest_blocks_src state block = digest_blocks state block := by
  unfold HSha1.digest_blocks_src digest_blocks BLOCK_BYTES
  rw [digest_blocks_loop_eq]
  cases digest_blocks_go state (chunks 64 block) <;> rfl

theorem digest_blocks_fun : (fun cs d => HSha1.digest_blocks_src cs d) = digest_blocks := by
  funext cs d; exact digest_blocks_src_eq cs d

theorem mk_result_src_eq (st : Context) (rs : Bytes) (hr : rs.length = 20) :
    HSha1.mk_result_src st rs = Context.mk_result st := by
  unfold HSha1.mk_result_src Context.mk_result
  rw [digest_block_fun]
  cases h1 : FixedBuffer.standard_padding 64 st.buffer 8 digest_block st.h with
  | none => rfl
  | some p =>
    obtain ⟨buf, h⟩ := p
    simp only []
    cases h2 : FixedBuffer.next_write buf 8 (u64be (st.processed_bytes <<< (3 : UInt64))) with
    | none => rfl
    | some buf2 =>
      simp only []
      cases h3 : FixedBuffer.full_buffer 64 buf2 with
      | none => rfl
      | some q =>
        obtain ⟨buf3, blk⟩ := q
        simp only [digest_block_src_eq]
        cases h4 : digest_block h blk with
        | none => rfl
        | some h' =>
          simp only [Sha1.write_u32_be]
          have := five_stores rs (u32be h'.a) (u32be h'.b) (u32be h'.c) (u32be h'.d) (u32be h'.e) hr
            (u32be_length _) (u32be_length _) (u32be_length _) (u32be_length _) (u32be_length _)
          simp only at this
          simp only [this]

theorem new_src_eq : HSha1.Context.new_src = Context.new := rfl

theorem update_mut_src_eq (self : Context) (input : Bytes) :
    HSha1.Context.update_mut_src self input = Context.update_mut self input := by
  unfold HSha1.Context.update_mut_src Context.update_mut
  rw [digest_blocks_fun]
  simp only []
  cases FixedBuffer.input 64 self.buffer input digest_blocks self.h <;> rfl

theorem update_src_eq (self : Context) (input : Bytes) :
    HSha1.Context.update_src self input = Context.update self input := by
  unfold HSha1.Context.update_src Context.update
  rw [update_mut_src_eq]
  cases Context.update_mut self input <;> rfl

theorem reset_src_eq (self : Context) : HSha1.Context.reset_src self = Context.reset self := rfl

theorem finalize_src_eq (self : Context) : HSha1.Context.finalize_src self = Context.finalize self := by
  unfold HSha1.Context.finalize_src Context.finalize
  dsimp only
  rw [mk_result_src_eq _ _ (by simp [zeros])]
  cases Context.mk_result self <;> rfl

theorem finalize_reset_src_eq (self : Context) : HSha1.Context.finalize_reset_src self = Context.finalize_reset self := by
  unfold HSha1.Context.finalize_reset_src Context.finalize_reset
  dsimp only
  rw [mk_result_src_eq _ _ (by simp [zeros])]
  cases Context.mk_result self <;> rfl

theorem sha1_new_src_eq : HSha1.Sha1.new_src = Context.new := rfl

theorem oneshot_eq (input : Bytes) : Hashing.sha1_src input = Impl.Sha1.sha1 input := by
  unfold Hashing.sha1_src Impl.Sha1.sha1
  rw [update_src_eq, sha1_new_src_eq]
  cases Context.update Context.new input with
  | none => rfl
  | some c =>
    simp only [finalize_src_eq]
    cases Context.finalize c <;> rfl
end HS1

namespace HRmd
open Cx.Impl.Ripemd160

theorem blocks_loop_eq (l : List Bytes) : ∀ h, HRipemd160.process_msg_blocks_loop1_src l h = process_msg_blocks_go h l := by
  induction l with
  | nil => intro s; rfl
  | cons b bs ih =>
    intro s
    unfold HRipemd160.process_msg_blocks_loop1_src process_msg_blocks_go
    cases process_msg_block b s with
    | none => rfl
    | some s' => exact ih s'

theorem process_msg_blocks_src_eq (data : Bytes) (h : Spec.Ripemd160.Hash) :
    HRipemd160.process_msg_blocks_src data h = process_msg_blocks data h := by
  unfold HRipemd160.process_msg_blocks_src process_msg_blocks
  rw [blocks_loop_eq]
  cases process_msg_blocks_go h (chunks 64 data) <;> rfl

theorem blocks_fun : (fun cs d => HRipemd160.process_msg_blocks_src d cs) = (fun h d => process_msg_blocks d h) := by
  funext cs d; exact process_msg_blocks_src_eq d cs

theorem new_src_eq : HRipemd160.Context.new_src = Context.new := rfl

theorem update_mut_src_eq (self : Context) (msg : Bytes) :
    HRipemd160.Context.update_mut_src self msg = Context.update_mut self msg := by
  unfold HRipemd160.Context.update_mut_src Context.update_mut
  rw [blocks_fun]
  simp only []
  cases FixedBuffer.input 64 self.buffer msg (fun h d => process_msg_blocks d h) self.h <;> rfl

theorem update_src_eq (self : Context) (input : Bytes) :
    HRipemd160.Context.update_src self input = Context.update self input := by
  unfold HRipemd160.Context.update_src Context.update
  rw [update_mut_src_eq]
  cases Context.update_mut self input <;> rfl

theorem reset_src_eq (self : Context) : HRipemd160.Context.reset_src self = Context.reset self := rfl

theorem finalize_reset_src_eq (self : Context) :
    HRipemd160.Context.finalize_reset_src self = Context.finalize_reset self := by
  unfold HRipemd160.Context.finalize_reset_src Context.finalize_reset
  simp only [write_u32_le]
  cases h1 : FixedBuffer.standard_padding 64 self.buffer 8 (fun h d => process_msg_block d h) self.h with
  | none => rfl
  | some p =>
    obtain ⟨buf, h⟩ := p
    simp only []
    cases h2 : FixedBuffer.next_write buf 4 (u32le (self.processed_bytes <<< (3 : UInt64)).toUInt32) with
    | none => rfl
    | some buf2 =>
      simp only []
      cases h3 : FixedBuffer.next_write buf2 4 (u32le (self.processed_bytes >>> (29 : UInt64)).toUInt32) with
      | none => rfl
      | some buf3 =>
        simp only []
        cases h4 : FixedBuffer.full_buffer 64 buf3 with
        | none => rfl
        | some q =>
          obtain ⟨buf4, blk⟩ := q
          simp only []
          cases h5 : process_msg_block blk h with
          | none => rfl
          | some h' =>
            have := five_stores (zeros 20) (u32le h'.a) (u32le h'.b) (u32le h'.c) (u32le h'.d) (u32le h'.e) (by simp [zeros])
              (u32le_length _) (u32le_length _) (u32le_length _) (u32le_length _) (u32le_length _)
            simp only at this
            simp only [this, reset_src_eq]

theorem finalize_src_eq (self : Context) : HRipemd160.Context.finalize_src self = Context.finalize self := by
  unfold HRipemd160.Context.finalize_src Context.finalize
  rw [finalize_reset_src_eq]
  cases Context.finalize_reset self <;> rfl

theorem ripemd160_new_src_eq : HRipemd160.Ripemd160.new_src = Context.new := rfl

theorem oneshot_eq (input : Bytes) : Hashing.ripemd160_src input = Impl.Ripemd160.ripemd160 input := by
  unfold Hashing.ripemd160_src Impl.Ripemd160.ripemd160
  rw [update_src_eq, ripemd160_new_src_eq]
  cases Context.update Context.new input with
  | none => rfl
  | some c =>
    simp only [finalize_src_eq]
    cases Context.finalize c <;> rfl
end HRmd

namespace HS2
open Cx.Impl.Sha2

/-! `digest!(512 Sha512, Context512, output_512bits_at, …)` -/
theorem Context512.new_src_eq : HSha2.Context512.new_src = Ctx512.new Sha512 := rfl
theorem Context512.update_mut_src_eq (self : Ctx512) (input : Bytes) :
    HSha2.Context512.update_mut_src self input = Ctx512.update_mut self input := by
  unfold HSha2.Context512.update_mut_src Ctx512.update_mut
  cases Engine512.input self.engine input <;> rfl
theorem Context512.update_src_eq (self : Ctx512) (input : Bytes) :
    HSha2.Context512.update_src self input = Ctx512.update self input := by
  unfold HSha2.Context512.update_src Ctx512.update
  cases Engine512.input self.engine input <;> rfl
theorem Context512.reset_src_eq (self : Ctx512) : HSha2.Context512.reset_src self = Ctx512.reset Sha512 self := rfl
theorem Context512.finalize_src_eq (self : Ctx512) : HSha2.Context512.finalize_src self = Ctx512.finalize Sha512 self := by
  unfold HSha2.Context512.finalize_src Ctx512.finalize
  dsimp only
  cases Engine512.finish self.engine with
  | none => rfl
  | some e =>
    show (match Eng512.Engine.output_512bits_at e.state (zeros 64) with | none => none | some out => some out) =
      Eng512.Engine.output_512bits_at e.state (zeros 64)
    cases Eng512.Engine.output_512bits_at e.state (zeros 64) <;> rfl
theorem Context512.finalize_reset_src_eq (self : Ctx512) :
    HSha2.Context512.finalize_reset_src self = Ctx512.finalize_reset Sha512 self := by
  unfold HSha2.Context512.finalize_reset_src Ctx512.finalize_reset
  dsimp only
  cases Engine512.finish self.engine with
  | none => rfl
  | some e =>
    show (match Eng512.Engine.output_512bits_at e.state (zeros 64) with | none => none | some out => _) =
      (match Eng512.Engine.output_512bits_at e.state (zeros 64) with | none => none | some out => _)
    cases Eng512.Engine.output_512bits_at e.state (zeros 64) <;> rfl
theorem Sha512.new_src_eq : HSha2.Sha512.new_src = Ctx512.new Sha512 := rfl
theorem sha512_oneshot (input : Bytes) : Hashing.sha512_src input = sha512? input := by
  unfold Hashing.sha512_src sha512? oneShot512
  rw [Context512.update_src_eq, Sha512.new_src_eq]
  cases Ctx512.update (Ctx512.new Sha512) input with
  | none => rfl
  | some c =>
    simp only [Context512.finalize_src_eq]
    cases Ctx512.finalize Sha512 c <;> rfl

/-! `digest!(512 Sha384, Context384, output_384bits_at, …)` -/
theorem Context384.new_src_eq : HSha2.Context384.new_src = Ctx512.new Sha384 := rfl
theorem Context384.update_mut_src_eq (self : Ctx512) (input : Bytes) :
    HSha2.Context384.update_mut_src self input = Ctx512.update_mut self input := by
  unfold HSha2.Context384.update_mut_src Ctx512.update_mut
  cases Engine512.input self.engine input <;> rfl
theorem Context384.update_src_eq (self : Ctx512) (input : Bytes) :
    HSha2.Context384.update_src self input = Ctx512.update self input := by
  unfold HSha2.Context384.update_src Ctx512.update
  cases Engine512.input self.engine input <;> rfl
theorem Context384.reset_src_eq (self : Ctx512) : HSha2.Context384.reset_src self = Ctx512.reset Sha384 self := rfl
theorem Context384.finalize_src_eq (self : Ctx512) : HSha2.Context384.finalize_src self = Ctx512.finalize Sha384 self := by
  unfold HSha2.Context384.finalize_src Ctx512.finalize
  dsimp only
  cases Engine512.finish self.engine with
  | none => rfl
  | some e =>
    show (match Eng512.Engine.output_384bits_at e.state (zeros 48) with | none => none | some out => some out) =
      Eng512.Engine.output_384bits_at e.state (zeros 48)
    cases Eng512.Engine.output_384bits_at e.state (zeros 48) <;> rfl
theorem Context384.finalize_reset_src_eq (self : Ctx512) :
    HSha2.Context384.finalize_reset_src self = Ctx512.finalize_reset Sha384 self := by
  unfold HSha2.Context384.finalize_reset_src Ctx512.finalize_reset
  dsimp only
  cases Engine512.finish self.engine with
  | none => rfl
  | some e =>
    show (match Eng512.Engine.output_384bits_at e.state (zeros 48) with | none => none | some out => _) =
      (match Eng512.Engine.output_384bits_at e.state (zeros 48) with | none => none | some out => _)
    cases Eng512.Engine.output_384bits_at e.state (zeros 48) <;> rfl
theorem Sha384.new_src_eq : HSha2.Sha384.new_src = Ctx512.new Sha384 := rfl
theorem sha384_oneshot (input : Bytes) : Hashing.sha384_src input = sha384? input := by
  unfold Hashing.sha384_src sha384? oneShot512
  rw [Context384.update_src_eq, Sha384.new_src_eq]
  cases Ctx512.update (Ctx512.new Sha384) input with
  | none => rfl
  | some c =>
    simp only [Context384.finalize_src_eq]
    cases Ctx512.finalize Sha384 c <;> rfl

/-! `digest!(512 Sha512Trunc256, Context512_256, output_256bits_at, …)` -/
theorem Context512_256.new_src_eq : HSha2.Context512_256.new_src = Ctx512.new Sha512Trunc256 := rfl
theorem Context512_256.update_mut_src_eq (self : Ctx512) (input : Bytes) :
    HSha2.Context512_256.update_mut_src self input = Ctx512.update_mut self input := by
  unfold HSha2.Context512_256.update_mut_src Ctx512.update_mut
  cases Engine512.input self.engine input <;> rfl
theorem Context512_256.update_src_eq (self : Ctx512) (input : Bytes) :
    HSha2.Context512_256.update_src self input = Ctx512.update self input := by
  unfold HSha2.Context512_256.update_src Ctx512.update
  cases Engine512.input self.engine input <;> rfl
theorem Context512_256.reset_src_eq (self : Ctx512) : HSha2.Context512_256.reset_src self = Ctx512.reset Sha512Trunc256 self := rfl
theorem Context512_256.finalize_src_eq (self : Ctx512) : HSha2.Context512_256.finalize_src self = Ctx512.finalize Sha512Trunc256 self := by
  unfold HSha2.Context512_256.finalize_src Ctx512.finalize
  dsimp only
  cases Engine512.finish self.engine with
  | none => rfl
  | some e =>
    show (match Eng512.Engine.output_256bits_at e.state (zeros 32) with | none => none | some out => some out) =
      Eng512.Engine.output_256bits_at e.state (zeros 32)
    cases Eng512.Engine.output_256bits_at e.state (zeros 32) <;> rfl
theorem Context512_256.finalize_reset_src_eq (self : Ctx512) :
    HSha2.Context512_256.finalize_reset_src self = Ctx512.finalize_reset Sha512Trunc256 self := by
  unfold HSha2.Context512_256.finalize_reset_src Ctx512.finalize_reset
  dsimp only
  cases Engine512.finish self.engine with
  | none => rfl
  | some e =>
    show (match Eng512.Engine.output_256bits_at e.state (zeros 32) with | none => none | some out => _) =
      (match Eng512.Engine.output_256bits_at e.state (zeros 32) with | none => none | some out => _)
    cases Eng512.Engine.output_256bits_at e.state (zeros 32) <;> rfl
theorem Sha512Trunc256.new_src_eq : HSha2.Sha512Trunc256.new_src = Ctx512.new Sha512Trunc256 := rfl

/-! `digest!(512 Sha512Trunc224, Context512_224, output_224bits_at, …)` -/
theorem Context512_224.new_src_eq : HSha2.Context512_224.new_src = Ctx512.new Sha512Trunc224 := rfl
theorem Context512_224.update_mut_src_eq (self : Ctx512) (input : Bytes) :
    HSha2.Context512_224.update_mut_src self input = Ctx512.update_mut self input := by
  unfold HSha2.Context512_224.update_mut_src Ctx512.update_mut
  cases Engine512.input self.engine input <;> rfl
theorem Context512_224.update_src_eq (self : Ctx512) (input : Bytes) :
    HSha2.Context512_224.update_src self input = Ctx512.update self input := by
  unfold HSha2.Context512_224.update_src Ctx512.update
  cases Engine512.input self.engine input <;> rfl
theorem Context512_224.reset_src_eq (self : Ctx512) : HSha2.Context512_224.reset_src self = Ctx512.reset Sha512Trunc224 self := rfl
theorem Context512_224.finalize_src_eq (self : Ctx512) : HSha2.Context512_224.finalize_src self = Ctx512.finalize Sha512Trunc224 self := by
  unfold HSha2.Context512_224.finalize_src Ctx512.finalize
  dsimp only
  cases Engine512.finish self.engine with
  | none => rfl
  | some e =>
    show (match Eng512.Engine.output_224bits_at e.state (zeros 28) with | none => none | some out => some out) =
      Eng512.Engine.output_224bits_at e.state (zeros 28)
    cases Eng512.Engine.output_224bits_at e.state (zeros 28) <;> rfl
theorem Context512_224.finalize_reset_src_eq (self : Ctx512) :
    HSha2.Context512_224.finalize_reset_src self = Ctx512.finalize_reset Sha512Trunc224 self := by
  unfold HSha2.Context512_224.finalize_reset_src Ctx512.finalize_reset
  dsimp only
  cases Engine512.finish self.engine with
  | none => rfl
  | some e =>
    show (match Eng512.Engine.output_224bits_at e.state (zeros 28) with | none => none | some out => _) =
      (match Eng512.Engine.output_224bits_at e.state (zeros 28) with | none => none | some out => _)
    cases Eng512.Engine.output_224bits_at e.state (zeros 28) <;> rfl
theorem Sha512Trunc224.new_src_eq : HSha2.Sha512Trunc224.new_src = Ctx512.new Sha512Trunc224 := rfl

/-! `digest!(256 Sha256, Context256, output_256bits_at, …)` -/
theorem Context256.new_src_eq : HSha2.Context256.new_src = Ctx256.new Sha256 := rfl
theorem Context256.update_mut_src_eq (self : Ctx256) (input : Bytes) :
    HSha2.Context256.update_mut_src self input = Ctx256.update_mut self input := by
  unfold HSha2.Context256.update_mut_src Ctx256.update_mut
  cases Engine256.input self.engine input <;> rfl
theorem Context256.update_src_eq (self : Ctx256) (input : Bytes) :
    HSha2.Context256.update_src self input = Ctx256.update self input := by
  unfold HSha2.Context256.update_src Ctx256.update
  cases Engine256.input self.engine input <;> rfl
theorem Context256.reset_src_eq (self : Ctx256) : HSha2.Context256.reset_src self = Ctx256.reset Sha256 self := rfl
theorem Context256.finalize_src_eq (self : Ctx256) : HSha2.Context256.finalize_src self = Ctx256.finalize Sha256 self := by
  unfold HSha2.Context256.finalize_src Ctx256.finalize
  dsimp only
  cases Engine256.finish self.engine with
  | none => rfl
  | some e =>
    show (match Eng256.Engine.output_256bits_at e.state (zeros 32) with | none => none | some out => some out) =
      Eng256.Engine.output_256bits_at e.state (zeros 32)
    cases Eng256.Engine.output_256bits_at e.state (zeros 32) <;> rfl
theorem Context256.finalize_reset_src_eq (self : Ctx256) :
    HSha2.Context256.finalize_reset_src self = Ctx256.finalize_reset Sha256 self := by
  unfold HSha2.Context256.finalize_reset_src Ctx256.finalize_reset
  dsimp only
  cases Engine256.finish self.engine with
  | none => rfl
  | some e =>
    show (match Eng256.Engine.output_256bits_at e.state (zeros 32) with | none => none | some out => _) =
      (match Eng256.Engine.output_256bits_at e.state (zeros 32) with | none => none | some out => _)
    cases Eng256.Engine.output_256bits_at e.state (zeros 32) <;> rfl
theorem Sha256.new_src_eq : HSha2.Sha256.new_src = Ctx256.new Sha256 := rfl
theorem sha256_oneshot (input : Bytes) : Hashing.sha256_src input = sha256? input := by
  unfold Hashing.sha256_src sha256? oneShot256
  rw [Context256.update_src_eq, Sha256.new_src_eq]
  cases Ctx256.update (Ctx256.new Sha256) input with
  | none => rfl
  | some c =>
    simp only [Context256.finalize_src_eq]
    cases Ctx256.finalize Sha256 c <;> rfl

/-! `digest!(256 Sha224, Context224, output_224bits_at, …)` -/
theorem Context224.new_src_eq : HSha2.Context224.new_src = Ctx256.new Sha224 := rfl
theorem Context224.update_mut_src_eq (self : Ctx256) (input : Bytes) :
    HSha2.Context224.update_mut_src self input = Ctx256.update_mut self input := by
  unfold HSha2.Context224.update_mut_src Ctx256.update_mut
  cases Engine256.input self.engine input <;> rfl
theorem Context224.update_src_eq (self : Ctx256) (input : Bytes) :
    HSha2.Context224.update_src self input = Ctx256.update self input := by
  unfold HSha2.Context224.update_src Ctx256.update
  cases Engine256.input self.engine input <;> rfl
theorem Context224.reset_src_eq (self : Ctx256) : HSha2.Context224.reset_src self = Ctx256.reset Sha224 self := rfl
theorem Context224.finalize_src_eq (self : Ctx256) : HSha2.Context224.finalize_src self = Ctx256.finalize Sha224 self := by
  unfold HSha2.Context224.finalize_src Ctx256.finalize
  dsimp only
  cases Engine256.finish self.engine with
  | none => rfl
  | some e =>
    show (match Eng256.Engine.output_224bits_at e.state (zeros 28) with | none => none | some out => some out) =
      Eng256.Engine.output_224bits_at e.state (zeros 28)
    cases Eng256.Engine.output_224bits_at e.state (zeros 28) <;> rfl
theorem Context224.finalize_reset_src_eq (self : Ctx256) :
    HSha2.Context224.finalize_reset_src self = Ctx256.finalize_reset Sha224 self := by
  unfold HSha2.Context224.finalize_reset_src Ctx256.finalize_reset
  dsimp only
  cases Engine256.finish self.engine with
  | none => rfl
  | some e =>
    show (match Eng256.Engine.output_224bits_at e.state (zeros 28) with | none => none | some out => _) =
      (match Eng256.Engine.output_224bits_at e.state (zeros 28) with | none => none | some out => _)
    cases Eng256.Engine.output_224bits_at e.state (zeros 28) <;> rfl
theorem Sha224.new_src_eq : HSha2.Sha224.new_src = Ctx256.new Sha224 := rfl
theorem sha224_oneshot (input : Bytes) : Hashing.sha224_src input = sha224? input := by
  unfold Hashing.sha224_src sha224? oneShot256
  rw [Context224.update_src_eq, Sha224.new_src_eq]
  cases Ctx256.update (Ctx256.new Sha224) input with
  | none => rfl
  | some c =>
    simp only [Context224.finalize_src_eq]
    cases Ctx256.finalize Sha224 c <;> rfl
end HS2

namespace HOne
theorem sha3_224_oneshot (input : Bytes) : Hashing.sha3_224_src input = Impl.Sha3.sha3_224 input := by
  unfold Hashing.sha3_224_src Impl.Sha3.sha3_224 Impl.Sha3.hash
  cases Impl.Sha3.Context.update 28 Impl.Sha3.Context.new input with
  | none => rfl
  | some c =>
    show (match Impl.Sha3.Context.finalize 28 2 c with | none => none | some t => some t) = Impl.Sha3.Context.finalize 28 2 c
    cases Impl.Sha3.Context.finalize 28 2 c <;> rfl
theorem sha3_256_oneshot (input : Bytes) : Hashing.sha3_256_src input = Impl.Sha3.sha3_256 input := by
  unfold Hashing.sha3_256_src Impl.Sha3.sha3_256 Impl.Sha3.hash
  cases Impl.Sha3.Context.update 32 Impl.Sha3.Context.new input with
  | none => rfl
  | some c =>
    show (match Impl.Sha3.Context.finalize 32 2 c with | none => none | some t => some t) = Impl.Sha3.Context.finalize 32 2 c
    cases Impl.Sha3.Context.finalize 32 2 c <;> rfl
theorem sha3_384_oneshot (input : Bytes) : Hashing.sha3_384_src input = Impl.Sha3.sha3_384 input := by
  unfold Hashing.sha3_384_src Impl.Sha3.sha3_384 Impl.Sha3.hash
  cases Impl.Sha3.Context.update 48 Impl.Sha3.Context.new input with
  | none => rfl
  | some c =>
    show (match Impl.Sha3.Context.finalize 48 2 c with | none => none | some t => some t) = Impl.Sha3.Context.finalize 48 2 c
    cases Impl.Sha3.Context.finalize 48 2 c <;> rfl
theorem sha3_512_oneshot (input : Bytes) : Hashing.sha3_512_src input = Impl.Sha3.sha3_512 input := by
  unfold Hashing.sha3_512_src Impl.Sha3.sha3_512 Impl.Sha3.hash
  cases Impl.Sha3.Context.update 64 Impl.Sha3.Context.new input with
  | none => rfl
  | some c =>
    show (match Impl.Sha3.Context.finalize 64 2 c with | none => none | some t => some t) = Impl.Sha3.Context.finalize 64 2 c
    cases Impl.Sha3.Context.finalize 64 2 c <;> rfl
theorem keccak224_oneshot (input : Bytes) : Hashing.keccak224_src input = Impl.Sha3.keccak224 input := by
  unfold Hashing.keccak224_src Impl.Sha3.keccak224 Impl.Sha3.hash
  cases Impl.Sha3.Context.update 28 Impl.Sha3.Context.new input with
  | none => rfl
  | some c =>
    show (match Impl.Sha3.Context.finalize 28 0 c with | none => none | some t => some t) = Impl.Sha3.Context.finalize 28 0 c
    cases Impl.Sha3.Context.finalize 28 0 c <;> rfl
theorem keccak256_oneshot (input : Bytes) : Hashing.keccak256_src input = Impl.Sha3.keccak256 input := by
  unfold Hashing.keccak256_src Impl.Sha3.keccak256 Impl.Sha3.hash
  cases Impl.Sha3.Context.update 32 Impl.Sha3.Context.new input with
  | none => rfl
  | some c =>
    show (match Impl.Sha3.Context.finalize 32 0 c with | none => none | some t => some t) = Impl.Sha3.Context.finalize 32 0 c
    cases Impl.Sha3.Context.finalize 32 0 c <;> rfl
theorem keccak384_oneshot (input : Bytes) : Hashing.keccak384_src input = Impl.Sha3.keccak384 input := by
  unfold Hashing.keccak384_src Impl.Sha3.keccak384 Impl.Sha3.hash
  cases Impl.Sha3.Context.update 48 Impl.Sha3.Context.new input with
  | none => rfl
  | some c =>
    show (match Impl.Sha3.Context.finalize 48 0 c with | none => none | some t => some t) = Impl.Sha3.Context.finalize 48 0 c
    cases Impl.Sha3.Context.finalize 48 0 c <;> rfl
theorem keccak512_oneshot (input : Bytes) : Hashing.keccak512_src input = Impl.Sha3.keccak512 input := by
  unfold Hashing.keccak512_src Impl.Sha3.keccak512 Impl.Sha3.hash
  cases Impl.Sha3.Context.update 64 Impl.Sha3.Context.new input with
  | none => rfl
  | some c =>
    show (match Impl.Sha3.Context.finalize 64 0 c with | none => none | some t => some t) = Impl.Sha3.Context.finalize 64 0 c
    cases Impl.Sha3.Context.finalize 64 0 c <;> rfl
theorem blake2b_224_oneshot (input : Bytes) :
    Hashing.blake2b_224_src input = Impl.Blake2.hashing_blake2 Impl.Blake2.b Impl.Digest.blakeProfile 224 input := by
  unfold Hashing.blake2b_224_src Impl.Blake2.hashing_blake2
  cases Impl.Blake2.Context.new Impl.Blake2.b 224 with
  | none => rfl
  | some c =>
    simp only []
    cases Impl.Blake2.Context.update Impl.Blake2.b Impl.Digest.blakeProfile c input with
    | none => rfl
    | some c2 =>
      show (match Impl.Blake2.Context.finalize Impl.Blake2.b Impl.Digest.blakeProfile 224 c2 with | none => none | some t => some t) = Impl.Blake2.Context.finalize Impl.Blake2.b Impl.Digest.blakeProfile 224 c2
      cases Impl.Blake2.Context.finalize Impl.Blake2.b Impl.Digest.blakeProfile 224 c2 <;> rfl
theorem blake2b_256_oneshot (input : Bytes) :
    Hashing.blake2b_256_src input = Impl.Blake2.hashing_blake2 Impl.Blake2.b Impl.Digest.blakeProfile 256 input := by
  unfold Hashing.blake2b_256_src Impl.Blake2.hashing_blake2
  cases Impl.Blake2.Context.new Impl.Blake2.b 256 with
  | none => rfl
  | some c =>
    simp only []
    cases Impl.Blake2.Context.update Impl.Blake2.b Impl.Digest.blakeProfile c input with
    | none => rfl
    | some c2 =>
      show (match Impl.Blake2.Context.finalize Impl.Blake2.b Impl.Digest.blakeProfile 256 c2 with | none => none | some t => some t) = Impl.Blake2.Context.finalize Impl.Blake2.b Impl.Digest.blakeProfile 256 c2
      cases Impl.Blake2.Context.finalize Impl.Blake2.b Impl.Digest.blakeProfile 256 c2 <;> rfl
theorem blake2b_384_oneshot (input : Bytes) :
    Hashing.blake2b_384_src input = Impl.Blake2.hashing_blake2 Impl.Blake2.b Impl.Digest.blakeProfile 384 input := by
  unfold Hashing.blake2b_384_src Impl.Blake2.hashing_blake2
  cases Impl.Blake2.Context.new Impl.Blake2.b 384 with
  | none => rfl
  | some c =>
    simp only []
    cases Impl.Blake2.Context.update Impl.Blake2.b Impl.Digest.blakeProfile c input with
    | none => rfl
    | some c2 =>
      show (match Impl.Blake2.Context.finalize Impl.Blake2.b Impl.Digest.blakeProfile 384 c2 with | none => none | some t => some t) = Impl.Blake2.Context.finalize Impl.Blake2.b Impl.Digest.blakeProfile 384 c2
      cases Impl.Blake2.Context.finalize Impl.Blake2.b Impl.Digest.blakeProfile 384 c2 <;> rfl
theorem blake2b_512_oneshot (input : Bytes) :
    Hashing.blake2b_512_src input = Impl.Blake2.hashing_blake2 Impl.Blake2.b Impl.Digest.blakeProfile 512 input := by
  unfold Hashing.blake2b_512_src Impl.Blake2.hashing_blake2
  cases Impl.Blake2.Context.new Impl.Blake2.b 512 with
  | none => rfl
  | some c =>
    simp only []
    cases Impl.Blake2.Context.update Impl.Blake2.b Impl.Digest.blakeProfile c input with
    | none => rfl
    | some c2 =>
      show (match Impl.Blake2.Context.finalize Impl.Blake2.b Impl.Digest.blakeProfile 512 c2 with | none => none | some t => some t) = Impl.Blake2.Context.finalize Impl.Blake2.b Impl.Digest.blakeProfile 512 c2
      cases Impl.Blake2.Context.finalize Impl.Blake2.b Impl.Digest.blakeProfile 512 c2 <;> rfl
theorem blake2s_224_oneshot (input : Bytes) :
    Hashing.blake2s_224_src input = Impl.Blake2.hashing_blake2 Impl.Blake2.s Impl.Digest.blakeProfile 224 input := by
  unfold Hashing.blake2s_224_src Impl.Blake2.hashing_blake2
  cases Impl.Blake2.Context.new Impl.Blake2.s 224 with
  | none => rfl
  | some c =>
    simp only []
    cases Impl.Blake2.Context.update Impl.Blake2.s Impl.Digest.blakeProfile c input with
    | none => rfl
    | some c2 =>
      show (match Impl.Blake2.Context.finalize Impl.Blake2.s Impl.Digest.blakeProfile 224 c2 with | none => none | some t => some t) = Impl.Blake2.Context.finalize Impl.Blake2.s Impl.Digest.blakeProfile 224 c2
      cases Impl.Blake2.Context.finalize Impl.Blake2.s Impl.Digest.blakeProfile 224 c2 <;> rfl
theorem blake2s_256_oneshot (input : Bytes) :
    Hashing.blake2s_256_src input = Impl.Blake2.hashing_blake2 Impl.Blake2.s Impl.Digest.blakeProfile 256 input := by
  unfold Hashing.blake2s_256_src Impl.Blake2.hashing_blake2
  cases Impl.Blake2.Context.new Impl.Blake2.s 256 with
  | none => rfl
  | some c =>
    simp only []
    cases Impl.Blake2.Context.update Impl.Blake2.s Impl.Digest.blakeProfile c input with
    | none => rfl
    | some c2 =>
      show (match Impl.Blake2.Context.finalize Impl.Blake2.s Impl.Digest.blakeProfile 256 c2 with | none => none | some t => some t) = Impl.Blake2.Context.finalize Impl.Blake2.s Impl.Digest.blakeProfile 256 c2
      cases Impl.Blake2.Context.finalize Impl.Blake2.s Impl.Digest.blakeProfile 256 c2 <;> rfl
end HOne

end Cx.Proofs.GlueDigest
