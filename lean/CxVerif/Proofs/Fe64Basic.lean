/-
  Proofs.Fe64Basic — the vocabulary of the Fe64 refinement library:
  `val` (the integer a limb vector denotes), `eval` (its residue mod p), the limb invariants
  `Tight ⊂ Pub ⊂ SubOk ⊂ Loose`, the bit-operation ↔ div/mod lemmas and the "checked operation
  succeeds" rewriting lemmas used by every operator proof.

  -- API (the Fe64 refinement library, namespace Cx.Proofs.Fe64):
  --   Fe64Basic     val, eval, Bnd, Tight (<2^51+2^17), Pub (<2^52+2^18), SubOk (<2^53−75), Loose (<2^54)
  --   Fe64Arith     add_spec sub_spec neg_spec negate_mut_spec mul_spec mul_small_spec carry128_spec
  --   Fe64Square    square_spec square_repeatdly_spec square_repeatdly_pos square_and_double_spec
  --   Fe64Bytes     carry_full_loose carry_full_near carry_final_spec pack_spec to_packed_spec
  --   Fe64FromBytes from_bytes_spec from_bytes_tight from_bytes_eval
  --   Fe64Pred      natToLE_* to_bytes_spec is_nonzero_spec is_negative_spec ct_eq_spec eq_spec
  --                 maybe_swap_with_spec maybe_set_spec ZERO_spec ONE_spec D_spec D2_spec SQRTM1_spec
  --   Fe64Chain     chain250_spec invert_spec pow25523_spec
  --   shape: `Loose f → Loose g → ∃ h, op f g = some h ∧ Tight h ∧ eval h = Field25519.op (eval f) (eval g)`
  --   proof hint: chain monadic steps with `rw [e, some_bind]`, never `simp [some_bind]` (kernel blow-up).
-/
import CxVerif.Impl.Fe64
import CxVerif.Spec.Field25519
import Mathlib.Tactic.Ring
import Mathlib.Tactic.NormNum
namespace Cx.Proofs.Fe64
open Cx Cx.Impl.Fe64
open Cx.Spec
open Cx.Spec.Field25519 (p)

/-- the integer denoted by the five 51-bit limbs -/
def val (f : Fe) : Nat := f.l0 + 2^51 * f.l1 + 2^102 * f.l2 + 2^153 * f.l3 + 2^204 * f.l4

/-- the field element denoted -/
def eval (f : Fe) : Nat := val f % p

/-- every limb below `b` -/
def Bnd (b : Nat) (f : Fe) : Prop := f.l0 < b ∧ f.l1 < b ∧ f.l2 < b ∧ f.l3 < b ∧ f.l4 < b

instance (b : Nat) (f : Fe) : Decidable (Bnd b f) := by unfold Bnd; infer_instance

/-- result of every carrying operator (add, sub, neg, mul, square, square_repeatdly n>0, mul_small,
    invert, pow25523, from_bytes): limbs `< 2^51 + 2^17` -/
def Tight (f : Fe) : Prop := Bnd (2^51 + 2^17) f
/-- closed under the WHOLE public API (incl. the non-carrying `square_and_double`): `< 2^52 + 2^18` -/
def Pub (f : Fe) : Prop := Bnd (2^52 + 2^18) f
/-- admissible subtrahend of `Sub`/operand of `Neg`: limbs `≤ 2^53 − 76`, the smallest limb of the bias `4p` -/
def SubOk (f : Fe) : Prop := Bnd (2^53 - 75) f
/-- admissible operand of add / mul / square / mul_small / to_bytes: limbs `< 2^54` -/
def Loose (f : Fe) : Prop := Bnd (2^54) f

instance (f : Fe) : Decidable (Tight f) := inferInstanceAs (Decidable (Bnd _ f))
instance (f : Fe) : Decidable (Pub f) := inferInstanceAs (Decidable (Bnd _ f))
instance (f : Fe) : Decidable (SubOk f) := inferInstanceAs (Decidable (Bnd _ f))
instance (f : Fe) : Decidable (Loose f) := inferInstanceAs (Decidable (Bnd _ f))

theorem Bnd.mono {a b : Nat} {f : Fe} (h : a ≤ b) (hf : Bnd a f) : Bnd b f := by
  unfold Bnd at *; omega
theorem Tight.pub {f : Fe} (h : Tight f) : Pub f := Bnd.mono (by decide) h
theorem Pub.subOk {f : Fe} (h : Pub f) : SubOk f := Bnd.mono (by decide) h
theorem SubOk.loose {f : Fe} (h : SubOk f) : Loose f := Bnd.mono (by decide) h
theorem Pub.loose {f : Fe} (h : Pub f) : Loose f := h.subOk.loose
theorem Tight.loose {f : Fe} (h : Tight f) : Loose f := h.pub.loose
theorem Tight.subOk {f : Fe} (h : Tight f) : SubOk f := h.pub.subOk

theorem p_eq : p = 2^255 - 19 := rfl
theorem p_pos : 0 < p := by decide

/-! ### constants re-extracted from the source -/
theorem MASK_eq : MASK = 2^51 - 1 := by decide
theorem FOUR_P0_eq : FOUR_P0 = 2^53 - 76 := by decide
theorem FOUR_P1234_eq : FOUR_P1234 = 2^53 - 4 := by decide

/-! ### bit operations as div/mod -/
theorem land_MASK (x : Nat) : x &&& MASK = x % 2^51 := Nat.and_two_pow_sub_one_eq_mod x 51
theorem shr51 (x : Nat) : x >>> 51 = x / 2^51 := Nat.shiftRight_eq_div_pow x 51
theorem mod64_mod51 (x : Nat) : x % 2^64 % 2^51 = x % 2^51 := Nat.mod_mod_of_dvd x ⟨2^13, by decide⟩

/-- `mul128`: the product of two `u64` fits `u128` -/
theorem mul128_fits {a b : Nat} (ha : a < 2^64) (hb : b < 2^64) : mul128 a b < 2^128 := by
  have := Nat.mul_lt_mul'' ha hb
  unfold mul128; omega

/-! ### a checked operation whose result fits is the mathematical operation -/
theorem add64_bind {β} (a b : Nat) (f : Nat → Option β) (h : a + b < 2^64) :
    (add64 a b >>= f) = f (a + b) := by simp only [add64, if_pos h]; rfl
theorem sub64_bind {β} (a b : Nat) (f : Nat → Option β) (h : b ≤ a) :
    (sub64 a b >>= f) = f (a - b) := by simp only [sub64, if_pos h]; rfl
theorem mul64_bind {β} (a b : Nat) (f : Nat → Option β) (h : a * b < 2^64) :
    (mul64 a b >>= f) = f (a * b) := by simp only [mul64, if_pos h]; rfl
theorem add128_bind {β} (a b : Nat) (f : Nat → Option β) (h : a + b < 2^128) :
    (add128 a b >>= f) = f (a + b) := by simp only [add128, if_pos h]; rfl

theorem some_bind {α β} (a : α) (f : α → Option β) : (some a >>= f) = f a := rfl
theorem pure_eq_some {α} (a : α) : (pure a : Option α) = some a := rfl

theorem mod_p_of_add_mul {a b k : Nat} (h : a + p * k = b) : a % p = b % p := by
  rw [← h, Nat.add_mul_mod_self_left]

/-! ### Spec operations only see residues -/
theorem add_mod (a b : Nat) : Field25519.add (a % p) (b % p) = Field25519.add a b := by
  unfold Field25519.add; exact (Nat.add_mod a b p).symm
theorem mul_mod (a b : Nat) : Field25519.mul (a % p) (b % p) = Field25519.mul a b := by
  unfold Field25519.mul; exact (Nat.mul_mod a b p).symm
theorem sq_mod (a : Nat) : Field25519.sq (a % p) = Field25519.sq a := by
  unfold Field25519.sq; exact (Nat.mul_mod a a p).symm
theorem neg_mod (a : Nat) : Field25519.neg (a % p) = Field25519.neg a := by
  unfold Field25519.neg; rw [Nat.mod_mod]
theorem sub_mod (a b : Nat) : Field25519.sub (a % p) (b % p) = Field25519.sub a b := by
  unfold Field25519.sub; rw [Nat.mod_mod, Nat.add_mod, Nat.mod_mod, ← Nat.add_mod]
theorem sq_eq_mul (a : Nat) : Field25519.sq a = Field25519.mul a a := rfl

end Cx.Proofs.Fe64
