/-
  Proofs.KdfHkdf — `hkdf_extract` / `hkdf_expand` (Impl.Kdf, the model of src/hkdf.rs) over ANY digest object
  satisfying the digest-object contract equal RFC 5869: Extract = HMAC-Hash(salt, IKM); Expand = the first L octets of
  T(1) ‖ T(2) ‖ …, T(i) = HMAC-Hash(PRK, T(i−1) ‖ info ‖ i), for every PRK of at least HashLen octets and every
  L ≤ 255·HashLen, and a refusal for every shorter PRK (`assert!(prk.len() >= digest.output_bytes())`) and every larger L
  (the one-byte counter's `checked_add`).  `hkdf_expand_old_spec`: the function before that assert computed the same value
  for EVERY PRK length (witness of the repaired finding).  Induction over the chunk list.  Core Lean only.
-/
import CxVerif.Impl.Kdf
import CxVerif.Spec.Kdf
import CxVerif.Proofs.MacHmac
namespace Cx.Proofs.KdfHkdf
open Cx Cx.Impl.Digest Cx.Impl.Hmac Cx.Impl.Kdf Cx.Proofs.MacObj Cx.Proofs.MacHmac

/-! ### chunk lengths, recursively -/

theorem chunkLens_zero (L : Nat) : chunkLens L 0 = [] := by simp [chunkLens]

theorem chunkLens_small (L n : Nat) (h0 : 0 < n) (h : n < L) : chunkLens L n = [n] := by
  simp [chunkLens, Nat.div_eq_of_lt h, Nat.mod_eq_of_lt h, Nat.ne_of_gt h0]

theorem chunkLens_step (L n : Nat) (hL : 0 < L) (h : L ≤ n) : chunkLens L n = L :: chunkLens L (n - L) := by
  have h1 : n / L = (n - L) / L + 1 := by
    rw [Nat.div_eq_sub_div hL h]
  have h2 : n % L = (n - L) % L := Nat.mod_eq_sub_mod h
  simp [chunkLens, h1, h2, List.replicate_succ]

/-- the blocks cut to the chunk lengths -/
def cutTs : List Bytes → List Nat → Bytes
  | t :: ts, cl :: cls => t.take cl ++ cutTs ts cls
  | _, _ => []

theorem cutTs_chunkLens (L : Nat) (hL : 0 < L) : ∀ (Ts : List Bytes) (n : Nat),
    (∀ t ∈ Ts, t.length = L) → Ts.length = (chunkLens L n).length → cutTs Ts (chunkLens L n) = Ts.flatten.take n := by
  intro Ts
  induction Ts with
  | nil =>
    intro n _ hc
    cases hcl : chunkLens L n with
    | nil => simp [cutTs]
    | cons a b => rw [hcl] at hc; simp at hc
  | cons t ts ih =>
    intro n hl hc
    have ht : t.length = L := hl t (List.mem_cons_self ..)
    by_cases h0 : n = 0
    · subst h0; rw [chunkLens_zero] at hc; simp at hc
    · by_cases hlt : n < L
      · rw [chunkLens_small L n (Nat.pos_of_ne_zero h0) hlt] at hc ⊢
        have : ts = [] := by
          cases ts with
          | nil => rfl
          | cons a b => simp at hc
        subst this
        simp [cutTs]
      · have hge : L ≤ n := Nat.le_of_not_lt hlt
        rw [chunkLens_step L n hL hge] at hc ⊢
        simp only [List.length_cons, Nat.add_right_cancel_iff] at hc
        rw [cutTs, ih (n - L) (fun x hx => hl x (List.mem_cons_of_mem _ hx)) hc, List.flatten_cons, List.take_append,
          List.take_of_length_le (by omega : t.length ≤ L), List.take_of_length_le (by omega : t.length ≤ n), ht]

theorem chunkLens_count_le (L n k : Nat) (hL : 0 < L) : (chunkLens L n).length ≤ k ↔ n ≤ k * L := by
  induction k generalizing n with
  | zero =>
    constructor
    · intro h
      by_cases h0 : n = 0
      · omega
      · by_cases hlt : n < L
        · rw [chunkLens_small L n (Nat.pos_of_ne_zero h0) hlt] at h; simp at h
        · rw [chunkLens_step L n hL (Nat.le_of_not_lt hlt)] at h; simp at h
    · intro h; have : n = 0 := by omega
      subst this; simp [chunkLens_zero]
  | succ k ih =>
    by_cases hlt : n < L
    · have : n ≤ (k + 1) * L := by rw [Nat.succ_mul]; omega
      by_cases h0 : n = 0
      · subst h0; simp [chunkLens_zero]
      · rw [chunkLens_small L n (Nat.pos_of_ne_zero h0) hlt]; simp [this]
    · have hge : L ≤ n := Nat.le_of_not_lt hlt
      rw [chunkLens_step L n hL hge, List.length_cons, Nat.succ_le_succ_iff, ih (n - L), Nat.succ_mul]
      omega

theorem chunkLens_le' (L n : Nat) (hL : 0 < L) : ∀ cl ∈ chunkLens L n, cl ≤ L := by
  intro cl h
  simp only [chunkLens, List.mem_append, List.mem_replicate] at h
  rcases h with ⟨_, rfl⟩ | h
  · exact Nat.le_refl _
  · split at h
    · cases h
    · simp only [List.mem_singleton] at h; subst h; exact Nat.le_of_lt (Nat.mod_lt _ hL)

theorem chunkLens_length' (os len : Nat) (hos : 0 < os) : (chunkLens os len).length = Spec.Kdf.ceilDiv len os := by
  simp only [chunkLens, List.length_append, List.length_replicate, Spec.Kdf.ceilDiv]
  have h1 := Nat.div_add_mod len os
  have hm := Nat.mod_lt len hos
  generalize hq : len / os = q at h1 ⊢
  generalize hr : len % os = r at h1 hm ⊢
  split
  · rename_i h0
    subst h0
    rw [show len + os - 1 = (os - 1) + os * q by omega, Nat.add_mul_div_left _ _ hos,
      Nat.div_eq_of_lt (by omega)]
    simp
  · rename_i h0
    rw [show len + os - 1 = (r - 1) + os * (q + 1) by rw [Nat.mul_add]; omega,
      Nat.add_mul_div_left _ _ hos, Nat.div_eq_of_lt (by omega)]
    simp

theorem hkdfTs_length (f : Fn) (info : Bytes) : ∀ (k i : Nat) (prev : Bytes), (Spec.Kdf.hkdfTs f info k i prev).length = k := by
  intro k
  induction k with
  | zero => intros; rfl
  | succ k ih => intro i prev; simp [Spec.Kdf.hkdfTs, ih]

section
variable {δ : Type} (D : DigestModel δ) {L : Nat} {sizes : List Nat} {fk : Bytes → Option Fn} {ok : Fn → Bytes → Prop}
  {Rel : Hmac δ → Fn → Bytes → Prop} {Fin : Hmac δ → Fn → Prop}

/-- the chunk loop of `hkdf_expand`: `n` blocks done, `t` = T(n) (unused for n = 0) -/
theorem expand_loop_spec (hC : Contract (macFam (hmacMac D)) L sizes fk ok Rel Fin) (f : Fn) (info : Bytes)
    (hok : ∀ x : Bytes, x.length ≤ L + info.length + 1 → ok f x) :
    ∀ (cls : List Nat) (mac : Hmac δ) (t : Bytes) (n : Nat) (acc : Bytes),
      Rel mac f [] → t.length = L → (∀ cl ∈ cls, cl ≤ L) → n + cls.length ≤ 255 →
      hkdf_expand_loop D info cls mac t n acc
          = some (acc ++ cutTs (Spec.Kdf.hkdfTs f info cls.length (n + 1) (if n = 0 then [] else t)) cls) ∧
        ∀ x ∈ Spec.Kdf.hkdfTs f info cls.length (n + 1) (if n = 0 then [] else t), x.length = L := by
  intro cls
  induction cls with
  | nil => intro mac t n acc _ _ _ _; simp [hkdf_expand_loop, Spec.Kdf.hkdfTs, cutTs]
  | cons cl rest ih =>
    intro mac t n acc hr ht hcl hn
    simp only [List.length_cons] at hn
    have hn1 : n + 1 ≤ 255 := by omega
    -- the optional `mac.input(&t)`
    have h1 : ∃ m1, (if n + 1 ≠ 1 then Hmac.input D mac t else some mac) = some m1 ∧
        Rel m1 f (if n = 0 then [] else t) := by
      by_cases h0 : n = 0
      · subst h0; exact ⟨mac, by simp, by simpa using hr⟩
      · obtain ⟨m1, e, hr1⟩ := hC.input mac f [] t hr
        have e' : Hmac.input D mac t = some m1 := e
        exact ⟨m1, by simp [h0, e'], by simpa [h0] using hr1⟩
    obtain ⟨m1, e1, hr1⟩ := h1
    generalize hprev : (if n = 0 then ([] : Bytes) else t) = prev at hr1 ⊢
    have hpl : prev.length ≤ L := by subst hprev; split <;> simp [ht]
    obtain ⟨m2, e2, hr2⟩ := hC.input m1 f prev info hr1
    obtain ⟨m3, e3, hr3⟩ := hC.input m2 f _ [UInt8.ofNat (n + 1)] hr2
    have hokx : ok f (prev ++ info ++ [UInt8.ofNat (n + 1)]) := hok _ (by simp; omega)
    obtain ⟨m4, e4, hf4⟩ := hC.raw_result m3 f _ hr3 hokx
    obtain ⟨m5, e5, hr5⟩ := hC.reset_fin m4 f hf4
    have hlen : (f (prev ++ info ++ [UInt8.ofNat (n + 1)])).length = L := hC.len m3 f _ hr3 hokx
    have e2' : Hmac.input D m1 info = some m2 := e2
    have e3' : Hmac.input D m2 [UInt8.ofNat (n + 1)] = some m3 := e3
    have e4' : Hmac.raw_result D m3 L = some (m4, f (prev ++ info ++ [UInt8.ofNat (n + 1)])) := e4
    have e5' : Hmac.reset D m4 = some m5 := e5
    have hcl' : cl ≤ L := hcl cl (List.mem_cons_self ..)
    obtain ⟨ihe, ihl⟩ := ih m5 (f (prev ++ info ++ [UInt8.ofNat (n + 1)])) (n + 1)
      (acc ++ (f (prev ++ info ++ [UInt8.ofNat (n + 1)])).take cl) hr5 hlen
      (fun x hx => hcl x (List.mem_cons_of_mem _ hx)) (by omega)
    simp only [Nat.add_eq_zero_iff, Nat.succ_ne_self, and_false, if_false] at ihe ihl
    constructor
    · simp only [hkdf_expand_loop, hn1, not_true_eq_false, if_false, e1, e2', e3', ht, e4', e5']
      rw [if_neg (not_not_intro (by rw [hlen]; exact hcl')), ihe]
      simp only [List.length_cons, Spec.Kdf.hkdfTs, cutTs, List.append_assoc]
    · intro x hx
      simp only [List.length_cons, Spec.Kdf.hkdfTs, List.mem_cons] at hx
      rcases hx with rfl | hx
      · exact hlen
      · exact ihl x hx

/-- refusal: the 256th block cannot be numbered by the `u8` counter -/
theorem expand_loop_refuses (hC : Contract (macFam (hmacMac D)) L sizes fk ok Rel Fin) (f : Fn) (info : Bytes)
    (hok : ∀ x : Bytes, x.length ≤ L + info.length + 1 → ok f x) :
    ∀ (cls : List Nat) (mac : Hmac δ) (t : Bytes) (n : Nat) (acc : Bytes),
      Rel mac f [] → t.length = L → (∀ cl ∈ cls, cl ≤ L) → n ≤ 255 → 255 < n + cls.length →
      hkdf_expand_loop D info cls mac t n acc = none := by
  intro cls
  induction cls with
  | nil => intro mac t n acc _ _ _ h1 h2; simp at h2; omega
  | cons cl rest ih =>
    intro mac t n acc hr ht hcl h1 h2
    simp only [List.length_cons] at h2
    by_cases hn1 : n + 1 ≤ 255
    · have hcl' : cl ≤ L := hcl cl (List.mem_cons_self ..)
      have hm1 : ∃ m1, (if n + 1 ≠ 1 then Hmac.input D mac t else some mac) = some m1 ∧
          Rel m1 f (if n = 0 then [] else t) := by
        by_cases h0 : n = 0
        · subst h0; exact ⟨mac, by simp, by simpa using hr⟩
        · obtain ⟨m1, e, hr1⟩ := hC.input mac f [] t hr
          have e' : Hmac.input D mac t = some m1 := e
          exact ⟨m1, by simp [h0, e'], by simpa [h0] using hr1⟩
      obtain ⟨m1, e1, hr1⟩ := hm1
      generalize hprev : (if n = 0 then ([] : Bytes) else t) = prev at hr1
      have hpl : prev.length ≤ L := by subst hprev; split <;> simp [ht]
      obtain ⟨m2, e2, hr2⟩ := hC.input m1 f prev info hr1
      obtain ⟨m3, e3, hr3⟩ := hC.input m2 f _ [UInt8.ofNat (n + 1)] hr2
      have hokx : ok f (prev ++ info ++ [UInt8.ofNat (n + 1)]) := hok _ (by simp; omega)
      obtain ⟨m4, e4, hf4⟩ := hC.raw_result m3 f _ hr3 hokx
      obtain ⟨m5, e5, hr5⟩ := hC.reset_fin m4 f hf4
      have hlen : (f (prev ++ info ++ [UInt8.ofNat (n + 1)])).length = L := hC.len m3 f _ hr3 hokx
      have e2' : Hmac.input D m1 info = some m2 := e2
      have e3' : Hmac.input D m2 [UInt8.ofNat (n + 1)] = some m3 := e3
      have e4' : Hmac.raw_result D m3 L = some (m4, f (prev ++ info ++ [UInt8.ofNat (n + 1)])) := e4
      have e5' : Hmac.reset D m4 = some m5 := e5
      have := ih m5 (f (prev ++ info ++ [UInt8.ofNat (n + 1)])) (n + 1)
        (acc ++ (f (prev ++ info ++ [UInt8.ofNat (n + 1)])).take cl) hr5 hlen
        (fun x hx => hcl x (List.mem_cons_of_mem _ hx)) hn1 (by omega)
      simp only [hkdf_expand_loop, hn1, not_true_eq_false, if_false, e1, e2', e3', ht, e4', e5']
      rw [if_neg (not_not_intro (by rw [hlen]; exact hcl')), this]
    · simp [hkdf_expand_loop, hn1]

end

section
variable {δ : Type} (D : DigestModel δ) (H : Fn) (B : Nat) {L bits : Nat} {okD : Fn → Bytes → Prop}
  (RelD : δ → Fn → Bytes → Prop) (FinD : δ → Fn → Prop)

/-- **HKDF-Extract = RFC 5869 §2.2**, generic in the digest object (in any state: the function resets it first):
    `prk.len()` must be HashLen (else refusal), and then PRK = HMAC-Hash(salt, IKM) for every salt (any length, the
    empty salt included) and IKM. -/
theorem hkdf_extract_spec (hD : Contract (digestFam D) L [L, bits, B] (fun _ => none) okD RelD FinD) (hLB : L ≤ B)
    (d : δ) (m0 : Bytes) (hd : RelD d H m0 ∨ FinD d H) (salt ikm : Bytes) (prkLen : Nat)
    (hk : salt.length ≤ B ∨ okD H salt) (hok : okH H B salt okD (Spec.Hmac.hmac H B salt) ikm) :
    hkdf_extract D d salt ikm prkLen
      = if prkLen = L then some (Spec.Kdf.hkdfExtract H B salt ikm) else none := by
  have hob : D.output_bytes d = L := by
    rcases hd with h | h
    · exact hD.out_rel d H m0 h
    · exact hD.out_fin d H h
  by_cases hp : prkLen = L
  · subst hp
    obtain ⟨d1, e1, hr1⟩ : ∃ d1, D.reset d = some d1 ∧ RelD d1 H [] := by
      rcases hd with h | h
      · exact hD.reset d H m0 h
      · exact hD.reset_fin d H h
    obtain ⟨h, e2, hrh⟩ := hmac_new D H B salt RelD FinD hD hLB d1 hr1 hk
    have hC := hmac_contract D H B salt RelD FinD hD
    obtain ⟨h1, e3, hr3⟩ := hC.input h _ [] ikm hrh
    have hr3' : RelH H B salt RelD h1 (Spec.Hmac.hmac H B salt) ikm := by simpa using hr3
    obtain ⟨h2, e4, hf4⟩ := hC.raw_result h1 _ ikm hr3' hok
    obtain ⟨h3, e5, _⟩ := hC.reset_fin h2 _ hf4
    have e3' : Hmac.input D h ikm = some h1 := e3
    have e4' : Hmac.raw_result D h1 prkLen = some (h2, Spec.Hmac.hmac H B salt ikm) := e4
    have e5' : Hmac.reset D h2 = some h3 := e5
    simp [hkdf_extract, hob, e1, e2, e3', e4', e5', Spec.Kdf.hkdfExtract]
  · simp [hkdf_extract, hob, hp]

/-- the loop part of `hkdf_expand` (everything after `Hmac::new`), i.e. the function as it was BEFORE
    `assert!(prk.len() >= digest.output_bytes())` was added: for every PRK (of any length), info and L it returns the first
    L octets of T(1) ‖ T(2) ‖ … when L ≤ 255·HashLen and refuses (`none`: the checked increment of the one-byte block
    counter) when L > 255·HashLen. -/
theorem hkdf_expand_old_spec (hD : Contract (digestFam D) L [L, bits, B] (fun _ => none) okD RelD FinD) (hLB : L ≤ B)
    (hL : 0 < L) (d : δ) (m0 : Bytes) (hd : RelD d H m0 ∨ FinD d H) (prk info : Bytes) (okmLen : Nat)
    (hk : prk.length ≤ B ∨ okD H prk)
    (hok : ∀ x : Bytes, x.length ≤ L + info.length + 1 → okH H B prk okD (Spec.Hmac.hmac H B prk) x) :
    hkdf_expand_old D d prk info okmLen
      = if okmLen ≤ 255 * L then some (Spec.Kdf.hkdfOkm (Spec.Hmac.hmac H B) L prk info okmLen) else none := by
  obtain ⟨d1, e1, hr1⟩ : ∃ d1, D.reset d = some d1 ∧ RelD d1 H [] := by
    rcases hd with h | h
    · exact hD.reset d H m0 h
    · exact hD.reset_fin d H h
  obtain ⟨h, e2, hrh⟩ := hmac_new D H B prk RelD FinD hD hLB d1 hr1 hk
  have hC := hmac_contract D H B prk RelD FinD hD
  have hob : Hmac.output_bytes D h = L := hC.out_rel h _ _ hrh
  have hcnt := chunkLens_count_le L okmLen 255 hL
  by_cases hle : okmLen ≤ 255 * L
  · obtain ⟨e, hl⟩ := expand_loop_spec D hC (Spec.Hmac.hmac H B prk) info hok (chunkLens L okmLen) h (zeros L) 0 []
      hrh (by simp [zeros]) (chunkLens_le' L okmLen hL) (by simpa using hcnt.mpr hle)
    simp only [Nat.zero_add, if_true, List.nil_append] at e hl
    have hc2 : (chunkLens L okmLen).length = Spec.Kdf.ceilDiv okmLen L :=
      Cx.Proofs.KdfHkdf.chunkLens_length' L okmLen hL
    rw [cutTs_chunkLens L hL _ okmLen hl (by rw [hkdfTs_length])] at e
    simp [hkdf_expand_old, e1, e2, hob, Nat.ne_of_gt hL, e, Spec.Kdf.hkdfOkm, hle, hc2]
  · have := expand_loop_refuses D hC (Spec.Hmac.hmac H B prk) info hok (chunkLens L okmLen) h (zeros L) 0 []
      hrh (by simp [zeros]) (chunkLens_le' L okmLen hL) (by decide) (by
        have : ¬ (chunkLens L okmLen).length ≤ 255 := fun hh => hle (hcnt.mp hh)
        omega)
    simp [hkdf_expand_old, e1, e2, hob, Nat.ne_of_gt hL, this, hle]

/-- the repaired function = the assert in front of the old one: a PRK shorter than `digest.output_bytes()` (read after
    `digest.reset()`) is refused before the HMAC object is built -/
theorem hkdf_expand_eq_assert_old (d d1 : δ) (e1 : D.reset d = some d1) (prk info : Bytes) (okmLen : Nat) :
    hkdf_expand D d prk info okmLen
      = if prk.length < D.output_bytes d1 then none else hkdf_expand_old D d prk info okmLen := by
  simp only [hkdf_expand, hkdf_expand_old, e1, ge_iff_le, Nat.not_le]

/-- **HKDF-Expand = RFC 5869 §2.3**, generic in the digest object: for every PRK, info and L the model of
    `hkdf_expand(digest, prk, info, okm[L])` refuses (`none`: `assert!(prk.len() >= digest.output_bytes())`) a PRK shorter
    than HashLen, returns the first L octets of T(1) ‖ T(2) ‖ … when |PRK| ≥ HashLen and L ≤ 255·HashLen, and refuses
    (`none`: the checked increment of the one-byte block counter) when L > 255·HashLen. -/
theorem hkdf_expand_spec (hD : Contract (digestFam D) L [L, bits, B] (fun _ => none) okD RelD FinD) (hLB : L ≤ B)
    (hL : 0 < L) (d : δ) (m0 : Bytes) (hd : RelD d H m0 ∨ FinD d H) (prk info : Bytes) (okmLen : Nat)
    (hk : prk.length ≤ B ∨ okD H prk)
    (hok : ∀ x : Bytes, x.length ≤ L + info.length + 1 → okH H B prk okD (Spec.Hmac.hmac H B prk) x) :
    hkdf_expand D d prk info okmLen = Spec.Kdf.hkdfExpand H B L prk info okmLen := by
  obtain ⟨d1, e1, hr1⟩ : ∃ d1, D.reset d = some d1 ∧ RelD d1 H [] := by
    rcases hd with h | h
    · exact hD.reset d H m0 h
    · exact hD.reset_fin d H h
  have hob : D.output_bytes d1 = L := hD.out_rel d1 H [] hr1
  rw [hkdf_expand_eq_assert_old D d d1 e1, hob, hkdf_expand_old_spec D H B RelD FinD hD hLB hL d m0 hd prk info okmLen hk hok]
  rfl

end
end Cx.Proofs.KdfHkdf
