/-
  Proofs.StreamDrg — the ChaCha DRG: every request sequence hands out successive keystream bytes.
-/
import CxVerif.Impl.Drg
import CxVerif.Proofs.StreamEngine
namespace Cx.Proofs.Drg
open Cx Cx.Impl Cx.Impl.ChaCha Cx.Impl.StreamCtx Cx.Impl.Drg Cx.Spec.Stream Cx.Proofs.Stream
set_option linter.unusedSimpArgs false
set_option linter.unusedVariables false

variable {σ : Type}

/-- number of keystream bytes a request consumes -/
def reqLen : Req → Nat
  | .bytes n => n
  | .fillBytes p => p.length
  | .fillSlice p => p.length
  | .u32 => 4
  | .u64 => 8

/-- how the drawn bytes are handed to the caller: buffers as they are, integers big-endian -/
def decode : Req → Bytes → Out
  | .u32, b => .w32 (beU32 b)
  | .u64, b => .w64 (beU64 b)
  | _, b => .buf b

/-- specification: request i receives the next `reqLen` keystream bytes -/
def chunks (KS : Nat → Bytes) : Nat → List Req → List Bytes
  | _, [] => []
  | p, r :: rs => keystream KS p (reqLen r) :: chunks KS (p + reqLen r) rs

def specOuts (KS : Nat → Bytes) : Nat → List Req → List Out
  | _, [] => []
  | p, r :: rs => decode r (keystream KS p (reqLen r)) :: specOuts KS (p + reqLen r) rs

/-- what the caller sees = the chunks, decoded by request kind -/
theorem specOuts_eq (KS : Nat → Bytes) : ∀ (reqs : List Req) (p : Nat),
    specOuts KS p reqs = List.zipWith decode reqs (chunks KS p reqs) := by
  intro reqs
  induction reqs with
  | nil => intro p; rfl
  | cons r rs ih => intro p; simp [specOuts, chunks, ih]

def total (reqs : List Req) : Nat := (reqs.map reqLen).sum

/-- independence of request sizing: the chunks concatenate to one keystream segment -/
theorem chunks_flatten (KS : Nat → Bytes) : ∀ (reqs : List Req) (p : Nat),
    (chunks KS p reqs).flatten = keystream KS p (total reqs) := by
  intro reqs
  induction reqs with
  | nil => intro p; simp [chunks, total, keystream]
  | cons r rs ih =>
    intro p
    simp only [chunks, List.flatten_cons, ih, total, List.map_cons, List.sum_cons]
    rw [keystream_add]

theorem xor_zeros : ∀ (k : Bytes), xorBytes (zeros k.length) k = k := by
  intro k
  induction k with
  | nil => rfl
  | cons x xs ih =>
    simp only [xorBytes, zeros, List.length_cons, List.replicate_succ, List.zipWith_cons_cons] at ih ⊢
    rw [ih]; simp

/-- running the cipher over zeros yields the keystream itself -/
theorem encrypt_zeros (KS : Nat → Bytes) (p n : Nat) : encrypt KS p (zeros n) = keystream KS p n := by
  unfold encrypt
  have hl : (zeros n).length = n := by simp [zeros]
  rw [hl]
  have := xor_zeros (keystream KS p n)
  rwa [keystream_length] at this

theorem step_spec {E : Engine σ} {R : Nat} {mk : Nat → σ} {KS : Nat → Bytes} (Rf : Refines (ChaCha.gen E R) mk KS)
    (c : Ctx σ) (p : Nat) (h : Abs mk KS c p) (r : Req) :
    ∃ c', Drg.step E R false c r = .ok (c', decode r (keystream KS p (reqLen r))) ∧ Abs mk KS c' (p + reqLen r) := by
  cases r with
  | bytes n =>
    obtain ⟨c', h1, h2⟩ := process_mut_refines Rf c p (zeros n) h
    rw [encrypt_zeros] at h1
    have hl : (zeros n).length = n := by simp [zeros]
    rw [hl] at h2
    exact ⟨c', by simp [Drg.step, Drg.bytes, ChaCha.process_mut, h1, decode, reqLen], h2⟩
  | fillBytes q =>
    obtain ⟨c', h1, h2⟩ := process_mut_refines Rf c p (zeros q.length) h
    rw [encrypt_zeros] at h1
    have hl : (zeros q.length).length = q.length := by simp [zeros]
    rw [hl] at h2
    exact ⟨c', by simp [Drg.step, Drg.fill_bytes, ChaCha.process_mut, h1, decode, reqLen], h2⟩
  | fillSlice q =>
    obtain ⟨c', h1, h2⟩ := process_mut_refines Rf c p (zeros q.length) h
    rw [encrypt_zeros] at h1
    have hl : (zeros q.length).length = q.length := by simp [zeros]
    rw [hl] at h2
    exact ⟨c', by simp [Drg.step, Drg.fill_slice, ChaCha.process_mut, h1, decode, reqLen], h2⟩
  | u32 =>
    obtain ⟨c', h1, h2⟩ := process_mut_refines Rf c p (zeros 4) h
    rw [encrypt_zeros] at h1
    exact ⟨c', by simp [Drg.step, Drg.u32, Drg.bytes, ChaCha.process_mut, h1, decode, reqLen], h2⟩
  | u64 =>
    obtain ⟨c', h1, h2⟩ := process_mut_refines Rf c p (zeros 8) h
    rw [encrypt_zeros] at h1
    exact ⟨c', by simp [Drg.step, Drg.u64, Drg.bytes, ChaCha.process_mut, h1, decode, reqLen], h2⟩

/-- **every request sequence returns the successive keystream bytes** (induction over the sequence) -/
theorem run_spec {E : Engine σ} {R : Nat} {mk : Nat → σ} {KS : Nat → Bytes} (Rf : Refines (ChaCha.gen E R) mk KS) :
    ∀ (reqs : List Req) (c : Ctx σ) (p : Nat), Abs mk KS c p →
      ∃ c', Drg.run E R false c reqs = .ok (c', specOuts KS p reqs) ∧ Abs mk KS c' (p + total reqs) := by
  intro reqs
  induction reqs with
  | nil => intro c p h; exact ⟨c, rfl, by simpa [total] using h⟩
  | cons r rs ih =>
    intro c p h
    obtain ⟨c1, h1, h2⟩ := step_spec Rf c p h r
    obtain ⟨c2, h3, h4⟩ := ih c1 _ h2
    refine ⟨c2, by simp [Drg.run, h1, h3, specOuts], ?_⟩
    have : p + total (r :: rs) = p + reqLen r + total rs := by simp [total]; omega
    rw [this]; exact h4

/-- the pre-repair `fill_bytes` handed out `prior ⊕ keystream` -/
theorem fillOld_spec {E : Engine σ} {R : Nat} {mk : Nat → σ} {KS : Nat → Bytes} (Rf : Refines (ChaCha.gen E R) mk KS)
    (c : Ctx σ) (p : Nat) (h : Abs mk KS c p) (prior : Bytes) :
    ∃ c', Drg.fill_bytesOld E R c prior = .ok (c', encrypt KS p prior) :=
  let ⟨c', h1, _⟩ := process_mut_refines Rf c p prior h
  ⟨c', h1⟩

end Cx.Proofs.Drg
