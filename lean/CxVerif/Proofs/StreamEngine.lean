/-
  Proofs.StreamEngine — both ChaCha engine models behave as "sixteen words + the portable operations"
  (`EngineSim`), hence every theorem about contexts holds for the portable AND the SSE2 engine; counters;
  the `Refines`/`MethodsRefine` instances of the three ChaCha context types.
-/
import CxVerif.Proofs.StreamLayout
namespace Cx.Proofs.ChaCha
open Cx Cx.Impl Cx.Impl.ChaCha Cx.Impl.StreamCtx Cx.Spec.Stream Cx.Proofs.Stream
set_option linter.unusedSimpArgs false
set_option linter.unusedVariables false

variable {σ : Type}

/-- engine `E`, seen through `α` as sixteen words, is the portable engine -/
structure EngineSim (E : Engine σ) (α : σ → W16) : Prop where
  inj : ∀ s t, α s = α t → s = t
  init : ∀ key nonce, Spec.ChaCha.validKey key → validNonce nonce →
    (E.init key nonce).map (fun s => toVec (α s)) = .ok (Spec.ChaCha.layoutState key nonce)
  rounds : ∀ R s, α (E.rounds R s) = Reference.rounds R (α s)
  add_back : ∀ s i, α (E.add_back s i) = Reference.add_back (α s) (α i)
  output_bytes : ∀ s, E.output_bytes s = Reference.output_bytes (α s)
  output_ad_bytes : ∀ s, E.output_ad_bytes s = Reference.output_ad_bytes (α s)
  set_counter : ∀ s c, α (E.set_counter s c) = Reference.set_counter (α s) c
  set_counter64 : ∀ s c, α (E.verif_set_counter64 s c) = Reference.verif_set_counter64 (α s) c
  increment : ∀ s, α (E.increment s) = Reference.increment (α s)
  increment64 : ∀ s, α (E.increment64 s) = Reference.increment64 (α s)

theorem referenceSim : EngineSim referenceEngine id where
  inj := fun _ _ h => h
  init := reference_init
  rounds := fun _ _ => rfl
  add_back := fun _ _ => rfl
  output_bytes := fun _ => rfl
  output_ad_bytes := fun _ => rfl
  set_counter := fun _ _ => rfl
  set_counter64 := fun _ _ => rfl
  increment := fun _ => rfl
  increment64 := fun _ => rfl

theorem toRef_inj (s t : Sse2.State) (h : toRef s = toRef t) : s = t := by
  obtain ⟨⟨a0,a1,a2,a3⟩,⟨b0,b1,b2,b3⟩,⟨c0,c1,c2,c3⟩,⟨d0,d1,d2,d3⟩⟩ := s
  obtain ⟨⟨a0',a1',a2',a3'⟩,⟨b0',b1',b2',b3'⟩,⟨c0',c1',c2',c3'⟩,⟨d0',d1',d2',d3'⟩⟩ := t
  simp only [toRef, W16.mk.injEq] at h
  simp [h]

theorem sse2Sim : EngineSim sse2Engine toRef where
  inj := toRef_inj
  init := sse2_init
  rounds := sse2_rounds
  add_back := sse2_add_back
  output_bytes := sse2_output_bytes
  output_ad_bytes := sse2_output_ad_bytes
  set_counter := sse2_set_counter
  set_counter64 := sse2_set_counter64
  increment := sse2_increment
  increment64 := sse2_increment64

/-! ### block / hblock of any simulated engine = Spec -/

theorem block_eq {E : Engine σ} {α : σ → W16} (S : EngineSim E α) (R : Nat) (s : σ) :
    E.block R s = Spec.ChaCha.blockOfState R (toVec (α s)) := by
  have := ref_block_eq R (α s)
  simp only [Engine.block, referenceEngine] at this
  simp only [Engine.block, S.output_bytes, S.add_back, S.rounds, this]

theorem hblock_eq {E : Engine σ} {α : σ → W16} (S : EngineSim E α) (R : Nat) (s : σ) :
    E.hblock R s = Spec.ChaCha.hOfState R (toVec (α s)) := by
  have := ref_hblock_eq R (α s)
  simp only [Engine.hblock, referenceEngine] at this
  simp only [Engine.hblock, S.output_ad_bytes, S.rounds, this]

theorem length_flatMap_const {α β : Type} (f : α → List β) (k : Nat) (h : ∀ x, (f x).length = k) :
    ∀ l : List α, (l.flatMap f).length = k * l.length := by
  intro l
  induction l with
  | nil => simp
  | cons x xs ih => simp [List.flatMap_cons, h, ih, Nat.mul_succ, Nat.add_comm]

theorem u32le_length (w : UInt32) : (u32le w).length = 4 := by simp [u32le, natToLE]

theorem serialize_length (s : Spec.ChaCha.State) : (Spec.ChaCha.serialize s).length = 64 := by
  unfold Spec.ChaCha.serialize
  rw [length_flatMap_const u32le 4 u32le_length]; simp

theorem blockOfState_length (R : Nat) (s : Spec.ChaCha.State) : (Spec.ChaCha.blockOfState R s).length = 64 :=
  serialize_length _

theorem hOfState_length (R : Nat) (s : Spec.ChaCha.State) : (Spec.ChaCha.hOfState R s).length = 32 := by
  unfold Spec.ChaCha.hOfState
  rw [length_flatMap_const u32le 4 u32le_length]; rfl

theorem block_length (R : Nat) (key nonce : Bytes) (c : UInt32) : (Spec.ChaCha.block R key nonce c).length = 64 :=
  blockOfState_length _ _
theorem blockOrig_length (R : Nat) (key nonce : Bytes) (c : UInt64) : (Spec.ChaCha.blockOrig R key nonce c).length = 64 :=
  blockOfState_length _ _
theorem hchacha_length (R : Nat) (key nonce : Bytes) : (Spec.ChaCha.hchacha R key nonce).length = 32 :=
  hOfState_length _ _

/-! ### counters on sixteen words -/

theorem toVec_set_counter (w : W16) (c : UInt32) :
    toVec (Reference.set_counter w c) = Spec.ChaCha.setCounter32 (toVec w) c := by cases w; rfl
theorem toVec_increment (w : W16) :
    toVec (Reference.increment w) = Spec.ChaCha.incCounter32 (toVec w) := by cases w; rfl
theorem toVec_set_counter64 (w : W16) (c : UInt64) :
    toVec (Reference.verif_set_counter64 w c) = Spec.ChaCha.setCounter64 (toVec w) c := by cases w; rfl

theorem set_set (w : W16) (c c' : UInt32) :
    Reference.set_counter (Reference.set_counter w c) c' = Reference.set_counter w c' := rfl
theorem inc_set (w : W16) (c : UInt32) :
    Reference.increment (Reference.set_counter w c) = Reference.set_counter w (c + 1) := rfl
theorem set64_set64 (w : W16) (c c' : UInt64) :
    Reference.verif_set_counter64 (Reference.verif_set_counter64 w c) c' = Reference.verif_set_counter64 w c' := rfl

/-! low/high words of c+1: `+1` on the low word, carry into the high word exactly when the low word wraps -/

theorem lo_toNat (c : UInt64) : c.toUInt32.toNat = c.toNat % 2^32 := UInt64.toNat_toUInt32 c
theorem hi_toNat (c : UInt64) : (c >>> 32).toUInt32.toNat = c.toNat / 2^32 := by
  have := c.toNat_lt
  rw [UInt64.toNat_toUInt32, UInt64.toNat_shiftRight]
  simp [Nat.shiftRight_eq_div_pow]; omega

theorem lo_succ (c : UInt64) : (c + 1).toUInt32 = c.toUInt32 + 1 := by
  apply UInt32.toNat.inj
  have := c.toNat_lt
  rw [lo_toNat, UInt64.toNat_add, UInt32.toNat_add, lo_toNat]
  simp

theorem lo_succ_zero (c : UInt64) : (c.toUInt32 + 1 = 0) ↔ c.toNat % 2^32 = 2^32 - 1 := by
  rw [← UInt32.toNat_inj, UInt32.toNat_add, lo_toNat]
  simp; omega

theorem hi_succ (c : UInt64) : ((c + 1) >>> 32).toUInt32 =
    if c.toUInt32 + 1 = 0 then (c >>> 32).toUInt32 + 1 else (c >>> 32).toUInt32 := by
  have := c.toNat_lt
  by_cases h : c.toUInt32 + 1 = 0
  · rw [if_pos h]
    have h' := (lo_succ_zero c).1 h
    apply UInt32.toNat.inj
    rw [hi_toNat, UInt64.toNat_add, UInt32.toNat_add, hi_toNat]
    simp; omega
  · rw [if_neg h]
    have h' : ¬ (c.toNat % 2^32 = 2^32 - 1) := fun e => h ((lo_succ_zero c).2 e)
    apply UInt32.toNat.inj
    rw [hi_toNat, UInt64.toNat_add, hi_toNat]
    simp; omega

/-- `increment64` after presetting the counter to c = presetting it to c+1 (mod 2^64): the carry is exact -/
theorem inc64_set64 (w : W16) (c : UInt64) :
    Reference.increment64 (Reference.verif_set_counter64 w c) = Reference.verif_set_counter64 w (c + 1) := by
  simp only [Reference.increment64, Reference.verif_set_counter64, lo_succ, hi_succ]
  by_cases h : c.toUInt32 + 1 = 0
  · simp [h]
  · simp [h]

theorem map_ok {α β : Type} {x : Except String α} {f : α → β} {v : β} (h : x.map f = .ok v) :
    ∃ s, x = .ok s ∧ f s = v := by
  cases x with
  | error e => simp [Except.map] at h
  | ok s => exact ⟨s, rfl, by simpa [Except.map] using h⟩

theorem set_counter_self (w : W16) (h : w.x12 = 0) : Reference.set_counter w 0 = w := by
  cases w; simp only at h; subst h; rfl
theorem set_counter64_self (w : W16) (h : w.x12 = 0) (h' : w.x13 = 0) : Reference.verif_set_counter64 w 0 = w := by
  cases w; simp only at h h'; subst h; subst h'; rfl
theorem toVec_x12 (w : W16) : (toVec w)[12] = w.x12 := by cases w; rfl
theorem toVec_x13 (w : W16) : (toVec w)[13] = w.x13 := by cases w; rfl

/-! ## the three ChaCha context types on any simulated engine -/

section
variable {E : Engine σ} {α : σ → W16}

/-- engine state of block `n`, 32-bit counter (the block number is reduced mod 2^32) -/
def mk32 (E : Engine σ) (s0 : σ) (n : Nat) : σ := E.set_counter s0 (UInt32.ofNat n)
/-- engine state of block `n`, 64-bit counter (reduced mod 2^64) -/
def mk64 (E : Engine σ) (s0 : σ) (n : Nat) : σ := E.verif_set_counter64 s0 (UInt64.ofNat n)

theorem mk32_zero (S : EngineSim E α) (s0 : σ) (h : (toVec (α s0))[12] = 0) : s0 = mk32 E s0 0 := by
  apply S.inj
  rw [mk32, S.set_counter]
  exact (set_counter_self _ (by rw [← toVec_x12]; exact h)).symm

theorem mk64_zero (S : EngineSim E α) (s0 : σ) (h : (toVec (α s0))[12] = 0) (h' : (toVec (α s0))[13] = 0) :
    s0 = mk64 E s0 0 := by
  apply S.inj
  rw [mk64, S.set_counter64]
  exact (set_counter64_self _ (by rw [← toVec_x12]; exact h) (by rw [← toVec_x13]; exact h')).symm

theorem mk32_inc (S : EngineSim E α) (s0 : σ) (n : Nat) : E.increment (mk32 E s0 n) = mk32 E s0 (n + 1) := by
  apply S.inj
  simp only [mk32, S.increment, S.set_counter, inc_set, UInt32.ofNat_add]
  rfl

theorem mk64_inc (S : EngineSim E α) (s0 : σ) (n : Nat) : E.increment64 (mk64 E s0 n) = mk64 E s0 (n + 1) := by
  apply S.inj
  simp only [mk64, S.increment64, S.set_counter64, inc64_set64, UInt64.ofNat_add]
  rfl

theorem mk32_seek (S : EngineSim E α) (s0 : σ) (n : Nat) (t : UInt32) : E.set_counter (mk32 E s0 n) t = mk32 E s0 t.toNat := by
  apply S.inj
  simp only [mk32, S.set_counter, set_set, UInt32.ofNat_toNat]

theorem mk64_seek (S : EngineSim E α) (s0 : σ) (n : Nat) (t : UInt64) :
    E.verif_set_counter64 (mk64 E s0 n) t = mk64 E s0 t.toNat := by
  apply S.inj
  simp only [mk64, S.set_counter64, set64_set64, UInt64.ofNat_toNat]

/-- `ChaCha<R>`: the state after `set_counter(c)` is the RFC 8439 state of (key, c, nonce) -/
theorem ietf_vec (S : EngineSim E α) (key nonce : Bytes) (hn : nonce.length = 12) (s0 : σ)
    (h0 : toVec (α s0) = Spec.ChaCha.layoutState key nonce) (c : UInt32) :
    toVec (α (E.set_counter s0 c)) = Spec.ChaCha.ietfState key nonce c := by
  rw [S.set_counter, toVec_set_counter, h0]
  simp only [Spec.ChaCha.layoutState, hn, show ¬ ((12 : Nat) = 16) by decide, if_true, if_false]
  rfl

/-- `ChaChaOriginal<R>`: the state after presetting the 64-bit counter is Bernstein's state of (key, c, nonce) -/
theorem orig_vec (S : EngineSim E α) (key nonce : Bytes) (hn : nonce.length = 8) (s0 : σ)
    (h0 : toVec (α s0) = Spec.ChaCha.layoutState key nonce) (c : UInt64) :
    toVec (α (E.verif_set_counter64 s0 c)) = Spec.ChaCha.origState key nonce c := by
  rw [S.set_counter64, toVec_set_counter64, h0]
  simp only [Spec.ChaCha.layoutState, hn, show ¬ ((8 : Nat) = 16) by decide, show ¬ ((8 : Nat) = 12) by decide, if_false]
  rfl

theorem chacha_refines (S : EngineSim E α) (R : Nat) (key nonce : Bytes) (hn : nonce.length = 12) (s0 : σ)
    (h0 : toVec (α s0) = Spec.ChaCha.layoutState key nonce) :
    MethodsRefine (ChaCha.ChaCha.methods E R) (mk32 E s0) (Spec.ChaCha.blockAt R key nonce) where
  gen := {
    block_eq := fun n => by
      show E.block R (mk32 E s0 n) = _
      rw [block_eq S, mk32, ietf_vec S key nonce hn s0 h0]; rfl
    len := fun n => block_length _ _ _ _
    inc := mk32_inc S s0 }
  seek := fun f hf n t => by
    have : f = E.set_counter := by simpa [ChaCha.ChaCha.methods] using hf.symm
    subst this; exact mk32_seek S s0 n t
  set64 := fun f hf => by simp [ChaCha.ChaCha.methods] at hf

theorem chachaorig_refines (S : EngineSim E α) (R : Nat) (key nonce : Bytes) (hn : nonce.length = 8) (s0 : σ)
    (h0 : toVec (α s0) = Spec.ChaCha.layoutState key nonce) :
    MethodsRefine (ChaCha.ChaChaOriginal.methods E R) (mk64 E s0) (Spec.ChaCha.blockAtOrig R key nonce) where
  gen := {
    block_eq := fun n => by
      show E.block R (mk64 E s0 n) = _
      rw [block_eq S, mk64, orig_vec S key nonce hn s0 h0]; rfl
    len := fun n => blockOrig_length _ _ _ _
    inc := mk64_inc S s0 }
  seek := fun f hf => by simp [ChaCha.ChaChaOriginal.methods] at hf
  set64 := fun f hf n t => by
    have : f = E.verif_set_counter64 := by simpa [ChaCha.ChaChaOriginal.methods] using hf.symm
    subst this; exact mk64_seek S s0 n t

theorem roundsOk_of_valid (R : Nat) (h : Spec.ChaCha.validRounds R) : roundsOk R = true := by
  rcases h with h | h | h <;> subst h <;> rfl

theorem layout12_ctr (key nonce : Bytes) (hn : nonce.length = 12) : (Spec.ChaCha.layoutState key nonce)[12] = 0 := by
  simp only [Spec.ChaCha.layoutState, hn, show ¬ ((12 : Nat) = 16) by decide, if_true, if_false]; rfl
theorem layout8_ctr (key nonce : Bytes) (hn : nonce.length = 8) :
    (Spec.ChaCha.layoutState key nonce)[12] = 0 ∧ (Spec.ChaCha.layoutState key nonce)[13] = 0 := by
  simp only [Spec.ChaCha.layoutState, hn, show ¬ ((8 : Nat) = 16) by decide, show ¬ ((8 : Nat) = 12) by decide, if_false]
  exact ⟨rfl, rfl⟩

/-- `ChaCha::<R>::new` succeeds on valid arguments; the fresh context stands at position 0 -/
theorem chacha_new (S : EngineSim E α) (R : Nat) (key nonce : Bytes) (hk : Spec.ChaCha.validKey key)
    (hn : nonce.length = 12) (hR : Spec.ChaCha.validRounds R) :
    ∃ s0, ChaCha.ChaCha.new E R key nonce = .ok (Impl.StreamCtx.mk s0) ∧
      toVec (α s0) = Spec.ChaCha.layoutState key nonce ∧
      Abs (mk32 E s0) (Spec.ChaCha.blockAt R key nonce) (Impl.StreamCtx.mk s0) 0 := by
  obtain ⟨s0, hi, hv⟩ := map_ok (S.init key nonce hk (Or.inr (Or.inl hn)))
  refine ⟨s0, ?_, hv, ?_⟩
  · have hk' : key.length = 16 ∨ key.length = 32 := hk
    simp [ChaCha.ChaCha.new, hn, hk', roundsOk_of_valid R hR, hi]
  · left
    refine ⟨rfl, rfl, ?_⟩
    exact mk32_zero S s0 (by rw [hv]; exact layout12_ctr key nonce hn)

theorem chachaorig_new (S : EngineSim E α) (R : Nat) (key nonce : Bytes) (hk : Spec.ChaCha.validKey key)
    (hn : nonce.length = 8) (hR : Spec.ChaCha.validRounds R) :
    ∃ s0, ChaCha.ChaChaOriginal.new E R key nonce = .ok (Impl.StreamCtx.mk s0) ∧
      toVec (α s0) = Spec.ChaCha.layoutState key nonce ∧
      Abs (mk64 E s0) (Spec.ChaCha.blockAtOrig R key nonce) (Impl.StreamCtx.mk s0) 0 := by
  obtain ⟨s0, hi, hv⟩ := map_ok (S.init key nonce hk (Or.inl hn))
  refine ⟨s0, ?_, hv, ?_⟩
  · have hk' : key.length = 16 ∨ key.length = 32 := hk
    simp [ChaCha.ChaChaOriginal.new, hn, hk', roundsOk_of_valid R hR, hi]
  · left
    refine ⟨rfl, rfl, ?_⟩
    exact mk64_zero S s0 (by rw [hv]; exact (layout8_ctr key nonce hn).1) (by rw [hv]; exact (layout8_ctr key nonce hn).2)

/-! ### XChaCha -/

theorem zeros4_word : read_u32_le (zeros 4) 0 = 0 := by decide

/-- IETF state under nonce 00000000‖n8 = the 8-byte-nonce layout with the counter word set -/
theorem ietf_of_layout8 (key n8 : Bytes) (hn : n8.length = 8) (c : UInt32) :
    Spec.ChaCha.ietfState key (zeros 4 ++ n8) c = Spec.ChaCha.setCounter32 (Spec.ChaCha.layoutState key n8) c := by
  simp only [Spec.ChaCha.layoutState, hn, show ¬ ((8 : Nat) = 16) by decide, show ¬ ((8 : Nat) = 12) by decide, if_false]
  have e0 : word (zeros 4 ++ n8) 0 = 0 := by
    rw [word_eq_read, read_append_left _ _ _ (by simp [zeros])]; exact zeros4_word
  have e1 : word (zeros 4 ++ n8) 1 = word n8 0 := by
    rw [word_eq_read, word_eq_read]
    have := read_append_right (zeros 4) n8 0
    simpa [zeros] using this
  have e2 : word (zeros 4 ++ n8) 2 = word n8 1 := by
    rw [word_eq_read, word_eq_read]
    have := read_append_right (zeros 4) n8 4
    simpa [zeros] using this
  simp only [Spec.ChaCha.ietfState, e0, e1, e2]
  rfl

theorem xchacha_block_eq (S : EngineSim E α) (R : Nat) (key nonce : Bytes) (hn : nonce.length = 24) (s0 : σ)
    (h0 : toVec (α s0) = Spec.ChaCha.layoutState (Spec.ChaCha.hchacha R key (nonce.take 16)) (nonce.drop 16))
    (n : Nat) : E.block R (mk32 E s0 n) = Spec.ChaCha.blockAtX R key nonce n := by
  have h8 : (nonce.drop 16).length = 8 := by simp [hn]
  unfold Spec.ChaCha.blockAtX Spec.ChaCha.xchachaBlock Spec.ChaCha.block
  rw [block_eq S, mk32, S.set_counter, toVec_set_counter, h0, ← ietf_of_layout8 _ _ h8]

theorem blockAtX_length (R : Nat) (key nonce : Bytes) (n : Nat) : (Spec.ChaCha.blockAtX R key nonce n).length = 64 := by
  unfold Spec.ChaCha.blockAtX Spec.ChaCha.xchachaBlock; exact block_length _ _ _ _

theorem xchacha_refines (S : EngineSim E α) (R : Nat) (key nonce : Bytes) (hn : nonce.length = 24) (s0 : σ)
    (h0 : toVec (α s0) = Spec.ChaCha.layoutState (Spec.ChaCha.hchacha R key (nonce.take 16)) (nonce.drop 16)) :
    MethodsRefine (ChaCha.XChaCha.methods E R) (mk32 E s0) (Spec.ChaCha.blockAtX R key nonce) where
  gen := {
    block_eq := xchacha_block_eq S R key nonce hn s0 h0
    len := blockAtX_length R key nonce
    inc := mk32_inc S s0 }
  seek := fun f hf n t => by
    have : f = E.set_counter := by simpa [ChaCha.XChaCha.methods] using hf.symm
    subst this; exact mk32_seek S s0 n t
  set64 := fun f hf => by simp [ChaCha.XChaCha.methods] at hf

/-- `XChaCha::<R>::new`: HChaCha subkey (no feed-forward), then the 8-byte-nonce layout of nonce[16..24] -/
theorem xchacha_new (S : EngineSim E α) (R : Nat) (key nonce : Bytes) (hk : key.length = 32)
    (hn : nonce.length = 24) (hR : Spec.ChaCha.validRounds R) :
    ∃ s0, ChaCha.XChaCha.new E R key nonce = .ok (Impl.StreamCtx.mk s0) ∧
      toVec (α s0) = Spec.ChaCha.layoutState (Spec.ChaCha.hchacha R key (nonce.take 16)) (nonce.drop 16) ∧
      Abs (mk32 E s0) (Spec.ChaCha.blockAtX R key nonce) (Impl.StreamCtx.mk s0) 0 := by
  have h16 : (nonce.take 16).length = 16 := by simp [hn]
  have h8 : (nonce.drop 16).length = 8 := by simp [hn]
  obtain ⟨h, hi, hv⟩ := map_ok (S.init key (nonce.take 16) (Or.inr hk) (Or.inr (Or.inr h16)))
  -- the subkey
  have hsub : E.hblock R h = Spec.ChaCha.hchacha R key (nonce.take 16) := by
    rw [hblock_eq S, hv]
    simp only [Spec.ChaCha.hchacha, Spec.ChaCha.layoutState, h16, if_true]
  have hsubk : Spec.ChaCha.validKey (Spec.ChaCha.hchacha R key (nonce.take 16)) := Or.inr (hchacha_length _ _ _)
  obtain ⟨s0, hi2, hv2⟩ := map_ok (S.init _ (nonce.drop 16) hsubk (Or.inl h8))
  have htake : (nonce.drop 16).take 8 = nonce.drop 16 := List.take_of_length_le (by omega)
  refine ⟨s0, ?_, hv2, ?_⟩
  · simp [ChaCha.XChaCha.new, hn, hk, roundsOk_of_valid R hR, hi, hsub, htake, hi2]
  · left
    refine ⟨rfl, rfl, ?_⟩
    exact mk32_zero S s0 (by rw [hv2]; exact (layout8_ctr _ _ h8).1)

end
end Cx.Proofs.ChaCha
