/-
  Proofs.ConstantTime — helper lemmas for C18 (kernel-pure: no bv_decide, no native_decide).
-/
import CxVerif.Impl.ConstantTime
namespace Cx.Proofs.CT
open Cx.Impl.CT
set_option linter.unusedSimpArgs false

theorem bv_shr63 (x : BitVec 64) : x >>> 63 = if x.msb then 1#64 else 0#64 := by
  apply BitVec.eq_of_toNat_eq
  have h := x.isLt
  simp only [BitVec.toNat_ushiftRight, BitVec.msb_eq_decide]
  by_cases hm : 2^63 ≤ x.toNat
  · simp [hm]; omega
  · simp [hm]; omega

theorem bv_ne_zero_iff (x : BitVec 64) : (x ≠ 0) ↔ x.toNat ≠ 0 := by
  constructor
  · intro hx hn; exact hx (BitVec.eq_of_toNat_eq (by simpa using hn))
  · intro hx hn; subst hn; simp at hx

theorem bv_nz_msb (x : BitVec 64) : (x ||| (0 - x)).msb = decide (x ≠ 0) := by
  have h := x.isLt
  have e := bv_ne_zero_iff x
  simp only [BitVec.msb_or]
  simp only [BitVec.msb_eq_decide, BitVec.toNat_sub, BitVec.toNat_ofNat, e]
  by_cases a : x.toNat = 0
  · simp [a]
  · by_cases b : 2^63 ≤ x.toNat
    · simp [a, b]
    · simp [a, b]; omega

theorem bv_lt_msb (a b : BitVec 64) :
    (a ^^^ ((a ^^^ b) ||| ((a - b) ^^^ b))).msb = decide (a.toNat < b.toNat) := by
  have ha := a.isLt; have hb := b.isLt
  simp only [BitVec.msb_xor, BitVec.msb_or]
  simp only [BitVec.msb_eq_decide, BitVec.toNat_sub]
  by_cases x : 2^63 ≤ a.toNat <;> by_cases y : 2^63 ≤ b.toNat <;>
    by_cases z : 2^63 ≤ (2^64 - b.toNat + a.toNat) % 2^64 <;> by_cases w : a.toNat < b.toNat <;>
    simp [x, y, z, w] <;> omega

/-- the non-zero trick on `u64` -/
theorem nz_val (x : UInt64) : (x ||| wneg x) >>> 63 = if x = 0 then 0 else 1 := by
  apply UInt64.eq_of_toBitVec_eq
  have h := bv_shr63 (x.toBitVec ||| (0 - x.toBitVec))
  have m := bv_nz_msb x.toBitVec
  have e : x = 0 ↔ x.toBitVec = 0 := by
    constructor
    · intro h; subst h; rfl
    · intro h; exact UInt64.eq_of_toBitVec_eq (by simpa using h)
  by_cases hx : x = 0
  · subst hx; decide
  · have hx' : x.toBitVec ≠ 0 := fun h => hx (e.mpr h)
    simp only [hx, if_false]
    simp only [wneg, UInt64.toBitVec_shiftRight, UInt64.toBitVec_or, UInt64.toBitVec_sub]
    rw [m] at h
    simp only [hx', ne_eq, not_false_eq_true, decide_true, if_true] at h
    simpa using h

theorem lt_val (a b : UInt64) :
    (a ^^^ ((a ^^^ b) ||| ((a - b) ^^^ b))) >>> 63 = if a < b then 1 else 0 := by
  apply UInt64.eq_of_toBitVec_eq
  have h := bv_shr63 (a.toBitVec ^^^ ((a.toBitVec ^^^ b.toBitVec) ||| ((a.toBitVec - b.toBitVec) ^^^ b.toBitVec)))
  rw [bv_lt_msb] at h
  have e : a < b ↔ a.toBitVec.toNat < b.toBitVec.toNat := by
    simp [UInt64.lt_iff_toNat_lt]
  simp only [UInt64.toBitVec_shiftRight, UInt64.toBitVec_xor, UInt64.toBitVec_or, UInt64.toBitVec_sub]
  by_cases hl : a < b
  · have hl' := e.mp hl
    simp only [hl, if_true]; simp only [hl', decide_true, if_true] at h
    simpa using h
  · have hl' : ¬ a.toBitVec.toNat < b.toBitVec.toNat := fun x => hl (e.mpr x)
    simp only [hl, if_false]; simp only [hl', decide_false] at h
    simpa using h

end Cx.Proofs.CT
