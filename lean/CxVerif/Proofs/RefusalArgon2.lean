/-
  Proofs.RefusalArgon2 — C20 refusal matrix, Argon2 (src/kdf/argon2.rs) and the length-typed curve API
  (src/x25519.rs, src/ed25519.rs).

  Documented domains (quoted from `enum InvalidParam` and the setters):
    parallelism(p)   "At least 1 level of parallelism should be used"   "Not more than 2^24-1 level of parallelism should be used"
    iterations(t)    "At least 1 iterations should be used"
    version(v)       "Only version 19 (0x13) and 16 (0x10) are supported here, any other value will raise a failure."
    memory_kb(m)     no refusal exists: "memory need to be at 8*parallelism minimum" — a smaller value is RAISED to
                     8·parallelism silently (`parallelism_override_memory`); `InvalidParam::MemoryTooHigh` is never produced.
                     Property C20 lists this range as documented-unchecked (outside the claim); it is stated here as
                     what the code does (`argon2_memory_kb_never_refuses`).
    argon2_at(tag)   no documented tag-length domain; RFC 9106: 4 ≤ T.  The code refuses T = 0 (panic inside BLAKE2b:
                     `ContextDyn::new(0)`) and ACCEPTS T = 1, 2, 3 (documented-unchecked range of C20); salt shorter than
                     8 bytes is accepted as well (unchecked).
  x25519.rs   `TryFrom<&[u8]>` for SecretKey / PublicKey / SharedSecret: `Err(())` unless `value.len() == 32`.
  ed25519.rs  every argument of `keypair`, `signature`, `verify`, `exchange`, … is an array reference: a wrong length
              cannot be passed; inside those types the functions are total (Props C13 / C14).
-/
import CxVerif.Props.C11.Argon2Full
import CxVerif.Impl.X25519
namespace Cx.Proofs.Refusal
open Cx Cx.Proofs.Argon2 Cx.Impl.Argon2
open Cx.Spec.Argon2 (Ty)
set_option linter.unusedSimpArgs false
set_option linter.unusedVariables false

/-! ### the documented domains of the setters -/

def ValidArgon2Parallelism (p : Nat) : Prop := 1 ≤ p ∧ p < 2 ^ 24
def ValidArgon2Iterations (t : Nat) : Prop := 1 ≤ t
def ValidArgon2Version (v : Nat) : Prop := v = 0x13 ∨ v = 0x10
/-- the whole builder chain `memory_kb(m).iterations(t).parallelism(p).version(v)` (every `u32` m is accepted) -/
def ValidArgon2Build (v t p : Nat) : Prop := ValidArgon2Version v ∧ ValidArgon2Iterations t ∧ ValidArgon2Parallelism p

instance (p : Nat) : Decidable (ValidArgon2Parallelism p) := by unfold ValidArgon2Parallelism; infer_instance
instance (t : Nat) : Decidable (ValidArgon2Iterations t) := by unfold ValidArgon2Iterations; infer_instance
instance (v : Nat) : Decidable (ValidArgon2Version v) := by unfold ValidArgon2Version; infer_instance
instance (v t p : Nat) : Decidable (ValidArgon2Build v t p) := by unfold ValidArgon2Build; infer_instance

/-- a setter answered `Err(_)` -/
def IsErr (x : Option (Except InvalidParam Params)) : Prop := ∃ e, x = some (.error e)

/-- the invariant of every `Params` value the public API can build (`NonZeroU32` parallelism below 2^24, u32 memory) -/
def ParamsInv (s : Params) : Prop := 1 ≤ s.parallelism ∧ s.parallelism < 2 ^ 24 ∧ s.memory_kb < 2 ^ 32

theorem def_inv (ty : Type') : ParamsInv (Params.def ty) := by
  simp [ParamsInv, Params.def]

theorem argon2_iterations_err_iff (s : Params) (t : Nat) :
    IsErr (s.iterations' t) ↔ ¬ ValidArgon2Iterations t := by
  unfold IsErr Params.iterations' ValidArgon2Iterations
  by_cases h : t = 0
  · simp [h]
  · simp [h]

theorem argon2_iterations_ok (s : Params) (t : Nat) (h : ValidArgon2Iterations t) :
    s.iterations' t = some (.ok { s with iterations := t }) := by
  unfold Params.iterations' ValidArgon2Iterations at *
  rw [if_neg (by omega)]

theorem argon2_iterations_error_kind (s : Params) (t : Nat) (h : ¬ ValidArgon2Iterations t) :
    s.iterations' t = some (.error .IterationsZero) := by
  unfold Params.iterations' ValidArgon2Iterations at *
  rw [if_pos (by omega)]

theorem argon2_version_err_iff (s : Params) (v : Nat) : IsErr (s.version' v) ↔ ¬ ValidArgon2Version v := by
  unfold IsErr Params.version' ValidArgon2Version
  by_cases h : v = 0x13 ∨ v = 0x10
  · simp [h]
  · simp [h]

theorem argon2_version_ok (s : Params) (v : Nat) (h : ValidArgon2Version v) :
    s.version' v = some (.ok { s with version := v }) := by
  unfold Params.version' ValidArgon2Version at *
  rw [if_neg (fun hn => hn h)]

theorem argon2_version_error_kind (s : Params) (v : Nat) (h : ¬ ValidArgon2Version v) :
    s.version' v = some (.error .UnknownVersion) := by
  unfold Params.version' ValidArgon2Version at *
  rw [if_pos h]

theorem argon2_parallelism_err_iff (s : Params) (p : Nat) (hs : s.memory_kb < 2 ^ 32) :
    IsErr (s.parallelism' p) ↔ ¬ ValidArgon2Parallelism p := by
  unfold IsErr Params.parallelism' ValidArgon2Parallelism
  by_cases h1 : p ≥ 0x1000000
  · simp [h1]
  · by_cases h2 : p = 0
    · simp [h1, h2]
    · rw [if_neg h1, if_neg h2, override_eq { s with parallelism := p } (by show 1 ≤ p; omega) (by show p < 2 ^ 24; omega) hs]
      simp; omega

theorem argon2_parallelism_error_kind (s : Params) (p : Nat) (h : ¬ ValidArgon2Parallelism p) :
    s.parallelism' p = some (.error (if p = 0 then .ParallelismZero else .ParallelismTooHigh)) := by
  unfold Params.parallelism' ValidArgon2Parallelism at *
  by_cases h1 : p ≥ 0x1000000
  · rw [if_pos h1, if_neg (by omega)]
  · rw [if_neg h1, if_pos (by omega), if_pos (by omega)]

theorem argon2_parallelism_ok (s : Params) (p : Nat) (hs : s.memory_kb < 2 ^ 32) (h : ValidArgon2Parallelism p) :
    ∃ s', s.parallelism' p = some (.ok s') ∧ ParamsInv s' ∧ s'.parallelism = p := by
  unfold Params.parallelism'
  rw [if_neg (by have := h.2; omega), if_neg (by have := h.1; omega), override_eq { s with parallelism := p } h.1 h.2 hs]
  refine ⟨_, rfl, ?_, rfl⟩
  simp only [ParamsInv, geomOf]
  have := h.1; have := h.2
  refine ⟨h.1, h.2, ?_⟩
  show max s.memory_kb (8 * p) < 2 ^ 32
  omega

/-- `memory_kb(m)` never refuses and never panics; a value below `8·parallelism` is replaced by `8·parallelism`
    (the documented-unchecked range of C20: accepted by being raised, not refused) -/
theorem argon2_memory_kb_never_refuses (s : Params) (m : Nat) (hs : ParamsInv s) (hm : m < 2 ^ 32) :
    ∃ s', s.memory_kb' m = some (.ok s') ∧ s'.memory_kb = max m (8 * s.parallelism) ∧ ParamsInv s' := by
  unfold Params.memory_kb'
  rw [override_eq { s with memory_kb := m } hs.1 hs.2.1 hm]
  refine ⟨_, rfl, rfl, hs.1, hs.2.1, ?_⟩
  show max m (8 * s.parallelism) < 2 ^ 32
  have := hs.2.1; omega

/-- **the builder chain** as a caller writes it (`m, t, p, v` are `u32`): an `Err` iff one of the three checked
    parameters is outside its documented domain; never a panic -/
theorem argon2_build_err_iff (y : Ty) (v t m p : Nat) (hm : m < 2 ^ 32) :
    IsErr ((Params.def (tyOf y)).build v t m p) ↔ ¬ ValidArgon2Build v t p := by
  constructor
  · rintro ⟨e, he⟩ ⟨hv, ht, hp⟩
    rw [build_ok y v t m p hv ht hp.1 hp.2 hm] at he
    cases he
  · intro hv
    unfold Params.build
    obtain ⟨s1, e1, _, i1⟩ := argon2_memory_kb_never_refuses (Params.def (tyOf y)) m (def_inv _) hm
    rw [e1]; simp only []
    by_cases ht : ValidArgon2Iterations t
    · rw [argon2_iterations_ok s1 t ht]; simp only []
      by_cases hp : ValidArgon2Parallelism p
      · obtain ⟨s2, e2, _, _⟩ := argon2_parallelism_ok { s1 with iterations := t } p i1.2.2 hp
        rw [e2]; simp only []
        have hvv : ¬ ValidArgon2Version v := fun h => hv ⟨h, ht, hp⟩
        exact ⟨_, argon2_version_error_kind s2 v hvv⟩
      · rw [argon2_parallelism_error_kind _ p hp]; exact ⟨_, rfl⟩
    · rw [argon2_iterations_error_kind s1 t ht]; exact ⟨_, rfl⟩

theorem argon2_build_ok (y : Ty) (v t m p : Nat) (hm : m < 2 ^ 32) (h : ValidArgon2Build v t p) :
    (Params.def (tyOf y)).build v t m p = some (.ok (builtParams y v t m p)) :=
  build_ok y v t m p h.1 h.2.1 h.2.2.1 h.2.2.2 hm

/-! ### `argon2_at` / `argon2::<T>`: the tag length -/

/-- an empty tag buffer is refused for EVERY parameter set and input (the panic is BLAKE2b's `ContextDyn::new(0)`
    inside `hprime`, reached only after the whole memory has been filled; nothing is returned) -/
theorem argon2_at_zero_refused (params : Params) (pwd salt key aad : Bytes) :
    argon2_at params pwd salt key aad 0 = none := by
  unfold argon2_at
  cases H0.new params pwd salt key aad (0 % 2 ^ 32) with
  | none => rfl
  | some h0 =>
    simp only []
    cases Memory.new params with
    | none => rfl
    | some mem =>
      simp only []
      unfold process
      cases process_init h0 (List.range params.parallelism) mem with
      | none => rfl
      | some m1 =>
        simp only []
        cases process_fill params (process_positions params) m1 with
        | none => rfl
        | some m2 =>
          simp only []
          cases (subU m2.stride 1).bind m2.block_index with
          | none => rfl
          | some b =>
            simp only []
            cases process_final m2 (List.range' 1 (params.parallelism - 1)) b with
            | none => rfl
            | some b2 => exact hprime_zero _

/-- **decision for the tag length**: for parameters built by the builder inside the RFC's geometry (1 ≤ p, 8p ≤ m < 2^32)
    and inputs whose lengths fit the 32-bit length fields, `argon2_at` refuses iff the tag buffer is empty.
    T = 1, 2, 3 (below RFC 9106's minimum of 4) are ACCEPTED: documented-unchecked range of C20. -/
theorem argon2_at_none_iff (c : Spec.Argon2.Params) (params : Params) (hc : Corr params c)
    (hp : 1 ≤ c.p) (hm : 8 * c.p ≤ c.m) (hm2 : c.m < 2 ^ 32) (hT2 : c.T < 2 ^ 32)
    (pwd salt key aad : Bytes) (hP : pwd.length < 2 ^ 32) (hS : salt.length < 2 ^ 32) (hK : key.length < 2 ^ 32)
    (hX : aad.length < 2 ^ 32) :
    argon2_at params pwd salt key aad c.T = none ↔ c.T = 0 := by
  constructor
  · intro h
    by_cases hT : c.T = 0
    · exact hT
    · exfalso
      unfold argon2_at at h
      rw [Cx.Props.C11.H0_layout params c hc pwd salt key aad hP hS hK hX hT2] at h
      simp only [] at h
      rw [memory_new_eq c params hc ⟨hp, hm, hm2⟩] at h
      simp only [] at h
      rw [process_eq c params hc ⟨hp, hm, hm2⟩ _ c.T (by omega) hT2] at h
      cases h
  · intro h; rw [h]; exact argon2_at_zero_refused params pwd salt key aad

/-! ### X25519 `TryFrom<&[u8]>` -/

theorem x25519_tryfrom_none_iff (v : Bytes) : Impl.X25519.tryFrom v = none ↔ v.length ≠ 32 := by
  unfold Impl.X25519.tryFrom; split <;> simp [*]

theorem x25519_tryfrom_ok (v : Bytes) (h : v.length = 32) : Impl.X25519.tryFrom v = some v := by
  unfold Impl.X25519.tryFrom; rw [if_pos h]

end Cx.Proofs.Refusal
