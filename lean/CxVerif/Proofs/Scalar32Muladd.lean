/-
  Proofs.Scalar32Muladd — ref10 `sc_muladd` as modelled by `Impl.Scalar32.muladd`: for ANY three 32-byte strings
  a, b, c the 36 loads denote the radix-2^21 digits (top digit < 2^25) of the little-endian integers, no checked i64
  operation of the 144 products, 23 column sums, 23 + 70 carries and 130 multiply-accumulates overflows
  (`muladd_limbs_spec`, Scalar32MuladdA), the result limbs are fully carried with value `(a·b + c) mod L` in `[0, L)`,
  and `pack` writes its 32 little-endian bytes.  (No reducedness assumption on `c` is needed.)
-/
import CxVerif.Proofs.Scalar32MuladdA
import CxVerif.Proofs.Scalar32Reduce
namespace Cx.Proofs.Scalar32
open Cx Cx.Impl.Scalar32
open Cx.Impl.Fe32 (shl64 shr wrap64 u8of u8or)
set_option exponentiation.threshold 600

/-- recomposition of a number below 2^256 from eleven 21-bit digits and the top digit -/
theorem lin12_digits (N : Nat) :
    lin12 ((N % 2^21 : Nat) : Int) ((N / 2^21 % 2^21 : Nat) : Int) ((N / 2^42 % 2^21 : Nat) : Int) ((N / 2^63 % 2^21 : Nat) : Int) ((N / 2^84 % 2^21 : Nat) : Int) ((N / 2^105 % 2^21 : Nat) : Int) ((N / 2^126 % 2^21 : Nat) : Int) ((N / 2^147 % 2^21 : Nat) : Int) ((N / 2^168 % 2^21 : Nat) : Int) ((N / 2^189 % 2^21 : Nat) : Int) ((N / 2^210 % 2^21 : Nat) : Int) ((N / 2^231 : Nat) : Int) = (N : Int) := by
  unfold lin12
  omega

theorem digits_bnd (N : Nat) (hN : N < 2^256) :
    (0 ≤ ((N % 2^21 : Nat) : Int) ∧ ((N % 2^21 : Nat) : Int) < 2^21) ∧ (0 ≤ ((N / 2^21 % 2^21 : Nat) : Int) ∧ ((N / 2^21 % 2^21 : Nat) : Int) < 2^21) ∧ (0 ≤ ((N / 2^42 % 2^21 : Nat) : Int) ∧ ((N / 2^42 % 2^21 : Nat) : Int) < 2^21) ∧ (0 ≤ ((N / 2^63 % 2^21 : Nat) : Int) ∧ ((N / 2^63 % 2^21 : Nat) : Int) < 2^21) ∧ (0 ≤ ((N / 2^84 % 2^21 : Nat) : Int) ∧ ((N / 2^84 % 2^21 : Nat) : Int) < 2^21) ∧ (0 ≤ ((N / 2^105 % 2^21 : Nat) : Int) ∧ ((N / 2^105 % 2^21 : Nat) : Int) < 2^21) ∧ (0 ≤ ((N / 2^126 % 2^21 : Nat) : Int) ∧ ((N / 2^126 % 2^21 : Nat) : Int) < 2^21) ∧ (0 ≤ ((N / 2^147 % 2^21 : Nat) : Int) ∧ ((N / 2^147 % 2^21 : Nat) : Int) < 2^21) ∧ (0 ≤ ((N / 2^168 % 2^21 : Nat) : Int) ∧ ((N / 2^168 % 2^21 : Nat) : Int) < 2^21) ∧ (0 ≤ ((N / 2^189 % 2^21 : Nat) : Int) ∧ ((N / 2^189 % 2^21 : Nat) : Int) < 2^21) ∧ (0 ≤ ((N / 2^210 % 2^21 : Nat) : Int) ∧ ((N / 2^210 % 2^21 : Nat) : Int) < 2^21) ∧ (0 ≤ ((N / 2^231 : Nat) : Int) ∧ ((N / 2^231 : Nat) : Int) < 2^25) := by
  omega

/-- **sc_muladd**: for all 32-byte strings a, b, c: no overflow, and the result bytes are the 32-byte little-endian
    encoding of `(le(a)·le(b) + le(c)) mod L` -/
theorem muladd_spec (a b c : Vector UInt8 32) :
    (muladd a b c).map to_bytes
      = some (Spec.ScalarL.encode (Spec.ScalarL.muladd (Spec.ScalarL.decode a.toList) (Spec.ScalarL.decode b.toList)
          (Spec.ScalarL.decode c.toList))) := by
  unfold muladd Spec.ScalarL.muladd Spec.ScalarL.encode Spec.ScalarL.decode
  simp only [load_3_val, load_4_val]
  have hA : leNat a.toList < 2^256 := by
    have := Cx.Proofs.Scalar64.leNat_lt a.toList
    simpa using this
  have hB : leNat b.toList < 2^256 := by
    have := Cx.Proofs.Scalar64.leNat_lt b.toList
    simpa using this
  have hC : leNat c.toList < 2^256 := by
    have := Cx.Proofs.Scalar64.leNat_lt c.toList
    simpa using this
  generalize leNat a.toList = A at hA ⊢
  generalize leNat b.toList = B at hB ⊢
  generalize leNat c.toList = C at hC ⊢
  rw [wlimb0 A, wlimb1 A, wlimb2 A, wlimb3 A, wlimb4 A, wlimb5 A, wlimb6 A, wlimb7 A, wlimb8 A, wlimb9 A, wlimb10 A, nlimb11 A hA]
  rw [wlimb0 B, wlimb1 B, wlimb2 B, wlimb3 B, wlimb4 B, wlimb5 B, wlimb6 B, wlimb7 B, wlimb8 B, wlimb9 B, wlimb10 B, nlimb11 B hB]
  rw [wlimb0 C, wlimb1 C, wlimb2 C, wlimb3 C, wlimb4 C, wlimb5 C, wlimb6 C, wlimb7 C, wlimb8 C, wlimb9 C, wlimb10 C, nlimb11 C hC]
  obtain ⟨t, q, ht, hd, hv, hr⟩ := muladd_limbs_spec ((A % 2^21 : Nat) : Int) ((A / 2^21 % 2^21 : Nat) : Int) ((A / 2^42 % 2^21 : Nat) : Int) ((A / 2^63 % 2^21 : Nat) : Int) ((A / 2^84 % 2^21 : Nat) : Int) ((A / 2^105 % 2^21 : Nat) : Int) ((A / 2^126 % 2^21 : Nat) : Int) ((A / 2^147 % 2^21 : Nat) : Int) ((A / 2^168 % 2^21 : Nat) : Int) ((A / 2^189 % 2^21 : Nat) : Int) ((A / 2^210 % 2^21 : Nat) : Int) ((A / 2^231 : Nat) : Int)
    ((B % 2^21 : Nat) : Int) ((B / 2^21 % 2^21 : Nat) : Int) ((B / 2^42 % 2^21 : Nat) : Int) ((B / 2^63 % 2^21 : Nat) : Int) ((B / 2^84 % 2^21 : Nat) : Int) ((B / 2^105 % 2^21 : Nat) : Int) ((B / 2^126 % 2^21 : Nat) : Int) ((B / 2^147 % 2^21 : Nat) : Int) ((B / 2^168 % 2^21 : Nat) : Int) ((B / 2^189 % 2^21 : Nat) : Int) ((B / 2^210 % 2^21 : Nat) : Int) ((B / 2^231 : Nat) : Int)
    ((C % 2^21 : Nat) : Int) ((C / 2^21 % 2^21 : Nat) : Int) ((C / 2^42 % 2^21 : Nat) : Int) ((C / 2^63 % 2^21 : Nat) : Int) ((C / 2^84 % 2^21 : Nat) : Int) ((C / 2^105 % 2^21 : Nat) : Int) ((C / 2^126 % 2^21 : Nat) : Int) ((C / 2^147 % 2^21 : Nat) : Int) ((C / 2^168 % 2^21 : Nat) : Int) ((C / 2^189 % 2^21 : Nat) : Int) ((C / 2^210 % 2^21 : Nat) : Int) ((C / 2^231 : Nat) : Int)
    (digits_bnd A hA) (digits_bnd B hB) (digits_bnd C hC)
  rw [lin12_digits, lin12_digits, lin12_digits] at hv
  rw [ht]
  simp only [Cx.Proofs.Fe32.some_bind, Cx.Proofs.Fe32.pure_eq_some, Option.map_some]
  unfold to_bytes
  have hv' : val12 t = ((A * B + C : Nat) : Int) - LI * q := by
    rw [hv]; push_cast; rfl
  rw [pack_spec t hd, val12_eq_mod _ q (A * B + C) hv' hr]

end Cx.Proofs.Scalar32
