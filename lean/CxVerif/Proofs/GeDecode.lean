/-
  Proofs.GeDecode — `Ge::from_bytes` (point decompression, ge.rs) refines `Spec.Edwards.decode`
  (RFC 8032 §5.1.3 as implemented: y reduced mod p, x = 0 tolerated with either sign bit):
  the chain  y = Fe::from_bytes(s), u = y²−1, v = d·y²+1, x = u·v³·(u·v⁷)^((p−5)/8), the two `is_nonzero`
  tests on v·x² ∓ u, the multiplication by SQRTM1, the sign fix-up and `from_affine` never panic, reject exactly
  the strings the Spec rejects and otherwise return a Tight extended representation of the decoded point, which
  lies on the curve.  This discharges the interface `DecodeFact` of Proofs/Ed25519Verify.lean.
-/
import CxVerif.Proofs.Ed25519Verify
import CxVerif.Proofs.Fe64FromBytes
namespace Cx.Proofs.GeDecode
open Cx Cx.Spec Cx.Impl.Fe64 Cx.Impl.Ge Cx.Proofs.EdField Cx.Proofs.EdSpec Cx.Proofs.GeRefine
  Cx.Proofs.Ed25519Verify
open Cx.Proofs.Fe64 (eval Tight Loose SubOk Pub Bnd some_bind pure_eq_some)
open Cx.Spec.Field25519 (p)

set_option maxRecDepth 10000

/-! ### the sign bit -/

theorem shr7_ne_zero (x : UInt8) : ((x >>> 7) != 0) = (x.toNat / 128 % 2 == 1) := by
  have hx := x.toNat_lt
  have h1 : (x >>> 7).toNat = x.toNat / 128 := by
    rw [UInt8.toNat_shiftRight]
    show x.toNat >>> 7 = _
    rw [Nat.shiftRight_eq_div_pow]
  by_cases h : x.toNat / 128 = 0
  · have : x >>> 7 = 0 := by
      apply UInt8.toNat_inj.1; rw [h1, h]; rfl
    rw [this, h]; rfl
  · have hne : x >>> 7 ≠ 0 := by
      intro e; apply h; rw [← h1, e]; rfl
    have h2 : x.toNat / 128 = 1 := by omega
    rw [h2]
    simpa using hne

/-- `(s[31] >> 7) != 0` is bit 255 of the little-endian value -/
theorem signbit_eq (s : Bytes) (h : s.length = 32) :
    (((s[31]'(by omega)) >>> 7) != 0) = (leNat s / 2 ^ 255 % 2 == 1) := by
  have hsplit : s = s.take 31 ++ [s[31]'(by omega)] := by
    have h1 : s = s.take 31 ++ s.drop 31 := (List.take_append_drop 31 s).symm
    have h2 : s.drop 31 = [s[31]'(by omega)] := by
      apply List.ext_getElem?
      intro i
      rw [List.getElem?_drop]
      cases i with
      | zero => simp
      | succ i => simp; omega
    rw [h2] at h1; exact h1
  rw [shr7_ne_zero]
  generalize s[31]'(by omega) = x at hsplit
  have h31 : (s.take 31).length = 31 := by simp [h]
  have hlt := Ed25519Sign.leNat_lt (s.take 31)
  rw [h31] at hlt
  have hv : leNat s = leNat (s.take 31) + 256 ^ 31 * x.toNat := by
    conv_lhs => rw [hsplit]
    rw [Ed25519Sign.leNat_append, h31]
    simp [leNat]
  have e : (2 : Nat) ^ 255 = 256 ^ 31 * 128 := by decide
  have : leNat s / 2 ^ 255 = x.toNat / 128 := by
    rw [hv, e, ← Nat.div_div_eq_div_mul, Nat.add_mul_div_left _ _ (by decide),
      Nat.div_eq_of_lt hlt, Nat.zero_add]
  rw [this]

/-! ### field facts on reduced naturals -/

theorem mul_rearr (a b c : Nat) :
    Field25519.mul (Field25519.mul a b) c = Field25519.mul (Field25519.mul c b) a := by
  rw [← cast_inj (mul_lt _ _) (mul_lt _ _)]
  simp only [cast_mul]; ring

theorem isNonzero_sub (a b : Nat) (ha : a < p) :
    Field25519.isNonzero (Field25519.sub a b) = !decide (a = b % p) := by
  unfold Field25519.isNonzero
  rw [Nat.mod_eq_of_lt (sub_lt _ _)]
  have key : Field25519.sub a b = 0 ↔ a = b % p := by
    rw [← cast_eq_zero (sub_lt _ _), cast_sub, sub_eq_zero, ← cast_mod b,
      cast_inj ha (Nat.mod_lt _ p_pos)]
  by_cases h : a = b % p
  · rw [key.2 h]; simp [h]
  · have : Field25519.sub a b ≠ 0 := fun e => h (key.1 e)
    simp [h, this]

theorem isNonzero_add (a b : Nat) (ha : a < p) :
    Field25519.isNonzero (Field25519.add a b) = !decide (a = Field25519.neg b) := by
  unfold Field25519.isNonzero
  rw [Nat.mod_eq_of_lt (add_lt _ _)]
  have key : Field25519.add a b = 0 ↔ a = Field25519.neg b := by
    rw [← cast_eq_zero (add_lt _ _), cast_add, ← cast_inj ha (neg_lt _), cast_neg]
    constructor
    · intro h; exact eq_neg_of_add_eq_zero_left h
    · intro h; rw [h]; ring
  by_cases h : a = Field25519.neg b
  · rw [key.2 h]; simp [h]
  · have : Field25519.add a b ≠ 0 := fun e => h (key.1 e)
    simp [h, this]

/-! ### the decompression chain -/

local infixl:65 " +ₚ " => Field25519.add
local infixl:65 " -ₚ " => Field25519.sub
local infixl:70 " *ₚ " => Field25519.mul

/-- the sign fix-up at the end of `GeAffine::from_bytes` -/
def finishSign (y : Fe) (signbit : Bool) (x : Fe) : Option (Option GeAffine) := do
  let n ← is_negative x
  let x ← if n != signbit then negate_mut x else pure x
  pure (some ⟨x, y⟩)

/-- the body of `GeAffine::from_bytes` after `y = Fe::from_bytes(s)` and with the sign bit read -/
def decompress (y : Fe) (signbit : Bool) : Option (Option GeAffine) := do
  let y2 ← square y
  let u ← sub y2 Fe.ONE
  let yd ← mul y2 Fe.D
  let v ← add yd Fe.ONE
  let vv ← square v
  let v3 ← mul vv v
  let v3v3 ← square v3
  let v7 ← mul v3v3 v
  let uv7 ← mul v7 u
  let pw ← pow25523 uv7
  let pv ← mul pw v3
  let x ← mul pv u
  let xx ← square x
  let vxx ← mul xx v
  let check ← sub vxx u
  if (← is_nonzero check) then
    let check2 ← add vxx u
    if (← is_nonzero check2) then pure none
    else
      let x ← mul x Fe.SQRTM1
      finishSign y signbit x
  else finishSign y signbit x

/-- `GeAffine::from_bytes` is `decompress` of the decoded field element and bit 255 (by unfolding) -/
theorem from_bytes_eq (s : Bytes) (h : s.length = 32) :
    GeAffine.from_bytes s = decompress (from_bytes s h) (leNat s / 2 ^ 255 % 2 == 1) := by
  rw [← signbit_eq s h]
  simp only [GeAffine.from_bytes, dif_pos h]
  rfl

/-- `Spec.Edwards.recoverX`, verbatim.  (Stated as an equation of FUNCTIONS so that the kernel checks it by unfolding
    the left-hand side once; in an applied form it would weak-head-normalise the `match` on the square-root test,
    i.e. try to evaluate a symbolic `a^((p−5)/8)`.  For the same reason everything below manipulates `recoverX`
    by rewriting with equations only, never by `unfold`/`show`.) -/
theorem recoverX_fun : Edwards.recoverX = fun (y : Nat) (sign : Bool) =>
  (let y2 := y *ₚ y
  let u := y2 -ₚ 1
  let v := Edwards.d *ₚ y2 +ₚ 1
  let v3 := (v *ₚ v) *ₚ v
  let v7 := (v3 *ₚ v3) *ₚ v
  let x := (u *ₚ v3) *ₚ Field25519.pow25523 (u *ₚ v7)
  let vxx := v *ₚ (x *ₚ x)
  let root : Option Nat :=
    if vxx = u % Edwards.p then some x
    else if vxx = Field25519.neg u then some (x *ₚ Field25519.sqrtM1)
    else none
  match root with
  | none => none
  | some x => if (x % 2 == 1) != sign then some (Field25519.neg x) else some x) := rfl

/-- the final selection of the root with the requested parity -/
def fixS (sign : Bool) (x : Nat) : Option Nat :=
  if (x % 2 == 1) != sign then some (Field25519.neg x) else some x

theorem fixS_pos (sign : Bool) (x : Nat) (h : ((x % 2 == 1) != sign) = true) :
    fixS sign x = some (Field25519.neg x) := by unfold fixS; rw [if_pos h]
theorem fixS_neg (sign : Bool) (x : Nat) (h : ¬ ((x % 2 == 1) != sign) = true) :
    fixS sign x = some x := by unfold fixS; rw [if_neg h]

/-- `recoverX` with its intermediate values named -/
theorem recoverX_eq (y : Nat) (sign : Bool) (u v x vxx : Nat)
    (hu : u = (y *ₚ y) -ₚ 1) (hv : v = Edwards.d *ₚ (y *ₚ y) +ₚ 1)
    (hx : x = (u *ₚ ((v *ₚ v) *ₚ v)) *ₚ
      Field25519.pow25523 (u *ₚ ((((v *ₚ v) *ₚ v) *ₚ ((v *ₚ v) *ₚ v)) *ₚ v)))
    (hvxx : vxx = v *ₚ (x *ₚ x)) :
    Edwards.recoverX y sign =
      if vxx = u % p then fixS sign x
      else if vxx = Field25519.neg u then fixS sign (x *ₚ Field25519.sqrtM1) else none := by
  rw [recoverX_fun]
  simp only []
  rw [← hu, ← hv, ← hx, ← hvxx]
  by_cases h1 : vxx = u % p
  · have h1' : vxx = u % Edwards.p := h1
    rw [if_pos h1, if_pos h1']
    rfl
  · have h1' : ¬ vxx = u % Edwards.p := h1
    rw [if_neg h1, if_neg h1']
    by_cases h2 : vxx = Field25519.neg u
    · rw [if_pos h2, if_pos h2]; rfl
    · rw [if_neg h2, if_neg h2]

/-- the sign fix-up selects the root `fixS` selects -/
theorem finish_ok (xfe yfe : Fe) (tx : Tight xfe) (sign : Bool) :
    ∃ xfe', finishSign yfe sign xfe = some (some ⟨xfe', yfe⟩) ∧ Tight xfe' ∧
      fixS sign (eval xfe) = some (eval xfe') ∧
      (eval xfe' = eval xfe ∨ eval xfe' = Field25519.neg (eval xfe)) := by
  unfold finishSign
  rw [Proofs.Fe64.is_negative_spec xfe tx.loose, some_bind]
  unfold Field25519.isNegative
  rw [Proofs.Fe64.eval_mod]
  by_cases hc : ((eval xfe % 2 == 1) != sign) = true
  · rw [if_pos hc, fixS_pos _ _ hc]
    obtain ⟨x', e, tx', vx'⟩ := Proofs.Fe64.negate_mut_spec xfe tx.subOk
    rw [e, some_bind]
    exact ⟨x', rfl, tx', by rw [vx'], Or.inr vx'⟩
  · rw [if_neg hc, fixS_neg _ _ hc]
    exact ⟨xfe, rfl, tx, rfl, Or.inl rfl⟩

/-- `Spec.Edwards.decode` of a 32-byte string, with the field decoding and the sign bit named -/
theorem decode_eq (s : Bytes) (h : s.length = 32) :
    Edwards.decode s = (Edwards.recoverX (Field25519.decode s) (leNat s / 2 ^ 255 % 2 == 1)).map
      fun x => ⟨x, Field25519.decode s⟩ := by
  unfold Edwards.decode
  rw [if_pos h]
  rfl

variable [hp : Fact (Nat.Prime p)]

theorem onCurve_of {d X Y : Fp} (h : (d * (Y * Y) + 1) * (X * X) = Y * Y - 1) : EdAlg.OnCurve d X Y := by
  unfold EdAlg.OnCurve; linear_combination -h

theorem onCurve_neg {d X Y : Fp} (h : EdAlg.OnCurve d X Y) : EdAlg.OnCurve d (-X) Y := by
  unfold EdAlg.OnCurve at *; linear_combination h

/-- what `decompress` has to deliver for the Spec result `r` -/
def Refines (yfe : Fe) (sign : Bool) (r : Option Nat) : Prop :=
  (r = none → decompress yfe sign = some none) ∧
  (∀ x, r = some x → x < p ∧ EdAlg.OnCurve dF (x : Fp) ((eval yfe : Nat) : Fp) ∧
    ∃ xfe, decompress yfe sign = some (some ⟨xfe, yfe⟩) ∧ Tight xfe ∧ eval xfe = x)

/-- both roots of a curve abscissa give curve points; closing step shared by the two accepting branches -/
theorem refines_some (yfe : Fe) (sign : Bool) (x0 xf : Fe) (tf : Tight xf)
    (hd : decompress yfe sign = some (some ⟨xf, yfe⟩))
    (hc : EdAlg.OnCurve dF ((eval x0 : Nat) : Fp) ((eval yfe : Nat) : Fp))
    (hor : eval xf = eval x0 ∨ eval xf = Field25519.neg (eval x0)) :
    Refines yfe sign (some (eval xf)) := by
  refine ⟨fun h => (by cases h), ?_⟩
  intro x hx
  have hx' : eval xf = x := Option.some.inj hx
  subst hx'
  refine ⟨Proofs.Fe64.eval_lt xf, ?_, xf, hd, tf, rfl⟩
  rcases hor with h | h
  · rw [h]; exact hc
  · rw [h, cast_neg]; exact onCurve_neg hc

theorem core (yfe : Fe) (ty : Tight yfe) (sign : Bool) :
    Refines yfe sign (Edwards.recoverX (eval yfe) sign) := by
  obtain ⟨y2, e1, t2, v2⟩ := Proofs.Fe64.square_spec _ ty.loose
  obtain ⟨u, e2, tu, vu⟩ := Proofs.Fe64.sub_spec y2 Fe.ONE t2.loose tight_ONE.subOk
  obtain ⟨yd, e3, tyd, vyd⟩ := Proofs.Fe64.mul_spec y2 Fe.D t2.loose tight_D.loose
  obtain ⟨v, e4, tv, vv⟩ := Proofs.Fe64.add_spec yd Fe.ONE tyd.loose tight_ONE.loose
  obtain ⟨vsq, e5, tvsq, vvsq⟩ := Proofs.Fe64.square_spec v tv.loose
  obtain ⟨v3, e6, tv3, vv3⟩ := Proofs.Fe64.mul_spec vsq v tvsq.loose tv.loose
  obtain ⟨v3v3, e7, tv3v3, vv3v3⟩ := Proofs.Fe64.square_spec v3 tv3.loose
  obtain ⟨v7, e8, tv7, vv7⟩ := Proofs.Fe64.mul_spec v3v3 v tv3v3.loose tv.loose
  obtain ⟨uv7, e9, tuv7, vuv7⟩ := Proofs.Fe64.mul_spec v7 u tv7.loose tu.loose
  obtain ⟨pw, e10, tpw, vpw⟩ := Proofs.Fe64.pow25523_spec uv7 tuv7.loose
  obtain ⟨pv, e11, tpv, vpv⟩ := Proofs.Fe64.mul_spec pw v3 tpw.loose tv3.loose
  obtain ⟨x, e12, tx, vx⟩ := Proofs.Fe64.mul_spec pv u tpv.loose tu.loose
  obtain ⟨xx, e13, txx, vxx'⟩ := Proofs.Fe64.square_spec x tx.loose
  obtain ⟨vxx, e14, tvxx, vvxx⟩ := Proofs.Fe64.mul_spec xx v txx.loose tv.loose
  obtain ⟨check, e15, tcheck, vcheck⟩ := Proofs.Fe64.sub_spec vxx u tvxx.loose tu.subOk
  -- the common prefix of the code, up to the first test
  have hpre : decompress yfe sign =
      (if Field25519.isNonzero (eval check) = true then do
        let check2 ← add vxx u
        if (← is_nonzero check2) then pure none
        else
          let x ← mul x Fe.SQRTM1
          finishSign yfe sign x
      else finishSign yfe sign x) := by
    simp only [decompress]
    rw [e1, some_bind, e2, some_bind, e3, some_bind, e4, some_bind, e5, some_bind, e6, some_bind, e7, some_bind,
      e8, some_bind, e9, some_bind, e10, some_bind, e11, some_bind, e12, some_bind, e13, some_bind, e14, some_bind,
      e15, some_bind, Proofs.Fe64.is_nonzero_spec check tcheck.loose, some_bind]
  -- the Nat values, in the shape of the Spec
  have hy2 : eval y2 = eval yfe *ₚ eval yfe := by rw [v2]; rfl
  have hu : eval u = (eval yfe *ₚ eval yfe) -ₚ 1 := by rw [vu, hy2, Proofs.Fe64.ONE_spec.2]
  have hv : eval v = Edwards.d *ₚ (eval yfe *ₚ eval yfe) +ₚ 1 := by
    rw [vv, vyd, hy2, Proofs.Fe64.ONE_spec.2, Proofs.Fe64.D_spec.2, fmul_comm]; rfl
  have hv3 : eval v3 = (eval v *ₚ eval v) *ₚ eval v := by rw [vv3, vvsq]; rfl
  have hv7 : eval v7 = (eval v3 *ₚ eval v3) *ₚ eval v := by rw [vv7, vv3v3]; rfl
  have hx : eval x = (eval u *ₚ eval v3) *ₚ Field25519.pow25523 (eval u *ₚ eval v7) := by
    rw [vx, vpv, vpw, vuv7, mul_rearr, fmul_comm (eval v7)]
  have hvxx : eval vxx = eval v *ₚ (eval x *ₚ eval x) := by rw [vvxx, vxx', fmul_comm]; rfl
  rw [hv7, hv3] at hx
  rw [recoverX_eq (eval yfe) sign (eval u) (eval v) (eval x) (eval vxx) hu hv hx hvxx]
  -- field view
  have cu : ((eval u : Nat) : Fp) = (eval yfe : Fp) * (eval yfe : Fp) - 1 := by
    rw [hu, cast_sub, cast_mul, Nat.cast_one]
  have cv : ((eval v : Nat) : Fp) = dF * ((eval yfe : Fp) * (eval yfe : Fp)) + 1 := by
    rw [hv, cast_add, cast_mul, cast_mul, Nat.cast_one]; rfl
  have cvxx : ((eval vxx : Nat) : Fp) = (eval v : Fp) * ((eval x : Fp) * (eval x : Fp)) := by
    rw [hvxx, cast_mul, cast_mul]
  rw [vcheck, isNonzero_sub _ _ (Proofs.Fe64.eval_lt vxx)] at hpre
  by_cases h1 : eval vxx = eval u % p
  · rw [if_pos h1]
    obtain ⟨xf, ef, tf, hfix, hor⟩ := finish_ok x yfe tx sign
    rw [hfix]
    have hd : decompress yfe sign = some (some ⟨xf, yfe⟩) := by
      rw [hpre, ← ef]
      simp only [h1, decide_true, Bool.not_true, Bool.false_eq_true, if_false]
    refine refines_some yfe sign x xf tf hd ?_ hor
    apply onCurve_of
    rw [← cv, ← cvxx, ← cu, h1, cast_mod]
  · rw [if_neg h1]
    have hpre2 : decompress yfe sign = (do
        let check2 ← add vxx u
        if (← is_nonzero check2) then pure none
        else
          let x ← mul x Fe.SQRTM1
          finishSign yfe sign x) := by
      rw [hpre]
      simp only [h1, decide_false, Bool.not_false, if_true]
    obtain ⟨check2, e16, tcheck2, vcheck2⟩ := Proofs.Fe64.add_spec vxx u tvxx.loose tu.loose
    rw [e16, some_bind, Proofs.Fe64.is_nonzero_spec check2 tcheck2.loose, some_bind, vcheck2,
      isNonzero_add _ _ (Proofs.Fe64.eval_lt vxx)] at hpre2
    by_cases h2 : eval vxx = Field25519.neg (eval u)
    · rw [if_pos h2]
      obtain ⟨x1, e17, tx1, vx1⟩ := Proofs.Fe64.mul_spec x Fe.SQRTM1 tx.loose
        (Proofs.Fe64.bnd51_tight Proofs.Fe64.SQRTM1_spec.1).loose
      rw [Proofs.Fe64.SQRTM1_spec.2] at vx1
      obtain ⟨xf, ef, tf, hfix, hor⟩ := finish_ok x1 yfe tx1 sign
      rw [← vx1, hfix]
      have hd : decompress yfe sign = some (some ⟨xf, yfe⟩) := by
        rw [hpre2, ← ef]
        simp only [h2, decide_true, Bool.not_true, Bool.false_eq_true, if_false]
        rw [e17, some_bind]
      refine refines_some yfe sign x1 xf tf hd ?_ hor
      apply onCurve_of
      have h2' := congrArg (fun n : Nat => (n : Fp)) h2
      simp only [cast_neg] at h2'
      rw [cvxx] at h2'
      rw [vx1, cast_mul, ← cv]
      have hi := sqrtM1_sq
      linear_combination (-1 : Fp) * h2' + ((eval v : Fp) * ((eval x : Fp) * (eval x : Fp))) * hi + cu
    · rw [if_neg h2]
      refine ⟨fun _ => ?_, fun x hx => (by cases hx)⟩
      rw [hpre2]
      simp only [h2, decide_false, Bool.not_false, if_true]
      rfl

/-- **`Ge::from_bytes` refines `Spec.Edwards.decode`** — the interface `DecodeFact` of the `verify` theorem -/
theorem decodeFact : DecodeFact := by
  intro s h
  have hc := core (from_bytes s h) (Proofs.Fe64.from_bytes_tight s h) (leNat s / 2 ^ 255 % 2 == 1)
  rw [Proofs.Fe64.from_bytes_eval s h] at hc
  obtain ⟨hnone, hsome⟩ := hc
  rw [← from_bytes_eq s h] at hnone
  rw [decode_eq s h]
  cases hr : Edwards.recoverX (Field25519.decode s) (leNat s / 2 ^ 255 % 2 == 1) with
  | none =>
    show Ge.from_bytes s = some none
    unfold Ge.from_bytes
    rw [hnone hr]
  | some x =>
    show OnCurve ⟨x, Field25519.decode s⟩ ∧ ∃ g, Ge.from_bytes s = some (some g) ∧ GeOk g ⟨x, Field25519.decode s⟩
    obtain ⟨hx, hcv, xfe, hd, tx, vx⟩ := hsome x hr
    rw [← from_bytes_eq s h] at hd
    have ty := Proofs.Fe64.from_bytes_tight s h
    have vy := Proofs.Fe64.from_bytes_eval s h
    rw [vy] at hcv
    refine ⟨(onCurve_iff _).2 ⟨hx, ?_, hcv⟩, ?_⟩
    · rw [← vy]; exact Proofs.Fe64.eval_lt _
    · obtain ⟨t, et, tt, vt⟩ := mul_ok xfe (from_bytes s h) tx.loose ty.loose
      refine ⟨⟨xfe, from_bytes s h, Fe.ONE, t⟩, ?_, tx, ty, tight_ONE, tt, ?_⟩
      · unfold Ge.from_bytes
        rw [hd]
        simp only [Ge.from_affine]
        rw [et, some_bind]
        rfl
      · show EdAlg.RepExt (ev xfe) (ev (from_bytes s h)) (ev Fe.ONE) (ev t) ((x : Nat) : Fp)
          ((Field25519.decode s : Nat) : Fp)
        rw [vt, ev_ONE, ← vx, ← vy]
        exact EdAlg.from_affine _ _

end Cx.Proofs.GeDecode
