/-
  Proofs.KdfScrypt — decision logic of `ScryptParams::new` (Impl.Kdf) against the parameter constraints of RFC 7914
  (Spec.Kdf.scryptValid), for every (log_n, r, p).  Core Lean only.
-/
import CxVerif.Impl.Kdf
import CxVerif.Spec.Kdf
namespace Cx.Proofs.KdfScrypt
open Cx Cx.Impl.Kdf

/-- what the chain of `assert!`s and `checked_mul`s of `ScryptParams::new` accepts (usize = 64 bits) -/
theorem new_iff (log_n r p : Nat) :
    (ScryptParams.new log_n r p).isSome ↔
      (0 < r ∧ 0 < p ∧ 0 < log_n ∧ log_n < 64 ∧ r * 128 < 2 ^ 64 ∧ r * 128 * 2 ^ log_n < 2 ^ 64 ∧ r * 128 * p < 2 ^ 64 ∧
        log_n < r * 16 ∧ r * p < 2 ^ 30) := by
  unfold ScryptParams.new checked_mul USIZE_BITS
  simp only [Nat.one_shiftLeft]
  by_cases h1 : r > 0 <;> by_cases h2 : p > 0 <;> by_cases h3 : log_n > 0 <;> by_cases h4 : log_n < 64 <;>
    by_cases h5 : r * 128 < 2 ^ 64 <;> by_cases h6 : r * 128 * 2 ^ log_n < 2 ^ 64 <;>
    by_cases h7 : r * 128 * p < 2 ^ 64 <;> by_cases h8 : log_n < r * 16 <;> by_cases h9 : r * p < 0x40000000 <;>
    simp [h1, h2, h3, h4, h5, h6, h7, h8, h9] <;> omega

/-- `isPow2` recognises the powers of two -/

theorem isPow2_pow (k : Nat) : Spec.Kdf.isPow2 (2 ^ k) = true := by
  simp only [Spec.Kdf.isPow2, Bool.and_eq_true, decide_eq_true_eq, List.any_eq_true, List.mem_range, beq_iff_eq]
  exact ⟨Nat.two_pow_pos k, k, by rw [Nat.log2_two_pow]; omega, rfl⟩

theorem valid_iff (k r p dkLen : Nat) :
    Spec.Kdf.scryptValid (2 ^ k) r p dkLen = true ↔
      (1 ≤ k ∧ 0 < r ∧ k < 16 * r ∧ 0 < p ∧ r * p < 2 ^ 30 ∧ 0 < dkLen ∧ dkLen ≤ (2 ^ 32 - 1) * 32) := by
  simp only [Spec.Kdf.scryptValid, isPow2_pow, Nat.log2_two_pow, Bool.and_eq_true, decide_eq_true_eq, Bool.and_true]
  have h1 : 2 ^ k > 1 ↔ 1 ≤ k := by
    constructor
    · intro h; cases k with
      | zero => simp at h
      | succ k => omega
    · intro h; exact Nat.one_lt_two_pow (by omega)
  by_cases hr : 0 < r
  · have h2 : p ≤ (2 ^ 32 - 1) * 32 / (128 * r) ↔ r * p < 2 ^ 30 := by
      rw [Nat.le_div_iff_mul_le (by omega)]
      have : p * (128 * r) = 128 * (r * p) := by rw [Nat.mul_comm r p, Nat.mul_left_comm]
      rw [this]
      generalize r * p = x
      omega
    rw [h1, h2]
    constructor
    · rintro ⟨⟨⟨⟨⟨⟨a, b⟩, c⟩, d⟩, e⟩, f⟩, g⟩; exact ⟨a, b, by omega, d, e, f, g⟩
    · rintro ⟨a, b, c, d, e, f, g⟩; exact ⟨⟨⟨⟨⟨⟨a, b⟩, by omega⟩, d⟩, e⟩, f⟩, g⟩
  · constructor
    · rintro ⟨⟨⟨⟨⟨⟨a, b⟩, c⟩, d⟩, e⟩, f⟩, g⟩; exact absurd b hr
    · rintro ⟨a, b, c, d, e, f, g⟩; exact absurd b hr

end Cx.Proofs.KdfScrypt
