/-
  Proofs.GlueSimdBlake2Avx2 — `avx2::compress_b` / `compress_b_avx2` (BLAKE2b on four `__m256i` rows) of the generated
  Extracted/GlueSimd.lean (namespace Blake2Avx2) against `Impl.SimdBlake2.Avx2B`: see Proofs/GlueSimdBlake2.lean for the scheme.
-/
import CxVerif.Proofs.GlueSimdBlake2AvxB
namespace Cx.Proofs.GlueSimdBlake2.Avx2I
open Cx Cx.Intrinsics Cx.Impl Cx.Impl.Simd Cx.Impl.SimdBlake2 Cx.Proofs.SimdBits Cx.Proofs.Keccak Cx.Proofs.SimdBlake2
open Cx.Extracted.GlueSimd Cx.Proofs.GlueSimdBlake2 Cx.Proofs.GlueSimd
open Cx.Impl.Blake2 (LastBlock)
open Cx.Spec.Blake2 (loadWords fromLE)
open Blake2Avx2
set_option linter.unusedSimpArgs false

/-- a generated `__m256i` as the model's four 64-bit lanes -/
def toQ (v : M256i) : V4x64 := ⟨join64 v.lo.d0 v.lo.d1, join64 v.lo.d2 v.lo.d3, join64 v.hi.d0 v.hi.d1, join64 v.hi.d2 v.hi.d3⟩

theorem toQ_halves (v : M256i) : toQ v = V4x64.ofHalves (to2 v.lo) (to2 v.hi) := rfl
theorem toQ_mk (a b : M128i) : toQ ⟨a, b⟩ = V4x64.ofHalves (to2 a) (to2 b) := rfl

theorem q_add (a b : M256i) : toQ (_mm256_add_epi64 a b) = (toQ a).add (toQ b) := by
  simp only [_mm256_add_epi64, M256i.lanewise2, toQ_mk, to2_add]; rfl
theorem q_xor (a b : M256i) : toQ (_mm256_xor_si256 a b) = (toQ a).xor (toQ b) := by
  simp only [_mm256_xor_si256, M256i.lanewise2, toQ_mk, to2_xor]; rfl
theorem to2_or (a b : M128i) : to2 (_mm_or_si128 a b) = (to2 a).or (to2 b) := by
  simp only [_mm_or_si128, M128i.zipWith, to2, join_or]; rfl
theorem q_or (a b : M256i) : toQ (_mm256_or_si256 a b) = (toQ a).or (toQ b) := by
  simp only [_mm256_or_si256, M256i.lanewise2, toQ_mk, to2_or]; rfl
theorem q_srli (a : M256i) (n : Nat) : toQ (_mm256_srli_epi64 a n) = (toQ a).srli n := by
  simp only [_mm256_srli_epi64, M256i.lanewise, toQ_mk, to2_srli]; rfl
theorem q_unpacklo (a b : M256i) : toQ (_mm256_unpacklo_epi64 a b) = V4x64.unpacklo_epi64 (toQ a) (toQ b) := rfl
theorem q_unpackhi (a b : M256i) : toQ (_mm256_unpackhi_epi64 a b) = V4x64.unpackhi_epi64 (toQ a) (toQ b) := rfl
theorem q_alignr8 (a b : M256i) : toQ (_mm256_alignr_epi8 a b 8) = V4x64.alignr_epi8 (toQ a) (toQ b) 8 := by
  simp only [_mm256_alignr_epi8, M256i.lanewise2, toQ_mk, to2_alignr8]; rfl
theorem q_shuffle78 (a : M256i) : toQ (_mm256_shuffle_epi32 a 78) = V4x64.shuffle_epi32 (toQ a) 78 := rfl
theorem q_blend240 (a b : M256i) : toQ (_mm256_blend_epi32 a b 240) = V4x64.blend_epi32 (toQ a) (toQ b) 240 := by
  obtain ⟨⟨a0, a1, a2, a3⟩, ⟨a4, a5, a6, a7⟩⟩ := a; obtain ⟨⟨b0, b1, b2, b3⟩, ⟨b4, b5, b6, b7⟩⟩ := b
  kernel_rfl
theorem q_blend51 (a b : M256i) : toQ (_mm256_blend_epi32 a b 51) = V4x64.blend_epi32 (toQ a) (toQ b) 51 := by
  obtain ⟨⟨a0, a1, a2, a3⟩, ⟨a4, a5, a6, a7⟩⟩ := a; obtain ⟨⟨b0, b1, b2, b3⟩, ⟨b4, b5, b6, b7⟩⟩ := b
  kernel_rfl
theorem q_permute (a : M256i) (imm : Nat) (h : imm = 147 ∨ imm = 78 ∨ imm = 57) :
    toQ (_mm256_permute4x64_epi64 a imm) = V4x64.permute4x64_epi64 (toQ a) imm := by
  obtain ⟨⟨a0, a1, a2, a3⟩, ⟨a4, a5, a6, a7⟩⟩ := a
  rcases h with h | h | h <;> subst h <;> rfl
theorem q_broadcast (a : M128i) : toQ (_mm256_broadcastsi128_si256 a) = V4x64.broadcastsi128 (to2 a) := rfl

/-! ### rotations -/
theorem rot16_dwords (a0 a1 a2 a3 b0 b1 b2 b3 : UInt32) : rot16_src ⟨⟨a0, a1, a2, a3⟩, ⟨b0, b1, b2, b3⟩⟩ =
    ⟨Blake2Avx.rotate16_epi64_src ⟨a0, a1, a2, a3⟩, Blake2Avx.rotate16_epi64_src ⟨b0, b1, b2, b3⟩⟩ := by kernel_rfl
theorem rot24_dwords (a0 a1 a2 a3 b0 b1 b2 b3 : UInt32) : rot24_src ⟨⟨a0, a1, a2, a3⟩, ⟨b0, b1, b2, b3⟩⟩ =
    ⟨Blake2Avx.rotate24_epi64_src ⟨a0, a1, a2, a3⟩, Blake2Avx.rotate24_epi64_src ⟨b0, b1, b2, b3⟩⟩ := by kernel_rfl
theorem rot32_dwords (a0 a1 a2 a3 b0 b1 b2 b3 : UInt32) : rot32_src ⟨⟨a0, a1, a2, a3⟩, ⟨b0, b1, b2, b3⟩⟩ =
    ⟨Blake2Avx.rotate32_epi64_src ⟨a0, a1, a2, a3⟩, Blake2Avx.rotate32_epi64_src ⟨b0, b1, b2, b3⟩⟩ := by kernel_rfl

theorem q_rot16 (v : M256i) : toQ (rot16_src v) = Avx2B.rot16 (toQ v) := by
  obtain ⟨⟨a0, a1, a2, a3⟩, ⟨b0, b1, b2, b3⟩⟩ := v
  rw [rot16_dwords, toQ_mk, to2_rotate16, to2_rotate16, avxb_rotate16, avxb_rotate16, avx2_rot16]; rfl
theorem q_rot24 (v : M256i) : toQ (rot24_src v) = Avx2B.rot24 (toQ v) := by
  obtain ⟨⟨a0, a1, a2, a3⟩, ⟨b0, b1, b2, b3⟩⟩ := v
  rw [rot24_dwords, toQ_mk, to2_rotate24, to2_rotate24, avxb_rotate24, avxb_rotate24, avx2_rot24]; rfl
theorem q_rot32 (v : M256i) : toQ (rot32_src v) = Avx2B.rot32 (toQ v) := by
  obtain ⟨⟨a0, a1, a2, a3⟩, ⟨b0, b1, b2, b3⟩⟩ := v
  rw [rot32_dwords, toQ_mk, to2_rotate32, to2_rotate32, avxb_rotate32, avxb_rotate32, avx2_rot32]; rfl
theorem q_rot63 (v : M256i) : toQ (rot63_src v) = avx2Rot63 (toQ v) := by
  rw [avx2Rot63_eq]
  unfold rot63_src
  rw [q_or, q_srli, q_add]
  show (⟨((toQ v).l0 >>> 63) ||| ((toQ v).l0 + (toQ v).l0), ((toQ v).l1 >>> 63) ||| ((toQ v).l1 + (toQ v).l1),
    ((toQ v).l2 >>> 63) ||| ((toQ v).l2 + (toQ v).l2), ((toQ v).l3 >>> 63) ||| ((toQ v).l3 + (toQ v).l3)⟩ : V4x64) = _
  simp only [shr_or_add_63]

/-! ### rows, macros -/
abbrev R4 := M256i × M256i × M256i × M256i
abbrev LoadF := M256i → M256i → M256i → M256i → M256i → M256i → M256i → M256i → R4
def toRows : R4 → Avx2B.Rows
  | (a, b, c, d) => ⟨toQ a, toQ b, toQ c, toQ d⟩
def toL : R4 → List V4x64
  | (a, b, c, d) => [toQ a, toQ b, toQ c, toQ d]

def roundsK2 {R : Type} (m0 m1 m2 m3 m4 m5 m6 m7 : M256i) : List LoadF → R4 → (R4 → R) → R
  | [], rows, k => k rows
  | ld :: rest, rows, k =>
    match rows with
    | (r1, r2, r3, r4) =>
      match compress_b_avx2_ROUND_src (ld m0 m1 m2 m3 m4 m5 m6 m7) r1 r2 r3 r4 with
      | (a, b, c, d) => roundsK2 m0 m1 m2 m3 m4 m5 m6 m7 rest (a, b, c, d) k

/-- CPS copy of the generated `compress_b_avx2_src` -/
def compress_b_avx2_proK (h : List UInt64) (h_off : Nat) (m : Bytes) (m_off : Nat) (iv : List UInt64) (iv_off : Nat) (f_and_t : M256i) : Except String (List UInt64) :=
  match _mm_loadu_si128 m m_off with
  | .error err => .error err
  | .ok v =>
  let m0 := (_mm256_broadcastsi128_si256 v)
  match _mm_loadu_si128 m (m_off + 16) with
  | .error err => .error err
  | .ok v_1 =>
  let m1 := (_mm256_broadcastsi128_si256 v_1)
  match _mm_loadu_si128 m (m_off + 32) with
  | .error err => .error err
  | .ok v_2 =>
  let m2 := (_mm256_broadcastsi128_si256 v_2)
  match _mm_loadu_si128 m (m_off + 48) with
  | .error err => .error err
  | .ok v_3 =>
  let m3 := (_mm256_broadcastsi128_si256 v_3)
  match _mm_loadu_si128 m (m_off + 64) with
  | .error err => .error err
  | .ok v_4 =>
  let m4 := (_mm256_broadcastsi128_si256 v_4)
  match _mm_loadu_si128 m (m_off + 80) with
  | .error err => .error err
  | .ok v_5 =>
  let m5 := (_mm256_broadcastsi128_si256 v_5)
  match _mm_loadu_si128 m (m_off + 96) with
  | .error err => .error err
  | .ok v_6 =>
  let m6 := (_mm256_broadcastsi128_si256 v_6)
  match _mm_loadu_si128 m (m_off + 112) with
  | .error err => .error err
  | .ok v_7 =>
  let m7 := (_mm256_broadcastsi128_si256 v_7)
  match _mm256_load_si256_u64 h h_off with
  | .error err => .error err
  | .ok v_8 =>
  match _mm256_load_si256_u64 h (h_off + 32) with
  | .error err => .error err
  | .ok v_9 =>
  match _mm256_loadu_si256_u64 iv iv_off with
  | .error err => .error err
  | .ok v_10 =>
  match _mm256_loadu_si256_u64 iv (iv_off + 32) with
  | .error err => .error err
  | .ok v_11 =>
  let d := (_mm256_xor_si256 v_11 f_and_t)
  roundsK2 m0 m1 m2 m3 m4 m5 m6 m7 [compress_b_avx2_load0_src, compress_b_avx2_load1_src, compress_b_avx2_load2_src, compress_b_avx2_load3_src, compress_b_avx2_load4_src, compress_b_avx2_load5_src, compress_b_avx2_load6_src, compress_b_avx2_load7_src, compress_b_avx2_load8_src, compress_b_avx2_load9_src, compress_b_avx2_load0_src, compress_b_avx2_load1_src] (v_8, v_9, v_10, d) fun rows =>
  match rows with
  | (a_11, b_11, c_11, d_12) =>
  let a_12 := (_mm256_xor_si256 a_11 c_11)
  let b_12 := (_mm256_xor_si256 b_11 d_12)
  let a_13 := (_mm256_xor_si256 a_12 v_8)
  let b_13 := (_mm256_xor_si256 b_12 v_9)
  match _mm256_storeu_si256_u64 h h_off a_13 with
  | .error err => .error err
  | .ok h_buf =>
  match _mm256_storeu_si256_u64 h_buf (h_off + 32) b_13 with
  | .error err => .error err
  | .ok h_buf_1 =>
  .ok h_buf_1


theorem compress_b_avx2_src_eq_proK (h : List UInt64) (h_off : Nat) (m : Bytes) (m_off : Nat) (iv : List UInt64) (iv_off : Nat)
    (f_and_t : M256i) : compress_b_avx2_src h h_off m m_off iv iv_off f_and_t = compress_b_avx2_proK h h_off m m_off iv iv_off f_and_t := by
  kernel_rfl

theorem G1_tie (m a b c d : M256i) :
    toRows (compress_b_avx2_G1_src m a b c d) = Avx2B.G1 (toRows (a, b, c, d)) (toQ m) := by
  simp only [compress_b_avx2_G1_src, compress_b_avx2_G_rot32_rot24_src, toRows, Avx2B.G1, Avx2B.G, q_add, q_xor, q_rot32, q_rot24]
theorem G2_tie (m a b c d : M256i) :
    toRows (compress_b_avx2_G2_src m a b c d) = Avx2B.G2 avx2Rot63 (toRows (a, b, c, d)) (toQ m) := by
  simp only [compress_b_avx2_G2_src, compress_b_avx2_G_rot16_rot63_src, toRows, Avx2B.G2, Avx2B.G, q_add, q_xor, q_rot16, q_rot63]
theorem DIAG_tie (a c d x : M256i) :
    Avx2B.DIAGONALIZE (toRows (a, x, c, d)) =
      some (match compress_b_avx2_DIAGONALIZE_src a c d with | (a', c', d') => toRows (a', x, c', d')) := by
  simp only [compress_b_avx2_DIAGONALIZE_src, toRows, q_permute _ _ (Or.inl rfl), q_permute _ _ (Or.inr (Or.inl rfl)),
    q_permute _ _ (Or.inr (Or.inr rfl))]
  rfl
theorem UNDIAG_tie (a c d x : M256i) :
    Avx2B.UNDIAGONALIZE (toRows (a, x, c, d)) =
      some (match compress_b_avx2_UNDIAGONALIZE_src a c d with | (a', c', d') => toRows (a', x, c', d')) := by
  simp only [compress_b_avx2_UNDIAGONALIZE_src, toRows, q_permute _ _ (Or.inl rfl), q_permute _ _ (Or.inr (Or.inl rfl)),
    q_permute _ _ (Or.inr (Or.inr rfl))]
  rfl

theorem ROUND_tie (ld : R4) (rows : R4) :
    Avx2B.ROUND avx2Rot63 (toRows rows) (toL ld) =
      some (toRows (match rows with | (r1, r2, r3, r4) => compress_b_avx2_ROUND_src ld r1 r2 r3 r4)) := by
  obtain ⟨b0, b1, b2, b3⟩ := ld
  obtain ⟨r1, r2, r3, r4⟩ := rows
  simp only [compress_b_avx2_ROUND_src, toL, Avx2B.ROUND]
  rw [← G1_tie]
  generalize compress_b_avx2_G1_src b0 r1 r2 r3 r4 = p1
  obtain ⟨a1, a2, a3, a4⟩ := p1
  rw [← G2_tie]
  generalize compress_b_avx2_G2_src b1 a1 a2 a3 a4 = p2
  obtain ⟨c1, c2, c3, c4⟩ := p2
  rw [DIAG_tie]
  generalize compress_b_avx2_DIAGONALIZE_src c1 c3 c4 = p3
  obtain ⟨d1, d3, d4⟩ := p3
  dsimp only
  rw [← G1_tie]
  generalize compress_b_avx2_G1_src b2 d1 c2 d3 d4 = p4
  obtain ⟨e1, e2, e3, e4⟩ := p4
  rw [← G2_tie]
  generalize compress_b_avx2_G2_src b3 e1 e2 e3 e4 = p5
  obtain ⟨f1, f2, f3, f4⟩ := p5
  rw [UNDIAG_tie]

def LoadTie (ld : LoadF) (r : Nat) : Prop :=
  ∀ m0 m1 m2 m3 m4 m5 m6 m7 : M256i,
    Avx2B.load [toQ m0, toQ m1, toQ m2, toQ m3, toQ m4, toQ m5, toQ m6, toQ m7] r = some (toL (ld m0 m1 m2 m3 m4 m5 m6 m7))

theorem load0_tie : LoadTie compress_b_avx2_load0_src 0 := by
  intro m0 m1 m2 m3 m4 m5 m6 m7
  simp only [compress_b_avx2_load0_src, compress_b_avx2_blend_src, compress_b_avx2_lo_lo_src, compress_b_avx2_hi_hi_src,
    compress_b_avx2_lo_hi_src, compress_b_avx2_hi_lo_src, toL, q_unpacklo, q_unpackhi, q_alignr8, q_blend240, q_blend51, q_shuffle78]
  rfl
theorem load1_tie : LoadTie compress_b_avx2_load1_src 1 := by
  intro m0 m1 m2 m3 m4 m5 m6 m7
  simp only [compress_b_avx2_load1_src, compress_b_avx2_blend_src, compress_b_avx2_lo_lo_src, compress_b_avx2_hi_hi_src,
    compress_b_avx2_lo_hi_src, compress_b_avx2_hi_lo_src, toL, q_unpacklo, q_unpackhi, q_alignr8, q_blend240, q_blend51, q_shuffle78]
  rfl
theorem load2_tie : LoadTie compress_b_avx2_load2_src 2 := by
  intro m0 m1 m2 m3 m4 m5 m6 m7
  simp only [compress_b_avx2_load2_src, compress_b_avx2_blend_src, compress_b_avx2_lo_lo_src, compress_b_avx2_hi_hi_src,
    compress_b_avx2_lo_hi_src, compress_b_avx2_hi_lo_src, toL, q_unpacklo, q_unpackhi, q_alignr8, q_blend240, q_blend51, q_shuffle78]
  rfl
theorem load3_tie : LoadTie compress_b_avx2_load3_src 3 := by
  intro m0 m1 m2 m3 m4 m5 m6 m7
  simp only [compress_b_avx2_load3_src, compress_b_avx2_blend_src, compress_b_avx2_lo_lo_src, compress_b_avx2_hi_hi_src,
    compress_b_avx2_lo_hi_src, compress_b_avx2_hi_lo_src, toL, q_unpacklo, q_unpackhi, q_alignr8, q_blend240, q_blend51, q_shuffle78]
  rfl
theorem load4_tie : LoadTie compress_b_avx2_load4_src 4 := by
  intro m0 m1 m2 m3 m4 m5 m6 m7
  simp only [compress_b_avx2_load4_src, compress_b_avx2_blend_src, compress_b_avx2_lo_lo_src, compress_b_avx2_hi_hi_src,
    compress_b_avx2_lo_hi_src, compress_b_avx2_hi_lo_src, toL, q_unpacklo, q_unpackhi, q_alignr8, q_blend240, q_blend51, q_shuffle78]
  rfl
theorem load5_tie : LoadTie compress_b_avx2_load5_src 5 := by
  intro m0 m1 m2 m3 m4 m5 m6 m7
  simp only [compress_b_avx2_load5_src, compress_b_avx2_blend_src, compress_b_avx2_lo_lo_src, compress_b_avx2_hi_hi_src,
    compress_b_avx2_lo_hi_src, compress_b_avx2_hi_lo_src, toL, q_unpacklo, q_unpackhi, q_alignr8, q_blend240, q_blend51, q_shuffle78]
  rfl
theorem load6_tie : LoadTie compress_b_avx2_load6_src 6 := by
  intro m0 m1 m2 m3 m4 m5 m6 m7
  simp only [compress_b_avx2_load6_src, compress_b_avx2_blend_src, compress_b_avx2_lo_lo_src, compress_b_avx2_hi_hi_src,
    compress_b_avx2_lo_hi_src, compress_b_avx2_hi_lo_src, toL, q_unpacklo, q_unpackhi, q_alignr8, q_blend240, q_blend51, q_shuffle78]
  rfl
theorem load7_tie : LoadTie compress_b_avx2_load7_src 7 := by
  intro m0 m1 m2 m3 m4 m5 m6 m7
  simp only [compress_b_avx2_load7_src, compress_b_avx2_blend_src, compress_b_avx2_lo_lo_src, compress_b_avx2_hi_hi_src,
    compress_b_avx2_lo_hi_src, compress_b_avx2_hi_lo_src, toL, q_unpacklo, q_unpackhi, q_alignr8, q_blend240, q_blend51, q_shuffle78]
  rfl
theorem load8_tie : LoadTie compress_b_avx2_load8_src 8 := by
  intro m0 m1 m2 m3 m4 m5 m6 m7
  simp only [compress_b_avx2_load8_src, compress_b_avx2_blend_src, compress_b_avx2_lo_lo_src, compress_b_avx2_hi_hi_src,
    compress_b_avx2_lo_hi_src, compress_b_avx2_hi_lo_src, toL, q_unpacklo, q_unpackhi, q_alignr8, q_blend240, q_blend51, q_shuffle78]
  rfl
theorem load9_tie : LoadTie compress_b_avx2_load9_src 9 := by
  intro m0 m1 m2 m3 m4 m5 m6 m7
  simp only [compress_b_avx2_load9_src, compress_b_avx2_blend_src, compress_b_avx2_lo_lo_src, compress_b_avx2_hi_hi_src,
    compress_b_avx2_lo_hi_src, compress_b_avx2_hi_lo_src, toL, q_unpacklo, q_unpackhi, q_alignr8, q_blend240, q_blend51, q_shuffle78]
  rfl

/-! ### the fold, memory, and the whole function -/

theorem roundsK2_spec (m0 m1 m2 m3 m4 m5 m6 m7 : M256i) :
    ∀ (lds : List (LoadF × Nat)), (∀ p ∈ lds, LoadTie p.1 p.2) → ∀ (rows : R4),
      ∃ rows', (∀ {R : Type} (k : R4 → R), roundsK2 m0 m1 m2 m3 m4 m5 m6 m7 (lds.map Prod.fst) rows k = k rows') ∧
        Avx2B.rounds avx2Rot63 [toQ m0, toQ m1, toQ m2, toQ m3, toQ m4, toQ m5, toQ m6, toQ m7] (toRows rows) (lds.map Prod.snd)
          = some (toRows rows') := by
  intro lds
  induction lds with
  | nil => intro _ rows; exact ⟨rows, fun _ => rfl, rfl⟩
  | cons p rest ih =>
    intro hp rows
    obtain ⟨ld, r⟩ := p
    have hld : LoadTie ld r := hp (ld, r) (by simp)
    obtain ⟨r1, r2, r3, r4⟩ := rows
    have hR := ROUND_tie (ld m0 m1 m2 m3 m4 m5 m6 m7) (r1, r2, r3, r4)
    dsimp only at hR
    generalize hq : compress_b_avx2_ROUND_src (ld m0 m1 m2 m3 m4 m5 m6 m7) r1 r2 r3 r4 = q at hR
    obtain ⟨a, b, c, d⟩ := q
    obtain ⟨rows', h1, h2⟩ := ih (fun p hp' => hp p (by simp [hp'])) (a, b, c, d)
    refine ⟨rows', ?_, ?_⟩
    · intro R k
      simp only [List.map_cons, roundsK2, hq]
      exact h1 k
    · simp only [List.map_cons, Avx2B.rounds, hld m0 m1 m2 m3 m4 m5 m6 m7, hR]
      exact h2

def loads2 : List (LoadF × Nat) :=
  [(compress_b_avx2_load0_src, 0), (compress_b_avx2_load1_src, 1), (compress_b_avx2_load2_src, 2), (compress_b_avx2_load3_src, 3),
   (compress_b_avx2_load4_src, 4), (compress_b_avx2_load5_src, 5), (compress_b_avx2_load6_src, 6), (compress_b_avx2_load7_src, 7),
   (compress_b_avx2_load8_src, 8), (compress_b_avx2_load9_src, 9), (compress_b_avx2_load0_src, 0), (compress_b_avx2_load1_src, 1)]

theorem loads2_tie : ∀ p ∈ loads2, LoadTie p.1 p.2 := by
  intro p hp
  simp only [loads2, List.mem_cons, List.mem_nil_iff, or_false] at hp
  rcases hp with h | h | h | h | h | h | h | h | h | h | h | h <;> subst h
  exacts [load0_tie, load1_tie, load2_tie, load3_tie, load4_tie, load5_tie, load6_tie, load7_tie, load8_tie, load9_tie, load0_tie, load1_tie]

theorem loads2_rounds : loads2.map Prod.snd = Extracted.Simd.B_AVX2_ROUNDS := by decide

theorem msg_eq2 (b : Bytes) (h : 128 ≤ b.length) :
    Avx2B.msgVecs (loadWords b) = [toQ (_mm256_broadcastsi128_si256 (AvxBI.vec b 0)), toQ (_mm256_broadcastsi128_si256 (AvxBI.vec b 16)),
      toQ (_mm256_broadcastsi128_si256 (AvxBI.vec b 32)), toQ (_mm256_broadcastsi128_si256 (AvxBI.vec b 48)),
      toQ (_mm256_broadcastsi128_si256 (AvxBI.vec b 64)), toQ (_mm256_broadcastsi128_si256 (AvxBI.vec b 80)),
      toQ (_mm256_broadcastsi128_si256 (AvxBI.vec b 96)), toQ (_mm256_broadcastsi128_si256 (AvxBI.vec b 112))] := by
  unfold Avx2B.msgVecs
  rw [AvxBI.msg_eq b h]
  rfl

theorem model_eq2 (h iv : Vector UInt64 8) (block : Bytes) (ft : V4x64) (s' : Avx2B.Rows)
    (hr : Avx2B.rounds (fun v => (Avx2B.rot63 v).getD v) (Avx2B.msgVecs (loadWords block))
      ⟨⟨h[0], h[1], h[2], h[3]⟩, ⟨h[4], h[5], h[6], h[7]⟩, ⟨iv[0], iv[1], iv[2], iv[3]⟩, V4x64.xor ⟨iv[4], iv[5], iv[6], iv[7]⟩ ft⟩
      Extracted.Simd.B_AVX2_ROUNDS = some s') :
    Avx2B.compress_b_avx2 h block iv ft = some #v[
      ((s'.a.xor s'.c).xor ⟨h[0], h[1], h[2], h[3]⟩).l0, ((s'.a.xor s'.c).xor ⟨h[0], h[1], h[2], h[3]⟩).l1,
      ((s'.a.xor s'.c).xor ⟨h[0], h[1], h[2], h[3]⟩).l2, ((s'.a.xor s'.c).xor ⟨h[0], h[1], h[2], h[3]⟩).l3,
      ((s'.b.xor s'.d).xor ⟨h[4], h[5], h[6], h[7]⟩).l0, ((s'.b.xor s'.d).xor ⟨h[4], h[5], h[6], h[7]⟩).l1,
      ((s'.b.xor s'.d).xor ⟨h[4], h[5], h[6], h[7]⟩).l2, ((s'.b.xor s'.d).xor ⟨h[4], h[5], h[6], h[7]⟩).l3] := by
  unfold Avx2B.compress_b_avx2
  rw [avx2_rot63]
  simp only [hr]

theorem toQ_qw (a b c d : UInt64) : toQ ⟨M128i.ofQwords a b, M128i.ofQwords c d⟩ = ⟨a, b, c, d⟩ := by
  rw [toQ_mk, to2_ofQwords, to2_ofQwords]; rfl

set_option maxRecDepth 4000 in
/-- **`compress_b_avx2`** of the translated source = the model -/
theorem compress_b_avx2_src_eq_model (h0 h1 h2 h3 h4 h5 h6 h7 i0 i1 i2 i3 i4 i5 i6 i7 : UInt64) (block : Bytes)
    (hb : 128 ≤ block.length) (ft : M256i) :
    ∃ out : Vector UInt64 8,
      Avx2B.compress_b_avx2 #v[h0, h1, h2, h3, h4, h5, h6, h7] block #v[i0, i1, i2, i3, i4, i5, i6, i7] (toQ ft) = some out ∧
      compress_b_avx2_src [h0, h1, h2, h3, h4, h5, h6, h7] 0 block 0 [i0, i1, i2, i3, i4, i5, i6, i7] 0 ft = .ok out.toList := by
  rw [compress_b_avx2_src_eq_proK]
  unfold compress_b_avx2_proK
  simp only [Nat.zero_add, AvxBI.loadu_vec block 0 (by omega), AvxBI.loadu_vec block 16 (by omega), AvxBI.loadu_vec block 32 (by omega),
    AvxBI.loadu_vec block 48 (by omega), AvxBI.loadu_vec block 64 (by omega), AvxBI.loadu_vec block 80 (by omega),
    AvxBI.loadu_vec block 96 (by omega), AvxBI.loadu_vec block 112 (by omega)]
  have hl0 : _mm256_load_si256_u64 [h0, h1, h2, h3, h4, h5, h6, h7] 0 = .ok ⟨M128i.ofQwords h0 h1, M128i.ofQwords h2 h3⟩ := rfl
  have hl1 : _mm256_load_si256_u64 [h0, h1, h2, h3, h4, h5, h6, h7] 32 = .ok ⟨M128i.ofQwords h4 h5, M128i.ofQwords h6 h7⟩ := rfl
  have il0 : _mm256_loadu_si256_u64 [i0, i1, i2, i3, i4, i5, i6, i7] 0 = .ok ⟨M128i.ofQwords i0 i1, M128i.ofQwords i2 i3⟩ := rfl
  have il1 : _mm256_loadu_si256_u64 [i0, i1, i2, i3, i4, i5, i6, i7] 32 = .ok ⟨M128i.ofQwords i4 i5, M128i.ofQwords i6 i7⟩ := rfl
  simp only [hl0, hl1, il0, il1]
  obtain ⟨rows', hk, hm⟩ := roundsK2_spec (_mm256_broadcastsi128_si256 (AvxBI.vec block 0)) (_mm256_broadcastsi128_si256 (AvxBI.vec block 16))
    (_mm256_broadcastsi128_si256 (AvxBI.vec block 32)) (_mm256_broadcastsi128_si256 (AvxBI.vec block 48))
    (_mm256_broadcastsi128_si256 (AvxBI.vec block 64)) (_mm256_broadcastsi128_si256 (AvxBI.vec block 80))
    (_mm256_broadcastsi128_si256 (AvxBI.vec block 96)) (_mm256_broadcastsi128_si256 (AvxBI.vec block 112)) loads2 loads2_tie
    (⟨M128i.ofQwords h0 h1, M128i.ofQwords h2 h3⟩, ⟨M128i.ofQwords h4 h5, M128i.ofQwords h6 h7⟩, ⟨M128i.ofQwords i0 i1, M128i.ofQwords i2 i3⟩,
      _mm256_xor_si256 ⟨M128i.ofQwords i4 i5, M128i.ofQwords i6 i7⟩ ft)
  rw [loads2_rounds] at hm
  have hfst : loads2.map Prod.fst = [compress_b_avx2_load0_src, compress_b_avx2_load1_src, compress_b_avx2_load2_src,
      compress_b_avx2_load3_src, compress_b_avx2_load4_src, compress_b_avx2_load5_src, compress_b_avx2_load6_src,
      compress_b_avx2_load7_src, compress_b_avx2_load8_src, compress_b_avx2_load9_src, compress_b_avx2_load0_src,
      compress_b_avx2_load1_src] := rfl
  rw [hfst] at hk
  rw [hk]
  obtain ⟨a, b, c, d⟩ := rows'
  dsimp only
  have hr : Avx2B.rounds (fun v => (Avx2B.rot63 v).getD v) (Avx2B.msgVecs (loadWords block))
      ⟨⟨h0, h1, h2, h3⟩, ⟨h4, h5, h6, h7⟩, ⟨i0, i1, i2, i3⟩, V4x64.xor ⟨i4, i5, i6, i7⟩ (toQ ft)⟩
      Extracted.Simd.B_AVX2_ROUNDS = some (toRows (a, b, c, d)) := by
    rw [msg_eq2 block hb]
    have hrows : (⟨⟨h0, h1, h2, h3⟩, ⟨h4, h5, h6, h7⟩, ⟨i0, i1, i2, i3⟩, V4x64.xor ⟨i4, i5, i6, i7⟩ (toQ ft)⟩ : Avx2B.Rows)
        = toRows (⟨M128i.ofQwords h0 h1, M128i.ofQwords h2 h3⟩, ⟨M128i.ofQwords h4 h5, M128i.ofQwords h6 h7⟩,
          ⟨M128i.ofQwords i0 i1, M128i.ofQwords i2 i3⟩, _mm256_xor_si256 ⟨M128i.ofQwords i4 i5, M128i.ofQwords i6 i7⟩ ft) := by
      simp only [toRows, q_xor, toQ_qw]
    rw [hrows]
    exact hm
  have hmod := model_eq2 #v[h0, h1, h2, h3, h4, h5, h6, h7] #v[i0, i1, i2, i3, i4, i5, i6, i7] block (toQ ft) _ hr
  refine ⟨_, hmod, ?_⟩
  have e : ∀ (x y : M256i) (p q r s : UInt64), toQ (_mm256_xor_si256 (_mm256_xor_si256 x y) ⟨M128i.ofQwords p q, M128i.ofQwords r s⟩) =
      ((toQ x).xor (toQ y)).xor ⟨p, q, r, s⟩ := fun x y p q r s => by rw [q_xor, q_xor, toQ_qw]
  show _ = Except.ok [(((toQ a).xor (toQ c)).xor ⟨h0, h1, h2, h3⟩).l0, (((toQ a).xor (toQ c)).xor ⟨h0, h1, h2, h3⟩).l1,
      (((toQ a).xor (toQ c)).xor ⟨h0, h1, h2, h3⟩).l2, (((toQ a).xor (toQ c)).xor ⟨h0, h1, h2, h3⟩).l3,
      (((toQ b).xor (toQ d)).xor ⟨h4, h5, h6, h7⟩).l0, (((toQ b).xor (toQ d)).xor ⟨h4, h5, h6, h7⟩).l1,
      (((toQ b).xor (toQ d)).xor ⟨h4, h5, h6, h7⟩).l2, (((toQ b).xor (toQ d)).xor ⟨h4, h5, h6, h7⟩).l3]
  rw [← e a c h0 h1 h2 h3, ← e b d h4 h5 h6 h7]
  rfl

/-- **`avx2::compress_b`** of the translated source = the model `avx2_compress_b` -/
theorem compress_b_src_eq_model2 (h0 h1 h2 h3 h4 h5 h6 h7 t0 t1 : UInt64) (buf : Bytes) (hb : 128 ≤ buf.length) (last : LastBlock) :
    ∃ out : Vector UInt64 8, avx2_compress_b #v[h0, h1, h2, h3, h4, h5, h6, h7] t0.toNat t1.toNat buf last = some out ∧
      Blake2Avx2.compress_b_src [h0, h1, h2, h3, h4, h5, h6, h7] [t0, t1] buf last = .ok (out.toList, [t0, t1]) := by
  obtain ⟨out, hm, hs⟩ := compress_b_avx2_src_eq_model h0 h1 h2 h3 h4 h5 h6 h7 0x6a09e667f3bcc908 0xbb67ae8584caa73b
    0x3c6ef372fe94f82b 0xa54ff53a5f1d36f1 0x510e527fade682d1 0x9b05688c2b3e6c1f 0x1f83d9abfb41bd6b 0x5be0cd19137e2179 buf hb
    (if last = LastBlock.Yes then _mm256_set_epi64x 0 0xffffffffffffffff t1 t0 else _mm256_set_epi64x 0 0 t1 t0)
  refine ⟨out, ?_, ?_⟩
  · unfold avx2_compress_b
    rw [AvxBI.b_IV_eq]
    simp only [UInt64.ofNat_toNat]
    rw [← hm]
    congr 1
    cases last
    · simp only [if_true]
      show _ = toQ ⟨M128i.ofQwords t0 t1, M128i.ofQwords 0xffffffffffffffff 0⟩
      rw [toQ_qw]
    · simp only [if_false, reduceCtorEq]
      show _ = toQ ⟨M128i.ofQwords t0 t1, M128i.ofQwords 0 0⟩
      rw [toQ_qw]
  · unfold Blake2Avx2.compress_b_src
    have hiv : Blake2Avx2.b_IV = [0x6a09e667f3bcc908, 0xbb67ae8584caa73b, 0x3c6ef372fe94f82b, 0xa54ff53a5f1d36f1,
      0x510e527fade682d1, 0x9b05688c2b3e6c1f, 0x1f83d9abfb41bd6b, 0x5be0cd19137e2179] := rfl
    rw [hiv]
    cases last
    · simp only [if_true, Glue.index] at hs ⊢
      dsimp only [List.getElem?_cons_succ, List.getElem?_cons_zero]
      rw [hs]
    · simp only [if_false, Glue.index, reduceCtorEq] at hs ⊢
      dsimp only [List.getElem?_cons_succ, List.getElem?_cons_zero]
      rw [hs]

end Cx.Proofs.GlueSimdBlake2.Avx2I
