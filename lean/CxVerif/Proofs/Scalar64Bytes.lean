/-
  Proofs.Scalar64Bytes — the byte layer of Impl/Scalar64.lean: `load` = little-endian value of 8 bytes,
  `from_bytes` = le(bytes) with the limb invariant, `to_bytes` = 32-byte LE of the value, the canonical
  decoder, and `reduce_from_wide_bytes s = le(s) mod L` for every 64-byte string.
-/
import CxVerif.Proofs.Scalar64Barrett
namespace Cx.Proofs.Scalar64
open Cx Cx.Impl.Scalar64
set_option exponentiation.threshold 600

theorem leNat_split (n : Nat) : ∀ (l : Bytes), n ≤ l.length → leNat l = leNat (l.take n) + 256^n * leNat (l.drop n) := by
  induction n with
  | zero => intro l _; simp [leNat]
  | succ n ih =>
    intro l h
    cases l with
    | nil => simp at h
    | cons b t =>
      have h' : n ≤ t.length := by simpa using h
      simp only [List.take_succ_cons, List.drop_succ_cons, leNat]
      rw [ih t h', Nat.pow_succ]
      generalize leNat (List.take n t) = A; generalize leNat (List.drop n t) = B
      generalize 256^n = P
      rw [Nat.mul_add, ← Nat.mul_assoc, Nat.mul_comm 256 P]; omega

theorem take8_drop (l : Bytes) (ofs : Nat) (h : ofs + 7 < l.length) :
    (l.drop ofs).take 8 = [l[ofs], l[ofs+1], l[ofs+2], l[ofs+3], l[ofs+4], l[ofs+5], l[ofs+6], l[ofs+7]] := by
  apply List.ext_getElem
  · simp; omega
  · intro i h1 h2
    simp only [List.length_cons, List.length_nil] at h2
    simp only [List.getElem_take, List.getElem_drop]
    match i, h2 with
    | 0, _ => rfl
    | 1, _ => rfl
    | 2, _ => rfl
    | 3, _ => rfl
    | 4, _ => rfl
    | 5, _ => rfl
    | 6, _ => rfl
    | 7, _ => rfl

/-- the 8 bytes at `ofs` as an OR of shifted bytes = their little-endian value -/
theorem or8 (b0 b1 b2 b3 b4 b5 b6 b7 : UInt8) :
    (b0.toNat ||| shl64 b1.toNat 8 ||| shl64 b2.toNat 16 ||| shl64 b3.toNat 24 ||| shl64 b4.toNat 32
      ||| shl64 b5.toNat 40 ||| shl64 b6.toNat 48 ||| shl64 b7.toNat 56)
    = b0.toNat + b1.toNat * 2^8 + b2.toNat * 2^16 + b3.toNat * 2^24 + b4.toNat * 2^32 + b5.toNat * 2^40
      + b6.toNat * 2^48 + b7.toNat * 2^56 := by
  have h0 := b0.toNat_lt; have h1 := b1.toNat_lt; have h2 := b2.toNat_lt; have h3 := b3.toNat_lt
  have h4 := b4.toNat_lt; have h5 := b5.toNat_lt; have h6 := b6.toNat_lt; have h7 := b7.toNat_lt
  rw [shl64_small _ 8 (by omega), shl64_small _ 16 (by omega), shl64_small _ 24 (by omega), shl64_small _ 32 (by omega),
    shl64_small _ 40 (by omega), shl64_small _ 48 (by omega), shl64_small _ 56 (by omega)]
  rw [or_add _ _ 8 (by omega), or_add _ _ 16 (by omega), or_add _ _ 24 (by omega), or_add _ _ 32 (by omega),
    or_add _ _ 40 (by omega), or_add _ _ 48 (by omega), or_add _ _ 56 (by omega)]

theorem join_words (a b j k : Nat) (hjk : k + j = 64) (ha : a < 2^64) :
    shr64 a k ||| shl64 b j = a / 2^k + (b % 2^k) * 2^j := by
  unfold shr64 shl64
  rw [Nat.shiftRight_eq_div_pow, Nat.shiftLeft_eq]
  have e : (2:Nat)^64 = 2^k * 2^j := by rw [← Nat.pow_add, hjk]
  rw [e, Nat.mul_mod_mul_right]
  apply or_add
  apply Nat.div_lt_of_lt_mul
  rw [← e]; exact ha

theorem leNat8 (b0 b1 b2 b3 b4 b5 b6 b7 : UInt8) :
    leNat [b0,b1,b2,b3,b4,b5,b6,b7] = b0.toNat + b1.toNat * 2^8 + b2.toNat * 2^16 + b3.toNat * 2^24 + b4.toNat * 2^32
      + b5.toNat * 2^40 + b6.toNat * 2^48 + b7.toNat * 2^56 := by
  simp only [leNat]; omega

theorem load32_eq (bytes : Vector UInt8 32) (ofs : Nat) (h : ofs + 7 < 32) :
    load32 bytes ofs h = leNat ((bytes.toList.drop ofs).take 8) := by
  rw [take8_drop _ _ (by simp; omega), leNat8]
  unfold load32
  simp only [Vector.getElem_toList]
  exact or8 _ _ _ _ _ _ _ _

theorem leNat_lt : ∀ l : Bytes, leNat l < 256 ^ l.length := by
  intro l
  induction l with
  | nil => simp [leNat]
  | cons b t ih =>
    simp only [leNat, List.length_cons, Nat.pow_succ]
    have := b.toNat_lt
    generalize 256 ^ t.length = P at *
    omega

theorem load32_lt (bytes : Vector UInt8 32) (ofs : Nat) (h : ofs + 7 < 32) : load32 bytes ofs h < 2^64 := by
  rw [load32_eq]
  have h1 := leNat_lt ((bytes.toList.drop ofs).take 8)
  have h2 : ((bytes.toList.drop ofs).take 8).length = 8 := by simp; omega
  rw [h2] at h1; exact h1

theorem leNat32 (bytes : Vector UInt8 32) :
    leNat bytes.toList = load32 bytes 0 (by decide) + load32 bytes 8 (by decide) * 2^64
      + load32 bytes 16 (by decide) * 2^128 + load32 bytes 24 (by decide) * 2^192 := by
  simp only [load32_eq]
  have hl : bytes.toList.length = 32 := by simp
  generalize bytes.toList = l at *
  rw [leNat_split 8 l (by omega), leNat_split 8 (l.drop 8) (by simp; omega), List.drop_drop,
    leNat_split 8 (l.drop (8+8)) (by simp; omega), List.drop_drop,
    leNat_split 8 (l.drop (8+(8+8))) (by simp; omega), List.drop_drop]
  have : l.drop (8+(8+(8+8))) = [] := by simp; omega
  rw [this]
  simp only [List.drop_zero, leNat, Nat.reduceAdd]
  omega

theorem load64_eq (bytes : Vector UInt8 64) (ofs : Nat) (h : ofs + 7 < 64) :
    load64 bytes ofs h = leNat ((bytes.toList.drop ofs).take 8) := by
  rw [take8_drop _ _ (by simp; omega), leNat8]
  unfold load64
  simp only [Vector.getElem_toList]
  exact or8 _ _ _ _ _ _ _ _

theorem load64_lt (bytes : Vector UInt8 64) (ofs : Nat) (h : ofs + 7 < 64) : load64 bytes ofs h < 2^64 := by
  rw [load64_eq]
  have h1 := leNat_lt ((bytes.toList.drop ofs).take 8)
  have h2 : ((bytes.toList.drop ofs).take 8).length = 8 := by simp; omega
  rw [h2] at h1; exact h1

theorem leNat64 (bytes : Vector UInt8 64) :
    leNat bytes.toList = load64 bytes 0 (by decide) + load64 bytes 8 (by decide) * 2^64
      + load64 bytes 16 (by decide) * 2^128 + load64 bytes 24 (by decide) * 2^192
      + load64 bytes 32 (by decide) * 2^256 + load64 bytes 40 (by decide) * 2^320
      + load64 bytes 48 (by decide) * 2^384 + load64 bytes 56 (by decide) * 2^448 := by
  simp only [load64_eq]
  have hl : bytes.toList.length = 64 := by simp
  generalize bytes.toList = l at *
  rw [leNat_split 8 l (by omega), leNat_split 8 (l.drop 8) (by simp; omega), List.drop_drop,
    leNat_split 8 (l.drop (8+8)) (by simp; omega), List.drop_drop,
    leNat_split 8 (l.drop (8+(8+8))) (by simp; omega), List.drop_drop,
    leNat_split 8 (l.drop (8+(8+(8+8)))) (by simp; omega), List.drop_drop,
    leNat_split 8 (l.drop (8+(8+(8+(8+8))))) (by simp; omega), List.drop_drop,
    leNat_split 8 (l.drop (8+(8+(8+(8+(8+8)))))) (by simp; omega), List.drop_drop,
    leNat_split 8 (l.drop (8+(8+(8+(8+(8+(8+8))))))) (by simp; omega), List.drop_drop]
  have : l.drop (8+(8+(8+(8+(8+(8+(8+8))))))) = [] := by simp; omega
  rw [this]
  simp only [List.drop_zero, leNat, Nat.reduceAdd]
  omega

/-- `from_bytes` denotes the little-endian integer of its 32 bytes and establishes the limb invariant -/
theorem from_bytes_spec (b : Vector UInt8 32) : (from_bytes b).val = leNat b.toList ∧ Inv (from_bytes b) := by
  rw [leNat32]
  unfold from_bytes
  have h0 := load32_lt b 0 (by decide); have h1 := load32_lt b 8 (by decide)
  have h2 := load32_lt b 16 (by decide); have h3 := load32_lt b 24 (by decide)
  generalize load32 b 0 _ = x0 at *; generalize load32 b 8 _ = x1 at *
  generalize load32 b 16 _ = x2 at *; generalize load32 b 24 _ = x3 at *
  simp only [Inv, Scalar.val]
  rw [join_words x0 x1 8 56 (by decide) h0, join_words x1 x2 16 48 (by decide) h1,
    join_words x2 x3 24 40 (by decide) h2]
  simp only [MASK56_eq, and_mask, shr64, Nat.shiftRight_eq_div_pow]
  omega

theorem natToLE_add (m n : Nat) : ∀ v, natToLE (m + n) v = natToLE m v ++ natToLE n (v / 256^m) := by
  induction m with
  | zero => intro v; simp [natToLE]
  | succ m ih =>
    intro v
    rw [Nat.add_right_comm]
    simp only [natToLE, List.cons_append, ih, Nat.pow_succ, Nat.div_div_eq_div_mul]
    rw [Nat.mul_comm 256]

theorem natToLE_mod (n : Nat) : ∀ v, natToLE n (v % 256^n) = natToLE n v := by
  induction n with
  | zero => intro v; rfl
  | succ n ih =>
    intro v
    simp only [natToLE]
    have e1 : v % 256 ^ (n + 1) % 256 = v % 256 := by
      rw [Nat.pow_succ]; exact Nat.mod_mod_of_dvd _ (Nat.dvd_mul_left _ _)
    have e2 : v % 256 ^ (n + 1) / 256 = (v / 256) % 256^n := by
      rw [Nat.pow_succ, Nat.mul_comm, Nat.mod_mul_right_div_self]
    rw [e1, e2, ih]

theorem natToLE_leNat : ∀ l : Bytes, natToLE l.length (leNat l) = l := by
  intro l
  induction l with
  | nil => rfl
  | cons b t ih =>
    simp only [List.length_cons, natToLE, leNat]
    have hb := b.toNat_lt
    have e1 : (b.toNat + 256 * leNat t) % 256 = b.toNat := by omega
    have e2 : (b.toNat + 256 * leNat t) / 256 = leNat t := by omega
    rw [e1, e2, ih]; simp

theorem natToLE8_congr (a b : Nat) (h : a % 2^64 = b % 2^64) : natToLE 8 a = natToLE 8 b := by
  rw [← natToLE_mod 8 a, ← natToLE_mod 8 b]
  have : (256:Nat)^8 = 2^64 := by decide
  rw [this, h]

theorem shl_or (a b j i : Nat) (hji : i + j = 64) (ha : a < 2^j) : shl64 b j ||| a = a + (b % 2^i) * 2^j := by
  unfold shl64
  rw [Nat.shiftLeft_eq]
  have e : (2:Nat)^64 = 2^i * 2^j := by rw [← Nat.pow_add, hji]
  rw [e, Nat.mul_mod_mul_right, Nat.or_comm]
  exact or_add _ _ _ ha

/-- `to_bytes` writes the 32-byte little-endian encoding of the value (for every scalar inside the invariant) -/
theorem to_bytes_spec (s : Scalar) (h : Inv s) : to_bytes s = natToLE 32 s.val := by
  obtain ⟨h0, h1, h2, h3, h4⟩ := h
  unfold to_bytes to_le_bytes
  simp only []
  rw [shl_or s.l0 s.l1 56 8 (by decide) h0,
    shl_or (shr64 s.l1 8) s.l2 48 16 (by decide) (by unfold shr64; rw [Nat.shiftRight_eq_div_pow]; omega),
    shl_or (shr64 s.l2 16) s.l3 40 24 (by decide) (by unfold shr64; rw [Nat.shiftRight_eq_div_pow]; omega),
    shl_or (shr64 s.l3 24) s.l4 32 32 (by decide) (by unfold shr64; rw [Nat.shiftRight_eq_div_pow]; omega)]
  simp only [shr64, Nat.shiftRight_eq_div_pow]
  rw [show (32:Nat) = 8 + (8 + (8 + 8)) from rfl, natToLE_add, natToLE_add, natToLE_add]
  have e : (256:Nat)^8 = 2^64 := by decide
  simp only [e, Nat.div_div_eq_div_mul, List.append_assoc]
  unfold Scalar.val
  congr 1
  · apply natToLE8_congr; omega
  congr 1
  · apply natToLE8_congr; omega
  congr 1
  · apply natToLE8_congr; omega
  · apply natToLE8_congr; omega

theorem to_bytes_from_bytes (b : Vector UInt8 32) : to_bytes (from_bytes b) = b.toList := by
  obtain ⟨hv, hi⟩ := from_bytes_spec b
  rw [to_bytes_spec _ hi, hv]
  have := natToLE_leNat b.toList
  simpa using this

/-- the canonical decoder accepts exactly the strings below L -/
theorem from_bytes_canonical_spec (b : Vector UInt8 32) :
    from_bytes_canonical b = some (if leNat b.toList < Spec.ScalarL.L then some (from_bytes b) else none) := by
  obtain ⟨hv, h0, h1, h2, h3, h4⟩ := from_bytes_spec b
  unfold from_bytes_canonical
  simp only []
  rw [lt_order_spec _ h0 h1 h2 h3 (by omega), hv]
  by_cases h : leNat b.toList < Spec.ScalarL.L <;> simp [h]

/-- wide reduction: for EVERY 64-byte string the result is `le(s) mod L`, inside the invariant, no overflow -/
theorem reduce_from_wide_bytes_spec (s : Vector UInt8 64) :
    ∃ o, reduce_from_wide_bytes s = some o ∧ o.val = leNat s.toList % Spec.ScalarL.L ∧ Inv o := by
  rw [leNat64]
  unfold reduce_from_wide_bytes
  have h0 := load64_lt s 0 (by decide); have h1 := load64_lt s 8 (by decide)
  have h2 := load64_lt s 16 (by decide); have h3 := load64_lt s 24 (by decide)
  have h4 := load64_lt s 32 (by decide); have h5 := load64_lt s 40 (by decide)
  have h6 := load64_lt s 48 (by decide); have h7 := load64_lt s 56 (by decide)
  generalize load64 s 0 _ = x0 at *; generalize load64 s 8 _ = x1 at *
  generalize load64 s 16 _ = x2 at *; generalize load64 s 24 _ = x3 at *
  generalize load64 s 32 _ = x4 at *; generalize load64 s 40 _ = x5 at *
  generalize load64 s 48 _ = x6 at *; generalize load64 s 56 _ = x7 at *
  simp only []
  rw [join_words x0 x1 8 56 (by decide) h0, join_words x1 x2 16 48 (by decide) h1,
    join_words x2 x3 24 40 (by decide) h2, join_words x3 x4 32 32 (by decide) h3,
    join_words x3 x4 8 56 (by decide) h3, join_words x4 x5 16 48 (by decide) h4,
    join_words x5 x6 24 40 (by decide) h5, join_words x6 x7 32 32 (by decide) h6]
  simp only [MASK56_eq, MASK40_eq, and_mask, shr64, Nat.shiftRight_eq_div_pow]
  apply barrett_spec
  · omega
  all_goals (try simp only [Scalar.val])
  all_goals omega
end Cx.Proofs.Scalar64
