/-
  Proofs.RefusalHash — C20 refusal matrix, the `hashing` contexts that can refuse: BLAKE2b / BLAKE2s
  (src/hashing/blake2b.rs, blake2s.rs) and the SHA-3 / Keccak sponge engine (src/hashing/sha3.rs).

  Documented / asserted domains (quoted from src/hashing/blake2b.rs; blake2s.rs is the same text with 32 / 256):
    Context::<BITS>::new          "the size in bytes need to be between 0 (non included) and 64 bytes (included), which means
                                   BITS need to be between 1 and 512."   `assert!(BITS > 0 && ((BITS + 7) / 8) <= Engine::MAX_OUTLEN);`
    Context::<BITS>::new_keyed    + `assert!(key.len() <= Engine::MAX_KEYLEN);`
    ContextDyn::new(output_bytes) "the size need to be between 0 (non included) and 64 bytes (included)"
                                   `assert!(output_bytes > 0 && output_bytes <= Engine::MAX_OUTLEN);`
    finalize_at(out) &c.          "The output slice size is assert checked to have the correct expected size."
                                   `assert!(out.len() == ((BITS + 7) / 8));` / `assert!(out.len() == self.outlen);`
    reset_with_key(key)           `assert!(key.len() <= Engine::MAX_KEYLEN);`
  What the code accepts for BITS: EVERY 1 ≤ BITS ≤ 512 (256), multiples of 8 or not; the digest then has
  ⌈BITS/8⌉ bytes (`context_new_keyed_none_iff`: `(BITS + 7) / 8 ≤ MAX_OUTLEN ↔ BITS ≤ 8 · MAX_OUTLEN`).

  SHA-3: `Engine::process` panics after finalisation ("Invalid state, absorb phase already finalized."), `output`
  panics when nothing is left ("Nothing left to squeeze."); the public contexts (`update`, `update_mut`,
  `finalize_reset`, `reset`; `finalize` consumes `self`) never leave an engine in such a state.
-/
import CxVerif.Proofs.Blake2
import CxVerif.Proofs.SpongeCtx
namespace Cx.Proofs.Refusal
open Cx
set_option linter.unusedSimpArgs false
set_option linter.unusedVariables false

/-! ## BLAKE2 -/
section blake2
open Cx.Impl.Blake2 Cx.Proofs.Blake2
open Cx.Spec.Blake2 (Word Params)
variable {W : Type} [Word W]

/-- documented domain of `ContextDyn::new_keyed(output_bytes, key)` / `new(output_bytes)` (key = []) -/
def ValidBlake2Dyn (maxOut maxKey outlen : Nat) (key : Bytes) : Prop :=
  0 < outlen ∧ outlen ≤ maxOut ∧ key.length ≤ maxKey
/-- documented domain of `Context::<BITS>::new_keyed(key)` / `new()`: "BITS need to be between 1 and 512" -/
def ValidBlake2Bits (maxOut maxKey BITS : Nat) (key : Bytes) : Prop :=
  1 ≤ BITS ∧ BITS ≤ 8 * maxOut ∧ key.length ≤ maxKey

instance (a b c : Nat) (k : Bytes) : Decidable (ValidBlake2Dyn a b c k) := by unfold ValidBlake2Dyn; infer_instance
instance (a b c : Nat) (k : Bytes) : Decidable (ValidBlake2Bits a b c k) := by unfold ValidBlake2Bits; infer_instance

theorem ctx_new_keyed_none_iff (P : Params W) (outlen : Nat) (key : Bytes) :
    Ctx.new_keyed P outlen key = none ↔ ¬ ValidBlake2Dyn P.maxOut P.maxKey outlen key := by
  constructor
  · intro h hv
    rw [new_keyed_eq P outlen key ⟨hv.1, hv.2.1⟩ hv.2.2] at h; cases h
  · intro hv; exact new_keyed_none P outlen key hv

theorem ctx_new_keyed_ok (P : Params W) (outlen : Nat) (key : Bytes) (hv : ValidBlake2Dyn P.maxOut P.maxKey outlen key) :
    ∃ c, Ctx.new_keyed P outlen key = some c := ⟨_, new_keyed_eq P outlen key ⟨hv.1, hv.2.1⟩ hv.2.2⟩

theorem contextdyn_new_keyed_none_iff (P : Params W) (outlen : Nat) (key : Bytes) :
    ContextDyn.new_keyed P outlen key = none ↔ ¬ ValidBlake2Dyn P.maxOut P.maxKey outlen key := by
  rw [← ctx_new_keyed_none_iff]
  unfold ContextDyn.new_keyed
  cases Ctx.new_keyed P outlen key <;> simp

theorem contextdyn_new_none_iff (P : Params W) (outlen : Nat) :
    ContextDyn.new P outlen = none ↔ ¬ ValidBlake2Dyn P.maxOut P.maxKey outlen [] := by
  unfold ContextDyn.new
  by_cases h : outlen > 0 ∧ outlen ≤ P.maxOut
  · rw [if_neg (by simpa using h), contextdyn_new_keyed_none_iff]
  · rw [if_pos h]
    simp only [true_iff]
    intro hv; exact h ⟨hv.1, hv.2.1⟩

theorem bits_outlen_iff (maxOut BITS : Nat) : (BITS > 0 ∧ Context.outlen BITS ≤ maxOut) ↔ (1 ≤ BITS ∧ BITS ≤ 8 * maxOut) := by
  unfold Context.outlen; omega

theorem context_new_keyed_none_iff (P : Params W) (BITS : Nat) (key : Bytes) :
    Context.new_keyed P BITS key = none ↔ ¬ ValidBlake2Bits P.maxOut P.maxKey BITS key := by
  unfold Context.new_keyed ValidBlake2Bits
  by_cases h : BITS > 0 ∧ Context.outlen BITS ≤ P.maxOut
  · rw [if_neg (by simpa using h), ctx_new_keyed_none_iff]
    have h' := (bits_outlen_iff P.maxOut BITS).mp h
    unfold ValidBlake2Dyn Context.outlen at *
    constructor
    · intro hn hv; exact hn ⟨by omega, by omega, hv.2.2⟩
    · intro hn hv; exact hn ⟨h'.1, h'.2, hv.2.2⟩
  · rw [if_pos h]
    simp only [true_iff]
    intro hv; exact h ((bits_outlen_iff P.maxOut BITS).mpr ⟨hv.1, hv.2.1⟩)

theorem context_new_none_iff (P : Params W) (BITS : Nat) :
    Context.new P BITS = none ↔ ¬ ValidBlake2Bits P.maxOut P.maxKey BITS [] := by
  unfold Context.new
  by_cases h : BITS > 0 ∧ Context.outlen BITS ≤ P.maxOut
  · rw [if_neg (by simpa using h), context_new_keyed_none_iff]
  · rw [if_pos h]
    simp only [true_iff]
    intro hv; exact h ((bits_outlen_iff P.maxOut BITS).mpr ⟨hv.1, hv.2.1⟩)

/-- `internal_final` cannot fail in the code as it is (`wrapping_add`) -/
theorem internal_final_wrapping (P : Params W) (c : Ctx W) : ∃ c', Ctx.internal_final P .wrapping c = some c' := by
  simp [Ctx.internal_final, Engine.increment_counter, addAssign]

/-- `finalize_at(out)`: refused iff the buffer has another length than the context's output length -/
theorem finalize_at_none_iff (P : Params W) (c : Ctx W) (outlen outLen : Nat) :
    Ctx.finalize_at P .wrapping c outlen outLen = none ↔ outLen ≠ outlen := by
  unfold Ctx.finalize_at
  by_cases h : outLen = outlen
  · obtain ⟨c', e⟩ := internal_final_wrapping P c
    simp [h, e]
  · simp [h]

theorem finalize_reset_at_none_iff (P : Params W) (c : Ctx W) (outlen outLen : Nat) :
    Ctx.finalize_reset_at P .wrapping c outlen outLen = none ↔ outLen ≠ outlen := by
  unfold Ctx.finalize_reset_at
  by_cases h : outLen = outlen
  · obtain ⟨c', e⟩ := internal_final_wrapping P c
    simp [h, e]
  · simp [h]

/-- `reset_with_key(key)` -/
theorem reset_with_key_none_iff (P : Params W) (c : Ctx W) (outlen : Nat) (key : Bytes) :
    Ctx.reset_with_key P c outlen key = none ↔ ¬ key.length ≤ P.maxKey := by
  constructor
  · intro h hk
    unfold Ctx.reset_with_key at h
    rw [if_neg (by simpa using hk)] at h
    split at h <;> cases h
  · exact reset_with_key_none P c outlen key

/-- `finalize_reset_with_key_at(key, out)`: wrong buffer length or a key longer than MAX_KEYLEN -/
theorem finalize_reset_with_key_at_none_iff (P : Params W) (c : Ctx W) (outlen : Nat) (key : Bytes) (outLen : Nat) :
    Ctx.finalize_reset_with_key_at P .wrapping c outlen key outLen = none ↔ (outLen ≠ outlen ∨ ¬ key.length ≤ P.maxKey) := by
  unfold Ctx.finalize_reset_with_key_at
  by_cases h : outLen = outlen
  · obtain ⟨c', e⟩ := internal_final_wrapping P c
    simp only [h, ne_eq, not_true_eq_false, if_false, e, false_or]
    rw [← reset_with_key_none_iff P c' outlen key]
    cases Ctx.reset_with_key P c' outlen key <;> simp
  · simp [h]

/-- `update_mut` has no invalid argument: the `while` loop never fails with the wrapping counter -/
theorem update_loop_wrapping (P : Params W) : ∀ (fuel : Nat) (e : Engine W) (input : Bytes),
    ∃ r, Ctx.update_loop P .wrapping fuel e input = some r := by
  intro fuel
  induction fuel with
  | zero => intro e input; exact ⟨_, rfl⟩
  | succ n ih =>
    intro e input
    unfold Ctx.update_loop
    split
    · simp only [Engine.increment_counter, addAssign]
      exact ih _ _
    · exact ⟨_, rfl⟩

theorem update_mut_wrapping (P : Params W) (c : Ctx W) (input : Bytes) :
    ∃ c', Ctx.update_mut P .wrapping c input = some c' := by
  unfold Ctx.update_mut
  split
  · exact ⟨_, rfl⟩
  · simp only []
    split
    · simp only [Engine.increment_counter, addAssign]
      obtain ⟨r, e⟩ := update_loop_wrapping P (input.drop (P.bb - c.buflen)).length
        (({ c.eng with t0 := (c.eng.t0 + P.bb) % 2 ^ Word.bits W,
                       t1 := (c.eng.t1 + if (c.eng.t0 + P.bb) % 2 ^ Word.bits W < P.bb then 1 else 0) % 2 ^ Word.bits W } : Engine W).compress P
          ((setSlice c.buf c.buflen (input.take (P.bb - c.buflen))).take P.bb) .No) (input.drop (P.bb - c.buflen))
      rw [e]
      exact ⟨_, rfl⟩
    · exact ⟨_, rfl⟩

/-! ### the two instances with their numbers -/

theorem b_maxOut : Impl.Blake2.b.maxOut = 64 := by decide
theorem b_maxKey : Impl.Blake2.b.maxKey = 64 := by decide
theorem s_maxOut : Impl.Blake2.s.maxOut = 32 := by decide
theorem s_maxKey : Impl.Blake2.s.maxKey = 32 := by decide

end blake2

/-! ## SHA-3 / Keccak -/
section sha3
open Cx.Impl.Sha3

/-- `process` after finalisation: `panic!("Invalid state, absorb phase already finalized.")` -/
theorem sha3_process_refused (dl : Nat) (e : Engine) (data : Bytes) (h : e.can_absorb = false) :
    Engine.process dl e data = none := by
  simp [Engine.process, h]

/-- `finalize` twice: `assert!(self.can_absorb)` -/
theorem sha3_finalize_refused (dl ds : Nat) (e : Engine) (h : e.can_absorb = false) :
    Engine.finalize dl ds e = none := by
  simp [Engine.finalize, h]

/-- `output` when everything has been squeezed: `panic!("Nothing left to squeeze.")` -/
theorem sha3_output_refused (dl ds : Nat) (e : Engine) (n : Nat) (h : e.can_squeeze = false) :
    Engine.output dl ds e n = none := by
  simp [Engine.output, h]

/-- the state in which the engine refuses -/
def Sha3Usable (e : Engine) : Prop := e.can_absorb = true ∧ e.can_squeeze = true

theorem sha3_new_usable : Sha3Usable Context.new := ⟨rfl, rfl⟩
theorem sha3_reset_usable (c : Context) : Sha3Usable (Context.reset c) := ⟨rfl, rfl⟩

/-- `update` / `update_mut` keep both flags -/
theorem sha3_update_usable (dl : Nat) (c c' : Context) (d : Bytes) (hc : Sha3Usable c)
    (h : Context.update_mut dl c d = some c') : Sha3Usable c' := by
  unfold Context.update_mut Engine.process at h
  simp only [hc.1, Bool.not_true, Bool.false_eq_true, if_false] at h
  cases hr : rate dl with
  | none => simp [hr] at h
  | some r =>
    simp only [hr, Option.bind_eq_bind, Option.bind_some] at h
    split at h
    · cases h
    · cases ha : absorb_loop r c.state c.offset d with
      | none => simp [ha] at h
      | some p =>
        simp only [ha, Option.bind_some, Option.pure_def, Option.some.injEq] at h
        subst h
        exact ⟨rfl, hc.2⟩

/-- `finalize_reset` ends with `reset()`: the context is usable again; `finalize` consumes the context (a move in
    Rust), so no public method can be called on a squeezed engine -/
theorem sha3_finalize_reset_usable (dl ds : Nat) (c c' : Context) (out : Bytes)
    (h : Context.finalize_reset dl ds c = some (c', out)) : Sha3Usable c' := by
  unfold Context.finalize_reset at h
  cases ho : Engine.output dl ds c dl with
  | none => simp [ho] at h
  | some p =>
    simp only [ho, Option.bind_eq_bind, Option.bind_some, Option.pure_def, Option.some.injEq, Prod.mk.injEq] at h
    rw [← h.1]
    exact ⟨rfl, rfl⟩

end sha3

end Cx.Proofs.Refusal
