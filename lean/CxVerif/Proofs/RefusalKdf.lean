/-
  Proofs.RefusalKdf — C20 refusal matrix, key-derivation functions (src/hkdf.rs, src/pbkdf2.rs, src/scrypt.rs).

  Documented / asserted domains (quoted):
    hkdf.rs    hkdf_extract  "prk - The output buffer to fill with a `digest.output_bytes()` length pseudo random key."
                             `assert!(prk.len() == digest.output_bytes());`
               hkdf_expand   RFC 5869 §2.3 "L … (<= 255*HashLen)";  `n = n.checked_add(1).expect("HKDF size limit exceeded.");` (n: u8)
                             "prk - The pseudorandom key of at least `digest.output_bytes()` octets." (RFC 5869 §2.3 "PRK  a
                             pseudorandom key of at least HashLen octets"): `assert!(prk.len() >= digest.output_bytes());`
                             (added by the repair of defect (m): before it any PRK length was accepted and a value returned —
                             witness `hkdf_expand_old_short_prk`)
    pbkdf2.rs  pbkdf2        `assert!(c > 0);`   `idx = idx.checked_add(1).expect("PBKDF2 size limit exceeded.");` (idx: u32):
                             RFC 8018 §5.2 "If dkLen > (2^32 - 1) * hLen, output "derived key too long" and stop."
    scrypt.rs  ScryptParams::new   every constraint of RFC 7914 §2 / §6 within `usize` (theorem `scrypt_params_accepts_iff`)
               scrypt        `assert!(output.len() > 0); assert!(output.len() / 32 <= 0xffffffff);` and the PBKDF2 limit
-/
import CxVerif.Props.C10.Kdf
import CxVerif.Props.C10.Scrypt
namespace Cx.Proofs.Refusal
open Cx Cx.Impl.Digest Cx.Impl.Hmac Cx.Impl.Kdf Cx.Proofs.MacObj Cx.Proofs.MacHmac Cx.Proofs.MacLegacy Cx.Props.C10
set_option linter.unusedSimpArgs false
set_option linter.unusedVariables false

/-! ### the documented domains -/

/-- `hkdf_extract(digest, salt, ikm, prk)`: the PRK buffer has exactly HashLen bytes -/
def ValidHkdfExtract (hashLen prkLen : Nat) : Prop := prkLen = hashLen
/-- `hkdf_expand(digest, prk, info, okm)`: the PRK has at least HashLen bytes and L ≤ 255·HashLen -/
def ValidHkdfExpand (hashLen prkLen okmLen : Nat) : Prop := hashLen ≤ prkLen ∧ okmLen ≤ 255 * hashLen
/-- `pbkdf2(mac, salt, c, output)`: c ≥ 1 and dkLen ≤ (2^32 − 1)·hLen -/
def ValidPbkdf2 (hLen c dkLen : Nat) : Prop := 0 < c ∧ dkLen ≤ (2 ^ 32 - 1) * hLen
/-- `ScryptParams::new(log_n, r, p)`: RFC 7914 (N = 2^log_n > 1, N < 2^(128·r/8), p ≤ ((2^32−1)·32)/(128·r), r, p > 0)
    and the buffers addressable with a 64-bit `usize` -/
def ValidScryptParams (log_n r p : Nat) : Prop :=
  0 < r ∧ 0 < p ∧ 0 < log_n ∧ log_n < 64 ∧ log_n < 16 * r ∧ r * p < 2 ^ 30 ∧
    128 * r * 2 ^ log_n < 2 ^ 64 ∧ 128 * r * p < 2 ^ 64
/-- `scrypt(password, salt, params, output)`: RFC 7914 "dkLen … a positive integer less than or equal to (2^32 - 1) * hLen", hLen = 32 -/
def ValidScryptOut (dkLen : Nat) : Prop := 0 < dkLen ∧ dkLen ≤ (2 ^ 32 - 1) * 32

instance (a b : Nat) : Decidable (ValidHkdfExtract a b) := by unfold ValidHkdfExtract; infer_instance
instance (a b c : Nat) : Decidable (ValidHkdfExpand a b c) := by unfold ValidHkdfExpand; infer_instance
instance (a b c : Nat) : Decidable (ValidPbkdf2 a b c) := by unfold ValidPbkdf2; infer_instance
instance (a b c : Nat) : Decidable (ValidScryptParams a b c) := by unfold ValidScryptParams; infer_instance
instance (a : Nat) : Decidable (ValidScryptOut a) := by unfold ValidScryptOut; infer_instance

/-! ### HKDF over a legacy wrapper `X` (`HkdfCorrect M H B L ok`: proved for the wrappers in Props/C10) -/

theorem hkdf_extract_none_iff {γ : Type} (M : CtxModel γ) (H : Fn) (B L : Nat) (ok : Bytes → Prop)
    (hC : HkdfCorrect M H B L ok) (salt ikm : Bytes) (prkLen : Nat) (hk : salt.length ≤ B ∨ ok salt)
    (h1 : ok (ikey H B salt ++ ikm)) (h2 : ok (okey H B salt ++ H (ikey H B salt ++ ikm))) :
    hkdf_extract (legacyDigest M) (Legacy.new M) salt ikm prkLen = none ↔ ¬ ValidHkdfExtract L prkLen := by
  rw [hC.1 salt ikm prkLen hk h1 h2]
  unfold ValidHkdfExtract
  split <;> simp [*]

theorem hkdf_extract_ok {γ : Type} (M : CtxModel γ) (H : Fn) (B L : Nat) (ok : Bytes → Prop)
    (hC : HkdfCorrect M H B L ok) (salt ikm : Bytes) (prkLen : Nat) (hk : salt.length ≤ B ∨ ok salt)
    (h1 : ok (ikey H B salt ++ ikm)) (h2 : ok (okey H B salt ++ H (ikey H B salt ++ ikm)))
    (hv : ValidHkdfExtract L prkLen) :
    hkdf_extract (legacyDigest M) (Legacy.new M) salt ikm prkLen = some (Spec.Kdf.hkdfExtract H B salt ikm) := by
  have hv' : prkLen = L := hv
  rw [hC.1 salt ikm prkLen hk h1 h2, if_pos hv']

theorem hkdf_expand_none_iff {γ : Type} (M : CtxModel γ) (H : Fn) (B L : Nat) (ok : Bytes → Prop)
    (hC : HkdfCorrect M H B L ok) (prk info : Bytes) (okmLen : Nat) (hk : prk.length ≤ B ∨ ok prk)
    (hok : ∀ x : Bytes, x.length ≤ L + info.length + 1 →
      ok (ikey H B prk ++ x) ∧ ok (okey H B prk ++ H (ikey H B prk ++ x))) :
    hkdf_expand (legacyDigest M) (Legacy.new M) prk info okmLen = none ↔ ¬ ValidHkdfExpand L prk.length okmLen := by
  rw [hC.2 prk info okmLen hk hok, hkdf_expand_limit]
  unfold ValidHkdfExpand; omega

/-- the same with the two refused length classes spelled out: a PRK shorter than HashLen, an output beyond 255·HashLen -/
theorem hkdf_expand_none_iff_lengths {γ : Type} (M : CtxModel γ) (H : Fn) (B L : Nat) (ok : Bytes → Prop)
    (hC : HkdfCorrect M H B L ok) (prk info : Bytes) (okmLen : Nat) (hk : prk.length ≤ B ∨ ok prk)
    (hok : ∀ x : Bytes, x.length ≤ L + info.length + 1 →
      ok (ikey H B prk ++ x) ∧ ok (okey H B prk ++ H (ikey H B prk ++ x))) :
    hkdf_expand (legacyDigest M) (Legacy.new M) prk info okmLen = none ↔ (prk.length < L ∨ 255 * L < okmLen) := by
  rw [hC.2 prk info okmLen hk hok, hkdf_expand_limit]

theorem hkdf_expand_ok {γ : Type} (M : CtxModel γ) (H : Fn) (B L : Nat) (ok : Bytes → Prop)
    (hC : HkdfCorrect M H B L ok) (prk info : Bytes) (okmLen : Nat) (hk : prk.length ≤ B ∨ ok prk)
    (hok : ∀ x : Bytes, x.length ≤ L + info.length + 1 →
      ok (ikey H B prk ++ x) ∧ ok (okey H B prk ++ H (ikey H B prk ++ x)))
    (hv : ValidHkdfExpand L prk.length okmLen) :
    hkdf_expand (legacyDigest M) (Legacy.new M) prk info okmLen
      = some (Spec.Kdf.hkdfOkm (Spec.Hmac.hmac H B) L prk info okmLen) := by
  rw [hC.2 prk info okmLen hk hok, hkdf_expand_value H B L prk info okmLen hv.1 hv.2]

/-- WITNESS of the repaired defect (m) in the terms of the matrix: the call `hkdf_expand(Sha256::new(), &[0x0b], b"info",
    &mut [0; 33])` is outside the documented domain (a 1-byte PRK, HashLen = 32); the function as it was before
    `assert!(prk.len() >= digest.output_bytes())` answered it with 33 bytes, the repaired function refuses it -/
theorem hkdf_expand_old_short_prk :
    ¬ ValidHkdfExpand 32 ([0x0b] : Bytes).length 33 ∧
    (∃ okm : Bytes, okm.length = 33 ∧
      hkdf_expand_old (legacyDigest sha256Ctx) (Legacy.new sha256Ctx)
        [0x0b] [0x69, 0x6e, 0x66, 0x6f] 33 = some okm) ∧
    hkdf_expand (legacyDigest sha256Ctx) (Legacy.new sha256Ctx)
      [0x0b] [0x69, 0x6e, 0x66, 0x6f] 33 = none := by
  obtain ⟨_, h1, h2, h3, _⟩ := hkdf_expand_old_accepts_short_prk
  exact ⟨by decide, ⟨_, h2, h1⟩, h3⟩

/-! ### PBKDF2 with HMAC over a legacy wrapper -/

theorem pbkdf2_none_iff {γ : Type} (M : CtxModel γ) (H : Fn) (B L : Nat) (ok : Bytes → Prop)
    (hC : Pbkdf2HmacCorrect M H B L ok) (pwd salt : Bytes) (c dkLen : Nat) (hk : pwd.length ≤ B ∨ ok pwd)
    (hok : ∀ x : Bytes, (x.length = L ∨ ∃ i, x = salt ++ natToBE 4 i) →
      ok (ikey H B pwd ++ x) ∧ ok (okey H B pwd ++ H (ikey H B pwd ++ x))) :
    ∃ mac, Hmac.new (legacyDigest M) (Legacy.new M) pwd = some mac ∧
      (pbkdf2 (hmacMac (legacyDigest M)) mac salt c dkLen = none ↔ ¬ ValidPbkdf2 L c dkLen) := by
  obtain ⟨mac, e, h⟩ := hC pwd salt c dkLen hk hok
  refine ⟨mac, e, ?_⟩
  have hl := pbkdf2_limit (Spec.Hmac.hmac H B) L pwd salt c dkLen
  unfold Spec.Kdf.pbkdf2Hmac at h
  rw [← h] at hl
  have : (pbkdf2 (hmacMac (legacyDigest M)) mac salt c dkLen = none) ↔
      (Option.map (·.2) (pbkdf2 (hmacMac (legacyDigest M)) mac salt c dkLen) = none) := by
    cases pbkdf2 (hmacMac (legacyDigest M)) mac salt c dkLen <;> simp
  rw [this, hl]
  unfold ValidPbkdf2; omega

/-- `c = 0` is refused for EVERY MAC object, before anything is computed -/
theorem pbkdf2_c0_refused {μ : Type} (Mm : MacModel μ) (mac : μ) (salt : Bytes) (dkLen : Nat) :
    pbkdf2 Mm mac salt 0 dkLen = none := by
  simp [pbkdf2]

/-! ### scrypt -/

theorem scrypt_params_none_iff (log_n r p : Nat) :
    ScryptParams.new log_n r p = none ↔ ¬ ValidScryptParams log_n r p := by
  have h := Cx.Proofs.KdfScrypt.new_iff log_n r p
  have e1 : 128 * r * 2 ^ log_n = r * 128 * 2 ^ log_n := by rw [Nat.mul_comm 128 r]
  have e2 : 128 * r * p = r * 128 * p := by rw [Nat.mul_comm 128 r]
  have key : 0 < p → r ≤ r * p := fun hp => Nat.le_mul_of_pos_right r hp
  unfold ValidScryptParams
  rw [e1, e2]
  generalize r * 128 * 2 ^ log_n = a at h ⊢
  generalize r * 128 * p = b at h ⊢
  generalize r * p = c at h key ⊢
  cases hn : ScryptParams.new log_n r p with
  | none =>
    rw [hn] at h
    simp only [Option.isSome_none, Bool.false_eq_true, false_iff, true_iff] at h ⊢
    intro hv; apply h
    obtain ⟨h1, h2, h3, h4, h5, h6, h7, h8⟩ := hv
    have := key h2
    exact ⟨h1, h2, h3, h4, by omega, h7, h8, by omega, h6⟩
  | some v =>
    rw [hn] at h
    simp only [Option.isSome_some, true_iff] at h
    simp only [reduceCtorEq, false_iff, Decidable.not_not]
    obtain ⟨h1, h2, h3, h4, h5, h6, h7, h8, h9⟩ := h
    exact ⟨h1, h2, h3, h4, by omega, h9, h6, h7⟩

theorem scrypt_params_ok (log_n r p : Nat) (hv : ValidScryptParams log_n r p) :
    ∃ params, ScryptParams.new log_n r p = some params := by
  cases h : ScryptParams.new log_n r p with
  | some v => exact ⟨v, rfl⟩
  | none => exact absurd hv ((scrypt_params_none_iff log_n r p).mp h)

/-- the two asserts of `scrypt` refuse for EVERY parameter set, before any memory is allocated -/
theorem scrypt_out_refused (P S : Bytes) (params : ScryptParams) (dkLen : Nat)
    (h : dkLen = 0 ∨ (2 ^ 32 - 1) * 32 + 31 < dkLen) : scrypt P S params dkLen = none := by
  unfold scrypt
  rcases h with h | h
  · simp [h]
  · rw [if_neg (by omega), if_pos (by omega)]

theorem spec_pbkdf2_some (prf : Bytes → Bytes → Bytes) (L : Nat) (P S : Bytes) (dkLen : Nat)
    (h : dkLen ≤ (2 ^ 32 - 1) * L) : ∃ v, Spec.Kdf.pbkdf2 prf L P S 1 dkLen = some v := by
  cases hv : Spec.Kdf.pbkdf2 prf L P S 1 dkLen with
  | some v => exact ⟨v, rfl⟩
  | none =>
    have := (pbkdf2_limit prf L P S 1 dkLen).mp hv
    omega

/-- **scrypt, complete decision** (guards of `scrypt_spec`: the 32-bit Integerify, scratch memory inside `usize`,
    password and salt inside SHA-256's domain): the call chain `ScryptParams::new(log_n, r, p)` then
    `scrypt(P, S, &params, out[dkLen])` returns a key iff the parameters and the length are RFC 7914's; in particular
    the lengths `(2^32−1)·32 < dkLen ≤ (2^32−1)·32 + 31`, which pass scrypt's own assert, are refused by PBKDF2 -/
theorem scrypt_none_iff (P S : Bytes) (log_n r p dkLen : Nat) (hlog : log_n ≤ 32) (hmem : 128 * r * 2 ^ log_n < 2 ^ 64)
    (hP : P.length < 2 ^ 61) (hS : S.length + 68 < 2 ^ 61) :
    (ScryptParams.new log_n r p).bind (fun params => scrypt P S params dkLen) = none ↔
      ¬ (ValidScryptParams log_n r p ∧ ValidScryptOut dkLen) := by
  rw [scrypt_spec P S log_n r p dkLen hlog hmem hP hS]
  have hval := Cx.Proofs.KdfScrypt.valid_iff log_n r p dkLen
  by_cases hv : Spec.Kdf.scryptValid (2 ^ log_n) r p dkLen = true
  · obtain ⟨a1, a2, a3, a4, a5, a6, a7⟩ := hval.mp hv
    have hrp : 128 * r * p < 2 ^ 64 := by
      have : 128 * r * p = 128 * (r * p) := by rw [Nat.mul_assoc]
      rw [this]; omega
    have hvalid : ValidScryptParams log_n r p ∧ ValidScryptOut dkLen :=
      ⟨⟨a2, a4, a1, by omega, a3, a5, hmem, hrp⟩, a6, a7⟩
    simp only [hvalid, not_true_eq_false, iff_false]
    unfold Spec.Kdf.scrypt
    rw [if_pos hv]
    have hB : p * (128 * r) ≤ (2 ^ 32 - 1) * 32 := by
      have : p * (128 * r) = 128 * (r * p) := by rw [Nat.mul_comm r p, Nat.mul_left_comm]
      rw [this]; omega
    obtain ⟨B, eB⟩ := spec_pbkdf2_some Spec.Kdf.hmacSha256 32 P S (p * (128 * r)) hB
    rw [eB]
    simp only []
    obtain ⟨dk, edk⟩ := spec_pbkdf2_some Spec.Kdf.hmacSha256 32 P
      ((takeBlocks (128 * r) p B).map (Spec.Kdf.roMix r (2 ^ log_n))).flatten dkLen a7
    rw [edk]; simp
  · have hnone : Spec.Kdf.scrypt P S (2 ^ log_n) r p dkLen = none := by
      simp [Spec.Kdf.scrypt, hv]
    rw [hnone]
    simp only [true_iff]
    rintro ⟨⟨b1, b2, b3, b4, b5, b6, b7, b8⟩, c1, c2⟩
    exact hv (hval.mpr ⟨b3, b1, b5, b2, b6, c1, c2⟩)

end Cx.Proofs.Refusal
