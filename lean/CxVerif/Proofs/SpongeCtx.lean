/-
  Proofs.SpongeCtx — the context state machine {update, update_mut, clone, swap, reset, finalize_reset, finalize}
  refines the abstract state "bytes since the last reset", for every operation history.  The machine is the one the
  correspondence driver executes (`Driver.Sha3.runImpl` on the code-shaped model, `Driver.Sha3.runSpec` on byte
  strings + Spec), so the theorem covers literally every `hctx.<alg>` line the harness can be given.
-/
import CxVerif.Proofs.SpongeHash
import CxVerif.Driver.Sha3
namespace Cx.Proofs.Sponge
open Cx Cx.Spec.Keccak Cx.Impl.Sha3 Cx.Proofs.Keccak Cx.Driver.Sha3

/-- `reset` of any engine whose state array has its 200 bytes is exactly `Engine::new()` -/
theorem reset_eq_new (e : Engine) (h : e.state.length = 200) : Engine.reset e = Engine.new := by
  unfold Engine.reset Engine.new
  rw [h]; rfl

theorem reset_engine_of (r : Nat) (m : Bytes) : Context.reset (engine_of r m) = Context.new :=
  reset_eq_new _ (engine_of_state_length r m)

/-- `finalize_reset` returns the sponge digest of the absorbed bytes and leaves exactly `new()` -/
theorem finalize_reset_spec {dl ds r : Nat} {sfx : List Bool} (hv : Variant dl ds r sfx) (m : Bytes) :
    Context.finalize_reset dl ds (engine_of r m) = some (Context.new, sponge r m sfx dl) := by
  obtain ⟨e', ho, _, _, hl⟩ := output_spec hv m
  unfold Context.finalize_reset
  rw [ho]
  simp only [Option.bind_eq_bind, Option.bind_some, Option.pure_def]
  rw [reset_eq_new e' hl]; rfl

theorem finalize_spec' {dl ds r : Nat} {sfx : List Bool} (hv : Variant dl ds r sfx) (m : Bytes) :
    Context.finalize dl ds (engine_of r m) = some (sponge r m sfx dl) := by
  obtain ⟨e', ho, _⟩ := output_spec hv m
  unfold Context.finalize
  rw [ho]; rfl

/-- an algorithm entry of the driver is one of the verified instantiations and its `spec` is the FIPS 202 function -/
structure AlgOk (a : Alg) (r : Nat) (sfx : List Bool) : Prop where
  hv : Variant a.dl a.ds r sfx
  hspec : ∀ m, a.spec m = sponge r m sfx a.dl

/-- refinement, lifted over arbitrary operation histories (current context + stack of clones) -/
theorem run_refines {a : Alg} {r : Nat} {sfx : List Bool} (ok : AlgOk a r sfx) :
    ∀ (ops : List Op) (cur : Bytes) (st : List Bytes) (out : List Bytes),
      runImpl a ops (engine_of r cur) (st.map (engine_of r)) out = some (runSpec a ops cur st out) := by
  have hr := ok.hv.r_pos
  intro ops
  induction ops with
  | nil => intro cur st out; rfl
  | cons op ops ih =>
    intro cur st out
    cases op with
    | upd consuming d =>
      cases consuming with
      | true =>
        simp only [runImpl, runSpec, Context.update, process_spec a.dl r ok.hv.hrate hr cur d]
        exact ih _ _ _
      | false =>
        simp only [runImpl, runSpec, Context.update_mut, process_spec a.dl r ok.hv.hrate hr cur d]
        exact ih _ _ _
    | clone =>
      simp only [runImpl, runSpec]
      exact ih cur (cur :: st) out
    | swap =>
      cases st with
      | nil => simp only [runImpl, runSpec, List.map_nil]; exact ih cur [] out
      | cons top st => simp only [runImpl, runSpec, List.map_cons]; exact ih top (cur :: st) out
    | reset =>
      simp only [runImpl, runSpec, reset_engine_of]
      have := ih [] st out
      rw [engine_of_nil r hr] at this
      exact this
    | finReset =>
      simp only [runImpl, runSpec, finalize_reset_spec ok.hv cur, ok.hspec]
      have := ih [] st (sponge r cur sfx a.dl :: out)
      rw [engine_of_nil r hr] at this
      exact this
    | finClone =>
      simp only [runImpl, runSpec, finalize_spec' ok.hv cur, ok.hspec]
      exact ih _ _ _

/-- the eight entries of the driver's table -/
theorem algs_ok : ∀ a ∈ algs, ∃ r sfx, AlgOk a r sfx := by
  intro a ha
  simp only [algs, List.mem_cons, List.mem_nil_iff, or_false] at ha
  rcases ha with rfl | rfl | rfl | rfl | rfl | rfl | rfl | rfl
  · exact ⟨144, [false, true], variant_sha3_224, fun _ => rfl⟩
  · exact ⟨136, [false, true], variant_sha3_256, fun _ => rfl⟩
  · exact ⟨104, [false, true], variant_sha3_384, fun _ => rfl⟩
  · exact ⟨72, [false, true], variant_sha3_512, fun _ => rfl⟩
  · exact ⟨144, [], variant_keccak224, fun _ => rfl⟩
  · exact ⟨136, [], variant_keccak256, fun _ => rfl⟩
  · exact ⟨104, [], variant_keccak384, fun _ => rfl⟩
  · exact ⟨72, [], variant_keccak512, fun _ => rfl⟩

/-- every history, started from `new()`, on every algorithm: the model's digests are the Spec's digests of the
    bytes fed since the last reset, and the model never panics -/
theorem run_from_new (a : Alg) (ha : a ∈ algs) (ops : List Op) :
    runImpl a ops Context.new [] [] = some (runSpec a ops [] [] []) := by
  obtain ⟨r, sfx, ok⟩ := algs_ok a ha
  have := run_refines ok ops [] [] []
  rw [engine_of_nil r ok.hv.r_pos] at this
  exact this

/-- feeding a message in pieces (any number, any sizes, empty pieces included) -/
theorem feed_chunks {dl r : Nat} (hrate : rate dl = some r) (hr : 0 < r) (chunks : List Bytes) (m : Bytes) :
    chunks.foldlM (Context.update_mut dl) (engine_of r m) = some (engine_of r (m ++ chunks.flatten)) := by
  induction chunks generalizing m with
  | nil => simp
  | cons c cs ih =>
    rw [List.foldlM_cons]
    simp only [Context.update_mut, process_spec dl r hrate hr m c, Option.bind_eq_bind, Option.bind_some]
    rw [ih (m ++ c)]; simp

/-! ## the two Lean executors of the correspondence agree on EVERY request line of these ops
   (so `cxdrv impl` ≠ `cxdrv spec` can never be the reason of a reported disagreement) -/

theorem driver_hctx_agree (a : Alg) (ha : a ∈ algs) (args : List String) : hctxImpl a args = hctxSpec a args := by
  unfold hctxImpl hctxSpec h1
  match args with
  | [] => rfl
  | [p] =>
    simp only
    cases parseProg p with
    | none => rfl
    | some ops => simp only [Option.map_some, run_from_new a ha ops]
  | _ :: _ :: _ => rfl

theorem driver_hash_agree (a : Alg) (ha : a ∈ algs) (args : List String) : hashImpl a args = hashSpec a args := by
  obtain ⟨r, sfx, ok⟩ := algs_ok a ha
  unfold hashImpl hashSpec h1
  match args with
  | [] => rfl
  | [p] =>
    simp only
    cases hexArg p with
    | none => rfl
    | some msg =>
      have h1 := hash_spec ok.hv msg
      have h2 : (Context.update a.dl Context.new msg).bind (Context.finalize a.dl a.ds) = some (sponge r msg sfx a.dl) := h1
      simp only [Option.map_some, h1, h2, ok.hspec]
  | _ :: _ :: _ => rfl

end Cx.Proofs.Sponge
