/-
  Proofs.AeadHist — operation histories of the incremental AEAD interface refine the abstract machine
  "(phase, aad so far, ciphertext so far)".  Induction over the call history (C06/C07).
-/
import CxVerif.Proofs.Aead
import CxVerif.Props.C18
namespace Cx.Proofs.Aead
open Cx Cx.Impl Cx.Impl.Aead
set_option linter.unusedSimpArgs false
set_option linter.unusedVariables false

variable {σ : Type}

/-! ## the abstract machine -/

/-- abstract state of an incremental object: the phase (which wrapper type), all AAD bytes so far, all
    CIPHERTEXT bytes so far (in both directions the ciphertext is what is authenticated) -/
structure AbsSt where
  phase : Phase
  aad : Bytes
  ct : Bytes

/-- one call on the abstract state, written with the RFC functions only; `none` = the call is refused
    (ill-typed for the phase, output buffer of another length, tag not 16 bytes) -/
def absStep (R : Nat) (key nonce : Bytes) (a : AbsSt) (op : Op) : Option (AbsSt × List Out) :=
  match a.phase, op with
  | .aad, .addData d => some ({ a with aad := a.aad ++ d }, [])
  | .aad, .toEnc => some ({ a with phase := .enc }, [])
  | .aad, .toDec => some ({ a with phase := .dec }, [])
  | .enc, .encrypt d n =>
    if d.length = n then
      some ({ a with ct := a.ct ++ Spec.ChaCha.encrypt R key nonce (64 + a.ct.length) d },
            [.bytes (Spec.ChaCha.encrypt R key nonce (64 + a.ct.length) d)])
    else none
  | .enc, .encryptMut d =>
    some ({ a with ct := a.ct ++ Spec.ChaCha.encrypt R key nonce (64 + a.ct.length) d },
          [.bytes (Spec.ChaCha.encrypt R key nonce (64 + a.ct.length) d)])
  | .enc, .finalizeEnc => some ({ a with phase := .done }, [.bytes (Spec.Aead.tag R key nonce a.aad a.ct)])
  | .dec, .decrypt d n =>
    if d.length = n then
      some ({ a with ct := a.ct ++ d }, [.bytes (Spec.ChaCha.encrypt R key nonce (64 + a.ct.length) d)])
    else none
  | .dec, .decryptMut d =>
    some ({ a with ct := a.ct ++ d }, [.bytes (Spec.ChaCha.encrypt R key nonce (64 + a.ct.length) d)])
  | .dec, .finalizeDec t =>
    if t.length = 16 then
      some ({ a with phase := .done }, [.verdict (decide (t = Spec.Aead.tag R key nonce a.aad a.ct))])
    else none
  | _, _ => none

def absRun (R : Nat) (key nonce : Bytes) : AbsSt → List Op → Option (AbsSt × List Out)
  | a, [] => some (a, [])
  | a, op :: ops =>
    match absStep R key nonce a op with
    | none => none
    | some (a', o) =>
      match absRun R key nonce a' ops with
      | none => none
      | some (a'', os) => some (a'', o ++ os)

/-- lengths only grow -/
theorem absStep_mono (R : Nat) (key nonce : Bytes) (a a' : AbsSt) (op : Op) (outs : List Out)
    (h : absStep R key nonce a op = some (a', outs)) : a.aad.length ≤ a'.aad.length ∧ a.ct.length ≤ a'.ct.length := by
  obtain ⟨ph, aad, ct⟩ := a
  cases ph <;> cases op <;> simp only [absStep] at h <;> (try split at h) <;> cases h <;> simp

theorem absRun_mono (R : Nat) (key nonce : Bytes) : ∀ (ops : List Op) (a a' : AbsSt) (outs : List Out),
    absRun R key nonce a ops = some (a', outs) → a.aad.length ≤ a'.aad.length ∧ a.ct.length ≤ a'.ct.length := by
  intro ops
  induction ops with
  | nil => intro a a' outs h; simp only [absRun, Option.some.injEq, Prod.mk.injEq] at h; obtain ⟨rfl, _⟩ := h; simp
  | cons op ops ih =>
    intro a a' outs h
    cases h1 : absStep R key nonce a op with
    | none => simp only [absRun, h1] at h; cases h
    | some r =>
      obtain ⟨a1, o⟩ := r
      simp only [absRun, h1] at h
      cases h2 : absRun R key nonce a1 ops with
      | none => simp only [h2] at h; cases h
      | some r2 =>
        obtain ⟨a2, os⟩ := r2
        simp only [h2] at h
        simp only [Option.some.injEq, Prod.mk.injEq] at h
        obtain ⟨rfl, _⟩ := h
        have m1 := absStep_mono R key nonce a a1 op o h1
        have m2 := ih a1 a2 os h2
        omega

/-! ## `Tag ==` -/

theorem tag_length (R : Nat) (key nonce aad ct : Bytes) : (Spec.Aead.tag R key nonce aad ct).length = 16 := by
  simp [Spec.Aead.tag, Spec.Poly1305.mac, natToLE_length]

/-- `impl PartialEq for Tag` on two 16-byte arrays is plain equality of all 16 bytes (C18 array theorem) -/
theorem tag_eq_spec (a b : Bytes) (hl : a.length = b.length) : Tag.eq a b = decide (a = b) :=
  Cx.Props.C18.array_u8_ct_eq_spec a b hl

/-! ## refinement -/

section hist
variable {E : ChaCha.Engine σ} {R : Nat} {key nonce : Bytes} {At : StreamCtx.Ctx σ → Nat → Prop}

/-- the model state `(phase, context)` stands for the abstract state `a` -/
def Rel (R : Nat) (key nonce : Bytes) (At : StreamCtx.Ctx σ → Nat → Prop) (st : Phase × Context σ) (a : AbsSt) : Prop :=
  st.1 = a.phase ∧
  match a.phase with
  | .aad => a.ct = [] ∧ CtxInv R key nonce At st.2 a.aad a.aad.length 0
  | .enc => CtxInv R key nonce At st.2 (a.aad ++ Spec.Aead.pad16 a.aad ++ a.ct) a.aad.length a.ct.length
  | .dec => CtxInv R key nonce At st.2 (a.aad ++ Spec.Aead.pad16 a.aad ++ a.ct) a.aad.length a.ct.length
  | .done => True

/-- a fresh `Context::new(key, nonce)` stands for (aad phase, no AAD, no data) -/
theorem new_rel (D : CipherDeps E R key nonce At) :
    ∃ c, Context.new E R key nonce = .ok c ∧ Rel R key nonce At (.aad, c) ⟨.aad, [], []⟩ := by
  obtain ⟨c, h1, _, h3⟩ := new_inv D
  exact ⟨c, h1, rfl, rfl, h3⟩

/-- **one call refines one abstract step** (lengths within the RFC's domain) -/
theorem step_refines (D : CipherDeps E R key nonce At) (M : MacDeps) (st : Phase × Context σ) (a a' : AbsSt)
    (op : Op) (outs : List Out) (hrel : Rel R key nonce At st a)
    (habs : absStep R key nonce a op = some (a', outs))
    (hb : a'.aad.length < 2 ^ 64 ∧ a'.ct.length < 2 ^ 64) :
    ∃ st', step E R st op = .ok (st', outs) ∧ Rel R key nonce At st' a' := by
  obtain ⟨ph, aad, ct⟩ := a
  obtain ⟨sph, c⟩ := st
  obtain ⟨hph, hinv⟩ := hrel
  simp only at hph
  subst hph
  cases sph with
  | aad =>
    simp only at hinv
    obtain ⟨hct, hinv⟩ := hinv
    subst hct
    cases op <;> simp only [absStep] at habs <;> try (cases habs; done)
    case addData d =>
      cases habs
      simp only [List.length_append] at hb
      obtain ⟨c', h1, h2⟩ := add_data_inv D M c aad d aad.length 0 hinv hb.1
      refine ⟨(.aad, c'), by simp [step, h1], rfl, rfl, ?_⟩
      simpa [List.length_append] using h2
    case toEnc =>
      cases habs
      obtain ⟨c', h1, h2⟩ := to_encryption_inv D M c aad hinv
      exact ⟨(.enc, c'), by simp [step, h1], rfl, h2⟩
    case toDec =>
      cases habs
      obtain ⟨c', h1, h2⟩ := to_encryption_inv D M c aad hinv
      exact ⟨(.dec, c'), by simp [step, to_decryption_eq, h1], rfl, h2⟩
  | enc =>
    simp only at hinv
    cases op <;> simp only [absStep] at habs <;> try (cases habs; done)
    case encrypt d n =>
      split at habs
      · rename_i hn
        subst hn
        cases habs
        simp only [List.length_append, encrypt_length, Spec.ChaCha.encrypt] at hb
        obtain ⟨c', h1, h2⟩ := encrypt_inv D M c aad ct d hinv hb.2
        exact ⟨(.enc, c'), by simp [step, h1], rfl, h2⟩
      · cases habs
    case encryptMut d =>
      cases habs
      simp only [List.length_append, encrypt_length, Spec.ChaCha.encrypt] at hb
      obtain ⟨c', h1, h2⟩ := encrypt_mut_inv D M c aad ct d hinv hb.2
      exact ⟨(.enc, c'), by simp [step, h1], rfl, h2⟩
    case finalizeEnc =>
      cases habs
      obtain ⟨c', h1⟩ := finalize_raw_inv D M c aad ct hinv
      exact ⟨(.done, c), by simp [step, ContextEncryption.finalize, h1], rfl, trivial⟩
  | dec =>
    simp only at hinv
    cases op <;> simp only [absStep] at habs <;> try (cases habs; done)
    case decrypt d n =>
      split at habs
      · rename_i hn
        subst hn
        cases habs
        simp only [List.length_append] at hb
        obtain ⟨c', h1, h2⟩ := decrypt_inv D M c aad ct d hinv hb.2
        exact ⟨(.dec, c'), by simp [step, h1], rfl, h2⟩
      · cases habs
    case decryptMut d =>
      cases habs
      simp only [List.length_append] at hb
      obtain ⟨c', h1, h2⟩ := decrypt_mut_inv D M c aad ct d hinv hb.2
      exact ⟨(.dec, c'), by simp [step, h1], rfl, h2⟩
    case finalizeDec t =>
      split at habs
      · rename_i ht
        cases habs
        obtain ⟨c', h1⟩ := finalize_raw_inv D M c aad ct hinv
        refine ⟨(.done, c), ?_, rfl, trivial⟩
        have he : Tag.eq (Spec.Aead.tag R key nonce aad ct) t = decide (t = Spec.Aead.tag R key nonce aad ct) := by
          rw [tag_eq_spec _ _ (by rw [tag_length, ht])]
          simp [eq_comm]
        simp [step, ContextDecryption.finalize, ht, h1, he]
      · cases habs
  | done =>
    cases op <;> simp only [absStep] at habs <;> cases habs

/-- **any history refines the abstract run**, by induction over the calls -/
theorem run_refines (D : CipherDeps E R key nonce At) (M : MacDeps) :
    ∀ (ops : List Op) (st : Phase × Context σ) (a a' : AbsSt) (outs : List Out),
      Rel R key nonce At st a → absRun R key nonce a ops = some (a', outs) →
      a'.aad.length < 2 ^ 64 ∧ a'.ct.length < 2 ^ 64 →
      ∃ st', run E R st ops = .ok (st', outs) ∧ Rel R key nonce At st' a' := by
  intro ops
  induction ops with
  | nil =>
    intro st a a' outs hrel h hb
    simp only [absRun, Option.some.injEq, Prod.mk.injEq] at h
    obtain ⟨rfl, rfl⟩ := h
    exact ⟨st, rfl, hrel⟩
  | cons op ops ih =>
    intro st a a' outs hrel h hb
    cases h1 : absStep R key nonce a op with
    | none => simp only [absRun, h1] at h; cases h
    | some r =>
      obtain ⟨a1, o⟩ := r
      simp only [absRun, h1] at h
      cases h2 : absRun R key nonce a1 ops with
      | none => simp only [h2] at h; cases h
      | some r2 =>
        obtain ⟨a2, os⟩ := r2
        simp only [h2] at h
        simp only [Option.some.injEq, Prod.mk.injEq] at h
        obtain ⟨rfl, rfl⟩ := h
        have mono := absRun_mono R key nonce ops a1 a2 os h2
        obtain ⟨st1, hs, hrel1⟩ := step_refines D M st a a1 op o hrel h1 (by omega)
        obtain ⟨st2, hr, hrel2⟩ := ih st1 a1 a2 os hrel1 h2 hb
        exact ⟨st2, by simp [run, hs, hr], hrel2⟩

/-- from `Context::new` -/
theorem runNew_refines (D : CipherDeps E R key nonce At) (M : MacDeps) (ops : List Op) (a' : AbsSt) (outs : List Out)
    (h : absRun R key nonce ⟨.aad, [], []⟩ ops = some (a', outs))
    (hb : a'.aad.length < 2 ^ 64 ∧ a'.ct.length < 2 ^ 64) :
    runNew E R key nonce ops = .ok outs := by
  obtain ⟨c, hnew, hrel⟩ := new_rel D
  obtain ⟨st', hr, _⟩ := run_refines D M ops (.aad, c) _ a' outs hrel h hb
  simp [runNew, hnew, hr]

/-- conversely, what the abstract machine refuses the model refuses (no state needed): a call that is ill-typed for
    the phase, an output buffer of another length (`assert_eq!` panic), a tag that is not 16 bytes -/
theorem step_refuses (E : ChaCha.Engine σ) (R : Nat) (key nonce : Bytes) (st : Phase × Context σ) (a : AbsSt) (op : Op)
    (hph : st.1 = a.phase) (h : absStep R key nonce a op = none) : ∃ e, step E R st op = .error e := by
  obtain ⟨ph, aad, ct⟩ := a
  obtain ⟨sph, c⟩ := st
  simp only at hph
  subst hph
  cases sph <;> cases op <;> simp only [absStep] at h <;> try (cases h; done)
  all_goals first
    | exact ⟨_, rfl⟩
    | (split at h
       · cases h
       · rename_i hn
         simp [step, ContextEncryption.encrypt, ContextDecryption.decrypt, ContextDecryption.finalize, hn])

end hist

/-! ## the abstract machine on structured programs -/

/-- what a list of data calls emits from position `64 + |ct|` on: the pieces of the whole encryption -/
def dataOuts (R : Nat) (key nonce : Bytes) : Nat → List Bytes → List Out
  | _, [] => []
  | p, d :: ds => .bytes (Spec.ChaCha.encrypt R key nonce p d) :: dataOuts R key nonce (p + d.length) ds

theorem dataOuts_eq_cut (R : Nat) (key nonce : Bytes) : ∀ (ds : List Bytes) (p : Nat),
    dataOuts R key nonce p ds =
      (cutAt (ds.map List.length) (Spec.ChaCha.encrypt R key nonce p ds.flatten)).map Out.bytes := by
  intro ds
  induction ds with
  | nil => intro p; simp [dataOuts, cutAt]
  | cons d ds ih =>
    intro p
    have happ := encrypt_append (Spec.ChaCha.blockAt R key nonce) p d ds.flatten
    have hlen : (Spec.Stream.encrypt (Spec.ChaCha.blockAt R key nonce) p d).length = d.length := encrypt_length _ _ _
    simp only [dataOuts, List.map_cons, List.flatten_cons, cutAt, Spec.ChaCha.encrypt] at ih ⊢
    rw [happ, ih]
    congr 1
    · rw [← hlen, List.take_left']
      rfl
    · rw [← hlen, List.drop_left']
      rfl

end Cx.Proofs.Aead

