/-
  Proofs.KdfPbkdf2 — `pbkdf2` (Impl.Kdf, the model of src/pbkdf2.rs) over ANY MAC object satisfying the object
  contract with function `f` (= PRF(P, ·)) equals RFC 8018 PBKDF2: `calculate_block` = U_1 ⊕ … ⊕ U_c by induction on
  the iteration count (the code's c = 1 / c = 2 / `for _ in 2..c` structure), the block loop by induction on the chunk
  list (partial last block), refusal exactly for c = 0 and for more than 2^32 − 1 blocks.  Core Lean only.
-/
import CxVerif.Impl.Kdf
import CxVerif.Spec.Kdf
import CxVerif.Proofs.MacObj
namespace Cx.Proofs.KdfPbkdf2
open Cx Cx.Impl.Digest Cx.Impl.Kdf Cx.Proofs.MacObj

theorem xor_into_eq (a b : Bytes) (h : a.length = b.length) : xor_into a b = xorBytes a b := by
  simp [xor_into, xorBytes, h]

theorem xorBytes_length (a b : Bytes) : (xorBytes a b).length = min a.length b.length := by
  simp [xorBytes]

/-! ### the textbook F equals the iterated form used by the Spec -/

theorem Fiter_U (prf : Fn) (S : Bytes) (i : Nat) : ∀ (k j : Nat) (acc : Bytes),
    Spec.Kdf.Fiter prf k (Spec.Kdf.U prf S i j) acc
      = ((List.range k).map fun t => Spec.Kdf.U prf S i (j + 1 + t)).foldl xorBytes acc := by
  intro k
  induction k with
  | zero => intro j acc; rfl
  | succ k ih =>
    intro j acc
    have := ih (j + 1) (xorBytes acc (Spec.Kdf.U prf S i (j + 1)))
    simp only [Spec.Kdf.Fiter]
    rw [show prf (Spec.Kdf.U prf S i j) = Spec.Kdf.U prf S i (j + 1) from rfl, this, List.range_succ_eq_map]
    simp only [List.map_cons, List.foldl_cons, List.map_map]
    congr 2
    funext t
    congr 1
    omega

/-- the Spec's `F` is U_1 ⊕ U_2 ⊕ … ⊕ U_c of RFC 8018 -/
theorem F_eq_Fxor (prf : Fn) (S : Bytes) (c i : Nat) : Spec.Kdf.F prf S c i = Spec.Kdf.Fxor prf S c i := by
  have := Fiter_U prf S i (c - 1) 0 (Spec.Kdf.U prf S i 0)
  simp only [Spec.Kdf.F, Spec.Kdf.Fxor]
  rw [show prf (S ++ Spec.Kdf.INT i) = Spec.Kdf.U prf S i 0 from rfl, this]
  congr 2
  funext t
  simp [Nat.add_comm]

section
variable {μ : Type} (M : MacModel μ) {L : Nat} {sizes : List Nat} {fk : Bytes → Option Fn} {ok : Fn → Bytes → Prop}
  {Rel : μ → Fn → Bytes → Prop} {Fin : μ → Fn → Prop}

/-- one PRF call on a fresh MAC object: `input(x); raw_result(buf[L]); reset()` -/
theorem prf_call (hM : Contract (macFam M) L sizes fk ok Rel Fin) (f : Fn) (s : μ) (m x : Bytes) (hr : Rel s f m)
    (hok : ok f (m ++ x)) :
    ∃ s1 s2 s3, M.input s x = some s1 ∧ M.raw_result s1 L = some (s2, f (m ++ x)) ∧ M.reset s2 = some s3 ∧
      Rel s3 f [] ∧ (f (m ++ x)).length = L := by
  obtain ⟨s1, e1, hr1⟩ := hM.input s f m x hr
  obtain ⟨s2, e2, hf2⟩ := hM.raw_result s1 f _ hr1 hok
  obtain ⟨s3, e3, hr3⟩ := hM.reset_fin s2 f hf2
  exact ⟨s1, s2, s3, e1, e2, e3, hr3, hM.len s1 f _ hr1 hok⟩

/-- the `for _ in 2..c` loop: `k` more iterations -/
theorem calculate_block_loop_spec (hM : Contract (macFam M) L sizes fk ok Rel Fin) (f : Fn)
    (hU : ∀ u : Bytes, u.length = L → ok f u) :
    ∀ (k : Nat) (mac : μ) (scratch block : Bytes), Rel mac f [] → scratch.length = L → block.length = L →
      ∃ mac' scratch', calculate_block_loop M k mac scratch block = some (mac', scratch', Spec.Kdf.Fiter f k scratch block) ∧
        Rel mac' f [] ∧ scratch'.length = L ∧ (Spec.Kdf.Fiter f k scratch block).length = L := by
  intro k
  induction k with
  | zero => intro mac scratch block hr hs hb; exact ⟨mac, scratch, rfl, hr, hs, hb⟩
  | succ k ih =>
    intro mac scratch block hr hs hb
    obtain ⟨s1, s2, s3, e1, e2, e3, hr3, hl⟩ := prf_call M hM f mac [] scratch hr (by simpa using hU scratch hs)
    simp only [List.nil_append] at e2 hl
    have hb' : (xor_into block (f scratch)).length = L := by
      rw [xor_into_eq _ _ (by rw [hb, hl]), xorBytes_length, hb, hl, Nat.min_self]
    obtain ⟨mac', scratch', e, hr', hs', hl'⟩ := ih s3 (f scratch) (xor_into block (f scratch)) hr3 hl hb'
    refine ⟨mac', scratch', ?_, hr', hs', ?_⟩
    · simp only [calculate_block_loop, e1, hs, e2, e3, e, Spec.Kdf.Fiter]
      rw [xor_into_eq _ _ (by rw [hb, hl])]
    · simp only [Spec.Kdf.Fiter]
      rw [← xor_into_eq _ _ (by rw [hb, hl])]; exact hl'

/-- `calculate_block` = F(P, S, c, idx) for every c ≥ 1 -/
theorem calculate_block_spec (hM : Contract (macFam M) L sizes fk ok Rel Fin) (f : Fn) (salt : Bytes)
    (hS : ∀ i, ok f (salt ++ natToBE 4 i)) (hU : ∀ u : Bytes, u.length = L → ok f u)
    (c idx : Nat) (hc : 0 < c) (mac : μ) (scratch : Bytes) (hr : Rel mac f []) (hs : scratch.length = L) :
    ∃ mac' scratch', calculate_block M mac salt c idx scratch L = some (mac', scratch', Spec.Kdf.F f salt c idx) ∧
      Rel mac' f [] ∧ scratch'.length = L ∧ (Spec.Kdf.F f salt c idx).length = L := by
  obtain ⟨s1, e1, hr1⟩ := hM.input mac f [] salt hr
  have e1' : M.input mac salt = some s1 := e1
  simp only [List.nil_append] at hr1
  obtain ⟨s2, s3, s4, e2, e3, e4, hr4, hl⟩ := prf_call M hM f s1 salt (natToBE 4 idx) hr1 (hS idx)
  by_cases hc1 : c > 1
  · -- second iteration, then the loop
    obtain ⟨t1, t2, t3, f1, f2, f3, hrt, hlt⟩ :=
      prf_call M hM f s4 [] (f (salt ++ natToBE 4 idx)) hr4 (by simpa using hU _ hl)
    simp only [List.nil_append] at f2 hlt
    have hbl : (xor_into (f (salt ++ natToBE 4 idx)) (f (f (salt ++ natToBE 4 idx)))).length = L := by
      rw [xor_into_eq _ _ (by rw [hl, hlt]), xorBytes_length, hl, hlt, Nat.min_self]
    obtain ⟨mac', scratch', e, hr', hs', hl'⟩ :=
      calculate_block_loop_spec M hM f hU (c - 2) t3 (f (f (salt ++ natToBE 4 idx)))
        (xor_into (f (salt ++ natToBE 4 idx)) (f (f (salt ++ natToBE 4 idx)))) hrt hlt hbl
    have hF : Spec.Kdf.F f salt c idx
        = Spec.Kdf.Fiter f (c - 2) (f (f (salt ++ natToBE 4 idx)))
            (xor_into (f (salt ++ natToBE 4 idx)) (f (f (salt ++ natToBE 4 idx)))) := by
      obtain ⟨k, rfl⟩ : ∃ k, c = k + 2 := ⟨c - 2, by omega⟩
      simp only [Spec.Kdf.F, Spec.Kdf.INT, Nat.add_sub_cancel, show k + 2 - 1 = k + 1 by omega, Spec.Kdf.Fiter]
      rw [xor_into_eq _ _ (by rw [hl, hlt])]
    refine ⟨mac', scratch', ?_, hr', hs', by rw [hF]; exact hl'⟩
    simp only [calculate_block, e1', e2, e3, e4, hc1, if_true, f1, hs, f2, f3, e, hF]
  · have hc' : c = 1 := by omega
    subst hc'
    refine ⟨s4, scratch, ?_, hr4, hs, ?_⟩
    · simp [calculate_block, e1', e2, e3, e4, calculate_block_loop, Spec.Kdf.F, Spec.Kdf.Fiter, Spec.Kdf.INT]
    · simpa [Spec.Kdf.F, Spec.Kdf.Fiter, Spec.Kdf.INT] using hl

/-- the blocks T_{idx+1}, T_{idx+2}, … cut to the chunk lengths -/
def blocksFor (f : Fn) (salt : Bytes) (c : Nat) : Nat → List Nat → Bytes
  | _, [] => []
  | idx, cl :: rest => (Spec.Kdf.F f salt c (idx + 1)).take cl ++ blocksFor f salt c (idx + 1) rest

/-- the chunk loop: as long as the 32-bit block index does not overflow it appends the (cut) blocks -/
theorem pbkdf2_loop_spec (hM : Contract (macFam M) L sizes fk ok Rel Fin) (f : Fn) (salt : Bytes)
    (hS : ∀ i, ok f (salt ++ natToBE 4 i)) (hU : ∀ u : Bytes, u.length = L → ok f u) (c : Nat) (hc : 0 < c) :
    ∀ (cls : List Nat) (mac : μ) (scratch : Bytes) (idx : Nat) (acc : Bytes),
      Rel mac f [] → scratch.length = L → (∀ cl ∈ cls, cl ≤ L) → idx + cls.length < 2 ^ 32 →
      ∃ mac', pbkdf2_loop M salt c L cls mac scratch idx acc = some (mac', acc ++ blocksFor f salt c idx cls) ∧
        Rel mac' f [] := by
  intro cls
  induction cls with
  | nil => intro mac scratch idx acc hr _ _ _; exact ⟨mac, by simp [pbkdf2_loop, blocksFor], hr⟩
  | cons cl rest ih =>
    intro mac scratch idx acc hr hs hcl hidx
    have hlt : idx + 1 < 2 ^ 32 := by simp only [List.length_cons] at hidx; omega
    obtain ⟨mac1, scratch1, e, hr1, hs1, hl1⟩ :=
      calculate_block_spec M hM f salt hS hU c (idx + 1) hc mac scratch hr hs
    have hcl' : cl ≤ L := hcl cl (List.mem_cons_self ..)
    obtain ⟨mac', e', hr'⟩ := ih mac1 scratch1 (idx + 1) (acc ++ (Spec.Kdf.F f salt c (idx + 1)).take cl) hr1 hs1
      (fun x hx => hcl x (List.mem_cons_of_mem _ hx)) (by simp only [List.length_cons] at hidx; omega)
    refine ⟨mac', ?_, hr'⟩
    by_cases hfull : cl = L
    · subst hfull
      have ht : (Spec.Kdf.F f salt c (idx + 1)).take cl = Spec.Kdf.F f salt c (idx + 1) := by
        rw [List.take_of_length_le (by omega)]
      rw [ht] at e'
      simp only [pbkdf2_loop, hlt, not_true_eq_false, if_false, if_true, e, e', blocksFor, ht, List.append_assoc]
    · simp only [pbkdf2_loop, hlt, not_true_eq_false, if_false, hfull, e, hl1, hcl', e', blocksFor, List.append_assoc]

/-- refusal: more than 2^32 − 1 chunks cannot be numbered -/
theorem pbkdf2_loop_refuses (hM : Contract (macFam M) L sizes fk ok Rel Fin) (f : Fn) (salt : Bytes)
    (hS : ∀ i, ok f (salt ++ natToBE 4 i)) (hU : ∀ u : Bytes, u.length = L → ok f u) (c : Nat) (hc : 0 < c) :
    ∀ (cls : List Nat) (mac : μ) (scratch : Bytes) (idx : Nat) (acc : Bytes),
      Rel mac f [] → scratch.length = L → (∀ cl ∈ cls, cl ≤ L) → idx < 2 ^ 32 → 2 ^ 32 ≤ idx + cls.length →
      pbkdf2_loop M salt c L cls mac scratch idx acc = none := by
  intro cls
  induction cls with
  | nil => intro mac scratch idx acc _ _ _ h1 h2; simp at h2; omega
  | cons cl rest ih =>
    intro mac scratch idx acc hr hs hcl h1 h2
    by_cases hlt : idx + 1 < 2 ^ 32
    · obtain ⟨mac1, scratch1, e, hr1, hs1, hl1⟩ :=
        calculate_block_spec M hM f salt hS hU c (idx + 1) hc mac scratch hr hs
      have hcl' : cl ≤ L := hcl cl (List.mem_cons_self ..)
      have hrest : ∀ a, pbkdf2_loop M salt c L rest mac1 scratch1 (idx + 1) a = none := fun a =>
        ih mac1 scratch1 (idx + 1) a hr1 hs1 (fun x hx => hcl x (List.mem_cons_of_mem _ hx)) hlt
          (by simp only [List.length_cons] at h2; omega)
      by_cases hfull : cl = L
      · subst hfull
        simp only [pbkdf2_loop, hlt, not_true_eq_false, if_false, if_true, e, hrest]
      · simp only [pbkdf2_loop, hlt, not_true_eq_false, if_false, hfull, e, hl1, hcl', hrest]
    · simp [pbkdf2_loop, hlt]

end

/-! ### list arithmetic: the cut blocks are the first dkLen bytes of T_1 ‖ T_2 ‖ … -/

theorem chunkLens_le (os len : Nat) (hos : 0 < os) : ∀ cl ∈ chunkLens os len, cl ≤ os := by
  intro cl h
  simp only [chunkLens, List.mem_append, List.mem_replicate] at h
  rcases h with ⟨_, rfl⟩ | h
  · exact Nat.le_refl _
  · split at h
    · cases h
    · simp only [List.mem_singleton] at h; subst h; exact Nat.le_of_lt (Nat.mod_lt _ hos)

theorem chunkLens_length (os len : Nat) (hos : 0 < os) : (chunkLens os len).length = Spec.Kdf.ceilDiv len os := by
  simp only [chunkLens, List.length_append, List.length_replicate, Spec.Kdf.ceilDiv]
  have h1 := Nat.div_add_mod len os
  have hm := Nat.mod_lt len hos
  generalize hq : len / os = q at h1 ⊢
  generalize hr : len % os = r at h1 hm ⊢
  split
  · rename_i h0
    subst h0
    rw [show len + os - 1 = (os - 1) + os * q by omega, Nat.add_mul_div_left _ _ hos,
      Nat.div_eq_of_lt (by omega)]
    simp
  · rename_i h0
    rw [show len + os - 1 = (r - 1) + os * (q + 1) by rw [Nat.mul_add]; omega,
      Nat.add_mul_div_left _ _ hos, Nat.div_eq_of_lt (by omega)]
    simp

theorem blocksFor_full (f : Fn) (salt : Bytes) (c L : Nat) (hF : ∀ i, (Spec.Kdf.F f salt c i).length = L) :
    ∀ (q idx : Nat) (tail : List Nat),
      blocksFor f salt c idx (List.replicate q L ++ tail)
        = ((List.range q).flatMap fun i => Spec.Kdf.F f salt c (idx + i + 1)) ++ blocksFor f salt c (idx + q) tail := by
  intro q
  induction q with
  | zero => intro idx tail; simp
  | succ q ih =>
    intro idx tail
    rw [List.replicate_succ, List.cons_append, blocksFor, ih, List.take_of_length_le (by rw [hF]; omega),
      List.range_succ_eq_map]
    simp only [List.flatMap_cons, List.flatMap_map, List.append_assoc, Nat.add_zero]
    congr 2
    · congr 1; funext i; congr 1; omega
    · congr 1; omega

theorem blocksFor_chunkLens (f : Fn) (salt : Bytes) (c L : Nat) (hL : 0 < L)
    (hF : ∀ i, (Spec.Kdf.F f salt c i).length = L) (dkLen : Nat) :
    blocksFor f salt c 0 (chunkLens L dkLen)
      = ((List.range (Spec.Kdf.ceilDiv dkLen L)).flatMap fun i => Spec.Kdf.F f salt c (i + 1)).take dkLen := by
  have hlen : ∀ n, ((List.range n).flatMap fun i => Spec.Kdf.F f salt c (i + 1)).length = n * L := by
    intro n
    induction n with
    | zero => simp
    | succ n ih => rw [List.range_succ, List.flatMap_append, List.length_append, ih]; simp [hF, Nat.succ_mul]
  rw [← chunkLens_length L dkLen hL]
  unfold chunkLens
  rw [blocksFor_full f salt c L hF]
  simp only [Nat.zero_add, List.length_append, List.length_replicate]
  have hd := Nat.div_add_mod dkLen L
  have hm := Nat.mod_lt dkLen hL
  generalize hq : dkLen / L = q at hd ⊢
  generalize hr : dkLen % L = r at hd hm ⊢
  have hqL : q * L = L * q := Nat.mul_comm ..
  have hA : (((List.range q).flatMap fun i => Spec.Kdf.F f salt c (i + 1))).take dkLen
      = (List.range q).flatMap fun i => Spec.Kdf.F f salt c (i + 1) := by
    rw [List.take_of_length_le]; rw [hlen]; omega
  split
  · rename_i h0
    simp only [blocksFor, List.append_nil, List.length_nil, Nat.add_zero]
    exact hA.symm
  · rename_i h0
    simp only [blocksFor, List.append_nil, List.length_cons, List.length_nil, Nat.zero_add]
    rw [List.range_succ, List.flatMap_append, List.take_append, hlen, hA]
    simp only [List.flatMap_cons, List.flatMap_nil, List.append_nil]
    rw [show dkLen - q * L = r by omega]

section
variable {μ : Type} (M : MacModel μ) {L : Nat} {sizes : List Nat} {fk : Bytes → Option Fn} {ok : Fn → Bytes → Prop}
  {Rel : μ → Fn → Bytes → Prop} {Fin : μ → Fn → Prop}

/-- **PBKDF2 = RFC 8018 §5.2**, generic in the PRF object: for every salt, iteration count and output length the
    model of `pbkdf2(&mut mac, salt, c, output)` returns exactly what the RFC defines — the derived key, or the refusal
    (`none`; RFC: c is a positive integer, "derived key too long" iff dkLen > (2^32 − 1)·hLen). -/
theorem pbkdf2_spec (hM : Contract (macFam M) L sizes fk ok Rel Fin) (hL : 0 < L) (prf : Bytes → Bytes → Bytes) (P : Bytes)
    (salt : Bytes) (hS : ∀ i, ok (prf P) (salt ++ natToBE 4 i)) (hU : ∀ u : Bytes, u.length = L → ok (prf P) u)
    (mac : μ) (hr : Rel mac (prf P) []) (c dkLen : Nat) :
    (pbkdf2 M mac salt c dkLen).map (·.2) = Spec.Kdf.pbkdf2 prf L P salt c dkLen := by
  have hob : M.output_bytes mac = L := hM.out_rel mac _ _ hr
  by_cases hc : c = 0
  · simp [pbkdf2, Spec.Kdf.pbkdf2, hc]
  · have hc' : 0 < c := Nat.pos_of_ne_zero hc
    have hF : ∀ i, (Spec.Kdf.F (prf P) salt c i).length = L := by
      intro i
      obtain ⟨_, _, _, _, _, h⟩ := calculate_block_spec M hM (prf P) salt hS hU c i hc' mac (zeros L) hr (by simp [zeros])
      exact h
    have hcnt := chunkLens_length L dkLen hL
    by_cases hbig : dkLen > (2 ^ 32 - 1) * L
    · -- too long: the block index overflows
      have hge : 2 ^ 32 ≤ Spec.Kdf.ceilDiv dkLen L := by
        unfold Spec.Kdf.ceilDiv
        rw [Nat.le_div_iff_mul_le hL]
        have : (2 ^ 32 - 1) * L + L = 2 ^ 32 * L := by
          rw [← Nat.succ_mul]
        omega
      have := pbkdf2_loop_refuses M hM (prf P) salt hS hU c hc' (chunkLens L dkLen) mac (zeros L) 0 [] hr
        (by simp [zeros]) (chunkLens_le L dkLen hL) (by decide) (by rw [hcnt]; omega)
      simp [pbkdf2, Spec.Kdf.pbkdf2, hc, hc', hob, Nat.ne_of_gt hL, this, hbig]
    · have hlt : Spec.Kdf.ceilDiv dkLen L < 2 ^ 32 := by
        unfold Spec.Kdf.ceilDiv
        rw [Nat.div_lt_iff_lt_mul hL]
        have : (2 ^ 32 - 1) * L + L = 2 ^ 32 * L := by
          rw [← Nat.succ_mul]
        omega
      obtain ⟨mac', e, _⟩ := pbkdf2_loop_spec M hM (prf P) salt hS hU c hc' (chunkLens L dkLen) mac (zeros L) 0 [] hr
        (by simp [zeros]) (chunkLens_le L dkLen hL) (by rw [hcnt]; omega)
      simp [pbkdf2, Spec.Kdf.pbkdf2, hc, hc', hob, Nat.ne_of_gt hL, e, hbig, blocksFor_chunkLens (prf P) salt c L hL hF]

end
end Cx.Proofs.KdfPbkdf2
