/-
  Proofs.EdwardsAlgebra — the algebra of the twisted Edwards curve −x² + y² = 1 + d·x²·y² over an arbitrary
  field `F`: the affine addition law, the projective representations used by ge.rs (extended `Ge`, completed
  `GeP1P1`, `GeCached`, `GePrecomp`) and the statement that the code's formulas compute the affine law on the
  represented points.  Pure field identities (`field_simp`/`ring`/`linear_combination`); no limbs here.

  Completeness (`denoms_ne_zero`): for points ON the curve the denominators 1 ± d·x1·x2·y1·y2 do not vanish when
  `d` is not a square and −1 is a square in `F` (Bernstein–Lange; both facts hold in GF(2^255−19) and are
  hypotheses here).
-/
import Mathlib.Tactic.Ring
import Mathlib.Tactic.FieldSimp
import Mathlib.Tactic.LinearCombination
import Mathlib.Algebra.Field.Basic
namespace Cx.Proofs.EdAlg

variable {F : Type} [Field F]

/-- `−x² + y² = 1 + d x² y²` -/
def OnCurve (d x y : F) : Prop := -x^2 + y^2 = 1 + d * x^2 * y^2

/-- x-coordinate of the affine sum -/
def addX (d x1 y1 x2 y2 : F) : F := (x1 * y2 + x2 * y1) / (1 + d * x1 * x2 * y1 * y2)
/-- y-coordinate of the affine sum -/
def addY (d x1 y1 x2 y2 : F) : F := (y1 * y2 + x1 * x2) / (1 - d * x1 * x2 * y1 * y2)

/-- `(X : Y : Z : T)` represents the affine point `(x, y)` in extended coordinates -/
structure RepExt (X Y Z T x y : F) : Prop where
  z_ne : Z ≠ 0
  hx : X = x * Z
  hy : Y = y * Z
  ht : T = x * y * Z

/-- `(X : Y : Z)` represents `(x, y)` (a `GePartial`) -/
structure RepProj (X Y Z x y : F) : Prop where
  z_ne : Z ≠ 0
  hx : X = x * Z
  hy : Y = y * Z

/-- completed coordinates of `GeP1P1`: `x = X/Z`, `y = Y/T` -/
structure RepP1P1 (X Y Z T x y : F) : Prop where
  z_ne : Z ≠ 0
  t_ne : T ≠ 0
  hx : X = x * Z
  hy : Y = y * T

/-- `GeCached { y_plus_x, y_minus_x, z, t2d }` of `(x, y)` -/
structure RepCached (d YpX YmX Z T2d x y : F) : Prop where
  z_ne : Z ≠ 0
  hp : YpX = (y + x) * Z
  hm : YmX = (y - x) * Z
  ht : T2d = 2 * d * x * y * Z

/-- `GePrecomp { y_plus_x, y_minus_x, xy2d }` of `(x, y)` (affine: Z = 1) -/
structure RepPrecomp (d YpX YmX XY2d x y : F) : Prop where
  hp : YpX = y + x
  hm : YmX = y - x
  ht : XY2d = 2 * d * x * y

theorem RepExt.toProj {X Y Z T x y : F} (h : RepExt X Y Z T x y) : RepProj X Y Z x y := ⟨h.z_ne, h.hx, h.hy⟩

/-- `GeP1P1::to_full` -/
theorem p1p1_to_full {X Y Z T x y : F} (h : RepP1P1 X Y Z T x y) :
    RepExt (X * T) (Y * Z) (Z * T) (X * Y) x y := by
  obtain ⟨hz, ht, hx, hy⟩ := h
  refine ⟨mul_ne_zero hz ht, ?_, ?_, ?_⟩ <;> subst hx hy <;> ring

/-- `GeP1P1::to_partial` -/
theorem p1p1_to_partial {X Y Z T x y : F} (h : RepP1P1 X Y Z T x y) :
    RepProj (X * T) (Y * Z) (Z * T) x y := (p1p1_to_full h).toProj

/-- `Ge::to_cached` (`D2 = 2d`) -/
theorem to_cached {d X Y Z T x y : F} (h : RepExt X Y Z T x y) :
    RepCached d (Y + X) (Y - X) Z (T * (2 * d)) x y := by
  obtain ⟨hz, hx, hy, ht⟩ := h
  refine ⟨hz, ?_, ?_, ?_⟩ <;> subst hx hy ht <;> ring

/-- a precomputed (affine) entry is a cached point with Z = 1 -/
theorem precomp_as_cached {d a b c x y : F} (h : RepPrecomp d a b c x y) : RepCached d a b 1 c x y := by
  obtain ⟨hp, hm, ht⟩ := h
  exact ⟨one_ne_zero, by rw [hp]; ring, by rw [hm]; ring, by rw [ht]; ring⟩

/-- `Ge::from_affine` -/
theorem from_affine (x y : F) : RepExt x y 1 (x * y) x y := ⟨one_ne_zero, by ring, by ring, by ring⟩

/-- `Ge::negate` -/
theorem negate {X Y Z T x y : F} (h : RepExt X Y Z T x y) : RepExt (-X) Y Z (-T) (-x) y := by
  obtain ⟨hz, hx, hy, ht⟩ := h
  exact ⟨hz, by rw [hx]; ring, hy, by rw [ht]; ring⟩

/-- the negated precomputed entry built inside `GePrecomp::select` -/
theorem precomp_neg {d a b c x y : F} (h : RepPrecomp d a b c x y) : RepPrecomp d b a (-c) (-x) y := by
  obtain ⟨hp, hm, ht⟩ := h
  exact ⟨by rw [hm]; ring, by rw [hp]; ring, by rw [ht]; ring⟩

/-- `GePrecomp::ZERO` is the neutral element (0, 1) -/
theorem precomp_zero (d : F) : RepPrecomp d 1 1 0 0 1 := ⟨by ring, by ring, by ring⟩

/-- `Ge::ZERO` -/
theorem ext_zero : RepExt (0 : F) 1 1 0 0 1 := ⟨one_ne_zero, by ring, by ring, by ring⟩

theorem scaled {num den c a : F} (h : den ≠ 0) (ha : a = c * num) : a = num / den * (c * den) := by
  rw [ha]; field_simp

/-- `impl Add<&GeCached> for &Ge`: the formulas `A = (Y1+X1)·ypx, B = (Y1−X1)·ymx, C = t2d·T1, D = 2·Z1·Z2`,
    `X3 = A−B, Y3 = A+B, Z3 = D+C, T3 = D−C` give the affine sum, when the two denominators do not vanish -/
theorem add_cached {d X1 Y1 Z1 T1 x1 y1 P M Z2 T2 x2 y2 : F} (h2 : (2 : F) ≠ 0)
    (h : RepExt X1 Y1 Z1 T1 x1 y1) (c : RepCached d P M Z2 T2 x2 y2)
    (hp : 1 + d * x1 * x2 * y1 * y2 ≠ 0) (hm : 1 - d * x1 * x2 * y1 * y2 ≠ 0) :
    RepP1P1 ((Y1 + X1) * P - (Y1 - X1) * M) ((Y1 + X1) * P + (Y1 - X1) * M)
      (Z1 * Z2 + Z1 * Z2 + T2 * T1) (Z1 * Z2 + Z1 * Z2 - T2 * T1)
      (addX d x1 y1 x2 y2) (addY d x1 y1 x2 y2) := by
  obtain ⟨hz1, hx1, hy1, ht1⟩ := h
  obtain ⟨hz2, hP, hM, hT2⟩ := c
  subst hx1 hy1 ht1 hP hM hT2
  have e1 : Z1 * Z2 + Z1 * Z2 + 2 * d * x2 * y2 * Z2 * (x1 * y1 * Z1) = 2 * Z1 * Z2 * (1 + d * x1 * x2 * y1 * y2) := by ring
  have e2 : Z1 * Z2 + Z1 * Z2 - 2 * d * x2 * y2 * Z2 * (x1 * y1 * Z1) = 2 * Z1 * Z2 * (1 - d * x1 * x2 * y1 * y2) := by ring
  refine ⟨?_, ?_, ?_, ?_⟩
  · rw [e1]; exact mul_ne_zero (mul_ne_zero (mul_ne_zero h2 hz1) hz2) hp
  · rw [e2]; exact mul_ne_zero (mul_ne_zero (mul_ne_zero h2 hz1) hz2) hm
  · rw [e1, addX]; exact scaled hp (by ring)
  · rw [e2, addY]; exact scaled hm (by ring)

/-- `impl Sub<&GeCached> for &Ge`: adds `(−x2, y2)` -/
theorem sub_cached {d X1 Y1 Z1 T1 x1 y1 P M Z2 T2 x2 y2 : F} (h2 : (2 : F) ≠ 0)
    (h : RepExt X1 Y1 Z1 T1 x1 y1) (c : RepCached d P M Z2 T2 x2 y2)
    (hp : 1 + d * x1 * (-x2) * y1 * y2 ≠ 0) (hm : 1 - d * x1 * (-x2) * y1 * y2 ≠ 0) :
    RepP1P1 ((Y1 + X1) * M - (Y1 - X1) * P) ((Y1 + X1) * M + (Y1 - X1) * P)
      (Z1 * Z2 + Z1 * Z2 - T2 * T1) (Z1 * Z2 + Z1 * Z2 + T2 * T1)
      (addX d x1 y1 (-x2) y2) (addY d x1 y1 (-x2) y2) := by
  have c' : RepCached d M P Z2 (-T2) (-x2) y2 := by
    obtain ⟨hz2, hP, hM, hT2⟩ := c
    exact ⟨hz2, by rw [hM]; ring, by rw [hP]; ring, by rw [hT2]; ring⟩
  have := add_cached h2 h c' hp hm
  have e1 : Z1 * Z2 + Z1 * Z2 + -T2 * T1 = Z1 * Z2 + Z1 * Z2 - T2 * T1 := by ring
  have e2 : Z1 * Z2 + Z1 * Z2 - -T2 * T1 = Z1 * Z2 + Z1 * Z2 + T2 * T1 := by ring
  rw [e1, e2] at this
  exact this

/-- `double_p1p1` (`XX = X², YY = Y², B = 2Z², AA = (X+Y)²`, `Y3 = YY+XX, Z3 = YY−XX, X3 = AA−Y3, T3 = B−Z3`)
    is the affine doubling for a point ON the curve -/
theorem double_p1p1 {d X Y Z x y : F} (h : RepProj X Y Z x y) (hc : OnCurve d x y)
    (hp : 1 + d * x * x * y * y ≠ 0) (hm : 1 - d * x * x * y * y ≠ 0) :
    RepP1P1 ((X + Y) * (X + Y) - (Y * Y + X * X)) (Y * Y + X * X) (Y * Y - X * X)
      (2 * (Z * Z) - (Y * Y - X * X)) (addX d x y x y) (addY d x y x y) := by
  obtain ⟨hz, hx, hy⟩ := h
  subst hx hy
  unfold OnCurve at hc
  have e1 : y * Z * (y * Z) - x * Z * (x * Z) = Z * Z * (1 + d * x * x * y * y) := by
    linear_combination (Z * Z) * hc
  have e2 : 2 * (Z * Z) - (y * Z * (y * Z) - x * Z * (x * Z)) = Z * Z * (1 - d * x * x * y * y) := by
    linear_combination (-(Z * Z)) * hc
  refine ⟨?_, ?_, ?_, ?_⟩
  · rw [e1]; exact mul_ne_zero (mul_ne_zero hz hz) hp
  · rw [e2]; exact mul_ne_zero (mul_ne_zero hz hz) hm
  · rw [e1, addX]; exact scaled hp (by ring)
  · rw [e2, addY]; exact scaled hm (by ring)

/-- Completeness of the addition law (Bernstein–Lange): on the curve, with `d` a non-square and `i² = −1`,
    neither denominator vanishes. -/
theorem denoms_ne_zero {d i x1 y1 x2 y2 : F} (h2ne : (2 : F) ≠ 0) (hi : i ^ 2 = -1) (hd : ∀ r : F, r ^ 2 ≠ d)
    (h1 : OnCurve d x1 y1) (h2 : OnCurve d x2 y2) :
    1 + d * x1 * x2 * y1 * y2 ≠ 0 ∧ 1 - d * x1 * x2 * y1 * y2 ≠ 0 := by
  unfold OnCurve at h1 h2
  -- both cases: ε := d x1 x2 y1 y2 with ε² = 1
  have key : ∀ e : F, e = d * x1 * x2 * y1 * y2 → e ^ 2 = 1 → False := by
    intro e he hee
    have hne : e ≠ 0 := by intro h0; rw [h0] at hee; simp at hee
    have hx1 : x1 ≠ 0 := by intro h0; apply hne; rw [he, h0]; ring
    have hy1 : y1 ≠ 0 := by intro h0; apply hne; rw [he, h0]; ring
    have k1 : d * (x1 * y1 * (i * x2 + y2)) ^ 2 = (i * x1 + e * y1) ^ 2 := by
      subst he
      linear_combination (d * x1 ^ 2 * y1 ^ 2 * x2 ^ 2 - x1 ^ 2) * hi + (d * x1 ^ 2 * y1 ^ 2) * h2 + (1 - y1 ^ 2) * hee - h1
    have k2 : d * (x1 * y1 * (i * x2 - y2)) ^ 2 = (i * x1 - e * y1) ^ 2 := by
      subst he
      linear_combination (d * x1 ^ 2 * y1 ^ 2 * x2 ^ 2 - x1 ^ 2) * hi + (d * x1 ^ 2 * y1 ^ 2) * h2 + (1 - y1 ^ 2) * hee - h1
    by_cases ha : i * x2 + y2 = 0
    · by_cases hb : i * x2 - y2 = 0
      · have hy2 : y2 = 0 := by
          have : (2 : F) * y2 = 0 := by linear_combination ha - hb
          rcases mul_eq_zero.mp this with h | h
          · exact absurd h h2ne
          · exact h
        apply hne; rw [he, hy2]; ring
      · have hq : x1 * y1 * (i * x2 - y2) ≠ 0 := mul_ne_zero (mul_ne_zero hx1 hy1) hb
        apply hd ((i * x1 - e * y1) / (x1 * y1 * (i * x2 - y2)))
        rw [div_pow, ← k2]; field_simp
    · have hq : x1 * y1 * (i * x2 + y2) ≠ 0 := mul_ne_zero (mul_ne_zero hx1 hy1) ha
      apply hd ((i * x1 + e * y1) / (x1 * y1 * (i * x2 + y2)))
      rw [div_pow, ← k1]; field_simp
  constructor
  · intro h
    exact key (-(1 : F)) (by linear_combination -h) (by ring)
  · intro h
    exact key 1 (by linear_combination h) (by ring)

end Cx.Proofs.EdAlg
