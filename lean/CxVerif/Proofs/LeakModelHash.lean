/-
  Proofs.LeakModelHash — generic part of the digest side of C19 (HMAC over the digests of the crate):
    * the step tactics `lo_bind` / `lo_bind2` for erasure proofs against plain models written with `match`,
    * `ORel`, a relational logic for the `Option` monad of the plain models (used to show that a helper's refusal and
      the public shadow of its result depend on public data only), `NI.ofORel`, `NI.dite`, `NI.guard`,
    * erasure and non-interference of the rest of `FixedBuffer` (`next`, `zero_until`, `full_buffer`,
      `standard_padding`),
    * `CtxLeak M ML` — what is proved of an instrumented `hashing::…::Context` type (erasure; events, panics and
      public shadow depend on the public shadow and on LENGTHS only) — and `legacyLeak`: the macro-generated legacy
      wrapper of such a context satisfies `DigestLeak`,
    * HMAC fed in several `input` calls: erasure and non-interference of `new; input…; raw_result`.
  The instances are in Proofs/LeakModelHashSha2.lean (SHA-2), …Md.lean (SHA-1, RIPEMD-160), …Sponge.lean (SHA-3 /
  Keccak), …Blake2.lean; the AEAD is in …Aead.lean.
-/
import Lean.Elab.Tactic
import CxVerif.Impl.LeakModelHash
import CxVerif.Proofs.LeakModelHmac
set_option linter.unusedSimpArgs false
set_option linter.unusedVariables false
namespace Cx.Proofs.LeakModel
open Cx Cx.Impl Cx.Impl.LeakModel Cx.Impl.Digest Cx.Impl.Hmac

/-! ### tactics -/

open Lean Elab Tactic Meta in
/-- goal `Option.bind X F = R`: case split on `X` (generalised everywhere in the goal) -/
elab "opt_bind_cases" : tactic => withMainContext do
  let t ← whnfR (← instantiateMVars (← (← getMainGoal).getType))
  let some (_, lhs, _) := t.eq? | throwError "opt_bind_cases: not an equation"
  unless lhs.isAppOfArity ``Option.bind 4 do throwError "opt_bind_cases: the left-hand side is not Option.bind"
  let x ← Tactic.runTermElab (Term.exprToSyntax (lhs.getArg! 2))
  evalTactic (← `(tactic| (generalize $x = o; cases o)))

/-- one step of an erasure proof: the next statement of the `do` block is a call whose erasure lemma is `h`; the plain
    model continues with `match … with | none => none | some x => …` -/
syntax "lo_bind" term : tactic
macro_rules
  | `(tactic| lo_bind $h) =>
    `(tactic| (rw [LO.bind_val, $h:term]; opt_bind_cases; (· rfl); simp only [Option.bind_some]))

/-- the same when the plain model destructures a pair: `| some (a, b) => …` -/
syntax "lo_bind2" term : tactic
macro_rules
  | `(tactic| lo_bind2 $h) =>
    `(tactic| (rw [LO.bind_val, $h:term]; opt_bind_cases; (· rfl);
               (rename_i p; obtain ⟨_, _⟩ := p; simp only [Option.bind_some])))

theorem NI.panic {α : Type} {R : α → α → Prop} : NI (LO.lift (none : Option α)) (LO.lift none) R :=
  NI.lift none none rfl (fun a a' h => by cases h)

/-- `if c then panic else …` on a public condition -/
theorem NI.guard {α : Type} {R : α → α → Prop} {c : Prop} [Decidable c] {e e' : LO α} (he : NI e e' R) :
    NI (if c then LO.lift none else e) (if c then LO.lift none else e') R := NI.ite Iff.rfl NI.panic he

theorem NI.true {α : Type} {R : α → α → Prop} {m m' : LO α} (h : NI m m' R) : NI m m' (fun _ _ => True) :=
  h.mono (fun _ _ _ => trivial)

theorem NI.dite {α : Type} {R : α → α → Prop} {c c' : Prop} [Decidable c] [Decidable c'] (hc : c ↔ c')
    {t : c → LO α} {e : ¬ c → LO α} {t' : c' → LO α} {e' : ¬ c' → LO α}
    (ht : ∀ h h', NI (t h) (t' h') R) (he : ∀ h h', NI (e h) (e' h') R) : NI (dite c t e) (dite c' t' e') R := by
  by_cases h : c
  · rw [dif_pos h, dif_pos (hc.mp h)]; exact ht _ _
  · rw [dif_neg h, dif_neg (fun h' => h (hc.mpr h'))]; exact he _ _

/-! ### a relational logic for `Option` -/

/-- two plain computations panic together and their results (if any) are related -/
structure ORel {α : Type} (R : α → α → Prop) (x x' : Option α) : Prop where
  both : x.isSome = x'.isSome
  rel : ∀ a a', x = some a → x' = some a' → R a a'

theorem ORel.pure {α : Type} {R : α → α → Prop} {a a' : α} (h : R a a') : ORel R (some a) (some a') :=
  ⟨rfl, fun x x' hx hx' => by cases hx; cases hx'; exact h⟩

theorem ORel.none {α : Type} {R : α → α → Prop} : ORel R (Option.none : Option α) Option.none :=
  ⟨rfl, fun x x' hx => by cases hx⟩

theorem ORel.refl_eq {α : Type} (x : Option α) : ORel Eq x x :=
  ⟨rfl, fun a a' h h' => by rw [h] at h'; cases h'; rfl⟩

theorem ORel.bind {α β : Type} {R : α → α → Prop} {S : β → β → Prop} {x x' : Option α} {f f' : α → Option β}
    (h : ORel R x x') (hf : ∀ a a', R a a' → ORel S (f a) (f' a')) : ORel S (x >>= f) (x' >>= f') := by
  cases hx : x with
  | none =>
    have hx' : x' = Option.none := by
      have := h.both; rw [hx] at this
      cases h' : x' with
      | none => rfl
      | some a => rw [h'] at this; cases this
    rw [hx']; exact ORel.none
  | some a =>
    have ⟨a', hx'⟩ : ∃ a', x' = some a' := by
      have := h.both; rw [hx] at this
      cases h' : x' with
      | none => rw [h'] at this; cases this
      | some a' => exact ⟨a', rfl⟩
    rw [hx']
    exact hf a a' (h.rel a a' hx hx')

theorem ORel.ite {α : Type} {R : α → α → Prop} {c c' : Prop} [Decidable c] [Decidable c'] (hc : c ↔ c')
    {t e t' e' : Option α} (ht : ORel R t t') (he : ORel R e e') :
    ORel R (if c then t else e) (if c' then t' else e') := by
  by_cases h : c
  · rw [if_pos h, if_pos (hc.mp h)]; exact ht
  · rw [if_neg h, if_neg (fun h' => h (hc.mpr h'))]; exact he

theorem ORel.mono {α : Type} {R S : α → α → Prop} {x x' : Option α} (h : ORel R x x') (hrs : ∀ a a', R a a' → S a a') :
    ORel S x x' := ⟨h.both, fun a a' e e' => hrs a a' (h.rel a a' e e')⟩

theorem ORel.foldlM {α β : Type} {R : α → α → Prop} {f f' : α → β → Option α} (l : List β)
    (hf : ∀ a a' b, R a a' → ORel R (f a b) (f' a' b)) : ∀ a a', R a a' → ORel R (l.foldlM f a) (l.foldlM f' a') := by
  induction l with
  | nil => intro a a' h; exact ORel.pure h
  | cons b bs ih =>
    intro a a' h
    rw [List.foldlM_cons, List.foldlM_cons]
    exact ORel.bind (hf a a' b h) ih

theorem NI.ofORel {α : Type} {R : α → α → Prop} {x x' : Option α} (h : ORel R x x') : NI (LO.lift x) (LO.lift x') R :=
  NI.lift x x' h.both h.rel

theorem ORel.map {α β : Type} {R : α → α → Prop} {S : β → β → Prop} {x x' : Option α} {g g' : α → β}
    (h : ORel R x x') (hg : ∀ a a', R a a' → S (g a) (g' a')) : ORel S (x.map g) (x'.map g') := by
  refine ⟨?_, ?_⟩
  · rw [Option.isSome_map, Option.isSome_map]; exact h.both
  · intro b b' hb hb'
    cases hx : x with
    | none => rw [hx] at hb; cases hb
    | some a =>
      cases hx' : x' with
      | none => rw [hx'] at hb'; cases hb'
      | some a' =>
        rw [hx] at hb; rw [hx'] at hb'
        cases hb; cases hb'
        exact hg a a' (h.rel a a' hx hx')

/-! ### (g) the rest of `FixedBuffer` -/

theorem copy_from_slice_isSome (d : Bytes) (lo hi : Nat) (s : Bytes) :
    (copy_from_slice d lo hi s).isSome = decide (lo ≤ hi ∧ hi ≤ d.length ∧ s.length = hi - lo) := by
  unfold copy_from_slice
  split <;> simp [*]

theorem copy_from_slice_some {d : Bytes} {lo hi : Nat} {s x : Bytes} (h : copy_from_slice d lo hi s = some x) :
    x.length = d.length := by
  unfold copy_from_slice at h
  split at h
  · cases h
    simp only [List.length_append, List.length_take, List.length_drop]
    omega
  · cases h

theorem next_write_isSome (b : FixedBuffer) (I : Nat) (v : Bytes) :
    (b.next_write I v).isSome = decide (v.length = I ∧ b.buffer_idx + I ≤ b.buffer.length) := by
  unfold FixedBuffer.next_write
  by_cases hv : v.length = I
  · have hne : ¬ v.length ≠ I := fun h => h hv
    rw [if_neg hne]
    have h := copy_from_slice_isSome b.buffer b.buffer_idx (b.buffer_idx + I) v
    cases hc : copy_from_slice b.buffer b.buffer_idx (b.buffer_idx + I) v with
    | none =>
      rw [hc] at h
      simp only [Option.isSome_none, Bool.false_eq, decide_eq_false_iff_not] at h ⊢
      intro hh; apply h; exact ⟨by omega, hh.2, by omega⟩
    | some x =>
      rw [hc] at h
      simp only [Option.isSome_some, Bool.true_eq, decide_eq_true_eq] at h ⊢
      exact ⟨hv, h.2.1⟩
  · have hne : v.length ≠ I := hv
    rw [if_pos hne]
    simp [hv]

theorem next_write_some {b b2 : FixedBuffer} {I : Nat} {v : Bytes} (h : b.next_write I v = some b2) :
    b2.buffer.length = b.buffer.length ∧ b2.buffer_idx = b.buffer_idx + I := by
  unfold FixedBuffer.next_write at h
  split at h
  · cases h
  · cases hc : copy_from_slice b.buffer b.buffer_idx (b.buffer_idx + I) v with
    | none => rw [hc] at h; cases h
    | some x => rw [hc] at h; cases h; exact ⟨copy_from_slice_some hc, rfl⟩

theorem zero_until_isSome (b : FixedBuffer) (idx : Nat) :
    (b.zero_until idx).isSome = decide (b.buffer_idx ≤ idx ∧ idx ≤ b.buffer.length) := by
  unfold FixedBuffer.zero_until
  by_cases hi : idx < b.buffer_idx
  · rw [if_pos hi]
    simp only [Option.isSome_none, Bool.false_eq, decide_eq_false_iff_not]
    omega
  · rw [if_neg hi]
    have h := copy_from_slice_isSome b.buffer b.buffer_idx idx (zeros (idx - b.buffer_idx))
    cases hc : copy_from_slice b.buffer b.buffer_idx idx (zeros (idx - b.buffer_idx)) with
    | none =>
      rw [hc] at h
      simp only [Option.isSome_none, Bool.false_eq, decide_eq_false_iff_not, zeros, List.length_replicate] at h ⊢
      intro hh; apply h; exact ⟨hh.1, hh.2, trivial⟩
    | some x =>
      rw [hc] at h
      simp only [Option.isSome_some, Bool.true_eq, decide_eq_true_eq] at h ⊢
      exact ⟨h.1, h.2.1⟩

theorem zero_until_some {b b2 : FixedBuffer} {idx : Nat} (h : b.zero_until idx = some b2) :
    b2.buffer.length = b.buffer.length ∧ b2.buffer_idx = idx := by
  unfold FixedBuffer.zero_until at h
  split at h
  · cases h
  · cases hc : copy_from_slice b.buffer b.buffer_idx idx (zeros (idx - b.buffer_idx)) with
    | none => rw [hc] at h; cases h
    | some x => rw [hc] at h; cases h; exact ⟨copy_from_slice_some hc, rfl⟩

theorem full_buffer_isSome (N : Nat) (b : FixedBuffer) : (b.full_buffer N).isSome = decide (b.buffer_idx = N) := by
  unfold FixedBuffer.full_buffer
  by_cases h : b.buffer_idx = N
  · simp [h]
  · simp [h]

theorem full_buffer_some {N : Nat} {b : FixedBuffer} {r : FixedBuffer × Bytes} (h : b.full_buffer N = some r) :
    r.1.buffer.length = b.buffer.length ∧ r.1.buffer_idx = 0 ∧ r.2.length = b.buffer.length := by
  unfold FixedBuffer.full_buffer at h
  split at h
  · cases h
  · cases h; exact ⟨rfl, rfl, rfl⟩

theorem FixedBuffer.next_writeL_val (self : FixedBuffer) (I : Nat) (v : Bytes) :
    (FixedBuffer.next_writeL self I v).val = self.next_write I v := by
  unfold FixedBuffer.next_writeL
  rw [LO.emit_bind_val]; exact LO.lift_val _

theorem FixedBuffer.zero_untilL_val (self : FixedBuffer) (idx : Nat) :
    (FixedBuffer.zero_untilL self idx).val = self.zero_until idx := by
  unfold FixedBuffer.zero_untilL
  rw [LO.emit_bind_val]
  by_cases h : idx < self.buffer_idx
  · rw [if_pos h]; unfold FixedBuffer.zero_until; rw [if_pos h]; exact LO.lift_val _
  · rw [if_neg h, LO.emit_bind_val, LO.emit_bind_val]; exact LO.lift_val _

theorem FixedBuffer.full_bufferL_val (N : Nat) (self : FixedBuffer) :
    (FixedBuffer.full_bufferL N self).val = self.full_buffer N := by
  unfold FixedBuffer.full_bufferL
  rw [LO.emit_bind_val]; exact LO.lift_val _

section FixedBuf
variable {σ : Type}

/-- erasure: the instrumented `standard_padding` computes `Impl.FixedBuffer.standard_padding` -/
theorem FixedBuffer.standard_paddingL_val (N : Nat) (self : FixedBuffer) (rem : Nat)
    (funcL : σ → Bytes → LO σ) (func : σ → Bytes → Option σ) (hf : ∀ s b, (funcL s b).val = func s b) (st : σ) :
    (FixedBuffer.standard_paddingL N self rem funcL st).val = self.standard_padding N rem func st := by
  unfold FixedBuffer.standard_paddingL FixedBuffer.standard_padding
  lo_bind (FixedBuffer.next_writeL_val _ _ _)
  rename_i b
  by_cases h0 : N < b.buffer_idx
  · rw [if_pos h0, if_pos h0]; exact LO.lift_val _
  rw [if_neg h0, if_neg h0, LO.emit_bind_val]
  have hstep : (if N - b.buffer_idx < rem then do
        let self ← FixedBuffer.zero_untilL b N
        let fb ← FixedBuffer.full_bufferL N self
        let st' ← funcL st fb.2
        pure (fb.1, st')
      else pure (b, st) : LO (FixedBuffer × σ)).val =
      (if N - b.buffer_idx < rem then
        match b.zero_until N with
        | none => none
        | some self =>
          match self.full_buffer N with
          | none => none
          | some (self, block) =>
            match func st block with
            | none => none
            | some st' => some (self, st')
      else some (b, st)) := by
    by_cases h1 : N - b.buffer_idx < rem
    · rw [if_pos h1, if_pos h1]
      lo_bind (FixedBuffer.zero_untilL_val _ _)
      lo_bind2 (FixedBuffer.full_bufferL_val _ _)
      lo_bind (hf _ _)
      exact LO.pure_val _
    · rw [if_neg h1, if_neg h1]; exact LO.pure_val _
  lo_bind2 hstep
  by_cases h2 : N < rem
  · rw [if_pos h2, if_pos h2]; exact LO.lift_val _
  rw [if_neg h2, if_neg h2]
  lo_bind (FixedBuffer.zero_untilL_val _ _)
  exact LO.pure_val _

theorem FixedBuffer.next_writeL_ni (b b' : FixedBuffer) (I : Nat) (v v' : Bytes) (hb : LowB b b')
    (hv : v.length = v'.length) :
    NI (FixedBuffer.next_writeL b I v) (FixedBuffer.next_writeL b' I v') LowB := by
  unfold FixedBuffer.next_writeL
  rw [hb.2]
  refine NI.bind (NI.emit _) (fun _ _ _ => NI.lift _ _ ?_ ?_)
  · rw [next_write_isSome, next_write_isSome, hb.1, hb.2, hv]
  · intro a a' h h'
    have h1 := next_write_some h
    have h2 := next_write_some h'
    exact ⟨by rw [h1.1, h2.1, hb.1], by rw [h1.2, h2.2, hb.2]⟩

theorem FixedBuffer.zero_untilL_ni (b b' : FixedBuffer) (idx : Nat) (hb : LowB b b') :
    NI (FixedBuffer.zero_untilL b idx) (FixedBuffer.zero_untilL b' idx) LowB := by
  unfold FixedBuffer.zero_untilL
  rw [hb.2]
  refine NI.bind (NI.emit _) (fun _ _ _ => NI.guard ?_)
  refine NI.bind (NI.emit _) (fun _ _ _ => NI.bind (NI.emit _) (fun _ _ _ => NI.lift _ _ ?_ ?_))
  · rw [zero_until_isSome, zero_until_isSome, hb.1, hb.2]
  · intro a a' h h'
    have h1 := zero_until_some h
    have h2 := zero_until_some h'
    exact ⟨by rw [h1.1, h2.1, hb.1], by rw [h1.2, h2.2]⟩

theorem FixedBuffer.full_bufferL_ni (N : Nat) (b b' : FixedBuffer) (hb : LowB b b') :
    NI (FixedBuffer.full_bufferL N b) (FixedBuffer.full_bufferL N b')
      (fun r r' => LowB r.1 r'.1 ∧ r.2.length = r'.2.length) := by
  unfold FixedBuffer.full_bufferL
  rw [hb.2]
  refine NI.bind (NI.emit _) (fun _ _ _ => NI.lift _ _ ?_ ?_)
  · rw [full_buffer_isSome, full_buffer_isSome, hb.2]
  · intro a a' h h'
    have h1 := full_buffer_some h
    have h2 := full_buffer_some h'
    exact ⟨⟨by rw [h1.1, h2.1, hb.1], by rw [h1.2.1, h2.2.1]⟩, by rw [h1.2.2, h2.2.2, hb.1]⟩

variable {R : σ → σ → Prop}

/-- **non-interference of `standard_padding`**: which of its two shapes runs and every refusal depend on the fill -/
theorem FixedBuffer.standard_paddingL_ni (N : Nat) (b b' : FixedBuffer) (rem : Nat) (funcL : σ → Bytes → LO σ)
    (hf : ∀ s s' x x', R s s' → x.length = x'.length → NI (funcL s x) (funcL s' x') R)
    (st st' : σ) (hb : LowB b b') (hst : R st st') :
    NI (FixedBuffer.standard_paddingL N b rem funcL st) (FixedBuffer.standard_paddingL N b' rem funcL st')
      (fun r r' => LowB r.1 r'.1 ∧ R r.2 r'.2) := by
  unfold FixedBuffer.standard_paddingL
  refine NI.bind (FixedBuffer.next_writeL_ni b b' 1 _ _ hb rfl) (fun c c' hc => ?_)
  rw [hc.2]
  refine NI.guard (NI.bind (NI.emit _) (fun _ _ _ => ?_))
  refine NI.bind (R := fun r r' => LowB r.1 r'.1 ∧ R r.2 r'.2) (NI.ite Iff.rfl ?_ (NI.pure _ _ ⟨hc, hst⟩))
    (fun r r' hr => ?_)
  · refine NI.bind (FixedBuffer.zero_untilL_ni c c' N hc) (fun z z' hz => ?_)
    refine NI.bind (FixedBuffer.full_bufferL_ni N z z' hz) (fun fb fb' hfb => ?_)
    refine NI.bind (hf st st' _ _ hst hfb.2) (fun s s' hs => NI.pure _ _ ⟨hfb.1, hs⟩)
  · refine NI.guard (NI.bind (FixedBuffer.zero_untilL_ni _ _ _ hr.1) (fun z z' hz => NI.pure _ _ ⟨hz, hr.2⟩))

end FixedBuf

/-! ### (j) the legacy wrappers -/
section Legacy
variable {γ : Type}

/-- what is proved of an instrumented context type `ML` for the context model `M`: it computes `M`, and everything
    observable — events, panics, the public shadow `pub` of the state (buffer size and fill, flags) — is determined by
    the public shadow and by the LENGTHS of the arguments -/
structure CtxLeak (M : CtxModel γ) (ML : CtxL γ) where
  π : Type
  pub : γ → π
  update_val : ∀ c b, (ML.update_mutL c b).val = M.update_mut c b
  reset_val : ∀ c, (ML.resetL c).val = some (M.reset c)
  finalize_val : ∀ c, (ML.finalize_resetL c).val = M.finalize_reset c
  update_ni : ∀ c c' b b', pub c = pub c' → b.length = b'.length →
    NI (ML.update_mutL c b) (ML.update_mutL c' b') (fun e e' => pub e = pub e')
  reset_ni : ∀ c c', pub c = pub c' → NI (ML.resetL c) (ML.resetL c') (fun e e' => pub e = pub e')
  finalize_ni : ∀ c c', pub c = pub c' →
    NI (ML.finalize_resetL c) (ML.finalize_resetL c') (fun r r' => pub r.1 = pub r'.1 ∧ r.2.length = r'.2.length)

variable {M : CtxModel γ} {ML : CtxL γ}

theorem Legacy.inputL_val (L : CtxLeak M ML) (d : Legacy γ) (b : Bytes) :
    (Legacy.inputL ML d b).val = Legacy.input M d b := by
  unfold Legacy.inputL Legacy.input
  rw [LO.emit_bind_val]
  by_cases h : d.computed = true
  · rw [if_pos h, if_pos h]; exact LO.lift_val _
  · rw [if_neg h, if_neg h]
    lo_bind (L.update_val _ _)
    exact LO.pure_val _

theorem Legacy.resultL_val (L : CtxLeak M ML) (d : Legacy γ) (n : Nat) :
    (Legacy.resultL ML d n).val = Legacy.result M d n := by
  unfold Legacy.resultL Legacy.result
  rw [LO.emit_bind_val]
  by_cases h : d.computed = true
  · rw [if_pos h, if_pos h]; exact LO.lift_val _
  · rw [if_neg h, if_neg h]
    lo_bind2 (L.finalize_val _)
    rw [LO.emit_bind_val, LO.emit_bind_val]
    rename_i c out
    by_cases h2 : n = out.length
    · rw [if_pos h2, if_pos h2]; exact LO.pure_val _
    · rw [if_neg h2, if_neg h2]; exact LO.lift_val _

theorem Legacy.resetL_val (L : CtxLeak M ML) (d : Legacy γ) :
    (Legacy.resetL ML d).val = some (Legacy.reset M d) := by
  unfold Legacy.resetL Legacy.reset
  rw [LO.bind_val_some _ _ _ (L.reset_val _)]
  exact LO.pure_val _

/-- two wrapper objects are indistinguishable: same public shadow of the context, same `computed` flag -/
def LowL (L : CtxLeak M ML) (d d' : Legacy γ) : Prop := L.pub d.ctx = L.pub d'.ctx ∧ d.computed = d'.computed

theorem Legacy.inputL_ni (L : CtxLeak M ML) (d d' : Legacy γ) (b b' : Bytes) (hd : LowL L d d')
    (hb : b.length = b'.length) : NI (Legacy.inputL ML d b) (Legacy.inputL ML d' b') (LowL L) := by
  unfold Legacy.inputL
  rw [← hd.2]
  refine NI.bind (NI.emit _) (fun _ _ _ => NI.guard ?_)
  exact NI.bind (L.update_ni _ _ b b' hd.1 hb) (fun c c' hc => NI.pure _ _ ⟨hc, rfl⟩)

theorem Legacy.resultL_ni (L : CtxLeak M ML) (d d' : Legacy γ) (n : Nat) (hd : LowL L d d') :
    NI (Legacy.resultL ML d n) (Legacy.resultL ML d' n) (fun r r' => LowL L r.1 r'.1 ∧ r.2.length = r'.2.length) := by
  unfold Legacy.resultL
  rw [← hd.2]
  refine NI.bind (NI.emit _) (fun _ _ _ => NI.guard ?_)
  refine NI.bind (L.finalize_ni _ _ hd.1) (fun r r' hr => ?_)
  rw [← hr.2]
  refine NI.bind (NI.emit _) (fun _ _ _ => NI.bind (NI.emit _) (fun _ _ _ => NI.ite Iff.rfl ?_ NI.panic))
  exact NI.pure _ _ ⟨⟨hr.1, rfl⟩, hr.2⟩

theorem Legacy.resetL_ni (L : CtxLeak M ML) (d d' : Legacy γ) (hd : LowL L d d') :
    NI (Legacy.resetL ML d) (Legacy.resetL ML d') (LowL L) := by
  unfold Legacy.resetL
  exact NI.bind (L.reset_ni _ _ hd.1) (fun c c' hc => NI.pure _ _ ⟨hc, rfl⟩)

/-- **the legacy `Digest` wrapper of a context type that satisfies `CtxLeak` satisfies `DigestLeak`** -/
def legacyLeak (L : CtxLeak M ML) : DigestLeak (legacyDigest M) (legacyDigestL ML) where
  π := L.π × Bool
  pub d := (L.pub d.ctx, d.computed)
  input_val := Legacy.inputL_val L
  result_val := Legacy.resultL_val L
  reset_val := Legacy.resetL_val L
  input_ni d d' b b' h hb :=
    (Legacy.inputL_ni L d d' b b' ⟨congrArg Prod.fst h, congrArg Prod.snd h⟩ hb).mono
      (fun e e' he => Prod.ext he.1 he.2)
  result_ni d d' n h :=
    (Legacy.resultL_ni L d d' n ⟨congrArg Prod.fst h, congrArg Prod.snd h⟩).mono
      (fun r r' hr => ⟨Prod.ext hr.1.1 hr.1.2, hr.2⟩)
  reset_ni d d' h :=
    (Legacy.resetL_ni L d d' ⟨congrArg Prod.fst h, congrArg Prod.snd h⟩).mono (fun e e' he => Prod.ext he.1 he.2)
  block_size_pub _ _ _ := rfl
  output_bits_pub _ _ _ := rfl

end Legacy

/-! ### (k) HMAC fed in several `input` calls -/
section HmacChunks
variable {δ : Type} {D : DigestModel δ} {DL : DigestL δ}

theorem Hmac.inputsL_val (L : DigestLeak D DL) (chunks : List Bytes) :
    ∀ h : Hmac δ, (Hmac.inputsL DL h chunks).val = Hmac.inputs D h chunks := by
  induction chunks with
  | nil => intro h; exact LO.pure_val _
  | cons c cs ih =>
    intro h
    unfold Hmac.inputsL Hmac.inputs
    lo_bind (Hmac.inputL_val L _ _)
    exact ih _

/-- erasure: `new; input per chunk; raw_result` computes the plain sequence of `Impl.Hmac` calls -/
theorem hmacChunksL_val (L : DigestLeak D DL) (d : δ) (key : Bytes) (chunks : List Bytes) (n : Nat) :
    (hmacChunksL D DL d key chunks n).val = hmacChunks D d key chunks n := by
  unfold hmacChunksL hmacChunks
  lo_bind (Hmac.newL_val L _ _)
  lo_bind (Hmac.inputsL_val L _ _)
  rw [LO.bind_val, Hmac.raw_resultL_val L]
  opt_bind_cases
  · rfl
  · exact LO.pure_val _

theorem hmacChunksResultL_val (L : DigestLeak D DL) (d : δ) (key : Bytes) (chunks : List Bytes) :
    (hmacChunksResultL D DL d key chunks).val = hmacChunksResult D d key chunks := by
  unfold hmacChunksResultL hmacChunksResult
  lo_bind (Hmac.newL_val L _ _)
  lo_bind (Hmac.inputsL_val L _ _)
  rw [LO.bind_val, Hmac.resultL_val L]
  opt_bind_cases
  · rfl
  · exact LO.pure_val _

/-- `Hmac.inputs` is the `foldlM` of `Props.C08.hmac_generic` -/
theorem Hmac.inputs_eq_foldlM (D : DigestModel δ) (chunks : List Bytes) :
    ∀ h : Hmac δ, Hmac.inputs D h chunks = chunks.foldlM (Hmac.input D) h := by
  induction chunks with
  | nil => intro h; rfl
  | cons c cs ih =>
    intro h
    unfold Hmac.inputs
    rw [List.foldlM_cons]
    cases Hmac.input D h c with
    | none => rfl
    | some h' => exact ih h'

/-- with a single chunk this is the one-shot MAC -/
theorem hmacChunksResult_single (D : DigestModel δ) (d : δ) (key msg : Bytes) :
    hmacChunksResult D d key [msg] = oneShot D d key msg := by
  unfold hmacChunksResult oneShot Hmac.inputs Hmac.inputs
  cases Hmac.new D d key with
  | none => rfl
  | some h =>
    simp only []
    cases Hmac.input D h msg <;> rfl

theorem Hmac.inputsL_ni (L : DigestLeak D DL) (chunks : List Bytes) :
    ∀ (chunks' : List Bytes) (h h' : Hmac δ), LowH L h h' → chunks.map List.length = chunks'.map List.length →
      NI (Hmac.inputsL DL h chunks) (Hmac.inputsL DL h' chunks') (LowH L) := by
  induction chunks with
  | nil =>
    intro chunks' h h' hl hc
    cases chunks' with
    | nil => exact NI.pure _ _ hl
    | cons c' cs' => simp at hc
  | cons c cs ih =>
    intro chunks' h h' hl hc
    cases chunks' with
    | nil => simp at hc
    | cons c' cs' =>
      simp only [List.map_cons, List.cons.injEq] at hc
      unfold Hmac.inputsL
      exact NI.bind (Hmac.inputL_ni L h h' c c' hl hc.1) (fun g g' hg => ih cs' g g' hg hc.2)

/-- **non-interference of HMAC, any number of `input` calls**: indistinguishable digest objects, keys of the same
    LENGTH and chunk lists with the same LENGTHS give the same trace and the same panic behaviour -/
theorem hmacChunksL_ni (L : DigestLeak D DL) (d d' : δ) (key key' : Bytes) (chunks chunks' : List Bytes) (n : Nat)
    (hd : L.pub d = L.pub d') (hk : key.length = key'.length)
    (hc : chunks.map List.length = chunks'.map List.length) :
    NI (hmacChunksL D DL d key chunks n) (hmacChunksL D DL d' key' chunks' n) (fun t t' => t.length = t'.length) := by
  unfold hmacChunksL
  refine NI.bind (Hmac.newL_ni L d d' key key' hd hk) (fun h h' hh => ?_)
  refine NI.bind (Hmac.inputsL_ni L chunks chunks' h h' hh hc) (fun g g' hg => ?_)
  exact NI.bind (Hmac.raw_resultL_ni L g g' n hg) (fun r r' hr => NI.pure _ _ hr.2)

theorem hmacChunksResultL_ni (L : DigestLeak D DL) (d d' : δ) (key key' : Bytes) (chunks chunks' : List Bytes)
    (hd : L.pub d = L.pub d') (hk : key.length = key'.length)
    (hc : chunks.map List.length = chunks'.map List.length) :
    NI (hmacChunksResultL D DL d key chunks) (hmacChunksResultL D DL d' key' chunks') (fun t t' => t.length = t'.length) := by
  unfold hmacChunksResultL
  refine NI.bind (Hmac.newL_ni L d d' key key' hd hk) (fun h h' hh => ?_)
  refine NI.bind (Hmac.inputsL_ni L chunks chunks' h h' hh hc) (fun g g' hg => ?_)
  exact NI.bind (Hmac.resultL_ni L g g' hg) (fun r r' hr => NI.pure _ _ hr.2)

end HmacChunks

end Cx.Proofs.LeakModel
